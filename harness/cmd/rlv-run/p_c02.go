package main

import (
	"strings"
	"fmt"
	"math/rand"
	"unicode"
	"unicode/utf8"

	. "github.com/reeflective/readline/verifx/internal/sess"
)

// printable rune classes of the C02 quantifier
var runeClasses = []struct {
	name   string
	lo, hi rune
}{
	{"ascii", 0x20, 0x7e}, {"latin1", 0xa1, 0xff}, {"bmp", 0x100, 0x2fff}, {"wide", 0x4e00, 0x9fff},
	{"kana", 0x3041, 0x30ff}, {"astral", 0x1f300, 0x1f64f},
	// zero-width marks; the block whose UTF-8 lead byte (0xEF) also starts the U+FFFD bind of the default keymaps;
	// the lead bytes 0xE0/0xED/0xF0/0xF4 with their restricted second-byte ranges
	{"marks", 0x300, 0x36f}, {"compat", 0xf900, 0xffef}, {"e0", 0x800, 0xfff}, {"ed", 0xd000, 0xd7ff}, {"f0", 0x10000, 0x1ffff}, {"f4", 0x100000, 0x10ffff},
	{"any", 0x80, 0x10ffff},
}

func randPrintable(r *rand.Rand, class int, max int) string {
	n := 1 + r.Intn(max)
	rs := make([]rune, 0, n)
	for len(rs) < n {
		cl := runeClasses[class]
		if class > 0 && r.Intn(3) == 0 {
			cl = runeClasses[0] // mixed with ASCII
		}
		c := cl.lo + rune(r.Intn(int(cl.hi-cl.lo)+1))
		if unicode.IsPrint(c) && utf8.ValidRune(c) {
			rs = append(rs, c)
		}
	}
	return string(rs)
}

var metaVars = []string{"convert-meta", "input-meta", "output-meta", "enable-meta-key"}

func init() {
	register(&prop{id: "C02",
		gen: func(r *rand.Rand) Case {
			class := r.Intn(len(runeClasses))
			if r.Intn(3) == 0 {
				class = 0
			}
			typed := randPrintable(r, class, 24)
			sp := Spec{Prompt: "> ", Mode: "emacs", Runs: 1}
			extra := ""
			if r.Intn(4) == 0 {
				// long lines (the buffers of the line and of the display grow past their first sizes), with what the
				// display treats specially in them: a comment, brackets, quotes
				for len([]rune(typed)) < 40+r.Intn(160) {
					typed += []string{" ", " # ", "(", ")", " \"", "#", " "}[r.Intn(7)] + randPrintable(r, class, 24)
				}
				extra = "/long"
				// two hundred reads, each with its redisplay: the watchdog is for hangs, not for long sessions
				sp.Patience = 10
			}
			switch r.Intn(6) {
			case 0:
				// features that watch what is typed and must leave it alone: completion as-you-type, suggestions
				// from the history, matching brackets
				sp.Completer = stdCompleter
				extra += "/autocomplete"
			case 1:
				sp.History = stdHistory
				extra += "/autosuggest"
			case 2:
				extra += "/blink-paren"
			}
			if r.Intn(2) == 0 {
				sp.Mode = "vi"
			}
			if class == 0 {
				// ASCII must hold under every meta setting
				for _, v := range metaVars {
					if r.Intn(2) == 0 {
						sp.Inputrc += fmt.Sprintf("set %s %s\n", v, []string{"on", "off"}[r.Intn(2)])
					}
				}
			} else {
				sp.Inputrc = "set convert-meta off\nset input-meta on\nset output-meta on\n"
			}
			if strings.Contains(extra, "/autocomplete") {
				sp.Inputrc += "set autocomplete on\n"
			}
			if strings.Contains(extra, "/autosuggest") {
				sp.Inputrc += "set history-autosuggest on\n"
			}
			if strings.Contains(extra, "/blink-paren") {
				sp.Inputrc += "set blink-matching-paren on\n"
			}
			bytes := typed + "\r"
			var how string
			switch r.Intn(3) {
			case 0:
				sp.Chunks = rechunk(r, bytes, 0, false) // paste
				how = "paste"
			case 1:
				sp.Chunks = rechunk(r, bytes, 1, false) // byte at a time
				how = "bytewise"
			default:
				// rune at a time
				var ks []string
				for _, c := range typed {
					ks = append(ks, string(c))
				}
				sp.Chunks = hexChunks(append(ks, "\r"))
				how = "runewise"
			}
			return Case{Specs: []Spec{sp}, Class: runeClasses[class].name + "/" + sp.Mode + "/" + how + extra,
				Meta: map[string]string{"typed": typed, "class": runeClasses[class].name}}
		},
		oracle: func(c Case, trs []Trace) []Finding {
			tr := trs[0]
			typed := c.Meta["typed"]
			kind := "ascii"
			if c.Meta["class"] != "ascii" {
				kind = "non-ascii"
			}
			if tr.Hang || len(tr.Results) == 0 {
				return []Finding{{"C02", "no-return/" + kind, "Readline did not return", c}}
			}
			res := tr.Results[0]
			if res.Panic != "" {
				return []Finding{{"C02", "panic/" + kind, res.Panic, c}}
			}
			if res.Err != "" || res.Line != typed {
				return []Finding{{"C02", "differs/" + kind, fmt.Sprintf("typed %q, returned %q err=%q", typed, res.Line, res.Err), c}}
			}
			return nil
		}})
}
