// rlv-run is the search leg at session level: for one property it generates
// session cases from a seed, runs them on real Shell.Readline() calls through
// a pool of rlv-sess children (one pty each), applies the property's oracle to
// the traces, shrinks what fails and writes a JSON report.
//
//	rlv-run -prop C02 -n 2000 -seed 7 -sess .build/rlv-sess -j 16 -out ev.json
package main

import (
	"path/filepath"
	"bufio"
	"encoding/hex"
	"encoding/json"
	"flag"
	"fmt"
	"io"
	"math/rand"
	"os"
	"os/exec"
	"sort"
	"strings"
	"sync"
	"time"

	. "github.com/reeflective/readline/verifx/internal/sess"
)

// A Case is one oracle question: the specs it needs run and what the
// generator knows about them.
type Case struct {
	Specs []Spec            `json:"specs"`
	Keys  []string          `json:"keys,omitempty"` // hex; the key script the specs were built from (shrinking unit)
	Cut   int64             `json:"cut_seed,omitempty"`
	Class string            `json:"class"`
	Meta  map[string]string `json:"meta,omitempty"`
}

// A Finding is one failed oracle question. Sig identifies WHAT fails (panic
// site, dropped-byte class, ...) and is what known_findings.json is matched on.
type Finding struct {
	Prop   string `json:"property"`
	Sig    string `json:"signature"`
	Detail string `json:"detail"`
	Case   Case   `json:"case"`
}

type prop struct {
	id     string
	gen    func(r *rand.Rand) Case
	oracle func(c Case, tr []Trace) []Finding
	// build (re)derives Specs[*].Chunks from Keys and Cut; set when a case can be
	// shrunk by deleting keys
	build      func(c *Case)
	shrinkable bool
}

var props = map[string]*prop{}

// oracle-side counters: what the oracles actually got to decide (evidence of non-vacuity)
var (
	statMu sync.Mutex
	stats  = map[string]int{}
)

func stat(name string) {
	statMu.Lock()
	stats[name]++
	statMu.Unlock()
}

func register(p *prop) { props[p.id] = p }

// ---- worker pool --------------------------------------------------------

type worker struct {
	path string
	cmd  *exec.Cmd
	in   io.WriteCloser
	out  *bufio.Reader
}

func (w *worker) start() error {
	w.cmd = exec.Command(w.path)
	w.cmd.Env = append(os.Environ(), "RLV_SCRATCH="+os.Getenv("RLV_SCRATCH"))
	var err error
	if w.in, err = w.cmd.StdinPipe(); err != nil {
		return err
	}
	o, err := w.cmd.StdoutPipe()
	if err != nil {
		return err
	}
	w.out = bufio.NewReaderSize(o, 1<<20)
	return w.cmd.Start()
}

func (w *worker) stop() {
	if w.cmd != nil && w.cmd.Process != nil {
		w.in.Close()
		w.cmd.Process.Kill()
		w.cmd.Wait()
	}
	w.cmd = nil
}

var watchdog = 2 * time.Second

// run executes one spec; on watchdog expiry the child is killed and the trace
// says Hang (the child is restarted for the next spec).
func (w *worker) run(sp Spec) Trace {
	if w.cmd == nil {
		if err := w.start(); err != nil {
			return Trace{ID: sp.ID, Error: err.Error()}
		}
	}
	b, _ := json.Marshal(sp)
	w.in.Write(append(b, '\n'))
	type res struct {
		line []byte
		err  error
	}
	ch := make(chan res, 1)
	go func() {
		l, err := w.out.ReadBytes('\n')
		ch <- res{l, err}
	}()
	select {
	case r := <-ch:
		if r.err != nil {
			w.stop()
			return Trace{ID: sp.ID, Error: "child died: " + r.err.Error()}
		}
		var tr Trace
		if err := json.Unmarshal(r.line, &tr); err != nil {
			return Trace{ID: sp.ID, Error: "bad trace: " + err.Error()}
		}
		return tr
	case <-time.After(watchdog * time.Duration(max(1, sp.Patience))):
		w.stop()
		return Trace{ID: sp.ID, Hang: true}
	}
}

func runCase(w *worker, c Case) []Trace {
	trs := make([]Trace, len(c.Specs))
	for i, sp := range c.Specs {
		trs[i] = w.run(sp)
	}
	return trs
}

// ---- helpers for generators ------------------------------------------------

func hexChunks(keys []string) []string {
	out := make([]string, len(keys))
	for i, k := range keys {
		out[i] = hex.EncodeToString([]byte(k))
	}
	return out
}

func unhex(chunks []string) string {
	var sb strings.Builder
	for _, c := range chunks {
		b, _ := hex.DecodeString(c)
		sb.Write(b)
	}
	return sb.String()
}

// rechunk cuts the byte string s at random places; never directly after a byte in noSplitAfter.
func rechunk(r *rand.Rand, s string, p float64, keepAfterEsc bool) []string {
	var out []string
	cur := []byte{}
	for i := 0; i < len(s); i++ {
		cur = append(cur, s[i])
		if i+1 < len(s) && r.Float64() < p && !(keepAfterEsc && s[i] == 0x1b) {
			out = append(out, hex.EncodeToString(cur))
			cur = nil
		}
	}
	if len(cur) > 0 {
		out = append(out, hex.EncodeToString(cur))
	}
	return out
}

type report struct {
	Prop      string         `json:"property"`
	Seed      int64          `json:"seed"`
	Cases     int            `json:"cases"`
	Sessions  int            `json:"sessions"`
	Classes   map[string]int `json:"classes"`
	Decided   map[string]int `json:"oracle_outcomes"`
	Findings  []Finding      `json:"findings"`
	BySig     map[string]int `json:"findings_by_signature"`
	Hangs     int            `json:"hangs"`
	HangCases []Case         `json:"hang_cases,omitempty"`
	ChildErrs int            `json:"child_errors"`
	WallS     float64        `json:"wall_s"`
}

func shrink(w *worker, p *prop, f Finding) Finding {
	if !p.shrinkable || p.build == nil || len(f.Case.Keys) == 0 {
		return f
	}
	best := f
	budget := 120
	for pass := 0; pass < 4 && budget > 0; pass++ {
		improved := false
		for i := 0; i < len(best.Case.Keys) && len(best.Case.Keys) > 1 && budget > 0; i++ {
			c := best.Case
			c.Specs = append([]Spec{}, best.Case.Specs...)
			c.Keys = append(append([]string{}, best.Case.Keys[:i]...), best.Case.Keys[i+1:]...)
			p.build(&c)
			budget--
			for _, g := range p.oracle(c, runCase(w, c)) {
				if g.Sig == f.Sig {
					best = g
					i--
					improved = true
					break
				}
			}
		}
		if !improved {
			break
		}
	}
	return best
}

func main() {
	id := flag.String("prop", "", "property id")
	n := flag.Int("n", 1000, "cases")
	seed := flag.Int64("seed", 1, "PRNG seed")
	sessPath := flag.String("sess", "rlv-sess", "session child executable")
	j := flag.Int("j", 8, "parallel children")
	out := flag.String("out", "", "report path (default stdout)")
	wd := flag.Duration("watchdog", 2*time.Second, "per-session watchdog")
	noShrink := flag.Bool("noshrink", false, "do not shrink findings")
	replay := flag.String("replay", "", "re-run the case of a finding/replay file instead of generating")
	corpus := flag.String("corpus", "", "directory of replay files (minimised past failures) whose cases run first")
	flag.Parse()
	watchdog = *wd
	p := props[*id]
	if *noShrink && p != nil {
		p.shrinkable = false
	}
	if p == nil {
		var ids []string
		for k := range props {
			ids = append(ids, k)
		}
		sort.Strings(ids)
		fmt.Fprintln(os.Stderr, "unknown property; have:", ids)
		os.Exit(2)
	}
	t0 := time.Now()
	rep := report{Prop: p.id, Seed: *seed, Classes: map[string]int{}, BySig: map[string]int{}}
	var cases []Case
	if *replay != "" {
		b, err := os.ReadFile(*replay)
		if err != nil {
			fmt.Fprintln(os.Stderr, err)
			os.Exit(2)
		}
		var f Finding
		json.Unmarshal(b, &f)
		cases = []Case{f.Case}
	} else {
		// the committed corpus of past failures runs first, on every seed
		if *corpus != "" {
			if ents, err := os.ReadDir(*corpus); err == nil {
				for _, e := range ents {
					if !strings.HasSuffix(e.Name(), ".json") {
						continue
					}
					if b, err := os.ReadFile(filepath.Join(*corpus, e.Name())); err == nil {
						var f Finding
						if json.Unmarshal(b, &f) == nil && len(f.Case.Specs) > 0 {
							f.Case.Class = "corpus/" + f.Case.Class
							cases = append(cases, f.Case)
						}
					}
				}
			}
		}
		rng := rand.New(rand.NewSource(*seed))
		for i := 0; i < *n; i++ {
			c := p.gen(rng)
			for k := range c.Specs {
				c.Specs[k].ID = fmt.Sprintf("%s-%d-%d.%d", p.id, *seed, i, k)
			}
			cases = append(cases, c)
		}
	}
	var mu sync.Mutex
	var wg sync.WaitGroup
	next := 0
	for k := 0; k < *j; k++ {
		wg.Add(1)
		go func() {
			defer wg.Done()
			w := &worker{path: *sessPath}
			defer w.stop()
			for {
				mu.Lock()
				if next >= len(cases) {
					mu.Unlock()
					return
				}
				c := cases[next]
				next++
				mu.Unlock()
				trs := runCase(w, c)
				fs := p.oracle(c, trs)
				mu.Lock()
				rep.Cases++
				rep.Sessions += len(trs)
				rep.Classes[c.Class]++
				for _, t := range trs {
					if t.Hang {
						rep.Hangs++
						if len(rep.HangCases) < 5 {
							rep.HangCases = append(rep.HangCases, c)
						}
					}
					if t.Error != "" {
						rep.ChildErrs++
					}
				}
				for _, f := range fs {
					rep.BySig[f.Sig]++
				}
				seenBefore := map[string]bool{}
				for _, f := range rep.Findings {
					seenBefore[f.Sig] = true
				}
				mu.Unlock()
				for _, f := range fs {
					if seenBefore[f.Sig] {
						continue
					}
					f = shrink(w, p, f)
					mu.Lock()
					dup := false
					for _, g := range rep.Findings {
						if g.Sig == f.Sig {
							dup = true
						}
					}
					if !dup {
						rep.Findings = append(rep.Findings, f)
					}
					mu.Unlock()
				}
			}
		}()
	}
	wg.Wait()
	sort.Slice(rep.Findings, func(a, b int) bool { return rep.Findings[a].Sig < rep.Findings[b].Sig })
	rep.Decided = stats
	rep.WallS = time.Since(t0).Seconds()
	b, _ := json.MarshalIndent(rep, "", " ")
	if *out != "" {
		os.WriteFile(*out, b, 0o644)
	} else {
		fmt.Println(string(b))
	}
	if len(rep.Findings) > 0 {
		os.Exit(1)
	}
}
