package main

import (
	"encoding/hex"
	"fmt"
	"math/rand"
	"strings"

	. "github.com/reeflective/readline/verifx/internal/sess"
)

// inputrc notation of a byte string made of control and printable ASCII keys
func rcSeq(s string) string {
	var sb strings.Builder
	for _, b := range []byte(s) {
		switch {
		case b == 0x1b:
			sb.WriteString(`\e`)
		case b < 0x20:
			sb.WriteString(`\C-` + string(rune(b+0x60)))
		case b == '\\' || b == '"':
			sb.WriteString(`\` + string(rune(b)))
		default:
			sb.WriteByte(b)
		}
	}
	return sb.String()
}

func init() {
	// user sequences: a prefix key that the default keymaps leave to users, then letters
	leaders := []string{"\x18\x19", "\x18\x1a", "\x1bO9", "\x1b[9"}
	register(&prop{id: "C03",
		gen: func(r *rand.Rand) Case {
			sp := Spec{Prompt: "> ", Mode: "emacs", Runs: 1}
			if r.Intn(2) == 0 {
				sp.Mode = "vi"
			}
			if r.Intn(5) == 0 {
				// a bound sequence that longer binds extend by two keys or more: the first of those keys arrives, then
				// a key that rules the longer binds out — the shorter bind runs (first of whatever runs afterwards)
				short := leaders[r.Intn(len(leaders))] + string(rune('a'+r.Intn(3)))
				ext := string(rune('a'+r.Intn(3))) + string(rune('a'+r.Intn(3)))
				if r.Intn(2) == 0 {
					ext += string(rune('a' + r.Intn(3)))
				}
				sp.Probes = 2
				sp.Binds = []Bind{{Seq: rcSeq(short), Cmd: "verif-probe-0"}, {Seq: rcSeq(short + ext), Cmd: "verif-probe-1"}}
				n := 1 + r.Intn(len(ext)-1) // keys of the extension that are typed
				stream := short + ext[:n] + "z"
				var chunks []string
				if r.Intn(2) == 0 {
					chunks = []string{stream}
				} else {
					for i := 0; i < len(stream); i++ {
						if stream[i] == 0x1b && sp.Mode == "vi" && i+1 < len(stream) {
							chunks = append(chunks, stream[i:i+2])
							i++
							continue
						}
						chunks = append(chunks, stream[i:i+1])
					}
				}
				sp.Chunks = hexChunks(chunks)
				return Case{Specs: []Spec{sp}, Class: sp.Mode + "/overlap", Meta: map[string]string{"first": "verif-probe-0:"}}
			}
			nb := 2 + r.Intn(5)
			sp.Probes = nb
			seqs := map[string]int{}
			var order []string
			for len(order) < nb {
				s := leaders[r.Intn(len(leaders))]
				for k := 1 + r.Intn(3); k > 0; k-- {
					s += string(rune('a' + r.Intn(3)))
				}
				if _, dup := seqs[s]; dup {
					continue
				}
				seqs[s] = len(order)
				order = append(order, s)
			}
			for i, s := range order {
				sp.Binds = append(sp.Binds, Bind{Seq: rcSeq(s), Cmd: fmt.Sprintf("verif-probe-%d", i)})
			}
			// the typed stream: bound sequences, each delivered in one read or key by key
			var chunks []string
			var expect []string
			for k := 1 + r.Intn(6); k > 0; k-- {
				s := order[r.Intn(len(order))]
				// skip sequences that have a bound proper extension or a bound proper prefix: those
				// clauses (wait for more / run the shorter) are decided at component level
				clean := true
				for o := range seqs {
					if o != s && (strings.HasPrefix(o, s) || strings.HasPrefix(s, o)) {
						clean = false
					}
				}
				if !clean {
					continue
				}
				if r.Intn(2) == 0 {
					chunks = append(chunks, s)
				} else {
					// key by key; in vi a read never ends directly after ESC (a lone ESC is a key there)
					for i := 0; i < len(s); i++ {
						if s[i] == 0x1b && sp.Mode == "vi" && i+1 < len(s) {
							chunks = append(chunks, s[i:i+2])
							i++
							continue
						}
						chunks = append(chunks, s[i:i+1])
					}
				}
				expect = append(expect, fmt.Sprintf("verif-probe-%d:%s", seqs[s], hex.EncodeToString([]byte(s))))
				if r.Intn(3) == 0 {
					chunks = append(chunks, "z") // a self-inserting key between commands
				}
			}
			sp.Chunks = hexChunks(chunks)
			return Case{Specs: []Spec{sp}, Class: fmt.Sprintf("%s/binds=%d", sp.Mode, nb), Meta: map[string]string{"expect": strings.Join(expect, " ")}}
		},
		oracle: func(c Case, trs []Trace) []Finding {
			tr := trs[0]
			if tr.Hang {
				return nil
			}
			for _, res := range tr.Results {
				if res.Panic != "" {
					return nil
				}
			}
			if first := c.Meta["first"]; first != "" {
				stat("overlap: decided")
				if len(tr.Invoked) == 0 || !strings.HasPrefix(tr.Invoked[0], first) {
					return []Finding{{"C03", "shorter-bind-does-not-run/" + c.Specs[0].Mode, fmt.Sprintf("binds %v, typed %q\ninvoked %v", c.Specs[0].Binds, unhex(c.Specs[0].Chunks), tr.Invoked), c}}
				}
				if len(tr.Invoked) > 1 {
					return []Finding{{"C03", "runs-more-than-the-shorter-bind/" + c.Specs[0].Mode, fmt.Sprintf("binds %v, typed %q\ninvoked %v", c.Specs[0].Binds, unhex(c.Specs[0].Chunks), tr.Invoked), c}}
				}
				return nil
			}
			got := strings.Join(tr.Invoked, " ")
			stat("decided")
			if got != c.Meta["expect"] {
				return []Finding{{"C03", "wrong-commands/" + c.Specs[0].Mode, fmt.Sprintf("binds %v\nexpected %s\ninvoked  %s", c.Specs[0].Binds, c.Meta["expect"], got), c}}
			}
			return nil
		}})
}
