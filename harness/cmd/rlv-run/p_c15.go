package main

import (
	"fmt"
	"math/rand"
	"strings"

	. "github.com/reeflective/readline/verifx/internal/sess"
)

func init() {
	// C15: menu-complete cycles through every candidate exactly once
	register(&prop{id: "C15",
		gen: func(r *rand.Rand) Case {
			n := 1 + r.Intn(24)
			if r.Intn(6) == 0 {
				n = 25 + r.Intn(36)
			}
			kind := []string{"plain", "described", "aliased", "tagged", "long"}[r.Intn(5)]
			var cands []Cand
			for i := 0; i < n; i++ {
				c := Cand{Value: fmt.Sprintf("cand%02d", i)}
				switch kind {
				case "described":
					c.Desc = fmt.Sprintf("description %d", i)
				case "aliased":
					c.Desc = fmt.Sprintf("shared %d", i/2) // two values per description
				case "tagged":
					c.Tag = fmt.Sprintf("tag%d", i%3)
				case "long":
					c.Value += strings.Repeat("x", 10+r.Intn(30))
				}
				cands = append(cands, c)
			}
			w := []int{80, 80, 40, 24, 120}[r.Intn(5)]
			h := []int{24, 24, 8, 50}[r.Intn(4)]
			dir := []string{"forward", "backward"}[r.Intn(2)]
			sp := Spec{Prompt: "> ", Mode: "emacs", Runs: 1, Width: w, Height: h, Completer: cands}
			// the word being completed: empty, a prefix of every candidate, or (completion-ignore-case) a prefix
			// in another case — every candidate still matches and takes the place of the word
			typed := ""
			switch r.Intn(4) {
			case 0:
				typed = "ca"
			case 1:
				typed = []string{"CA", "Ca", "cA", "CAND"}[r.Intn(4)]
				sp.Inputrc = "set completion-ignore-case on\n"
			case 2:
				if r.Intn(2) == 0 {
					typed = "ca"
					sp.Inputrc = "set completion-ignore-case on\n"
					for i := range cands {
						if r.Intn(3) == 0 {
							cands[i].Value = "C" + cands[i].Value[1:]
						}
					}
				}
			}
			if kind == "aliased" {
				typed, sp.Inputrc = "", ""
			}
			// TAB opens the menu (complete) and then is menu-complete in the menu-select keymap;
			// Shift-TAB is menu-complete-backward there
			var keys []string
			for _, ch := range typed {
				keys = append(keys, string(ch))
			}
			if dir == "backward" {
				keys = append(keys, "\t")
			}
			for i := 0; i < 2*n+3; i++ {
				if dir == "backward" {
					keys = append(keys, "\x1b[Z")
				} else {
					keys = append(keys, "\t")
				}
			}
			sp.Chunks = hexChunks(keys)
			cl := kind + "/" + dir
			if typed != "" {
				cl += "/word"
			}
			if sp.Inputrc != "" {
				cl += "/ignore-case"
			}
			return Case{Specs: []Spec{sp}, Class: cl, Meta: map[string]string{"n": fmt.Sprint(n), "kind": kind, "dir": dir, "typed": typed}}
		},
		oracle: func(c Case, trs []Trace) []Finding {
			tr := trs[0]
			if tr.Hang {
				stat("skipped: hang")
				return nil
			}
			for _, res := range tr.Results {
				if res.Panic != "" {
					stat("skipped: panic")
					return nil
				}
			}
			var n int
			fmt.Sscan(c.Meta["n"], &n)
			values := map[string]bool{}
			for _, cd := range c.Specs[0].Completer {
				values[cd.Value] = true
			}
			// the buffers shown after each invocation (wait k+1 is the state after key k)
			var shown []string
			typed := c.Meta["typed"]
			for k := 1 + len([]rune(typed)); k < len(tr.Waits); k++ {
				shown = append(shown, strings.TrimRight(tr.Waits[k].Line, " "))
			}
			if len(shown) < 2*n {
				stat("skipped: session ended early")
				return nil
			}
			stat("decided")
			sig := c.Meta["kind"] + "/" + c.Meta["dir"]
			// first cycle: the candidates only, each exactly once; a full cycle may contain one step
			// that shows the original (empty) word again
			var cycle []string
			for _, s := range shown {
				if len(cycle) > 0 && s == cycle[0] {
					break
				}
				cycle = append(cycle, s)
			}
			seen := map[string]int{}
			for _, s := range cycle {
				if s == typed {
					continue
				}
				if !values[s] {
					return []Finding{{"C15", "shows-non-candidate/" + sig, fmt.Sprintf("%d candidates, buffer %q is not a candidate; cycle %q", n, s, cycle), c}}
				}
				seen[s]++
				if seen[s] > 1 {
					return []Finding{{"C15", "candidate-twice/" + sig, fmt.Sprintf("%d candidates, %q shown twice in one cycle: %q", n, s, cycle), c}}
				}
			}
			if len(seen) != n {
				var missing []string
				for v := range values {
					if seen[v] == 0 {
						missing = append(missing, v)
					}
				}
				return []Finding{{"C15", "candidate-skipped/" + sig, fmt.Sprintf("%d candidates, cycle visits %d; missing %q; cycle %q", n, len(seen), missing, cycle), c}}
			}
			return nil
		}})
}
