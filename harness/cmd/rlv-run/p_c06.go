package main

import (
	"fmt"
	"math/rand"
	"strings"

	. "github.com/reeflective/readline/verifx/internal/sess"
)

// Commands documented as pure movements or copies (no argument read from the keyboard).
var movements = []string{
	"forward-char", "backward-char", "forward-word", "backward-word", "shell-forward-word", "shell-backward-word",
	"beginning-of-line", "end-of-line", "previous-screen-line", "next-screen-line",
	"copy-region-as-kill", "copy-backward-word", "copy-forward-word", "set-mark", "exchange-point-and-mark",
	"vi-backward-char", "vi-forward-char", "vi-backward-word", "vi-forward-word", "vi-prev-word", "vi-next-word",
	"vi-backward-bigword", "vi-forward-bigword", "vi-end-word", "vi-end-bigword", "vi-match", "vi-column",
	"vi-end-of-line", "vi-back-to-indent", "vi-first-print", "vi-backward-end-word", "vi-backward-end-bigword",
	"vi-yank-whole-line",
}

var bufferPool = []string{"", "a", "ab cd", "foo bar  baz", "a\nb", "one\n\ntwo", "é", "héllo wörld", "中文 字", "a(b[c]d)e", "\"q w\" 'x'", "x\n", "\nx",
	"  lead", "trail  ", "a-b.c/d", "ls -la /tmp/été"}

func isViCmd(m string) bool { return m == "vi-command" || m == "vi-move" || m == "vi" }

// checkWait applies the C06 state invariants to one snapshot.
func checkWait(w Wait) (string, string) {
	l := []rune(w.Line)
	if w.Pos < 0 || w.Pos > len(l) {
		return "cursor-out-of-range", fmt.Sprintf("pos=%d len=%d line=%q keymap=%s/%s", w.Pos, len(l), w.Line, w.Main, w.Local)
	}
	b, e := w.Sel[0], w.Sel[1]
	if !(b == -1 && e == -1) && (b < 0 || e > len(l) || b > e) {
		return "selection-out-of-range", fmt.Sprintf("sel=(%d,%d) len=%d line=%q keymap=%s/%s", b, e, len(l), w.Line, w.Main, w.Local)
	}
	if w.Kind == "main" && isViCmd(w.Main) && w.Local != "isearch" && len(l) > 0 {
		p := w.Pos
		onChar := p < len(l) && l[p] != '\n'
		emptyLine := (p == len(l) && l[p-1] == '\n') || (p < len(l) && l[p] == '\n' && (p == 0 || l[p-1] == '\n'))
		if !onChar && !emptyLine {
			return "vi-command-cursor-off-char", fmt.Sprintf("pos=%d line=%q keymap=%s/%s", p, w.Line, w.Main, w.Local)
		}
	}
	return "", ""
}

func init() {
	buildA := func(c *Case) { c.Specs[0].Chunks = c.Keys }
	_ = buildA
	register(&prop{id: "C06", shrinkable: true,
		build: func(c *Case) {
			if c.Meta["part"] == "invariants" {
				c.Specs[0].Chunks = c.Keys
			}
		},
		gen: func(r *rand.Rand) Case {
			if r.Intn(5) == 0 {
				// part C: several Readline calls on one shell, each ended by one of the accept commands; every
				// call must return at its accepting key, and return the buffer as it was at that key
				accepts := []string{"\r", "\n", "\x18\x1aa", "\x18\x1ab", "\x18\x1ac"} // RET, C-j, accept-and-hold, operate-and-get-next, accept-and-infer-next-history
				edits := []string{"a", "b", " ", "x", "\x01", "\x05", "\x02", "\x06", "\x17", "\x0b", "\x7f", "\x1bb", "\x1bf", "\x14"}
				sp := Spec{Prompt: "> ", Mode: "emacs", Runs: 2 + r.Intn(3), History: stdHistory,
					Binds: []Bind{{Seq: `\C-x\C-za`, Cmd: "accept-and-hold"}, {Seq: `\C-x\C-zb`, Cmd: "operate-and-get-next"}, {Seq: `\C-x\C-zc`, Cmd: "accept-and-infer-next-history"}}}
				var keys []string
				var ends []string
				for run := 0; run < sp.Runs; run++ {
					for k := 1 + r.Intn(6); k > 0; k-- {
						keys = append(keys, edits[r.Intn(len(edits))])
					}
					keys = append(keys, "z", accepts[r.Intn(len(accepts))])
					ends = append(ends, fmt.Sprint(len(keys)))
				}
				sp.Chunks = hexChunks(keys)
				return Case{Specs: []Spec{sp}, Class: "acceptance/emacs", Meta: map[string]string{"part": "acceptance", "ends": strings.Join(ends, ",")}}
			}
			if r.Intn(6) == 0 {
				// part D: Vi command mode, several yanks in a row into the unnamed and the lettered registers
				// (a capital letter appends to the register): copies never change the buffer
				yanks := []string{"Y", "yy", "yw", "yl", "y$", "yb", "ye", "yW", "y0"}
				regs := []string{"", "", "\"a", "\"A", "\"A", "\"b", "\"B"}
				buf := bufferPool[r.Intn(len(bufferPool))]
				if r.Intn(2) == 0 {
					buf = []string{"foo\nbar", "hello", "one two\nthree four\nfive", "héllo wörld\nété"}[r.Intn(4)]
				}
				pos := r.Intn(len([]rune(buf)) + 1)
				sp := Spec{Prompt: "> ", Mode: "vi", Runs: 1, History: stdHistory,
					Inject: []Inject{{Seq: `\C-x\C-y0`, Line: buf, Pos: pos}}}
				keys := []string{"\x1b", "\x18\x190"}
				if r.Intn(3) == 0 {
					keys = append(keys, "A", "x", "y", "\x1b") // text appended first: the line has room to spare
				}
				pre := len(keys)
				for k := 2 + r.Intn(4); k > 0; k-- {
					keys = append(keys, regs[r.Intn(len(regs))]+yanks[r.Intn(len(yanks))])
				}
				sp.Chunks = hexChunks(keys)
				return Case{Specs: []Spec{sp}, Class: "yanks/vi", Meta: map[string]string{"part": "yanks", "pre": fmt.Sprint(pre)}}
			}
			if r.Intn(8) == 0 {
				// part E: Vi command mode, a non-incremental history search (/ or ?, a pattern that is empty, shorter,
				// as long as or longer than the line it fetches, RET), then search-again keys and movements: the
				// state invariants at every wait (the cursor on a character in command mode)
				sp := Spec{Prompt: "> ", Mode: "vi", Runs: 1, History: stdHistory}
				keys := []string{"\x1b"}
				for k := 1 + r.Intn(3); k > 0; k-- {
					keys = append(keys, []string{"?", "/"}[r.Intn(2)])
					for _, ch := range []string{"", "one", "three", "one two three", "one two", "zzz", "t", "one two three four"}[r.Intn(8)] {
						keys = append(keys, string(ch))
					}
					keys = append(keys, "\r")
					for j := r.Intn(3); j > 0; j-- {
						keys = append(keys, []string{"n", "N", "l", "h", "$", "x"}[r.Intn(6)])
					}
				}
				c := Case{Specs: []Spec{sp}, Keys: hexChunks(keys), Class: "invariants/vi-search", Meta: map[string]string{"part": "invariants"}}
				c.Specs[0].Chunks = c.Keys
				return c
			}
			if r.Intn(2) == 0 {
				// part A: state invariants at every wait of a random session; returned line = accepted buffer
				sp := baseSpec(r)
				keys := randScript(r, 20)
				if r.Intn(2) == 0 {
					keys = append(keys, "z", "\r")
				}
				c := Case{Specs: []Spec{sp}, Keys: hexChunks(keys), Class: "invariants/" + sp.Mode, Meta: map[string]string{"part": "invariants"}}
				c.Specs[0].Chunks = c.Keys
				return c
			}
			// part B: a movement/copy command, by name, on an injected state, with a count
			cmd := movements[r.Intn(len(movements))]
			buf := bufferPool[r.Intn(len(bufferPool))]
			pos := r.Intn(len([]rune(buf)) + 1)
			sp := Spec{Prompt: "> ", Mode: "emacs", Runs: 1, History: stdHistory,
				Inject: []Inject{{Seq: `\C-x\C-y0`, Line: buf, Pos: pos}},
				Binds:  []Bind{{Seq: `\C-x\C-za`, Cmd: cmd}}}
			var keys []string
			vi := r.Intn(2) == 0
			if vi {
				sp.Mode = "vi"
				keys = append(keys, "\x1b")
			}
			keys = append(keys, "\x18\x190")
			count := ""
			switch r.Intn(4) {
			case 0:
				count = fmt.Sprint(1 + r.Intn(12))
			case 1:
				count = "-" // negative argument (emacs)
			}
			if count != "" {
				if vi && count != "-" {
					for _, d := range count {
						keys = append(keys, string(d))
					}
				} else if !vi {
					// emacs: every digit of the argument is typed as M-<digit>
					for _, d := range count {
						keys = append(keys, "\x1b"+string(d))
					}
				}
			}
			keys = append(keys, "\x18\x1aa")
			sp.Chunks = hexChunks(keys)
			return Case{Specs: []Spec{sp}, Class: "movement/" + sp.Mode, Meta: map[string]string{"part": "movement", "cmd": cmd, "buf": buf, "count": count}}
		},
		oracle: func(c Case, trs []Trace) []Finding {
			tr := trs[0]
			var fs []Finding
			if c.Meta["part"] == "acceptance" {
				if tr.Hang {
					return nil
				}
				for _, res := range tr.Results {
					if res.Panic != "" {
						return nil
					}
				}
				ends := strings.Split(c.Meta["ends"], ",")
				for i, e := range ends {
					var end int
					fmt.Sscan(e, &end)
					if i >= len(tr.Results) {
						break
					}
					res := tr.Results[i]
					stat("acceptance: call decided")
					if res.Err == "end-of-script" {
						return []Finding{{"C06", "accept-key-does-not-return", fmt.Sprintf("call %d of %d did not return at its accepting key", i+1, len(ends)), c}}
					}
					// the accepting key is chunk end-1: it is read at wait number `end` (1-based), so NWaits == end
					if res.NWaits != end {
						return []Finding{{"C06", "returned-without-acceptance", fmt.Sprintf("call %d of %d returned %q after %d input waits; its accepting key is read at wait %d", i+1, len(ends), res.Line, res.NWaits, end), c}}
					}
					if w := tr.Waits[end-1]; res.Line != w.Line {
						return []Finding{{"C06", "returned-differs-from-buffer", fmt.Sprintf("call %d of %d: buffer %q at the accepting key, returned %q", i+1, len(ends), w.Line, res.Line), c}}
					}
				}
				return nil
			}
			if c.Meta["part"] == "yanks" {
				if tr.Hang || len(tr.Waits) == 0 {
					return nil
				}
				for _, res := range tr.Results {
					if res.Panic != "" {
						return nil
					}
				}
				// the buffer when the first yank is about to be read, and after every yank
				var pre int
				fmt.Sscan(c.Meta["pre"], &pre)
				if pre >= len(tr.Waits) {
					return nil
				}
				stat("yanks: decided")
				for i := pre + 1; i < len(tr.Waits); i++ {
					if tr.Waits[i].Line != tr.Waits[pre].Line {
						return []Finding{{"C06", "yank-edits", fmt.Sprintf("yank %d of the sequence %q changed %q into %q", i-pre, unhex(c.Specs[0].Chunks[pre:]), tr.Waits[pre].Line, tr.Waits[i].Line), c}}
					}
				}
				return nil
			}
			if c.Meta["part"] == "movement" {
				if tr.Hang || len(tr.Waits) == 0 {
					return nil // crash or hang: C01's business
				}
				for _, res := range tr.Results {
					if res.Panic != "" {
						return nil
					}
				}
				last := tr.Waits[len(tr.Waits)-1]
				if last.Line != c.Meta["buf"] {
					fs = append(fs, Finding{"C06", "movement-edits/" + c.Meta["cmd"], fmt.Sprintf("%s (count %q, %s) changed %q into %q", c.Meta["cmd"], c.Meta["count"], c.Specs[0].Mode, c.Meta["buf"], last.Line), c})
				}
				if sig, d := checkWait(last); sig != "" {
					fs = append(fs, Finding{"C06", sig + "/" + c.Meta["cmd"], d, c})
				}
				return fs
			}
			seen := map[string]bool{}
			for i, w := range tr.Waits {
				if sig, d := checkWait(w); sig != "" && !seen[sig] {
					seen[sig] = true
					fs = append(fs, Finding{"C06", sig, fmt.Sprintf("at wait %d: %s", i, d), c})
				}
			}
			// returned line = buffer at acceptance, for a plain accept-line after a self-inserted key
			chunks := c.Specs[0].Chunks
			for _, res := range tr.Results {
				n := res.NWaits
				if res.Panic != "" || res.Err != "" || n < 2 || n > len(chunks) || n > len(tr.Waits) || c.Specs[0].Multi != "" {
					continue
				}
				w := tr.Waits[n-1]
				if unhex(chunks[n-1:n]) == "\r" && unhex(chunks[n-2:n-1]) == "z" && w.Kind == "main" && w.Local == "" &&
					(w.Main == "emacs" || w.Main == "vi-insert") && strings.HasSuffix(w.Line, "z") {
					if res.Line != w.Line {
						fs = append(fs, Finding{"C06", "returned-differs-from-buffer", fmt.Sprintf("buffer %q, returned %q", w.Line, res.Line), c})
					}
				}
			}
			return fs
		}})
}
