package main

import (
	"fmt"
	"math/rand"
	"strings"

	. "github.com/reeflective/readline/verifx/internal/sess"
)

var killCmds = []string{"kill-line", "backward-kill-line", "unix-line-discard", "kill-whole-line", "kill-word", "backward-kill-word",
	"unix-word-rubout", "shell-kill-word", "shell-backward-kill-word", "kill-buffer"}

// removedBy reports whether after = before with exactly the substring `removed`
// cut out, and the positions at which that cut can have happened.
func removedBy(before, after, removed []rune) (at []int) {
	if len(before) != len(after)+len(removed) {
		return nil
	}
	for i := 0; i+len(removed) <= len(before); i++ {
		if string(before[i:i+len(removed)]) == string(removed) && string(before[:i])+string(before[i+len(removed):]) == string(after) {
			at = append(at, i)
		}
	}
	return at
}

// cutPoints lists where `after` can have lost a substring of `before`.
func cutPoints(before, after []rune) (at []int) {
	k := len(before) - len(after)
	if k <= 0 {
		return nil
	}
	for i := 0; i+k <= len(before); i++ {
		if string(before[:i])+string(before[i+k:]) == string(after) {
			at = append(at, i)
		}
	}
	return at
}

func countKeys(vi bool, n int) []string {
	var keys []string
	for _, d := range fmt.Sprint(n) {
		if vi {
			keys = append(keys, string(d))
		} else {
			keys = append(keys, "\x1b"+string(d))
		}
	}
	return keys
}

func init() {
	register(&prop{id: "C16",
		gen: func(r *rand.Rand) Case {
			buf := bufferPool[r.Intn(len(bufferPool))]
			pos := r.Intn(len([]rune(buf)) + 1)
			sp := Spec{Prompt: "> ", Mode: "emacs", Runs: 1,
				Inject: []Inject{{Seq: `\C-x\C-y0`, Line: buf, Pos: pos}, {Seq: `\C-x\C-y1`, Line: "zero one two", Pos: 5}},
				Binds:  []Bind{{Seq: `\C-x\C-zb`, Cmd: "yank"}}}
			count := 0
			if r.Intn(3) == 0 {
				count = 1 + r.Intn(4)
			}
			meta := map[string]string{"buf": buf, "pos": fmt.Sprint(pos), "count": fmt.Sprint(count)}
			var keys []string
			if r.Intn(8) == 0 {
				// the text is killed, yanked back (into the line the kill left, often empty), the line is then edited —
				// characters typed in its middle, a character deleted, a word case-changed — and yanked into again:
				// what comes out of the ring is still what the kill took (the line must not share storage with the ring)
				meta["kind"], meta["cmd"] = "yank-then-edit", []string{"kill-whole-line", "kill-line", "backward-kill-line", "kill-buffer"}[r.Intn(4)]
				sp.Binds = append(sp.Binds, Bind{Seq: `\C-x\C-za`, Cmd: meta["cmd"]})
				if meta["cmd"] == "kill-line" {
					sp.Inject[0].Pos = 0
				} else if meta["cmd"] == "backward-kill-line" {
					sp.Inject[0].Pos = len([]rune(buf))
				}
				keys = append(keys, "\x18\x190", "\x18\x1aa", "\x18\x1ab", "\x01")
				for k := r.Intn(4); k > 0; k-- {
					keys = append(keys, "\x06")
				}
				keys = append(keys, []string{"X", "X", "\x04", "\x1bu", "\x14"}[r.Intn(5)])
				if r.Intn(2) == 0 {
					keys = append(keys, "Y")
				}
				keys = append(keys, "\x05", "\x18\x1ab")
				meta["probe"] = "2"
				sp.Chunks = hexChunks(keys)
				return Case{Specs: []Spec{sp}, Class: "yank-then-edit/" + meta["cmd"], Meta: meta}
			}
			if r.Intn(10) == 0 {
				// two kills, a yank and a yank-pop (which turns the ring), then a NEW kill: yank gives the new one
				cmd := killCmds[r.Intn(len(killCmds))]
				meta["kind"], meta["cmd"] = "kill-after-yank-pop", cmd
				sp.Inject = nil
				sp.Binds = append(sp.Binds, Bind{Seq: `\C-x\C-za`, Cmd: cmd}, Bind{Seq: `\C-x\C-zp`, Cmd: "yank-pop"})
				for i := 0; i < 3; i++ {
					word := fmt.Sprintf("w%dx", i)
					line, pos := word+" tail", 0
					if strings.Contains(cmd, "backward") || strings.Contains(cmd, "rubout") || cmd == "unix-line-discard" {
						line, pos = "head "+word, len("head "+word)
					}
					sp.Inject = append(sp.Inject, Inject{Seq: fmt.Sprintf(`\C-x\C-y%c`, 'a'+i), Line: line, Pos: pos})
				}
				sp.Inject = append(sp.Inject, Inject{Seq: `\C-x\C-yz`, Line: "", Pos: 0})
				keys = []string{"\x18\x19a", "\x18\x1aa", "\x18\x19b", "\x18\x1aa", "\x18\x19z", "\x18\x1ab"}
				for k := 1 + r.Intn(3); k > 0; k-- {
					keys = append(keys, "\x18\x1ap")
				}
				meta["kill3"] = fmt.Sprint(len(keys) + 2)
				keys = append(keys, "\x18\x19c", "\x18\x1aa", "\x18\x19z", "\x18\x1ab")
				meta["probe"] = fmt.Sprint(len(keys) - 1)
				sp.Chunks = hexChunks(keys)
				return Case{Specs: []Spec{sp}, Class: "kill-after-yank-pop/" + cmd, Meta: meta}
			}
			switch r.Intn(6) {
			case 5: // more kills than the ring has slots (ten), each from a fresh state: yank gives the most recent
				cmd := killCmds[r.Intn(len(killCmds))]
				n := 11 + r.Intn(5)
				meta["kind"], meta["cmd"], meta["n"] = "ring", cmd, fmt.Sprint(n)
				sp.Inject = nil
				sp.Binds = append(sp.Binds, Bind{Seq: `\C-x\C-za`, Cmd: cmd})
				for i := 0; i < n; i++ {
					word := fmt.Sprintf("w%dx", i)
					line, pos := word+" tail", 0
					if strings.Contains(cmd, "backward") || strings.Contains(cmd, "rubout") || cmd == "unix-line-discard" {
						line, pos = "head "+word, len("head "+word)
					}
					sp.Inject = append(sp.Inject, Inject{Seq: fmt.Sprintf(`\C-x\C-y%c`, 'a'+i), Line: line, Pos: pos})
					keys = append(keys, fmt.Sprintf("\x18\x19%c", 'a'+i), "\x18\x1aa")
				}
				sp.Inject = append(sp.Inject, Inject{Seq: `\C-x\C-yz`, Line: "", Pos: 0})
				keys = append(keys, "\x18\x19z", "\x18\x1ab")
				meta["probe"] = fmt.Sprint(len(keys) - 1)
				sp.Chunks = hexChunks(keys)
				return Case{Specs: []Spec{sp}, Class: "ring/" + cmd, Meta: meta}
			case 0: // vi: delete-character then put-before
				sp.Mode = "vi"
				meta["kind"] = "vi-x-P"
				meta["cmd"] = "vi-delete"
				keys = append(keys, "\x1b", "\x18\x190")
				if count > 0 {
					keys = append(keys, countKeys(true, count)...)
				}
				keys = append(keys, "x", "P")
				meta["probe"] = fmt.Sprint(len(keys) - 1) // wait index holding the state after the kill
			case 1: // region: set-mark, move, kill-region
				meta["kind"] = "region"
				meta["cmd"] = "kill-region"
				sp.Binds = append(sp.Binds, Bind{Seq: `\C-x\C-za`, Cmd: "kill-region"})
				// the mark at the point (set-mark takes the point only with an argument), a movement, then
				// exchange-point-and-mark, which is what makes the region active in this library; one time in two
				// the point and the mark are exchanged once more, so that the point is at either end of the region
				mv := []string{"\x1bf", "\x1bb", "\x05", "\x01", "\x06", "\x02"}[r.Intn(6)]
				keys = append(keys, "\x18\x190", "\x1b1", "\x00", mv, "\x18\x18")
				if r.Intn(2) == 0 {
					keys = append(keys, "\x18\x18")
				}
				keys = append(keys, "\x18\x1aa", "\x18\x1ab")
				meta["probe"] = fmt.Sprint(len(keys) - 1)
			case 2: // two kills from fresh states: yank inserts the most recent
				cmd := killCmds[r.Intn(len(killCmds))]
				meta["kind"] = "latest"
				meta["cmd"] = cmd
				sp.Binds = append(sp.Binds, Bind{Seq: `\C-x\C-za`, Cmd: cmd}, Bind{Seq: `\C-x\C-zc`, Cmd: "kill-word"})
				keys = append(keys, "\x18\x191", "\x18\x1ac", "\x18\x190", "\x18\x1aa", "\x18\x1ab")
				meta["probe"] = "4"
			default:
				cmd := killCmds[r.Intn(len(killCmds))]
				meta["kind"] = "kill-yank"
				meta["cmd"] = cmd
				sp.Binds = append(sp.Binds, Bind{Seq: `\C-x\C-za`, Cmd: cmd})
				keys = append(keys, "\x18\x190")
				if count > 0 {
					keys = append(keys, countKeys(false, count)...)
				}
				keys = append(keys, "\x18\x1aa", "\x18\x1ab")
				meta["probe"] = fmt.Sprint(len(keys) - 1)
			}
			// one configuration in four shows the matching bracket (a display feature that leaves a mark in the
			// selection between two redisplays), on buffers that have brackets under the cursor now and then
			if r.Intn(4) == 0 {
				sp.Inputrc += "set blink-matching-paren on\n"
				meta["blink"] = "1"
			}
			sp.Chunks = hexChunks(keys)
			return Case{Specs: []Spec{sp}, Class: meta["kind"] + "/" + meta["cmd"], Meta: meta}
		},
		oracle: func(c Case, trs []Trace) []Finding {
			tr := trs[0]
			if tr.Hang {
				return nil
			}
			for _, res := range tr.Results {
				if res.Panic != "" {
					return nil
				}
			}
			var probe int
			fmt.Sscan(c.Meta["probe"], &probe)
			if len(tr.Waits) <= probe+1 {
				return nil
			}
			if c.Meta["kind"] == "kill-after-yank-pop" {
				var k3 int
				fmt.Sscan(c.Meta["kill3"], &k3)
				nk := len(c.Specs[0].Chunks)
				if len(tr.Waits) < nk+1 || k3 < 1 || k3 > nk {
					return nil
				}
				before, after := tr.Waits[k3-1], tr.Waits[k3]
				// what the kill took is read off the line (the kill buffer the child reports comes out of the ring itself)
				cp := cutPoints([]rune(before.Line), []rune(after.Line))
				if len(cp) == 0 {
					stat("kill-after-yank-pop: nothing killed")
					return nil
				}
				took := string([]rune(before.Line)[cp[0] : cp[0]+len([]rune(before.Line))-len([]rune(after.Line))])
				stat("decided: kill-after-yank-pop")
				if got := tr.Waits[nk].Line; got != took {
					return []Finding{{"C16", "yank-differs/after-yank-pop/" + c.Meta["cmd"], fmt.Sprintf("two kills, yank and yank-pop, then %s took %q from %q: yank into an empty line gives %q", c.Meta["cmd"], took, before.Line, got), c}}
				}
				return nil
			}
			if c.Meta["kind"] == "yank-then-edit" {
				nk := len(c.Specs[0].Chunks)
				if len(tr.Waits) < nk+1 {
					return nil
				}
				before, killed := tr.Waits[1], tr.Waits[2]
				if before.Line == killed.Line || killed.Kill == "" {
					stat("yank-then-edit: nothing killed")
					return nil
				}
				took := killed.Kill
				if len(removedBy([]rune(before.Line), []rune(killed.Line), []rune(took))) == 0 {
					return nil // the other classes decide what a kill stores
				}
				stat("decided: yank-then-edit")
				// the ring is not written by the edits: its top is what the kill took, at every wait
				for k := 3; k <= nk; k++ {
					if tr.Waits[k].Kill != took {
						return []Finding{{"C16", "kill-ring-entry-changes-with-the-line/" + c.Meta["cmd"], fmt.Sprintf("%s took %q from %q; after the keys %q the top of the kill ring is %q (line %q)", c.Meta["cmd"], took, before.Line, unhex(c.Specs[0].Chunks[:k]), tr.Waits[k].Kill, tr.Waits[k].Line), c}}
					}
				}
				// and the last yank inserts exactly that
				prev, last := tr.Waits[nk-1], tr.Waits[nk]
				if len(removedBy([]rune(last.Line), []rune(prev.Line), []rune(took))) == 0 {
					return []Finding{{"C16", "yank-differs/yank-then-edit/" + c.Meta["cmd"], fmt.Sprintf("%s took %q; the last yank into %q gives %q", c.Meta["cmd"], took, prev.Line, last.Line), c}}
				}
				return nil
			}
			if c.Meta["kind"] == "ring" {
				// Waits[2i+2] is the state after kill i (its kill buffer must be what that kill removed);
				// the final yank into an empty line must give the last one
				var n int
				fmt.Sscan(c.Meta["n"], &n)
				if len(tr.Waits) < 2*n+3 {
					return nil
				}
				var last string
				for i := 0; i < n; i++ {
					before, after := tr.Waits[2*i+1], tr.Waits[2*i+2]
					if before.Line == after.Line {
						continue
					}
					stat("ring-kill")
					if len(removedBy([]rune(before.Line), []rune(after.Line), []rune(after.Kill))) == 0 {
						return []Finding{{"C16", "kill-buffer-differs/ring/" + c.Meta["cmd"], fmt.Sprintf("kill %d of %d: %q -> %q, kill buffer %q", i+1, n, before.Line, after.Line, after.Kill), c}}
					}
					last = after.Kill
				}
				if final := tr.Waits[2*n+2].Line; last != "" && final != last {
					return []Finding{{"C16", "yank-is-not-most-recent-kill/ring/" + c.Meta["cmd"], fmt.Sprintf("after %d kills the last removed %q, yank into an empty line gives %q", n, last, final), c}}
				}
				return nil
			}
			buf := []rune(c.Meta["buf"])
			afterKill, afterYank := tr.Waits[probe], tr.Waits[probe+1]
			if afterKill.Line == string(buf) {
				stat("skipped: nothing removed/" + c.Meta["kind"])
				return nil // nothing was removed
			}
			stat("decided: kill/" + c.Meta["kind"])
			sig := c.Meta["kind"] + "/" + c.Meta["cmd"]
			if c.Meta["count"] != "0" {
				sig += "/count"
			}
			if c.Meta["kind"] == "vi-x-P" && strings.Contains(afterKill.Kill, "\n") {
				sig += "/newline" // what was deleted ends a line: put-before puts it back line-wise
			}
			var fs []Finding
			if len(removedBy(buf, []rune(afterKill.Line), []rune(afterKill.Kill))) == 0 {
				fs = append(fs, Finding{"C16", "kill-buffer-differs/" + sig, fmt.Sprintf("%q@%s -> %q, kill buffer %q", string(buf), c.Meta["pos"], afterKill.Line, afterKill.Kill), c})
			}
			// "yanking at the same point": the cursor is where the text was cut out (in vi command
			// mode deleting the last character forces the cursor off that point: not this property's case)
			samePoint := false
			// (among the places where the text can have been cut out, only those that removed what the kill buffer holds)
			for _, i := range removedBy(buf, []rune(afterKill.Line), []rune(afterKill.Kill)) {
				if afterKill.Pos == i {
					samePoint = true
				}
			}
			// a region has two ends and the point is at one of them: wherever it was, killing the region and
			// yanking at once puts the text back (the kill leaves the point where the text was)
			if c.Meta["kind"] == "region" {
				samePoint = true
			}
			if samePoint {
				stat("decided: yank restores?/" + c.Meta["kind"])
			}
			if samePoint && afterYank.Line != string(buf) {
				fs = append(fs, Finding{"C16", "yank-does-not-restore/" + sig, fmt.Sprintf("%q@%s -> %q -> yank %q (kill buffer %q)", string(buf), c.Meta["pos"], afterKill.Line, afterYank.Line, afterKill.Kill), c})
			}
			return fs
		}})
}
