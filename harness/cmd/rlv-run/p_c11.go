package main

import (
	"fmt"
	"math/rand"
	"strings"

	. "github.com/reeflective/readline/verifx/internal/sess"
)

func lastNonBlank(screen []string) int {
	last := -1
	for i, row := range screen {
		if strings.TrimRight(row, " ") != "" {
			last = i
		}
	}
	return last
}

func init() {
	exits := []struct{ name, keys string }{
		{"accept-line", "\r"}, {"accept-line-nl", "\n"}, {"interrupt", "\x03"}, {"abort", "\x07"},
		{"insert-comment", "\x1b#"}, {"edit-and-execute", "\x18\x05"}, {"panic", "\x18\x10"}, {"eof", "\x04"},
		{"operate-and-get-next", "\x0f"}, {"accept-and-hold", "\x1ba"},
	}
	register(&prop{id: "C11",
		gen: func(r *rand.Rand) Case {
			sp := Spec{Prompt: "> ", Mode: "emacs", Runs: 1, History: stdHistory, Completer: stdCompleter, PanicSeq: `\C-x\C-p`}
			sp.Width = []int{80, 80, 20, 33, 12}[r.Intn(5)]
			sp.Height = []int{24, 24, 8, 5}[r.Intn(4)]
			if r.Intn(3) == 0 {
				sp.Inputrc = "set history-autosuggest on\n"
			}
			if r.Intn(4) == 0 {
				sp.Prompt = "multi\nline $ "
			}
			ex := exits[r.Intn(len(exits))]
			var keys []string
			shape := "empty"
			if ex.name != "eof" {
				switch r.Intn(7) {
				case 5:
					// the history suggestion shown after the typed text is longer than the row
					shape = "suggestion-wraps"
					sp.Inputrc = "set history-autosuggest on\n"
					// (on a screen that has room for it: a suggestion longer than the whole screen scrolls it away)
					sp.Height = 24
					if sp.Width < 20 {
						sp.Width = 20
					}
					sp.History = []string{"one two three four five six seven eight nine ten eleven twelve thirteen fourteen fifteen sixteen"}
					keys = append(keys, "o", "n", "e")
				case 6:
					// a hint is displayed below the input (the numeric argument)
					shape = "hint-open"
					keys = append(keys, "a", "b", "\x1b3")
				case 0:
					shape = "short"
					keys = append(keys, "o", "n", "e")
				case 1:
					shape = "wrapped"
					for i := 0; i < sp.Width+3+r.Intn(sp.Width); i++ {
						keys = append(keys, string(rune('a'+i%26)))
					}
				case 2:
					shape = "multiline"
					sp.Inject = []Inject{{Seq: `\C-x\C-y0`, Line: "first\nsecond line\nthird", Pos: r.Intn(20)}}
					keys = append(keys, "\x18\x190")
				case 3:
					shape = "menu-open"
					keys = append(keys, "a", "\t")
					if r.Intn(2) == 0 {
						keys = append(keys, "\t")
					}
				case 4:
					shape = "exact-fit"
					for i := 0; i < sp.Width-2; i++ {
						keys = append(keys, "x")
					}
				}
			}
			if r.Intn(3) == 0 {
				sp.Mode = "vi"
				if r.Intn(2) == 0 && shape != "menu-open" {
					keys = append(keys, "\x1b")
					shape += "+vi-command"
				}
			}
			if shape == "multiline" && r.Intn(2) == 0 {
				sp.Multi = "d" // real multi-line acceptance path: accepted only when it ends with "third"
			}
			keys = append(keys, ex.keys)
			sp.Chunks = hexChunks(keys)
			// one case in four makes a second call on the same shell after the application has changed the
			// terminal modes (same keys again): each call restores what IT found
			if r.Intn(4) == 0 && ex.name != "eof" && ex.name != "panic" {
				sp.Runs = 2
				sp.Stty = true
				sp.Chunks = append(append([]string{}, sp.Chunks...), sp.Chunks...)
				shape += "+second-call"
			}
			return Case{Specs: []Spec{sp}, Class: ex.name + "/" + shape, Meta: map[string]string{"exit": ex.name, "shape": shape}}
		},
		oracle: func(c Case, trs []Trace) []Finding {
			tr := trs[0]
			ex := c.Meta["exit"]
			if tr.Hang {
				return nil // never returned: C01's business, C11 speaks about returns
			}
			if len(tr.Results) == 0 {
				return nil
			}
			res := tr.Results[0]
			if res.Err == "end-of-script" {
				return nil // this key did not leave Readline in this state (e.g. C-d on a non-empty line)
			}
			if res.Panic != "" && ex != "panic" {
				return nil // a library crash: C01's business
			}
			var fs []Finding
			if !res.Termios {
				fs = append(fs, Finding{"C11", "termios-not-restored/" + ex, "terminal modes differ after the call", c})
			}
			for _, r2 := range tr.Results[1:] {
				if r2.Err != "end-of-script" && r2.Panic == "" && !r2.Termios {
					fs = append(fs, Finding{"C11", "termios-not-restored/second-call", "terminal modes changed by the application between two calls: the second call did not restore the modes it found", c})
				}
			}
			if res.Tail == nil {
				return fs
			}
			t := res.Tail
			for _, em := range []struct {
				name   string
				screen []string
				cur    [2]int
			}{{"vte", t.VTE, t.CurVTE}, {"xterm", t.Xterm, t.CurXT}} {
				last := lastNonBlank(em.screen)
				if em.cur[1] != 0 || em.cur[0] <= last {
					// both emulators must agree before it is a violation
					if em.name == "vte" {
						l2 := lastNonBlank(t.Xterm)
						if !(t.CurXT[1] != 0 || t.CurXT[0] <= l2) {
							continue
						}
						fs = append(fs, Finding{"C11", "cursor-not-on-fresh-row/" + ex, fmt.Sprintf("cursor at row %d col %d, last non-blank row %d\n%s", em.cur[0], em.cur[1], last, strings.Join(trimScreen(em.screen), "\n")), c})
					}
				}
			}
			// after an accepted line, what is left above the cursor is the prompt and the accepted line, nothing else
			// (no history suggestion that was never accepted, no hint)
			shape := strings.TrimSuffix(c.Meta["shape"], "+vi-command")
			if (ex == "accept-line" || ex == "accept-line-nl") && !strings.Contains(c.Specs[0].Prompt, "\n") &&
				(shape == "short" || shape == "wrapped" || shape == "exact-fit" || shape == "suggestion-wraps" || shape == "empty" || shape == "hint-open") &&
				t.CurVTE == t.CurXT {
				sp := c.Specs[0]
				want, _ := reference(sp.Width, 60, sp.Prompt, []rune(res.Line), len([]rune(res.Line)))
				var above []string
				for i := 0; i < t.CurVTE[0] && i < len(t.VTE); i++ {
					above = append(above, t.VTE[i])
				}
				if !eqLines(trimScreen(above), trimScreen(want)) {
					fs = append(fs, Finding{"C11", "input-area-not-the-accepted-line/" + ex, fmt.Sprintf("returned %q; above the cursor (row %d): %q, want %q", res.Line, t.CurVTE[0], trimScreen(above), trimScreen(want)), c})
				}
			}
			if t.Style != "0" && t.Style != "" {
				fs = append(fs, Finding{"C11", "cursor-style-not-reset/" + ex, "last cursor style sequence: CSI " + t.Style + " SP q", c})
			}
			return fs
		}})
}

func trimScreen(s []string) []string {
	n := lastNonBlank(s)
	var out []string
	for i := 0; i <= n && i < len(s); i++ {
		out = append(out, strings.TrimRight(s[i], " "))
	}
	return out
}
