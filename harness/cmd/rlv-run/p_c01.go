package main

import (
	"fmt"
	"math/rand"

	. "github.com/reeflective/readline/verifx/internal/sess"
)

// The key alphabet: single keys of every class, the escape sequences the
// default keymaps bind, multi-key commands, argument-reading commands.
var alphabet = []string{
	"a", "b", " ", "-", "\"", "'", "(", ")", "x", "1", "2", "0", "/", "$", "w", "e", "d", "y", "c", "i", "p", "P", "f", "t", "%", "u", "v", "V", "q", "@", "r", "s", "S", "Y", "D", "C", "h", "l", "j", "k", "g", "G", "~", ".", ";", ",", "n", "N", "|", "^", "A", "I", "o", "O", "R", "X", "J", "W", "B", "E", "F", "T", "é", "中",
	"\x01", "\x02", "\x04", "\x05", "\x06", "\x07", "\x08", "\t", "\x0b", "\x0c", "\x0e", "\x0f", "\x10", "\x11", "\x12", "\x13", "\x14", "\x15", "\x16", "\x17", "\x18", "\x19", "\x1b", "\x1d", "\x1f", "\x7f", "\x00",
	"\x1b[A", "\x1b[B", "\x1b[C", "\x1b[D", "\x1b[H", "\x1b[F", "\x1b[3~", "\x1b[Z", "\x1b[1;5C", "\x1b[1;5D",
	"\x1bb", "\x1bf", "\x1bd", "\x1b\x7f", "\x1bu", "\x1bl", "\x1bc", "\x1bt", "\x1by", "\x1b.", "\x1b1", "\x1b-", "\x1b<", "\x1b>", "\x1b?", "\x1b*", "\x1bp", "\x1bn", "\x1b\\", "\x1b#", "\x1br", "\x1b'", "\x1bw", "\x1bm", "\x1b|", "\x1b\x1e",
	"\x18\x18", "\x18(", "\x18)", "\x18e", "\x18\x15", "\x18\x07", "\x18\x02", "\x18\x05", "\x18\x0e", "\x18\x0f", "\x18r", "\x18s", "\x18u", "\x18\x7f",
	"\r",
}

var boolVars = []string{"convert-meta", "input-meta", "output-meta", "enable-bracketed-paste", "history-autosuggest",
	"show-mode-in-prompt", "mark-modified-lines", "horizontal-scroll-mode", "completion-ignore-case", "menu-complete-display-prefix",
	"autocomplete", "isearch-terminators", "revert-all-at-newline", "multiline-column", "multiline-column-numbered", "usage-hint-always"}

func randInputrc(r *rand.Rand) string {
	s := ""
	for k := r.Intn(4); k > 0; k-- {
		v := "on"
		if r.Intn(2) == 0 {
			v = "off"
		}
		s += fmt.Sprintf("set %s %s\n", boolVars[r.Intn(len(boolVars))], v)
	}
	return s
}

var stdHistory = []string{"one two", "three", "one two three", "a\nb"}
var stdCompleter = []Cand{{Value: "alpha", Desc: "d1"}, {Value: "alpine", Desc: "d1"}, {Value: "beta", Desc: "d2"}, {Value: "x1"}, {Value: "a b", Desc: "sp"}}

func randScript(r *rand.Rand, max int) []string {
	l := 1 + r.Intn(max)
	s := make([]string, l)
	for i := range s {
		s[i] = alphabet[r.Intn(len(alphabet))]
	}
	return s
}

func baseSpec(r *rand.Rand) Spec {
	sp := Spec{Prompt: "> ", Mode: "emacs", History: stdHistory, Completer: stdCompleter, Runs: 4, Inputrc: randInputrc(r)}
	if r.Intn(2) == 0 {
		sp.Mode = "vi"
	}
	if r.Intn(4) == 0 {
		sp.Multi = ";"
	}
	if r.Intn(5) == 0 {
		sp.Width = 20 + r.Intn(30)
	}
	return sp
}

func init() {
	register(&prop{id: "C01", shrinkable: true,
		build: func(c *Case) { c.Specs[0].Chunks = c.Keys },
		gen: func(r *rand.Rand) Case {
			sp := baseSpec(r)
			sp.Fault = []string{"", "", "eof", "eio"}[r.Intn(4)]
			c := Case{Specs: []Spec{sp}, Keys: hexChunks(randScript(r, 25)), Class: sp.Mode + "/fault=" + sp.Fault}
			c.Specs[0].Chunks = c.Keys
			return c
		},
		oracle: func(c Case, trs []Trace) []Finding {
			var fs []Finding
			tr := trs[0]
			if tr.Hang {
				fs = append(fs, Finding{"C01", "hang", "watchdog expired: the call neither returned nor parked in a read", c})
			}
			for _, res := range tr.Results {
				if res.Panic != "" {
					fs = append(fs, Finding{"C01", "panic@" + res.Site, res.Panic, c})
				}
			}
			if tr.Spins > 64 {
				fs = append(fs, Finding{"C01", "read-spin/" + c.Specs[0].Fault, fmt.Sprintf("%d consecutive failing reads without returning", tr.Spins), c})
			}
			return fs
		}})
}
