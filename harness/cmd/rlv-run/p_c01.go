package main

import (
	"fmt"
	"math/rand"

	. "github.com/reeflective/readline/verifx/internal/sess"
)

// The key alphabet: single keys of every class, the escape sequences the
// default keymaps bind, multi-key commands, argument-reading commands.
var alphabet = []string{
	"a", "b", " ", "-", "\"", "'", "(", ")", "x", "1", "2", "0", "/", "$", "w", "e", "d", "y", "c", "i", "p", "P", "f", "t", "%", "u", "v", "V", "q", "@", "r", "s", "S", "Y", "D", "C", "h", "l", "j", "k", "g", "G", "~", ".", ";", ",", "n", "N", "|", "^", "A", "I", "o", "O", "R", "X", "J", "W", "B", "E", "F", "T", "é", "中",
	"\x01", "\x02", "\x04", "\x05", "\x06", "\x07", "\x08", "\t", "\x0b", "\x0c", "\x0e", "\x0f", "\x10", "\x11", "\x12", "\x13", "\x14", "\x15", "\x16", "\x17", "\x18", "\x19", "\x1b", "\x1d", "\x1f", "\x7f", "\x00",
	"\x1b[A", "\x1b[B", "\x1b[C", "\x1b[D", "\x1b[H", "\x1b[F", "\x1b[3~", "\x1b[Z", "\x1b[1;5C", "\x1b[1;5D",
	"\x1b[1;5R", "\x1b[1;2R", "\x1bOP", "\x1b[15~", // function keys; Ctrl-F3 / Shift-F3 look like cursor position reports
	"\x1bb", "\x1bf", "\x1bd", "\x1b\x7f", "\x1bu", "\x1bl", "\x1bc", "\x1bt", "\x1by", "\x1b.", "\x1b1", "\x1b-", "\x1b<", "\x1b>", "\x1b?", "\x1b*", "\x1bp", "\x1bn", "\x1b\\", "\x1b#", "\x1br", "\x1b'", "\x1bw", "\x1bm", "\x1b|", "\x1b\x1e",
	"\x18\x18", "\x18(", "\x18)", "\x18e", "\x18\x15", "\x18\x07", "\x18\x02", "\x18\x05", "\x18\x0e", "\x18\x0f", "\x18r", "\x18s", "\x18u", "\x18\x7f",
	"\r",
	// a numeric argument of a dozen digits (emacs: meta-digits; vi command mode: digits)
	"\x1b9\x1b9\x1b9\x1b9\x1b9\x1b9\x1b9\x1b9\x1b9\x1b9\x1b9\x1b9", "999999999999", "\x1b-\x1b9\x1b9\x1b9\x1b9\x1b9\x1b9\x1b9\x1b9\x1b9\x1b9\x1b9",
}

var boolVars = []string{"convert-meta", "input-meta", "output-meta", "enable-bracketed-paste", "history-autosuggest",
	"show-mode-in-prompt", "mark-modified-lines", "horizontal-scroll-mode", "completion-ignore-case", "menu-complete-display-prefix",
	"autocomplete", "isearch-terminators", "revert-all-at-newline", "multiline-column", "multiline-column-numbered", "usage-hint-always"}

// macroKeys are the sequences random macros are bound to and made of: a macro may contain its own
// sequence, or that of another macro that contains it.
var macroKeys = []string{"a", "x", "\\C-t", "\\ea", "\\C-x\\C-a", "(", "\\e1"}
var macroParts = []string{"a", "x", "\\C-t", "\\ea", "\\C-x\\C-a", "(", "\\e1", "b", " ", "\\C-a", "\\C-k", "\\C-f", "\\C-xe", "\\C-x(", "\\C-x)", "\\eb", "\\C-r", "\\C-m", "\\e", "1", "\\C-_"}

// randMacros: inputrc lines binding macros (possibly running themselves) and do-lowercase-version
func randMacros(r *rand.Rand) string {
	s := ""
	for k := 1 + r.Intn(3); k > 0; k-- {
		key := macroKeys[r.Intn(len(macroKeys))]
		if r.Intn(5) == 0 {
			s += fmt.Sprintf("\"%s\": do-lowercase-version\n", key)
			continue
		}
		m := ""
		for j := 1 + r.Intn(4); j > 0; j-- {
			m += macroParts[r.Intn(len(macroParts))]
		}
		s += fmt.Sprintf("\"%s\": \"%s\"\n", key, m)
	}
	return s
}

// the string and integer variables, and values a configuration file may well give them: characters that
// are special where the value ends up (a regular expression, a format, an escape sequence), the empty
// string, numbers at and beyond the ends of their range
var strVars = []string{"comment-begin", "multiline-column-custom", "bell-style", "emacs-mode-string", "vi-cmd-mode-string",
	"vi-ins-mode-string", "isearch-terminators", "active-region-start-color", "active-region-end-color",
	"completion-description-style", "completion-selection-style", "completion-list-separator"}
var strVals = []string{"(", "[", ")", "*", "--[", "\\", "\"\"", "%s%d", "+?", "{", "a|", "\\e[1m", "é中", "x"}
var intVars = []string{"completion-display-width", "completion-prefix-display-length", "completion-query-items", "history-size", "keyseq-timeout"}
var intVals = []string{"0", "-1", "1", "2", "-5", "999999999", "99999999999999999999", "abc"}

func randInputrc(r *rand.Rand) string {
	s := ""
	for k := r.Intn(4); k > 0; k-- {
		v := "on"
		if r.Intn(2) == 0 {
			v = "off"
		}
		s += fmt.Sprintf("set %s %s\n", boolVars[r.Intn(len(boolVars))], v)
	}
	// one configuration in three also sets a string or an integer variable
	if r.Intn(3) == 0 {
		if r.Intn(3) > 0 {
			s += fmt.Sprintf("set %s %s\n", strVars[r.Intn(len(strVars))], strVals[r.Intn(len(strVals))])
		} else {
			s += fmt.Sprintf("set %s %s\n", intVars[r.Intn(len(intVars))], intVals[r.Intn(len(intVals))])
		}
	}
	return s
}

var stdHistory = []string{"one two", "three", "one two three", "a\nb"}
var stdCompleter = []Cand{{Value: "alpha", Desc: "d1"}, {Value: "alpine", Desc: "d1"}, {Value: "beta", Desc: "d2"}, {Value: "x1"}, {Value: "a b", Desc: "sp"}}

func randScript(r *rand.Rand, max int) []string {
	l := 1 + r.Intn(max)
	s := make([]string, l)
	for i := range s {
		s[i] = alphabet[r.Intn(len(alphabet))]
	}
	return s
}

func baseSpec(r *rand.Rand) Spec {
	sp := Spec{Prompt: "> ", Mode: "emacs", History: stdHistory, Completer: stdCompleter, Runs: 4, Inputrc: randInputrc(r)}
	if r.Intn(2) == 0 {
		sp.Mode = "vi"
	}
	if r.Intn(4) == 0 {
		sp.Multi = ";"
	}
	if r.Intn(5) == 0 {
		sp.Width = 20 + r.Intn(30)
	}
	return sp
}

func init() {
	register(&prop{id: "C01", shrinkable: true,
		build: func(c *Case) { c.Specs[0].Chunks = c.Keys },
		gen: func(r *rand.Rand) Case {
			sp := baseSpec(r)
			sp.Fault = []string{"", "", "eof", "eio"}[r.Intn(4)]
			script := randScript(r, 25)
			cls := sp.Mode + "/fault=" + sp.Fault
			if r.Intn(2) == 0 {
				// any inputrc may bind any command: every registered command is bound to a private sequence by the
				// child (\C-x\C-z<2 letters>, in name order) and a third of the keys are such commands, by name
				sp.ByName = true
				for i := range script {
					if r.Intn(3) == 0 {
						n := r.Intn(216)
						script[i] = fmt.Sprintf("\x18\x1a%c%c", 'a'+n/26, 'a'+n%26)
						if r.Intn(4) == 0 { // with a numeric argument
							script[i] = []string{"\x1b2", "\x1b-", "\x1b9"}[r.Intn(3)] + script[i]
						}
					}
				}
				cls += "/by-name"
			}
			if r.Intn(4) == 0 {
				// macros: bound in the inputrc, recorded from the keyboard (emacs C-x ( ) e, vi q @), running each other
				sp.Inputrc += randMacros(r)
				sp.Patience = 10
				extra := []string{"\x18(", "\x18)", "\x18e", "\x18e", "a", "x", "\x14", "\x1ba", "\x18\x01", "(", "\x1b1"}
				if sp.Mode == "vi" {
					extra = append(extra, "\x1b", "qa", "q", "@a", "@a", "qb", "@b", "@@", "i")
				}
				for i := range script {
					if r.Intn(2) == 0 {
						script[i] = extra[r.Intn(len(extra))]
					}
					// A macro that runs itself is stopped after 32 nested runs; with a command that doubles the line in
					// it (copy-prev-shell-word, or a kill followed by two yanks / puts) those runs are 2^32 times the
					// work: exponential work that the configuration asks for, not a spin. Such keys stay out of the
					// sessions in which macros can run themselves.
					switch script[i] {
					case "\x1bm", "\x19", "\x1by", "p", "P":
						script[i] = "\x06"
					}
				}
				cls += "/macros"
			}
			if r.Intn(5) == 0 {
				// $EDITOR is a program: it empties the file (the way to give up an edit), leaves it, changes it, or fails;
				// edit-and-execute-command and vi-edit-command-line run it on buffers of every kind
				sp.Editor = []string{"empty", "empty", "keep", "append", "fail"}[r.Intn(5)]
				sp.Binds = append(sp.Binds, Bind{Seq: `\C-x\C-zE`, Cmd: "edit-and-execute-command"}, Bind{Seq: `\C-x\C-zV`, Cmd: "vi-edit-command-line"})
				for i := range script {
					if r.Intn(6) == 0 {
						script[i] = []string{"\x18\x1aE", "\x18\x1aV"}[r.Intn(2)]
					}
				}
				cls += "/editor=" + sp.Editor
			}
			// A capped argument still asks for ten thousand repetitions, which multiply (yank, kill, yank): one
			// such argument per session, none where macros repeat the script, is work that ends within the watchdog.
			big := 1
			if sp.Patience > 0 {
				big = 0
			}
			for i := range script {
				if len(script[i]) >= 12 && (script[i][0] == '9' || script[i][1] == '9' || script[i][1] == '-') {
					if big == 0 {
						script[i] = "1"
					}
					big = 0
				}
			}
			if sp.Patience == 0 {
				sp.Patience = 5
			}
			c := Case{Specs: []Spec{sp}, Keys: hexChunks(script), Class: cls}
			c.Specs[0].Chunks = c.Keys
			return c
		},
		oracle: func(c Case, trs []Trace) []Finding {
			var fs []Finding
			tr := trs[0]
			if tr.Hang {
				fs = append(fs, Finding{"C01", "hang", "watchdog expired: the call neither returned nor parked in a read", c})
			}
			for _, res := range tr.Results {
				if res.Panic != "" {
					fs = append(fs, Finding{"C01", "panic@" + res.Site, res.Panic, c})
				}
			}
			if tr.Spins > 64 {
				fs = append(fs, Finding{"C01", "read-spin/" + c.Specs[0].Fault, fmt.Sprintf("%d consecutive failing reads without returning; at %s", tr.Spins, tr.SpinAt), c})
			}
			return fs
		}})
}
