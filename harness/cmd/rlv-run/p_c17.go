package main

import (
	"strings"
	"fmt"
	"math/rand"

	. "github.com/reeflective/readline/verifx/internal/sess"
)

// motions and text objects of the C17 quantifier (keys typed after the operator)
var viMotions = []string{"h", "l", "w", "b", "e", "W", "B", "E", "0", "$", "^", "fa", "Fa", "ta", "Ta", "f ", "t)", "%", "ge", "gE",
	"iw", "aw", "iW", "aW", "i\"", "a\"", "i'", "a'", "i(", "a(", "i[", "a[", "ib", "ab", "ia", "aa", "|"}

func init() {
	register(&prop{id: "C17",
		gen: func(r *rand.Rand) Case {
			buf := bufferPool[r.Intn(len(bufferPool))]
			if r.Intn(3) == 0 {
				buf = []string{"foo(bar, baz) qux", "say \"hello world\" now", "a [b c] d", "x 'y z' w", "f(a, b, c)", "aaa bbb aaa"}[r.Intn(6)]
			}
			pos := r.Intn(len([]rune(buf)) + 1)
			mot := viMotions[r.Intn(len(viMotions))]
			count := ""
			if r.Intn(3) == 0 {
				count = fmt.Sprint(2 + r.Intn(3))
			}
			visual := r.Intn(4) == 0
			// the operators must agree under any configuration: variables that change what is selected,
			// highlighted or redisplayed between the keys
			rc := ""
			for _, v := range []string{"blink-matching-paren", "enable-active-region", "history-autosuggest", "usage-hint-always", "search-ignore-case"} {
				if r.Intn(3) == 0 {
					rc += "set " + v + " on\n"
				}
			}
			if r.Intn(2) == 0 && rc != "" {
				// put the cursor on a bracket or quote when the buffer has one
				for i, ch := range []rune(buf) {
					if (ch == '(' || ch == ')' || ch == '[' || ch == ']' || ch == '"') && r.Intn(2) == 0 {
						pos = i
						break
					}
				}
			}
			// with history-autosuggest on there is something to suggest: an entry the buffer is the beginning of;
			// the cursor is at the end of the buffer half of the time (where a movement reaches the suggestion)
			suggest := strings.Contains(rc, "history-autosuggest") && !strings.Contains(buf, "\n") && len(buf) > 0
			if suggest && r.Intn(2) == 0 {
				pos = len([]rune(buf)) - r.Intn(2)
			}
			mk := func(op string) Spec {
				sp := Spec{Prompt: "> ", Mode: "vi", Runs: 1, Inputrc: rc, Inject: []Inject{{Seq: `\C-x\C-y0`, Line: buf, Pos: pos}}}
				if suggest {
					sp.History = []string{buf + " and more words"}
				}
				keys := []string{"\x1b", "\x18\x190"}
				if visual {
					keys = append(keys, "v")
					for _, d := range count {
						keys = append(keys, string(d))
					}
					for _, k := range mot {
						keys = append(keys, string(k))
					}
					keys = append(keys, op)
				} else {
					keys = append(keys, op)
					for _, d := range count {
						keys = append(keys, string(d))
					}
					for _, k := range mot {
						keys = append(keys, string(k))
					}
				}
				sp.Chunks = hexChunks(keys)
				return sp
			}
			mode := "operator"
			if visual {
				mode = "visual"
			}
			return Case{Specs: []Spec{mk("d"), mk("y")}, Class: mode + "/" + mot,
				Meta: map[string]string{"buf": buf, "pos": fmt.Sprint(pos), "motion": mot, "count": count, "mode": mode, "inputrc": rc}}
		},
		oracle: func(c Case, trs []Trace) []Finding {
			for _, tr := range trs {
				if tr.Hang || len(tr.Waits) == 0 || !tr.Blocked {
					stat("skipped: hang or returned")
					return nil
				}
				for _, res := range tr.Results {
					if res.Panic != "" {
						stat("skipped: panic")
						return nil
					}
				}
			}
			d, y := trs[0].Waits[len(trs[0].Waits)-1], trs[1].Waits[len(trs[1].Waits)-1]
			if d.Kind != "main" || y.Kind != "main" {
				stat("skipped: still reading an argument")
				return nil
			}
			if d.Kill == "" && y.Kill == "" {
				stat("decided: motion selects nothing")
			} else {
				stat("decided: non-empty text")
			}
			buf := c.Meta["buf"]
			sig := c.Meta["mode"] + "/" + c.Meta["motion"]
			if c.Meta["count"] != "" {
				sig += "/count"
			}
			ctx := fmt.Sprintf("%q@%s %s%s", buf, c.Meta["pos"], c.Meta["count"], c.Meta["motion"])
			var fs []Finding
			if y.Line != buf {
				fs = append(fs, Finding{"C17", "yank-edits/" + sig, fmt.Sprintf("%s: y left %q", ctx, y.Line), c})
			}
			if d.Kill != y.Kill && !(d.Line == buf && y.Kill == "") {
				fs = append(fs, Finding{"C17", "delete-differs-from-yank/" + sig, fmt.Sprintf("%s: d removed %q (line %q), y copied %q", ctx, d.Kill, d.Line, y.Kill), c})
			} else if d.Line != buf && len(removedBy([]rune(buf), []rune(d.Line), []rune(d.Kill))) == 0 {
				fs = append(fs, Finding{"C17", "delete-touches-rest/" + sig, fmt.Sprintf("%s: d left %q with kill %q", ctx, d.Line, d.Kill), c})
			}
			return fs
		}})
}
