package main

import (
	"fmt"
	"math/rand"
	"strings"

	. "github.com/reeflective/readline/verifx/internal/sess"
)

var histPool = []string{"one", "two", "one two", "  padded  ", "a\nb", "é", "three", "one"}

func eqLines(a, b []string) bool {
	if len(a) != len(b) {
		return false
	}
	for i := range a {
		if a[i] != b[i] {
			return false
		}
	}
	return true
}

func shortLines(ls []string) string {
	if len(ls) > 12 {
		return fmt.Sprintf("[%d entries, the last %q]", len(ls), ls[len(ls)-3:])
	}
	return fmt.Sprintf("%q", ls)
}

func init() {
	accepts := []struct {
		name, keys string
		ordinary   bool
	}{
		{"accept-line", "\r", true}, {"accept-and-hold", "\x18\x1aa", true}, {"operate-and-get-next", "\x18\x1ab", false},
		{"accept-and-infer-next-history", "\x18\x1ac", false}, {"interrupt", "\x03", false}, {"accept-line", "\n", true},
	}
	register(&prop{id: "C08",
		gen: func(r *rand.Rand) Case {
			sp := Spec{Prompt: "> ", Mode: "emacs", Runs: 1,
				Binds: []Bind{{Seq: `\C-x\C-za`, Cmd: "accept-and-hold"}, {Seq: `\C-x\C-zb`, Cmd: "operate-and-get-next"}, {Seq: `\C-x\C-zc`, Cmd: "accept-and-infer-next-history"}}}
			if r.Intn(3) == 0 {
				sp.Mode = "vi"
			}
			nsrc := 1 + r.Intn(3)
			for i := 0; i < nsrc; i++ {
				var ls []string
				for k := r.Intn(5); k > 0; k-- {
					ls = append(ls, histPool[r.Intn(len(histPool))])
				}
				sp.Sources = append(sp.Sources, Src{Name: fmt.Sprintf("src%d", i), Lines: ls})
			}
			// a long history (around the sizes where a default limit is likely to sit): unlimited unless history-size says so
			long := ""
			if r.Intn(10) == 0 {
				k := []int{499, 500, 501, 512, 1000, 1024, 2000}[r.Intn(7)]
				var ls []string
				for j := 0; j < k; j++ {
					ls = append(ls, fmt.Sprintf("cmd %d", j))
				}
				sp.Sources[r.Intn(nsrc)].Lines = ls
				long = "/long-history"
			}
			size := ""
			switch r.Intn(5) {
			case 0:
				size = fmt.Sprint(1 + r.Intn(4))
			case 1:
				size = "50"
			case 2:
				size = "1000"
			}
			if size != "" {
				sp.Inputrc = "set history-size " + size + "\n"
			}
			// the typed line: new text, the last entry of some source again, blank, padded
			var typed string
			switch r.Intn(6) {
			case 0:
				typed = "   "
			case 1:
				typed = ""
			case 2:
				src := sp.Sources[r.Intn(nsrc)].Lines
				if len(src) > 0 {
					typed = strings.TrimSpace(strings.ReplaceAll(src[len(src)-1], "\n", " "))
				}
			case 3:
				typed = "  new line  "
			default:
				typed = []string{"fresh", "one", "x y z", "é中"}[r.Intn(4)]
			}
			acc := accepts[r.Intn(len(accepts))]
			var keys []string
			for _, c := range typed {
				keys = append(keys, string(c))
			}
			// an application that accepts multi-line input (AcceptMultiline installed): the buffer is complete
			// when it ends with ";" — reached at once, or after a first RET that only continues the buffer.
			// Every accept variant goes through this path then, not only accept-line.
			multi := false
			if acc.name != "interrupt" && strings.TrimSpace(typed) != "" && r.Intn(3) == 0 {
				multi = true
				sp.Multi = ";"
				if r.Intn(2) == 0 {
					keys = append(keys, "\r", ";")
					typed += "\n;"
				} else {
					keys = append(keys, ";")
					typed += ";"
				}
			}
			keys = append(keys, acc.keys)
			sp.Chunks = hexChunks(keys)
			ord := "0"
			if acc.ordinary {
				ord = "1"
			}
			cl := acc.name
			if multi {
				cl += "+multiline"
			}
			return Case{Specs: []Spec{sp}, Class: fmt.Sprintf("%s/sources=%d/size=%s%s", cl, nsrc, size, long),
				Meta: map[string]string{"typed": typed, "accept": acc.name, "ordinary": ord, "size": size}}
		},
		oracle: func(c Case, trs []Trace) []Finding {
			tr := trs[0]
			if tr.Hang || len(tr.Results) == 0 || len(tr.Sources) == 0 {
				stat("skipped: no return")
				return nil
			}
			res := tr.Results[0]
			if res.Panic != "" || res.Err == "end-of-script" {
				stat("skipped: panic or no return")
				return nil
			}
			var fs []Finding
			var size int
			sizeSet := c.Meta["size"] != ""
			fmt.Sscan(c.Meta["size"], &size)
			line := res.Line
			for i, src := range c.Specs[0].Sources {
				before, after := src.Lines, tr.Sources[0][i]
				ctx := fmt.Sprintf("%s of %q (err=%q), source %d of %d holding %s, history-size %q: now %s", c.Meta["accept"], line, res.Err, i, len(c.Specs[0].Sources), shortLines(before), c.Meta["size"], shortLines(after))
				should := res.Err == "" && c.Meta["ordinary"] == "1" && strings.TrimSpace(line) != "" &&
					(len(before) == 0 || strings.TrimSpace(before[len(before)-1]) != strings.TrimSpace(line))
				appended := len(after) == len(before)+1 && eqLines(after[:len(before)], before) && strings.TrimSpace(after[len(before)]) == strings.TrimSpace(line)
				unchanged := eqLines(after, before)
				switch {
				case should && (!sizeSet || len(before) < size):
					stat("decided: must record")
					if !appended {
						sig := "not-recorded-once"
						if sizeSet {
							sig += "/history-size"
						}
						if len(c.Specs[0].Sources) > 1 {
							sig += "/multi-source"
						}
						if len(before) > 100 {
							sig += "/long-history"
						}
						fs = append(fs, Finding{"C08", sig, ctx, c})
					}
				case should:
					stat("decided: limit reached")
					if !appended && !unchanged {
						fs = append(fs, Finding{"C08", "history-corrupted", ctx, c})
					}
				default:
					stat("decided: must not record")
					if !unchanged {
						fs = append(fs, Finding{"C08", "recorded-wrongly/" + c.Meta["accept"], ctx, c})
					}
				}
			}
			if len(fs) > 1 {
				fs = fs[:1]
			}
			return fs
		}})
}
