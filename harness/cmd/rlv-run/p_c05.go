package main

import (
	"fmt"
	"math/rand"
	"regexp"
	"strings"

	. "github.com/reeflective/readline/verifx/internal/sess"
)

// outcome is what C05 compares between two deliveries of the same bytes.
func outcome(tr Trace) string {
	if tr.Hang {
		return "hang"
	}
	var sb strings.Builder
	for _, r := range tr.Results {
		if r.Panic != "" {
			fmt.Fprintf(&sb, "[panic]")
			continue
		}
		fmt.Fprintf(&sb, "[%q %s]", r.Line, r.Err)
	}
	if n := len(tr.Waits); n > 0 && tr.Blocked {
		w := tr.Waits[n-1]
		fmt.Fprintf(&sb, " pending %q@%d %s/%s", w.Line, w.Pos, w.Main, w.Local)
	}
	return sb.String()
}

var feedsKeys = regexp.MustCompile("[\\x1b\\x18][A-Z]|\\x18e")
var feedsKeysVi = regexp.MustCompile("@")
var visualTildeEsc = regexp.MustCompile("v[^\\x1b]*~\\x1b[^\\[O]")

func init() {
	build := func(c *Case) {
		r := rand.New(rand.NewSource(c.Cut))
		keys := make([]string, len(c.Keys))
		for i, k := range c.Keys {
			keys[i] = unhex([]string{k})
		}
		vi := c.Specs[0].Mode == "vi"
		c.Specs[0].Chunks = hexChunks(keys) // reference: one key per read
		// In vi a lone ESC is a key of its own only by timing: it ends its read in
		// every delivery, and no read is cut directly after an ESC byte.
		c.Specs[1].CPRWith = nil
		switch c.Meta["how"] {
		case "with-cursor-report":
			// the same reads, but the keys of one of them arrive in the same read as the answer of the terminal to a
			// cursor position query of the redisplay (before it, or after it)
			c.Specs[1].Chunks = hexChunks(keys)
			n := 1 + r.Intn(len(keys)+1)
			c.Specs[1].CPRWith = map[int]string{n: []string{"before", "after"}[r.Intn(2)]}
		case "paste":
			c.Specs[1].Chunks = joinKeys(keys, func(i int) bool { return vi && keys[i] == "\x1b" })
		case "joined":
			c.Specs[1].Chunks = joinKeys(keys, func(i int) bool { return (vi && keys[i] == "\x1b") || r.Intn(2) == 0 })
		default:
			var out []string
			for _, k := range keys {
				out = append(out, rechunk(r, k, 0.7, vi)...)
			}
			c.Specs[1].Chunks = compact(out)
		}
	}
	register(&prop{id: "C05", shrinkable: true, build: build,
		gen: func(r *rand.Rand) Case {
			sp := baseSpec(r)
			keys := randScript(r, 14)
			if r.Intn(2) == 0 {
				keys = append(keys, "\r")
			}
			how := []string{"paste", "joined", "bytewise", "with-cursor-report"}[r.Intn(4)]
			if r.Intn(8) == 0 {
				// a command that reads its own argument (ReadKey), given multibyte characters cut by the reads
				readers := [][]string{{"\x11"}, {"\x16"}, {"\x18\x0f"}, {"\x1d"}, {"\x1b\x1d"}}
				if sp.Mode == "vi" {
					readers = [][]string{{"\x1b", "r"}, {"\x1b", "R"}, {"\x1b", "f"}, {"\x1b", "t"}, {"\x1b", "F"}, {"\x1b", "T"}, {"\x16"}}
				}
				wide := []string{"é", "中", "\u0142", "\U0001f600", "\uf001"}
				keys = append(randScript(r, 4), readers[r.Intn(len(readers))]...)
				keys = append(keys, wide[r.Intn(len(wide))], wide[r.Intn(len(wide))])
				keys = append(keys, randScript(r, 3)...)
				how = "bytewise"
			}
			if how == "with-cursor-report" {
				// plain editing keys: nothing that reads its own argument (it would be the one reading the terminal
				// when the report comes), nothing that looks like a report itself (Ctrl-F3), no lone ESC
				plain := []string{"a", "b", "c", " ", "x", "-", "0", "\x01", "\x05", "\x02", "\x06", "\x0b", "\x19", "\x7f", "\x1b[D", "\x1b[C", "\x1bb", "\x1bf", "é", "中"}
				keys = nil
				for k := 1 + r.Intn(12); k > 0; k-- {
					keys = append(keys, plain[r.Intn(len(plain))])
				}
				if r.Intn(2) == 0 {
					keys = append(keys, "\r")
				}
				sp.Mode = "emacs"
			}
			extra := ""
			if how != "with-cursor-report" && r.Intn(6) == 0 {
				// completion as-you-type (autocomplete on) with an application completer: the list is computed at each
				// redisplay, TAB uses it — whether the keys came one by one or in one read
				sp.Inputrc += "set autocomplete on\n"
				sp.Completer = stdCompleter
				// a word that is the beginning of a candidate (the list narrows with every character), TAB, some more
				cand := []string{"alpha", "alpine", "beta", "x1", "alpha"}[r.Intn(5)]
				keys = nil
				for _, ch := range cand[:1+r.Intn(len(cand))] {
					keys = append(keys, string(ch))
				}
				keys = append(keys, "\t")
				ac := []string{"a", "l", "x", "\t", " ", "\x7f"}
				for k := r.Intn(4); k > 0; k-- {
					keys = append(keys, ac[r.Intn(len(ac))])
				}
				keys = append(keys, "\r")
				extra = "/autocomplete"
			}
			c := Case{Specs: []Spec{sp, sp}, Keys: hexChunks(keys), Cut: r.Int63(), Class: sp.Mode + "/" + how + extra,
				Meta: map[string]string{"how": how}}
			build(&c)
			return c
		},
		oracle: func(c Case, trs []Trace) []Finding {
			a, b := outcome(trs[0]), outcome(trs[1])
			if a != b {
				kind := "differs"
				if strings.Contains(a, "[panic]") || strings.Contains(b, "[panic]") || a == "hang" || b == "hang" {
					kind = "crash-differs" // one delivery crashes: C01's business, different signature
				}
				// In a local keymap (incremental search, completion menu) of the Emacs mode an ESC alone in its
				// read cancels the mode, as in the Vi modes: deliveries that differ in what follows an ESC byte
				// in its read are told apart by timing there too. Tagged, so that it is one known finding.
				tag := ""
				if c.Specs[0].Mode == "emacs" && strings.Contains(unhex(c.Keys), "\x1b") {
					for _, tr := range trs {
						for _, w := range tr.Waits {
							if w.Local != "" {
								tag = "/esc-with-local-keymap"
							}
						}
					}
				}
				// Keys fed by a command (do-lowercase-version on M-<uppercase> and C-x <uppercase>, a keyboard macro)
				// are dispatched after the type-ahead that was read together with the key that fed them: also
				// tagged as one known finding.
				if tag == "" && (feedsKeys.MatchString(unhex(c.Keys)) || (c.Specs[0].Mode == "vi" && feedsKeysVi.MatchString(unhex(c.Keys)))) {
					tag = "/fed-keys-with-type-ahead"
				}
				// Vim visual mode: vi-change-case (~) followed IN THE SAME READ by an ESC-prefixed key: whether a redisplay
				// ran between the two decides in which keymap the ESC is dispatched (one known finding)
				if tag == "" && c.Specs[0].Mode == "vi" && visualTildeEsc.MatchString(unhex(c.Keys)) {
					tag = "/visual-change-case-then-esc-key"
				}
				return []Finding{{"C05", kind + "/" + c.Specs[0].Mode + "/" + c.Meta["how"] + tag,
					fmt.Sprintf("key-per-read: %s\n%s: %s", a, c.Meta["how"], b), c}}
			}
			return nil
		}})
}

func compact(chunks []string) []string {
	var out []string
	for _, c := range chunks {
		if c != "" {
			out = append(out, c)
		}
	}
	return out
}

// joinKeys concatenates keys into reads; cutAfter(i) forces a cut after key i.
func joinKeys(keys []string, cutAfter func(i int) bool) []string {
	var out []string
	cur := ""
	for i, k := range keys {
		cur += k
		if cutAfter(i) {
			out = append(out, cur)
			cur = ""
		}
	}
	if cur != "" {
		out = append(out, cur)
	}
	return hexChunks(out)
}
