package main

import (
	"fmt"
	"math/rand"
	"strings"

	. "github.com/reeflective/readline/verifx/internal/sess"
)

func init() {
	navNames := map[string]string{"a": "previous-history", "b": "next-history", "c": "beginning-of-history", "d": "end-of-history",
		"e": "history-search-backward", "f": "history-search-forward", "g": "history-substring-search-backward", "h": "history-substring-search-forward"}
	var binds []Bind
	navNames["i"], navNames["j"] = "non-incremental-reverse-search-history", "non-incremental-forward-search-history"
	for _, k := range []string{"a", "b", "c", "d", "e", "f", "g", "h", "i", "j"} {
		binds = append(binds, Bind{Seq: `\C-x\C-z` + k, Cmd: navNames[k]})
	}
	pool := []string{"one", "two", "one two", "three", "one", "tw", "a\nb", "é中", "o", "cat a.c", "make abc", "ls *.go", "echo HOME$", "x (y"}
	register(&prop{id: "C09", shrinkable: true,
		build: func(c *Case) {
			var keys []string
			for _, ch := range c.Meta["typed"] {
				keys = append(keys, string(ch))
			}
			c.Specs[0].Chunks = append(hexChunks(keys), c.Keys...)
		},
		gen: func(r *rand.Rand) Case {
			sp := Spec{Prompt: "> ", Mode: "emacs", Runs: 1, Binds: binds}
			var ls []string
			for k := r.Intn(6); k > 0; k-- {
				ls = append(ls, pool[r.Intn(len(pool))])
			}
			sp.Sources = []Src{{Name: "main", Lines: ls}}
			part := "walk"
			cmds := "abcd"
			typed := []string{"", "wip", "one", "x y"}[r.Intn(4)]
			if r.Intn(2) == 0 {
				part = "search"
				cmds = "ef"
				if r.Intn(3) == 0 {
					cmds = "gh"
				}
				typed = []string{"o", "one", "t", "tw", "zz", "ne"}[r.Intn(6)] // ASCII: typing non-ASCII is C02's business
				if cmds == "gh" && r.Intn(2) == 0 {
					// the search text is text, not a pattern: characters that mean something in a regular expression
					typed = []string{"a.c", "*.go", "E$", ".", "(y", "ab"}[r.Intn(6)]
				}
			}
			var nav []string
			for k := 1 + r.Intn(10); k > 0; k-- {
				nav = append(nav, "\x18\x1a"+string(cmds[r.Intn(len(cmds))]))
			}
			if r.Intn(4) == 0 {
				// incremental search with the default keys: C-r / C-s, the search text, the same key again to go to
				// the next match, ESC to leave the search with the match in the buffer
				part = "isearch"
				typed = ""
				cmds = "i"
				key := []string{"\x12", "\x13"}[r.Intn(2)]
				text := []string{"a", "b", "o", "t", "ne", "ab", "wo", "e"}[r.Intn(8)]
				nav = []string{key}
				for _, ch := range text {
					nav = append(nav, string(ch))
				}
				for k := r.Intn(3); k > 0; k-- {
					nav = append(nav, key)
				}
				nav = append(nav, "\x1b")
				c := Case{Specs: []Spec{sp}, Keys: hexChunks(nav), Class: fmt.Sprintf("%s/entries=%d", part, len(ls)),
					Meta: map[string]string{"part": part, "typed": typed, "kind": cmds, "text": text}}
				c.Specs[0].Chunks = c.Keys
				return c
			}
			if r.Intn(6) == 0 {
				// non-incremental searches: Vim / ? then n N (the search string is remembered), Emacs M-p M-n
				part = "nonincr"
				typed = ""
				text := []string{"a", "o", "t", "ne", "ab", "make", "one", "zz", "a.c"}[r.Intn(9)]
				var nav []string
				if r.Intn(3) > 0 {
					sp.Mode = "vi"
					part += "/vi"
					nav = append(nav, "\x1b", []string{"/", "?"}[r.Intn(2)])
				} else {
					nav = append(nav, []string{"\x18\x1ai", "\x18\x1aj"}[r.Intn(2)])
				}
				for _, ch := range text {
					nav = append(nav, string(ch))
				}
				nav = append(nav, "\r")
				if sp.Mode == "vi" {
					for k := r.Intn(5); k > 0; k-- {
						nav = append(nav, []string{"n", "N"}[r.Intn(2)])
					}
				}
				c := Case{Specs: []Spec{sp}, Keys: hexChunks(nav), Class: fmt.Sprintf("%s/entries=%d", part, len(ls)),
					Meta: map[string]string{"part": "nonincr", "typed": typed, "kind": cmds, "text": text, "start": fmt.Sprint(len(nav) - strings.Count(strings.Join(nav[2:], ""), "n") - strings.Count(strings.Join(nav[2:], ""), "N"))}}
				c.Specs[0].Chunks = c.Keys
				return c
			}
			if part == "walk" && len(ls) > 0 && r.Intn(4) == 0 {
				// two calls: the first walks up to a stored entry and accepts it as it is, the second walks through the
				// history, which now ends with that line (unless it was the newest entry already)
				part = "walk-after-accept"
				typed = ""
				var first []string
				j := 1 + r.Intn(len(ls))
				for k := 0; k < j; k++ {
					first = append(first, "\x18\x1aa")
				}
				first = append(first, "\r")
				for k := range nav {
					if nav[k] == "\x18\x1ad" {
						nav[k] = "\x18\x1ab"
					}
				}
				sp.Runs = 2
				c := Case{Specs: []Spec{sp}, Keys: hexChunks(append(first, nav...)), Class: fmt.Sprintf("%s/entries=%d", part, len(ls)),
					Meta: map[string]string{"part": part, "typed": typed, "kind": cmds, "first": fmt.Sprint(j)}}
				c.Specs[0].Chunks = c.Keys
				return c
			}
			c := Case{Specs: []Spec{sp}, Keys: hexChunks(nav), Class: fmt.Sprintf("%s/entries=%d", part, len(ls)),
				Meta: map[string]string{"part": part, "typed": typed, "kind": cmds}}
			var keys []string
			for _, ch := range typed {
				keys = append(keys, string(ch))
			}
			c.Specs[0].Chunks = append(hexChunks(keys), c.Keys...)
			return c
		},
		oracle: func(c Case, trs []Trace) []Finding {
			tr := trs[0]
			entries := c.Specs[0].Sources[0].Lines
			typed := c.Meta["typed"]
			nTyped := len([]rune(typed))
			nav := c.Keys
			if tr.Hang {
				return []Finding{{"C09", "fails/hang/" + c.Meta["part"], fmt.Sprintf("history %q, typed %q, commands %q: no return, not waiting", entries, typed, unhex(nav)), c}}
			}
			for _, res := range tr.Results {
				if res.Panic != "" {
					return []Finding{{"C09", "fails/panic@" + res.Site, fmt.Sprintf("history %q, typed %q, commands %q: %s", entries, typed, unhex(nav), res.Panic), c}}
				}
			}
			var fs []Finding
			if c.Meta["part"] == "isearch" {
				// after the ESC that leaves the search the buffer is empty (the in-progress text) or a stored entry,
				// character for character, that contains the search text
				if raw := unhex(nav); len(raw) < 2 || (raw[0] != 0x12 && raw[0] != 0x13) || raw[len(raw)-1] != 0x1b {
					stat("skipped: not an incremental search any more (shrunk)")
					return nil
				}
				if len(tr.Waits) < len(nav)+1 {
					stat("skipped: isearch script not run to its end")
					return nil
				}
				last := tr.Waits[len(nav)]
				if last.Local != "" {
					stat("skipped: still searching")
					return nil
				}
				stat("decided: isearch")
				// the search text is what was typed between the search key and the ESC (the script may have been shrunk)
				text := ""
				for _, ch := range unhex(nav) {
					if ch >= 0x20 && ch < 0x7f {
						text += string(ch)
					}
				}
				ok := last.Line == ""
				for _, e := range entries {
					if last.Line == e && strings.Contains(e, text) {
						ok = true
					}
				}
				if !ok {
					fs = append(fs, Finding{"C09", "search-shows-non-match/isearch", fmt.Sprintf("history %q, incremental search %q: buffer %q is neither empty nor a stored entry containing the text", entries, unhex(nav), last.Line), c})
				}
				if len(tr.Sources) > 0 && !eqLines(tr.Sources[0][0], entries) && !(len(entries) == 0 && len(tr.Sources[0][0]) == 0) {
					fs = append(fs, Finding{"C09", "history-modified", fmt.Sprintf("history %q became %q", entries, tr.Sources[0][0]), c})
				}
				return fs
			}
			if c.Meta["part"] == "nonincr" {
				// the search string is what was typed between the key that opens the minibuffer and RET (the script may
				// have been shrunk): every buffer shown once the minibuffer is closed is empty or a stored entry containing it
				raw := unhex(nav)
				k0, first := -1, -1
				for k := range nav {
					ch := unhex(nav[k : k+1])
					if k0 < 0 && (ch == "/" || ch == "?" || ch == "\x18\x1ai" || ch == "\x18\x1aj") {
						k0 = k
					} else if k0 >= 0 && ch == "\r" {
						first = k + 1
						break
					}
				}
				if k0 < 0 || first < 0 || first >= len(tr.Waits) || strings.Trim(unhex(nav[first:]), "nN") != "" {
					stat("skipped: not a non-incremental search any more (shrunk)")
					return nil
				}
				opener := unhex(nav[k0 : k0+1])
				backward := opener == "?" || opener == "\x18\x1ai"
				text := unhex(nav[k0+1 : first-1])
				if text == "" || strings.ContainsAny(text, "\x1b\x18\r") {
					stat("skipped: no search text")
					return nil
				}
				if len(tr.Results) != 1 || tr.Results[0].Err != "end-of-script" {
					stat("skipped: the call returned")
					return nil
				}
				for w := first; w < len(tr.Waits) && w <= len(nav); w++ {
					if tr.Waits[w].Local != "" {
						stat("skipped: minibuffer still open")
						return nil
					}
					got := tr.Waits[w].Line
					ok := got == ""
					for _, e := range entries {
						if got == e && strings.Contains(e, text) {
							ok = true
						}
					}
					stat("decided: non-incremental search step")
					if !ok {
						return []Finding{{"C09", "search-shows-non-match/non-incremental", fmt.Sprintf("history %q, keys %q (search string %q): after %q the buffer is %q, neither empty nor a stored entry containing the string", entries, raw, text, unhex(nav[:w]), got), c}}
					}
					if w == first && got == "" && backward {
						for _, e := range entries {
							if strings.Contains(e, text) {
								return []Finding{{"C09", "search-misses-match/non-incremental", fmt.Sprintf("history %q, keys %q: buffer still empty although %q contains %q", entries, raw, e, text), c}}
							}
						}
					}
				}
				if len(tr.Sources) > 0 && !eqLines(tr.Sources[0][0], entries) && !(len(entries) == 0 && len(tr.Sources[0][0]) == 0) {
					return []Finding{{"C09", "history-modified", fmt.Sprintf("history %q became %q", entries, tr.Sources[0][0]), c}}
				}
				return nil
			}
			if c.Meta["part"] == "walk-after-accept" {
				var j int
				fmt.Sscan(c.Meta["first"], &j)
				raw := unhex(nav)
				if len(tr.Results) < 1 || tr.Results[0].Err != "" || tr.Results[0].NWaits != j+1 || j < 1 || j > len(entries) ||
					!strings.HasPrefix(raw, strings.Repeat("\x18\x1aa", j)+"\r") {
					stat("skipped: not a walk up then an accept (shrunk)")
					return nil
				}
				accepted := tr.Results[0].Line
				if accepted != entries[len(entries)-j] {
					stat("skipped: the first call did not return the entry it walked to (the single-call walk decides that)")
					return nil
				}
				now := entries
				if accepted != entries[len(entries)-1] {
					now = append(append([]string{}, entries...), accepted)
				}
				i := 0
				for k := j + 1; k < len(nav); k++ {
					w := k + 1
					if w >= len(tr.Waits) {
						break
					}
					cmd := unhex(nav[k : k+1])
					cmd = cmd[len(cmd)-1:]
					switch cmd {
					case "a":
						if i < len(now) {
							i++
						}
					case "b":
						if i > 0 {
							i--
						}
					case "c":
						i = len(now)
					default:
						stat("skipped: other command")
						return nil
					}
					want := ""
					if i > 0 {
						want = now[len(now)-i]
					}
					stat("decided: walk step in the call after an accepted history line")
					if got := tr.Waits[w].Line; got != want {
						return []Finding{{"C09", "walk-shows-wrong-entry/after-accepting-a-history-line", fmt.Sprintf("history %q; first call: %d × previous-history, RET returns %q; second call after %q (position %d from newest of %q): buffer %q, want %q", entries, j, accepted, unhex(nav[j+1:k+1]), i, now, got, want), c}}
					}
				}
				return nil
			}
			n := len(entries)
			i := 0
			exact := true // false once end-of-history ran: it is documented to go to the last event, and what it does from the middle of the list is not what this property speaks about
			// wait k (k ≥ nTyped+1) shows the state after nav key k-nTyped-1
			for k := 0; k < len(nav); k++ {
				w := nTyped + 1 + k
				if w >= len(tr.Waits) {
					break
				}
				got := tr.Waits[w].Line
				cmd := unhex(nav[k : k+1])
				cmd = cmd[len(cmd)-1:]
				if c.Meta["part"] == "walk" {
					switch cmd {
					case "a":
						if i < n {
							i++
						}
					case "b":
						if i > 0 {
							i--
						}
					case "c":
						if n > 0 {
							i = n
						}
					case "d":
						exact = false
					}
					if !exact {
						ok := got == typed
						for _, e := range entries {
							ok = ok || got == e
						}
						stat("decided: walk step (membership only)")
						if !ok {
							fs = append(fs, Finding{"C09", "walk-shows-unknown-text/" + navNames[cmd], fmt.Sprintf("history %q, typed %q, after %q: buffer %q is neither the typed text nor an entry", entries, typed, unhex(nav[:k+1]), got), c})
							break
						}
						continue
					}
					want := typed
					if i > 0 {
						want = entries[n-i]
					}
					stat("decided: walk step")
					if got != want {
						fs = append(fs, Finding{"C09", "walk-shows-wrong-entry/" + navNames[cmd], fmt.Sprintf("history %q, typed %q, after %q (step %d, expected position %d from newest): buffer %q, want %q", entries, typed, unhex(nav[:k+1]), k, i, got, want), c})
						break
					}
					continue
				}
				ok := got == typed
				for _, e := range entries {
					if c.Meta["kind"] == "ef" && strings.HasPrefix(e, typed) && got == e {
						ok = true
					}
					if c.Meta["kind"] == "gh" && strings.Contains(e, typed) && got == e {
						ok = true
					}
				}
				stat("decided: search step")
				// the first search backward from the input line finds an entry when one matches
				if k == 0 && (cmd == "e" || cmd == "g") && got == typed {
					// (the most recent matching entry; when it is the typed text itself the buffer does not change)
					for j := len(entries) - 1; j >= 0; j-- {
						e := entries[j]
						if (c.Meta["kind"] == "ef" && strings.HasPrefix(e, typed)) || (c.Meta["kind"] == "gh" && strings.Contains(e, typed)) {
							if e != typed {
								fs = append(fs, Finding{"C09", "search-misses-match/" + navNames[cmd], fmt.Sprintf("history %q, typed %q, after %q: buffer still %q although %q matches", entries, typed, unhex(nav[:k+1]), got, e), c})
							}
							break
						}
					}
					if len(fs) > 0 {
						break
					}
				}
				if !ok {
					fs = append(fs, Finding{"C09", "search-shows-non-match/" + navNames[cmd], fmt.Sprintf("history %q, typed %q, after %q: buffer %q", entries, typed, unhex(nav[:k+1]), got), c})
					break
				}
			}
			if len(tr.Sources) > 0 && !eqLines(tr.Sources[0][0], entries) && !(len(entries) == 0 && len(tr.Sources[0][0]) == 0) {
				fs = append(fs, Finding{"C09", "history-modified", fmt.Sprintf("history %q became %q", entries, tr.Sources[0][0]), c})
			}
			return fs
		}})
}
