package main

import (
	"fmt"
	"math/rand"
	"strings"

	. "github.com/reeflective/readline/verifx/internal/sess"
)

// C07: undo steps back through earlier states of the line, newest first; repeated undo reaches the
// initial content; n undos then n redos restore the text that preceded them; an edit after an undo
// discards the redo branch.
//
// A script is a list of keys, one per read, so that the snapshot at wait i+1 is the state after key i.
// Text is typed in ASCII; kills, yanks, transpositions and case changes are the editing commands;
// movements are in the alphabet because they are what makes the library save a state.

const (
	c07Undo = "\x1f"     // C-_
	c07Redo = "\x18\x1ar" // bound by the spec
)

var c07Edits = []string{"a", "b", " ", "x", "-", "\x7f", "\x04", "\x0b", "\x15", "\x17", "\x1bd", "\x19", "\x14", "\x1bu", "\x1bc",
	// commands with a numeric argument (one read: the argument and the command): one command, one state.
	// Only commands that use their argument: one that ignores it leaves it to the next command (known finding
	// C16-count-leak), and previous-history would then walk several lines
	"\x1b3\x04", "\x1b2\x04"}
var c07Moves = []string{"\x01", "\x05", "\x02", "\x06", "\x1bb", "\x1bf"}

// history walking: each history line has its own undo history, whose initial content is the entry
var c07Walks = []string{"\x10", "\x10", "\x0e"} // C-p, C-p, C-n
var c07History = []string{"first entry", "second", "third one"}

func c07Name(k string) string {
	switch k {
	case c07Undo:
		return "U"
	case c07Redo:
		return "R"
	}
	return fmt.Sprintf("%q", k)
}

func init() {
	register(&prop{id: "C07", shrinkable: true,
		gen: func(r *rand.Rand) Case {
			var keys []string
			for n := 2 + r.Intn(8); n > 0; n-- {
				switch x := r.Intn(12); {
				case x >= 10:
					keys = append(keys, c07Walks[r.Intn(len(c07Walks))])
				case x < 6:
					keys = append(keys, c07Edits[r.Intn(len(c07Edits))])
				case x < 8:
					keys = append(keys, c07Moves[r.Intn(len(c07Moves))])
				case x < 9:
					keys = append(keys, c07Undo)
				default:
					keys = append(keys, c07Redo)
				}
			}
			kind := []string{"undo-all", "undo-redo", "undo-edit-undo", "undo-redo-undo-all"}[r.Intn(4)]
			c := Case{Keys: hexChunks(keys), Class: kind, Meta: map[string]string{"kind": kind, "n": fmt.Sprint(1 + r.Intn(3))}}
			if r.Intn(4) == 0 {
				// a small history-size: it bounds the history, not the number of states a line can be undone through
				c.Meta["histsize"] = fmt.Sprint(2 + r.Intn(4))
				c.Class += "/history-size"
			}
			props["C07"].build(&c)
			return c
		},
		build: func(c *Case) {
			keys := append([]string{}, strings.Split(unhexJoin(c.Keys), "\x00")...)
			var n int
			fmt.Sscan(c.Meta["n"], &n)
			body := len(keys)
			switch c.Meta["kind"] {
			case "undo-all":
				for i := 0; i < body+3; i++ {
					keys = append(keys, c07Undo)
				}
			case "undo-redo":
				for i := 0; i < n; i++ {
					keys = append(keys, c07Undo)
				}
				for i := 0; i < n; i++ {
					keys = append(keys, c07Redo)
				}
			case "undo-edit-undo":
				keys = append(keys, c07Undo, "z", "\x01", c07Undo, c07Undo, c07Redo, c07Redo, c07Redo)
			case "undo-redo-undo-all":
				// part of the way back (n·(body/3) undos), ONE redo, then all the way back
				for i := 0; i < 1+n*body/3; i++ {
					keys = append(keys, c07Undo)
				}
				keys = append(keys, c07Redo)
				for i := 0; i < body+3; i++ {
					keys = append(keys, c07Undo)
				}
			}
			c.Meta["body"] = fmt.Sprint(body)
			sp := Spec{Prompt: "> ", Mode: "emacs", Runs: 1, Binds: []Bind{{Seq: `\C-x\C-zr`, Cmd: "redo"}}, Sources: []Src{{Name: "main", Lines: c07History}}}
			if c.Meta["histsize"] != "" {
				sp.Inputrc = "set history-size " + c.Meta["histsize"] + "\n"
			}
			sp.Chunks = hexChunks(keys)
			c.Specs = []Spec{sp}
		},
		oracle: func(c Case, trs []Trace) []Finding {
			tr := trs[0]
			if tr.Hang {
				return nil
			}
			for _, res := range tr.Results {
				if res.Panic != "" {
					return nil // C01's business
				}
			}
			sp := c.Specs[0]
			keys := make([]string, len(sp.Chunks))
			for i := range sp.Chunks {
				keys[i] = unhex(sp.Chunks[i : i+1])
			}
			// Waits[i] is the state before key i; the end-of-script wait is the state after the last key
			if len(tr.Waits) != len(keys)+1 {
				return nil // a key accepted the line or was read as an argument: not a case of this oracle
			}
			var body int
			fmt.Sscan(c.Meta["body"], &body)
			script := func() string {
				var p []string
				for _, k := range keys {
					p = append(p, c07Name(k))
				}
				return strings.Join(p, " ")
			}
			var fs []Finding
			// which line is being edited: 0 is the line being typed, k > 0 the k-th entry from the newest
			// (previous-history / next-history move between them; C09 decides that they do)
			nh := len(c07History)
			lineOf := make([]int, len(keys)+1)
			cur := 0
			for i, k := range keys {
				lineOf[i] = cur
				switch k {
				case "\x10":
					if cur < nh {
						cur++
					}
				case "\x0e":
					if cur > 0 {
						cur--
					}
				}
			}
			lineOf[len(keys)] = cur
			initial := func(line int) string {
				if line == 0 {
					return ""
				}
				return c07History[nh-line]
			}
			seen := map[int]map[string]bool{}
			see := func(line int, text string) {
				if seen[line] == nil {
					seen[line] = map[string]bool{initial(line): true}
				}
				seen[line][text] = true
			}
			for i := range keys {
				see(lineOf[i], tr.Waits[i].Line)
				after := tr.Waits[i+1].Line
				if keys[i] == c07Undo || keys[i] == c07Redo {
					stat("undo-or-redo-step")
					if !seen[lineOf[i]][after] {
						where := "typed-line"
						if lineOf[i] > 0 {
							where = "history-line"
						}
						fs = append(fs, Finding{"C07", "shows-text-never-shown/" + c07Name(keys[i]) + "/" + where, fmt.Sprintf("script %s: key %d gives %q, which that line never was (it started as %q)", script(), i, after, initial(lineOf[i])), c})
						break
					}
				}
			}
			// newest first: undoing right after an editing command (typed characters are grouped, as in
			// Emacs, and are not checked here) gives back the state that command was run from
			typed := func(k string) bool { return len(k) == 1 && k[0] >= 0x20 && k[0] < 0x7f }
			for i := 0; i+1 < len(keys); i++ {
				if keys[i+1] == c07Undo && keys[i] != c07Undo && keys[i] != c07Redo && keys[i] != "\x10" && keys[i] != "\x0e" && !typed(keys[i]) && tr.Waits[i].Line != tr.Waits[i+1].Line {
					stat("undo-after-command")
					if tr.Waits[i+2].Line != tr.Waits[i].Line {
						how := "plain"
						if i > 0 && (keys[i-1] == c07Undo || keys[i-1] == c07Redo) {
							how = "command-after-undo"
						} else if i > 0 && typed(keys[i-1]) {
							how = "command-after-typing"
						}
						fs = append(fs, Finding{"C07", "undo-skips-state-before-command/" + how, fmt.Sprintf("script %s: key %d changed %q into %q, the undo after it gives %q", script(), i, tr.Waits[i].Line, tr.Waits[i+1].Line, tr.Waits[i+2].Line), c})
						break
					}
				}
			}
			final := tr.Waits[len(keys)].Line
			switch c.Meta["kind"] {
			case "undo-all", "undo-redo-undo-all":
				stat(c.Meta["kind"])
				if want := initial(lineOf[len(keys)]); final != want {
					how := "after-undos"
					if c.Meta["kind"] != "undo-all" {
						how = "after-undo-redo"
					}
					fs = append(fs, Finding{"C07", "undo-does-not-reach-initial/" + how, fmt.Sprintf("script %s: after the final run of undos the buffer is %q, the line started as %q", script(), final, want), c})
				}
			case "undo-redo":
				stat("undo-redo")
				before := tr.Waits[body].Line
				if final != before {
					how := "after-command"
					if body > 0 && len(keys[body-1]) == 1 && keys[body-1][0] >= 0x20 && keys[body-1][0] < 0x7f {
						how = "after-typing" // the text before the undos was typed and never saved
					} else if body > 0 {
						// which command made the state the redos do not bring back: the known finding lists the commands
						// that do not save the line by themselves; another one is another violation
						how += fmt.Sprintf("/k%x", keys[body-1])
						// ... and whether that command changed the text (a command that edits saves the line: a
						// movement after unsaved typing is the known case)
						if body > 0 && tr.Waits[body].Line != tr.Waits[body-1].Line {
							how += "/edits"
						}
					}
					if strings.Contains(strings.Join(keys[:body], ""), c07Undo) || strings.Contains(strings.Join(keys[:body], ""), c07Redo) {
						how += "/undone-before"
					}
					fs = append(fs, Finding{"C07", "redo-does-not-restore/" + how, fmt.Sprintf("script %s: %q before the undos, %q after as many redos", script(), before, final), c})
				}
			case "undo-edit-undo":
				stat("undo-edit-undo")
				// the state that the first appended undo took away must not come back, unless it is
				// also a state on the remaining path
				undone, shown := tr.Waits[body].Line, tr.Waits[body+1].Line
				if undone != shown {
					path := map[string]bool{}
					for i := 0; i <= body+1; i++ {
						if i != body {
							path[tr.Waits[i].Line] = true
						}
					}
					for i := body + 3; i <= len(keys); i++ {
						path[tr.Waits[body+2].Line], path[tr.Waits[body+3].Line] = true, true
						if l := tr.Waits[i].Line; l == undone && !path[l] {
							fs = append(fs, Finding{"C07", "redo-branch-resurfaces", fmt.Sprintf("script %s: %q was undone, then the line was edited; key %d brings it back", script(), undone, i-1), c})
							break
						}
					}
				}
			}
			return fs
		}})
}

// unhexJoin decodes hex chunks and joins them with NUL (keys never contain NUL).
func unhexJoin(chunks []string) string {
	var p []string
	for i := range chunks {
		p = append(p, unhex(chunks[i:i+1]))
	}
	return strings.Join(p, "\x00")
}
