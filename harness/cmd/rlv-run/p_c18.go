package main

import (
	"fmt"
	"math/rand"
	"strings"

	. "github.com/reeflective/readline/verifx/internal/sess"
)

var macroKeysEmacs = []string{"a", "b", " ", "x", "\"", "'", "\\", "-", "é", "\x01", "\x05", "\x02", "\x06", "\x1bb", "\x1bf", "\x04", "\x7f",
	"\x0b", "\x17", "\x19", "\x1bd", "\x1b[D", "\x1b[C", "\x14", "\x1bu", "\x1bl", "\x1bc", "\x1b\x7f",
	"\x1b\\", "\x1bB", "\x1bF", "\x1bt", "\x1b[3~", "\x1b[H"}
var macroKeysVi = []string{"h", "l", "w", "b", "e", "0", "$", "x", "X", "~", "p", "P", "D", "ia\x1b", "A\"\x1b", "i\\\x1b", "dw", "yw", "rZ", "fa", "cwq\x1b", "\x1b[D", "J",
	"di\"", "da(", "yi'", "ci\"z\x1b", "diw", "daw", "\x1b[C", "dfa", "dtb", ";a", ",b"}

func init() {
	register(&prop{id: "C18",
		gen: func(r *rand.Rand) Case {
			buf := bufferPool[r.Intn(len(bufferPool))]
			pos := r.Intn(len([]rune(buf)) + 1)
			vi := r.Intn(2) == 0
			pool := macroKeysEmacs
			if vi {
				pool = macroKeysVi
			}
			n := 1 + r.Intn(6)
			base := Spec{Prompt: "> ", Mode: "emacs", Runs: 1, Inject: []Inject{{Seq: `\C-x\C-y0`, Line: buf, Pos: pos}}}
			// one case in four: numeric arguments among the keys (to commands that use them and to commands that do not);
			// one in four: the application accepts multi-line input (only lines ending with ";" are complete) and RET,
			// which then continues the line, is one of the keys
			if !vi && r.Intn(4) == 0 {
				pool = append(append([]string{}, pool...), "\x1b2", "\x1b3", "\x1b-", "\x1b2", "\x1b2\x01", "\x1b3\x06")
			}
			if !vi && r.Intn(4) == 0 {
				base.Multi = ";"
				pool = append(append([]string{}, pool...), "\r", "\r")
			}
			var K []string
			for i := 0; i < n; i++ {
				K = append(K, pool[r.Intn(len(pool))])
			}
			// an argument left pending at the end of K would go to a different command in the two scripts (to K's
			// first key when K is typed again, to end-kbd-macro when it is recorded): the last key takes its argument
			switch K[len(K)-1] {
			case "\x1b2", "\x1b3", "\x1b-":
				K = append(K, "\x06")
			}
			if r.Intn(3) == 0 {
				// the usual UTF-8 settings: non-ASCII keys of K are then real keys of the script
				base.Inputrc = "set convert-meta off\nset input-meta on\nset output-meta on\n"
			}
			pre := []string{"\x18\x190"}
			var rec []string
			if vi {
				base.Mode = "vi"
				pre = []string{"\x1b", "\x18\x190"}
				rec = append(append([]string{"q", "a"}, K...), "q", "@", "a")
			} else {
				rec = append(append([]string{"\x18("}, K...), "\x18)", "\x18e")
			}
			// one time in three the keys of K reach the shell one byte per read while they are recorded (a key
			// sequence typed by hand, an arrow key cut by a read): never cut after an ESC in the Vi modes, nor
			// inside a UTF-8 character
			if r.Intn(3) == 0 {
				var cut []string
				for _, k := range rec {
					if len(k) == 1 || k[0] >= 0x80 {
						cut = append(cut, k)
						continue
					}
					cur := ""
					for i := 0; i < len(k); i++ {
						cur += string(k[i])
						if k[i] >= 0x80 || (vi && k[i] == 0x1b && i+1 < len(k)) {
							continue
						}
						if i+1 < len(k) && k[i+1] >= 0x80 && k[i+1] < 0xc0 {
							continue
						}
						cut = append(cut, cur)
						cur = ""
					}
					if cur != "" {
						cut = append(cut, cur)
					}
				}
				rec = cut
			}
			typed, replay := base, base
			typed.Chunks = hexChunks(append(append(append([]string{}, pre...), K...), K...))
			replay.Chunks = hexChunks(append(append([]string{}, pre...), rec...))
			mode := "emacs"
			if vi {
				mode = "vi"
			}
			across := "0"
			if r.Intn(5) == 0 {
				// the macro is recorded in one Readline call, the line accepted, and the macro replayed in the NEXT
				// call on the same shell (against: the keys typed in both calls)
				across = "1"
				typed.Runs, replay.Runs = 2, 2
				play := rec[len(rec)-1:]
				if vi {
					play = rec[len(rec)-2:]
				}
				record := rec[:len(rec)-len(play)]
				typed.Chunks = hexChunks(append(append(append(append(append([]string{}, pre...), K...), "\r"), pre...), K...))
				replay.Chunks = hexChunks(append(append(append(append(append([]string{}, pre...), record...), "\r"), pre...), play...))
			}
			return Case{Specs: []Spec{typed, replay}, Class: mode + map[string]string{"0": "", "1": "/across-calls"}[across], Meta: map[string]string{"buf": buf, "pos": fmt.Sprint(pos), "K": fmt.Sprintf("%q", K), "Kraw": strings.Join(K, ""), "mode": mode, "across": across}}
		},
		oracle: func(c Case, trs []Trace) []Finding {
			for _, tr := range trs {
				if tr.Hang || len(tr.Waits) == 0 {
					return nil
				}
				for _, res := range tr.Results {
					if res.Panic != "" {
						return nil
					}
				}
			}
			// a key of K that ends the Readline call (C-d on an empty line, RET...) makes the two scripts
			// diverge into different calls: not a case of this property
			if c.Meta["across"] == "1" {
				for _, tr := range trs {
					if len(tr.Results) != 2 || tr.Results[0].Err != "" || tr.Results[1].Err != "end-of-script" {
						stat("skipped: not exactly one accepted call then the replay")
						return nil
					}
				}
				a, b := trs[0].Waits[len(trs[0].Waits)-1], trs[1].Waits[len(trs[1].Waits)-1]
				stat("decided: " + c.Meta["mode"] + "/across-calls")
				if a.Line != b.Line {
					sig := "replay-differs/" + c.Meta["mode"] + "/across-calls"
					if i := strings.Index(c.Meta["Kraw"], "\x1b"); c.Meta["mode"] == "vi" && i >= 0 && i < len(c.Meta["Kraw"])-1 {
						sig = "replay-differs/vi/esc-followed-by-keys"
					}
					for _, ch := range c.Meta["Kraw"] {
						if ch > 0x7f && c.Specs[0].Inputrc != "" {
							sig = "replay-differs/" + c.Meta["mode"] + "/non-ascii-key"
							break
						}
					}
					if c.Meta["mode"] == "emacs" {
						kr := c.Meta["Kraw"]
						for i := 0; i+1 < len(kr); i++ {
							if kr[i] == 0x1b && kr[i+1] >= 'A' && kr[i+1] <= 'Z' && i+2 < len(kr) {
								sig = "replay-differs/emacs/feeding-key-inside-macro"
								break
							}
						}
					}
					return []Finding{{"C18", sig, fmt.Sprintf("K=%s on %q@%s: typed in two calls %q, recorded in one call and replayed in the next %q", c.Meta["K"], c.Meta["buf"], c.Meta["pos"], a.Line, b.Line), c}}
				}
				return nil
			}
			for _, tr := range trs {
				if len(tr.Results) != 1 || tr.Results[0].Err != "end-of-script" {
					stat("skipped: K ends the call")
					return nil
				}
			}
			if len(trs[0].Results) != len(trs[1].Results) {
				return []Finding{{"C18", "replay-differs/" + c.Meta["mode"] + "/returns", fmt.Sprintf("K=%s on %q@%s: typed twice returned %d times, record+replay %d times", c.Meta["K"], c.Meta["buf"], c.Meta["pos"], len(trs[0].Results)-1, len(trs[1].Results)-1), c}}
			}
			a, b := trs[0].Waits[len(trs[0].Waits)-1], trs[1].Waits[len(trs[1].Waits)-1]
			stat("decided: " + c.Meta["mode"])
			if a.Line != b.Line {
				sig := "replay-differs/" + c.Meta["mode"]
				// in the Vi keymaps a lone ESC and an ESC-prefixed sequence differ only by timing: a macro is
				// replayed in one go, so an ESC followed by further keys of the macro is read as a prefix
				if i := strings.Index(c.Meta["Kraw"], "\x1b"); c.Meta["mode"] == "vi" && i >= 0 && i < len(c.Meta["Kraw"])-1 {
					sig += "/esc-followed-by-keys"
				}
				// a key that feeds keys back (M-<uppercase> runs do-lowercase-version, which feeds ESC + the
				// lowercase letter): fed keys go behind the keys already queued, and a macro is queued whole
				if c.Meta["mode"] == "emacs" {
					kr := c.Meta["Kraw"]
					for i := 0; i+1 < len(kr); i++ {
						if kr[i] == 0x1b && kr[i+1] >= 'A' && kr[i+1] <= 'Z' && i+2 < len(kr) {
							sig += "/feeding-key-inside-macro"
							break
						}
					}
				}
				for _, ch := range c.Meta["Kraw"] {
					if ch > 0x7f && c.Specs[0].Inputrc != "" {
						sig += "/non-ascii-key" // the replayed key is delivered as ONE byte (its low 8 bits), not as its UTF-8 bytes
						break
					}
				}
				return []Finding{{"C18", sig, fmt.Sprintf("K=%s on %q@%s: typed twice %q, record+replay %q", c.Meta["K"], c.Meta["buf"], c.Meta["pos"], a.Line, b.Line), c}}
			}
			return nil
		}})
}
