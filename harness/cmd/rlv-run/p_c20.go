package main

import (
	"fmt"
	"math/rand"
	"strings"

	. "github.com/reeflective/readline/verifx/internal/sess"
)

func init() {
	// C20 (the deterministic part): an application print while the user is editing
	register(&prop{id: "C20",
		gen: func(r *rand.Rand) Case {
			if r.Intn(6) == 0 {
				// the event arrives while a completion candidate is only virtually inserted in the line (TAB pressed, the
				// menu open), or while an incremental search shows a match: the keys that follow give what they give
				// without the event (second session: the same keys, no event)
				kind := []string{"printf", "resize"}[r.Intn(2)]
				text := "async message"
				if kind == "resize" {
					text = fmt.Sprint([]int{40, 61, 33}[r.Intn(3)])
				}
				var keys []string
				sp := Spec{Prompt: "> ", Mode: "emacs", Runs: 1, Width: 80, Height: 24, Patience: 5, History: []string{"echo alpha", "echo beta", "ls"},
					Completer: []Cand{{Value: "foobar"}, {Value: "foobaz"}, {Value: "fooqux"}, {Value: "other"}}}
				how := "menu"
				if r.Intn(3) == 0 {
					how = "isearch"
					keys = []string{"\x12", "e", "c", "h"}
				} else {
					keys = []string{"f", "o", "\t"}
					if r.Intn(2) == 0 {
						keys = append(keys, "\t")
					}
				}
				at := len(keys)
				keys = append(keys, [][]string{{"\r"}, {"x", "\r"}, {" ", "y", "\r"}, {"\r", "\r"}}[r.Intn(4)]...)
				if how == "isearch" {
					keys = append(keys, "\r")
				}
				plain := sp
				sp.Async = []Async{{At: at, Kind: kind, Text: text}}
				sp.Chunks, plain.Chunks = hexChunks(keys), hexChunks(keys)
				return Case{Specs: []Spec{sp, plain}, Class: kind + "/during-" + how, Meta: map[string]string{"kind": kind, "part": "during", "how": how, "at": fmt.Sprint(at), "text": text}}
			}
			w := []int{80, 40, 20}[r.Intn(3)]
			typed := randCells(r, "ascii", 1+r.Intn(2*w))
			at := 1 + r.Intn(len(typed))
			kind := []string{"printf", "transient", "resize", "resize"}[r.Intn(4)]
			text := []string{"async message", "two\nlines", strings.Repeat("w", w+3)}[r.Intn(3)]
			w2 := w
			if kind == "resize" {
				// the terminal changes width while the user is typing a line that fits on one row at both widths
				// (what a terminal does to wrapped rows when it is resized is its own business)
				w2 = []int{80, 40, 20, 33, 61}[r.Intn(5)]
				for w2 == w {
					w2 = []int{80, 40, 20, 33, 61}[r.Intn(5)]
				}
				typed = randCells(r, "ascii", 1+r.Intn(min(w, w2)-4))
				at = 1 + r.Intn(len(typed))
				text = fmt.Sprint(w2)
				if r.Intn(3) == 0 {
					text = "burst:" + text
				}
			}
			sp := Spec{Prompt: "> ", Mode: "emacs", Runs: 1, Width: w, Height: 24, Patience: 5, Async: []Async{{At: at, Kind: kind, Text: text}}}
			var keys []string
			for _, c := range typed {
				keys = append(keys, string(c))
			}
			keys = append(keys, "\r")
			sp.Chunks = hexChunks(keys)
			return Case{Specs: []Spec{sp}, Class: kind + fmt.Sprintf("/w=%d", w), Meta: map[string]string{"typed": typed, "at": fmt.Sprint(at), "kind": kind, "text": text, "w2": fmt.Sprint(w2)}}
		},
		oracle: func(c Case, trs []Trace) []Finding {
			tr := trs[0]
			if tr.Hang {
				return []Finding{{"C20", "hang/" + c.Meta["kind"], "no return after an asynchronous print", c}}
			}
			if len(tr.Results) == 0 {
				return nil
			}
			res := tr.Results[0]
			if res.Panic != "" {
				return []Finding{{"C20", "panic/" + c.Meta["kind"], res.Panic + " at " + res.Site, c}}
			}
			if c.Meta["part"] == "during" {
				if len(trs) < 2 || trs[1].Hang || len(trs[1].Results) == 0 || trs[1].Results[0].Panic != "" {
					stat("skipped: the session without the event did not return")
					return nil
				}
				stat("decided: event during " + c.Meta["how"])
				if ref := trs[1].Results[0]; res.Line != ref.Line || res.Err != ref.Err {
					return []Finding{{"C20", "edit-broken/" + c.Meta["kind"] + "/during-" + c.Meta["how"], fmt.Sprintf("keys %q with a %s (%q) after key %s: returned %q err=%q; the same keys without the event return %q err=%q", unhex(c.Specs[0].Chunks), c.Meta["kind"], c.Meta["text"], c.Meta["at"], res.Line, res.Err, ref.Line, ref.Err), c}}
				}
				return nil
			}
			stat("decided")
			var fs []Finding
			if res.Line != c.Meta["typed"] || res.Err != "" {
				fs = append(fs, Finding{"C20", "edit-broken/" + c.Meta["kind"], fmt.Sprintf("typed %q with a %s of %q at key %s: returned %q err=%q", c.Meta["typed"], c.Meta["kind"], c.Meta["text"], c.Meta["at"], res.Line, res.Err), c})
			}
			// the screen right after the print: message visible, then prompt and buffer, cursor at the end of the buffer
			var at int
			fmt.Sscan(c.Meta["at"], &at)
			if at < len(tr.Waits) {
				wt := tr.Waits[at]
				sp := c.Specs[0]
				fmt.Sscan(c.Meta["w2"], &sp.Width)
				wantScreen, wantCur := reference(sp.Width, sp.Height, sp.Prompt, []rune(wt.Line), wt.Pos)
				screen := wt.VTE
				for len(screen) > 0 && strings.TrimRight(screen[len(screen)-1], " ") == "" {
					screen = screen[:len(screen)-1]
				}
				dy := wt.CurVTE[0] - wantCur[0]
				okArea := dy >= 0 && dy <= len(screen) && eqLines(screen[dy:], wantScreen) && wt.CurVTE[1] == wantCur[1]
				msgSeen := false
				first := strings.SplitN(c.Meta["text"], "\n", 2)[0]
				if len(first) > sp.Width {
					first = first[:sp.Width]
				}
				for i := 0; i < dy && i < len(screen); i++ {
					if strings.Contains(screen[i], first) {
						msgSeen = true
					}
				}
				if !okArea {
					fs = append(fs, Finding{"C20", "redisplay-wrong/" + c.Meta["kind"], fmt.Sprintf("after the print: cursor %v (want column %d), screen %q, want area %q", wt.CurVTE, wantCur[1], screen, wantScreen), c})
				} else if !msgSeen && c.Meta["kind"] != "resize" {
					fs = append(fs, Finding{"C20", "message-lost/" + c.Meta["kind"], fmt.Sprintf("message %q not above the input area: %q", c.Meta["text"], screen), c})
				}
			}
			return fs
		}})
}
