package main

import (
	"fmt"
	"math/rand"
	"strings"

	. "github.com/reeflective/readline/verifx/internal/sess"
	"github.com/reeflective/readline/verifx/internal/vt"
	"github.com/rivo/uniseg"
)

// reference renders what a terminal of this width shows after printing the
// prompt and the text from a clear screen, and where the cursor belongs for
// buffer position pos: a pending wrap is resolved to the start of the next row
// (the cell after a glyph in the last column is the first cell of the next row).
func reference(w, h int, prompt string, text []rune, pos int) ([]string, [2]int) {
	// a tab is displayed as five blanks (strutil.FormatTabs): what the user sees is the text so expanded
	shown := func(rs []rune) string { return strings.ReplaceAll(string(rs), "\t", "     ") }
	t := vt.New(w, h, false)
	t.Write([]byte(prompt + shown(text)))
	screen := t.Screen()
	c := vt.New(w, h, false)
	c.Write([]byte(prompt + shown(text[:pos])))
	y, x := c.Y, c.X
	if c.Wrap {
		y, x = y+1, 0
	}
	// the cursor never sits on the right half of a wide glyph or before a combining mark's base:
	// positions inside a grapheme are not generated
	return screen, [2]int{y, x}
}

func cellsOf(s string) int { return uniseg.StringWidth(strings.ReplaceAll(s, "\t", "     ")) }

var c04Alphabets = map[string][]string{
	"ascii":     {"a", "b", "c", "x", "-", ".", "/", "Q"},
	"wide":      {"中", "文", "字", "a", "b"},
	"combining": {"é", "a", "ö", "b"},
	"latin":     {"é", "ü", "a", "ß", "b"},
	"tabs":      {"\t", "a", "b", "-", "\t", "c"},
}

func randCells(r *rand.Rand, class string, cells int) string {
	var sb strings.Builder
	alpha := c04Alphabets[class]
	for n := 0; n < cells; {
		g := alpha[r.Intn(len(alpha))]
		if n+cellsOf(g) > cells {
			g = "z"
		}
		sb.WriteString(g)
		n += cellsOf(g)
	}
	return sb.String()
}

func init() {
	classes := []string{"ascii", "ascii", "wide", "combining", "latin", "tabs"}
	register(&prop{id: "C04",
		gen: func(r *rand.Rand) Case {
			w := 8 + r.Intn(25)
			prompt := []string{"> ", "", "long$ ", "$ "}[r.Intn(4)]
			class := classes[r.Intn(len(classes))]
			pw := cellsOf(prompt)
			// total cells around multiples of the width
			k := 1 + r.Intn(3)
			total := k*w + []int{-2, -1, 0, 1, 2}[r.Intn(5)] - pw
			if r.Intn(3) == 0 {
				total = r.Intn(3*w - pw)
			}
			if total < 0 {
				total = 0
			}
			text := randCells(r, class, total)
			// cursor on a grapheme boundary
			var bounds []int
			g := uniseg.NewGraphemes(text)
			n := 0
			for g.Next() {
				bounds = append(bounds, n)
				n += len(g.Runes())
			}
			bounds = append(bounds, n)
			pos := bounds[r.Intn(len(bounds))]
			if r.Intn(3) == 0 {
				pos = n
			}
			ghostCells := []int{0, total / 2, total + w, 3 * w}[r.Intn(4)]
			ghost := randCells(r, "ascii", ghostCells)
			sp := Spec{Prompt: prompt, Mode: "emacs", Runs: 1, Width: w, Height: 12,
				Inject: []Inject{{Seq: `\C-x\C-y0`, Line: ghost, Pos: r.Intn(len(ghost) + 1)}, {Seq: `\C-x\C-y1`, Line: text, Pos: pos}}}
			sp.Chunks = hexChunks([]string{"\x18\x190", "\x18\x191"})
			fit := "inside"
			if (pw+total)%w == 0 && total > 0 {
				fit = "exact-fit"
			}
			ghosting := "no-ghost"
			if ghostCells > total {
				ghosting = "after-longer"
			} else if ghostCells > 0 {
				ghosting = "after-shorter"
			}
			return Case{Specs: []Spec{sp}, Class: class + "/" + fit + "/" + ghosting,
				Meta: map[string]string{"text": text, "pos": fmt.Sprint(pos), "class": class, "fit": fit, "ghost": ghosting}}
		},
		oracle: func(c Case, trs []Trace) []Finding {
			tr := trs[0]
			if tr.Hang || len(tr.Waits) < 3 {
				stat("skipped: hang or crash")
				return nil
			}
			for _, res := range tr.Results {
				if res.Panic != "" {
					stat("skipped: hang or crash")
					return nil
				}
			}
			sp := c.Specs[0]
			var pos int
			fmt.Sscan(c.Meta["pos"], &pos)
			text := []rune(c.Meta["text"])
			w := tr.Waits[2]
			if w.Line != string(text) {
				stat("skipped: state not injected")
				return nil
			}
			wantScreen, wantCur := reference(sp.Width, sp.Height, sp.Prompt, text, pos)
			trim := func(s []string) []string {
				for len(s) > 0 && strings.TrimRight(s[len(s)-1], " ") == "" {
					s = s[:len(s)-1]
				}
				return s
			}
			// The input area starts where the library put it: rows above it must be blank (the session
			// starts on a clear screen, so anything there is a remnant), the rows from there on must be
			// exactly the reference, and the cursor must sit on the reference cell relative to it.
			match := func(screen []string, cur [2]int) (okScreen, okCur bool) {
				dy := cur[0] - wantCur[0]
				if dy < 0 {
					return false, false
				}
				screen = trim(screen)
				for i := 0; i < dy && i < len(screen); i++ {
					if strings.TrimRight(screen[i], " ") != "" {
						return false, cur[1] == wantCur[1]
					}
				}
				var area []string
				if dy < len(screen) {
					area = screen[dy:]
				}
				return eqLines(area, wantScreen), cur[1] == wantCur[1]
			}
			sV, cV := match(w.VTE, w.CurVTE)
			sX, cX := match(w.Xterm, w.CurXT)
			okV, okX := sV && cV, sX && cX
			stat("decided")
			if okV && okX {
				return nil
			}
			sig := c.Meta["class"] + "/" + c.Meta["fit"] + "/" + c.Meta["ghost"]
			what := "screen"
			if sV && sX {
				what = "cursor"
			}
			term := "both"
			if okV {
				term = "xterm-only"
			} else if okX {
				term = "vte-only"
			}
			if term != "both" {
				stat("terminal-dependent (not a violation): " + what + "/" + term + "/" + sig)
				return nil // holds on one of the two VT100-compatible semantics: reported only if both fail
			}
			return []Finding{{"C04", what + "-differs/" + sig, fmt.Sprintf("width %d prompt %q text %q pos %d\nwant cursor %v screen %q\nvte   cursor %v screen %q\nxterm cursor %v screen %q", sp.Width, sp.Prompt, string(text), pos, wantCur, wantScreen, w.CurVTE, trim(w.VTE), w.CurXT, trim(w.Xterm)), c}}
		}})
}
