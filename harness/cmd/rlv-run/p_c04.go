package main

import (
	"fmt"
	"math/rand"
	"strings"

	. "github.com/reeflective/readline/verifx/internal/sess"
	"github.com/reeflective/readline/verifx/internal/vt"
	"github.com/rivo/uniseg"
)

// reference renders what a terminal of this width shows after printing the
// prompt and the text from a clear screen, and where the cursor belongs for
// buffer position pos: a pending wrap is resolved to the start of the next row
// (the cell after a glyph in the last column is the first cell of the next row).
func reference(w, h int, prompt string, text []rune, pos int) ([]string, [2]int) {
	// a tab is displayed as five blanks (strutil.FormatTabs): what the user sees is the text so expanded
	shown := func(rs []rune) string { return strings.ReplaceAll(string(rs), "\t", "     ") }
	t := vt.New(w, h, false)
	t.Write([]byte(prompt + shown(text)))
	screen := t.Screen()
	c := vt.New(w, h, false)
	c.Write([]byte(prompt + shown(text[:pos])))
	y, x := c.Y, c.X
	if c.Wrap {
		y, x = y+1, 0
	}
	// the cursor never sits on the right half of a wide glyph or before a combining mark's base:
	// positions inside a grapheme are not generated
	return screen, [2]int{y, x}
}

func cellsOf(s string) int { return uniseg.StringWidth(strings.ReplaceAll(s, "\t", "     ")) }

var c04Alphabets = map[string][]string{
	"ascii":     {"a", "b", "c", "x", "-", ".", "/", "Q"},
	"wide":      {"中", "文", "字", "a", "b"},
	"combining": {"é", "a", "ö", "b"},
	"latin":     {"é", "ü", "a", "ß", "b"},
	"tabs":      {"\t", "a", "b", "-", "\t", "c"},
}

func randCells(r *rand.Rand, class string, cells int) string {
	var sb strings.Builder
	alpha := c04Alphabets[class]
	for n := 0; n < cells; {
		g := alpha[r.Intn(len(alpha))]
		if n+cellsOf(g) > cells {
			g = "z"
		}
		sb.WriteString(g)
		n += cellsOf(g)
	}
	return sb.String()
}

func init() {
	classes := []string{"ascii", "ascii", "wide", "combining", "latin", "tabs"}
	register(&prop{id: "C04",
		gen: func(r *rand.Rand) Case {
			if r.Intn(5) == 0 {
				// redisplays while the completion engine shows candidates below the input and inserts them
				// virtually in the buffer: the input area is still the prompt and the (visible) buffer, the cursor on its cell
				w := []int{20, 30, 40, 80}[r.Intn(4)]
				prompt := []string{"> ", "long$ "}[r.Intn(2)]
				word := []string{"", "a", "ab"}[r.Intn(3)]
				n := 2 + r.Intn(10)
				var cands []Cand
				for i := 0; i < n; i++ {
					c := Cand{Value: "ab" + strings.Repeat("cdefghij", 3)[:r.Intn(9)] + fmt.Sprint(i)}
					if r.Intn(2) == 0 {
						c.Desc = fmt.Sprintf("description %d", i)
					}
					cands = append(cands, c)
				}
				sp := Spec{Prompt: prompt, Mode: "emacs", Runs: 1, Width: w, Height: 30, Completer: cands,
					Binds: []Bind{{Seq: `\C-x\C-zq`, Cmd: "complete"}, {Seq: `\C-x\C-zr`, Cmd: "possible-completions"}, {Seq: `\C-x\C-zs`, Cmd: "menu-complete"}}}
				cl := "completion"
				if r.Intn(4) == 0 {
					// the application keeps a hint under the input; commands add theirs (numeric argument, registers, searches)
					sp.Persist = []string{"persistent hint", "a hint that is longer than the narrowest of the terminals"}[r.Intn(2)]
					cl += "/persistent-hint"
				}
				if r.Intn(2) == 0 {
					sp.Inputrc = "set history-autosuggest on\n"
					cl += "/autosuggest"
				}
				// the input area is not always at the top of the screen: lines accepted by earlier calls are above it
				// (a cursor sent too far up stops at the top row of a terminal, and the error with it)
				pre := []int{0, 0, 3, 6, 10}[r.Intn(5)]
				sp.Runs = pre + 1
				var keys []string
				for i := 0; i < pre; i++ {
					keys = append(keys, "l", "\r")
				}
				for _, ch := range "x " + word {
					keys = append(keys, string(ch))
				}
				// possible-completions (M-?) lists without inserting; TAB completes, then cycles; Shift-TAB goes back;
				// a typed character or C-g closes the menu
				for k := 2 + r.Intn(8); k > 0; k-- {
					keys = append(keys, []string{"\t", "\t", "\t", "\x1b[Z", "\x1b?", "b", "\x07", "\x7f", "\x18\x1aq", "\x18\x1aq", "\x18\x1ar", "\x18\x1as", "\x13", "z", "\x1b2", "\x1b-", "\x18(", "\x18(", "\x12", "\x1b", "\x18)"}[r.Intn(21)])
				}
				sp.Chunks = hexChunks(keys)
				return Case{Specs: []Spec{sp}, Class: cl, Meta: map[string]string{"part": "completion", "class": cl, "pre": fmt.Sprint(pre)}}
			}
			w := 8 + r.Intn(25)
			prompt := []string{"> ", "", "long$ ", "$ "}[r.Intn(4)]
			class := classes[r.Intn(len(classes))]
			pw := cellsOf(prompt)
			// total cells around multiples of the width
			k := 1 + r.Intn(3)
			total := k*w + []int{-2, -1, 0, 1, 2}[r.Intn(5)] - pw
			if r.Intn(3) == 0 {
				total = r.Intn(3*w - pw)
			}
			if total < 0 {
				total = 0
			}
			text := randCells(r, class, total)
			// cursor on a grapheme boundary
			var bounds []int
			g := uniseg.NewGraphemes(text)
			n := 0
			for g.Next() {
				bounds = append(bounds, n)
				n += len(g.Runes())
			}
			bounds = append(bounds, n)
			pos := bounds[r.Intn(len(bounds))]
			if r.Intn(3) == 0 {
				pos = n
			}
			ghostCells := []int{0, total / 2, total + w, 3 * w}[r.Intn(4)]
			ghost := randCells(r, "ascii", ghostCells)
			sp := Spec{Prompt: prompt, Mode: "emacs", Runs: 1, Width: w, Height: 12,
				Inject: []Inject{{Seq: `\C-x\C-y0`, Line: ghost, Pos: r.Intn(len(ghost) + 1)}, {Seq: `\C-x\C-y1`, Line: text, Pos: pos}}}
			// one case in three: lines accepted by earlier calls are above the input area (a cursor sent too far up
			// stops at the top row of a terminal and hides the error when the prompt is on that row)
			pre := 0
			var first []string
			if r.Intn(3) == 0 {
				pre = 4
				sp.Runs = pre + 1
				for i := 0; i < pre; i++ {
					first = append(first, "l", "\r")
				}
			}
			sp.Chunks = hexChunks(append(first, "\x18\x190", "\x18\x191"))
			fit := "inside"
			if (pw+total)%w == 0 && total > 0 {
				fit = "exact-fit"
			}
			ghosting := "no-ghost"
			if ghostCells > total {
				ghosting = "after-longer"
			} else if ghostCells > 0 {
				ghosting = "after-shorter"
			}
			return Case{Specs: []Spec{sp}, Class: class + "/" + fit + "/" + ghosting,
				Meta: map[string]string{"text": text, "pos": fmt.Sprint(pos), "class": class, "fit": fit, "ghost": ghosting, "pre": fmt.Sprint(pre)}}
		},
		oracle: func(c Case, trs []Trace) []Finding {
			tr := trs[0]
			if tr.Hang || len(tr.Waits) < 3 {
				stat("skipped: hang or crash")
				return nil
			}
			for _, res := range tr.Results {
				if res.Panic != "" {
					stat("skipped: hang or crash")
					return nil
				}
			}
			if c.Meta["part"] == "completion" {
				sp := c.Specs[0]
				var pre int
				fmt.Sscan(c.Meta["pre"], &pre)
				start := 0
				if pre > 0 {
					if len(tr.Results) < pre || tr.Results[pre-1].Err != "" {
						stat("skipped: the earlier calls did not return")
						return nil
					}
					start = tr.Results[pre-1].NWaits
				}
				if start >= len(tr.Waits) || tr.Waits[start].Line != "" {
					stat("skipped: the last call did not start")
					return nil
				}
				base := tr.Waits[start]
				for k := start + 1; k < len(tr.Waits) && k <= len(sp.Chunks); k++ {
					w := tr.Waits[k]
					if w.Kind != "main" {
						stat("skipped: a command reads a key")
						return nil
					}
					if w.Local == "isearch" {
						stat("not decided: the buffer of this wait is the search minibuffer")
						continue
					}
					text := []rune(w.Line)
					if w.Pos < 0 || w.Pos > len(text) {
						continue
					}
					wantScreen, wantCur := reference(sp.Width, sp.Height, sp.Prompt, text, w.Pos)
					for len(wantScreen) > 0 && strings.TrimRight(wantScreen[len(wantScreen)-1], " ") == "" {
						wantScreen = wantScreen[:len(wantScreen)-1]
					}
					// nothing scrolls on the 30 rows: the input area starts on the row where the call started (the rows above
					// hold the lines of the earlier calls, and stay as they were)
					check := func(screen, before []string, cur, cur0 [2]int) string {
						dy := cur0[0]
						if len(screen) < dy+len(wantScreen) || len(before) < dy {
							return "screen"
						}
						for i := 0; i < dy; i++ {
							if screen[i] != before[i] {
								return "rows-above"
							}
						}
						for i := range wantScreen {
							if strings.TrimRight(screen[dy+i], " ") != strings.TrimRight(wantScreen[i], " ") {
								return "screen"
							}
						}
						if cur != [2]int{wantCur[0] + dy, wantCur[1]} {
							return "cursor"
						}
						return ""
					}
					stat("decided: redisplay with the completion engine active")
					eV, eX := check(w.VTE, base.VTE, w.CurVTE, base.CurVTE), check(w.Xterm, base.Xterm, w.CurXT, base.CurXT)
					if eV != "" && eX != "" {
						return []Finding{{"C04", eV + "-differs/" + c.Meta["class"], fmt.Sprintf("width %d prompt %q, after keys %q the buffer is %q pos %d\nwant cursor %v rows %q, from the row of the prompt\nvte   cursor %v screen %q\nxterm cursor %v screen %q", sp.Width, sp.Prompt, unhex(sp.Chunks[:k]), w.Line, w.Pos, wantCur, wantScreen, w.CurVTE, w.VTE, w.CurXT, w.Xterm), c}}
					}
				}
				return nil
			}
			sp := c.Specs[0]
			var pos int
			fmt.Sscan(c.Meta["pos"], &pos)
			text := []rune(c.Meta["text"])
			var pre int
			fmt.Sscan(c.Meta["pre"], &pre)
			start := 0
			if pre > 0 {
				if len(tr.Results) < pre || tr.Results[pre-1].Err != "" {
					stat("skipped: the earlier calls did not return")
					return nil
				}
				start = tr.Results[pre-1].NWaits
			}
			if start+2 >= len(tr.Waits) {
				stat("skipped: state not injected")
				return nil
			}
			base := tr.Waits[start]
			w := tr.Waits[start+2]
			if w.Line != string(text) {
				stat("skipped: state not injected")
				return nil
			}
			// the rows above the row where this call started are what they were, and are left out of what follows
			above := func(screen, before []string, cur, cur0 [2]int) ([]string, [2]int, bool) {
				if pre == 0 {
					return screen, cur, true
				}
				dy0 := cur0[0]
				if len(screen) < dy0 || len(before) < dy0 || cur[0] < dy0 {
					return screen, cur, false
				}
				for i := 0; i < dy0; i++ {
					if screen[i] != before[i] {
						return screen, cur, false
					}
				}
				return screen[dy0:], [2]int{cur[0] - dy0, cur[1]}, true
			}
			vteS, vteC, okAboveV := above(w.VTE, base.VTE, w.CurVTE, base.CurVTE)
			xtS, xtC, okAboveX := above(w.Xterm, base.Xterm, w.CurXT, base.CurXT)
			wantScreen, wantCur := reference(sp.Width, sp.Height, sp.Prompt, text, pos)
			trim := func(s []string) []string {
				for len(s) > 0 && strings.TrimRight(s[len(s)-1], " ") == "" {
					s = s[:len(s)-1]
				}
				return s
			}
			// The input area starts where the library put it: rows above it must be blank (the session
			// starts on a clear screen, so anything there is a remnant), the rows from there on must be
			// exactly the reference, and the cursor must sit on the reference cell relative to it.
			match := func(screen []string, cur [2]int) (okScreen, okCur bool) {
				dy := cur[0] - wantCur[0]
				if dy < 0 {
					return false, false
				}
				screen = trim(screen)
				for i := 0; i < dy && i < len(screen); i++ {
					if strings.TrimRight(screen[i], " ") != "" {
						return false, cur[1] == wantCur[1]
					}
				}
				var area []string
				if dy < len(screen) {
					area = screen[dy:]
				}
				return eqLines(area, wantScreen), cur[1] == wantCur[1]
			}
			sV, cV := match(vteS, vteC)
			sX, cX := match(xtS, xtC)
			sV, sX = sV && okAboveV, sX && okAboveX
			okV, okX := sV && cV, sX && cX
			stat("decided")
			if okV && okX {
				return nil
			}
			sig := c.Meta["class"] + "/" + c.Meta["fit"] + "/" + c.Meta["ghost"]
			if pre > 0 {
				sig += "/below-earlier-lines"
			}
			what := "screen"
			if sV && sX {
				what = "cursor"
			}
			term := "both"
			if okV {
				term = "xterm-only"
			} else if okX {
				term = "vte-only"
			}
			if term != "both" {
				stat("terminal-dependent (not a violation): " + what + "/" + term + "/" + sig)
				return nil // holds on one of the two VT100-compatible semantics: reported only if both fail
			}
			return []Finding{{"C04", what + "-differs/" + sig, fmt.Sprintf("width %d prompt %q text %q pos %d\nwant cursor %v screen %q\nvte   cursor %v screen %q\nxterm cursor %v screen %q", sp.Width, sp.Prompt, string(text), pos, wantCur, wantScreen, w.CurVTE, trim(w.VTE), w.CurXT, trim(w.Xterm)), c}}
		}})
}
