package main

import (
	"fmt"
	"math/rand"
	"strings"

	. "github.com/reeflective/readline/verifx/internal/sess"
)

func init() {
	lines := []string{"ls ", "ls fo", "git commit --am", "cat foo bar", "echo  two", "x", "", "ls é", "ls été", "中文 字", "a/b/c", "ls fo bar baz"}
	register(&prop{id: "C14",
		gen: func(r *rand.Rand) Case {
			line := []rune(lines[r.Intn(len(lines))])
			pos := r.Intn(len(line) + 1)
			// the word being completed: the blank-delimited run of runes before the cursor
			ws := pos
			for ws > 0 && line[ws-1] != ' ' {
				ws--
			}
			pfx := string(line[ws:pos])
			n := 1 + r.Intn(3)
			var cands []Cand
			for i := 0; i < n; i++ {
				cands = append(cands, Cand{Value: fmt.Sprintf("%sx%d", pfx, i)})
			}
			if r.Intn(3) == 0 {
				for i := range cands {
					cands[i].Desc = fmt.Sprintf("d%d", i)
				}
			}
			how := "select"
			keys := []string{"\x18\x190", "\t", "\t"}
			if n == 1 {
				how = "unique"
				keys = []string{"\x18\x190", "\t"}
			} else if r.Intn(3) == 0 {
				how = "cancel"
				keys = []string{"\x18\x190", "\t", "\t", "\x03"}
			} else if r.Intn(3) == 0 {
				how = "cancel-listed"
				keys = []string{"\x18\x190", "\t", "\x03"}
			} else if r.Intn(3) == 0 {
				// the menu is being searched incrementally (C-f in the menu), a candidate inserted again, then Ctrl-C
				how = "cancel-searching"
				keys = []string{"\x18\x190", "\t", "\x06", "x", "\t", "\x03"}
				if r.Intn(2) == 0 {
					keys = []string{"\x18\x190", "\t", "\t", "\x06", "x", "\x03"}
				}
			}
			sp := Spec{Prompt: "> ", Mode: "emacs", Runs: 1, Completer: cands, Inject: []Inject{{Seq: `\C-x\C-y0`, Line: string(line), Pos: pos}}}
			// one cancel in three comes after an incremental history search that replaced the line and was left
			// (state of an earlier mode that the cancel must not bring back)
			if strings.HasPrefix(how, "cancel") && r.Intn(3) == 0 {
				sp.History = []string{"make test", "ls -l /tmp", "echo done"}
				pre := []string{"zz", []string{"\x12", "\x13"}[r.Intn(2)], "l", "\x1b"}
				if r.Intn(2) == 0 {
					pre = []string{"zz", "\x12", "e", "\x12", "\x07"}
				}
				keys = append(pre, keys...)
				how += "+after-isearch"
			}
			sp.Chunks = hexChunks(keys)
			class := "ascii"
			for _, c := range pfx {
				if c > 127 {
					class = "multibyte-word"
				}
			}
			return Case{Specs: []Spec{sp}, Class: how + "/" + class,
				Meta: map[string]string{"line": string(line), "pos": fmt.Sprint(pos), "ws": fmt.Sprint(ws), "how": how, "class": class, "cand": cands[0].Value}}
		},
		oracle: func(c Case, trs []Trace) []Finding {
			tr := trs[0]
			if tr.Hang || len(tr.Waits) == 0 {
				stat("skipped: hang")
				return nil
			}
			for _, res := range tr.Results {
				if res.Panic != "" {
					stat("skipped: panic")
					return nil
				}
			}
			line := []rune(c.Meta["line"])
			var pos, ws int
			fmt.Sscan(c.Meta["pos"], &pos)
			fmt.Sscan(c.Meta["ws"], &ws)
			how := c.Meta["how"]
			sig := how + "/" + c.Meta["class"]
			last := tr.Waits[len(tr.Waits)-1]
			ctx := fmt.Sprintf("%q cursor %d, word %q, candidate %q", string(line), pos, string(line[ws:pos]), c.Meta["cand"])
			if strings.HasPrefix(how, "cancel") {
				// the wait at which Ctrl-C was read: a menu must be active there
				k := len(c.Specs[0].Chunks) - 1
				if k >= len(tr.Waits) || !(tr.Waits[k].Local == "menu-select" || (strings.HasPrefix(how, "cancel-searching") && tr.Waits[k].Local == "isearch")) {
					stat("skipped: no active menu at Ctrl-C")
					return nil
				}
				stat("decided: cancel")
				if len(tr.Results) > 0 && tr.Results[0].Err != "end-of-script" {
					return []Finding{{"C14", "cancel-ends-readline/" + sig, fmt.Sprintf("%s: Ctrl-C on the active menu (buffer %q) returned (%q, %s) instead of only closing it", ctx, tr.Waits[k].Line, tr.Results[0].Line, tr.Results[0].Err), c}}
				}
				if last.Line != string(line) || last.Pos != pos {
					return []Finding{{"C14", "cancel-does-not-restore/" + sig, fmt.Sprintf("%s: after Ctrl-C buffer %q cursor %d", ctx, last.Line, last.Pos), c}}
				}
				return nil
			}
			if last.Line == string(line) {
				stat("skipped: nothing inserted")
				return nil
			}
			stat("decided: insert")
			before, after := string(line[:ws]), string(line[pos:])
			ok := false
			for _, cd := range c.Specs[0].Completer {
				if last.Line == before+cd.Value+after || (how == "unique" && last.Line == before+cd.Value+" "+after) {
					ok = true // an accepted unique match may add the separating space
				}
			}
			if !ok {
				return []Finding{{"C14", "rewrites-outside-word/" + sig, fmt.Sprintf("%s: buffer %q, want %q", ctx, last.Line, before+"<candidate>"+after), c}}
			}
			return nil
		}})
}
