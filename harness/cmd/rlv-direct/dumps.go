package main

import (
	"fmt"
	"math/rand"
	"os"
	"path/filepath"
	"reflect"
	"sort"
	"strings"
	"unicode"
	"unicode/utf8"

	"github.com/reeflective/readline"
	"github.com/reeflective/readline/inputrc"
)

// C19, second sentence: the bindings, macros and variables printed by the dump commands in
// inputrc format, parsed back, reproduce the same configuration.

var dumpKeyAlpha = []rune{'a', 'z', 'M', 'C', '-', '\\', '"', '\'', 0x1b, 0x01, 0x18, 0x1c, 0x7f, 0x80, 0x9b, 0xa2, 0xa7, 0xdc, 0xe9, 0xff, ' ', '0', '#', ':', 0x4e2d, 0x1f600, '[', 'O', '~'}

func dumpSeq(r *rand.Rand, max int) string {
	n := 1 + r.Intn(max)
	rs := make([]rune, n)
	for k := range rs {
		if r.Intn(4) == 0 {
			rs[k] = rune(r.Intn(256))
		} else {
			rs[k] = dumpKeyAlpha[r.Intn(len(dumpKeyAlpha))]
		}
	}
	return string(rs)
}

// capture runs a shell command by name with a numeric argument set (inputrc format) and returns
// what it printed between its leading newline and the prompt it reprints.
func capture(rl *readline.Shell, dir, name string) string {
	path := filepath.Join(dir, "out")
	f, _ := os.Create(path)
	null, _ := os.OpenFile("/dev/null", os.O_RDWR, 0)
	so, se, si := os.Stdout, os.Stderr, os.Stdin
	os.Stdout, os.Stderr, os.Stdin = f, null, null
	func() {
		defer func() { recover() }()
		rl.Iterations.Add("1")
		rl.Keymap.Commands()[name]()
		rl.Iterations.Reset()
	}()
	os.Stdout, os.Stderr, os.Stdin = so, se, si
	f.Close()
	null.Close()
	b, _ := os.ReadFile(path)
	s := string(b)
	i, j := strings.Index(s, "\n"), strings.LastIndex(s, "\n")
	if i < 0 || j <= i {
		return ""
	}
	return s[i+1 : j+1]
}

func c19dumps(r *rand.Rand, n int, dir string) {
	work, _ := os.MkdirTemp(dir, "rlv-dumps-")
	defer os.RemoveAll(work)
	os.Setenv("HOME", work)
	cmds := []string{"forward-char", "kill-line", "yank", "undo", "beginning-of-line", "self-insert", "vi-movement-mode", "menu-complete"}
	strVals := []string{"x", "@", "(ins)", "#", "a b", "", "\\1\\e[1m\\2", "on", "12", "C-J", "\"q\"", "é", "vi"}
	for i := 0; i < n; i++ {
		// a configuration reachable by parsing a generated inputrc file
		var sb strings.Builder
		mode := []string{"emacs", "vi"}[r.Intn(2)]
		fmt.Fprintf(&sb, "set editing-mode %s\n", mode)
		main := "emacs"
		if mode == "vi" {
			main = "vi-insert"
		}
		fmt.Fprintf(&sb, "set keymap %s\n", main)
		class := "binds"
		for k := r.Intn(5); k > 0; k-- {
			fmt.Fprintf(&sb, "\"%s\": %s\n", inputrc.Escape(dumpSeq(r, 3)), cmds[r.Intn(len(cmds))])
		}
		for k := r.Intn(3); k > 0; k-- {
			fmt.Fprintf(&sb, "\"%s\": \"%s\"\n", inputrc.Escape(dumpSeq(r, 3)), inputrc.EscapeMacro(dumpSeq(r, 4)))
			class = "binds+macros"
		}
		vars := inputrc.DefaultVars()
		var names []string
		for v := range vars {
			names = append(names, v)
		}
		sort.Strings(names)
		varClass := ""
		for k := r.Intn(4); k > 0; k-- {
			v := names[r.Intn(len(names))]
			if v == "editing-mode" || v == "keymap" {
				continue
			}
			switch vars[v].(type) {
			case bool:
				fmt.Fprintf(&sb, "set %s %s\n", v, []string{"on", "off"}[r.Intn(2)])
			case int:
				fmt.Fprintf(&sb, "set %s %d\n", v, r.Intn(300))
			case string:
				fmt.Fprintf(&sb, "set %s %s\n", v, strVals[r.Intn(len(strVals))])
				varClass = "+string-var"
			}
		}
		rc := filepath.Join(work, "inputrc")
		os.WriteFile(rc, []byte(sb.String()), 0o644)
		os.Setenv("INPUTRC", rc)
		var rl *readline.Shell
		func() {
			defer func() { recover() }()
			so := os.Stdout
			if dn, err := os.OpenFile("/dev/null", os.O_WRONLY, 0); err == nil {
				os.Stdout = dn
				defer dn.Close()
			}
			defer func() { os.Stdout = so }()
			rl = readline.NewShell()
		}()
		if rl == nil {
			continue
		}
		rep.Cases++
		rep.Classes["dump/"+class+varClass]++
		show := sb.String()
		// --- binds and macros of the main keymap -------------------------------------------
		dump := capture(rl, work, "dump-functions") + capture(rl, work, "dump-macros")
		back := inputrc.NewConfig()
		err := inputrc.Parse(strings.NewReader("set keymap "+main+"\n"+dump), back, inputrc.WithMode(mode))
		if err != nil {
			add("dump-reparse-error/binds", err.Error(), show)
		}
		registered := rl.Keymap.Commands()
		for key, b := range rl.Config.Binds[main] {
			if !b.Macro && registered[b.Action] == nil {
				continue // not printed by dump-functions
			}
			if !inDomain(key) || (b.Macro && !inDomain(b.Action)) {
				continue // outside the property's quantifier (non-printable runes above 0xFF)
			}
			got, ok := back.Binds[main][key]
			kind := "bind"
			if b.Macro {
				kind = "macro"
			}
			if !ok {
				add("dump-loses/"+kind, fmt.Sprintf("keymap %s: %q -> %+v is printed as %q but parsing the dump does not bind it", main, key, b, inputrc.Escape(key)), show)
			} else if got != b {
				add("dump-changes/"+kind, fmt.Sprintf("keymap %s: %q -> %+v comes back as %+v", main, key, b, got), show)
			}
		}
		for key, b := range back.Binds[main] {
			if _, ok := rl.Config.Binds[main][key]; !ok {
				add("dump-invents/bind", fmt.Sprintf("keymap %s: parsing the dump binds %q -> %+v, which the configuration does not have", main, key, b), show)
			}
		}
		// --- variables ----------------------------------------------------------------------
		vdump := capture(rl, work, "dump-variables")
		vback := inputrc.NewDefaultConfig()
		if err := inputrc.Parse(strings.NewReader(vdump), vback, inputrc.WithMode(mode)); err != nil {
			add("dump-reparse-error/variables", err.Error(), show)
		}
		for name, val := range rl.Config.Vars {
			if got := vback.Vars[name]; !reflect.DeepEqual(got, val) {
				vk := "other"
				if s, ok := val.(string); ok {
					vk = stringKind(s)
				}
				add("dump-changes/variable/"+vk, fmt.Sprintf("%s = %#v comes back as %#v", name, val, got), show)
			}
		}
	}
}

// inDomain: runes 0x00-0xFF plus printable Unicode (the property's quantifier).
func inDomain(s string) bool {
	if !utf8.ValidString(s) {
		return false
	}
	for _, c := range s {
		if c > 0xff && !unicode.IsPrint(c) {
			return false
		}
	}
	return true
}

// stringKind names what is special about a variable value (one cause, one signature family).
func stringKind(s string) string {
	switch {
	case s == "":
		return "empty"
	case strings.HasPrefix(s, "#"):
		return "starts-with-hash"
	case strings.ContainsAny(s, " \t"):
		return "contains-blank"
	case strings.ContainsFunc(s, unicode.IsControl):
		return "contains-control"
	case strings.ContainsAny(s, "\"'\\"):
		return "contains-quote-or-backslash"
	case strings.EqualFold(s, "on") || strings.EqualFold(s, "off"):
		return "looks-like-bool"
	}
	return "plain"
}
