package main

import (
	"fmt"
	"math/rand"
	"os"
	"reflect"
	"sort"
	"strings"

	"github.com/reeflective/readline/inputrc"
)

// C13: a binding or variable assignment takes effect iff every enclosing $if/$else block is active;
// it is recorded in the keymap selected by the most recent active `set keymap`, with the key
// sequence and the function-versus-macro distinction as written.
//
// The oracle is a structural evaluator over the generated program tree (it never looks at the
// parser's condition stack); the key sequences a notation stands for are written out by hand.

type c13node struct {
	// leaf
	text string           // the directive as written
	kind string           // bind | set | keymap
	km   string           // keymap: the keymap selected
	seq  string           // bind: decoded key sequence
	bind inputrc.Bind     // bind: action and macro flag
	name string           // set
	val  interface{}      // set
	// $include of a generated file (kind "include"): the file holds variable assignments and blocks only
	file string
	sub  []*c13node
	// block
	test      string
	thn, els  []*c13node
	hasElse   bool
}

var c13keys = []struct{ text, seq string }{
	{`"\C-x\C-r"`, "\x18\x12"}, {`Control-a`, "\x01"}, {`"\e[A"`, "\x1b[A"}, {`a`, "a"}, {`"é"`, "é"}, {`Meta-x`, "ø"},
	{`"\M-x"`, "ø"}, {`"\x1b[3~"`, "\x1b[3~"}, {`TAB`, "\t"}, {`"\C-?"`, "\x7f"}, {`Meta-Control-r`, "\x1b\x12"}, {`"ab"`, "ab"},
	{`'q'`, "q"}, {`"\\"`, `\`}, {`"\""`, `"`}, {`C-x`, "\x18"}, {`RET`, "\r"}, {`"\033z"`, "\x1bz"}, {`"x y"`, "x y"}, {`SPC`, " "}, {`"#"`, "#"},
	// control and meta of an escaped character, as `bind -p` prints them
	{`"\M-\\"`, "\u00dc"}, {`"\C-\\"`, "\x1c"}, {`"\M-\e"`, "\u009b"}, {`"\M-\""`, "\u00a2"},
}
var c13acts = []string{"kill-line", "yank", "self-insert", "x", "beginning-of-line", "vi-movement-mode"}
var c13macros = []struct{ text, val string }{{`"hello"`, "hello"}, {`"\C-a\C-k"`, "\x01\x0b"}, {`'it''s'`, "it"}, {`"a b"`, "a b"}, {`""`, ""}, {`"é\e"`, "é\x1b"}}
var c13vars = []struct {
	text string
	name string
	val  interface{}
}{
	{"set bell-style visible", "bell-style", "visible"}, {"set completion-query-items 42", "completion-query-items", 42},
	{"set blink-matching-paren on", "blink-matching-paren", true}, {"set blink-matching-paren Off", "blink-matching-paren", false},
	{"set history-size 5", "history-size", 5}, {"set comment-begin x", "comment-begin", "x"}, {"set show-all-if-ambiguous 1", "show-all-if-ambiguous", 1},
	{"set bell-style none", "bell-style", "none"}, {"set isearch-terminators abca", "isearch-terminators", "abca"}, {"set comment-begin \"# \"", "comment-begin", "\"# \""},
	{"SET", "", nil},
}
var c13kms = []string{"emacs", "vi-insert", "vi-command", "emacs-ctlx", "vi", "emacs-meta", "emacs-standard", "vi-move"}
var c13tests = []struct {
	text string
	eval func(mode, term, app string) bool
}{
	{"mode=emacs", func(m, t, a string) bool { return m == "emacs" }}, {"mode=vi", func(m, t, a string) bool { return m == "vi" }},
	{"term=xterm", func(m, t, a string) bool { return t == "xterm" }}, {"term=rxvt", func(m, t, a string) bool { return t == "rxvt" }},
	// the names of terminals and modes are compared as written (a terminfo name can have capitals: Eterm)
	{"term=Eterm", func(m, t, a string) bool { return t == "Eterm" }}, {"term=eterm", func(m, t, a string) bool { return t == "eterm" }},
	{"term=XTERM", func(m, t, a string) bool { return t == "XTERM" }}, {"mode=Vi", func(m, t, a string) bool { return m == "Vi" }},
	{"Bash", func(m, t, a string) bool { return a == "bash" }}, {"other", func(m, t, a string) bool { return a == "other" }},
}

// noInc is set while an included file is being generated: no nested includes
var noIncFlag bool
var noInc = &noIncFlag

// c13genInc generates the content of an included file: blocks and variable assignments
func c13genInc(r *rand.Rand, depth int, st *[2]int, _ *bool) *c13node {
	*noInc = true
	defer func() { *noInc = false }()
	for {
		n := c13gen(r, depth, st)
		if okInc(n) {
			return n
		}
	}
}

func okInc(n *c13node) bool {
	if n.kind == "set" {
		return true
	}
	if n.kind != "" {
		return false
	}
	for _, c := range append(append([]*c13node{}, n.thn...), n.els...) {
		if !okInc(c) {
			return false
		}
	}
	return true
}

func c13gen(r *rand.Rand, depth int, st *[2]int) *c13node {
	if depth < 5 && r.Intn(3) == 0 {
		n := &c13node{test: c13tests[r.Intn(len(c13tests))].text, hasElse: r.Intn(2) == 0}
		st[0]++
		if depth+1 > st[1] {
			st[1] = depth + 1
		}
		for k := r.Intn(3); k > 0; k-- {
			n.thn = append(n.thn, c13gen(r, depth+1, st))
		}
		if n.hasElse {
			for k := r.Intn(3); k > 0; k-- {
				n.els = append(n.els, c13gen(r, depth+1, st))
			}
		}
		return n
	}
	if depth < 4 && !*noInc && r.Intn(9) == 0 {
		// an included file with blocks of its own (ending active or inactive); what follows the $include
		// in the including file must be governed by the including file's blocks alone
		// (st[0] grows with every block and include of the program: no two includes share a file name)
		n := &c13node{kind: "include", file: fmt.Sprintf("inc%d-%d", st[0], r.Intn(1000))}
		st[0]++
		ni := true
		for k := 1 + r.Intn(3); k > 0; k-- {
			n.sub = append(n.sub, c13genInc(r, depth+1, st, &ni))
		}
		return n
	}
	switch r.Intn(6) {
	case 0:
		v := c13vars[r.Intn(len(c13vars)-1)]
		return &c13node{text: v.text, kind: "set", name: v.name, val: v.val}
	case 1:
		km := c13kms[r.Intn(len(c13kms))]
		return &c13node{text: "set keymap " + km, kind: "keymap", km: km}
	case 2:
		k, m := c13keys[r.Intn(len(c13keys))], c13macros[r.Intn(len(c13macros))]
		return &c13node{text: k.text + ": " + m.text, kind: "bind", seq: k.seq, bind: inputrc.Bind{Action: m.val, Macro: true}}
	default:
		k, a := c13keys[r.Intn(len(c13keys))], c13acts[r.Intn(len(c13acts))]
		sep := []string{": ", ":", ":\t", " : "}[r.Intn(3)]
		// one bind in eight rebinds its key at once with the other kind of binding and the same text (the function
		// kill-line, then the macro "kill-line", or the reverse): the function-versus-macro distinction is the last one written
		if r.Intn(8) == 0 {
			fn, mac := k.text+sep+a, k.text+": \""+a+"\""
			if r.Intn(2) == 0 {
				return &c13node{text: fn + "\n" + mac, kind: "bind", seq: k.seq, bind: inputrc.Bind{Action: a, Macro: true}}
			}
			return &c13node{text: mac + "\n" + fn, kind: "bind", seq: k.seq, bind: inputrc.Bind{Action: a}}
		}
		return &c13node{text: k.text + sep + a, kind: "bind", seq: k.seq, bind: inputrc.Bind{Action: a}}
	}
}

var c13files = map[string]string{}

func c13render(ns []*c13node, out *[]string, indent string) {
	for _, n := range ns {
		if n.kind == "include" {
			*out = append(*out, indent+"$include "+n.file)
			var sub []string
			c13render(n.sub, &sub, "")
			c13files[n.file] = strings.Join(sub, "\n") + "\n"
			continue
		}
		if n.kind != "" {
			*out = append(*out, indent+n.text)
			continue
		}
		*out = append(*out, indent+"$if "+n.test)
		c13render(n.thn, out, indent+"  ")
		if n.hasElse {
			*out = append(*out, indent+"$else")
			c13render(n.els, out, indent+"  ")
		}
		*out = append(*out, indent+"$endif")
	}
}

type c13cfg struct {
	km    string
	binds map[string]map[string]inputrc.Bind
	vars  map[string]interface{}
}

// c13spec applies the directives whose enclosing conditions all hold. nestedInInactive reports
// whether some block sits inside an inactive block (outside it the pinned parser is known to leak).
func c13spec(ns []*c13node, on bool, mode, term, app string, c *c13cfg, nestedInInactive *bool) {
	for _, n := range ns {
		switch n.kind {
		case "bind":
			if on {
				if c.binds[c.km] == nil {
					c.binds[c.km] = map[string]inputrc.Bind{}
				}
				c.binds[c.km][n.seq] = n.bind
			}
		case "set":
			if on {
				c.vars[n.name] = n.val
			}
		case "keymap":
			if on {
				c.km = n.km
			}
		case "include":
			// the included file is read iff the $include is active; its own blocks are evaluated from scratch
			if on {
				c13spec(n.sub, true, mode, term, app, c, nestedInInactive)
			}
		default:
			if !on {
				*nestedInInactive = true
			}
			var e bool
			for _, t := range c13tests {
				if t.text == n.test {
					e = t.eval(mode, term, app)
				}
			}
			c13spec(n.thn, on && e, mode, term, app, c, nestedInInactive)
			c13spec(n.els, on && !e, mode, term, app, c, nestedInInactive)
		}
	}
}

func c13(r *rand.Rand, n int) {
	modes, terms, apps := []string{"emacs", "vi"}, []string{"xterm", "rxvt", "Eterm"}, []string{"bash", "other"}
	for i := 0; i < n; i++ {
		var prog []*c13node
		var st [2]int
		for k := 1 + r.Intn(5); k > 0; k-- {
			prog = append(prog, c13gen(r, 0, &st))
		}
		var lines []string
		c13files = map[string]string{}
		c13render(prog, &lines, "")
		if r.Intn(4) == 0 { // comments and blank lines between directives
			var l2 []string
			for _, l := range lines {
				l2 = append(l2, l)
				if r.Intn(3) == 0 {
					l2 = append(l2, []string{"# comment", "", "   ", "#$if mode=vi"}[r.Intn(4)])
				}
			}
			lines = l2
		}
		text := strings.Join(lines, "\n") + "\n"
		mode, term, app := modes[r.Intn(2)], terms[r.Intn(3)], apps[r.Intn(2)]
		want := &c13cfg{km: "emacs", binds: map[string]map[string]inputrc.Bind{}, vars: map[string]interface{}{}}
		nested := false
		c13spec(prog, true, mode, term, app, want, &nested)
		rep.Cases++
		class := fmt.Sprintf("depth=%d", st[1])
		if nested {
			class += "/block-in-inactive-block"
		}
		show := text
		got := inputrc.NewConfig()
		files := c13files
		got.ReadFileFunc = func(name string) ([]byte, error) {
			if s, ok := files[name]; ok {
				return []byte(s), nil
			}
			return nil, os.ErrNotExist
		}
		if len(files) > 0 {
			class += "/include"
			show += "\n--- included files ---\n"
			for n, t := range files {
				show += "[" + n + "]\n" + t
			}
		}
		rep.Classes[class]++
		var perr error
		func() {
			defer func() {
				if x := recover(); x != nil {
					perr = fmt.Errorf("panic: %v", x)
				}
			}()
			perr = inputrc.ParseBytes([]byte(text), got, inputrc.WithMode(mode), inputrc.WithTerm(term), inputrc.WithApp(app))
		}()
		where := "flat"
		if nested {
			where = "block-in-inactive-block"
		}
		if perr != nil {
			add("parse-error/"+where, perr.Error(), show)
			continue
		}
		// drop keymaps the parser created empty
		for km, t := range got.Binds {
			if len(t) == 0 {
				delete(got.Binds, km)
			}
		}
		if !reflect.DeepEqual(got.Binds, want.binds) || !reflect.DeepEqual(got.Vars, want.vars) {
			detail := c13diff(got, want) + fmt.Sprintf("   [mode=%s term=%s app=%s]", mode, term, app)
			kind := c13kind(got, want)
			add(kind+"/"+where, detail, show)
		} else {
			rep.Decided["agrees/"+where]++
		}
	}
}

func c13kind(got *inputrc.Config, want *c13cfg) string {
	extra, missing, changed := false, false, false
	for km, t := range got.Binds {
		for s, b := range t {
			if w, ok := want.binds[km][s]; !ok {
				extra = true
			} else if w != b {
				changed = true
			}
		}
	}
	for km, t := range want.binds {
		for s := range t {
			if _, ok := got.Binds[km][s]; !ok {
				missing = true
			}
		}
	}
	for n, v := range got.Vars {
		if w, ok := want.vars[n]; !ok {
			extra = true
		} else if !reflect.DeepEqual(w, v) {
			changed = true
		}
	}
	for n := range want.vars {
		if _, ok := got.Vars[n]; !ok {
			missing = true
		}
	}
	switch {
	case extra && !missing && !changed:
		return "directive-fires-in-inactive-block"
	case missing && !extra && !changed:
		return "active-directive-has-no-effect"
	}
	return "configuration-differs"
}

func c13diff(got *inputrc.Config, want *c13cfg) string {
	var out []string
	for km, t := range got.Binds {
		for s, b := range t {
			if w, ok := want.binds[km][s]; !ok {
				out = append(out, fmt.Sprintf("unexpected bind %s %q -> %+v", km, s, b))
			} else if w != b {
				out = append(out, fmt.Sprintf("bind %s %q is %+v, want %+v", km, s, b, w))
			}
		}
	}
	for km, t := range want.binds {
		for s, w := range t {
			if _, ok := got.Binds[km][s]; !ok {
				out = append(out, fmt.Sprintf("missing bind %s %q -> %+v", km, s, w))
			}
		}
	}
	for n, v := range got.Vars {
		if w, ok := want.vars[n]; !ok {
			out = append(out, fmt.Sprintf("unexpected variable %s=%#v", n, v))
		} else if !reflect.DeepEqual(w, v) {
			out = append(out, fmt.Sprintf("variable %s=%#v, want %#v", n, v, w))
		}
	}
	for n, w := range want.vars {
		if _, ok := got.Vars[n]; !ok {
			out = append(out, fmt.Sprintf("missing variable %s=%#v", n, w))
		}
	}
	sort.Strings(out)
	if len(out) > 4 {
		out = out[:4]
	}
	return strings.Join(out, "; ")
}
