// rlv-direct holds the search oracles that need no terminal: C12 (parsing any
// text terminates without crashing) and C19 (escape/unescape round trip) on the
// real inputrc package.
//
//	rlv-direct -prop C19 -n 20000 -seed 7 -out report.json
package main

import (
	"encoding/json"
	"errors"
	"flag"
	"fmt"
	"math/rand"
	"os"
	"runtime"
	"strings"
	"time"

	"github.com/reeflective/readline/inputrc"
)

type finding struct {
	Sig    string `json:"signature"`
	Detail string `json:"detail"`
	Input  string `json:"input"`
}

type report struct {
	Prop     string         `json:"property"`
	Seed     int64          `json:"seed"`
	Cases    int            `json:"cases"`
	Classes  map[string]int `json:"classes"`
	Decided  map[string]int `json:"oracle_outcomes"`
	BySig    map[string]int `json:"findings_by_signature"`
	Findings []finding      `json:"findings"`
	WallS    float64        `json:"wall_s"`
}

var rep report

func add(sig, detail, input string) {
	rep.BySig[sig]++
	for _, g := range rep.Findings {
		if g.Sig == sig {
			return
		}
	}
	rep.Findings = append(rep.Findings, finding{sig, detail, input})
}

// ---- C19 -----------------------------------------------------------------

func c19(r *rand.Rand, n int) {
	check := func(class, s string) {
		if !inDomain(s) {
			return // the property quantifies over runes 0x00-0xFF plus printable Unicode
		}
		rep.Cases++
		rep.Classes[class]++
		esc := inputrc.Escape(s)
		back := inputrc.Unescape(esc)
		if back != s {
			kind := "single-rune"
			if len([]rune(s)) > 1 {
				kind = "sequence"
			}
			add("escape-roundtrip/"+kind, fmt.Sprintf("%q -> %q -> %q", s, esc, back), s)
		}
		m := inputrc.EscapeMacro(s)
		if back := inputrc.Unescape(m); back != s {
			add("escape-macro-roundtrip", fmt.Sprintf("%q -> %q -> %q", s, m, back), s)
		}
	}
	// exhaustive for length 1 over 0x00-0xFF
	for c := rune(0); c <= 0xff; c++ {
		check("len1-exhaustive", string(c))
	}
	// all default bindings of all keymaps
	cfg := inputrc.NewDefaultConfig()
	for _, tbl := range cfg.Binds {
		for seq := range tbl {
			check("default-binds", seq)
		}
	}
	alpha := []rune{'a', 'x', 'M', 'C', '-', '\\', '"', '\'', 0x1b, 0x01, 0x1c, 0x7f, 0x80, 0x9b, 0xe9, 0xff, ' ', '0', '1', 0x4e2d, 0x200b, 0x1f600}
	for i := 0; i < n; i++ {
		l := 2 + r.Intn(5)
		rs := make([]rune, l)
		for k := range rs {
			if r.Intn(3) == 0 {
				rs[k] = rune(r.Intn(256))
			} else {
				rs[k] = alpha[r.Intn(len(alpha))]
			}
		}
		check("random", string(rs))
	}
}

// ---- C12 -----------------------------------------------------------------

type includeH struct {
	files    map[string]string
	reads    int
	maxDepth int
}

// ReadFile serves the include graph. A Go stack overflow is fatal (it cannot be recovered), so the
// handler measures the nesting depth of the parser on its own call stack and stops serving when it
// passes 60 levels: the oracle then reports the unbounded recursion instead of dying with it. It also
// stops serving after 3000 reads: a bounded-depth include tree is finite but grows as k^depth.
func (h *includeH) ReadFile(name string) ([]byte, error) {
	h.reads++
	pcs := make([]uintptr, 4096)
	fr := runtime.CallersFrames(pcs[:runtime.Callers(1, pcs)])
	depth := 0
	for {
		f, more := fr.Next()
		if strings.HasSuffix(f.Function, "inputrc.(*Parser).Parse") {
			depth++
		}
		if !more {
			break
		}
	}
	if depth > h.maxDepth {
		h.maxDepth = depth
	}
	if depth > 60 || h.reads > 3000 {
		return nil, os.ErrNotExist
	}
	if s, ok := h.files[name]; ok {
		return []byte(s), nil
	}
	return nil, os.ErrNotExist
}
func (h *includeH) Do(string, string) error                 { return nil }
func (h *includeH) Set(string, interface{}) error           { return nil }
func (h *includeH) Get(string) interface{}                  { return "" }
func (h *includeH) Bind(string, string, string, bool) error { return nil }

var frags = []string{"set ", "set", "set editing-mode vi", "set keymap emacs-ctlx", "set bell-style", " ", "\t", "\"", "'", "\\", "\\C-", "\\M-", "\\e", "\\x", "\\x4", "1b", ":", ": ", "#", "a", "foo", "bar-baz",
	"C-", "M-", "Control-", "Meta-", "ESC", "Rubout", "$if mode=emacs", "$if term=", "$if", "$else", "$endif", "$include self", "$include other", "$include", "$bogus x", "\n", "\r\n", "\x00", "é", "\xff", "on", "off", "5", "name", "\\\"", "\\\\"}

func c12(r *rand.Rand, n int) {
	for i := 0; i < n; i++ {
		var sb strings.Builder
		class := "glued"
		switch r.Intn(8) {
		case 0:
			class = "huge-line"
			sb.WriteString(strings.Repeat(frags[r.Intn(len(frags))], 20000))
		case 1:
			class = "deep-if"
			for k := 0; k < 3000; k++ {
				sb.WriteString("$if mode=emacs\n")
			}
		case 2:
			// a line of every length that ends inside a quoted string or an escape: an index one past the end
			// of the line only panics when the line fills its buffer (the rune buffer is rounded up to a size class)
			class = "cut-line-lengths"
			tmpl := []string{"set v \"%s\\", "set v '%s\\", "set v \"%s", "\"%s\\", "\"a\": \"%s\\", "Control-a: \"%s\\", "\"%s\\C-", "\"%s\\M-\\", "\"%s\\x", "$if \"%s\\", "set keymap \"%s\\", "\"%s\": '\\"}[r.Intn(12)]
			fill := strings.Repeat([]string{"a", "é", "a b", "\\\\"}[r.Intn(4)], r.Intn(70))
			sb.WriteString(fmt.Sprintf(tmpl, fill))
			if r.Intn(2) == 0 {
				sb.WriteString("\n")
			}
		default:
			for k := 1 + r.Intn(30); k > 0; k-- {
				sb.WriteString(frags[r.Intn(len(frags))])
				if r.Intn(3) == 0 {
					sb.WriteString("\n")
				}
			}
		}
		text := sb.String()
		h := &includeH{files: map[string]string{"self": text, "other": "$include self\n" + text}}
		if strings.Contains(text, "$include self") || strings.Contains(text, "$include other") {
			class += "+include-cycle"
		}
		rep.Cases++
		rep.Classes[class]++
		done := make(chan string, 1)
		go func() {
			defer func() {
				if x := recover(); x != nil {
					site := "?"
					pcs := make([]uintptr, 40)
					fr := runtime.CallersFrames(pcs[:runtime.Callers(3, pcs)])
					for {
						f, more := fr.Next()
						if strings.Contains(f.Function, "readline/inputrc") {
							site = fmt.Sprintf("%s:%d", f.Function[strings.LastIndex(f.Function, "/")+1:], f.Line)
							break
						}
						if !more {
							break
						}
					}
					done <- fmt.Sprintf("panic@%s|%v", site, x)
				}
			}()
			opts := []inputrc.Option{inputrc.WithMode([]string{"emacs", "vi", ""}[r.Intn(3)])}
			if r.Intn(2) == 0 {
				opts = append(opts, inputrc.WithHaltOnErr(true))
			}
			if r.Intn(2) == 0 {
				opts = append(opts, inputrc.WithStrict(true))
			}
			err := inputrc.Parse(strings.NewReader(text), h, opts...)
			_ = errors.Unwrap(err)
			done <- ""
		}()
		show := text
		if len(show) > 200 {
			show = show[:200] + "…"
		}
		select {
		case res := <-done:
			if res != "" {
				parts := strings.SplitN(res, "|", 2)
				add(parts[0], parts[1], show)
			} else if h.maxDepth > 60 {
				add("include-recursion-unbounded", fmt.Sprintf("a file that includes itself is parsed %d levels deep, stopped only by the handler", h.maxDepth), show)
			}
		case <-time.After(5 * time.Second):
			add("no-termination/"+class, fmt.Sprintf("still running after 5 s (%d include reads)", h.reads), show)
		}
	}
}

func main() {
	prop := flag.String("prop", "", "C12 | C19")
	n := flag.Int("n", 10000, "random cases")
	seed := flag.Int64("seed", 1, "PRNG seed")
	out := flag.String("out", "", "report path")
	dir := flag.String("dir", os.Getenv("RLV_SCRATCH"), "scratch directory")
	replay := flag.String("replay", "", "replay file of a finding: the cases are regenerated from its seed and budget, exit 1 if its signature comes up again")
	flag.Parse()
	replaySig := ""
	if *replay != "" {
		var f struct {
			Sig    string `json:"signature"`
			Oracle string `json:"oracle"`
			Seed   int64  `json:"seed"`
			N      int    `json:"n"`
		}
		b, err := os.ReadFile(*replay)
		if err != nil || json.Unmarshal(b, &f) != nil || f.N == 0 {
			fmt.Fprintln(os.Stderr, "replay file without seed and budget")
			os.Exit(2)
		}
		if *prop == "" {
			*prop = f.Oracle
		}
		*seed, *n, replaySig = f.Seed, f.N, f.Sig
	}
	t0 := time.Now()
	rep = report{Prop: *prop, Seed: *seed, Classes: map[string]int{}, BySig: map[string]int{}, Decided: map[string]int{}}
	r := rand.New(rand.NewSource(*seed))
	switch *prop {
	case "C19":
		c19(r, *n)
		c19dumps(r, *n/50+20, *dir)
	case "C12":
		c12(r, *n)
	case "C13":
		c13(r, *n)
	default:
		fmt.Fprintln(os.Stderr, "have: C12 C19")
		os.Exit(2)
	}
	rep.WallS = time.Since(t0).Seconds()
	b, _ := json.MarshalIndent(rep, "", " ")
	if *out != "" {
		os.WriteFile(*out, b, 0o644)
	} else {
		fmt.Println(string(b))
	}
	if replaySig != "" {
		if rep.BySig[replaySig] > 0 {
			os.Exit(1)
		}
		return
	}
	if len(rep.Findings) > 0 {
		os.Exit(1)
	}
}
