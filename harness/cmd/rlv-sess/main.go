// rlv-sess runs real Shell.Readline() sessions on a pty, one JSON session spec
// per input line, and writes one JSON trace per session.
//
// Layout of file descriptors: the pty slave is dup2'd onto 0, 1 and 2 (the
// library MakeRaw's and queries the cursor on 0, prints on 1, reads the window
// size from 2); specs are read from a dup of the original stdin and traces are
// written to a dup of the original stdout.
package main

import (
	"bufio"
	"encoding/hex"
	"encoding/json"
	"errors"
	"fmt"
	"io"
	"os"
	"runtime"
	"strconv"
	"strings"
	"sync"
	"sync/atomic"
	"syscall"
	"time"
	"unsafe"

	"github.com/reeflective/readline"
	"github.com/reeflective/readline/inputrc"
	"github.com/reeflective/readline/internal/core"
	. "github.com/reeflective/readline/verifx/internal/sess"
	"github.com/reeflective/readline/verifx/internal/vt"
	"golang.org/x/sys/unix"
)

type endOfScript struct{}

func openPty() (*os.File, *os.File) {
	m, err := os.OpenFile("/dev/ptmx", os.O_RDWR|syscall.O_NOCTTY, 0)
	if err != nil {
		panic(err)
	}
	var n uint32
	syscall.Syscall(syscall.SYS_IOCTL, m.Fd(), syscall.TIOCGPTN, uintptr(unsafe.Pointer(&n)))
	var u int32
	syscall.Syscall(syscall.SYS_IOCTL, m.Fd(), syscall.TIOCSPTLCK, uintptr(unsafe.Pointer(&u)))
	s, err := os.OpenFile("/dev/pts/"+strconv.Itoa(int(n)), os.O_RDWR|syscall.O_NOCTTY, 0)
	if err != nil {
		panic(err)
	}
	return m, s
}

// world is the terminal side: two emulators (both erase semantics) fed by the master.
type world struct {
	mu      sync.Mutex
	vte, xt *vt.Term
	out     []byte
	master  *os.File
	slave   *os.File
	barrier chan int
	seq     int

	gateReading atomic.Bool
	toGate      chan []byte

	shows   int       // cursor-show sequences seen (the end of a redisplay)
	reports int       // cursor position reports sent so far
	mix     func(n int, report []byte) []byte // joins the n-th report with keys of the script (nil: alone)
	mixGate func(report []byte) []byte        // the same for a report that goes through the gated read
	atShow  bool      // the output so far ends with one: no redisplay is in progress
	lastOut time.Time // last output of the library
	height  int
}

// resize changes the width of the terminal: the pty, both emulators.
func (w *world) resize(width int) {
	w.mu.Lock()
	defer w.mu.Unlock()
	w.vte.Resize(width)
	w.xt.Resize(width)
	unix.IoctlSetWinsize(int(w.slave.Fd()), unix.TIOCSWINSZ, &unix.Winsize{Row: uint16(w.height), Col: uint16(width)})
}

func (w *world) showsAndQuiet() (int, bool, time.Duration) {
	w.mu.Lock()
	defer w.mu.Unlock()
	return w.shows, w.atShow, time.Since(w.lastOut)
}

func (w *world) reset(width, height int) {
	w.mu.Lock()
	defer w.mu.Unlock()
	w.vte = vt.New(width, height, false)
	w.xt = vt.New(width, height, true)
	// only one emulator answers. While the main loop is parked in the gated read and an application
	// goroutine queries the cursor, the report has to reach the main loop through that read, as it
	// would on a real terminal (the library hands it over to the waiting query).
	w.reports = 0
	w.vte.Reply = func(b []byte) {
		w.reports++
		if w.mix != nil {
			b = w.mix(w.reports, b)
		}
		if w.gateReading.Load() {
			if w.mixGate != nil {
				b = w.mixGate(b)
			}
			w.toGate <- append([]byte{}, b...)
			return
		}
		w.master.Write(b)
	}
	w.vte.Barrier = func(n int) { w.barrier <- n }
	w.out = nil
	w.height = height
	unix.IoctlSetWinsize(int(w.slave.Fd()), unix.TIOCSWINSZ, &unix.Winsize{Row: uint16(height), Col: uint16(width)})
}

func (w *world) pump() {
	buf := make([]byte, 1<<16)
	for {
		n, err := w.master.Read(buf)
		if err != nil {
			return
		}
		w.mu.Lock()
		// the pty's ONLCR doubles the CR: fold it back
		data := []byte(strings.ReplaceAll(string(buf[:n]), "\r\r\n", "\r\n"))
		w.out = append(w.out, data...)
		w.shows += strings.Count(string(data), "\x1b[?25h")
		w.atShow = strings.HasSuffix(string(data), "\x1b[?25h")
		w.lastOut = time.Now()
		w.vte.Write(data)
		w.xt.Write(data)
		w.mu.Unlock()
	}
}

// sync blocks until the emulators have consumed everything written so far.
func (w *world) sync() {
	w.seq++
	fmt.Fprintf(os.Stdout, "\x1b]777;%d\x07", w.seq)
	for n := range w.barrier {
		if n == w.seq {
			return
		}
	}
}

type gate struct {
	async   []Async
	nwait   int
	started map[int]bool
	pending chan struct{}
	w       *world
	rl      *readline.Shell
	chunks  [][]byte
	fault   string
	tr      *Trace
	faults  int
}

func (g *gate) snapshot(kind string) Wait {
	g.w.sync()
	g.w.mu.Lock()
	defer g.w.mu.Unlock()
	b, e := g.rl.Selection().Pos()
	wt := Wait{
		Kind: kind, Line: string(*g.rl.Line()), Pos: g.rl.Cursor().Pos(), Sel: [2]int{b, e},
		Main: string(g.rl.Keymap.Main()), Local: string(g.rl.Keymap.Local()), Kill: string(g.rl.Buffers.GetKill()),
		Out: hex.EncodeToString(g.w.out), VTE: g.w.vte.Screen(), Xterm: g.w.xt.Screen(),
		CurVTE: [2]int{g.w.vte.Y, g.w.vte.X}, CurXT: [2]int{g.w.xt.Y, g.w.xt.X}, Style: g.w.vte.Style,
		Unknown: g.w.vte.Unknown,
	}
	g.w.out = nil
	return wt
}

// panicSite names the innermost frame of the library on the panicking stack
// (function:line), the identity under which a crash is triaged.
func panicSite() string {
	pcs := make([]uintptr, 60)
	n := runtime.Callers(3, pcs)
	fr := runtime.CallersFrames(pcs[:n])
	for {
		f, more := fr.Next()
		// (Readline's own deferred handler re-panics after moving the cursor below the input: the frame
		// that panicked first is further down the same stack)
		if strings.Contains(f.Function, "reeflective/readline") && !strings.Contains(f.Function, "/verifx") &&
			!strings.Contains(f.Function, ".Readline.func") {
			fn := f.Function[strings.LastIndex(f.Function, "/")+1:]
			return fmt.Sprintf("%s:%d", fn, f.Line)
		}
		if !more {
			return "?"
		}
	}
}

// callers names the readline functions on the stack, innermost first.
func callers() string {
	pcs := make([]uintptr, 40)
	n := runtime.Callers(2, pcs)
	fr := runtime.CallersFrames(pcs[:n])
	var out []string
	for {
		f, more := fr.Next()
		if strings.Contains(f.Function, "reeflective/readline") && !strings.Contains(f.Function, "verifx") {
			out = append(out, fmt.Sprintf("%s:%d", f.Function[strings.LastIndex(f.Function, "/")+1:], f.Line))
		}
		if !more {
			return strings.Join(out, " < ")
		}
	}
}

func waitKind() string {
	pcs := make([]uintptr, 40)
	n := runtime.Callers(2, pcs)
	fr := runtime.CallersFrames(pcs[:n])
	for {
		f, more := fr.Next()
		if strings.HasSuffix(f.Function, ".ReadKey") {
			return "readkey"
		}
		if !more {
			return "main"
		}
	}
}

func (g *gate) Read(p []byte) (int, error) {
	if len(g.chunks) == 0 {
		switch g.fault {
		case "eof", "eio":
			g.faults++
			g.tr.Spins = g.faults
			if g.faults > 64 {
				g.tr.SpinAt = callers()
				panic(endOfScript{}) // read-spin: classified by the parent from fault_reads
			}
			if g.fault == "eof" {
				return 0, io.EOF
			}
			return 0, syscall.EIO
		}
		g.tr.Waits = append(g.tr.Waits, g.snapshot(waitKind()))
		g.tr.Blocked = true
		panic(endOfScript{})
	}
	for i, a := range g.async {
		if a.At == g.nwait && !g.started[i] && g.pending == nil {
			a := a
			if g.started == nil {
				g.started = map[int]bool{}
			}
			g.started[i] = true
			done := make(chan struct{})
			g.pending = done
			// the main goroutine is in its read from here on: the cursor report the application goroutine
			// asks for must come through this read (set before the goroutine can emit its query)
			g.w.mixGate = nil
			if a.With != "" && len(g.chunks) > 1 {
				// (the main goroutine is parked in this read while the report is produced)
				with, once := a.With, false
				g.w.mixGate = func(report []byte) []byte {
					if once || len(g.chunks) < 2 {
						return report
					}
					once = true
					keys := g.chunks[0]
					g.chunks = g.chunks[1:]
					if with == "before" {
						return append(append([]byte{}, keys...), report...)
					}
					return append(append([]byte{}, report...), keys...)
				}
			}
			g.w.gateReading.Store(true)
			if a.Kind == "resize" {
				// the terminal is resized (Text: the new width, "burst:" for three signals in a row) while the main
				// loop waits for input: SIGWINCH, and the redisplay of the library's resize goroutine is awaited
				// (its end: the cursor shown again, then no output for a while)
				width, _ := strconv.Atoi(strings.TrimPrefix(a.Text, "burst:"))
				n := 1
				if strings.HasPrefix(a.Text, "burst:") {
					n = 3
				}
				g.w.resize(width)
				mark, _, _ := g.w.showsAndQuiet()
				for k := 0; k < n; k++ {
					syscall.Kill(os.Getpid(), syscall.SIGWINCH)
				}
				go func() {
					defer close(done)
					deadline := time.Now().Add(10 * time.Second)
					for time.Now().Before(deadline) {
						time.Sleep(10 * time.Millisecond)
						// (a burst is coalesced into one to three redisplays: wait until none is in progress; on a loaded
						// machine a redisplay can pause for a while between two writes)
						if sh, atShow, quiet := g.w.showsAndQuiet(); sh > mark && atShow && quiet > 400*time.Millisecond {
							return
						}
					}
				}()
				continue
			}
			go func() {
				defer close(done)
				defer func() { recover() }()
				if a.Kind == "transient" {
					g.rl.PrintTransientf("%s", a.Text)
				} else {
					g.rl.Printf("%s", a.Text)
				}
			}()
		}
	}
	if g.pending != nil {
		g.w.gateReading.Store(true)
		select {
		case <-g.pending:
			g.pending = nil
			g.w.gateReading.Store(false)
		case b := <-g.w.toGate:
			// a cursor report for the application goroutine's query. The flag stays up until the event is over:
			// the library reads again at once, and a second query of the same redisplay made in between must
			// also be answered through this reader (under load the gap was long enough for the emulator to
			// answer on the pty, where nobody reads: a hang that was the harness's)
			return copy(p, b), nil
		}
	}
	g.nwait++
	g.tr.Waits = append(g.tr.Waits, g.snapshot(waitKind()))
	c := g.chunks[0]
	g.chunks = g.chunks[1:]
	return copy(p, c), nil
}
func (g *gate) Close() error { return nil }

func runSession(w *world, sp Spec, dir string) (tr Trace) {
	tr.ID = sp.ID
	if hd := os.Getenv("RLV_HANGDIR"); hd != "" {
		// debugging aid: a session still running after 6 seconds leaves the stacks of its goroutines behind
		finished := make(chan struct{})
		defer close(finished)
		go func() {
			select {
			case <-finished:
			case <-time.After(6 * time.Second):
				buf := make([]byte, 1<<20)
				os.WriteFile(hd+"/"+strings.ReplaceAll(sp.ID, "/", "_")+".txt", buf[:runtime.Stack(buf, true)], 0o644)
			}
		}()
	}
	if sp.Width == 0 {
		sp.Width = 80
	}
	if sp.Height == 0 {
		sp.Height = 24
	}
	if sp.Runs == 0 {
		sp.Runs = 1
	}
	w.reset(sp.Width, sp.Height)
	rc := dir + "/inputrc"
	os.WriteFile(rc, []byte(sp.Inputrc), 0o644)
	os.Setenv("INPUTRC", rc)
	os.Setenv("HOME", dir)
	os.Setenv("TMPDIR", dir) // the library writes the buffer it hands to $EDITOR to a temporary file and leaves it there

	var rl *readline.Shell
	func() {
		defer func() {
			if r := recover(); r != nil {
				tr.Results = append(tr.Results, Result{Panic: fmt.Sprint("NewShell: ", r)})
			}
		}()
		rl = readline.NewShell()
	}()
	if rl == nil {
		return tr
	}
	prompt := sp.Prompt
	rl.Prompt.Primary(func() string { return prompt })
	if sp.Editor != "" {
		// the library runs "emacs" or "vi" from PATH once VISUAL and EDITOR are both set (getSystemEditor): both names
		// are this executable in a directory put first in PATH
		if exe, err := os.Executable(); err == nil {
			bin := dir + "/editor-bin"
			os.MkdirAll(bin, 0o755)
			os.Symlink(exe, bin+"/vi")
			os.Symlink(exe, bin+"/emacs")
			if origPath == "" {
				origPath = os.Getenv("PATH")
			}
			os.Setenv("PATH", bin+":"+origPath)
			os.Setenv("EDITOR", "vi")
			os.Setenv("VISUAL", "vi")
			os.Setenv("RLV_AS_EDITOR", sp.Editor)
		}
	} else {
		// no editor can be started: the commands that need one fail at once
		os.Unsetenv("RLV_AS_EDITOR")
		os.Unsetenv("EDITOR")
		os.Unsetenv("VISUAL")
	}
	if sp.Persist != "" {
		rl.Hint.Persist(sp.Persist)
	}
	if sp.Mode == "vi" {
		rl.Keymap.SetMain("vi-insert")
	}
	var bound []readline.History
	for _, src := range sp.Sources {
		h := readline.NewInMemoryHistory()
		for _, l := range src.Lines {
			h.Write(l)
		}
		rl.History.Add(src.Name, h)
		bound = append(bound, h)
	}
	for _, h := range sp.History {
		rl.History.Current().Write(h)
	}
	if len(sp.Completer) > 0 {
		cands := sp.Completer
		rl.Completer = func([]rune, int) readline.Completions {
			var vals []readline.Completion
			for _, c := range cands {
				vals = append(vals, readline.Completion{Value: c.Value, Display: c.Value, Description: c.Desc, Tag: c.Tag})
			}
			return readline.CompleteRaw(vals)
		}
	}
	if sp.Multi != "" {
		suffix := sp.Multi
		rl.AcceptMultiline = func(l []rune) bool { return strings.HasSuffix(string(l), suffix) }
	}
	keymaps := []string{"emacs", "vi-insert", "vi-command", "vi-move", "vi"}
	bindAll := func(seq, cmd string) {
		for _, km := range keymaps {
			rl.Config.Bind(km, inputrc.Unescape(seq), cmd, false)
		}
	}
	probes := map[string]func(){}
	for i, in := range sp.Inject {
		in := in
		name := fmt.Sprintf("verif-inject-%d", i)
		probes[name] = func() {
			rl.Line().Set([]rune(in.Line)...)
			rl.Cursor().Set(in.Pos)
		}
		defer bindAll(in.Seq, name)
	}
	for i := 0; i < sp.Probes; i++ {
		name := fmt.Sprintf("verif-probe-%d", i)
		probes[name] = func() {
			caller := rl.Keys.Caller()
			tr.Invoked = append(tr.Invoked, name+":"+hex.EncodeToString([]byte(string(caller))))
		}
	}
	if sp.PanicSeq != "" {
		probes["verif-panic"] = func() { panic("verif-panic") }
		defer bindAll(sp.PanicSeq, "verif-panic")
	}
	rl.Keymap.Register(probes)
	for name := range probes {
		_ = name
	}
	for i, in := range sp.Inject {
		bindAll(in.Seq, fmt.Sprintf("verif-inject-%d", i))
	}
	if sp.PanicSeq != "" {
		bindAll(sp.PanicSeq, "verif-panic")
	}
	for _, b := range sp.Binds {
		if b.Macro {
			for _, km := range keymaps {
				rl.Config.Bind(km, inputrc.Unescape(b.Seq), b.Cmd, true)
			}
			continue
		}
		bindAll(b.Seq, b.Cmd)
	}
	if sp.ByName {
		var names []string
		for n := range rl.Keymap.Commands() {
			names = append(names, n)
		}
		// deterministic order
		for i := 0; i < len(names); i++ {
			for j := i + 1; j < len(names); j++ {
				if names[j] < names[i] {
					names[i], names[j] = names[j], names[i]
				}
			}
		}
		for i, n := range names {
			bindAll(fmt.Sprintf(`\C-x\C-z%c%c`, 'a'+i/26, 'a'+i%26), n)
		}
		tr.Names = names
	}

	g := &gate{w: w, rl: rl, fault: sp.Fault, tr: &tr, async: sp.Async}
	for _, c := range sp.Chunks {
		b, _ := hex.DecodeString(c)
		g.chunks = append(g.chunks, b)
	}
	w.mix = nil
	if len(sp.CPRWith) > 0 {
		// (the library is blocked waiting for the report when this runs: the script is not being read)
		w.mix = func(n int, report []byte) []byte {
			how, ok := sp.CPRWith[n]
			if !ok || len(g.chunks) == 0 {
				return report
			}
			keys := g.chunks[0]
			g.chunks = g.chunks[1:]
			if how == "before" {
				return append(append([]byte{}, keys...), report...)
			}
			return append(append([]byte{}, report...), keys...)
		}
	}
	core.Stdin = g

	for run := 0; run < sp.Runs; run++ {
		if sp.Stty && run > 0 {
			// the application changes the terminal modes between two calls (stty): what the next call restores
			// on its way out is what it finds now
			if t, err := unix.IoctlGetTermios(0, unix.TCGETS); err == nil {
				t.Lflag ^= unix.ECHOKE
				t.Cc[unix.VQUIT] ^= 1
				unix.IoctlSetTermios(0, unix.TCSETS, t)
			}
		}
		tio0, _ := unix.IoctlGetTermios(0, unix.TCGETS)
		var res Result
		stop := false
		func() {
			defer func() {
				if r := recover(); r != nil {
					if _, ok := r.(endOfScript); ok {
						stop = true
						res.Err = "end-of-script"
						return
					}
					res.Panic = fmt.Sprint(r)
					res.Site = panicSite()
					buf := make([]byte, 1<<14)
					res.Stack = string(buf[:runtime.Stack(buf, false)])
				}
			}()
			line, err := rl.Readline()
			res.Line = line
			if err != nil {
				res.Err = err.Error()
				if errors.Is(err, io.EOF) {
					res.Err = "EOF"
				} else if errors.Is(err, readline.ErrInterrupt) {
					res.Err = "interrupt"
				}
			}
		}()
		res.NWaits = len(tr.Waits)
		tio1, _ := unix.IoctlGetTermios(0, unix.TCGETS)
		res.Termios = tio0 != nil && tio1 != nil && *tio0 == *tio1
		tail := g.snapshot("returned")
		res.Tail = &tail
		tr.Results = append(tr.Results, res)
		var hs []string
		if h := rl.History.Current(); h != nil {
			for j := 0; j < h.Len(); j++ {
				l, _ := h.GetLine(j)
				hs = append(hs, l)
			}
		}
		tr.History = append(tr.History, hs)
		if len(bound) > 0 {
			var all [][]string
			for _, h := range bound {
				ls := []string{}
				for j := 0; j < h.Len(); j++ {
					l, _ := h.GetLine(j)
					ls = append(ls, l)
				}
				all = append(all, ls)
			}
			tr.Sources = append(tr.Sources, all)
		}
		if stop || res.Panic != "" {
			break
		}
	}
	return tr
}

var origPath string

func main() {
	// the session child is also the editor of edit-and-execute-command / vi-edit-command-line when a spec asks for
	// one (EDITOR points back at this executable): "empty" leaves an empty file (the way to give up in bash),
	// "keep" leaves it as it is, "append" adds text, "fail" exits with an error
	if how := os.Getenv("RLV_AS_EDITOR"); how != "" && len(os.Args) > 1 {
		file := os.Args[len(os.Args)-1]
		switch how {
		case "empty":
			os.Truncate(file, 0)
		case "append":
			if f, err := os.OpenFile(file, os.O_APPEND|os.O_WRONLY, 0o600); err == nil {
				f.WriteString(" edited")
				f.Close()
			}
		case "fail":
			os.Exit(3)
		}
		os.Exit(0)
	}
	inFd, _ := syscall.Dup(0)
	outFd, _ := syscall.Dup(1)
	in := bufio.NewReaderSize(os.NewFile(uintptr(inFd), "specs"), 1<<20)
	out := bufio.NewWriter(os.NewFile(uintptr(outFd), "traces"))
	m, s := openPty()
	syscall.Dup2(int(s.Fd()), 0)
	syscall.Dup2(int(s.Fd()), 1)
	syscall.Dup2(int(s.Fd()), 2)
	dir, _ := os.MkdirTemp(os.Getenv("RLV_SCRATCH"), "rlv-sess-")
	defer os.RemoveAll(dir)
	if f := os.Getenv("RLV_STACKS"); f != "" {
		// debugging aid: after 5 seconds write every goroutine's stack to the file and exit
		go func() {
			time.Sleep(5 * time.Second)
			buf := make([]byte, 1<<20)
			os.WriteFile(f, buf[:runtime.Stack(buf, true)], 0o644)
			os.Exit(3)
		}()
	}
	w := &world{master: m, slave: s, barrier: make(chan int, 16), toGate: make(chan []byte, 16)}
	w.reset(80, 24)
	go w.pump()
	for {
		line, err := in.ReadBytes('\n')
		if len(line) > 1 {
			var sp Spec
			if e := json.Unmarshal(line, &sp); e != nil {
				fmt.Fprintf(out, "{\"id\":\"?\",\"error\":%q}\n", e.Error())
			} else {
				tr := runSession(w, sp, dir)
				b, _ := json.Marshal(tr)
				out.Write(b)
				out.WriteByte('\n')
			}
			out.Flush()
		}
		if err != nil {
			return
		}
	}
}
