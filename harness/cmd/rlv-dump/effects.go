package main

import (
	"fmt"
	"go/ast"
	"go/parser"
	"go/token"
	"os"
	"path/filepath"
	"sort"
	"strconv"
	"strings"
)

// Source facts read off /repo's working tree with go/parser (no evaluation):
//
//   - the command registries (map literals "name": rl.method in the root package) with the comment
//     group each entry stands under ("Moving", "Killing & yanking", ...);
//   - for every registered command, the buffer-writing primitives its method can reach through calls
//     of other *Shell methods — split into those reachable with no `history-autosuggest` guard on the
//     way and those only reachable behind one.
//
// A primitive is a call rl.<field>.<Method>(...) on one of the editor components, or a direct store
// through rl.line. Which primitives write the buffer text is the list `writers` below; everything a
// command reaches is emitted too (Gen.Effects.reached), so that the classification is visible.

const guardVar = "history-autosuggest"

var writers = map[string]bool{
	"line.Insert": true, "line.InsertBetween": true, "line.Cut": true, "line.CutRune": true, "line.Set": true, "line.store": true,
	"cursor.InsertAt": true, "cursor.ReplaceWith": true,
	"selection.Cut": true, "selection.ReplaceWith": true, "selection.InsertAt": true, "selection.Surround": true,
	"History.Walk": true, "History.Fetch": true, "History.InsertMatch": true, "History.InferNext": true, "History.Undo": true,
	"History.Redo": true, "History.Revert": true,
	"Macros.RunLastMacro": true, "Macros.RunMacro": true, "Keys.Feed": true,
}

// completer methods that only read
var completerReaders = map[string]bool{"IsActive": true, "IsInserting": true, "AutoCompleting": true, "NonIncrementallySearching": true, "GetBuffer": true,
	"IsearchRegex": true, "Matches": true, "Coordinates": true,
	// dropping the completion state (menu, virtually inserted candidate) does not write the buffer being edited
	"Reset": true, "ResetForce": true, "ClearMenu": true}

type effSite struct {
	prim    string // primitive ("line.Insert") or callee method ("call:forwardWord")
	guarded bool
}

type srcFacts struct {
	methods  map[string][]effSite      // *Shell method -> what it does
	registry map[string][2]string      // command -> {method or "" for non-Shell targets, group}
	order    []string                  // registered commands, sorted
}

func isGuardCall(e ast.Expr) bool {
	c, ok := e.(*ast.CallExpr)
	if !ok || len(c.Args) != 1 {
		return false
	}
	s, ok := c.Fun.(*ast.SelectorExpr)
	if !ok || s.Sel.Name != "GetBool" {
		return false
	}
	l, ok := c.Args[0].(*ast.BasicLit)
	if !ok {
		return false
	}
	v, _ := strconv.Unquote(l.Value)
	return v == guardVar
}

// positiveGuard: the condition can only hold when the variable is on (a conjunct of it is the test).
func positiveGuard(e ast.Expr) bool {
	switch x := e.(type) {
	case *ast.ParenExpr:
		return positiveGuard(x.X)
	case *ast.BinaryExpr:
		if x.Op == token.LAND {
			return positiveGuard(x.X) || positiveGuard(x.Y)
		}
	}
	return isGuardCall(e)
}

// negativeGuardReturn: `if !GetBool(guard) [|| ...] { ...; return }` — what follows runs only with the variable on.
func negativeGuardReturn(s ast.Stmt) bool {
	i, ok := s.(*ast.IfStmt)
	if !ok || i.Else != nil || len(i.Body.List) == 0 {
		return false
	}
	if _, ok := i.Body.List[len(i.Body.List)-1].(*ast.ReturnStmt); !ok {
		return false
	}
	var neg func(e ast.Expr) bool
	neg = func(e ast.Expr) bool {
		switch x := e.(type) {
		case *ast.ParenExpr:
			return neg(x.X)
		case *ast.UnaryExpr:
			return x.Op == token.NOT && isGuardCall(x.X)
		case *ast.BinaryExpr:
			if x.Op == token.LOR {
				return neg(x.X) || neg(x.Y)
			}
		}
		return false
	}
	return neg(i.Cond)
}

func recvName(fd *ast.FuncDecl) string {
	if fd.Recv == nil || len(fd.Recv.List) != 1 {
		return ""
	}
	st, ok := fd.Recv.List[0].Type.(*ast.StarExpr)
	if !ok {
		return ""
	}
	id, ok := st.X.(*ast.Ident)
	if !ok || id.Name != "Shell" || len(fd.Recv.List[0].Names) != 1 {
		return ""
	}
	return fd.Recv.List[0].Names[0].Name
}

func extractFacts(repo string) (*srcFacts, error) {
	fset := token.NewFileSet()
	files, _ := filepath.Glob(filepath.Join(repo, "*.go"))
	sort.Strings(files)
	f := &srcFacts{methods: map[string][]effSite{}, registry: map[string][2]string{}}
	type regEntry struct {
		name, method string
		pos          token.Pos
		file         *ast.File
		lbrace       token.Pos
	}
	var regs []regEntry
	isMethod := map[string]bool{}
	var parsed []*ast.File
	for _, fn := range files {
		if strings.HasSuffix(fn, "_test.go") {
			continue
		}
		af, err := parser.ParseFile(fset, fn, nil, parser.ParseComments)
		if err != nil {
			return nil, err
		}
		parsed = append(parsed, af)
		for _, d := range af.Decls {
			if fd, ok := d.(*ast.FuncDecl); ok && recvName(fd) != "" {
				isMethod[fd.Name.Name] = true
			}
		}
	}
	for _, af := range parsed {
		for _, d := range af.Decls {
			fd, ok := d.(*ast.FuncDecl)
			if !ok || fd.Body == nil {
				continue
			}
			rv := recvName(fd)
			if rv == "" {
				continue
			}
			var sites []effSite
			// rlField: rl.<field>
			rlField := func(e ast.Expr) (string, bool) {
				s, ok := e.(*ast.SelectorExpr)
				if !ok {
					return "", false
				}
				id, ok := s.X.(*ast.Ident)
				if !ok || id.Name != rv {
					return "", false
				}
				return s.Sel.Name, true
			}
			var walkStmts func(list []ast.Stmt, guarded bool)
			var walk func(n ast.Node, guarded bool)
			walk = func(n ast.Node, guarded bool) {
				if n == nil {
					return
				}
				switch x := n.(type) {
				case *ast.BlockStmt:
					walkStmts(x.List, guarded)
					return
				case *ast.IfStmt:
					walk(x.Init, guarded)
					walk(x.Cond, guarded)
					walk(x.Body, guarded || positiveGuard(x.Cond))
					walk(x.Else, guarded)
					return
				case *ast.CaseClause:
					for _, e := range x.List {
						walk(e, guarded)
					}
					walkStmts(x.Body, guarded)
					return
				case *ast.CommClause:
					walk(x.Comm, guarded)
					walkStmts(x.Body, guarded)
					return
				case *ast.AssignStmt:
					for _, l := range x.Lhs {
						// (*rl.line)[i] = v   |   *rl.line = v
						var target ast.Expr = l
						if ix, ok := target.(*ast.IndexExpr); ok {
							target = ix.X
						}
						if p, ok := target.(*ast.ParenExpr); ok {
							target = p.X
						}
						if st, ok := target.(*ast.StarExpr); ok {
							if fld, ok := rlField(st.X); ok && fld == "line" {
								sites = append(sites, effSite{"line.store", guarded})
							}
						}
					}
				case *ast.CallExpr:
					if s, ok := x.Fun.(*ast.SelectorExpr); ok {
						if fld, ok := rlField(s.X); ok { // rl.<field>.<Method>(...)
							sites = append(sites, effSite{fld + "." + s.Sel.Name, guarded})
						} else if m, ok := rlField(x.Fun); ok && isMethod[m] { // rl.<method>(...)
							sites = append(sites, effSite{"call:" + m, guarded})
						}
					}
					// a *Shell method passed as a value (callbacks, deferred registrations)
					for _, a := range x.Args {
						if m, ok := rlField(a); ok && isMethod[m] {
							sites = append(sites, effSite{"call:" + m, guarded})
						}
					}
				}
				// generic descent
				ast.Inspect(n, func(c ast.Node) bool {
					if c == n || c == nil {
						return true
					}
					walk(c, guarded)
					return false
				})
			}
			walkStmts = func(list []ast.Stmt, guarded bool) {
				for _, s := range list {
					walk(s, guarded)
					if negativeGuardReturn(s) {
						guarded = true
					}
				}
			}
			walk(fd.Body, false)
			f.methods[fd.Name.Name] = sites
			// registries
			ast.Inspect(fd.Body, func(n ast.Node) bool {
				cl, ok := n.(*ast.CompositeLit)
				if !ok {
					return true
				}
				if _, ok := cl.Type.(*ast.MapType); !ok {
					return true
				}
				for _, el := range cl.Elts {
					kv, ok := el.(*ast.KeyValueExpr)
					if !ok {
						continue
					}
					k, ok := kv.Key.(*ast.BasicLit)
					if !ok || k.Kind != token.STRING {
						continue
					}
					name, _ := strconv.Unquote(k.Value)
					method := ""
					if m, ok := rlField(kv.Value); ok && isMethod[m] {
						method = m
					} else if _, ok := kv.Value.(*ast.SelectorExpr); !ok {
						continue // not a command registry
					}
					regs = append(regs, regEntry{name, method, kv.Pos(), af, cl.Lbrace})
				}
				return true
			})
		}
	}
	for _, r := range regs {
		group := ""
		for _, cg := range r.file.Comments {
			if cg.Pos() > r.lbrace && cg.End() < r.pos {
				group = strings.TrimSpace(cg.List[len(cg.List)-1].Text[2:])
			}
		}
		f.registry[r.name] = [2]string{r.method, group}
	}
	for n := range f.registry {
		f.order = append(f.order, n)
	}
	sort.Strings(f.order)
	return f, nil
}

// reach computes, for a method, the primitives reachable with no guard on the path and those reachable
// only behind one.
func (f *srcFacts) reach(method string) (unguarded, guardedOnly, all []string) {
	type st struct {
		m string
		g bool
	}
	seen := map[st]bool{}
	ug, gd := map[string]bool{}, map[string]bool{}
	var dfs func(m string, g bool)
	dfs = func(m string, g bool) {
		if seen[st{m, g}] || (g && seen[st{m, false}]) {
			return
		}
		seen[st{m, g}] = true
		for _, s := range f.methods[m] {
			gg := g || s.guarded
			if strings.HasPrefix(s.prim, "call:") {
				dfs(s.prim[5:], gg)
				continue
			}
			if gg {
				gd[s.prim] = true
			} else {
				ug[s.prim] = true
			}
		}
	}
	dfs(method, false)
	for p := range ug {
		unguarded = append(unguarded, p)
		all = append(all, p)
	}
	for p := range gd {
		if !ug[p] {
			guardedOnly = append(guardedOnly, p)
			all = append(all, p)
		}
	}
	sort.Strings(unguarded)
	sort.Strings(guardedOnly)
	sort.Strings(all)
	return
}

func isWriter(p string) bool {
	if writers[p] {
		return true
	}
	if strings.HasPrefix(p, "completer.") {
		return !completerReaders[p[len("completer."):]]
	}
	return false
}

func emitEffects(repo, outDir string) (bool, int, error) {
	f, err := extractFacts(repo)
	if err != nil {
		return false, 0, err
	}
	var sb strings.Builder
	sb.WriteString("-- GENERATED by rlv-dump from the source of /repo's working tree (go/parser). Do not edit.\nnamespace RLV.Gen.Effects\n\n")
	q := func(ss []string) string {
		var p []string
		for _, s := range ss {
			p = append(p, fmt.Sprintf("%q", s))
		}
		return "[" + strings.Join(p, ", ") + "]"
	}
	var groups, uw, gw, reached []string
	for _, n := range f.order {
		e := f.registry[n]
		groups = append(groups, fmt.Sprintf("(%q, %q, %q)", n, e[0], e[1]))
		if e[0] == "" {
			continue
		}
		ug, gd, all := f.reach(e[0])
		var ugw, gdw []string
		for _, p := range ug {
			if isWriter(p) {
				ugw = append(ugw, p)
			}
		}
		for _, p := range gd {
			if isWriter(p) {
				gdw = append(gdw, p)
			}
		}
		uw = append(uw, fmt.Sprintf("(%q, %s)", n, q(ugw)))
		gw = append(gw, fmt.Sprintf("(%q, %s)", n, q(gdw)))
		reached = append(reached, fmt.Sprintf("(%q, %s)", n, q(all)))
	}
	sb.WriteString("/-- (command, *Shell method it is registered to — \"\" when it is not one —, comment group of the registry) -/\n")
	emitList(&sb, "registry", "String × String × String", groups)
	sb.WriteString("/-- buffer-writing primitives a command can reach with no `history-autosuggest` test on the way -/\n")
	emitList(&sb, "unguardedWriters", "String × List String", uw)
	sb.WriteString("/-- buffer-writing primitives a command can reach only behind a `history-autosuggest` test -/\n")
	emitList(&sb, "guardedWriters", "String × List String", gw)
	sb.WriteString("/-- every primitive a command can reach -/\n")
	emitList(&sb, "reached", "String × List String", reached)
	sb.WriteString("end RLV.Gen.Effects\n")
	changed := writeIfChanged(filepath.Join(outDir, "Effects.lean"), sb.String())
	_ = os.Stdout
	return changed, len(f.order), nil
}
