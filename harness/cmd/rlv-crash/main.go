// rlv-crash is the search leg of C10 on the real file-backed history: write
// sequences, reopen, cut the file at every byte offset of the last append,
// reopen, append again, reopen — and compare with what the property promises.
//
//	rlv-crash -n 300 -seed 7 -dir .build/scratch -out report.json
package main

import (
	"encoding/json"
	"flag"
	"fmt"
	"math/rand"
	"os"
	"path/filepath"
	"strings"
	"time"

	"github.com/reeflective/readline"
)

type finding struct {
	Sig    string   `json:"signature"`
	Detail string   `json:"detail"`
	Lines  []string `json:"lines"`
	Cut    int      `json:"cut_offset"`
}

type report struct {
	Seed      int64          `json:"seed"`
	Sequences int            `json:"sequences"`
	Reopens   int            `json:"reopens"`
	Cuts      int            `json:"cut_points"`
	Classes   map[string]int `json:"classes"`
	BySig     map[string]int `json:"findings_by_signature"`
	Findings  []finding      `json:"findings"`
	WallS     float64        `json:"wall_s"`
}

var pool = []string{"ls -la", "echo \"quoted\" 'single'", "multi\nline\nentry", "tab\there", "é中😀", "ctrl\x01\x1b[31m", "back\\slash", "  padded  ",
	"{\"json\":1}", "a", "trailing newline\n", " line sep", "x y z"}

func contents(path string) ([]string, error) {
	h, err := readline.NewHistoryFromFile(path)
	if err != nil {
		return nil, err
	}
	var out []string
	for i := 0; i < h.Len(); i++ {
		l, _ := h.GetLine(i)
		out = append(out, l)
	}
	return out, nil
}

func eq(a, b []string) bool {
	if len(a) != len(b) {
		return false
	}
	for i := range a {
		if a[i] != b[i] {
			return false
		}
	}
	return true
}

func short(ls []string) string {
	var p []string
	for _, l := range ls {
		if len(l) > 40 {
			l = fmt.Sprintf("%s…(%d bytes)", l[:20], len(l))
		}
		p = append(p, fmt.Sprintf("%q", l))
	}
	return "[" + strings.Join(p, " ") + "]"
}

func main() {
	n := flag.Int("n", 200, "write sequences")
	seed := flag.Int64("seed", 1, "PRNG seed")
	dir := flag.String("dir", os.TempDir(), "scratch directory")
	out := flag.String("out", "", "report path")
	flag.Parse()
	t0 := time.Now()
	r := rand.New(rand.NewSource(*seed))
	work, _ := os.MkdirTemp(*dir, "rlv-crash-")
	defer os.RemoveAll(work)
	rep := report{Seed: *seed, Classes: map[string]int{}, BySig: map[string]int{}}
	add := func(f finding) {
		rep.BySig[f.Sig]++
		for _, g := range rep.Findings {
			if g.Sig == f.Sig {
				return
			}
		}
		rep.Findings = append(rep.Findings, f)
	}
	for i := 0; i < *n; i++ {
		path := filepath.Join(work, fmt.Sprintf("h%d", i))
		var lines []string
		class := "short"
		for k := 1 + r.Intn(5); k > 0; k-- {
			l := pool[r.Intn(len(pool))]
			if r.Intn(25) == 0 {
				l = strings.Repeat("long ", 14000) // > 64 KiB
				class = "long"
			}
			lines = append(lines, l)
		}
		rep.Classes[class]++
		h, _ := readline.NewHistoryFromFile(path) // the file does not exist yet: the error is expected
		// expected durable content: what Write accepts (trimmed, non-blank); the file keeps consecutive duplicates
		var want []string
		var sizes []int64
		for _, l := range lines {
			h.Write(l)
			if t := strings.TrimSpace(l); t != "" {
				want = append(want, t)
			}
			st, _ := os.Stat(path)
			if st != nil {
				sizes = append(sizes, st.Size())
			}
		}
		rep.Sequences++
		got, err := contents(path)
		rep.Reopens++
		if err != nil {
			add(finding{"reopen-fails/" + class, err.Error(), lines, -1})
			continue
		}
		if !eq(got, want) {
			add(finding{"reopen-differs/" + class, fmt.Sprintf("written %s, reopened %s", short(want), short(got)), lines, -1})
			continue
		}
		// the process dies at any byte of the last append
		if len(sizes) < 1 {
			continue
		}
		full, _ := os.ReadFile(path)
		start := int64(0)
		if len(sizes) > 1 {
			start = sizes[len(sizes)-2]
		}
		step := int64(1)
		if int64(len(full))-start > 400 {
			step = (int64(len(full)) - start) / 200
		}
		for cut := start; cut < int64(len(full)); cut += step {
			os.WriteFile(path, full[:cut], 0o600)
			rep.Cuts++
			got, err := contents(path)
			rep.Reopens++
			prev := want[:len(want)-1]
			if err != nil {
				add(finding{"reopen-fails-after-cut/" + class, err.Error(), lines, int(cut)})
				continue
			}
			// the entry in flight may or may not have made it (all of it but its newline is enough
			// for the reader): both are what the statement allows; nothing else is
			if !eq(got, prev) && !eq(got, want) {
				add(finding{"completed-entries-lost-after-cut/" + class, fmt.Sprintf("cut at byte %d of the last append (%d bytes in): completed %s, reopened %s", cut, cut-start, short(prev), short(got)), lines, int(cut)})
				continue
			}
			// entries written after reopening are durable again
			h2, _ := readline.NewHistoryFromFile(path)
			h2.Write("after crash")
			h2.Write("second after crash")
			got2, _ := contents(path)
			rep.Reopens++
			want2 := append(append([]string{}, got...), "after crash", "second after crash")
			if !eq(got2, want2) {
				sig := "append-after-cut-not-durable/"
				if cut == start {
					sig = "append-after-clean-cut-not-durable/"
				}
				add(finding{sig + class, fmt.Sprintf("cut %d bytes into the last append, then two appends: want %s, reopened %s", cut-start, short(want2), short(got2)), lines, int(cut)})
			}
		}
	}
	rep.WallS = time.Since(t0).Seconds()
	b, _ := json.MarshalIndent(rep, "", " ")
	if *out != "" {
		os.WriteFile(*out, b, 0o644)
	} else {
		fmt.Println(string(b))
	}
	if len(rep.Findings) > 0 {
		os.Exit(1)
	}
}
