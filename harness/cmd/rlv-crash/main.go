// rlv-crash is the search leg of C10 on the real file-backed history: write
// sequences, reopen, cut the file at every byte offset of the last append,
// reopen, append again, reopen — and compare with what the property promises.
//
//	rlv-crash -n 300 -seed 7 -dir .build/scratch -out report.json
package main

import (
	"encoding/json"
	"flag"
	"fmt"
	"math/rand"
	"os"
	"bytes"
	"path/filepath"
	"strings"
	"time"
	"unicode/utf8"

	"github.com/reeflective/readline"
	"github.com/reeflective/readline/inputrc"
	"github.com/reeflective/readline/internal/core"
	"github.com/reeflective/readline/internal/history"
	"github.com/reeflective/readline/internal/ui"
)

type finding struct {
	Sig    string   `json:"signature"`
	Detail string   `json:"detail"`
	Lines  []string `json:"lines"`
	Cut    int      `json:"cut_offset"`
}

type report struct {
	Seed      int64          `json:"seed"`
	Sequences int            `json:"sequences"`
	Reopens   int            `json:"reopens"`
	Cuts      int            `json:"cut_points"`
	Laws      int            `json:"codec_law_checks"`
	Decided   int            `json:"distinct_decided"`
	Classes   map[string]int `json:"classes"`
	BySig     map[string]int `json:"findings_by_signature"`
	Findings  []finding      `json:"findings"`
	WallS     float64        `json:"wall_s"`
}

var pool = []string{"ls -la", "echo \"quoted\" 'single'", "multi\nline\nentry", "tab\there", "é中😀", "ctrl\x01\x1b[31m", "back\\slash", "  padded  ",
	"{\"json\":1}", "a", "trailing newline\n", " line sep", "x y z"}

func contents(path string) ([]string, error) {
	h, err := readline.NewHistoryFromFile(path)
	if err != nil {
		return nil, err
	}
	var out []string
	for i := 0; i < h.Len(); i++ {
		l, _ := h.GetLine(i)
		out = append(out, l)
	}
	return out, nil
}

// writer opens the history file for appending the way an application can: through NewHistoryFromFile, or
// through Shell.History.AddFromFile (history.Sources.AddFromFile builds the source by hand)
func writer(path string, how int) (history.Source, string) {
	if how%2 == 0 {
		h, _ := readline.NewHistoryFromFile(path) // a file that does not exist yet: the error is expected
		return h, "NewHistoryFromFile"
	}
	l := core.Line{}
	srcs := history.NewSources(&l, core.NewCursor(&l), new(ui.Hint), inputrc.NewDefaultConfig())
	srcs.Delete()
	srcs.AddFromFile("file", path)
	return srcs.Current(), "AddFromFile"
}

func eq(a, b []string) bool {
	if len(a) != len(b) {
		return false
	}
	for i := range a {
		if a[i] != b[i] {
			return false
		}
	}
	return true
}

func short(ls []string) string {
	var p []string
	for _, l := range ls {
		if len(l) > 40 {
			l = fmt.Sprintf("%s…(%d bytes)", l[:20], len(l))
		}
		p = append(p, fmt.Sprintf("%q", l))
	}
	return "[" + strings.Join(p, " ") + "]"
}

func main() {
	n := flag.Int("n", 200, "write sequences")
	seed := flag.Int64("seed", 1, "PRNG seed")
	dir := flag.String("dir", os.TempDir(), "scratch directory")
	out := flag.String("out", "", "report path")
	flag.Parse()
	t0 := time.Now()
	r := rand.New(rand.NewSource(*seed))
	work, _ := os.MkdirTemp(*dir, "rlv-crash-")
	defer os.RemoveAll(work)
	rep := report{Seed: *seed, Classes: map[string]int{}, BySig: map[string]int{}}
	add := func(f finding) {
		rep.BySig[f.Sig]++
		for _, g := range rep.Findings {
			if g.Sig == f.Sig {
				return
			}
		}
		rep.Findings = append(rep.Findings, f)
	}
	// --- the codec laws the Lean theorems assume (Model/HistFile.CodecLaws), on the real functions:
	// the record of a block is what Write appends to an empty file
	lawPool := append([]string{}, pool...)
	for k := 0; k < *n; k++ {
		var sb strings.Builder
		for j := 1 + r.Intn(12); j > 0; j-- {
			switch r.Intn(6) {
			case 0:
				sb.WriteRune(rune(r.Intn(0x20)))
			case 1:
				sb.WriteString([]string{"\"", "\\", "<", ">", "&", "\u2028", "\u2029", "}", "{", "\"block\":\"x\"", "\r", "\n"}[r.Intn(12)])
			case 2:
				c := rune(r.Intn(0x10ffff))
				if utf8.ValidRune(c) {
					sb.WriteRune(c)
				}
			default:
				sb.WriteByte(byte(0x20 + r.Intn(0x5f)))
			}
		}
		lawPool = append(lawPool, sb.String())
	}
	seenLaw := map[string]bool{}
	for k, l := range lawPool {
		b := strings.TrimSpace(l)
		if b == "" || !utf8.ValidString(b) || seenLaw[b] {
			continue
		}
		seenLaw[b] = true
		path := filepath.Join(work, fmt.Sprintf("law%d", k))
		h, _ := readline.NewHistoryFromFile(path)
		h.Write(l)
		rec, _ := os.ReadFile(path)
		rep.Laws++
		if len(rec) < 2 || rec[len(rec)-1] != '\n' {
			add(finding{"codec-law/record-ends-with-newline", fmt.Sprintf("%q is stored as %q", b, rec), []string{l}, -1})
			continue
		}
		enc := rec[:len(rec)-1]
		if bytes.ContainsAny(enc, "\n\r") {
			add(finding{"codec-law/no-newline-inside-record", fmt.Sprintf("%q is stored as %q", b, rec), []string{l}, -1})
		}
		if got, _ := contents(path); !eq(got, []string{b}) {
			add(finding{"codec-law/roundtrip", fmt.Sprintf("%q is stored as %q and read back as %q", b, rec, got), []string{l}, -1})
		}
		step := 1
		if len(enc) > 300 {
			step = len(enc) / 150
		}
		for cut := 0; cut < len(enc); cut += step {
			os.WriteFile(path, enc[:cut], 0o600)
			if got, _ := contents(path); len(got) != 0 {
				add(finding{"codec-law/prefix-undecodable", fmt.Sprintf("the first %d bytes of the record of %q read back as %q", cut, b, got), []string{l}, cut})
				break
			}
		}
		os.Remove(path)
	}
	for i := 0; i < *n; i++ {
		path := filepath.Join(work, fmt.Sprintf("h%d", i))
		var lines []string
		class := "short"
		for k := 1 + r.Intn(5); k > 0; k-- {
			l := pool[r.Intn(len(pool))]
			if r.Intn(25) == 0 {
				l = strings.Repeat("long ", 14000) // > 64 KiB
				class = "long"
			}
			lines = append(lines, l)
		}
		// every twentieth history has one very long entry: around the powers of two where a size limit is likely
		// to sit, plain or made of characters that grow when they are encoded (a limit applied to the text on one
		// side and to the record on the other lets the text through and loses the record)
		if i%20 == 7 {
			base := []int{1 << 17, 1 << 18, 1 << 19, 1 << 20, 1 << 21, 3 << 20}[r.Intn(6)]
			var l string
			switch r.Intn(4) {
			case 0:
				l = strings.Repeat("x", base-r.Intn(120))
			case 1:
				l = strings.Repeat("y", base+r.Intn(120))
			case 2:
				l = strings.Repeat("\x01", base/6+base/40+r.Intn(50)) // six bytes each once encoded
			default:
				l = strings.Repeat("\"", base/2+base/40+r.Intn(50)) // two bytes each once encoded
			}
			class = "huge"
			lines[r.Intn(len(lines))] = l
		}
		rep.Classes[class]++
		h, how := writer(path, r.Intn(2))
		rep.Classes["opened-by/"+how]++
		// expected durable content: what Write accepts (trimmed, non-blank); the file keeps consecutive duplicates
		var want []string
		var sizes []int64
		for _, l := range lines {
			// only what was successfully written is owed back
			if _, werr := h.Write(l); werr != nil {
				rep.Classes["write-refused"]++
				continue
			}
			if t := strings.TrimSpace(l); t != "" {
				want = append(want, t)
			}
			st, _ := os.Stat(path)
			if st != nil {
				sizes = append(sizes, st.Size())
			}
		}
		rep.Sequences++
		got, err := contents(path)
		rep.Reopens++
		if err != nil {
			add(finding{"reopen-fails/" + class, err.Error(), lines, -1})
			continue
		}
		if !eq(got, want) {
			add(finding{"reopen-differs/" + class, fmt.Sprintf("written %s, reopened %s", short(want), short(got)), lines, -1})
			continue
		}
		// the process dies at any byte of the last append
		if len(sizes) < 1 {
			continue
		}
		full, _ := os.ReadFile(path)
		start := int64(0)
		if len(sizes) > 1 {
			start = sizes[len(sizes)-2]
		}
		step := int64(1)
		if int64(len(full))-start > 400 {
			step = (int64(len(full)) - start) / 200
		}
		if class == "huge" {
			step = (int64(len(full))-start)/40 + 1
		}
		for cut := start; cut < int64(len(full)); cut += step {
			os.WriteFile(path, full[:cut], 0o600)
			rep.Cuts++
			got, err := contents(path)
			rep.Reopens++
			prev := want[:len(want)-1]
			if err != nil {
				add(finding{"reopen-fails-after-cut/" + class, err.Error(), lines, int(cut)})
				continue
			}
			// the entry in flight may or may not have made it (all of it but its newline is enough
			// for the reader): both are what the statement allows; nothing else is
			if !eq(got, prev) && !eq(got, want) {
				add(finding{"completed-entries-lost-after-cut/" + class, fmt.Sprintf("cut at byte %d of the last append (%d bytes in): completed %s, reopened %s", cut, cut-start, short(prev), short(got)), lines, int(cut)})
				continue
			}
			// entries written after reopening are durable again
			h2, how2 := writer(path, int(cut-start)+i)
			h2.Write("after crash")
			h2.Write("second after crash")
			got2, _ := contents(path)
			rep.Reopens++
			want2 := append(append([]string{}, got...), "after crash", "second after crash")
			if !eq(got2, want2) {
				sig := "append-after-cut-not-durable/" + how2 + "/"
				if cut == start {
					sig = "append-after-clean-cut-not-durable/" + how2 + "/"
				}
				add(finding{sig + class, fmt.Sprintf("cut %d bytes into the last append, then two appends: want %s, reopened %s", cut-start, short(want2), short(got2)), lines, int(cut)})
			}
		}
	}
	rep.Decided = rep.Laws + rep.Cuts
	rep.WallS = time.Since(t0).Seconds()
	b, _ := json.MarshalIndent(rep, "", " ")
	if *out != "" {
		os.WriteFile(*out, b, 0o644)
	} else {
		fmt.Println(string(b))
	}
	if len(rep.Findings) > 0 {
		os.Exit(1)
	}
}
