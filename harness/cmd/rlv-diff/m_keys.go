package main

import (
	"fmt"
	"io"
	"math/rand"
	"sort"
	"strings"

	"github.com/reeflective/readline/inputrc"
	"github.com/reeflective/readline/internal/core"
	"github.com/reeflective/readline/internal/keymap"
)

type eofReader struct {
	c   [][]byte
	eof bool
}

func (s *eofReader) Read(p []byte) (int, error) {
	if len(s.c) == 0 {
		s.eof = true
		return 0, io.EOF
	}
	n := copy(p, s.c[0])
	s.c = s.c[1:]
	return n, nil
}
func (s *eofReader) Close() error { return nil }

var dispAlpha = []rune{'a', 'b', 'x', 0x1b, 0x18, 0xf8 /* M-x */, '[', 0xe9, 0x4e2d}
var dispActs = []string{"X", "Y", "Z", "vi-movement-mode", "W", ""}
var dispRegs = []string{"X", "Y", "Z", "W", "vi-movement-mode", "emacs-editing-mode"}

// metaTwin returns the other raw spelling with the same normal form, if any
// (M-x as rune 0xF8 <-> ESC x): forces duplicated normal forms.
func metaTwin(s []rune) []rune {
	var out []rune
	changed := false
	for i := 0; i < len(s); i++ {
		switch {
		case s[i] > 0x7f && s[i] <= 0xff:
			out = append(out, 0x1b, s[i]&0x7f)
			changed = true
		case s[i] == 0x1b && i+1 < len(s) && s[i+1] < 0x80 && s[i+1] != 0x1b:
			out = append(out, s[i+1]|0x80)
			i++
			changed = true
		default:
			out = append(out, s[i])
		}
	}
	if !changed {
		return nil
	}
	return out
}

func genTable(r *rand.Rand) (map[string]inputrc.Bind, [][]rune) {
	tbl := map[string]inputrc.Bind{}
	var seqs [][]rune
	for j := 1 + r.Intn(6); j > 0; j-- {
		var s []rune
		if len(seqs) > 0 && r.Intn(2) == 0 { // forced prefix overlap
			s = append(s, seqs[r.Intn(len(seqs))]...)
			if r.Intn(3) == 0 && len(s) > 1 {
				s = s[:len(s)-1]
			}
		}
		for k := r.Intn(3); k >= 0 && len(s) < 4; k-- {
			s = append(s, dispAlpha[r.Intn(len(dispAlpha))])
		}
		seqs = append(seqs, s)
		tbl[string(s)] = inputrc.Bind{Action: dispActs[r.Intn(len(dispActs))], Macro: r.Intn(8) == 0}
		if tw := metaTwin(s); tw != nil && r.Intn(2) == 0 { // forced duplicated normal form
			seqs = append(seqs, tw)
			tbl[string(tw)] = inputrc.Bind{Action: dispActs[r.Intn(len(dispActs))], Macro: r.Intn(8) == 0}
		}
	}
	return tbl, seqs
}

func genKeys(r *rand.Rand, seqs [][]rune) [][]byte {
	var kb []byte
	for k := r.Intn(7); k >= 0; k-- {
		if len(seqs) > 0 && r.Intn(2) == 0 {
			for _, c := range seqs[r.Intn(len(seqs))] {
				if c > 0x7f && c <= 0xff {
					kb = append(kb, 0x1b, byte(c&0x7f))
				} else {
					kb = append(kb, []byte(string(c))...)
				}
			}
		} else {
			kb = append(kb, []byte(string(dispAlpha[r.Intn(len(dispAlpha))]))...)
		}
	}
	var chunks [][]byte
	for rest := kb; len(rest) > 0; {
		k := 1 + r.Intn(len(rest))
		if r.Intn(3) == 0 {
			k = 1
		}
		chunks = append(chunks, append([]byte{}, rest[:k]...))
		rest = rest[k:]
	}
	return chunks
}

func tableField(tbl map[string]inputrc.Bind) string {
	var ks []string
	for s := range tbl {
		ks = append(ks, s)
	}
	sort.Strings(ks)
	var ents []string
	for _, s := range ks {
		b := tbl[s]
		a := b.Action
		if a == "" {
			a = "_"
		}
		m := "0"
		if b.Macro {
			m = "1"
		}
		ents = append(ents, natsR([]rune(s))+":"+a+":"+m)
	}
	return strings.Join(ents, ";")
}

func chunksField(chunks [][]byte) string {
	if len(chunks) == 0 {
		return "-"
	}
	cs := make([]string, len(chunks))
	for i, c := range chunks {
		cs[i] = nats(c)
	}
	return strings.Join(cs, ",")
}

// strutilConvertMeta: the normal form matchBind gives a bound sequence (meta runes as ESC-prefixed keys)
func strutilConvertMeta(seq string) string {
	var out []rune
	for _, c := range seq {
		if c > 0x7f && c <= 0xff {
			out = append(out, 0x1b, c&0x7f)
		} else {
			out = append(out, c)
		}
	}
	return string(out)
}

func init() {
	dispatch := func(local bool) func(r *rand.Rand) (string, string, string) {
		return func(r *rand.Rand) (string, string, string) {
			tbl, seqs := genTable(r)
			emacs := r.Intn(2) == 0
			isearch := local && r.Intn(3) == 0
			chunks := genKeys(r, seqs)
			// one time in three the engine has already dispatched a key with ANOTHER bind table in the same keymap
			// (an application that edits Config.Binds between two calls): the table in force is what counts
			var warm map[string]inputrc.Bind
			if r.Intn(3) == 0 {
				warm, _ = genTable(r)
			}
			b := func(x bool) string {
				if x {
					return "1"
				}
				return "0"
			}
			var line string
			if local {
				line = fmt.Sprintf("local %s %s %s %s %s", b(emacs), b(isearch), strings.Join(dispRegs, ","), tableField(tbl), chunksField(chunks))
			} else {
				line = fmt.Sprintf("main %s %s %s %s", b(emacs), strings.Join(dispRegs[:5], ","), tableField(tbl), chunksField(chunks))
			}
			if warm != nil {
				caseSetup[line] = "the engine first dispatched the key ~ with this table in the same keymap, then the table was replaced: " + tableField(warm)
			}
			classes := map[string]bool{}
			var propEvents [][2]string
			res := guard(func() string {
				keys := new(core.Keys)
				eng, cfg := keymap.NewEngine(keys, new(core.Iterations))
				cmds := map[string]func(){}
				for _, a := range dispRegs {
					if !local && a == "emacs-editing-mode" {
						continue
					}
					cmds[a] = func() {}
				}
				eng.Register(cmds)
				mode := "emacs"
				if !emacs {
					mode = "vi-insert"
				}
				cfg.Set("convert-meta", false)
				eng.SetMain(mode)
				limit := 64
				if local {
					lk := "menu-select"
					if isearch {
						lk = "isearch"
					}
					if warm != nil {
						cfg.Binds[lk] = warm
						eng.SetLocal(lk)
						core.Stdin = &eofReader{c: [][]byte{[]byte("~")}}
						core.WaitAvailableKeys(keys, cfg)
						keymap.MatchLocal(eng)
						core.FlushUsed(keys)
						for {
							if _, empty := core.PopKey(keys); empty {
								break
							}
						}
					}
					cfg.Binds[lk] = tbl
					eng.SetLocal(lk)
					limit = 12
				} else {
					if warm != nil {
						cfg.Binds[mode] = warm
						core.Stdin = &eofReader{c: [][]byte{[]byte("~")}}
						core.WaitAvailableKeys(keys, cfg)
						keymap.MatchMain(eng)
						core.FlushUsed(keys)
						for {
							if _, empty := core.PopKey(keys); empty {
								break
							}
						}
					}
					cfg.Binds[mode] = tbl
				}
				src := &eofReader{c: chunks}
				core.Stdin = src
				var evs []string
				for it := 0; it < limit; it++ {
					core.FlushUsed(keys)
					core.WaitAvailableKeys(keys, cfg)
					if src.eof {
						evs = append(evs, "EOF")
						break
					}
					var bind inputrc.Bind
					var cmd func()
					var prefix bool
					if local {
						bind, cmd, prefix = keymap.MatchLocal(eng)
					} else {
						bind, cmd, prefix = keymap.MatchMain(eng)
					}
					p, c := 0, 0
					switch {
					case prefix:
						p = 1
						classes["prefix"] = true
					case bind.Action == "":
						classes["nomatch"] = true
					default:
						classes["run"] = true
					}
					if cmd != nil {
						c = 1
					}
					evs = append(evs, fmt.Sprintf("%s/%d/%d/%s", bind.Action, p, c, natsR(keys.Caller())))
					// C03, decided on the real code alone: a command that is selected is bound to a sequence that
					// starts with the first key consumed ("never a command bound to a different sequence")
					if !prefix && bind.Action != "" && bind.Action != "emacs-editing-mode" && len(keys.Caller()) > 0 {
						first := string(keys.Caller()[:1])
						ok := false
						for seq, b := range tbl {
							norm := strutilConvertMeta(seq)
							if b.Action == bind.Action && b.Macro == bind.Macro && strings.HasPrefix(norm, first) {
								ok = true
							}
						}
						// ... and it runs "when its last key arrives": the keys the dispatcher takes for it are one of the
						// sequences it is bound to, no more. (A shorter binding that runs because the next key rules the
						// longer ones out must leave that key to be dispatched next: a key that is taken with the binding
						// is a key the user typed and that never runs anything.)
						// (main keymaps; a lone ESC has a meaning of its own in the local keymaps and after a Vi prefix)
						if ok && !local && keys.Caller()[len(keys.Caller())-1] != 0x1b {
							exact, plusOne := false, false
							called := string(keys.Caller())
							for seq, b := range tbl {
								if b.Action == bind.Action && b.Macro == bind.Macro {
									norm := strutilConvertMeta(seq)
									if norm == called {
										exact = true
									}
									if len(keys.Caller()) > 1 && norm == string(keys.Caller()[:len(keys.Caller())-1]) {
										plusOne = true
									}
								}
							}
							if !exact && plusOne {
								where := "main"
								if local {
									where = "local"
								}
								_ = where
								propEvents = append(propEvents, [2]string{"key-ruling-out-longer-binds-is-dropped", fmt.Sprintf("keys %q were taken to run %q, which is bound to %q: the last key only ruled the longer binds out, and is dropped instead of being dispatched next", called, bind.Action, string(keys.Caller()[:len(keys.Caller())-1]))})
							}
						}
						// the multibyte fallback of the main keymaps inserts an unbound character
						if !ok && !(bind.Action == "self-insert" && !local && keys.Caller()[0] >= 0x80) {
							propEvents = append(propEvents, [2]string{"runs-command-bound-to-a-different-sequence", fmt.Sprintf("keys %q selected %q, which no bind starting with %q has", string(keys.Caller()), bind.Action, first)})
						}
					}
				}
				// ... and at the end of the input no complete key is left undispatched: only the keys of a pending
				// proper prefix may remain in the buffer
				// (main keymaps only: a local keymap hands the keys it does not match back to the main one)
				if n := len(evs); !local && n > 0 && evs[n-1] == "EOF" {
					left := 0
					for {
						if _, empty := core.PopKey(keys); empty {
							break
						}
						left++
					}
					lastWasPrefix := n >= 2 && strings.Contains(evs[n-2], "/1/")
					if left > 0 && !lastWasPrefix {
						propEvents = append(propEvents, [2]string{"keys-left-undispatched-at-end-of-input", fmt.Sprintf("%d byte(s) are still buffered when the input ends although the last dispatch was not waiting for more keys", left)})
					}
				}
				if len(evs) == limit && evs[limit-1] != "EOF" {
					evs = append(evs, "FUEL")
				}
				return strings.Join(evs, " ")
			})
			var cl []string
			for k := range classes {
				cl = append(cl, k)
			}
			sort.Strings(cl)
			class := strings.Join(cl, "+")
			if class == "" {
				class = "trivial"
			}
			if warm != nil {
				class += "/table-replaced"
			}
			for _, pe := range propEvents {
				where := "main"
				if local {
					where = "local"
				}
				reportProp(pe[0]+"/"+where, pe[1], line)
			}
			return line, res, class
		}
	}
	register(&model{name: "disp", gen: dispatch(false), norm: func(m string) string {
		evs := strings.Fields(m)
		for i, ev := range evs {
			if p := strings.Split(ev, "/"); len(p) == 5 {
				evs[i] = strings.Join(p[:4], "/") // the remaining buffer is not observable
			}
		}
		return strings.Join(evs, " ")
	}})
	register(&model{name: "local", gen: dispatch(true)})
}
