package main

import (
	"encoding/hex"
	"fmt"
	"math/rand"
	"strconv"
	"strings"

	"github.com/reeflective/readline/verifx/internal/sess"
)

// refreshsess: display.Engine.Refresh in a real Readline call against Disp.refresh — the tokens written by
// the redisplay of buffer B (cursor position included) over the frame of an earlier buffer A, at a terminal
// width; and the screen and cursor afterwards according to two VT emulators against Term.run (C04).
func init() {
	gen := func(r *rand.Rand, w int, multi bool) []rune {
		var l []rune
		switch r.Intn(5) {
		case 0:
			for k := r.Intn(8); k > 0; k-- {
				l = append(l, rune('a'+r.Intn(26)))
			}
		case 1:
			for k := w + r.Intn(2*w); k > 0; k-- {
				l = append(l, rune('a'+r.Intn(26)))
			}
		case 2:
			for k := (1+r.Intn(2))*w - 2; k > 0; k-- {
				l = append(l, 'x')
			}
		case 3:
			if multi {
				for k := 1 + r.Intn(3); k > 0; k-- {
					// one line in three has letters that take two bytes (é, ü): positions are characters, not bytes
					latin := r.Intn(3) == 0
					for j := r.Intn(w + 4); j > 0; j-- {
						if latin && r.Intn(3) == 0 {
							l = append(l, []rune{0xe9, 0xfc}[r.Intn(2)])
						} else {
							l = append(l, rune('a'+r.Intn(26)))
						}
					}
					l = append(l, '\n')
				}
			}
			// the last line: short, or wrapped over two or three rows (the secondary prompt goes on its first row)
			last := r.Intn(6)
			if r.Intn(2) == 0 {
				last = r.Intn(2*w + 2)
			}
			for j := last; j > 0; j-- {
				l = append(l, rune('p'+r.Intn(10)))
			}
		}
		return l
	}
	register(&model{name: "refreshsess", gen: func(r *rand.Rand) (string, string, string) {
		w := []int{80, 40, 20, 33, 12}[r.Intn(5)]
		multi := r.Intn(3) == 0
		a, b := gen(r, w, multi), gen(r, w, multi)
		pa, pb := 0, 0
		if len(a) > 0 {
			pa = r.Intn(len(a) + 1)
		}
		if len(b) > 0 {
			pb = r.Intn(len(b) + 1)
		}
		prompt := []string{"> ", "> ", "", "long$ "}[r.Intn(4)]
		sp := sess.Spec{Prompt: prompt, Mode: "emacs", Runs: 1, Width: w, Height: 60,
			Inject: []sess.Inject{{Seq: `\C-x\C-y0`, Line: string(a), Pos: pa}, {Seq: `\C-x\C-y1`, Line: string(b), Pos: pb}}}
		sp.Chunks = []string{hex.EncodeToString([]byte("\x18\x190")), hex.EncodeToString([]byte("\x18\x191"))}
		sp.ID = fmt.Sprintf("refreshsess-%d", r.Int63())
		line := fmt.Sprintf("refresh2 %d %s %d %s %d %s", w, natsR(a), pa, natsR(b), pb, natsR([]rune(prompt)))
		class := "single"
		if strings.ContainsRune(string(a)+string(b), '\n') {
			class = "multiline"
		}
		// a quarter of the multi-line cases show the column marks of the multi-line editor, which the model of
		// the redisplay does not have: only the two oracles on the real code decide these (the protocol line is
		// one the driver answers "bad-op" to, like the real side below)
		column := multi && r.Intn(4) == 0
		if column {
			sp.Inputrc = []string{"set multiline-column on\n", "set multiline-column-numbered on\n", "set multiline-column-custom \"|\"\n"}[r.Intn(3)]
			line = "refresh2column " + line[len("refresh2 "):]
			class += "+column"
		}
		tr := sessRun(sp)
		res := "?"
		switch {
		case tr.Hang:
			res = "HANG"
		case tr.Error != "":
			res = "ERR " + tr.Error
		case len(tr.Results) > 0 && tr.Results[0].Panic != "":
			res = "PANIC " + tr.Results[0].Panic
		case len(tr.Waits) < 3:
			res = fmt.Sprintf("WAITS%d", len(tr.Waits))
		default:
			wt := tr.Waits[2]
			bts, _ := hex.DecodeString(wt.Out)
			toks := tokenize(bts)
			scr := "SCR:emulators-disagree"
			if wt.CurVTE == wt.CurXT && strings.Join(wt.VTE, "\n") == strings.Join(wt.Xterm, "\n") {
				var rows []string
				for _, row := range trimRows(wt.VTE) {
					rows = append(rows, natsR([]rune(row)))
				}
				scr = fmt.Sprintf("XY:%d,%d SCR:%s", wt.CurVTE[1], wt.CurVTE[0], strings.Join(rows, "/"))
			}
			res = strings.Join(append(toks, scr), " ")
			// C04, decided on the real code alone: every line of the buffer is on the screen, whole and in order
			// (rows are full width, so that wrapped text is contiguous)
			for _, em := range []struct {
				name string
				rows []string
			}{{"vte", wt.VTE}, {"xterm", wt.Xterm}} {
				var sb strings.Builder
				for _, row := range em.rows {
					rr := []rune(row)
					for len(rr) < w {
						rr = append(rr, ' ')
					}
					sb.WriteString(string(rr))
				}
				all, from := sb.String(), 0
				for i, sub := range strings.Split(string(b), "\n") {
					if sub == "" {
						continue
					}
					k := strings.Index(all[from:], sub)
					if k < 0 {
						reportProp(fmt.Sprintf("buffer-text-not-on-screen/%s/prompt-width-%d/%s", class, len(prompt), em.name), fmt.Sprintf("width %d prompt %q: line %d of the buffer %q is not whole on the screen\n%s", w, prompt, i, string(b), strings.Join(trimRows(em.rows), "\n")), line)
						break
					}
					from += k + len(sub)
				}
			}
			// C04, decided on the real code alone: no remnants of the earlier frame — the screen is the one a
			// session that displays B from an empty buffer shows
			sp2 := sp
			sp2.Inject = []sess.Inject{{Seq: `\C-x\C-y1`, Line: string(b), Pos: pb}}
			sp2.Chunks = []string{hex.EncodeToString([]byte("\x18\x191"))}
			sp2.ID += "-fresh"
			if tr2 := sessRun(sp2); len(tr2.Waits) >= 2 && !tr2.Hang {
				w2 := tr2.Waits[1]
				for _, em := range []struct {
					name     string
					got, ref []string
					cg, cr   [2]int
				}{{"vte", wt.VTE, w2.VTE, wt.CurVTE, w2.CurVTE}, {"xterm", wt.Xterm, w2.Xterm, wt.CurXT, w2.CurXT}} {
					if strings.Join(trimRows(em.got), "\n") != strings.Join(trimRows(em.ref), "\n") {
						reportProp("remnants-of-earlier-frame/"+class+"/"+em.name, fmt.Sprintf("width %d: after %q the buffer %q shows\n%s\nfrom an empty buffer it shows\n%s", w, string(a), string(b), strings.Join(trimRows(em.got), "\n"), strings.Join(trimRows(em.ref), "\n")), line)
					} else if em.cg != em.cr {
						reportProp("cursor-depends-on-earlier-frame/"+class+"/"+em.name, fmt.Sprintf("width %d: after %q the buffer %q has its cursor at %v, from an empty buffer at %v", w, string(a), string(b), em.cg, em.cr), line)
					}
				}
			}
		}
		if column && !strings.HasPrefix(res, "HANG") && !strings.HasPrefix(res, "ERR") && !strings.HasPrefix(res, "PANIC") && !strings.HasPrefix(res, "WAITS") {
			res = "bad-op"
		}
		return line, res, class + "/" + strconv.Itoa(w)
	}})
}

func trimRows(s []string) []string {
	last := -1
	for i, row := range s {
		if strings.TrimRight(row, " ") != "" {
			last = i
		}
	}
	var out []string
	for i := 0; i <= last; i++ {
		out = append(out, strings.TrimRight(s[i], " "))
	}
	return out
}
