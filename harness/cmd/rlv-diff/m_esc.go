package main

import (
	"math/rand"
	"unicode/utf8"

	"github.com/reeflective/readline/inputrc"
)

// esc / unesc: inputrc.Escape, inputrc.EscapeMacro and inputrc.Unescape against Model/Esc.
var escAlpha = []rune{'a', 'x', 'M', 'C', '-', '\\', '"', '\'', 0x1b, 0x01, 0x1c, 0x7f, 0x80, 0x9b, 0xa2, 0xa7, 0xdc, 0xe9, 0xff, ' ', '0', '1', '7', '8', 'f', 'F', 'g', '?',
	0x100, 0x101, 0x4e2d, 0x200b, 0x1f600, 0xfffd, 0xad, 0x85, 'e', 'n', 'd', 'r', 't', 'v', 'b', 0}

func escRunes(r *rand.Rand, max int) []rune {
	n := r.Intn(max + 1)
	rs := make([]rune, n)
	for k := range rs {
		switch r.Intn(4) {
		case 0:
			rs[k] = rune(r.Intn(256))
		case 1:
			c := rune(r.Intn(0x3000))
			if !utf8.ValidRune(c) {
				c = 'a'
			}
			rs[k] = c
		default:
			rs[k] = escAlpha[r.Intn(len(escAlpha))]
		}
	}
	return rs
}

func init() {
	register(&model{name: "esc", gen: func(r *rand.Rand) (string, string, string) {
		rs := escRunes(r, 6)
		mac := r.Intn(2) == 0
		m, class := "0", "escape"
		var out string
		if mac {
			m, class = "1", "escape-macro"
			out = inputrc.EscapeMacro(string(rs))
		} else {
			out = inputrc.Escape(string(rs))
		}
		if len(rs) == 0 {
			class = "trivial"
		}
		return "esc " + m + " " + natsR(rs), natsR([]rune(out)), class
	}})
	register(&model{name: "unesc", gen: func(r *rand.Rand) (string, string, string) {
		rs := escRunes(r, 9)
		// half of the cases are escape images with junk around them
		class := "raw"
		if r.Intn(2) == 0 {
			rs = append(append(escRunes(r, 2), []rune(inputrc.Escape(string(escRunes(r, 3))))...), escRunes(r, 2)...)
			class = "image"
		}
		if len(rs) == 0 {
			class = "trivial"
		}
		return "unesc " + natsR(rs), natsR([]rune(inputrc.Unescape(string(rs)))), class
	}})
}
