package main

import (
	"fmt"
	"math/rand"
	"strings"

	"github.com/reeflective/readline/internal/core"
)

var coreAlpha = []rune{'a', 'b', ' ', '\n', 0xe9, 0x4e2d, 0}

func init() {
	register(&model{name: "core", accept: acceptBeyond,
		gen: func(r *rand.Rand) (string, string, string) {
			l := randRunes(r, coreAlpha, 6)
			pos := r.Intn(len(l)+5) - 2
			e := r.Intn(len(l)+5) - 2
			cs := randRunes(r, coreAlpha, 3)
			op := []string{"ins", "insb", "cut", "cutr", "ckcmd"}[r.Intn(5)]
			var line string
			res := guard(func() string {
				ln := core.Line(append([]rune{}, l...))
				switch op {
				case "ins":
					line = fmt.Sprintf("ins %s %d %s", natsR(l), pos, natsR(cs))
					ln.Insert(pos, cs...)
				case "insb":
					line = fmt.Sprintf("insb %s %d %d %s", natsR(l), pos, e, natsR(cs))
					ln.InsertBetween(pos, e, cs...)
				case "cut":
					line = fmt.Sprintf("cut %s %d %d", natsR(l), pos, e)
					ln.Cut(pos, e)
				case "cutr":
					line = fmt.Sprintf("cutr %s %d", natsR(l), pos)
					ln.CutRune(pos)
				case "ckcmd":
					c := core.NewCursor(&ln)
					c.Set(pos)
					c.CheckCommand()
					cp := min(max(pos, 0), len(l))
					line = fmt.Sprintf("ckcmd %s %d -1", natsR(l), cp)
					return fmt.Sprintf("ok %d %d", c.Pos(), c.Mark())
				}
				return "ok " + natsR([]rune(ln))
			})
			class := op
			if res == "panic" {
				class += ":panic"
			}
			return line, res, class
		}})

	tokAlpha := []rune{'a', 'b', ' ', ' ', '\t', '\n', '-', '.', '"', '$', 0xe9, 0x4e2d, '_', '/'}
	register(&model{name: "tok", gen: func(r *rand.Rand) (string, string, string) {
		l := randRunes(r, tokAlpha, 8)
		pos := r.Intn(len(l)+4) - 1
		kind := []string{"w", "s"}[r.Intn(2)]
		fn := []string{"fwd", "fwe", "bwd"}[r.Intn(3)]
		line := fmt.Sprintf("tok %s %s %s %d", kind, fn, natsR(l), pos)
		res := guard(func() string {
			ln := core.Line(append([]rune{}, l...))
			tk := ln.Tokenize
			if kind == "s" {
				tk = ln.TokenizeSpace
			}
			var v int
			switch fn {
			case "fwd":
				v = ln.Forward(tk, pos)
			case "fwe":
				v = ln.ForwardEnd(tk, pos)
			default:
				v = ln.Backward(tk, pos)
			}
			split, index, p := tk(pos)
			toks := make([]string, len(split))
			for i, s := range split {
				toks[i] = natsR([]rune(s))
			}
			return fmt.Sprintf("ok %d %d %d %s", v, index, p, strings.Join(toks, "|"))
		})
		return line, res, kind + ":" + fn
	}})

	selAlpha := []rune{'a', 'b', ' ', '\n', '\n', 0xe9}
	register(&model{name: "sel", gen: func(r *rand.Rand) (string, string, string) {
		l := randRunes(r, selAlpha, 7)
		cp := r.Intn(len(l)+3) - 1
		b := r.Intn(len(l)+4) - 2
		e := r.Intn(len(l)+4) - 2
		vis, vl := r.Intn(2), r.Intn(2)
		ccp := min(max(cp, 0), len(l))
		line := fmt.Sprintf("sel %s %d %d %d %d %d", natsR(l), ccp, b, e, vis, vl)
		res := guard(func() string {
			ln := core.Line(append([]rune{}, l...))
			cur := core.NewCursor(&ln)
			cur.Set(cp)
			sel := core.NewSelection(&ln, cur)
			sel.MarkRange(b, e)
			if vis == 1 {
				sel.Visual(vl == 1)
			}
			// the same state, yanked (Pop) instead of deleted (Cut)
			ln2 := core.Line(append([]rune{}, l...))
			cur2 := core.NewCursor(&ln2)
			cur2.Set(cp)
			sel2 := core.NewSelection(&ln2, cur2)
			sel2.MarkRange(b, e)
			if vis == 1 {
				sel2.Visual(vl == 1)
			}
			yanked, _, _, _ := sel2.Pop()
			if string(ln2) != string(l) {
				return "yank-changed-the-line"
			}
			pb, pe := sel.Pos()
			txt := sel.Cut()
			return fmt.Sprintf("ok %d %d %s %s %s", pb, pe, natsR([]rune(txt)), natsR([]rune(ln)), natsR([]rune(yanked)))
		})
		class := fmt.Sprintf("vis%d/line%d", vis, vl)
		return line, res, class
	}})
}
