// rlv-diff is the component-level correspondence check: for one modelled
// component it generates cases from a seed, runs the REAL code in-process,
// pipes the same cases to the Lean model driver, and reports where the two
// canonical answer streams differ.
//
//	rlv-diff -model tok -n 20000 -seed 7 -driver .build/rlvdriver -out ev.json
package main

import (
	"bufio"
	"bytes"
	"encoding/json"
	"flag"
	"fmt"
	"math/rand"
	"os"
	"os/exec"
	"sort"
	"strconv"
	"strings"
	"time"
)

// A model produces, for one PRNG draw, the protocol line for the driver and
// the canonical answer of the real code. class is a coarse label of the branch
// the case exercises (input-distribution evidence).
type model struct {
	name string
	gen  func(r *rand.Rand) (line, real, class string)
	// accept returns true if a difference between real and model answers is
	// one the model declares capacity-dependent (beyondLen) rather than wrong.
	accept func(real, model string) bool
	// norm canonicalises a model answer before comparison (drop fields the
	// real side cannot observe).
	norm func(model string) string
}

var models = map[string]*model{}

// abortGen is raised by a model whose real side keeps hanging: no further case is generated
var abortGen bool

func register(m *model) { models[m.name] = m }

func nats(b []byte) string {
	if len(b) == 0 {
		return "-"
	}
	p := make([]string, len(b))
	for i, x := range b {
		p[i] = strconv.Itoa(int(x))
	}
	return strings.Join(p, ".")
}

func natsR(b []rune) string {
	if len(b) == 0 {
		return "-"
	}
	p := make([]string, len(b))
	for i, x := range b {
		p[i] = strconv.Itoa(int(x))
	}
	return strings.Join(p, ".")
}

func guard(f func() string) (out string) {
	defer func() {
		if r := recover(); r != nil {
			out = "panic"
		}
	}()
	return f()
}

func randRunes(r *rand.Rand, alpha []rune, max int) []rune {
	n := r.Intn(max + 1)
	l := make([]rune, n)
	for i := range l {
		l[i] = alpha[r.Intn(len(alpha))]
	}
	return l
}

type mismatch struct {
	Case  string `json:"case"`
	Real  string `json:"real"`
	Model string `json:"model"`
	Setup string `json:"setup,omitempty"`
}

// caseSetup: what the real side did before the case that the case line does not say (the model does not need it)
var caseSetup = map[string]string{}

// A propFinding is an input on which the REAL code contradicts the property itself (decided by an oracle
// that does not involve the Lean model): it becomes the replay of a VIOLATION.
type propFinding struct {
	Sig    string `json:"signature"`
	Detail string `json:"detail"`
	Case   string `json:"case"`
}

var propFindings []propFinding
var propSeen = map[string]int{}

func reportProp(sig, detail, caseLine string) {
	propSeen[sig]++
	if propSeen[sig] == 1 {
		propFindings = append(propFindings, propFinding{sig, detail, caseLine})
	}
}

type report struct {
	Model       string         `json:"model"`
	Findings    []propFinding  `json:"findings"`
	BySig       map[string]int `json:"findings_by_signature"`
	Seed        int64          `json:"seed"`
	Evaluations int            `json:"evaluations"`
	Distinct    int            `json:"distinct_nontrivial"`
	Classes     map[string]int `json:"classes"`
	Mismatches  int            `json:"mismatches"`
	BeyondLen   int            `json:"beyond_len_cases"`
	First       []mismatch     `json:"first_mismatches"`
	Samples     []mismatch     `json:"samples"`
	WallS       float64        `json:"wall_s"`
}

func main() {
	name := flag.String("model", "", "component: "+strings.Join(names(), ","))
	n := flag.Int("n", 10000, "cases")
	seed := flag.Int64("seed", 1, "PRNG seed (VERIF_SEED)")
	driver := flag.String("driver", "rlvdriver", "model driver executable")
	out := flag.String("out", "", "write the JSON report here (default stdout)")
	corpus := flag.String("corpus", "", "file of protocol lines that run first")
	dump := flag.String("dump", "", "write the protocol lines and the real answers to this file and exit (debugging)")
	flag.Parse()
	m := models[*name]
	if m == nil {
		fmt.Fprintln(os.Stderr, "unknown model; have:", names())
		os.Exit(2)
	}
	t0 := time.Now()
	// the real code prints cursor styles etc.: keep our own stdout
	saved := os.Stdout
	if dn, err := os.OpenFile("/dev/null", os.O_WRONLY, 0); err == nil {
		os.Stdout = dn
	}
	os.Setenv("INPUTRC", "/dev/null")
	rng := rand.New(rand.NewSource(*seed))
	rep := report{Model: m.name, Seed: *seed, Classes: map[string]int{}}
	var lines, reals []string
	seen := map[string]bool{}
	// replay: the cases are regenerated from the same seed and budget (the generators draw from one PRNG), and
	// only those whose protocol line is listed in the corpus file are evaluated
	var only map[string]bool
	if *corpus != "" {
		only = map[string]bool{}
		if b, err := os.ReadFile(*corpus); err == nil {
			for _, l := range strings.Split(string(b), "\n") {
				if l != "" {
					only[l] = true
				}
			}
		}
	}
	// the real side runs in this process: a case that never returns (a deadlock or a spin in the code under
	// verification) would hang the whole check. A watchdog reports it as a finding, with what identifies the
	// case (the cases are regenerated from the seed), and ends the run
	progress := make(chan int, 1024)
	go func() {
		last := -1
		for {
			select {
			case i, ok := <-progress:
				if !ok {
					return
				}
				last = i
			case <-time.After(60 * time.Second):
				os.Stdout = saved
				rep.Mismatches = 1
				rep.Findings = []propFinding{{"real-code-hangs/" + m.name,
					fmt.Sprintf("case #%d of seed %d: the real code did not return within 60 s (deadlock or spin inside the function under comparison)", last+1, *seed),
					fmt.Sprintf("<rlv-diff -model %s -seed %d -n %d : the last case>", m.name, *seed, last+2)}}
				rep.BySig = map[string]int{"real-code-hangs/" + m.name: 1}
				rep.WallS = time.Since(t0).Seconds()
				b, _ := json.MarshalIndent(rep, "", " ")
				if *out != "" {
					os.WriteFile(*out, b, 0o644)
				} else {
					fmt.Println(string(b))
				}
				os.Exit(1)
			}
		}
	}()
	for i := 0; i < *n && !abortGen; i++ {
		line, real, class := m.gen(rng)
		select {
		case progress <- i:
		default:
		}
		if line == "" {
			continue
		}
		if only != nil && !only[line] {
			continue
		}
		lines = append(lines, line)
		reals = append(reals, real)
		rep.Classes[class]++
		if !seen[line] && class != "trivial" {
			seen[line] = true
			rep.Distinct++
		}
	}
	close(progress)
	os.Stdout = saved
	if *dump != "" {
		var sb strings.Builder
		for i := range lines {
			sb.WriteString(lines[i] + "\n")
		}
		os.WriteFile(*dump, []byte(sb.String()), 0o644)
		return
	}
	cmd := exec.Command(*driver)
	cmd.Stdin = strings.NewReader(strings.Join(lines, "\n") + "\n")
	var buf bytes.Buffer
	cmd.Stdout = &buf
	if err := cmd.Run(); err != nil {
		fmt.Fprintln(os.Stderr, "driver:", err)
		os.Exit(2)
	}
	sc := bufio.NewScanner(&buf)
	sc.Buffer(make([]byte, 1<<22), 1<<22)
	i := 0
	for sc.Scan() {
		if i >= len(reals) {
			break
		}
		got := sc.Text()
		if m.norm != nil {
			got = m.norm(got)
		}
		if got != reals[i] {
			if m.accept != nil && m.accept(reals[i], got) {
				rep.BeyondLen++
			} else {
				rep.Mismatches++
				if len(rep.First) < 5 {
					rep.First = append(rep.First, mismatch{lines[i], reals[i], got, caseSetup[lines[i]]})
				}
			}
		} else if len(rep.Samples) < 3 && i%(len(reals)/3+1) == 0 {
			rep.Samples = append(rep.Samples, mismatch{lines[i], reals[i], got, caseSetup[lines[i]]})
		}
		i++
	}
	if i != len(reals) {
		rep.Mismatches += len(reals) - i
		rep.First = append(rep.First, mismatch{"<driver answered " + strconv.Itoa(i) + " of " + strconv.Itoa(len(reals)) + " cases>", "", "", ""})
	}
	rep.Evaluations = len(reals)
	if only != nil {
		// findings on cases other than the replayed ones are not this replay's business
		var keep []propFinding
		for _, f := range propFindings {
			if only[f.Case] {
				keep = append(keep, f)
			}
		}
		propFindings = keep
	}
	rep.Findings, rep.BySig = propFindings, propSeen
	rep.WallS = time.Since(t0).Seconds()
	b, _ := json.MarshalIndent(rep, "", " ")
	if *out != "" {
		os.WriteFile(*out, b, 0o644)
	} else {
		fmt.Println(string(b))
	}
	if rep.Mismatches > 0 || len(rep.Findings) > 0 {
		os.Exit(1)
	}
}

// acceptBeyond: the model stopped at a reslice beyond the length (outcome
// "beyond"): whatever the real code did from there on depends on slice
// capacity, which is not modelled. Everything before that point must agree.
func acceptBeyond(real, model string) bool {
	if model == "beyond" {
		return true
	}
	if p, ok := strings.CutSuffix(model, " beyond"); ok {
		return real == p || strings.HasPrefix(real, p+" ")
	}
	return false
}

func names() []string {
	var ns []string
	for n := range models {
		ns = append(ns, n)
	}
	sort.Strings(ns)
	return ns
}
