package main

import (
	"bytes"
	"encoding/json"
	"fmt"
	"math/rand"
	"os"
	"path/filepath"
	"regexp"
	"strings"

	"github.com/reeflective/readline"
)

// hfile: fileHistory.Write and openHist on file images (C10) against Model/HistFile. The JSON codec is
// a parameter of the model: the harness hands it over as data — the record the real encoder produced
// for the block being written, and the decode outcome (encoding/json, as the code calls it) of every
// candidate piece of the file.

var hfLines = []string{"ls -la", "echo \"q\" 'x'", "multi\nline", "tab\there", "é中😀", "ctrl\x01\x1b[31m", "back\\slash", "  padded  ", "{\"json\":1}", "a", "", "  ", "x\r", "}"}

func decodeBlock(piece []byte) (string, bool) {
	var item struct {
		Index    int
		DateTime interface{}
		Block    string
	}
	// same call and same acceptance rule as openHist (the DateTime field is parsed by the real code into a
	// time.Time: an undecodable time makes the real decode fail too, so keep it honest with a second decode)
	var real struct {
		Block    string
		DateTime jsonTime
	}
	if err := json.Unmarshal(piece, &real); err != nil {
		return "", false
	}
	_ = item
	return real.Block, true
}

type jsonTime struct{ ok bool }

func (t *jsonTime) UnmarshalJSON(b []byte) error {
	// time.Time.UnmarshalJSON: null is a no-op, otherwise an RFC 3339 string
	var tt struct{ T interface{} }
	_ = tt
	return (&timeShim{}).UnmarshalJSON(b)
}

func init() {
	var dir string
	junk := []string{"garbage", "{\"block\":\"orphan\"}", "{\"datetime\":\"2026-01-02T03:04:05Z\",\"block\":\"dated\"}", "{\"block\":\"\"}", "{", "{\"block\":\"torn", "\r", "", "{\"block\":\"cr\"}\r", "{\"block\":7}", "{\"BLOCK\":\"upper\"}", "{\"datetime\":\"bad\",\"block\":\"badtime\"}"}
	register(&model{name: "hfile", gen: func(r *rand.Rand) (string, string, string) {
		if dir == "" {
			dir, _ = os.MkdirTemp(os.Getenv("RLV_SCRATCH"), "rlv-hfile-")
		}
		path := filepath.Join(dir, "h")
		os.Remove(path)
		// a file image: real records, junk lines, possibly a torn tail or a missing final newline
		var img []byte
		for k := r.Intn(5); k > 0; k-- {
			if r.Intn(3) == 0 {
				img = append(img, junk[r.Intn(len(junk))]...)
				img = append(img, '\n')
				continue
			}
			tmp := filepath.Join(dir, "t")
			os.Remove(tmp)
			h, _ := readline.NewHistoryFromFile(tmp)
			h.Write(hfLines[r.Intn(len(hfLines))])
			b, _ := os.ReadFile(tmp)
			img = append(img, b...)
		}
		class := "complete"
		switch r.Intn(4) {
		case 0:
			if len(img) > 0 {
				img = img[:r.Intn(len(img))]
				class = "cut"
			}
		case 1:
			img = append(img, junk[r.Intn(len(junk))]...)
			class = "unterminated-tail"
		}
		if r.Intn(2) == 0 {
			// --- openHist ---
			os.WriteFile(path, img, 0o600)
			res := guard(func() string {
				h, _ := readline.NewHistoryFromFile(path)
				var es []string
				for j := 0; j < h.Len(); j++ {
					e, _ := h.GetLine(j)
					es = append(es, natsR([]rune(e)))
				}
				if len(es) == 0 {
					return "-"
				}
				return strings.Join(es, ",")
			})
			// decode table over every candidate piece (with and without a trailing CR)
			var tbl []string
			seen := map[string]bool{}
			for _, p := range bytes.Split(img, []byte{'\n'}) {
				for _, q := range [][]byte{p, bytes.TrimSuffix(p, []byte{'\r'})} {
					if seen[string(q)] || len(q) == 0 {
						continue
					}
					seen[string(q)] = true
					if b, ok := decodeBlock(q); ok {
						tbl = append(tbl, nats(q)+"="+natsR([]rune(b)))
					}
				}
			}
			t := "-"
			if len(tbl) > 0 {
				t = strings.Join(tbl, ";")
			}
			// the model's blocks are byte strings: compare as runes of the decoded text
			return fmt.Sprintf("hopen %s %s", nats(img), t), res, "open/" + class
		}
		// --- Write ---
		line := hfLines[r.Intn(len(hfLines))]
		os.WriteFile(path, img, 0o600)
		var rec []byte
		res := guard(func() string {
			h, _ := readline.NewHistoryFromFile(path)
			h.Write(line)
			after, _ := os.ReadFile(path)
			// the record appended for this block: what Write appends to an empty file, minus its newline
			tmp := filepath.Join(dir, "t")
			os.Remove(tmp)
			h2, _ := readline.NewHistoryFromFile(tmp)
			h2.Write(line)
			rec, _ = os.ReadFile(tmp)
			rec = bytes.TrimSuffix(rec, []byte{'\n'})
			// timestamps differ between the two writes: mask the datetime value of the record appended
			return nats(maskTime(after))
		})
		return fmt.Sprintf("hwritef %s %s %s", nats(maskTime(img)), natsR([]rune(line)), nats(maskTime(rec))), res, "write/" + class
	}, norm: func(m string) string { return m }})
}

// maskTime replaces the value of every complete "datetime" field (the two writes of a case happen at
// different instants, and RFC 3339 nanosecond stamps vary in length) by a fixed token. A stamp cut
// short by a tear has no closing quote and is left as it is.
var stampRx = regexp.MustCompile(`"datetime":"[0-9T:.Z+-]*"`)

func maskTime(b []byte) []byte {
	return stampRx.ReplaceAll(b, []byte(`"datetime":"T"`))
}
