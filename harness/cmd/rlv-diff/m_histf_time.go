package main

import "time"

// timeShim decodes a JSON value the way a time.Time field does.
type timeShim struct{ t time.Time }

func (s *timeShim) UnmarshalJSON(b []byte) error { return s.t.UnmarshalJSON(b) }
