package main

import (
	"fmt"
	"math/rand"
	"os"
	"regexp"
	"strings"
	"time"

	"github.com/reeflective/readline/internal/core"
)

// cpr: one read of the terminal that carries keys and cursor position reports, taken by the REAL key reading
// routine (WaitAvailableKeys -> readInputFiltered -> extractCursorPos) while a REAL query (Keys.GetCursorPos, in
// another goroutine, as the resize watcher and Shell.Printf make it) is pending — against Model/Cpr: the report
// handed to the query is the last one, every other byte stays in the key stack, in order (C05, C20).
type cprReader struct {
	data   []byte
	keys   *core.Keys
	result chan [2]int
	served bool
}

func (c *cprReader) Read(p []byte) (int, error) {
	if c.served {
		select {} // the script has one read: the routine stays parked
	}
	c.served = true
	// the query is made while the main routine is parked in this read
	// (its query on the standard output is awaited: the flag it raises before printing it is then set)
	pr, pw, _ := os.Pipe()
	saved := os.Stdout
	os.Stdout = pw
	seen := make(chan struct{})
	go func() {
		defer pr.Close()
		buf := make([]byte, 64)
		var all []byte
		for {
			n, err := pr.Read(buf)
			all = append(all, buf[:n]...)
			if strings.Contains(string(all), "\x1b[6n") {
				close(seen)
				return
			}
			if err != nil {
				return
			}
		}
	}()
	go func() {
		x, y := c.keys.GetCursorPos()
		c.result <- [2]int{x, y}
	}()
	select {
	case <-seen:
	case <-time.After(2 * time.Second):
	}
	os.Stdout = saved
	pw.Close()
	time.Sleep(2 * time.Millisecond)
	return copy(p, c.data), nil
}
func (c *cprReader) Close() error { return nil }

var cprRx = regexp.MustCompile("\\x1b\\[([0-9]+);([0-9]+)R")

func init() {
	pieces := []string{"a", "b", "xyz", "\x1b[D", "\x1b[1;5C", "é", "\x1b", "[", "7", ";", "R", "\x01"}
	register(&model{name: "cpr", gen: func(r *rand.Rand) (string, string, string) {
		var data []byte
		reports := 0
		for k := 1 + r.Intn(6); k > 0; k-- {
			if r.Intn(3) == 0 {
				data = append(data, []byte(fmt.Sprintf("\x1b[%d;%dR", 1+r.Intn(60), 1+r.Intn(200)))...)
				reports++
			} else {
				data = append(data, pieces[r.Intn(len(pieces))]...)
			}
		}
		if reports == 0 {
			data = append(data, []byte(fmt.Sprintf("\x1b[%d;%dR", 1+r.Intn(60), 1+r.Intn(200)))...)
			reports = 1
		}
		line := "cpr " + nats(data)
		class := "one-report"
		if reports > 1 {
			class = "several-reports"
		}
		res := guard(func() string {
			keys := new(core.Keys)
			rd := &cprReader{data: data, keys: keys, result: make(chan [2]int, 1)}
			core.Stdin = rd
			done := make(chan struct{})
			go func() {
				defer func() { recover() }()
				core.WaitAvailableKeys(keys, nil)
				close(done)
			}()
			var got [2]int
			select {
			case got = <-rd.result:
			case <-time.After(2 * time.Second):
				return "STUCK the query never got its report"
			}
			select {
			case <-done:
			case <-time.After(300 * time.Millisecond):
				// nothing but reports in the read: the routine reads again, and is parked
			}
			var left []byte
			for {
				b, empty := core.PopKey(keys)
				if empty {
					break
				}
				left = append(left, b)
			}
			return fmt.Sprintf("XY:%d,%d %s", got[0], got[1], nats(left))
		})
		// C05/C20, decided on the real code alone: the query gets the last report of the read, and every byte that
		// is not part of a report stays in the key stack, in order
		all := cprRx.FindAllSubmatch(data, -1)
		last := all[len(all)-1]
		var row, col int
		fmt.Sscan(string(last[1]), &row)
		fmt.Sscan(string(last[2]), &col)
		if want := fmt.Sprintf("XY:%d,%d %s", col, row, nats(cprRx.ReplaceAll(data, nil))); res != want {
			reportProp("cursor-report-handoff/"+class, fmt.Sprintf("one read %q while a cursor query is pending: got %q, want %q", string(data), res, want), line)
		}
		return line, res, class
	}, norm: func(m string) string {
		// the model answers "<report bytes> <keys>": the coordinates are the two numbers of the report
		var rep, keys string
		fmt.Sscan(m, &rep, &keys)
		var bs []byte
		for _, f := range splitDots(rep) {
			bs = append(bs, byte(f))
		}
		var row, col int
		fmt.Sscanf(string(bs), "\x1b[%d;%dR", &row, &col)
		return fmt.Sprintf("XY:%d,%d %s", col, row, keys)
	}})
}

func splitDots(s string) []int {
	var out []int
	cur, has := 0, false
	for _, c := range s {
		if c >= '0' && c <= '9' {
			cur = cur*10 + int(c-'0')
			has = true
		} else if has {
			out = append(out, cur)
			cur, has = 0, false
		}
	}
	if has {
		out = append(out, cur)
	}
	return out
}
