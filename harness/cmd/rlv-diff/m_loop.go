package main

import (
	"fmt"
	"math/rand"
	"strings"

	"github.com/reeflective/readline/inputrc"
	"github.com/reeflective/readline/internal/core"
	"github.com/reeflective/readline/internal/keymap"
)

// loop: the key-stack side of the main loop of Readline — flush, WaitAvailableKeys, MatchLocal, run,
// MatchMain, run — on the REAL core.Keys and keymap.Engine, with bind macros fed back as Shell.run feeds
// them and probe commands that only log; against Model/MLoop (C01: the loop the no-spin theorem is about,
// with the bound on nested macro feeds; C03/C18: macros run the commands their keys are bound to).
//
// The statements of the loop itself are transcribed from readline.go here (the harness cannot run
// Shell.Readline without a terminal): the session-level model `loopsess` compares the same model with a
// real Readline call.
func init() {
	alpha := []rune{'a', 'b', 'x', 0x1b, 0x18}
	regs := []string{"X", "Y", "Z", "self-insert", "vi-movement-mode", "emacs-editing-mode"}
	acts := []string{"X", "Y", "Z", "self-insert", "vi-movement-mode", "U", ""}
	genSeq := func(r *rand.Rand, seqs [][]rune) []rune {
		var s []rune
		if len(seqs) > 0 && r.Intn(2) == 0 {
			s = append(s, seqs[r.Intn(len(seqs))]...)
			if r.Intn(3) == 0 && len(s) > 1 {
				s = s[:len(s)-1]
			}
		}
		for k := r.Intn(3); k >= 0 && len(s) < 3; k-- {
			s = append(s, alpha[r.Intn(len(alpha))])
		}
		return s
	}
	// macro text: sequences of the tables (so that macros run commands and other macros, themselves included),
	// in inputrc notation for ESC and C-x
	macroText := func(r *rand.Rand, seqs [][]rune) string {
		var sb strings.Builder
		for k := 1 + r.Intn(3); k > 0; k-- {
			var s []rune
			if len(seqs) > 0 && r.Intn(4) != 0 {
				s = seqs[r.Intn(len(seqs))]
			} else {
				s = []rune{alpha[r.Intn(len(alpha))]}
			}
			for _, c := range s {
				switch c {
				case 0x1b:
					sb.WriteString(`\e`)
				case 0x18:
					sb.WriteString(`\C-x`)
				default:
					sb.WriteRune(c)
				}
			}
		}
		return sb.String()
	}
	genTbl := func(r *rand.Rand, n int, seqs *[][]rune) map[string]inputrc.Bind {
		tbl := map[string]inputrc.Bind{}
		for j := n; j > 0; j-- {
			s := genSeq(r, *seqs)
			*seqs = append(*seqs, s)
			tbl[string(s)] = inputrc.Bind{Action: acts[r.Intn(len(acts))]}
		}
		return tbl
	}
	field := func(tbl map[string]inputrc.Bind) string {
		if len(tbl) == 0 {
			return "-"
		}
		var ents []string
		for _, s := range sortedKeys(tbl) {
			b := tbl[s]
			if b.Macro {
				ents = append(ents, natsR([]rune(s))+":"+natsR([]rune(b.Action))+":1")
				continue
			}
			a := b.Action
			if a == "" {
				a = "_"
			}
			ents = append(ents, natsR([]rune(s))+":"+a+":0")
		}
		return strings.Join(ents, ";")
	}
	register(&model{name: "loop", gen: func(r *rand.Rand) (string, string, string) {
		var seqs [][]rune
		mtbl := genTbl(r, 1+r.Intn(5), &seqs)
		ltbl := map[string]inputrc.Bind{}
		if r.Intn(2) == 0 {
			ltbl = genTbl(r, 1+r.Intn(3), &seqs)
		}
		// macros, bound in either table
		nm := r.Intn(3)
		for j := 0; j < nm; j++ {
			s := genSeq(r, seqs)
			seqs = append(seqs, s)
			b := inputrc.Bind{Action: macroText(r, seqs), Macro: true}
			if len(ltbl) > 0 && r.Intn(3) == 0 {
				ltbl[string(s)] = b
			} else {
				mtbl[string(s)] = b
			}
		}
		emacs := r.Intn(2) == 0
		nonInc := r.Intn(6) == 0
		isearch := len(ltbl) > 0 && r.Intn(3) == 0
		chunks := genKeys(r, seqs)
		b := func(x bool) string {
			if x {
				return "1"
			}
			return "0"
		}
		line := fmt.Sprintf("loop %s%s%s %s %s %s %s", b(emacs), b(nonInc), b(isearch), strings.Join(regs, ","), field(mtbl), field(ltbl), chunksField(chunks))
		class := "plain"
		if nm > 0 {
			class = "macros"
		}
		if len(ltbl) > 0 {
			class += "+local"
		}
		if nonInc {
			class += "+noninc"
		}
		res := guard(func() string {
			keys := new(core.Keys)
			eng, cfg := keymap.NewEngine(keys, new(core.Iterations))
			var evs []string
			cmds := map[string]func(){}
			for _, a := range regs {
				a := a
				cmds[a] = func() { evs = append(evs, a+"/"+natsR(keys.Caller())) }
			}
			eng.Register(cmds)
			mode := "emacs"
			if !emacs {
				mode = "vi-insert"
			}
			cfg.Set("convert-meta", false)
			eng.SetMain(mode)
			cfg.Binds[mode] = mtbl
			if len(ltbl) > 0 {
				lk := "menu-select"
				if isearch {
					lk = "isearch"
				}
				cfg.Binds[lk] = ltbl
				eng.SetLocal(lk)
			}
			if nonInc {
				eng.NonIncrementalSearchStart()
			}
			src := &eofReader{c: chunks}
			core.Stdin = src
			// Shell.run, as far as the key stack is concerned
			run := func(main bool, bind inputrc.Bind, command func()) {
				if !main && bind.Action == "" {
					return
				}
				if bind.Macro {
					keys.Feed(false, []rune(inputrc.Unescape(bind.Action))...)
				}
				if command != nil {
					command()
				}
			}
			end := "FUEL"
			for it := 0; it < 400; it++ {
				core.FlushUsed(keys)
				core.WaitAvailableKeys(keys, cfg)
				if src.eof {
					left := 0
					for {
						if _, empty := core.PopKey(keys); empty {
							break
						}
						left++
					}
					end = fmt.Sprintf("END/%d", left)
					break
				}
				bind, command, prefixed := keymap.MatchLocal(eng)
				if prefixed {
					continue
				}
				run(false, bind, command)
				if command != nil {
					continue
				}
				bind, command, prefixed = keymap.MatchMain(eng)
				if prefixed {
					continue
				}
				run(true, bind, command)
			}
			return strings.Join(append(evs, end), " ")
		})
		// a self-feeding macro stopped by the bound on nested feeds shows as a long log (or spent fuel)
		if n := strings.Count(res, " "); n >= 30 || strings.HasSuffix(res, "FUEL") {
			class += "+deep"
		}
		return line, res, class
	}})
}

func sortedKeys(tbl map[string]inputrc.Bind) []string {
	ks := make([]string, 0, len(tbl))
	for s := range tbl {
		ks = append(ks, s)
	}
	for i := 1; i < len(ks); i++ {
		for j := i; j > 0 && ks[j] < ks[j-1]; j-- {
			ks[j], ks[j-1] = ks[j-1], ks[j]
		}
	}
	return ks
}
