package main

import (
	"errors"
	"fmt"
	"math/rand"
	"os"
	"path/filepath"
	"sort"
	"strings"

	"github.com/reeflective/readline/inputrc"
	"github.com/reeflective/readline/internal/core"
	"github.com/reeflective/readline/internal/history"
	"github.com/reeflective/readline/internal/ui"
)

// hwrite: Sources.Accept(hold, infer, err) over 1-3 bound sources (in-memory and file-backed) with a
// history-size setting, against Model/HistWrite (C08).

var hwLines = []string{"ls", "ls ", " ls", "ls  -l", "", " ", "\t", "echo a", "echo a\n", "é", "中文", "x", "ls ", "a b", "multi\nline"}

// entF encodes one entry; the empty entry is "e" ("-" is the empty list of entries)
func entF(e string) string {
	if e == "" {
		return "e"
	}
	return natsR([]rune(e))
}

func init() {
	var dir string
	register(&model{name: "hwrite", gen: func(r *rand.Rand) (string, string, string) {
		if dir == "" {
			dir, _ = os.MkdirTemp(os.Getenv("RLV_SCRATCH"), "rlv-hwrite-")
		}
		nsrc := 1 + r.Intn(3)
		type srcSpec struct {
			name    string
			file    bool
			entries []string
		}
		var specs []srcSpec
		for i := 0; i < nsrc; i++ {
			sp := srcSpec{name: fmt.Sprintf("s%d", i), file: r.Intn(3) == 0}
			for k := r.Intn(4); k > 0; k-- {
				e := hwLines[r.Intn(len(hwLines))]
				if sp.file && strings.TrimSpace(e) == "" {
					continue
				}
				sp.entries = append(sp.entries, e)
			}
			specs = append(specs, sp)
		}
		line := hwLines[r.Intn(len(hwLines))]
		if r.Intn(3) == 0 && len(specs[0].entries) > 0 { // often the last entry of some source, up to blanks
			line = []string{"", " ", "\t "}[r.Intn(3)] + specs[0].entries[len(specs[0].entries)-1] + []string{"", " ", "\n"}[r.Intn(3)]
		}
		infer, withErr := r.Intn(5) == 0, r.Intn(5) == 0
		sizeInt, sizeStr := 0, false
		class := "size-unset"
		switch r.Intn(6) {
		case 0:
			sizeInt, class = 1+r.Intn(4), "size-small"
		case 1:
			sizeInt, class = 1000, "size-large"
		case 2:
			sizeStr, class = true, "size-string"
		case 3:
			sizeInt, class = -3, "size-negative"
		}
		if infer {
			class += "/infer"
		}
		if withErr {
			class += "/error"
		}
		b := func(x bool) string {
			if x {
				return "1"
			}
			return "0"
		}
		var pline string
		res := guard(func() string {
			cfg := inputrc.NewDefaultConfig()
			if sizeStr {
				cfg.Vars["history-size"] = "abc"
			} else {
				cfg.Vars["history-size"] = sizeInt
			}
			l := core.Line([]rune(line))
			cur := core.NewCursor(&l)
			srcs := history.NewSources(&l, cur, new(ui.Hint), cfg)
			bound := map[string]history.Source{}
			for i, sp := range specs {
				var h history.Source
				if sp.file {
					path := filepath.Join(dir, fmt.Sprintf("f%d", i))
					os.Remove(path)
					h, _ = history.NewSourceFromFile(path)
				} else {
					h = history.NewInMemoryHistory()
				}
				for _, e := range sp.entries {
					h.Write(e)
				}
				srcs.Add(sp.name, h)
				bound[sp.name] = h
			}
			// the model starts from what the sources hold after having been filled (a file source
			// trims, skips blank lines and keeps one of several equal consecutive entries in its view)
			var fields []string
			for _, sp := range specs {
				h := bound[sp.name]
				var es []string
				for j := 0; j < h.Len(); j++ {
					e, _ := h.GetLine(j)
					es = append(es, entF(e))
				}
				ent := "-"
				if len(es) > 0 {
					ent = strings.Join(es, ",")
				}
				fields = append(fields, fmt.Sprintf("%s:%s:%s", natsR([]rune(sp.name)), b(sp.file), ent))
			}
			pline = fmt.Sprintf("hwrite %s%s %d %s %s %s", b(infer), b(withErr), sizeInt, b(sizeStr), natsR([]rune(line)), strings.Join(fields, ";"))
			var err error
			if withErr {
				err = errors.New("interrupt")
			}
			srcs.Accept(false, infer, err)
			var out []string
			var names []string
			for n := range bound {
				names = append(names, n)
			}
			sort.Strings(names)
			for _, n := range names {
				h := bound[n]
				var es []string
				for j := 0; j < h.Len(); j++ {
					e, _ := h.GetLine(j)
					es = append(es, entF(e))
				}
				ent := "-"
				if len(es) > 0 {
					ent = strings.Join(es, ",")
				}
				out = append(out, natsR([]rune(n))+":"+ent)
			}
			return "ok " + strings.Join(out, ";")
		})
		return pline, res, class
	}})
}

// hsearch: Sources.InsertMatch with an explicit line and cursor to match against, from the main line or
// from a history position reached by a walk (C09), against Hist.insertMatch.
func init() {
	pool := []string{"one", "two", "one two", "three", "one", "tw", "o", "abc", "a.c", "é中", "中é x", "x(y"}
	texts := []string{"", "o", "one", "t", "tw", "zz", "ne", "a.c", ".", "é", "中", "(", "one two three"}
	register(&model{name: "hsearch", gen: func(r *rand.Rand) (string, string, string) {
		var src []string
		for k := r.Intn(6); k > 0; k-- {
			src = append(src, pool[r.Intn(len(pool))])
		}
		w0 := 0
		if r.Intn(2) == 0 {
			w0 = 1 + r.Intn(4)
		}
		ml := []rune(texts[r.Intn(len(texts))])
		mp := r.Intn(len(ml) + 1)
		usePos, fwd, regex := r.Intn(2) == 0, r.Intn(2) == 0, r.Intn(2) == 0
		b := func(x bool) string {
			if x {
				return "1"
			}
			return "0"
		}
		var es []string
		for _, e := range src {
			es = append(es, natsR([]rune(e)))
		}
		ent := "-"
		if len(es) > 0 {
			ent = strings.Join(es, ",")
		}
		pline := fmt.Sprintf("hsearch %s %d %s %d %s%s%s", ent, w0, natsR(ml), mp, b(usePos), b(fwd), b(regex))
		res := guard(func() string {
			line := new(core.Line)
			cur := core.NewCursor(line)
			h := history.NewSources(line, cur, new(ui.Hint), inputrc.NewDefaultConfig())
			for _, s := range src {
				h.Current().Write(s)
			}
			history.Init(h)
			h.Save()
			if w0 != 0 {
				h.Save()
				h.Walk(w0)
			}
			m := core.Line(append([]rune{}, ml...))
			mc := core.NewCursor(&m)
			mc.Set(mp)
			h.InsertMatch(&m, mc, usePos, fwd, regex)
			return fmt.Sprintf("ok %s %d", natsR([]rune(*line)), cur.Pos())
		})
		class := fmt.Sprintf("fwd=%v/regex=%v/from-history=%v", fwd, regex, w0 != 0)
		return pline, res, class
	}})
}
