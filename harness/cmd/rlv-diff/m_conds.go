package main

import (
	"fmt"
	"math/rand"
	"strconv"
	"strings"

	"github.com/reeflective/readline/inputrc"
)

// setRec records the directives the parser lets through.
type setRec struct {
	recH
	ids []string
}

func (h *setRec) Set(n string, v interface{}) error {
	h.ids = append(h.ids, fmt.Sprint(v))
	return nil
}

func init() {
	// conds: which directives of a file take effect, for any sequence of $if/$else/$endif
	// (balanced or not) around them (C13), through the real Parser
	trueTests := []string{"mode=emacs", "term=xterm", "Bash", "bash"}
	falseTests := []string{"mode=vi", "term=rxvt", "other", "mode=", "term=xterm-256color"}
	register(&model{name: "conds", gen: func(r *rand.Rand) (string, string, string) {
		var dirs, text []string
		depth, maxDepth, unbalanced := 0, 0, false
		id := 10
		for k := 1 + r.Intn(14); k > 0; k-- {
			switch x := r.Intn(10); {
			case x < 3:
				if r.Intn(2) == 0 {
					dirs = append(dirs, "i1")
					text = append(text, "$if "+trueTests[r.Intn(len(trueTests))])
				} else {
					dirs = append(dirs, "i0")
					text = append(text, "$if "+falseTests[r.Intn(len(falseTests))])
				}
				depth++
				if depth > maxDepth {
					maxDepth = depth
				}
			case x < 4:
				dirs = append(dirs, "e")
				text = append(text, "$else")
				if depth == 0 {
					unbalanced = true
				}
			case x < 6:
				dirs = append(dirs, "n")
				text = append(text, "$endif")
				if depth == 0 {
					unbalanced = true
				} else {
					depth--
				}
			default:
				dirs = append(dirs, "a"+strconv.Itoa(id))
				text = append(text, fmt.Sprintf("set completion-query-items %d", id))
				id++
			}
		}
		class := fmt.Sprintf("depth=%d", maxDepth)
		if unbalanced {
			class += "/unbalanced"
		} else if depth > 0 {
			class += "/unterminated"
		}
		line := "conds " + strings.Join(dirs, ",")
		res := guard(func() string {
			h := &setRec{}
			p := inputrc.New(inputrc.WithMode("emacs"), inputrc.WithTerm("xterm"), inputrc.WithApp("bash"))
			p.Parse(strings.NewReader(strings.Join(text, "\n")+"\n"), h)
			if len(h.ids) == 0 {
				return "-"
			}
			return strings.Join(h.ids, ".")
		})
		return line, res, class
	}})
}
