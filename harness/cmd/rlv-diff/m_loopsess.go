package main

import (
	"bufio"
	"encoding/hex"
	"encoding/json"
	"fmt"
	"io"
	"math/rand"
	"os"
	"os/exec"
	"path/filepath"
	"sort"
	"strings"
	"time"

	"github.com/reeflective/readline"
	"github.com/reeflective/readline/inputrc"
	"github.com/reeflective/readline/verifx/internal/sess"
)

// A session client: specs are run by a persistent rlv-sess child (a real Shell.Readline on a pty, with the
// gated reader), so that component models can be compared with whole Readline calls.
type sessClient struct {
	cmd *exec.Cmd
	in  io.WriteCloser
	out *bufio.Reader
}

var theSess *sessClient

func sessPath() string {
	if p := os.Getenv("RLV_SESS"); p != "" {
		return p
	}
	return filepath.Join(filepath.Dir(os.Args[0]), "rlv-sess")
}

func (c *sessClient) stop() {
	if c.cmd != nil && c.cmd.Process != nil {
		c.in.Close()
		c.cmd.Process.Kill()
		c.cmd.Wait()
	}
}

func startSess() (*sessClient, error) {
	cmd := exec.Command(sessPath())
	cmd.Env = os.Environ()
	in, err := cmd.StdinPipe()
	if err != nil {
		return nil, err
	}
	out, err := cmd.StdoutPipe()
	if err != nil {
		return nil, err
	}
	if err := cmd.Start(); err != nil {
		return nil, err
	}
	return &sessClient{cmd: cmd, in: in, out: bufio.NewReaderSize(out, 1<<22)}, nil
}

// sessRun runs one spec; a session that does not answer within 10 s is killed (Hang).
var sessHangs int

func sessRun(sp sess.Spec) sess.Trace {
	if theSess == nil {
		c, err := startSess()
		if err != nil {
			return sess.Trace{ID: sp.ID, Error: err.Error()}
		}
		theSess = c
	}
	b, _ := json.Marshal(sp)
	theSess.in.Write(append(b, '\n'))
	type res struct {
		line []byte
		err  error
	}
	ch := make(chan res, 1)
	c := theSess
	go func() {
		l, err := c.out.ReadBytes('\n')
		ch <- res{l, err}
	}()
	select {
	case r := <-ch:
		if r.err != nil {
			theSess.stop()
			theSess = nil
			return sess.Trace{ID: sp.ID, Error: "child died: " + r.err.Error()}
		}
		var tr sess.Trace
		if err := json.Unmarshal(r.line, &tr); err != nil {
			return sess.Trace{ID: sp.ID, Error: "bad trace: " + err.Error()}
		}
		if tr.Hang {
			sessHangs++
			if sessHangs >= 6 {
				abortGen = true
			}
		}
		return tr
	case <-time.After(10 * time.Second):
		theSess.stop()
		theSess = nil
		// a tree on which session after session hangs: a handful of them is enough to report, the rest of the
		// budget would only burn the watchdog
		sessHangs++
		if sessHangs >= 6 {
			abortGen = true
		}
		return sess.Trace{ID: sp.ID, Hang: true}
	}
}

// the default bind tables and command names of a real Shell, read once
var defaultBinds map[string]map[string]inputrc.Bind
var defaultCommands []string

func loadDefaults() {
	if defaultBinds != nil {
		return
	}
	rl := readline.NewShell()
	defaultBinds = map[string]map[string]inputrc.Bind{}
	for km, tbl := range rl.Config.Binds {
		cp := map[string]inputrc.Bind{}
		for s, b := range tbl {
			cp[s] = b
		}
		defaultBinds[km] = cp
	}
	for n := range rl.Keymap.Commands() {
		defaultCommands = append(defaultCommands, n)
	}
	sort.Strings(defaultCommands)
}

// loopsess: the model of the main loop (Model/MLoop) against a REAL Shell.Readline call: user sequences
// bound to probe commands and to macros made of those sequences (themselves included), typed in random
// chunkings, then Return. Compared: the probe commands run, in order, with the keys that called them, and
// the line returned (the letters typed or fed that are bound to nothing else are inserted).
func init() {
	leaders := []string{"\x18\x19", "\x18\x1a"}
	notation := func(s string) string {
		var sb strings.Builder
		for _, c := range s {
			switch {
			case c == 0x1b:
				sb.WriteString(`\e`)
			case c < 0x20:
				sb.WriteString(`\C-` + string(rune(c+0x60)))
			default:
				sb.WriteRune(c)
			}
		}
		return sb.String()
	}
	// when a command of the default keymaps other than self-insert and accept-line has run (the model says so:
	// "line~:"; type-ahead and fed keys can combine into C-x C-x, C-x Rubout, ...), the returned line is not
	// compared: such a command may move the cursor or edit, which the model of the loop does not follow. The
	// probe commands, their order and their keys still are.
	sameChars := func(real, model string) bool {
		i, j := strings.LastIndex(real, "line:"), strings.LastIndex(model, "line~:")
		return i >= 0 && j >= 0 && real[:i] == model[:j]
	}
	register(&model{name: "loopsess", accept: sameChars, gen: func(r *rand.Rand) (string, string, string) {
		loadDefaults()
		mode, km := "emacs", "emacs"
		if r.Intn(3) == 0 {
			mode, km = "vi", "vi-insert"
		}
		nb := 2 + r.Intn(4)
		var seqs []string
		seen := map[string]bool{}
		for len(seqs) < nb {
			s := leaders[r.Intn(len(leaders))]
			for k := 1 + r.Intn(2); k > 0; k-- {
				s += string(rune('a' + r.Intn(3)))
			}
			if !seen[s] {
				seen[s] = true
				seqs = append(seqs, s)
			}
		}
		tbl := map[string]inputrc.Bind{}
		for s, b := range defaultBinds[km] {
			tbl[s] = b
		}
		sp := sess.Spec{Prompt: "> ", Mode: mode, Runs: 1}
		nprobe := 0
		macros := 0
		piece := func() string {
			if r.Intn(3) == 0 {
				return string(rune('a' + r.Intn(3)))
			}
			return seqs[r.Intn(len(seqs))]
		}
		for _, s := range seqs {
			if r.Intn(3) == 0 {
				text := ""
				for k := 1 + r.Intn(3); k > 0; k-- {
					text += notation(piece())
				}
				sp.Binds = append(sp.Binds, sess.Bind{Seq: notation(s), Cmd: text, Macro: true})
				tbl[s] = inputrc.Bind{Action: text, Macro: true}
				macros++
			} else {
				name := fmt.Sprintf("verif-probe-%d", nprobe)
				nprobe++
				sp.Binds = append(sp.Binds, sess.Bind{Seq: notation(s), Cmd: name})
				tbl[s] = inputrc.Bind{Action: name}
			}
		}
		sp.Probes = nprobe
		// a third of the sessions also type characters outside Latin-1 (2, 3 and 4 bytes; U+F001 starts with the
		// byte that starts the U+FFFD bind of the default keymaps) under the UTF-8 meta settings; the reads are
		// cut inside them like anywhere else
		uni := r.Intn(3) == 0
		if uni {
			sp.Inputrc = "set convert-meta off\nset input-meta on\nset output-meta on\n"
		}
		uniLetters := []string{"\u0142", "\u4e2d", "\uf001", "\U0001f600", "\uffe6"}
		var stream string
		for k := 1 + r.Intn(6); k > 0; k-- {
			p := piece()
			if uni && r.Intn(2) == 0 {
				p = uniLetters[r.Intn(len(uniLetters))]
			}
			if r.Intn(6) == 0 && len(p) > 2 { // an incomplete sequence
				p = p[:len(p)-1]
			}
			stream += p
		}
		var chunks [][]byte
		for rest := []byte(stream); len(rest) > 0; {
			k := 1 + r.Intn(len(rest))
			if r.Intn(3) == 0 {
				k = 1
			}
			chunks = append(chunks, append([]byte{}, rest[:k]...))
			rest = rest[k:]
		}
		chunks = append(chunks, []byte{'\r'})
		for _, c := range chunks {
			sp.Chunks = append(sp.Chunks, hex.EncodeToString(c))
		}
		sp.ID = fmt.Sprintf("loopsess-%d", r.Int63())
		regs := append([]string{}, defaultCommands...)
		for i := 0; i < nprobe; i++ {
			regs = append(regs, fmt.Sprintf("verif-probe-%d", i))
		}
		var ents []string
		for _, s := range sortedKeys(tbl) {
			b := tbl[s]
			if b.Macro {
				ents = append(ents, natsR([]rune(s))+":"+natsR([]rune(b.Action))+":1")
				continue
			}
			a := b.Action
			if a == "" {
				a = "_"
			}
			ents = append(ents, natsR([]rune(s))+":"+a+":0")
		}
		em := "1"
		if mode == "vi" {
			em = "0"
		}
		if uni {
			em += "m"
		}
		line := fmt.Sprintf("loopsess %s %s %s %s", em, strings.Join(regs, ","), strings.Join(ents, ";"), chunksField(chunks))
		class := mode
		if macros > 0 {
			class += "+macros"
		}
		if uni {
			class += "+unicode"
		}
		tr := sessRun(sp)
		res := "?"
		switch {
		case tr.Hang:
			res = "HANG"
		case tr.Error != "":
			res = "ERR " + tr.Error
		case len(tr.Results) == 0:
			res = "NORESULT"
		case tr.Results[0].Panic != "":
			res = "PANIC " + tr.Results[0].Panic
		default:
			var evs []string
			for _, iv := range tr.Invoked {
				evs = append(evs, iv)
			}
			ret := "blocked"
			if tr.Results[0].Err != "end-of-script" {
				ret = "line:" + hex.EncodeToString([]byte(tr.Results[0].Line))
			}
			res = strings.Join(append(evs, ret), " ")
		}
		if strings.Count(res, " ") >= 20 {
			class += "+deep"
		}
		return line, res, class
	}})
}
