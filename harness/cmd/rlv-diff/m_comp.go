package main

import (
	"fmt"
	"math/rand"
	"strings"

	"github.com/reeflective/readline"
	"github.com/reeflective/readline/internal/completion"
	"github.com/reeflective/readline/internal/core"
	"github.com/reeflective/readline/internal/keymap"
	"github.com/reeflective/readline/internal/ui"
)

func newCompEngine(l []rune, cp int) (*completion.Engine, *core.Keys, *core.Line, *core.Cursor) {
	return newCompEngineIC(l, cp, false)
}

func newCompEngineIC(l []rune, cp int, ignoreCase bool) (*completion.Engine, *core.Keys, *core.Line, *core.Cursor) {
	keys := new(core.Keys)
	line := core.Line(append([]rune{}, l...))
	cur := core.NewCursor(&line)
	cur.Set(cp)
	sel := core.NewSelection(&line, cur)
	km, cfg := keymap.NewEngine(keys, new(core.Iterations))
	if ignoreCase {
		cfg.Set("completion-ignore-case", true)
	}
	eng := completion.NewEngine(new(ui.Hint), km, cfg)
	completion.Init(eng, keys, &line, cur, sel, nil)
	km.SetLocal(keymap.MenuSelect)
	return eng, keys, &line, cur
}

func init() {
	// menu: multi-group selector cycling, forward and backward (C15)
	register(&model{name: "menu", gen: func(rng *rand.Rand) (string, string, string) {
		ng := 1 + rng.Intn(3)
		var cands []completion.Candidate
		var gdesc []string
		id := 0
		idOf := map[string]int{}
		total := 0
		for g := 0; g < ng; g++ {
			cnt := 1 + rng.Intn(14)
			L := 6 + rng.Intn(30)
			if rng.Intn(6) == 0 {
				L = 70 + rng.Intn(20) // wider than the terminal
			}
			var ids []string
			for k := 0; k < cnt; k++ {
				v := fmt.Sprintf("g%dc%02d", g, k)
				v += strings.Repeat("x", L-len(v))
				idOf[v] = id
				ids = append(ids, fmt.Sprint(id))
				id++
				cands = append(cands, completion.Candidate{Value: v, Display: v, Tag: fmt.Sprintf("tag%d", g)})
			}
			pair := L + 2
			if pair > 80 {
				pair = 80
			}
			gdesc = append(gdesc, fmt.Sprintf("%d:%s", 80/pair, strings.Join(ids, ".")))
			total += cnt
		}
		if total < 2 {
			return "", "", ""
		}
		var steps []string
		for k := 2*total + 3; k > 0; k-- {
			if rng.Intn(4) == 0 {
				steps = append(steps, "b")
			} else {
				steps = append(steps, "f")
			}
		}
		class := fmt.Sprintf("groups=%d mixed", ng)
		if rng.Intn(3) == 0 {
			for k := range steps {
				steps[k] = "b"
			}
			class = fmt.Sprintf("groups=%d backward", ng)
		}
		line := fmt.Sprintf("menu %s %s", strings.Join(gdesc, ";"), strings.Join(steps, ","))
		var evs []string
		res := func() (out string) {
			defer func() {
				if r := recover(); r != nil {
					evs = append(evs, "panic")
					out = strings.Join(evs, " ")
				}
			}()
			eng, keys, _, _ := newCompEngine(nil, 0)
			eng.GenerateWith(func() completion.Values { return completion.AddRaw(append([]completion.Candidate{}, cands...)) })
			core.MatchedKeys(keys, []byte{9})
			for _, st := range steps {
				if st == "f" {
					eng.Select(1, 0)
				} else {
					eng.Select(-1, 0)
				}
				l, _ := eng.Line()
				if v, ok := idOf[string(*l)]; ok {
					evs = append(evs, fmt.Sprint(v))
				} else {
					evs = append(evs, "none")
				}
			}
			return strings.Join(evs, " ")
		}()
		return line, res, class
	}})

	// comp: prefix computation and candidate insertion (C14)
	compAlpha := []rune{'a', 'b', ' ', ' ', '"', '\\', 0xe9, 0x4e2d, '-', '\t'}
	register(&model{name: "comp", gen: func(rng *rand.Rand) (string, string, string) {
		l := randRunes(rng, compAlpha, 8)
		cp := rng.Intn(len(l) + 1)
		probe := core.Line(append([]rune{}, l...))
		c := cp - 1
		if c < 0 {
			c = 0
		}
		var pfx string
		func() {
			defer func() { recover() }()
			if cp == 0 {
				return // no word before the cursor at the beginning of the line
			}
			b, _ := probe.SelectBlankWord(c)
			if b > c {
				b, c = c, b
			}
			if c < probe.Len() {
				c++
			}
			pfx = strings.TrimSpace(string(probe[b:c]))
		}()
		v1, v2 := pfx+"x1", pfx+"x2"
		line := fmt.Sprintf("comp %s %d %s", natsR(l), cp, natsR([]rune(v1)))
		class := "ascii-prefix"
		for _, r := range pfx {
			if r > 127 {
				class = "multibyte-prefix"
			}
		}
		if pfx == "" {
			class = "empty-prefix"
		}
		res := guard(func() string {
			eng, keys, _, _ := newCompEngine(l, cp)
			eng.GenerateWith(func() completion.Values {
				return completion.AddRaw([]completion.Candidate{{Value: v1, Display: v1}, {Value: v2, Display: v2}})
			})
			core.MatchedKeys(keys, []byte{9})
			eng.Select(1, 0)
			cl, cc := eng.Line()
			return fmt.Sprintf("ok %s %s %d", natsR([]rune(pfx)), natsR([]rune(*cl)), cc.Pos())
		})
		return line, res, class
	}})


	// compseq: the real and the virtual line of the completion engine under sequences of operations (C14):
	// generate, cycle forward/backward, drop the candidate (Cancel(true)), keep it (Cancel(false) + ClearMenu,
	// what UpdateInserted does), type a character, unique candidate accepted at once
	register(&model{name: "compseq", gen: func(rng *rand.Rand) (string, string, string) {
		alpha := compAlpha
		ic := rng.Intn(3) == 0
		if ic { // case-insensitive matching: K (U+212A, three bytes) is matched by k (one byte)
			alpha = append(append([]rune{}, compAlpha...), 0x212A, 'A', 0x212A)
		}
		l := randRunes(rng, alpha, 8)
		cp := rng.Intn(len(l) + 1)
		class := "cycle"
		var ops, outs []string
		res := guard(func() string {
			eng, keys, line, cur := newCompEngineIC(l, cp, ic)
			core.MatchedKeys(keys, []byte{9})
			snap := func() {
				cl, cc := eng.Line()
				outs = append(outs, fmt.Sprintf("%s@%d/%s@%d", natsR([]rune(*cl)), cc.Pos(), natsR([]rune(*line)), cur.Pos()))
			}
			prefix := func() string {
				probe := core.Line(append([]rune{}, (*line)...))
				c := cur.Pos() - 1
				if cur.Pos() == 0 {
					return ""
				}
				if c < 0 {
					c = 0
				}
				b, _ := probe.SelectBlankWord(c)
				if b > c {
					b, c = c, b
				}
				if c < probe.Len() {
					c++
				}
				return strings.TrimSpace(string(probe[b:c]))
			}
			pad := strings.Repeat("y", 44)
			nseg := 1 + rng.Intn(3)
			for sg := 0; sg < nseg; sg++ {
				pfx := prefix()
				if ic {
					pfx = strings.ToLower(pfx)
				}
				eng.ClearMenu(true)
				if rng.Intn(6) == 0 { // a unique candidate is accepted into the real line at once
					class = "unique"
					v := pfx + []string{"u", "\u00e9", "uu" + pad}[rng.Intn(3)]
					ops = append(ops, "g")
					snap()
					eng.GenerateWith(func() completion.Values { return completion.AddRaw([]completion.Candidate{{Value: v, Display: v}}) })
					ops = append(ops, "u:"+natsR([]rune(v)))
					snap()
				} else {
					k := 2 + rng.Intn(3)
					var vals []string
					for i := 0; i < k; i++ {
						sfx := fmt.Sprintf("x%d", i)
						if rng.Intn(4) == 0 {
							sfx += "\u4e2d\u00e9"
						}
						vals = append(vals, pfx+sfx+pad)
					}
					eng.GenerateWith(func() completion.Values {
						var cs []completion.Candidate
						for _, v := range vals {
							cs = append(cs, completion.Candidate{Value: v, Display: v})
						}
						return completion.AddRaw(cs)
					})
					ops = append(ops, "g")
					snap()
					idx := -1
					for m := rng.Intn(6); m > 0; m-- {
						if rng.Intn(4) == 0 {
							eng.Select(-1, 0)
							if idx <= 0 {
								idx = k - 1
							} else {
								idx--
							}
						} else {
							eng.Select(1, 0)
							idx = (idx + 1) % k
						}
						ops = append(ops, "s:"+natsR([]rune(vals[idx])))
						snap()
						if rng.Intn(5) == 0 { // the candidate dropped in the middle of the cycle, the selector stays
							eng.Cancel(true, false)
							ops = append(ops, "x")
							snap()
						}
					}
					if rng.Intn(2) == 0 {
						eng.Cancel(true, false)
						ops = append(ops, "x")
					} else {
						eng.Cancel(false, true)
						eng.ClearMenu(true)
						ops = append(ops, "k")
					}
					snap()
				}
				for m := rng.Intn(3); m > 0; m-- {
					c := compAlpha[rng.Intn(len(compAlpha))]
					cur.InsertAt(c)
					ops = append(ops, fmt.Sprintf("e:%d", c))
					snap()
				}
			}
			return strings.Join(outs, " ")
		})
		if res == "panic" {
			res = strings.Join(append(outs, "panic"), " ")
		}
		if len(ops) == 0 {
			return "", "", ""
		}
		if ic {
			class += "/ignore-case"
		}
		return fmt.Sprintf("compseq %s %d %s", natsR(l), cp, strings.Join(ops, ",")), res, class
	}})

	// kill: kill commands followed by yank, through the real Shell (C16)
	killAlpha := []rune{'a', 'b', ' ', ' ', '\n', '-', '.', '"', 0xe9, 0x4e2d}
	killCmds := []string{"kill-line", "backward-kill-line", "backward-kill-word", "kill-whole-line"}
	register(&model{name: "kill", gen: func(rng *rand.Rand) (string, string, string) {
		l := randRunes(rng, killAlpha, 8)
		cp := rng.Intn(len(l) + 1)
		cmd := killCmds[rng.Intn(len(killCmds))]
		line := fmt.Sprintf("kill %s %s %d", cmd, natsR(l), cp)
		res := guard(func() string {
			rl := readline.NewShell()
			rl.Line().Set(append([]rune{}, l...)...)
			rl.Cursor().Set(cp)
			core.MatchedKeys(rl.Keys, []byte{11})
			rl.Keymap.Commands()[cmd]()
			rl.Cursor().CheckAppend()
			l1 := string(*rl.Line())
			c1 := rl.Cursor().Pos()
			k := string(rl.Buffers.GetKill())
			rl.Keymap.Commands()["yank"]()
			l2 := string(*rl.Line())
			return fmt.Sprintf("ok %s %d %s %s", natsR([]rune(l1)), c1, natsR([]rune(k)), natsR([]rune(l2)))
		})
		return line, res, cmd
	}})

	// killr: kill-region on a fixed range or on a pending mark, then yank (C16)
	register(&model{name: "killr", gen: func(rng *rand.Rand) (string, string, string) {
		l := randRunes(rng, killAlpha, 8)
		cp := rng.Intn(len(l) + 1)
		kind := []string{"range", "mark"}[rng.Intn(2)]
		a := rng.Intn(len(l)+3) - 1
		b := rng.Intn(len(l)+3) - 1
		line := fmt.Sprintf("killr %s %d %s %d %d", natsR(l), cp, kind, a, b)
		res := guard(func() string {
			rl := readline.NewShell()
			rl.Line().Set(append([]rune{}, l...)...)
			rl.Cursor().Set(cp)
			if kind == "range" {
				rl.Selection().MarkRange(a, b)
			} else {
				rl.Selection().Mark(a)
			}
			core.MatchedKeys(rl.Keys, []byte{23})
			rl.Keymap.Commands()["kill-region"]()
			rl.Cursor().CheckAppend()
			l1 := string(*rl.Line())
			c1 := rl.Cursor().Pos()
			k := string(rl.Buffers.GetKill())
			rl.Keymap.Commands()["yank"]()
			l2 := string(*rl.Line())
			return fmt.Sprintf("ok %s %d %s %s", natsR([]rune(l1)), c1, natsR([]rune(k)), natsR([]rune(l2)))
		})
		return line, res, kind
	}})

	// move: the Emacs movement commands with a numeric argument (C06)
	moveCmds := []string{"forward-char", "backward-char", "forward-word", "backward-word", "beginning-of-line", "end-of-line"}
	register(&model{name: "move", gen: func(rng *rand.Rand) (string, string, string) {
		l := randRunes(rng, killAlpha, 10)
		cp := rng.Intn(len(l) + 1)
		cmd := moveCmds[rng.Intn(len(moveCmds))]
		n := 1
		if rng.Intn(3) == 0 {
			n = 1 + rng.Intn(5)
		}
		line := fmt.Sprintf("move %s %d %s %d", cmd, n, natsR(l), cp)
		res := guard(func() string {
			rl := readline.NewShell()
			rl.Line().Set(append([]rune{}, l...)...)
			rl.Cursor().Set(cp)
			if n != 1 {
				rl.Iterations.Add(fmt.Sprint(n))
			}
			core.MatchedKeys(rl.Keys, []byte{6})
			rl.Keymap.Commands()[cmd]()
			rl.Cursor().CheckAppend()
			return fmt.Sprintf("ok %s %d", natsR([]rune(string(*rl.Line()))), rl.Cursor().Pos())
		})
		return line, res, cmd
	}})
}
