package main

import (
	"errors"
	"fmt"
	"math/rand"
	"strings"

	"github.com/reeflective/readline/inputrc"
	"github.com/reeflective/readline/internal/core"
	"github.com/reeflective/readline/internal/history"
	"github.com/reeflective/readline/internal/ui"
)

func genEditOps(r *rand.Rand, walks bool) []string {
	var ops []string
	for k := 1 + r.Intn(13); k > 0; k-- {
		c := r.Intn(9)
		switch {
		case c <= 1:
			ops = append(ops, fmt.Sprintf("I:%d:%d:%d", 97+r.Intn(3), r.Intn(2), r.Intn(2)))
		case c == 2:
			ops = append(ops, fmt.Sprintf("B:%d:%d", r.Intn(2), r.Intn(2)))
		case c == 3:
			ops = append(ops, fmt.Sprintf("M:%d", r.Intn(5)-2))
		case c == 4 && !walks:
			ops = append(ops, "R")
		case walks && c >= 5 && r.Intn(4) == 0:
			// history-search-* and the substring searches: they match against the line being typed
			ops = append(ops, fmt.Sprintf("S:%d:%d", r.Intn(2), r.Intn(2)))
		case walks && c >= 5 && r.Intn(5) == 0:
			// the line is accepted as it is (the typed one or a history line) and the next call starts
			ops = append(ops, "A")
		case walks && c >= 5:
			d := []int{1, 1, 1, -1, -1, -1, 2, -2, 5, -5}[r.Intn(10)]
			ops = append(ops, fmt.Sprintf("W:%d", d))
		default:
			ops = append(ops, "U")
		}
	}
	return ops
}

func runEditOps(src []string, ops []string) string {
	var evs []string
	out := guard(func() string {
		line := new(core.Line)
		cur := core.NewCursor(line)
		h := history.NewSources(line, cur, new(ui.Hint), inputrc.NewDefaultConfig())
		for _, s := range src {
			h.Current().Write(s)
		}
		history.Init(h)
		h.Save()
		for _, op := range ops {
			f := strings.Split(op, ":")
			switch f[0] {
			case "I":
				if f[2] == "1" {
					h.Save()
				}
				if f[3] == "1" {
					h.SkipSave()
				}
				var c rune
				fmt.Sscanf(f[1], "%d", &c)
				cur.InsertAt(c)
			case "B":
				if f[1] == "1" {
					h.Save()
				}
				if f[2] == "1" {
					h.SkipSave()
				}
				cur.Dec()
				line.CutRune(cur.Pos())
			case "M":
				h.SkipSave()
				var d int
				fmt.Sscanf(f[1], "%d", &d)
				cur.Move(d)
			case "U":
				h.Undo()
			case "R":
				h.Redo()
			case "W":
				var d int
				fmt.Sscanf(f[1], "%d", &d)
				h.Save()
				h.Walk(d)
			case "S":
				h.Save()
				h.InsertMatch(nil, nil, true, f[1] == "1", f[2] == "1")
			case "A":
				// accept-line, the Save of Shell.run, then Shell.init of the next call
				h.Accept(false, false, nil)
				h.SaveWithCommand(inputrc.Bind{Action: "accept-line"})
				h.LineAccepted()
				line.Set()
				cur.Set(0)
				cur.ResetMark()
				h.Reset()
				history.Init(h)
				h.Save()
			}
			h.SaveWithCommand(inputrc.Bind{Action: f[0]})
			evs = append(evs, fmt.Sprintf("%s/%d/%d", natsR([]rune(*line)), cur.Pos(), h.Pos()))
		}
		return "done"
	})
	if out == "panic" {
		evs = append(evs, "panic")
	}
	return strings.Join(evs, " ")
}

type recH struct{ ev []string }

func (h *recH) ReadFile(string) ([]byte, error) { return nil, errors.New("nofile") }
func (h *recH) Do(k, v string) error {
	h.ev = append(h.ev, fmt.Sprintf("ok construct %s %s", natsR([]rune(k)), natsR([]rune(v))))
	return nil
}
func (h *recH) Set(n string, v interface{}) error {
	h.ev = append(h.ev, fmt.Sprintf("ok set %s %s", natsR([]rune(n)), natsR([]rune(fmt.Sprint(v)))))
	return nil
}
func (h *recH) Get(string) interface{} { return "" }
func (h *recH) Bind(km, seq, act string, macro bool) error {
	tok := "bind"
	if macro {
		tok = "bindMacro"
	}
	h.ev = append(h.ev, fmt.Sprintf("ok %s %s %s", tok, natsR([]rune(seq)), natsR([]rune(act))))
	return nil
}

var scanFrag = []string{"set ", "set", " ", "\t", "\"", "'", "\\", "\\C-", "\\M-", "\\e", "\\x", "1b", "41", "\\1", "01", ":", ": ", "#", "a", "x", "foo", "bar-baz", "C-", "M-", "Control-", "Meta-", "ctrl-", "m-", "q-", "-", "ESC", "Rubout", "spc", "RET", "$foo", "$", "é", "\x01", "\x7f", "ab", "name", "5", "\\\"", "\\\\", "[A", "\\C-\\M-", "\\M-\\C-", "y z"}

// grammar-directed lines (mostly valid) and glued fragments (mostly malformed)
func genScanLine(r *rand.Rand) (string, string) {
	if r.Intn(3) > 0 {
		key := []string{`"\C-x"`, `"\e[A"`, `"ab"`, `'\M-x'`, "Control-a", "Meta-Rubout", "C-M-x", "TAB", "x", `"\x1b[3~"`, `"\033q"`}[r.Intn(11)]
		val := []string{"self-insert", "kill-line", `"macro text"`, `"\C-a\C-k"`, "", "x", `'q'`}[r.Intn(7)]
		switch r.Intn(5) {
		case 0:
			return "set " + []string{"bell-style", "history-size", "x", "comment-begin"}[r.Intn(4)] + " " + []string{"on", "50", "5", "#", "\"a b\"", ""}[r.Intn(6)], "set"
		case 1:
			return "$" + []string{"foo bar", "x", "include"}[r.Intn(2)], "construct"
		default:
			sp := []string{"", " ", "\t"}[r.Intn(3)]
			return sp + key + ":" + sp + val + []string{"", " # c", " "}[r.Intn(3)], "bind"
		}
	}
	var sb strings.Builder
	for k := 1 + r.Intn(7); k > 0; k-- {
		sb.WriteString(scanFrag[r.Intn(len(scanFrag))])
	}
	return sb.String(), "glued"
}

func init() {
	register(&model{name: "undo", accept: acceptBeyond,
		gen: func(r *rand.Rand) (string, string, string) {
			ops := genEditOps(r, false)
			res := runEditOps(nil, ops)
			class := "ok"
			if strings.HasSuffix(res, "panic") {
				class = "panic"
			}
			return "undo " + strings.Join(ops, ","), res, class
		}})
	pool := []string{"a", "ab", "b", "a\nb", "abc"}
	register(&model{name: "walk", gen: func(r *rand.Rand) (string, string, string) {
		var src, srcs []string
		for k := r.Intn(4); k > 0; k-- {
			s := pool[r.Intn(len(pool))]
			src = append(src, s)
			srcs = append(srcs, natsR([]rune(s)))
		}
		sf := strings.Join(srcs, ",")
		if sf == "" {
			sf = "-"
		}
		ops := genEditOps(r, true)
		return "walk " + sf + " " + strings.Join(ops, ","), runEditOps(src, ops), fmt.Sprintf("entries=%d", len(src))
	}})
	register(&model{name: "scan", norm: func(m string) string {
		if m == "skip" || strings.HasPrefix(m, "ok none") {
			return "none"
		}
		return m
	}, gen: func(r *rand.Rand) (string, string, string) {
		line, class := genScanLine(r)
		t := strings.TrimSpace(line)
		if strings.HasPrefix(t, "$if") || strings.HasPrefix(t, "$e") || strings.HasPrefix(t, "$inc") ||
			strings.HasPrefix(t, "set keymap") || strings.HasPrefix(t, "set editing-mode") ||
			strings.HasSuffix(line, "\r") || strings.ContainsAny(line, "\n") {
			return "", "", ""
		}
		res := guard(func() string {
			h := &recH{}
			p := inputrc.New()
			if err := p.Parse(strings.NewReader(line), h); err != nil {
				return "scanerr"
			}
			if errs := p.Errs(); len(errs) > 0 {
				e := errs[0]
				switch {
				case errors.Is(e, inputrc.ErrBindMissingClosingQuote):
					return "err bindQuote"
				case errors.Is(e, inputrc.ErrMissingColon):
					return "err missingColon"
				case errors.Is(e, inputrc.ErrMacroMissingClosingQuote):
					return "err macroQuote"
				case errors.Is(e, inputrc.ErrUnknownModifier):
					return "err unknownModifier"
				}
				return "err other"
			}
			if len(h.ev) == 0 {
				return "none"
			}
			return h.ev[0]
		})
		return "rnext " + natsR([]rune(line)), res, class + ":" + strings.Join(strings.Fields(res + " x")[:1], "")
	}})
}
