package main

import (
	"encoding/hex"
	"fmt"
	"math/rand"
	"strconv"
	"strings"

	"github.com/reeflective/readline/verifx/internal/sess"
)

// tokens of the output alphabet of Model/Disp.lean, from the bytes the library wrote
func tokenize(b []byte) []string {
	var out []string
	var text []rune
	flush := func() {
		if len(text) > 0 {
			out = append(out, "T:"+natsR(text))
			text = nil
		}
	}
	s := string(b)
	for i := 0; i < len(s); {
		switch {
		case s[i] == '\r':
			// CR LF, also when the line discipline of the pty has already turned the LF into CR LF
			j := i
			for j < len(s) && s[j] == '\r' {
				j++
			}
			flush()
			if j < len(s) && s[j] == '\n' {
				out = append(out, "CRLF")
				j++
			} else {
				out = append(out, "CR")
			}
			i = j
		case s[i] == 0x1b && i+1 < len(s) && s[i+1] == ']':
			// OSC ... BEL: the wait marker of the session harness
			j := i + 2
			for j < len(s) && s[j] != 0x07 {
				j++
			}
			flush()
			i = j + 1
		case s[i] == 0x1b && i+1 < len(s) && s[i+1] == '[':
			j := i + 2
			for j < len(s) && (s[j] < 0x40 || s[j] > 0x7e) {
				j++
			}
			if j >= len(s) {
				flush()
				out = append(out, "TRUNC")
				i = len(s)
				break
			}
			params, fin := s[i+2:j], s[j]
			n := 1
			if v, err := strconv.Atoi(params); err == nil {
				n = v
			}
			flush()
			switch {
			case fin == 'D':
				out = append(out, fmt.Sprintf("CUB%d", n))
			case fin == 'C':
				out = append(out, fmt.Sprintf("CUF%d", n))
			case fin == 'A':
				out = append(out, fmt.Sprintf("CUU%d", n))
			case fin == 'B':
				out = append(out, fmt.Sprintf("CUD%d", n))
			case fin == 'K' && (params == "" || params == "0"):
				out = append(out, "EL0")
			case fin == 'K' && params == "1":
				out = append(out, "EL1")
			case fin == 'J' && (params == "" || params == "0"):
				out = append(out, "ED0")
			case fin == 'l' && params == "?25":
				out = append(out, "HIDE")
			case fin == 'h' && params == "?25":
				out = append(out, "SHOW")
			case fin == 'n' && params == "6":
				out = append(out, "DSR")
			case fin == 'm', fin == 'q':
				// colours and cursor styles are not modelled
			default:
				out = append(out, "CSI"+params+string(fin))
			}
			i = j + 1
		default:
			r := []rune(s[i:])[0]
			text = append(text, r)
			i += len(string(r))
		}
	}
	flush()
	return out
}

// acceptsess: display.Engine.AcceptLine in a real Readline call against Disp.acceptLine — the tokens it
// writes for a buffer (embedded newlines included) and a cursor position at a terminal width, and the
// terminal cursor afterwards according to two VT emulators against Term.run (C11).
func init() {
	register(&model{name: "acceptsess", gen: func(r *rand.Rand) (string, string, string) {
		w := []int{80, 40, 20, 33, 12}[r.Intn(5)]
		var l []rune
		shape := "short"
		switch r.Intn(5) {
		case 0:
			for k := r.Intn(8); k > 0; k-- {
				l = append(l, rune('a'+r.Intn(26)))
			}
		case 1:
			shape = "wrapped"
			for k := w + r.Intn(2*w); k > 0; k-- {
				l = append(l, rune('a'+r.Intn(26)))
			}
		case 2:
			shape = "exact-fit"
			for k := (1+r.Intn(2))*w - 2; k > 0; k-- {
				l = append(l, 'x')
			}
		case 3:
			shape = "multiline"
			for k := 1 + r.Intn(3); k > 0; k-- {
				for j := r.Intn(w + 4); j > 0; j-- {
					l = append(l, rune('a'+r.Intn(26)))
				}
				l = append(l, '\n')
			}
			for j := r.Intn(6); j > 0; j-- {
				l = append(l, 'z')
			}
		case 4:
			shape = "empty"
		}
		pos := 0
		if len(l) > 0 {
			pos = r.Intn(len(l) + 1)
		}
		sp := sess.Spec{Prompt: "> ", Mode: "emacs", Runs: 1, Width: w, Height: 60,
			Inject: []sess.Inject{{Seq: `\C-x\C-y0`, Line: string(l), Pos: pos}}}
		sp.Chunks = []string{hex.EncodeToString([]byte("\x18\x190")), hex.EncodeToString([]byte("\r"))}
		sp.ID = fmt.Sprintf("acceptsess-%d", r.Int63())
		line := fmt.Sprintf("accept %d %s %d", w, natsR(l), pos)
		tr := sessRun(sp)
		res := "?"
		switch {
		case tr.Hang:
			res = "HANG"
		case tr.Error != "":
			res = "ERR " + tr.Error
		case len(tr.Results) == 0 || tr.Results[0].Tail == nil:
			res = "NORESULT"
		case tr.Results[0].Panic != "":
			res = "PANIC " + tr.Results[0].Panic
		default:
			t := tr.Results[0].Tail
			b, _ := hex.DecodeString(t.Out)
			toks := tokenize(b)
			xy := "XY:emulators-disagree"
			if t.CurVTE == t.CurXT {
				xy = fmt.Sprintf("XY:%d,%d", t.CurVTE[1], t.CurVTE[0])
			}
			res = strings.Join(append(toks, xy), " ")
		}
		return line, res, shape + "/" + strconv.Itoa(w)
	}})
}
