package main

import (
	"fmt"
	"math/rand"
	"strings"

	"github.com/reeflective/readline/internal/core"
	"github.com/reeflective/readline/internal/macro"
	"github.com/reeflective/readline/internal/ui"
)

// macro: the macro engine driven as the main loop drives it (StartRecord; MatchedKeys + RecordKeys per
// command; StopRecord; RunLastMacro), against Model/Macro: the stored notation and the keys fed (C18).
func init() {
	keysets := [][]byte{{'a'}, {'b', 'c'}, {'"'}, {'\\'}, {'\''}, {1}, {5}, {0x1b, 'f'}, {0x1b, '[', 'C'}, {0x1b, '[', '1', ';', '5', 'D'}, {0x17}, {0x7f}, {0x0d},
		{0x1c}, {0x1c, 'M', '-', 'x'}, {0xc3, 0xa9}, {0xe4, 0xb8, 0xad}, {0x18, 0x18}, {' '}, {'-'}, {0x1b}, {0x00}, {0xf0, 0x9f, 0x98, 0x80}}
	register(&model{name: "macro", gen: func(r *rand.Rand) (string, string, string) {
		start := []byte{0x18, '('}
		var cmds [][]byte
		for k := r.Intn(6); k > 0; k-- {
			cmds = append(cmds, keysets[r.Intn(len(keysets))])
		}
		stop := []byte{}
		var cf []string
		for _, c := range cmds {
			cf = append(cf, natsR([]rune(string(c))))
		}
		cfs := "-"
		if len(cf) > 0 {
			cfs = strings.Join(cf, ";")
		}
		line := fmt.Sprintf("macro %s %s %s", natsR([]rune(string(start))), cfs, natsR([]rune(string(stop))))
		class := "ascii"
		for _, c := range cmds {
			for _, b := range c {
				if b >= 0x80 {
					class = "non-ascii"
				}
			}
		}
		if len(cmds) == 0 {
			class = "trivial"
		}
		res := guard(func() string {
			keys := new(core.Keys)
			eng := macro.NewEngine(keys, new(ui.Hint))
			// the start command: its keys matched, the command runs, the loop records at its next iteration
			core.MatchedKeys(keys, start)
			eng.StartRecord(0)
			macro.RecordKeys(eng)
			core.FlushUsed(keys)
			for _, c := range cmds {
				core.MatchedKeys(keys, c)
				macro.RecordKeys(eng)
				core.FlushUsed(keys)
			}
			eng.StopRecord([]rune(string(stop))...)
			// the notation stored (read back through the engine's own print path is not exported): replay and
			// read what was fed, byte by byte, as the dispatcher does
			eng.RunLastMacro()
			var fed []byte
			for {
				b, empty := core.PopKey(keys)
				if empty {
					break
				}
				fed = append(fed, b)
			}
			return "fed " + nats(fed)
		})
		return line, res, class
	}, norm: func(m string) string {
		// the model answers "ok <stored> <fed>": the stored notation is not observable from outside the engine
		f := strings.Fields(m)
		if len(f) == 3 && f[0] == "ok" {
			return "fed " + f[2]
		}
		return m
	}})
}
