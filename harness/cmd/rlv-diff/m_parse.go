package main

import (
	"bufio"
	"errors"
	"fmt"
	"math/rand"
	"os"
	"strconv"
	"strings"

	"github.com/reeflective/readline/inputrc"
)

// parse: whole files through the real inputrc.Parser with a recording handler (the library's own
// Config semantics: Get answers from a variable map that Set updates) against Model/Parser.

type parseH struct {
	vars  map[string]interface{}
	files map[string]string
	calls []string
}

func (h *parseH) ReadFile(name string) ([]byte, error) {
	h.calls = append(h.calls, "read,"+natsR([]rune(name)))
	if s, ok := h.files[name]; ok {
		return []byte(s), nil
	}
	return nil, os.ErrNotExist
}
func (h *parseH) Do(k, v string) error {
	h.calls = append(h.calls, "do,"+natsR([]rune(k))+","+natsR([]rune(v)))
	return nil
}
func (h *parseH) Set(n string, v interface{}) error {
	h.vars[n] = v
	var s string
	switch x := v.(type) {
	case bool:
		s = "b:0"
		if x {
			s = "b:1"
		}
	case string:
		s = "s:" + natsR([]rune(x))
	case int:
		s = "i:" + strconv.Itoa(x)
	}
	h.calls = append(h.calls, "set,"+natsR([]rune(n))+","+s)
	return nil
}
func (h *parseH) Get(n string) interface{} { return h.vars[n] }
func (h *parseH) Bind(km, seq, act string, m bool) error {
	mm := "0"
	if m {
		mm = "1"
	}
	h.calls = append(h.calls, "bind,"+natsR([]rune(km))+","+natsR([]rune(seq))+","+natsR([]rune(act))+","+mm)
	return nil
}

func errKind(err error) string {
	var pe *inputrc.ParseError
	var ne *strconv.NumError
	switch {
	case errors.As(err, &pe):
		switch pe.Err {
		case inputrc.ErrBindMissingClosingQuote:
			return "bindQuote"
		case inputrc.ErrMissingColon:
			return "missingColon"
		case inputrc.ErrMacroMissingClosingQuote:
			return "macroQuote"
		case inputrc.ErrUnknownModifier:
			return "unknownModifier"
		case inputrc.ErrInvalidKeymap:
			return "invalidKeymap"
		case inputrc.ErrInvalidEditingMode:
			return "invalidEditingMode"
		case inputrc.ErrElseWithoutMatchingIf:
			return "elseWithoutIf"
		case inputrc.ErrEndifWithoutMatchingIf:
			return "endifWithoutIf"
		}
		if pe.Err != nil && pe.Err.Error() == "$include nested too deeply" {
			return "includeDepth"
		}
		return "handler"
	case errors.As(err, &ne):
		return "atoi"
	case errors.Is(err, bufio.ErrTooLong):
		return "tooLong"
	}
	return "handler"
}

var hugeEvery = 60

var parseTests = []string{"mode=emacs", "mode=vi", "term=xterm", "term=rxvt", "Bash", "bash", "other", "mode=", "term=xterm-256color", "", "term=Eterm", "term=eterm", "mode=Vi", "Mode=vi", "TERM=xterm"}
var parseActs = []string{
	"set completion-query-items %d", "set bell-style visible", "set blink-matching-paren on", "set blink-matching-paren 1", "set blink-matching-paren Off",
	"set newvar %d", "set newvar on", "set newvar x", "set completion-query-items abc", "set completion-query-items 99999999999999999999",
	"set completion-query-items -%d", "set completion-query-items +%d", "set editing-mode vi", "set editing-mode emacs", "set editing-mode x",
	"set keymap vi-insert", "set keymap emacs", "set keymap vi", "set keymap bogus", "set keymap v",
	"\"\\C-x%d\": kill-line", "\"\\ex\": \"macro %d\"", "Control-a: beginning-of-line", "Meta-Control-r: revert-line", "a: self-insert", "TAB: complete",
	"\"\\x1b[A\": previous-history", "\"\\M-x\": yank", "$include other", "$include self", "$include missing", "$include", "$custom arg%d", "$custom",
	"# comment", "", "   ", "\"unterminated: x", "\"k\": \"unterminated", "nocolon", "Bogus-a: x", "set", "set ", "set x", "é: self-insert", "\"é\": \"ü%d\"",
	"set newvar \"never closed %d\\", "set newvar 'never closed\\", "set newvar \"never closed %d", "set newvar \"closed %d\" more", "\"k%d\\", "\"k\": \"never closed\\",
}

func renderBlk(r *rand.Rand, depth int, out *[]string, stats *[3]int) {
	if depth < 4 && r.Intn(3) == 0 {
		*out = append(*out, "$if "+parseTests[r.Intn(len(parseTests))])
		stats[0]++
		if depth+1 > stats[1] {
			stats[1] = depth + 1
		}
		for k := r.Intn(3); k > 0; k-- {
			renderBlk(r, depth+1, out, stats)
		}
		if r.Intn(2) == 0 {
			*out = append(*out, "$else")
			for k := r.Intn(3); k > 0; k-- {
				renderBlk(r, depth+1, out, stats)
			}
		}
		*out = append(*out, "$endif")
		return
	}
	a := parseActs[r.Intn(len(parseActs))]
	if strings.Contains(a, "%d") {
		a = fmt.Sprintf(a, r.Intn(50))
	}
	*out = append(*out, a)
}

func genProgram(r *rand.Rand) (string, string) {
	var lines []string
	var st [3]int
	for k := 1 + r.Intn(6); k > 0; k-- {
		renderBlk(r, 0, &lines, &st)
	}
	class := fmt.Sprintf("wellnested/depth=%d", st[1])
	switch r.Intn(8) {
	case 0: // mutate: drop or duplicate a line, or glue scanner fragments
		if len(lines) > 1 {
			i := r.Intn(len(lines))
			lines = append(lines[:i], lines[i+1:]...)
		}
		class = "mutated/drop"
	case 1:
		var sb strings.Builder
		for k := 1 + r.Intn(12); k > 0; k-- {
			sb.WriteString(scanFrag[r.Intn(len(scanFrag))])
		}
		lines = append(lines, sb.String())
		class = "mutated/glued"
	case 2:
		lines = append(lines, []string{"$else", "$endif", "$if mode=emacs"}[r.Intn(3)])
		class = "mutated/unbalanced"
	}
	sep := "\n"
	if r.Intn(10) == 0 {
		sep = "\r\n"
	}
	text := strings.Join(lines, sep)
	if r.Intn(3) != 0 {
		text += sep
	}
	if r.Intn(hugeEvery) == 0 { // the scanner's token limit, on both sides of it
		n := 65536 - 40 + r.Intn(80)
		text = strings.ReplaceAll(strings.ReplaceAll(text, "$include self", "$include missing"), "$include other", "$include missing")
		text += "# " + strings.Repeat("x", n) + []string{"", "\n", "\nset newvar 7\n"}[r.Intn(3)]
		class = "huge-line"
	}
	return text, class
}

func init() {
	if os.Getenv("RLV_HUGE") != "" {
		hugeEvery = 2
	}
	modes := []string{"emacs", "vi", ""}
	terms := []string{"xterm", "rxvt", "", "Eterm"}
	apps := []string{"bash", "other", ""}
	register(&model{name: "parse", gen: func(r *rand.Rand) (string, string, string) {
		text, class := genProgram(r)
		other, _ := genProgram(r)
		if r.Intn(3) == 0 {
			other = "$include self\n" + other
		}
		if len(other) > 4000 {
			other = "set newvar 1\n"
		}
		// the include tree of a cycle grows as k^10 with k includes per file: keep one per file
		// (two in the main file once in a while), the rest point at a file that does not exist
		limit := func(t string, keep int) string {
			ls := strings.Split(t, "\n")
			for i, l := range ls {
				if tl := strings.TrimRight(l, "\r"); tl == "$include self" || tl == "$include other" {
					if keep > 0 {
						keep--
					} else {
						ls[i] = "$include missing"
					}
				}
			}
			return strings.Join(ls, "\n")
		}
		k := 1
		if r.Intn(20) == 0 {
			k = 2
		}
		text, other = limit(text, k), limit(other, 1)
		files := map[string]string{"self": text, "other": other}
		halt, strict := r.Intn(4) == 0, r.Intn(3) == 0
		mode, term, app := modes[r.Intn(3)], terms[r.Intn(4)], apps[r.Intn(3)]
		b := func(x bool) string {
			if x {
				return "1"
			}
			return "0"
		}
		line := fmt.Sprintf("parse %s%s %s %s %s %s=%s;%s=%s %s", b(halt), b(strict), natsR([]rune(mode)), natsR([]rune(term)), natsR([]rune(app)),
			natsR([]rune("self")), nats([]byte(text)), natsR([]rune("other")), nats([]byte(other)), nats([]byte(text)))
		res := guard(func() string {
			h := &parseH{vars: map[string]interface{}{"bell-style": "audible", "completion-query-items": 100, "blink-matching-paren": false}, files: files}
			p := inputrc.New(inputrc.WithMode(mode), inputrc.WithTerm(term), inputrc.WithApp(app), inputrc.WithHaltOnErr(halt), inputrc.WithStrict(strict))
			ret := p.Parse(strings.NewReader(text), h)
			cs := "-"
			if len(h.calls) > 0 {
				cs = strings.Join(h.calls, "|")
			}
			var es []string
			for _, e := range p.Errs() {
				es = append(es, errKind(e))
			}
			e := "-"
			if len(es) > 0 {
				e = strings.Join(es, ",")
			}
			rk := "-"
			if ret != nil {
				rk = errKind(ret)
			}
			return fmt.Sprintf("ok %s errs=%s ret=%s", cs, e, rk)
		})
		if strings.Contains(text, "$include") {
			class += "+include"
		}
		return line, res, class
	}})
}
