module github.com/reeflective/readline/verifx

go 1.23.6

require (
	github.com/reeflective/readline v0.0.0
	github.com/rivo/uniseg v0.4.4
	golang.org/x/sys v0.8.0
)

replace github.com/reeflective/readline => /repo
