// Package sess holds the session spec and trace types shared by the session
// child (rlv-sess) and the orchestrator (rlv-run).
package sess

type Cand struct {
	Value string `json:"value"`
	Desc  string `json:"desc,omitempty"`
	Tag   string `json:"tag,omitempty"`
}

type Bind struct {
	Seq   string `json:"seq"` // inputrc notation
	Cmd   string `json:"cmd"`
	Macro bool   `json:"macro,omitempty"` // Cmd is the text of a macro
}

type Inject struct { // state-injection probe, bound to Seq
	Seq  string `json:"seq"`
	Line string `json:"line"`
	Pos  int    `json:"pos"`
}

type Src struct {
	Name  string   `json:"name"`
	Lines []string `json:"lines"`
}

// Async is something that happens while Readline waits for input at wait number At:
// an application print from another goroutine (joined before the read returns).
type Async struct {
	At   int    `json:"at"`
	Kind string `json:"kind"` // printf | transient | resize
	Text string `json:"text"`
	// With: the cursor position report this event's redisplay asks for reaches the main loop in the same read as
	// the next chunk of the script: "before" (keys then report) or "after" (report then keys)
	With string `json:"with,omitempty"`
}

type Spec struct {
	ID        string   `json:"id"`
	Inputrc   string   `json:"inputrc"`
	Mode      string   `json:"mode"` // emacs | vi
	Width     int      `json:"width"`
	Height    int      `json:"height"`
	Prompt    string   `json:"prompt"`
	History   []string `json:"history"`
	Sources   []Src    `json:"sources,omitempty"` // bound in-memory sources (replace the default one)
	Completer []Cand   `json:"completer"`
	Binds     []Bind   `json:"binds"`
	ByName    bool     `json:"by_name"` // bind every command to \C-x\C-z<2 hex digits>
	Inject    []Inject `json:"inject"`
	Async     []Async  `json:"async,omitempty"`
	Probes    int      `json:"probes,omitempty"` // register commands verif-probe-0..n-1 that only log their invocation
	PanicSeq  string   `json:"panic_seq"`        // bind a panicking command to this sequence
	Multi     string   `json:"multi"`            // accept only lines ending with this suffix ("" = single line)
	Chunks    []string `json:"chunks"`           // hex
	Fault     string   `json:"fault"`            // "" | eof | eio : what Read returns after the script
	Runs      int      `json:"runs"`
	Editor    string   `json:"editor,omitempty"`  // $EDITOR is a program that: empty | keep | append | fail
	Persist   string   `json:"persist,omitempty"` // the application shows a persistent hint (Shell.Hint.Persist)
	Stty      bool     `json:"stty,omitempty"` // the application changes the terminal modes between two calls
	Patience  int      `json:"patience,omitempty"` // watchdog multiplier (scripts in which macros run macros)
	// CPRWith: the N-th cursor position report of the session (N = key, from 1) reaches the library in the same
	// read as the next chunk of the script: "before" (keys then report), "after" (report then keys).
	CPRWith map[int]string `json:"cpr_with,omitempty"`
}

type Wait struct {
	Kind    string   `json:"kind"` // main | readkey
	Line    string   `json:"line"`
	Pos     int      `json:"pos"`
	Sel     [2]int   `json:"sel"`
	Main    string   `json:"main"`
	Local   string   `json:"local"`
	Kill    string   `json:"kill"`
	Out     string   `json:"out"` // hex of bytes written since the previous wait
	VTE     []string `json:"vte"`
	Xterm   []string `json:"xterm"`
	CurVTE  [2]int   `json:"cur_vte"`
	CurXT   [2]int   `json:"cur_xt"`
	Style   string   `json:"style"`
	Unknown []string `json:"unknown,omitempty"`
}

type Result struct {
	Line    string `json:"line"`
	Site    string `json:"site,omitempty"` // first frame of the library under the panic
	Err     string `json:"err"`
	NWaits  int    `json:"n_waits"` // input waits seen when the call ended: Waits[NWaits-1] is the last one before it
	Panic   string `json:"panic,omitempty"`
	Stack   string `json:"stack,omitempty"`
	Termios bool   `json:"termios_restored"`
	Tail    *Wait  `json:"tail,omitempty"` // the screen after Readline returned
}

type Trace struct {
	ID      string       `json:"id"`
	Names   []string     `json:"names,omitempty"`
	Waits   []Wait       `json:"waits"`
	Results []Result     `json:"results"`
	History [][]string   `json:"history"`
	Sources [][][]string `json:"sources,omitempty"` // per run, per bound source: its entries after the run
	Invoked []string     `json:"invoked,omitempty"` // probe commands in invocation order, with the keys that called them
	Blocked bool         `json:"blocked"`           // script exhausted while waiting for input (no fault requested)
	Spins   int          `json:"fault_reads"`
	SpinAt  string       `json:"spin_at,omitempty"` // call stack of the 65th failing read
	Hang    bool         `json:"hang,omitempty"` // set by the parent when the watchdog fired
	Error   string       `json:"error,omitempty"`
}
