// Package vt is a VT100-subset terminal emulator used by the session harness.
//
// It interprets everything the library writes (printing with autowrap and the
// pending-wrap flag, CR/LF with scrolling, BS, CUU/CUD/CUF/CUB with clamping,
// CUP, EL 0/1/2, ED 0/2/3, SGR/DECTCEM ignored, DECSCUSR recorded), answers
// DSR-6 with the emulated cursor position, and recognises a private barrier
// sequence (OSC 777 ; n BEL) used to synchronise snapshots without sleeping.
//
// Where VT100 descendants differ (an erase issued while the wrap is pending:
// xterm erases the last cell, VTE does not) the behaviour is a parameter.
package vt

import (
	"fmt"
	"strconv"
	"strings"
	"unicode/utf8"

	"github.com/rivo/uniseg"
)

// Cell is one screen cell: 0 = blank, Cont = right half of a wide glyph.
type Cell struct {
	R    rune
	Comb []rune // combining marks attached to the glyph
}

const Cont rune = -1

type Term struct {
	W, H      int
	Grid      [][]Cell
	X, Y      int
	Wrap      bool // pending wrap
	EraseAtPW bool // erase at pending wrap starts at the last cell (xterm) or after it (VTE)
	Style     string
	Scrolled  int
	Unknown   []string // sequences seen but not modelled

	Reply   func([]byte) // DSR answers
	Barrier func(int)    // barrier notifications

	pending []byte
}

func New(w, h int, eraseAtPW bool) *Term {
	t := &Term{W: w, H: h, EraseAtPW: eraseAtPW}
	t.Grid = make([][]Cell, h)
	for i := range t.Grid {
		t.Grid[i] = make([]Cell, w)
	}
	return t
}

func (t *Term) lf() {
	if t.Y == t.H-1 {
		copy(t.Grid, t.Grid[1:])
		t.Grid[t.H-1] = make([]Cell, t.W)
		t.Scrolled++
	} else {
		t.Y++
	}
}

func (t *Term) put(r rune, w int) {
	if w == 0 {
		// combining mark: attach to the previous glyph
		x, y := t.X, t.Y
		if !t.Wrap {
			x--
		}
		for x >= 0 && t.Grid[y][x].R == Cont {
			x--
		}
		if x >= 0 {
			t.Grid[y][x].Comb = append(t.Grid[y][x].Comb, r)
		}
		return
	}
	if t.Wrap {
		t.X = 0
		t.lf()
		t.Wrap = false
	}
	if w == 2 && t.X == t.W-1 {
		t.Grid[t.Y][t.X] = Cell{}
		t.X = 0
		t.lf()
	}
	t.Grid[t.Y][t.X] = Cell{R: r}
	if w == 2 && t.X+1 < t.W {
		t.Grid[t.Y][t.X+1] = Cell{R: Cont}
	}
	if t.X+w >= t.W {
		t.X = t.W - 1
		t.Wrap = true
	} else {
		t.X += w
	}
}

func (t *Term) eraseFrom() int {
	if t.Wrap && !t.EraseAtPW {
		return t.W
	}
	return t.X
}

func (t *Term) csi(params string, inter string, final byte) {
	p0 := strings.Split(strings.TrimPrefix(params, "?"), ";")[0]
	arg, has := 0, false
	if p0 != "" {
		if v, err := strconv.Atoi(p0); err == nil {
			arg, has = v, true
		}
	}
	n := arg
	if !has || n < 1 {
		n = 1
	}
	switch final {
	case 'A':
		t.Y -= n
		if t.Y < 0 {
			t.Y = 0
		}
		t.Wrap = false
	case 'B':
		t.Y += n
		if t.Y > t.H-1 {
			t.Y = t.H - 1
		}
		t.Wrap = false
	case 'C':
		t.X += n
		if t.X > t.W-1 {
			t.X = t.W - 1
		}
		t.Wrap = false
	case 'D':
		t.X -= n
		if t.X < 0 {
			t.X = 0
		}
		t.Wrap = false
	case 'H', 'f':
		t.X, t.Y, t.Wrap = 0, 0, false
		ps := strings.Split(params, ";")
		if len(ps) == 2 {
			if r, err := strconv.Atoi(ps[0]); err == nil && r >= 1 {
				t.Y = min(r-1, t.H-1)
			}
			if c, err := strconv.Atoi(ps[1]); err == nil && c >= 1 {
				t.X = min(c-1, t.W-1)
			}
		}
	case 'K':
		switch arg {
		case 0:
			for x := t.eraseFrom(); x < t.W; x++ {
				t.Grid[t.Y][x] = Cell{}
			}
		case 1:
			for x := 0; x <= t.X && x < t.W; x++ {
				t.Grid[t.Y][x] = Cell{}
			}
		case 2:
			for x := 0; x < t.W; x++ {
				t.Grid[t.Y][x] = Cell{}
			}
		}
	case 'J':
		switch arg {
		case 0:
			for x := t.eraseFrom(); x < t.W; x++ {
				t.Grid[t.Y][x] = Cell{}
			}
			for y := t.Y + 1; y < t.H; y++ {
				t.Grid[y] = make([]Cell, t.W)
			}
		case 2, 3:
			for y := 0; y < t.H; y++ {
				t.Grid[y] = make([]Cell, t.W)
			}
		}
	case 'n':
		if arg == 6 && t.Reply != nil {
			t.Reply([]byte(fmt.Sprintf("\x1b[%d;%dR", t.Y+1, t.X+1)))
		}
	case 'q':
		if inter == " " {
			t.Style = p0
		}
	case 'm', 'l', 'h':
		// colours, cursor visibility: no effect on cells
	default:
		t.Unknown = append(t.Unknown, "CSI "+params+inter+string(final))
	}
}

// Write interprets bytes written by the application.
func (t *Term) Write(p []byte) {
	b := append(t.pending, p...)
	t.pending = nil
	for len(b) > 0 {
		c := b[0]
		switch {
		case c == 0x1b:
			if len(b) < 2 {
				t.pending = b
				return
			}
			switch b[1] {
			case '[':
				i := 2
				for i < len(b) && b[i] >= 0x30 && b[i] <= 0x3f {
					i++
				}
				j := i
				for j < len(b) && b[j] >= 0x20 && b[j] <= 0x2f {
					j++
				}
				if j >= len(b) {
					t.pending = b
					return
				}
				t.csi(string(b[2:i]), string(b[i:j]), b[j])
				b = b[j+1:]
			case ']':
				// OSC ... BEL
				end := -1
				for i := 2; i < len(b); i++ {
					if b[i] == 0x07 {
						end = i
						break
					}
				}
				if end < 0 {
					t.pending = b
					return
				}
				body := string(b[2:end])
				if strings.HasPrefix(body, "777;") && t.Barrier != nil {
					if n, err := strconv.Atoi(body[4:]); err == nil {
						t.Barrier(n)
					}
				}
				b = b[end+1:]
			case '7', '8':
				t.Unknown = append(t.Unknown, "ESC "+string(b[1]))
				b = b[2:]
			default:
				t.Unknown = append(t.Unknown, "ESC "+string(b[1]))
				b = b[2:]
			}
		case c == '\r':
			t.X, t.Wrap = 0, false
			b = b[1:]
		case c == '\n':
			t.lf()
			t.Wrap = false
			b = b[1:]
		case c == '\b':
			if t.X > 0 {
				t.X--
			}
			t.Wrap = false
			b = b[1:]
		case c == 0x07 || c < 0x20 || c == 0x7f:
			b = b[1:]
		default:
			if !utf8.FullRune(b) {
				t.pending = b
				return
			}
			r, n := utf8.DecodeRune(b)
			t.put(r, uniseg.StringWidth(string(r)))
			b = b[n:]
		}
	}
}

// Row renders one row as text (blank cells as spaces, trailing blanks trimmed).
func (t *Term) Row(y int) string {
	var sb strings.Builder
	for _, c := range t.Grid[y] {
		switch c.R {
		case 0:
			sb.WriteRune(' ')
		case Cont:
		default:
			sb.WriteRune(c.R)
			for _, m := range c.Comb {
				sb.WriteRune(m)
			}
		}
	}
	return strings.TrimRight(sb.String(), " ")
}

// Resize changes the width without reflowing (rows are cut or padded, as xterm does).
func (t *Term) Resize(w int) {
	for y := range t.Grid {
		row := make([]Cell, w)
		copy(row, t.Grid[y])
		t.Grid[y] = row
	}
	t.W = w
	if t.X > w-1 {
		t.X = w - 1
	}
	t.Wrap = false
}

// Screen renders all rows up to the last non-blank one.
func (t *Term) Screen() []string {
	rows := make([]string, 0, t.H)
	for y := 0; y < t.H; y++ {
		rows = append(rows, t.Row(y))
	}
	for len(rows) > 0 && rows[len(rows)-1] == "" {
		rows = rows[:len(rows)-1]
	}
	return rows
}
