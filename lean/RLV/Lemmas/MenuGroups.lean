import RLV.Model.Menu
import RLV.Lemmas.MenuCycle
import RLV.Lemmas.MenuCycleBack
/-! Menu completion over SEVERAL groups (tags): `Menu.select m 1 0` is one `menu-complete` on the menu
model the differential compares with the real engine. All groups plain (not aliased) and non-empty. -/
namespace RLV.Menu
open RLV.Menu2 RLV.Core

/-- a plain group of `n` candidates in rows of `c` -/
structure GOK (g : Grp) (n c : Nat) : Prop where
  plain : g.aliased = false
  grid : Grid (toSel g) n c

/-- the menu: every group plain and non-empty, group `i` and no other is current, its selector on a candidate -/
structure MInv (m : Menu) (ns cs : List Nat) (i : Nat) : Prop where
  hi : i < m.length
  shape : ∀ j (hj : j < m.length), GOK m[j] (ns.getD j 0) (cs.getD j 0)
  cur : ∀ j (hj : j < m.length), m[j].isCurrent = decide (j = i)
  valid : Valid (toSel (m[i]'hi))

theorem curIdx_of {m : Menu} {i : Nat} (hi : i < m.length)
    (cur : ∀ j (hj : j < m.length), m[j].isCurrent = decide (j = i)) : curIdx m = some i := by
  unfold curIdx
  rw [List.findIdx?_eq_some_iff_getElem]
  refine ⟨hi, by rw [cur i hi]; simp, ?_⟩
  intro j hji
  rw [cur j (by omega)]
  simp; omega

theorem toSel_pos (g : Grp) (x y : Int) :
    toSel { g with posX := x, posY := y } = { toSel g with x := x, y := y } := rfl

theorem getD_of_lt (m : Menu) (i : Nat) (d : Grp) (hi : i < m.length) : m.getD i d = m[i] := by
  simp [List.getD, List.getElem?_eq_getElem hi]

/-- what one forward move does from a candidate of a plain group: the next candidate of the group, or
`done` (with `next`) from the last one -/
theorem move_in_group (s : Sel) (n c : Nat) (g : Grid s n c) (hv : Valid s) :
    (∃ s', move s 1 0 = .ok (s', false, false) ∧ Valid s' ∧ s'.rows = s.rows ∧ s'.R = s.R ∧ s'.maxX = s.maxX ∧
        idx s' c = idx s c + 1 ∧ idx s c + 1 < n) ∨
    (∃ s', move s 1 0 = .ok (s', true, true) ∧ idx s c + 1 = n) := by
  obtain ⟨hx, hy, hyR, hcell⟩ := hv
  have hm := move_fwd s hx hy hyR hcell
  obtain ⟨t, ht, hvt, hrows, hR, hidx, hlt⟩ := tab_step g ⟨hx, hy, hyR, hcell⟩
  have h0 : 0 ≤ idx s c := by
    unfold idx
    have : 0 ≤ s.y * (c : Int) := Int.mul_nonneg hy (by omega)
    omega
  unfold tab at ht
  rw [hm] at ht ⊢
  by_cases h1 : s.x + 1 < s.rows s.y.toNat
  · left
    simp only [h1, if_true, bind, Except.bind, pure, Except.pure, Bool.false_eq_true, if_false] at ht ⊢
    injection ht with ht
    subst ht
    have hi : idx { s with x := s.x + 1 } c = idx s c + 1 := by unfold idx; simp; omega
    refine ⟨_, rfl, hvt, rfl, rfl, rfl, hi, ?_⟩
    rw [hi] at hidx
    by_cases he : idx s c + 1 = n
    · rw [if_pos he] at hidx; omega
    · omega
  · by_cases h2 : s.y + 1 < s.R
    · left
      simp only [h1, h2, if_true, if_false, bind, Except.bind, pure, Except.pure, Bool.false_eq_true] at ht ⊢
      injection ht with ht
      subst ht
      refine ⟨_, rfl, hvt, rfl, rfl, rfl, ?_, ?_⟩
      · by_cases he : idx s c + 1 = n
        · rw [if_pos he] at hidx
          -- the new cell is not the first one: its row is below
          exfalso
          unfold idx at hidx
          simp only at hidx
          have : 0 ≤ (s.y + 1) * (c : Int) := Int.mul_nonneg (by omega) (by omega)
          have hc := g.hc
          have : (s.y + 1) * (c : Int) = s.y * c + c := by rw [Int.add_mul]; omega
          have : 0 ≤ s.y * (c : Int) := Int.mul_nonneg hy (by omega)
          omega
        · rw [if_neg he] at hidx; exact hidx
      · by_cases he : idx s c + 1 = n
        · rw [if_pos he] at hidx
          exfalso
          unfold idx at hidx
          simp only at hidx
          have hc := g.hc
          have : (s.y + 1) * (c : Int) = s.y * c + c := by rw [Int.add_mul]; omega
          have : 0 ≤ s.y * (c : Int) := Int.mul_nonneg hy (by omega)
          omega
        · omega
    · right
      simp only [h1, h2, if_false, bind, Except.bind, pure, Except.pure, if_true] at ht ⊢
      injection ht with ht
      subst ht
      refine ⟨_, rfl, ?_⟩
      by_cases he : idx s c + 1 = n
      · exact he
      · rw [if_neg he] at hidx
        exfalso
        unfold idx at hidx
        simp at hidx
        have : 0 ≤ s.y * (c : Int) := Int.mul_nonneg hy (by omega)
        omega

def dflt : Grp := { rows := [], ncols := 0, maxX := 0, maxY := 0 }

/-- row-major index of the selector of group `j` -/
def pos (m : Menu) (j c : Nat) : Int := idx (toSel (m.getD j dflt)) c

theorem moveSelector_plain (g : Grp) (hp : g.aliased = false) :
    moveSelector g 1 0 = (do
      let r ← Menu2.move (toSel g) 1 0
      pure ({ g with posX := r.1.x, posY := r.1.y }, r.2.1, r.2.2)) := by
  unfold moveSelector
  simp [hp]

theorem selected_valid (g : Grp) (hv : Valid (toSel g)) :
    selected g = .ok ((g.rows.getD g.posY.toNat []).getD g.posX.toNat 0) := by
  obtain ⟨hx, hy, hyR, hcell⟩ := hv
  have hx' : 0 ≤ g.posX := hx
  have hy' : 0 ≤ g.posY := hy
  have hyR' : g.posY < g.rows.length := hyR
  have hcell' : g.posX < ((g.rows.getD g.posY.toNat []).length : Int) := hcell
  unfold selected
  have c1 : ¬ (g.posY = -1 ∨ g.posX = -1) := by omega
  simp only [c1, if_false, bind, Except.bind, pure, Except.pure]
  have c2 : ¬ (g.posY < 0 ∨ g.posY ≥ g.rows.length) := by omega
  have c3 : ¬ (g.posX < 0 ∨ g.posX ≥ ((g.rows.getD g.posY.toNat []).length : Int)) := by omega
  simp [c2]
  refine ⟨hx', ?_⟩
  simpa [List.getD] using hcell'

theorem rows_nonempty {m : Menu} {ns cs : List Nat} {i : Nat} (h : MInv m ns cs i) :
    (m[i]'h.hi).rows.isEmpty = false := by
  have := (h.shape i h.hi).grid.hR
  have hR : (toSel (m[i]'h.hi)).R = (m[i]'h.hi).rows.length := rfl
  cases hr : (m[i]'h.hi).rows with
  | nil => rw [hR, hr] at this; simp at this
  | cons a b => rfl

/-- `select` when the move stays inside the current group -/
theorem select_notdone (m : Menu) (ns cs : List Nat) (i : Nat) (h : MInv m ns cs i) (s' : Sel)
    (hmv : Menu2.move (toSel (m[i]'h.hi)) 1 0 = .ok (s', false, false)) :
    select m 1 0 = (do
      let v ← selected { m[i]'h.hi with posX := s'.x, posY := s'.y }
      pure (m.set i { m[i]'h.hi with posX := s'.x, posY := s'.y }, some v)) := by
  have hcur := curIdx_of h.hi h.cur
  have hal := (h.shape i h.hi).plain
  have hne := rows_nonempty h
  unfold select
  simp only [currentGroup, hcur, bind, Except.bind, pure, Except.pure]
  rw [getD_of_lt m i _ h.hi]
  simp only [hne, Bool.false_eq_true, if_false]
  have e : (if (m[i]'h.hi).aliased = true then ((0 : Int), (1 : Int)) else (1, 0)) = (1, 0) := by simp [hal]
  rw [e]
  simp only
  rw [moveSelector_plain _ hal]
  simp [bind, Except.bind, pure, Except.pure, hmv]

/-- `select` when the move leaves the current group by its end: the first cell of the next group -/
theorem select_done (m : Menu) (ns cs : List Nat) (i : Nat) (h : MInv m ns cs i) (s' : Sel)
    (hmv : Menu2.move (toSel (m[i]'h.hi)) 1 0 = .ok (s', true, true)) :
    select m 1 0 =
      (match curIdx (cycle (m.set i { m[i]'h.hi with posX := s'.x, posY := s'.y }) true) with
       | none => .ok (cycle (m.set i { m[i]'h.hi with posX := s'.x, posY := s'.y }) true, none)
       | some j => do
          let gj := firstCell ((cycle (m.set i { m[i]'h.hi with posX := s'.x, posY := s'.y }) true).getD j
                      (m[i]'h.hi))
          let v ← selected gj
          pure ((cycle (m.set i { m[i]'h.hi with posX := s'.x, posY := s'.y }) true).set j gj, some v)) := by
  have hcur := curIdx_of h.hi h.cur
  have hal := (h.shape i h.hi).plain
  have hne := rows_nonempty h
  unfold select
  simp only [currentGroup, hcur, bind, Except.bind, pure, Except.pure]
  rw [getD_of_lt m i _ h.hi]
  simp only [hne, Bool.false_eq_true, if_false]
  have e : (if (m[i]'h.hi).aliased = true then ((0 : Int), (1 : Int)) else (1, 0)) = (1, 0) := by simp [hal]
  rw [e]
  simp only
  rw [moveSelector_plain _ hal]
  simp only [bind, Except.bind, pure, Except.pure, hmv, Bool.not_true, Bool.false_eq_true, if_false, if_true]
  first | rfl | (split <;> rfl)

theorem grid_pos {s : Sel} {n c : Nat} (g : Grid s n c) (x y : Int) : Grid { s with x := x, y := y } n c :=
  ⟨g.hc, g.hR, g.hrows, g.hlast, g.hlast1, g.hlastc⟩

theorem gok_pos {g : Grp} {n c : Nat} (h : GOK g n c) (x y : Int) (b : Bool) :
    GOK { g with posX := x, posY := y, isCurrent := b } n c :=
  ⟨h.plain, grid_pos h.grid x y⟩

/-- One `menu-complete` on a menu of plain groups: the next candidate of the current group, or — from
its last candidate — the first candidate of the next group (the first group after the last one). The
menu stays in the invariant, whatever the number of groups and their shapes. -/
theorem select_step (m : Menu) (ns cs : List Nat) (i : Nat) (h : MInv m ns cs i) :
    ∃ m' v i', select m 1 0 = .ok (m', some v) ∧ MInv m' ns cs i' ∧ m'.length = m.length ∧
      ((i' = i ∧ pos m' i (cs.getD i 0) = pos m i (cs.getD i 0) + 1 ∧ pos m i (cs.getD i 0) + 1 < ns.getD i 0) ∨
       (i' = (if i + 1 = m.length then 0 else i + 1) ∧ pos m i (cs.getD i 0) + 1 = ns.getD i 0 ∧
          pos m' i' (cs.getD i' 0) = 0)) := by
  have hg := h.shape i h.hi
  have hi := h.hi
  have hpos : pos m i (cs.getD i 0) = idx (toSel (m[i]'h.hi)) (cs.getD i 0) := by
    unfold pos; rw [getD_of_lt m i _ h.hi]
  rcases move_in_group (toSel (m[i]'h.hi)) _ _ hg.grid h.valid with ⟨s', hmv, hv', hrows, hR, hmx, hidx, hlt⟩ | ⟨s', hmv, hend⟩
  · -- inside the group
    have hsel := select_notdone m ns cs i h s' hmv
    have hv'' : Valid (toSel { m[i]'h.hi with posX := s'.x, posY := s'.y }) := by
      obtain ⟨a, b, c, d⟩ := hv'
      refine ⟨a, b, ?_, ?_⟩
      · show s'.y < ((toSel (m[i]'h.hi)).R : Int); rw [← hR]; exact c
      · show s'.x < ((toSel (m[i]'h.hi)).rows s'.y.toNat : Int); rw [← hrows]; exact d
    rw [selected_valid _ hv''] at hsel
    simp only [bind, Except.bind, pure, Except.pure] at hsel
    refine ⟨_, _, i, hsel, ?_, by simp, Or.inl ⟨rfl, ?_, by rw [hpos]; exact hlt⟩⟩
    · refine ⟨by simp; exact h.hi, ?_, ?_, ?_⟩
      · intro j hj
        have hj' : j < m.length := by simpa using hj
        rw [List.getElem_set]
        split
        · rename_i hij; subst hij; exact gok_pos hg _ _ _
        · exact h.shape j hj'
      · intro j hj
        have hj' : j < m.length := by simpa using hj
        rw [List.getElem_set]
        split
        · rename_i hij; subst hij; exact h.cur i h.hi
        · exact h.cur j hj'
      · simp only [List.getElem_set_self]
        exact hv''
    · unfold pos
      rw [getD_of_lt _ i _ (by simp; exact h.hi), getD_of_lt m i _ h.hi]
      simp only [List.getElem_set_self]
      show idx { toSel (m[i]'h.hi) with x := s'.x, y := s'.y } (cs.getD i 0) = _
      have : idx { toSel (m[i]'h.hi) with x := s'.x, y := s'.y } (cs.getD i 0) = idx s' (cs.getD i 0) := rfl
      rw [this, hidx]
  · -- to the next group
    have hsel := select_done m ns cs i h s' hmv
    -- the menu after the move, and the group that becomes current
    generalize hm1 : m.set i { m[i]'h.hi with posX := s'.x, posY := s'.y } = m1 at hsel
    have hlen1 : m1.length = m.length := by rw [← hm1]; simp
    have hget1 : ∀ j (hj : j < m1.length), m1[j] = if i = j then { m[i]'h.hi with posX := s'.x, posY := s'.y } else m[j]'(by omega) := by
      intro j hj; subst hm1; rw [List.getElem_set]
    have hcur1 : ∀ j (hj : j < m1.length), m1[j].isCurrent = decide (j = i) := by
      intro j hj
      rw [hget1 j hj]
      split
      · rename_i hij; subst hij; exact h.cur i h.hi
      · exact h.cur j (by omega)
    have hci1 := curIdx_of (by omega : i < m1.length) hcur1
    obtain ⟨j, hj⟩ : ∃ j, j = (if i + 1 = m.length then 0 else i + 1) := ⟨_, rfl⟩
    have hjlt : j < m.length := by rw [hj]; have := h.hi; split <;> omega
    have hcyc : cycle m1 true = setCur m1 j := by
      unfold cycle; rw [hci1]; simp only [if_true, hlen1, hj]
    rw [hcyc] at hsel
    have hlen2 : (setCur m1 j).length = m.length := by unfold setCur; simp [hlen1]
    have hget2 : ∀ k (hk : k < (setCur m1 j).length),
        (setCur m1 j)[k] = { m1[k]'(by omega) with isCurrent := k == j } := by
      intro k hk; simp [setCur]
    have hcur2 : ∀ k (hk : k < (setCur m1 j).length), (setCur m1 j)[k].isCurrent = decide (k = j) := by
      intro k hk; rw [hget2 k hk]
      show (k == j) = decide (k = j)
      by_cases hkj : k = j <;> simp [hkj]
    have hci2 := curIdx_of (by omega : j < (setCur m1 j).length) hcur2
    rw [hci2] at hsel
    simp only at hsel
    rw [getD_of_lt _ j _ (by omega)] at hsel
    -- the shapes are those of the original groups
    have hshape1 : ∀ k (hk : k < m1.length), GOK m1[k] (ns.getD k 0) (cs.getD k 0) := by
      intro k hk
      rw [hget1 k hk]
      split
      · rename_i hik; subst hik; exact gok_pos hg _ _ _
      · exact h.shape k (by omega)
    have hshape2 : ∀ k (hk : k < (setCur m1 j).length), GOK (setCur m1 j)[k] (ns.getD k 0) (cs.getD k 0) := by
      intro k hk
      rw [hget2 k hk]
      have := hshape1 k (by omega)
      exact ⟨this.plain, this.grid⟩
    have hgj := hshape2 j (by omega)
    have hvj : Valid (toSel (firstCell ((setCur m1 j)[j]'(by omega)))) := by
      have hR := hgj.grid.hR
      refine ⟨by show (0 : Int) ≤ 0; omega, by show (0 : Int) ≤ 0; omega, ?_, ?_⟩
      · show (0 : Int) < ((toSel ((setCur m1 j)[j]'(by omega))).R : Int); omega
      · show (0 : Int) < ((toSel ((setCur m1 j)[j]'(by omega))).rows (0 : Int).toNat : Int)
        exact_mod_cast rows_pos hgj.grid 0 hR
    rw [selected_valid _ hvj] at hsel
    simp only [bind, Except.bind, pure, Except.pure] at hsel
    refine ⟨_, _, j, hsel, ?_, by simp [hlen2], Or.inr ⟨hj, by rw [hpos]; exact hend, ?_⟩⟩
    · refine ⟨by simp [hlen2]; exact hjlt, ?_, ?_, ?_⟩
      · intro k hk
        have hk' : k < (setCur m1 j).length := by simpa using hk
        rw [List.getElem_set]
        split
        · rename_i hjk; subst hjk
          exact gok_pos hgj 0 0 _
        · exact hshape2 k hk'
      · intro k hk
        have hk' : k < (setCur m1 j).length := by simpa using hk
        rw [List.getElem_set]
        split
        · rename_i hjk; subst hjk
          show ((setCur m1 j)[j]'hk').isCurrent = _
          rw [hcur2 j hk']
        · exact hcur2 k hk'
      · simp only [List.getElem_set_self]
        exact hvj
    · unfold pos
      rw [getD_of_lt _ j _ (by simp [hlen2]; exact hjlt)]
      simp only [List.getElem_set_self]
      show idx { toSel ((setCur m1 j)[j]'(by omega)) with x := 0, y := 0 } (cs.getD j 0) = 0
      simp [idx]

theorem gok_n_pos {g : Grp} {n c : Nat} (h : GOK g n c) : 0 < n := by
  have h1 := h.grid.hlast
  have h2 := h.grid.hlast1
  omega

theorem sum_take_succ : ∀ (ns : List Nat) (i : Nat), i < ns.length →
    (ns.take (i + 1)).sum = (ns.take i).sum + ns.getD i 0
  | [], i, h => by simp at h
  | a :: t, 0, _ => by simp
  | a :: t, i + 1, h => by
    have := sum_take_succ t i (by simpa using h)
    simp only [List.take_succ_cons, List.sum_cons, List.getD_cons_succ]
    omega

theorem sum_take_le : ∀ (ns : List Nat) (i : Nat), (ns.take i).sum ≤ ns.sum
  | [], i => by simp
  | a :: t, 0 => by simp
  | a :: t, i + 1 => by
    have := sum_take_le t i
    simp only [List.take_succ_cons, List.sum_cons]
    omega

theorem sum_take_all (ns : List Nat) (i : Nat) (h : ns.length ≤ i) : (ns.take i).sum = ns.sum := by
  rw [List.take_of_length_le h]

/-- the position of the selector among ALL the candidates of the menu, group after group -/
def gpos (m : Menu) (ns cs : List Nat) (i : Nat) : Int := ((ns.take i).sum : Int) + pos m i (cs.getD i 0)

theorem select_gpos (m : Menu) (ns cs : List Nat) (i : Nat) (h : MInv m ns cs i) (hlen : ns.length = m.length) :
    ∃ m' v i', select m 1 0 = .ok (m', some v) ∧ MInv m' ns cs i' ∧ m'.length = m.length ∧
      gpos m' ns cs i' = (gpos m ns cs i + 1) % (ns.sum : Int) ∧ 0 ≤ gpos m ns cs i ∧ gpos m ns cs i < ns.sum := by
  obtain ⟨m', v, i', hsel, hinv, hl, hcase⟩ := select_step m ns cs i h
  have hi := h.hi
  have hpos0 : 0 ≤ pos m i (cs.getD i 0) := by
    unfold pos; rw [getD_of_lt m i _ h.hi]
    obtain ⟨hx, hy, _, _⟩ := h.valid
    unfold idx
    have : 0 ≤ (toSel (m[i]'h.hi)).y * ((cs.getD i 0 : Nat) : Int) := Int.mul_nonneg hy (by omega)
    omega
  have hsucc := sum_take_succ ns i (by omega)
  have hle := sum_take_le ns (i + 1)
  refine ⟨m', v, i', hsel, hinv, hl, ?_⟩
  rcases hcase with ⟨rfl, hp, hlt⟩ | ⟨hi', hend, hp0⟩
  · unfold gpos
    have hlt2 : ((ns.take i').sum : Int) + pos m i' (cs.getD i' 0) + 1 < (ns.sum : Int) := by
      have : ((ns.take (i' + 1)).sum : Int) = ((ns.take i').sum : Int) + (ns.getD i' 0 : Int) := by exact_mod_cast hsucc
      have : ((ns.take (i' + 1)).sum : Int) ≤ (ns.sum : Int) := by exact_mod_cast hle
      omega
    refine ⟨?_, by omega, by omega⟩
    rw [hp, Int.emod_eq_of_lt (by omega) hlt2]
    omega
  · unfold gpos
    have hs : ((ns.take (i + 1)).sum : Int) = ((ns.take i).sum : Int) + (ns.getD i 0 : Int) := by exact_mod_cast hsucc
    have hle' : ((ns.take (i + 1)).sum : Int) ≤ (ns.sum : Int) := by exact_mod_cast hle
    refine ⟨?_, by omega, by omega⟩
    rw [hp0]
    by_cases hw : i + 1 = m.length
    · rw [if_pos hw] at hi'
      subst hi'
      have hall : (ns.take (i + 1)).sum = ns.sum := sum_take_all ns (i + 1) (by omega)
      have : ((ns.take i).sum : Int) + pos m i (cs.getD i 0) + 1 = (ns.sum : Int) := by
        have : ((ns.take (i + 1)).sum : Int) = (ns.sum : Int) := by exact_mod_cast hall
        omega
      rw [this]
      simp
    · rw [if_neg hw] at hi'
      subst hi'
      have hn1 := gok_n_pos (h.shape (i + 1) (by omega))
      have hsucc2 := sum_take_succ ns (i + 1) (by omega)
      have hle2 := sum_take_le ns (i + 1 + 1)
      have h2 : ((ns.take (i + 1 + 1)).sum : Int) = ((ns.take (i + 1)).sum : Int) + (ns.getD (i + 1) 0 : Int) := by exact_mod_cast hsucc2
      have h3 : ((ns.take (i + 1 + 1)).sum : Int) ≤ (ns.sum : Int) := by exact_mod_cast hle2
      have hlt2 : ((ns.take i).sum : Int) + pos m i (cs.getD i 0) + 1 < (ns.sum : Int) := by omega
      rw [Int.emod_eq_of_lt (by omega) hlt2]
      omega

/-- `k` presses of `menu-complete` -/
def presses : Nat → Menu → G Menu
  | 0, m => pure m
  | k+1, m => do
    let r ← select m 1 0
    presses k r.1

theorem presses_gpos (ns cs : List Nat) : ∀ (k : Nat) (m : Menu) (i : Nat), MInv m ns cs i → ns.length = m.length →
    ∃ m' i', presses k m = .ok m' ∧ MInv m' ns cs i' ∧ m'.length = m.length ∧
      gpos m' ns cs i' = (gpos m ns cs i + k) % (ns.sum : Int) := by
  intro k
  induction k with
  | zero =>
    intro m i h hlen
    obtain ⟨_, _, _, _, _, _, _, h0, hlt⟩ := select_gpos m ns cs i h hlen
    exact ⟨m, i, rfl, h, rfl, by simp [Int.emod_eq_of_lt h0 hlt]⟩
  | succ k ih =>
    intro m i h hlen
    obtain ⟨m1, v, i1, hsel, hinv, hl, hg, _, _⟩ := select_gpos m ns cs i h hlen
    obtain ⟨m', i', hp, hinv', hl', hg'⟩ := ih m1 i1 hinv (by omega)
    refine ⟨m', i', ?_, hinv', by omega, ?_⟩
    · simp only [presses, hsel, bind, Except.bind]
      exact hp
    · rw [hg', hg, Int.emod_add_emod]
      congr 1
      omega

/-! ### Backwards (`menu-complete-backward`) -/

theorem move_back_in_group (s : Sel) (n c : Nat) (g : Grid s n c) (hv : Valid s) :
    (∃ s', move s (-1) 0 = .ok (s', false, false) ∧ Valid s' ∧ s'.rows = s.rows ∧ s'.R = s.R ∧
        idx s' c = idx s c - 1 ∧ 0 < idx s c) ∨
    (∃ s', move s (-1) 0 = .ok (s', true, false) ∧ idx s c = 0) := by
  obtain ⟨hx, hy, hyR, hcell⟩ := hv
  obtain ⟨y, hyy⟩ : ∃ y : Nat, s.y = y := ⟨s.y.toNat, by omega⟩
  have hyn : y < s.R := by omega
  have hty : s.y.toNat = y := by omega
  have hprev : 0 < s.y → 0 < s.rows (s.y - 1).toNat ∧
      (s.rows (s.y - 1).toNat : Int) - 1 ≤ (s.rows s.y.toNat : Int) - 1 + (s.rows (s.y - 1).toNat : Int) := by
    intro h
    have : (s.y - 1).toNat = y - 1 := by omega
    rw [this]
    have hp := rows_pos g (y - 1) (by omega)
    exact ⟨hp, by omega⟩
  have hm := move_bwd s hx hy hyR hcell hprev
  rw [hm]
  have hynn : 0 ≤ s.y * (c : Int) := Int.mul_nonneg hy (by omega)
  by_cases hx0 : 0 < s.x
  · left
    refine ⟨{ s with x := s.x - 1 }, by simp [hx0], ?_, rfl, rfl, ?_, ?_⟩
    · exact ⟨by show 0 ≤ s.x - 1; omega, hy, hyR, by show s.x - 1 < s.rows s.y.toNat; omega⟩
    · unfold idx; simp only; omega
    · unfold idx; omega
  · have hx00 : s.x = 0 := by omega
    by_cases hy0 : 0 < s.y
    · left
      have hym : (s.y - 1).toNat = y - 1 := by omega
      have hrow : s.rows (y - 1) = c := g.hrows (y - 1) (by omega)
      refine ⟨{ s with y := s.y - 1, x := (s.rows (s.y - 1).toNat : Int) - 1 }, by simp [hx0, hy0], ?_, rfl, rfl, ?_, ?_⟩
      · refine ⟨?_, by show 0 ≤ s.y - 1; omega, by show s.y - 1 < s.R; omega, ?_⟩
        · show 0 ≤ (s.rows (s.y - 1).toNat : Int) - 1
          rw [hym, hrow]; have := g.hc; omega
        · show (s.rows (s.y - 1).toNat : Int) - 1 < s.rows (s.y - 1).toNat
          omega
      · unfold idx
        simp only
        rw [hym, hrow, hx00, Int.sub_mul]
        omega
      · unfold idx
        rw [hx00, hyy]
        have : (1 : Int) * c ≤ (y : Int) * c := Int.mul_le_mul_of_nonneg_right (by omega) (by omega)
        have := g.hc
        omega
    · right
      have hy00 : s.y = 0 := by omega
      refine ⟨{ s with x := 0, y := 0 }, by simp [hx0, hy0], ?_⟩
      unfold idx; rw [hx00, hy00]; simp

theorem moveSelector_plain' (g : Grp) (dx dy : Int) (hp : g.aliased = false) :
    moveSelector g dx dy = (do
      let r ← Menu2.move (toSel g) dx dy
      pure ({ g with posX := r.1.x, posY := r.1.y }, r.2.1, r.2.2)) := by
  unfold moveSelector
  simp [hp]

/-- `select` backwards when the move stays inside the current group -/
theorem select_back_notdone (m : Menu) (ns cs : List Nat) (i : Nat) (h : MInv m ns cs i) (s' : Sel)
    (hmv : Menu2.move (toSel (m[i]'h.hi)) (-1) 0 = .ok (s', false, false)) :
    select m (-1) 0 = (do
      let v ← selected { m[i]'h.hi with posX := s'.x, posY := s'.y }
      pure (m.set i { m[i]'h.hi with posX := s'.x, posY := s'.y }, some v)) := by
  have hcur := curIdx_of h.hi h.cur
  have hal := (h.shape i h.hi).plain
  have hne := rows_nonempty h
  unfold select
  simp only [currentGroup, hcur, bind, Except.bind, pure, Except.pure]
  rw [getD_of_lt m i _ h.hi]
  simp only [hne, Bool.false_eq_true, if_false]
  have e : (if (m[i]'h.hi).aliased = true then ((0 : Int), (-1 : Int)) else (-1, 0)) = (-1, 0) := by simp [hal]
  rw [e]
  simp only
  rw [moveSelector_plain' _ _ _ hal]
  simp [bind, Except.bind, pure, Except.pure, hmv]

/-- `select` backwards from the first candidate of the current group: the last cell of the previous group -/
theorem select_back_done (m : Menu) (ns cs : List Nat) (i : Nat) (h : MInv m ns cs i) (s' : Sel)
    (hmv : Menu2.move (toSel (m[i]'h.hi)) (-1) 0 = .ok (s', true, false)) :
    select m (-1) 0 =
      (match curIdx (cycle (m.set i { m[i]'h.hi with posX := s'.x, posY := s'.y }) false) with
       | none => .ok (cycle (m.set i { m[i]'h.hi with posX := s'.x, posY := s'.y }) false, none)
       | some j => do
          let gj ← lastCell ((cycle (m.set i { m[i]'h.hi with posX := s'.x, posY := s'.y }) false).getD j (m[i]'h.hi))
          let v ← selected gj
          pure ((cycle (m.set i { m[i]'h.hi with posX := s'.x, posY := s'.y }) false).set j gj, some v)) := by
  have hcur := curIdx_of h.hi h.cur
  have hal := (h.shape i h.hi).plain
  have hne := rows_nonempty h
  unfold select
  simp only [currentGroup, hcur, bind, Except.bind, pure, Except.pure]
  rw [getD_of_lt m i _ h.hi]
  simp only [hne, Bool.false_eq_true, if_false]
  have e : (if (m[i]'h.hi).aliased = true then ((0 : Int), (-1 : Int)) else (-1, 0)) = (-1, 0) := by simp [hal]
  rw [e]
  simp only
  rw [moveSelector_plain' _ _ _ hal]
  simp only [bind, Except.bind, pure, Except.pure, hmv, Bool.not_true, Bool.false_eq_true, if_false, if_true]
  first | rfl | (split <;> rfl)

theorem lastCell_plain (g : Grp) (hp : g.aliased = false) (hne : 0 < g.rows.length) :
    lastCell g = .ok { g with posY := (g.rows.length : Int) - 1,
                              posX := ((g.rows.getD (g.rows.length - 1) []).length : Int) - 1 } := by
  unfold lastCell
  simp only [hp, Bool.false_eq_true, if_false, bind, Except.bind, pure, Except.pure]
  unfold rowLen
  have c1 : ¬ ((g.rows.length : Int) - 1 < 0 ∨ (g.rows.length : Int) - 1 ≥ g.rows.length) := by omega
  have e : ((g.rows.length : Int) - 1).toNat = g.rows.length - 1 := by omega
  simp [c1, e, pure, Except.pure]

/-- one `menu-complete-backward` on a menu of plain groups: the previous candidate of the current group,
or — from its first candidate — the last candidate of the previous group (the last group before the
first one) -/
theorem select_back_step (m : Menu) (ns cs : List Nat) (i : Nat) (h : MInv m ns cs i) :
    ∃ m' v i', select m (-1) 0 = .ok (m', some v) ∧ MInv m' ns cs i' ∧ m'.length = m.length ∧
      ((i' = i ∧ pos m' i (cs.getD i 0) = pos m i (cs.getD i 0) - 1 ∧ 0 < pos m i (cs.getD i 0)) ∨
       (i' = (if i = 0 then m.length - 1 else i - 1) ∧ pos m i (cs.getD i 0) = 0 ∧
          pos m' i' (cs.getD i' 0) = (ns.getD i' 0 : Int) - 1)) := by
  have hg := h.shape i h.hi
  have hi := h.hi
  have hpos : pos m i (cs.getD i 0) = idx (toSel (m[i]'h.hi)) (cs.getD i 0) := by
    unfold pos; rw [getD_of_lt m i _ h.hi]
  rcases move_back_in_group (toSel (m[i]'h.hi)) _ _ hg.grid h.valid with ⟨s', hmv, hv', hrows, hR, hidx, hlt⟩ | ⟨s', hmv, hend⟩
  · have hsel := select_back_notdone m ns cs i h s' hmv
    have hv'' : Valid (toSel { m[i]'h.hi with posX := s'.x, posY := s'.y }) := by
      obtain ⟨a, b, c, d⟩ := hv'
      refine ⟨a, b, ?_, ?_⟩
      · show s'.y < ((toSel (m[i]'h.hi)).R : Int); rw [← hR]; exact c
      · show s'.x < ((toSel (m[i]'h.hi)).rows s'.y.toNat : Int); rw [← hrows]; exact d
    rw [selected_valid _ hv''] at hsel
    simp only [bind, Except.bind, pure, Except.pure] at hsel
    refine ⟨_, _, i, hsel, ?_, by simp, Or.inl ⟨rfl, ?_, by rw [hpos]; exact hlt⟩⟩
    · refine ⟨by simp; exact h.hi, ?_, ?_, ?_⟩
      · intro j hj
        have hj' : j < m.length := by simpa using hj
        rw [List.getElem_set]
        split
        · rename_i hij; subst hij; exact gok_pos hg _ _ _
        · exact h.shape j hj'
      · intro j hj
        have hj' : j < m.length := by simpa using hj
        rw [List.getElem_set]
        split
        · rename_i hij; subst hij; exact h.cur i h.hi
        · exact h.cur j hj'
      · simp only [List.getElem_set_self]
        exact hv''
    · unfold pos
      rw [getD_of_lt _ i _ (by simp; exact h.hi), getD_of_lt m i _ h.hi]
      simp only [List.getElem_set_self]
      have : idx (toSel { m[i]'h.hi with posX := s'.x, posY := s'.y }) (cs.getD i 0) = idx s' (cs.getD i 0) := rfl
      rw [this, hidx]
  · have hsel := select_back_done m ns cs i h s' hmv
    generalize hm1 : m.set i { m[i]'h.hi with posX := s'.x, posY := s'.y } = m1 at hsel
    have hlen1 : m1.length = m.length := by rw [← hm1]; simp
    have hget1 : ∀ j (hj : j < m1.length), m1[j] = if i = j then { m[i]'h.hi with posX := s'.x, posY := s'.y } else m[j]'(by omega) := by
      intro j hj; subst hm1; rw [List.getElem_set]
    have hcur1 : ∀ j (hj : j < m1.length), m1[j].isCurrent = decide (j = i) := by
      intro j hj
      rw [hget1 j hj]
      split
      · rename_i hij; subst hij; exact h.cur i h.hi
      · exact h.cur j (by omega)
    have hci1 := curIdx_of (by omega : i < m1.length) hcur1
    obtain ⟨j, hj⟩ : ∃ j, j = (if i = 0 then m.length - 1 else i - 1) := ⟨_, rfl⟩
    have hjlt : j < m.length := by rw [hj]; split <;> omega
    have hcyc : cycle m1 false = setCur m1 j := by
      unfold cycle; rw [hci1]; simp only [Bool.false_eq_true, if_false, hlen1, hj]
    rw [hcyc] at hsel
    have hlen2 : (setCur m1 j).length = m.length := by unfold setCur; simp [hlen1]
    have hget2 : ∀ k (hk : k < (setCur m1 j).length),
        (setCur m1 j)[k] = { m1[k]'(by omega) with isCurrent := k == j } := by
      intro k hk; simp [setCur]
    have hcur2 : ∀ k (hk : k < (setCur m1 j).length), (setCur m1 j)[k].isCurrent = decide (k = j) := by
      intro k hk; rw [hget2 k hk]
      show (k == j) = decide (k = j)
      by_cases hkj : k = j <;> simp [hkj]
    have hci2 := curIdx_of (by omega : j < (setCur m1 j).length) hcur2
    rw [hci2] at hsel
    simp only at hsel
    rw [getD_of_lt _ j _ (by omega)] at hsel
    have hshape1 : ∀ k (hk : k < m1.length), GOK m1[k] (ns.getD k 0) (cs.getD k 0) := by
      intro k hk
      rw [hget1 k hk]
      split
      · rename_i hik; subst hik; exact gok_pos hg _ _ _
      · exact h.shape k (by omega)
    have hshape2 : ∀ k (hk : k < (setCur m1 j).length), GOK (setCur m1 j)[k] (ns.getD k 0) (cs.getD k 0) := by
      intro k hk
      rw [hget2 k hk]
      have := hshape1 k (by omega)
      exact ⟨this.plain, this.grid⟩
    have hgj := hshape2 j (by omega)
    have hRj : 0 < ((setCur m1 j)[j]'(by omega)).rows.length := hgj.grid.hR
    rw [lastCell_plain _ hgj.plain hRj] at hsel
    simp only [bind, Except.bind, pure, Except.pure] at hsel
    -- the last cell of group j
    generalize hgl : ({ (setCur m1 j)[j]'(by omega) with
        posY := (((setCur m1 j)[j]'(by omega)).rows.length : Int) - 1,
        posX := ((((setCur m1 j)[j]'(by omega)).rows.getD (((setCur m1 j)[j]'(by omega)).rows.length - 1) []).length : Int) - 1 } : Grp) = gl at hsel
    have hgl_sel : toSel gl = { toSel ((setCur m1 j)[j]'(by omega)) with
        y := ((toSel ((setCur m1 j)[j]'(by omega))).R : Int) - 1,
        x := ((toSel ((setCur m1 j)[j]'(by omega))).rows ((toSel ((setCur m1 j)[j]'(by omega))).R - 1) : Int) - 1 } := by
      rw [← hgl]; rfl
    have hgrid := hgj.grid
    generalize toSel ((setCur m1 j)[j]'(by omega)) = sj at hgl_sel hgrid
    have hvl : Valid (toSel gl) := by
      rw [hgl_sel]
      have h1 := hgrid.hR; have h2 := hgrid.hlast1
      refine ⟨by show 0 ≤ (sj.rows (sj.R - 1) : Int) - 1; omega, by show 0 ≤ (sj.R : Int) - 1; omega,
        by show (sj.R : Int) - 1 < sj.R; omega, ?_⟩
      show (sj.rows (sj.R - 1) : Int) - 1 < sj.rows ((sj.R : Int) - 1).toNat
      have : ((sj.R : Int) - 1).toNat = sj.R - 1 := by omega
      rw [this]; omega
    have hidxl : idx (toSel gl) (cs.getD j 0) = (ns.getD j 0 : Int) - 1 := by
      rw [hgl_sel]
      unfold idx
      simp only
      have h1 := hgrid.hR
      have hl : ((sj.R - 1 : Nat) : Int) * (cs.getD j 0 : Int) + (sj.rows (sj.R - 1) : Int) = (ns.getD j 0 : Int) := by
        have := hgrid.hlast
        exact_mod_cast (by omega : (sj.R - 1) * cs.getD j 0 + sj.rows (sj.R - 1) = ns.getD j 0)
      have : ((sj.R : Int) - 1) = ((sj.R - 1 : Nat) : Int) := by omega
      rw [this]
      omega
    have hgok_l : GOK gl (ns.getD j 0) (cs.getD j 0) := by
      rw [← hgl]; exact gok_pos hgj _ _ _
    have hcur_l : gl.isCurrent = decide (j = j) := by
      rw [← hgl]; show ((setCur m1 j)[j]'(by omega)).isCurrent = _; exact hcur2 j (by omega)
    rw [selected_valid _ hvl] at hsel
    simp only [bind, Except.bind, pure, Except.pure] at hsel
    refine ⟨_, _, j, hsel, ?_, by simp [hlen2], Or.inr ⟨hj, by rw [hpos]; exact hend, ?_⟩⟩
    · refine ⟨by simp [hlen2]; exact hjlt, ?_, ?_, ?_⟩
      · intro k hk
        have hk' : k < (setCur m1 j).length := by simpa using hk
        rw [List.getElem_set]
        split
        · rename_i hjk; subst hjk; exact hgok_l
        · exact hshape2 k hk'
      · intro k hk
        have hk' : k < (setCur m1 j).length := by simpa using hk
        rw [List.getElem_set]
        split
        · rename_i hjk; subst hjk; exact hcur_l
        · exact hcur2 k hk'
      · simp only [List.getElem_set_self]
        exact hvl
    · unfold pos
      rw [getD_of_lt _ j _ (by simp [hlen2]; exact hjlt)]
      simp only [List.getElem_set_self]
      exact hidxl

theorem select_back_gpos (m : Menu) (ns cs : List Nat) (i : Nat) (h : MInv m ns cs i) (hlen : ns.length = m.length) :
    ∃ m' v i', select m (-1) 0 = .ok (m', some v) ∧ MInv m' ns cs i' ∧ m'.length = m.length ∧
      gpos m' ns cs i' = (gpos m ns cs i - 1) % (ns.sum : Int) := by
  obtain ⟨m', v, i', hsel, hinv, hl, hcase⟩ := select_back_step m ns cs i h
  obtain ⟨_, _, _, _, _, _, _, hg0, hgN⟩ := select_gpos m ns cs i h hlen
  have hi := h.hi
  refine ⟨m', v, i', hsel, hinv, hl, ?_⟩
  rcases hcase with ⟨rfl, hp, hlt⟩ | ⟨hi', hend, hpl⟩
  · have e : gpos m' ns cs i' = gpos m ns cs i' - 1 := by unfold gpos; rw [hp]; omega
    rw [e, Int.emod_eq_of_lt (by unfold gpos; omega) (by omega)]
  · by_cases h0 : i = 0
    · rw [if_pos h0] at hi'
      subst hi' h0
      have hs := sum_take_succ ns (m.length - 1) (by omega)
      have hall : (ns.take (m.length - 1 + 1)).sum = ns.sum := sum_take_all ns _ (by omega)
      have hN : ((ns.take (m.length - 1)).sum : Int) + (ns.getD (m.length - 1) 0 : Int) = (ns.sum : Int) := by
        have : ((ns.take (m.length - 1 + 1)).sum : Int) = ((ns.take (m.length - 1)).sum : Int) + (ns.getD (m.length - 1) 0 : Int) := by
          exact_mod_cast hs
        have : ((ns.take (m.length - 1 + 1)).sum : Int) = (ns.sum : Int) := by exact_mod_cast hall
        omega
      have hg : gpos m ns cs 0 = 0 := by unfold gpos; rw [hend]; simp
      have e : gpos m' ns cs (m.length - 1) = (ns.sum : Int) - 1 := by unfold gpos; rw [hpl]; omega
      rw [e, hg]
      have hNpos : 0 < (ns.sum : Int) := by omega
      have : ((0 : Int) - 1) % (ns.sum : Int) = ((0 : Int) - 1 + ns.sum) % (ns.sum : Int) := by
        rw [Int.add_emod_right]
      rw [this, Int.emod_eq_of_lt (by omega) (by omega)]
      omega
    · rw [if_neg h0] at hi'
      subst hi'
      have hs := sum_take_succ ns (i - 1) (by omega)
      have hii : i - 1 + 1 = i := by omega
      rw [hii] at hs
      have hn1 := gok_n_pos (h.shape (i - 1) (by omega))
      have e : gpos m' ns cs (i - 1) = gpos m ns cs i - 1 := by
        unfold gpos
        rw [hpl, hend]
        have : ((ns.take i).sum : Int) = ((ns.take (i - 1)).sum : Int) + (ns.getD (i - 1) 0 : Int) := by exact_mod_cast hs
        omega
      have hge : 0 ≤ gpos m ns cs i - 1 := by
        unfold gpos
        rw [hend]
        have : ((ns.take i).sum : Int) = ((ns.take (i - 1)).sum : Int) + (ns.getD (i - 1) 0 : Int) := by exact_mod_cast hs
        omega
      rw [e, Int.emod_eq_of_lt hge (by omega)]

end RLV.Menu
