import RLV.Model.Parser
/-! `$if` / `$else` / `$endif` in the parser model: which directives take effect.

The facts are about `execTok` (what `Parser.next` does with a scanned token), for **every** handler,
every option set and every way of running included files:

* a token that is not one of the three conditional constructs is *gated*: with an inactive top of
  the condition stack it changes nothing at all (`execTok_inactive`), with an active top it does
  what it does on a fresh parser with the same keymap and never touches the stack
  (`execTok_active`);
* along a well-nested program the parser therefore fires a directive iff the condition of its
  **innermost** enclosing block holds (`run_blks`) — which is the property's "every enclosing block"
  exactly on programs in which no block sits inside an inactive block (`specIn_eq_spec`). -/
namespace RLV.Inputrc
open RLV.Core (G Panic)

def isCondKw (d : Str) : Bool := d = str "$if" || d = str "$else" || d = str "$endif"
def Tk.isCond (t : Tk) : Bool := t.2.2 = .construct && isCondKw t.1

/-- a parser with nothing around it: the given keymap, one active condition -/
def fresh (km : Str) : PSt := { keymap := km, conds := [true], errs := [] }

section
variable {σ : Type} (H : Handler σ) (o : Opts) (nested : Option (List Nat → σ → G σ))

theorem execTok_inactive (p : PSt) (h : σ) (t : Tk) (hc : t.isCond = false) (ht : p.top = false) :
    execTok H o nested p h t = .ok (p, h, none) := by
  obtain ⟨d, v, tok⟩ := t
  cases tok with
  | none => rfl
  | bind => simp [execTok, doBind, ht]; rfl
  | bindMacro => simp [execTok, doBind, ht]; rfl
  | set => simp [execTok, doSet, ht]; rfl
  | construct =>
    simp only [Tk.isCond, isCondKw, decide_true, Bool.true_and, Bool.or_eq_false_iff,
      decide_eq_false_iff_not] at hc
    obtain ⟨⟨h1, h2⟩, h3⟩ := hc
    simp only [execTok, doConstruct, h1, h2, h3, if_false, ht]
    split <;> rfl

/-- the view a gated token has of the parser: result on a fresh parser, put back around `p` -/
def around (p : PSt) (r : PSt × σ × Option EKind) : PSt × σ × Option EKind :=
  ({ p with keymap := r.1.keymap }, r.2.1, r.2.2)

@[simp] theorem top_fresh (km : Str) (es : List EKind) :
    ({ keymap := km, conds := [true], errs := es } : PSt).top = true := rfl

theorem execTok_active (p : PSt) (h : σ) (t : Tk) (hc : t.isCond = false) (ht : p.top = true) :
    execTok H o nested p h t = (execTok H o nested (fresh p.keymap) h t).map (around p) := by
  obtain ⟨d, v, tok⟩ := t
  cases tok with
  | none => cases p; rfl
  | bind => cases p; simp [execTok, doBind, ht, around, fresh, Except.map, pure, Except.pure]; rfl
  | bindMacro => cases p; simp [execTok, doBind, ht, around, fresh, Except.map, pure, Except.pure]; rfl
  | set =>
    cases p with
    | mk km cs es =>
      simp only [execTok, doSet, ht, fresh, top_fresh, Bool.not_true, Bool.false_eq_true, if_false]
      simp only [pure, Except.pure]
      repeat' split
      all_goals simp_all [Except.map, throw, throwThe, MonadExceptOf.throw, around]
  | construct =>
    simp only [Tk.isCond, isCondKw, decide_true, Bool.true_and, Bool.or_eq_false_iff,
      decide_eq_false_iff_not] at hc
    obtain ⟨⟨h1, h2⟩, h3⟩ := hc
    cases p with
    | mk km cs es =>
      simp only [execTok, doConstruct, h1, h2, h3, if_false, ht, fresh, top_fresh, Bool.not_true, Bool.false_eq_true]
      simp only [pure, Except.pure]
      repeat' split
      all_goals simp_all [Except.map, bind, Except.bind, pure, Except.pure, around]
      all_goals (try (split <;> simp_all))

end

/-! ### Well-nested programs -/

inductive Blk where
  | tok (t : Tk)
  | ite (test : Str) (thn els : List Blk)

def ifTk (test : Str) : Tk := (str "$if", test, .construct)
def elseTk : Tk := (str "$else", [], .construct)
def endifTk : Tk := (str "$endif", [], .construct)

mutual
  def Blk.flat : Blk → List Tk
    | .tok t => [t]
    | .ite test t f => [ifTk test] ++ flatL t ++ [elseTk] ++ flatL f ++ [endifTk]
  def flatL : List Blk → List Tk
    | [] => []
    | b :: bs => b.flat ++ flatL bs
end

-- the leaves are directives, not stray conditional constructs
mutual
  def Blk.wf : Blk → Bool
    | .tok t => !t.isCond
    | .ite _ t f => wfL t && wfL f
  def wfL : List Blk → Bool
    | [] => true
    | b :: bs => b.wf && wfL bs
end

section
variable {σ : Type} (H : Handler σ) (o : Opts) (nested : Option (List Nat → σ → G σ))

/-- the parser over a token list (errors are collected, not fatal: `haltOnErr` off) -/
def runToks : List Tk → PSt → σ → G (PSt × σ)
  | [], p, h => .ok (p, h)
  | t :: ts, p, h =>
    match execTok H o nested p h t with
    | .error e => .error e
    | .ok r => runToks ts r.1 r.2.1

/-- a directive taking effect: what it does to (keymap, handler state) on a fresh parser -/
def effect (t : Tk) (s : Str × σ) : G (Str × σ) :=
  match execTok H o nested (fresh s.1) s.2 t with
  | .error e => .error e
  | .ok r => .ok (r.1.keymap, r.2.1)

-- what the parser implements: only the innermost enclosing condition counts
mutual
  def Blk.specIn (on : Bool) : Blk → Str × σ → G (Str × σ)
    | .tok t, s => if on then effect H o nested t s else .ok s
    | .ite test t f, s =>
      match specInL (evalIf o test) t s with
      | .error e => .error e
      | .ok s1 => specInL (!evalIf o test) f s1
  def specInL (on : Bool) : List Blk → Str × σ → G (Str × σ)
    | [], s => .ok s
    | b :: bs, s =>
      match b.specIn on s with
      | .error e => .error e
      | .ok s1 => specInL on bs s1
end

-- the property: a directive takes effect iff every enclosing condition holds
mutual
  def Blk.spec (on : Bool) : Blk → Str × σ → G (Str × σ)
    | .tok t, s => if on then effect H o nested t s else .ok s
    | .ite test t f, s =>
      match specL (on && evalIf o test) t s with
      | .error e => .error e
      | .ok s1 => specL (on && !evalIf o test) f s1
  def specL (on : Bool) : List Blk → Str × σ → G (Str × σ)
    | [], s => .ok s
    | b :: bs, s =>
      match b.spec on s with
      | .error e => .error e
      | .ok s1 => specL on bs s1
end

theorem runToks_append (a b : List Tk) (p : PSt) (h : σ) :
    runToks H o nested (a ++ b) p h =
      match runToks H o nested a p h with
      | .error e => .error e
      | .ok r => runToks H o nested b r.1 r.2 := by
  induction a generalizing p h with
  | nil => simp [runToks]
  | cons t ts ih =>
    simp only [List.cons_append, runToks]
    cases execTok H o nested p h t with
    | error e => rfl
    | ok r => exact ih r.1 r.2.1

/-- the parser state with `c` on top of the stack -/
def withTop (c : Bool) (stk : List Bool) (es : List EKind) (km : Str) : PSt :=
  { keymap := km, conds := c :: stk, errs := es }

theorem run_tok (t : Tk) (hc : t.isCond = false) (c : Bool) (stk : List Bool) (es : List EKind) (s : Str × σ) :
    runToks H o nested [t] (withTop c stk es s.1) s.2 =
      match (Blk.tok t).specIn H o nested c s with
      | .error e => .error e
      | .ok s1 => .ok (withTop c stk es s1.1, s1.2) := by
  cases c with
  | false =>
    have := execTok_inactive H o nested (withTop false stk es s.1) s.2 t hc rfl
    simp [runToks, this, Blk.specIn]
  | true =>
    have := execTok_active H o nested (withTop true stk es s.1) s.2 t hc rfl
    have hk : (withTop true stk es s.1).keymap = s.1 := rfl
    rw [hk] at this
    simp only [runToks, this, Blk.specIn, effect, if_true]
    cases execTok H o nested (fresh s.1) s.2 t with
    | error e => rfl
    | ok r => rfl

mutual
  theorem run_blk (b : Blk) (hw : b.wf = true) : ∀ (c : Bool) (stk : List Bool) (es : List EKind) (s : Str × σ),
      runToks H o nested b.flat (withTop c stk es s.1) s.2 =
        match b.specIn H o nested c s with
        | .error e => .error e
        | .ok s1 => .ok (withTop c stk es s1.1, s1.2) := by
    intro c stk es s
    cases b with
    | tok t =>
      simp only [Blk.wf, Bool.not_eq_true'] at hw
      simpa [Blk.flat] using run_tok H o nested t hw c stk es s
    | ite test t f =>
      simp only [Blk.wf, Bool.and_eq_true] at hw
      have h1 := run_blks t hw.1 (evalIf o test) (c :: stk) es s
      simp only [Blk.flat, List.append_assoc, runToks_append]
      -- $if pushes the test
      have hif : runToks H o nested [ifTk test] (withTop c stk es s.1) s.2
          = .ok (withTop (evalIf o test) (c :: stk) es s.1, s.2) := by
        simp [runToks, execTok, ifTk, doConstruct, withTop, pure, Except.pure]
      rw [hif]
      simp only
      rw [h1]
      simp only [Blk.specIn]
      cases hs1 : specInL H o nested (evalIf o test) t s with
      | error e => rfl
      | ok s1 =>
        simp only
        -- $else flips the top
        have hel : runToks H o nested [elseTk] (withTop (evalIf o test) (c :: stk) es s1.1) s1.2
            = .ok (withTop (!evalIf o test) (c :: stk) es s1.1, s1.2) := by
          simp [runToks, execTok, elseTk, doConstruct, withTop, pure, Except.pure, PSt.top, str]
        rw [hel]
        simp only
        have h2 := run_blks f hw.2 (!evalIf o test) (c :: stk) es s1
        rw [h2]
        cases hs2 : specInL H o nested (!evalIf o test) f s1 with
        | error e => rfl
        | ok s2 =>
          simp only
          -- $endif pops
          simp [runToks, execTok, endifTk, doConstruct, withTop, pure, Except.pure, str]
  theorem run_blks (bs : List Blk) (hw : wfL bs = true) : ∀ (c : Bool) (stk : List Bool) (es : List EKind) (s : Str × σ),
      runToks H o nested (flatL bs) (withTop c stk es s.1) s.2 =
        match specInL H o nested c bs s with
        | .error e => .error e
        | .ok s1 => .ok (withTop c stk es s1.1, s1.2) := by
    intro c stk es s
    cases bs with
    | nil => simp [flatL, runToks, specInL]
    | cons b bs =>
      simp only [wfL, Bool.and_eq_true] at hw
      simp only [flatL, runToks_append]
      rw [run_blk b hw.1 c stk es s]
      simp only [specInL]
      cases hb : b.specIn H o nested c s with
      | error e => rfl
      | ok s1 =>
        simp only
        exact run_blks bs hw.2 c stk es s1
end

-- programs in which no block is nested inside an inactive block
mutual
  def Blk.flatOK (on : Bool) : Blk → Bool
    | .tok _ => true
    | .ite test t f => on && flatOKL (on && evalIf o test) t && flatOKL (on && !evalIf o test) f
  def flatOKL (on : Bool) : List Blk → Bool
    | [] => true
    | b :: bs => b.flatOK on && flatOKL on bs
end

mutual
  theorem specIn_eq_spec_blk (b : Blk) : ∀ (on : Bool) (s : Str × σ), b.flatOK o on = true →
      b.specIn H o nested on s = b.spec H o nested on s := by
    intro on s h
    cases b with
    | tok t => simp [Blk.specIn, Blk.spec]
    | ite test t f =>
      simp only [Blk.flatOK, Bool.and_eq_true] at h
      obtain ⟨⟨hon, ht⟩, hf⟩ := h
      subst hon
      simp only [Bool.true_and] at ht hf
      simp only [Blk.specIn, Blk.spec, Bool.true_and]
      rw [specIn_eq_spec_blks t (evalIf o test) s ht]
      cases specL H o nested (evalIf o test) t s with
      | error e => rfl
      | ok s1 => exact specIn_eq_spec_blks f (!evalIf o test) s1 hf
  theorem specIn_eq_spec_blks (bs : List Blk) : ∀ (on : Bool) (s : Str × σ), flatOKL o on bs = true →
      specInL H o nested on bs s = specL H o nested on bs s := by
    intro on s h
    cases bs with
    | nil => simp [specInL, specL]
    | cons b bs =>
      simp only [flatOKL, Bool.and_eq_true] at h
      simp only [specInL, specL]
      rw [specIn_eq_spec_blk b on s h.1]
      cases b.spec H o nested on s with
      | error e => rfl
      | ok s1 => exact specIn_eq_spec_blks bs on s1 h.2
end

end
end RLV.Inputrc
