import RLV.Model.Core
/-! `Cursor.CheckCommand` (internal/core/cursor.go) — the post-command check of the Vi command
keymaps — never indexes out of range and leaves the cursor on a character, unless the buffer or the
line the cursor is on is empty (C06, C01). -/
namespace RLV.Core

theorem at_ok (l : Line) (i : Int) (h0 : 0 ≤ i) (h1 : i < len l) : at_ l i = .ok (l.getD i.toNat 0) := by
  have : ¬ (i < 0 ∨ i ≥ len l) := by omega
  simp [at_, this]

/-- the rune at position `i` (0 outside the buffer) -/
def charOf (l : Line) (i : Int) : Nat := l.getD i.toNat 0

/-- the cursor is on an empty line of the buffer (between two newlines, or at an end next to one) -/
def OnEmptyLine (l : Line) (p : Int) : Prop :=
  (p = 0 ∧ charOf l 0 = 10) ∨ (p = len l ∧ 0 < p ∧ charOf l (p - 1) = 10) ∨
  (0 < p ∧ p < len l ∧ charOf l p = 10 ∧ charOf l (p - 1) = 10)

theorem onEmptyLine_spec (l : Line) (c : Cur) (hl : 0 < len l) (h0 : 0 ≤ c.pos) (h1 : c.pos ≤ len l) :
    ∃ b, onEmptyLine l c = .ok b ∧ (b = true ↔ OnEmptyLine l c.pos) := by
  unfold onEmptyLine
  have hne : ¬ len l = 0 := by omega
  simp only [hne, if_false, bind, Except.bind, pure, Except.pure]
  by_cases hp0 : c.pos = 0
  · simp only [hp0, if_true, at_ok l 0 (by omega) hl]
    refine ⟨_, rfl, ?_⟩
    simp only [OnEmptyLine, charOf, hp0, beq_iff_eq]
    constructor
    · intro h; left; exact ⟨trivial, h⟩
    · intro h
      rcases h with h | h | h
      · exact h.2
      · omega
      · omega
  · simp only [hp0, if_false]
    by_cases hpl : c.pos = len l
    · simp only [hpl, if_true, at_ok l (len l - 1) (by omega) (by omega)]
      refine ⟨_, rfl, ?_⟩
      simp only [OnEmptyLine, charOf, hpl, beq_iff_eq]
      constructor
      · intro h; right; left; exact ⟨trivial, hl, h⟩
      · intro h
        rcases h with h | h | h
        · omega
        · exact h.2.2
        · omega
    · simp only [hpl, if_false, at_ok l c.pos h0 (by omega), at_ok l (c.pos - 1) (by omega) (by omega)]
      refine ⟨_, rfl, ?_⟩
      simp only [OnEmptyLine, charOf, Bool.and_eq_true, beq_iff_eq]
      constructor
      · intro h; right; right; exact ⟨by omega, by omega, h.1, h.2⟩
      · intro h
        rcases h with h | h | h
        · omega
        · omega
        · exact ⟨h.2.2.1, h.2.2.2⟩

theorem checkAppend_fix (l : Line) (c : Cur) (h0 : 0 ≤ c.pos) (h1 : c.pos ≤ len l) :
    (checkAppend l c).pos = c.pos := by
  unfold checkAppend
  simp only
  repeat' split
  all_goals omega

theorem charAt_eq (l : Line) (c : Cur) (h0 : 0 ≤ c.pos) (h1 : c.pos ≤ len l) :
    charAt l c = .ok (if c.pos < len l then charOf l c.pos else 0) := by
  unfold charAt
  simp only [bind, Except.bind, pure, Except.pure, checkAppend_fix l c h0 h1]
  by_cases hl : len l = 0
  · have h2 : ¬ c.pos < 0 := by omega
    simp only [hl, if_true, h2, if_false]
  · by_cases hlt : c.pos < len l
    · have h3 : ¬ c.pos ≥ len l := by omega
      simp only [hl, if_false, h3, hlt, if_true, at_ok l c.pos h0 hlt, charOf]
    · have h3 : c.pos ≥ len l := by omega
      simp [hl, h3, hlt]

/-- what C06 asks of the cursor in Vi command mode -/
def OnChar (l : Line) (p : Int) : Prop :=
  len l = 0 ∨ OnEmptyLine l p ∨ (p < len l ∧ charOf l p ≠ 10)

/-- `CheckCommand` after `CheckAppend`, for a cursor already inside the buffer -/
theorem checkCommand_inside (l : Line) (a : Cur) (hl : 0 < len l) (h0 : 0 ≤ a.pos) (h1 : a.pos ≤ len l)
    (ha : checkAppend l a = a) :
    ∃ c', checkCommand l a = .ok c' ∧ 0 ≤ c'.pos ∧ c'.pos ≤ len l ∧ OnChar l c'.pos := by
  obtain ⟨b1, hb1, hbi1⟩ := onEmptyLine_spec l a hl h0 h1
  unfold checkCommand
  simp only [ha, bind, Except.bind, pure, Except.pure, hb1]
  by_cases hend : a.pos = len l ∧ (!b1) = true
  · -- at the end of a non-empty last line: one step back, onto its last character
    have hb' : b1 = false := by simpa using hend.2
    have hnot : ¬ OnEmptyLine l a.pos := by rw [← hbi1, hb']; simp
    have hlast : charOf l (a.pos - 1) ≠ 10 := by
      intro h; apply hnot; right; left; exact ⟨hend.1, by omega, h⟩
    have h0' : 0 ≤ a.pos - 1 := by omega
    have h1' : a.pos - 1 ≤ len l := by omega
    obtain ⟨b2, hb2, _⟩ := onEmptyLine_spec l { a with pos := a.pos - 1 } hl h0' h1'
    have hlt' : a.pos - 1 < len l := by omega
    rw [if_pos hend]
    simp only [charAt_eq l { a with pos := a.pos - 1 } h0' h1', hb2]
    have hcond : ¬ (len l > 0 ∧ a.pos - 1 < len l ∧ (if a.pos - 1 < len l then charOf l (a.pos - 1) else 0) = 10 ∧ (!b2) = true) := by
      intro h; rw [if_pos hlt'] at h; exact hlast h.2.2.1
    rw [if_neg hcond]
    exact ⟨_, rfl, h0', h1', Or.inr (Or.inr ⟨hlt', hlast⟩)⟩
  · rw [if_neg hend]
    simp only [charAt_eq l a h0 h1, hb1]
    by_cases hcond : len l > 0 ∧ a.pos < len l ∧ (if a.pos < len l then charOf l a.pos else 0) = 10 ∧ (!b1) = true
    · -- on the newline that ends a non-empty line: one step back
      rw [if_pos hcond]
      obtain ⟨_, hlt, hch, hnb⟩ := hcond
      rw [if_pos hlt] at hch
      have hb' : b1 = false := by simpa using hnb
      have hnot : ¬ OnEmptyLine l a.pos := by rw [← hbi1, hb']; simp
      have hpos : 0 < a.pos := by
        by_cases h : 0 < a.pos
        · exact h
        · exfalso; apply hnot; left
          have : a.pos = 0 := by omega
          exact ⟨this, by rw [← this]; exact hch⟩
      have hprev : charOf l (a.pos - 1) ≠ 10 := by
        intro h; apply hnot; right; right; exact ⟨hpos, hlt, hch, h⟩
      simp only [hpos, if_true]
      exact ⟨_, rfl, by simp; omega, by simp; omega, Or.inr (Or.inr ⟨by simp; omega, by simpa using hprev⟩)⟩
    · rw [if_neg hcond]
      refine ⟨a, rfl, h0, h1, ?_⟩
      by_cases hlt : a.pos < len l
      · by_cases hc : charOf l a.pos = 10
        · have hb' : b1 = true := by
            cases hbb : b1 with
            | true => rfl
            | false => exact absurd ⟨hl, hlt, by rw [if_pos hlt]; exact hc, by simp [hbb]⟩ hcond
          exact Or.inr (Or.inl (hbi1.mp hb'))
        · exact Or.inr (Or.inr ⟨hlt, hc⟩)
      · have hpe : a.pos = len l := by omega
        have hb' : b1 = true := by
          cases hbb : b1 with
          | true => rfl
          | false => exact absurd ⟨hpe, by simp [hbb]⟩ hend
        exact Or.inr (Or.inl (hbi1.mp hb'))

theorem checkAppend_idem (l : Line) (c : Cur) : checkAppend l (checkAppend l c) = checkAppend l c := by
  have hl : 0 ≤ len l := by unfold len; omega
  unfold checkAppend
  simp only
  congr 1 <;> (repeat' split) <;> omega

/-- C06 (Vi command mode): whatever the cursor and mark were, `CheckCommand` returns (no panic)
a position inside the buffer which is on a character, unless the buffer is empty or the cursor
is on an empty line. -/
theorem checkCommand_spec (l : Line) (c : Cur) :
    ∃ c', checkCommand l c = .ok c' ∧ 0 ≤ c'.pos ∧ c'.pos ≤ len l ∧ OnChar l c'.pos := by
  obtain ⟨h0, h1, _⟩ := checkAppend_range l c
  by_cases hl : len l = 0
  · refine ⟨checkAppend l c, ?_, h0, h1, Or.inl hl⟩
    unfold checkCommand
    have hp : (checkAppend l c).pos = 0 := by omega
    simp [onEmptyLine, charAt, hl, bind, Except.bind, pure, Except.pure, hp]
  · have hlp : 0 < len l := by unfold len at hl ⊢; omega
    have := checkCommand_inside l (checkAppend l c) hlp h0 h1 (checkAppend_idem l c)
    -- checkCommand starts by CheckAppend, which is idempotent
    have he : checkCommand l c = checkCommand l (checkAppend l c) := by
      unfold checkCommand; simp only [checkAppend_idem]
    rw [he]; exact this

end RLV.Core
