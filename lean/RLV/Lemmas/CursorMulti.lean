import RLV.Lemmas.Layout
import RLV.Lemmas.DispSingle
/-! `core.CoordinatesCursor` (Model/Disp `coordsCursor`) on a buffer of several lines: the cursor in
line `k` at offset `o` is on the cell `o + indent` of the rows of line `k`. -/
namespace RLV.Disp

/-- positions of the ends of consecutive lines of the given lengths, the first starting at `b` -/
def ends : Nat → List Nat → List Nat
  | _, [] => []
  | b, n :: t => (b + n) :: ends (b + n + 1) t

def nlsFrom (s : Nat) (l : List Nat) : List Nat :=
  (((l ++ [10]).zipIdx s).filter (fun (p : Nat × Nat) => p.1 = 10)).map (fun (p : Nat × Nat) => p.2)

theorem newlines_eq (l : List Nat) : newlines l = nlsFrom 0 l := rfl

theorem filter_nl_free (a : List Nat) (s : Nat) (h : 10 ∉ a) :
    (a.zipIdx s).filter (fun (p : Nat × Nat) => p.1 = 10) = [] := by
  rw [List.filter_eq_nil_iff]
  intro p hp
  have hm := List.fst_mem_of_mem_zipIdx hp
  simp
  intro e
  exact h (e ▸ hm)

theorem nlsFrom_join : ∀ (ls : List (List Nat)) (s : Nat), ls ≠ [] → (∀ ln ∈ ls, 10 ∉ ln) →
    nlsFrom s (joinNL ls) = ends s (ls.map List.length)
  | [], _, h, _ => absurd rfl h
  | [a], s, _, hn => by
    show nlsFrom s a = _
    unfold nlsFrom
    rw [List.zipIdx_append, List.filter_append, filter_nl_free a s (hn a (by simp))]
    simp [ends]
  | a :: b :: t, s, _, hn => by
    show nlsFrom s (a ++ 10 :: joinNL (b :: t)) = _
    have ih := nlsFrom_join (b :: t) (s + a.length + 1) (by simp) (fun ln h => hn ln (by simp [h]))
    unfold nlsFrom at ih ⊢
    have e : (a ++ 10 :: joinNL (b :: t)) ++ [10] = a ++ (10 :: (joinNL (b :: t) ++ [10])) := by simp
    rw [e, List.zipIdx_append, List.filter_append, filter_nl_free a s (hn a (by simp))]
    simp only [List.nil_append, List.zipIdx_cons, List.map_cons, ends]
    rw [List.filter_cons_of_pos (by simp)]
    simp only [List.map_cons]
    rw [ih]
    simp [ends]

/-- rows contributed by lines of the given lengths, the first being line number `i` of the buffer -/
def spanRows (w p : Nat) : Nat → List Nat → Nat
  | _, [] => 0
  | i, n :: t => ((n + p) / w + (if i ≠ 0 then 1 else 0)) + spanRows w p (i + 1) t

theorem go_spec (w indent : Nat) (l : List Nat) (pos : Nat) :
    ∀ (lens : List Nat) (k o idx bpos usedY : Nat), k < lens.length → o ≤ lens.getD k 0 →
    pos = bpos + ((lens.take k).map (· + 1)).sum + o →
    bpos + ((lens.take k).map (· + 1)).sum + lens.getD k 0 ≤ l.length →
    coordsCursor.go w l pos indent (ends bpos lens) idx bpos usedY =
      ((o + indent) % w, usedY + spanRows w indent idx (lens.take k) + ((o + indent) / w + (if idx + k ≠ 0 then 1 else 0))) := by
  intro lens
  induction lens with
  | nil => intro k o idx bpos usedY hk; simp at hk
  | cons n t ih =>
    intro k o idx bpos usedY hk ho hpos hlen
    cases k with
    | zero =>
      simp only [List.take_zero, List.map_nil, List.sum_nil, Nat.add_zero, List.getD_cons_zero] at hpos ho hlen
      simp only [ends, coordsCursor.go]
      have : ¬ (bpos + n < pos) := by omega
      rw [if_neg this]
      have hl : ((l.drop bpos).take (pos - bpos)).length = o := by
        rw [List.length_take, List.length_drop]; omega
      simp [lineSpan, hl, spanRows]
    | succ k =>
      simp only [List.take_succ_cons, List.map_cons, List.sum_cons, List.getD_cons_succ] at hpos ho hlen
      simp only [ends, coordsCursor.go]
      have : bpos + n < pos := by omega
      rw [if_pos this]
      have hl : ((l.drop bpos).take (bpos + n - bpos)).length = n := by
        rw [List.length_take, List.length_drop]; omega
      have hk' : k < t.length := by simpa using hk
      rw [ih k o (idx + 1) (bpos + n + 1) _ hk' ho (by omega) (by omega)]
      simp only [lineSpan, hl, List.take_succ_cons, spanRows]
      refine Prod.ext rfl ?_
      simp only
      have e : idx + 1 + k = idx + (k + 1) := by omega
      rw [e]
      omega

theorem getD_map_length (ls : List (List Nat)) (k : Nat) :
    (ls.map List.length).getD k 0 = (ls.getD k []).length := by
  simp [List.getD, List.getElem?_map]
  cases ls[k]? <;> simp

/-- `CoordinatesCursor` on the buffer made of the lines `ls`, cursor in line `k` at offset `o` -/
theorem coordsCursor_join (w indent : Nat) (ls : List (List Nat)) (k o : Nat) (hne : ls ≠ [])
    (hfree : ∀ ln ∈ ls, 10 ∉ ln) (hk : k < ls.length) (ho : o ≤ (ls.getD k []).length) :
    coordsCursor w (joinNL ls) ((((ls.take k).map List.length).map (· + 1)).sum + o) indent =
      ((o + indent) % w,
        spanRows w indent 0 ((ls.take k).map List.length) + ((o + indent) / w + (if k ≠ 0 then 1 else 0))) := by
  unfold coordsCursor
  rw [newlines_eq, nlsFrom_join ls 0 hne hfree]
  have hlen : (joinNL ls).length + 1 = ((ls.map List.length).map (· + 1)).sum := by
    clear hk ho
    induction ls with
    | nil => exact absurd rfl hne
    | cons a t ih =>
      cases t with
      | nil => simp [joinNL]
      | cons b t' =>
        have := ih (by simp) (fun ln h => hfree ln (by simp [h]))
        show (a ++ 10 :: joinNL (b :: t')).length + 1 = _
        simp only [List.length_append, List.length_cons, List.map_cons, List.sum_cons] at this ⊢
        omega
  have hgd : (ls.map List.length).getD k 0 = (ls.getD k []).length := by
    simp [List.getD, List.getElem?_map]
    cases ls[k]? <;> simp
  have htk : (ls.map List.length).take k = (ls.take k).map List.length := by simp [List.map_take]
  have hsum : (((ls.map List.length).take k).map (· + 1)).sum + (ls.map List.length).getD k 0 ≤ (joinNL ls).length := by
    have hsplit : ((ls.map List.length).map (· + 1)).sum =
        (((ls.map List.length).take k).map (· + 1)).sum + (((ls.map List.length).drop k).map (· + 1)).sum := by
      rw [← List.sum_append, ← List.map_append, List.take_append_drop]
    have hdrop : (ls.map List.length).getD k 0 + 1 ≤ (((ls.map List.length).drop k).map (· + 1)).sum := by
      have hk2 : k < (ls.map List.length).length := by simpa using hk
      rw [List.drop_eq_getElem_cons hk2]
      simp only [List.map_cons, List.sum_cons]
      have : (ls.map List.length).getD k 0 = (ls.map List.length)[k] := by
        simp [List.getD, List.getElem?_eq_getElem hk2]
      omega
    omega
  have := go_spec w indent (joinNL ls) ((((ls.take k).map List.length).map (· + 1)).sum + o)
    (ls.map List.length) k o 0 0 0 (by simpa using hk) (by rw [hgd]; exact ho)
    (by rw [htk]; omega) (by simpa using hsum)
  rw [this, htk]
  simp

end RLV.Disp
