import RLV.Model.Keys
/-! Go's `unicode/utf8` as modelled in Model/Utf8.lean: encoding then decoding a valid rune gives it back
(bit operations turned into arithmetic, then `omega`), the well-formed multi-byte forms, and `utf8.FullRune`
on them and on their proper prefixes. -/
namespace RLV

theorem and3F (x : Nat) : x &&& 0x3F = x % 64 := Nat.and_two_pow_sub_one_eq_mod x 6
theorem and1F (x : Nat) : x &&& 0x1F = x % 32 := Nat.and_two_pow_sub_one_eq_mod x 5
theorem and0F (x : Nat) : x &&& 0x0F = x % 16 := Nat.and_two_pow_sub_one_eq_mod x 4
theorem and07 (x : Nat) : x &&& 0x07 = x % 8 := Nat.and_two_pow_sub_one_eq_mod x 3
theorem shr6 (x : Nat) : x >>> 6 = x / 64 := Nat.shiftRight_eq_div_pow x 6
theorem shr12 (x : Nat) : x >>> 12 = x / 4096 := Nat.shiftRight_eq_div_pow x 12
theorem shr18 (x : Nat) : x >>> 18 = x / 262144 := Nat.shiftRight_eq_div_pow x 18
theorem orShift (a c k : Nat) (h : c < 2 ^ k) : (a <<< k) ||| c = a * 2 ^ k + c := by
  rw [← Nat.shiftLeft_add_eq_or_of_lt h, Nat.shiftLeft_eq]
theorem orAdd (x y k : Nat) (hx : x % 2 ^ k = 0) (hy : y < 2 ^ k) : x ||| y = x + y := by
  have h := orShift (x / 2 ^ k) y k hy
  have e : (x / 2 ^ k) <<< k = x := by
    rw [Nat.shiftLeft_eq]
    have := Nat.div_add_mod x (2 ^ k)
    rw [hx, Nat.add_zero, Nat.mul_comm] at this
    exact this
  rw [e] at h
  rw [h]
  have := Nat.div_add_mod x (2 ^ k)
  rw [hx, Nat.add_zero, Nat.mul_comm] at this
  rw [this]
theorem or80 (c : Nat) (h : c < 64) : 0x80 ||| c = 0x80 + c := by
  have := orShift 2 c 6 (by simpa using h); simpa using this
theorem orC0 (c : Nat) (h : c < 32) : 0xC0 ||| c = 0xC0 + c := by
  have := orShift 6 c 5 (by simpa using h); simpa using this
theorem orE0 (c : Nat) (h : c < 16) : 0xE0 ||| c = 0xE0 + c := by
  have := orShift 14 c 4 (by simpa using h); simpa using this
theorem orF0 (c : Nat) (h : c < 8) : 0xF0 ||| c = 0xF0 + c := by
  have := orShift 30 c 3 (by simpa using h); simpa using this

theorem enc2 (r : Nat) (h0 : 0x80 ≤ r) (h1 : r < 0x800) :
    encodeRune r = [0xC0 + r / 64, 0x80 + r % 64] := by
  unfold encodeRune
  have c1 : ¬ (r > 0x10FFFF ∨ (0xD800 ≤ r ∧ r ≤ 0xDFFF)) := by omega
  have c2 : ¬ r < 0x80 := by omega
  simp only [c1, c2, h1, if_false, if_true, shr6, and3F]
  rw [orC0 _ (by omega), or80 _ (by omega)]

theorem enc3 (r : Nat) (h0 : 0x800 ≤ r) (h1 : r < 0x10000) (hs : ¬ (0xD800 ≤ r ∧ r ≤ 0xDFFF)) :
    encodeRune r = [0xE0 + r / 4096, 0x80 + (r / 64) % 64, 0x80 + r % 64] := by
  unfold encodeRune
  have c1 : ¬ (r > 0x10FFFF ∨ (0xD800 ≤ r ∧ r ≤ 0xDFFF)) := by omega
  have c2 : ¬ r < 0x80 := by omega
  have c3 : ¬ r < 0x800 := by omega
  simp only [c1, c2, c3, h1, if_false, if_true, shr6, shr12, and3F]
  rw [orE0 _ (by omega), or80 _ (by omega), or80 _ (by omega)]

theorem enc4 (r : Nat) (h0 : 0x10000 ≤ r) (h1 : r ≤ 0x10FFFF) :
    encodeRune r = [0xF0 + r / 262144, 0x80 + (r / 4096) % 64, 0x80 + (r / 64) % 64, 0x80 + r % 64] := by
  unfold encodeRune
  have c1 : ¬ (r > 0x10FFFF ∨ (0xD800 ≤ r ∧ r ≤ 0xDFFF)) := by omega
  have c2 : ¬ r < 0x80 := by omega
  have c3 : ¬ r < 0x800 := by omega
  have c4 : ¬ r < 0x10000 := by omega
  simp only [c1, c2, c3, c4, if_false, shr6, shr12, shr18, and3F]
  rw [orF0 _ (by omega), or80 _ (by omega), or80 _ (by omega), or80 _ (by omega)]

theorem cont_iff (b : Nat) : cont b = true ↔ (0x80 ≤ b ∧ b ≤ 0xBF) := by
  unfold cont; simp

/-- decoding a well-formed two-byte form -/
theorem dec2 (b0 b1 : Nat) (rest : List Nat) (h0 : 0xC2 ≤ b0) (h1 : b0 ≤ 0xDF) (h2 : 0x80 ≤ b1) (h3 : b1 ≤ 0xBF) :
    decodeRune (b0 :: b1 :: rest) = ((b0 - 0xC0) * 64 + (b1 - 0x80), 2) := by
  unfold decodeRune
  have c1 : ¬ b0 < 0x80 := by omega
  have c2 : ¬ b0 < 0xC2 := by omega
  have c3 : b0 < 0xE0 := by omega
  have hc : cont b1 = true := (cont_iff b1).mpr ⟨h2, h3⟩
  simp only [c1, c2, c3, if_false, if_true, hc, and1F, and3F]
  rw [orShift _ _ 6 (by omega)]
  refine Prod.ext ?_ rfl
  show b0 % 32 * 2 ^ 6 + b1 % 64 = _
  omega

/-- decoding a well-formed three-byte form (second byte range restricted after E0 and ED) -/
theorem dec3 (b0 b1 b2 : Nat) (rest : List Nat) (h0 : 0xE0 ≤ b0) (h1 : b0 ≤ 0xEF)
    (h2 : (if b0 = 0xE0 then 0xA0 else 0x80) ≤ b1) (h3 : b1 ≤ (if b0 = 0xED then 0x9F else 0xBF))
    (h4 : 0x80 ≤ b2) (h5 : b2 ≤ 0xBF) :
    decodeRune (b0 :: b1 :: b2 :: rest) = ((b0 - 0xE0) * 4096 + (b1 - 0x80) * 64 + (b2 - 0x80), 3) := by
  unfold decodeRune
  have c1 : ¬ b0 < 0x80 := by omega
  have c2 : ¬ b0 < 0xC2 := by omega
  have c3 : ¬ b0 < 0xE0 := by omega
  have c4 : b0 < 0xF0 := by omega
  have hc : cont b2 = true := (cont_iff b2).mpr ⟨h4, h5⟩
  have hb1 : 0x80 ≤ b1 ∧ b1 ≤ 0xBF := by
    constructor
    · split at h2 <;> omega
    · split at h3 <;> omega
  simp only [c1, c2, c3, c4, if_false, if_true, hc, h2, h3, and_self, and0F, and3F]
  rw [Nat.shiftLeft_eq, Nat.shiftLeft_eq]
  rw [orAdd (b0 % 16 * 2 ^ 12) (b1 % 64 * 2 ^ 6) 12 (by omega) (by omega)]
  rw [orAdd (b0 % 16 * 2 ^ 12 + b1 % 64 * 2 ^ 6) (b2 % 64) 6 (by omega) (by omega)]
  refine Prod.ext ?_ rfl
  show b0 % 16 * 2 ^ 12 + b1 % 64 * 2 ^ 6 + b2 % 64 = _
  omega

/-- decoding a well-formed four-byte form (second byte range restricted after F0 and F4) -/
theorem dec4 (b0 b1 b2 b3 : Nat) (rest : List Nat) (h0 : 0xF0 ≤ b0) (h1 : b0 ≤ 0xF4)
    (h2 : (if b0 = 0xF0 then 0x90 else 0x80) ≤ b1) (h3 : b1 ≤ (if b0 = 0xF4 then 0x8F else 0xBF))
    (h4 : 0x80 ≤ b2) (h5 : b2 ≤ 0xBF) (h6 : 0x80 ≤ b3) (h7 : b3 ≤ 0xBF) :
    decodeRune (b0 :: b1 :: b2 :: b3 :: rest) =
      ((b0 - 0xF0) * 262144 + (b1 - 0x80) * 4096 + (b2 - 0x80) * 64 + (b3 - 0x80), 4) := by
  unfold decodeRune
  have c1 : ¬ b0 < 0x80 := by omega
  have c2 : ¬ b0 < 0xC2 := by omega
  have c3 : ¬ b0 < 0xE0 := by omega
  have c4 : ¬ b0 < 0xF0 := by omega
  have c5 : b0 < 0xF5 := by omega
  have hc2 : cont b2 = true := (cont_iff b2).mpr ⟨h4, h5⟩
  have hc3 : cont b3 = true := (cont_iff b3).mpr ⟨h6, h7⟩
  have hb1 : 0x80 ≤ b1 ∧ b1 ≤ 0xBF := by
    constructor
    · split at h2 <;> omega
    · split at h3 <;> omega
  simp only [c1, c2, c3, c4, c5, if_false, if_true, hc2, hc3, h2, h3, and_self, and07, and3F]
  rw [Nat.shiftLeft_eq, Nat.shiftLeft_eq, Nat.shiftLeft_eq]
  rw [orAdd (b0 % 8 * 2 ^ 18) (b1 % 64 * 2 ^ 12) 18 (by omega) (by omega)]
  rw [orAdd (b0 % 8 * 2 ^ 18 + b1 % 64 * 2 ^ 12) (b2 % 64 * 2 ^ 6) 12 (by omega) (by omega)]
  rw [orAdd (b0 % 8 * 2 ^ 18 + b1 % 64 * 2 ^ 12 + b2 % 64 * 2 ^ 6) (b3 % 64) 6 (by omega) (by omega)]
  refine Prod.ext ?_ rfl
  show b0 % 8 * 2 ^ 18 + b1 % 64 * 2 ^ 12 + b2 % 64 * 2 ^ 6 + b3 % 64 = _
  omega

theorem encodeRune_ne_nil (r : Nat) : encodeRune r ≠ [] := by
  unfold encodeRune
  simp only
  repeat' split
  all_goals simp

/-- a rune that has a UTF-8 encoding of its own (Go: `utf8.ValidRune`) -/
def ValidRune (r : Nat) : Prop := r ≤ 0x10FFFF ∧ ¬ (0xD800 ≤ r ∧ r ≤ 0xDFFF)

/-- Go's `utf8.DecodeRune(utf8.AppendRune(nil, r))` gives `r` back with the length of the encoding,
whatever follows the encoding -/
theorem decode_encode (r : Nat) (hv : ValidRune r) (rest : List Nat) :
    decodeRune (encodeRune r ++ rest) = (r, (encodeRune r).length) := by
  obtain ⟨hv1, hv2⟩ := hv
  by_cases h1 : r < 0x80
  · have : encodeRune r = [r] := by
      unfold encodeRune
      have c1 : ¬ (r > 0x10FFFF ∨ (0xD800 ≤ r ∧ r ≤ 0xDFFF)) := by omega
      simp only [c1, if_false, h1, if_true]
    rw [this]
    simp [decodeRune, h1]
  · by_cases h2 : r < 0x800
    · rw [enc2 r (by omega) h2]
      simp only [List.cons_append, List.nil_append, List.length_cons, List.length_nil]
      rw [dec2 _ _ rest (by omega) (by omega) (by omega) (by omega)]
      refine Prod.ext ?_ rfl
      simp only
      omega
    · by_cases h3 : r < 0x10000
      · rw [enc3 r (by omega) h3 hv2]
        simp only [List.cons_append, List.nil_append, List.length_cons, List.length_nil]
        rw [dec3 _ _ _ rest (by omega) (by omega) (by split <;> omega) (by split <;> omega) (by omega) (by omega)]
        refine Prod.ext ?_ rfl
        simp only
        omega
      · rw [enc4 r (by omega) hv1]
        simp only [List.cons_append, List.nil_append, List.length_cons, List.length_nil]
        rw [dec4 _ _ _ _ rest (by omega) (by omega) (by split <;> omega) (by split <;> omega) (by omega) (by omega)
          (by omega) (by omega)]
        refine Prod.ext ?_ rfl
        simp only
        omega

/-- the well-formed multi-byte UTF-8 forms (Unicode Table 3-7) -/
inductive WFEnc : List Nat → Prop
  | two (b0 b1 : Nat) (h0 : 0xC2 ≤ b0) (h1 : b0 ≤ 0xDF) (h2 : 0x80 ≤ b1) (h3 : b1 ≤ 0xBF) : WFEnc [b0, b1]
  | three (b0 b1 b2 : Nat) (h0 : 0xE0 ≤ b0) (h1 : b0 ≤ 0xEF)
      (h2 : (if b0 = 0xE0 then 0xA0 else 0x80) ≤ b1) (h3 : b1 ≤ (if b0 = 0xED then 0x9F else 0xBF))
      (h4 : 0x80 ≤ b2) (h5 : b2 ≤ 0xBF) : WFEnc [b0, b1, b2]
  | four (b0 b1 b2 b3 : Nat) (h0 : 0xF0 ≤ b0) (h1 : b0 ≤ 0xF4)
      (h2 : (if b0 = 0xF0 then 0x90 else 0x80) ≤ b1) (h3 : b1 ≤ (if b0 = 0xF4 then 0x8F else 0xBF))
      (h4 : 0x80 ≤ b2) (h5 : b2 ≤ 0xBF) (h6 : 0x80 ≤ b3) (h7 : b3 ≤ 0xBF) : WFEnc [b0, b1, b2, b3]

theorem wf_of_encode (r : Nat) (hv : ValidRune r) (h80 : 0x80 ≤ r) : WFEnc (encodeRune r) := by
  obtain ⟨hv1, hv2⟩ := hv
  by_cases h2 : r < 0x800
  · rw [enc2 r h80 h2]
    exact .two _ _ (by omega) (by omega) (by omega) (by omega)
  · by_cases h3 : r < 0x10000
    · rw [enc3 r (by omega) h3 hv2]
      exact .three _ _ _ (by omega) (by omega) (by split <;> omega) (by split <;> omega) (by omega) (by omega)
    · rw [enc4 r (by omega) hv1]
      exact .four _ _ _ _ (by omega) (by omega) (by split <;> omega) (by split <;> omega) (by omega) (by omega)
        (by omega) (by omega)

theorem wf_head {E : List Nat} (h : WFEnc E) : ∃ b0 t, E = b0 :: t ∧ 0xC2 ≤ b0 ∧ b0 ≤ 0xF4 ∧ t ≠ [] ∧ t.length ≤ 3 := by
  cases h with
  | two b0 b1 h0 h1 _ _ => exact ⟨b0, [b1], rfl, h0, by omega, by simp, by simp⟩
  | three b0 b1 b2 h0 h1 _ _ _ _ => exact ⟨b0, [b1, b2], rfl, by omega, by omega, by simp, by simp⟩
  | four b0 b1 b2 b3 h0 h1 _ _ _ _ _ _ => exact ⟨b0, [b1, b2, b3], rfl, by omega, by omega, by simp, by simp⟩

theorem wf_full {E : List Nat} (h : WFEnc E) : fullRune E = true := by
  cases h with
  | two b0 b1 h0 h1 _ _ =>
    have c1 : ¬ b0 < 0x80 := by omega
    have c2 : ¬ b0 < 0xC2 := by omega
    have c3 : b0 < 0xE0 := by omega
    simp [fullRune, c1, c2, c3]
  | three b0 b1 b2 h0 h1 _ _ _ _ =>
    have c1 : ¬ b0 < 0x80 := by omega
    have c2 : ¬ b0 < 0xC2 := by omega
    have c3 : ¬ b0 < 0xE0 := by omega
    have c4 : b0 < 0xF0 := by omega
    simp [fullRune, c1, c2, c3, c4]
  | four b0 b1 b2 b3 h0 h1 _ _ _ _ _ _ =>
    have c1 : ¬ b0 < 0x80 := by omega
    have c2 : ¬ b0 < 0xC2 := by omega
    have c3 : ¬ b0 < 0xE0 := by omega
    have c4 : ¬ b0 < 0xF0 := by omega
    have c5 : b0 < 0xF5 := by omega
    simp [fullRune, c1, c2, c3, c4, c5]

/-- no proper prefix of a well-formed form is a full rune: `utf8.FullRune` asks for more -/
theorem wf_prefix_notfull {E : List Nat} (h : WFEnc E) (p q : List Nat) (hpq : p ++ q = E) (hq : q ≠ []) :
    fullRune p = false := by
  cases h with
  | two b0 b1 h0 h1 h2 h3 =>
    have c1 : ¬ b0 < 0x80 := by omega
    have c2 : ¬ b0 < 0xC2 := by omega
    have c3 : b0 < 0xE0 := by omega
    match p, hpq with
    | [], _ => rfl
    | [x], hpq =>
      obtain ⟨rfl, _⟩ : x = b0 ∧ q = [b1] := by simpa using hpq
      simp [fullRune, c1, c2, c3]
    | x :: y :: t, hpq =>
      exfalso
      have := congrArg List.length hpq
      simp at this
      cases q with
      | nil => exact hq rfl
      | cons _ _ => simp at this
  | three b0 b1 b2 h0 h1 h2 h3 h4 h5 =>
    have c1 : ¬ b0 < 0x80 := by omega
    have c2 : ¬ b0 < 0xC2 := by omega
    have c3 : ¬ b0 < 0xE0 := by omega
    have c4 : b0 < 0xF0 := by omega
    match p, hpq with
    | [], _ => rfl
    | [x], hpq =>
      obtain ⟨rfl, _⟩ : x = b0 ∧ q = [b1, b2] := by simpa using hpq
      simp [fullRune, c1, c2, c3, c4]
    | [x, y], hpq =>
      obtain ⟨rfl, rfl, _⟩ : x = b0 ∧ y = b1 ∧ q = [b2] := by simpa using hpq
      have hne0 : ¬ x = 0xF0 := by omega
      have hne4 : ¬ x = 0xF4 := by omega
      simp only [fullRune, c1, c2, c3, c4, if_false, if_true, List.length_cons, List.length_nil, hne0, hne4]
      have g1 : ¬ (2 ≥ 3) := by omega
      have g2 : ¬ (y < (if x = 0xE0 then 0xA0 else 0x80) ∨ (if x = 0xED then 0x9F else 0xBF) < y) := by omega
      simp [g2]
    | x :: y :: z :: t, hpq =>
      exfalso
      have := congrArg List.length hpq
      simp at this
      cases q with
      | nil => exact hq rfl
      | cons _ _ => simp at this
  | four b0 b1 b2 b3 h0 h1 h2 h3 h4 h5 h6 h7 =>
    have c1 : ¬ b0 < 0x80 := by omega
    have c2 : ¬ b0 < 0xC2 := by omega
    have c3 : ¬ b0 < 0xE0 := by omega
    have c4 : ¬ b0 < 0xF0 := by omega
    have c5 : b0 < 0xF5 := by omega
    have hneE0 : ¬ b0 = 0xE0 := by omega
    have hneED : ¬ b0 = 0xED := by omega
    match p, hpq with
    | [], _ => rfl
    | [x], hpq =>
      obtain ⟨rfl, _⟩ : x = b0 ∧ q = [b1, b2, b3] := by simpa using hpq
      simp [fullRune, c1, c2, c3, c4, c5]
    | [x, y], hpq =>
      obtain ⟨rfl, rfl, _⟩ : x = b0 ∧ y = b1 ∧ q = [b2, b3] := by simpa using hpq
      have g2 : ¬ (y < (if x = 0xF0 then 0x90 else 0x80) ∨ (if x = 0xF4 then 0x8F else 0xBF) < y) := by omega
      simp [fullRune, c1, c2, c3, c4, c5, hneE0, hneED, g2]
    | [x, y, z], hpq =>
      obtain ⟨rfl, rfl, rfl, _⟩ : x = b0 ∧ y = b1 ∧ z = b2 ∧ q = [b3] := by simpa using hpq
      have g2 : ¬ (y < (if x = 0xF0 then 0x90 else 0x80) ∨ (if x = 0xF4 then 0x8F else 0xBF) < y) := by omega
      have hc : cont z = true := (cont_iff z).mpr ⟨h4, h5⟩
      simp [fullRune, c1, c2, c3, c4, c5, hneE0, hneED, g2, hc]
    | x :: y :: z :: w :: t, hpq =>
      exfalso
      have := congrArg List.length hpq
      simp at this
      cases q with
      | nil => exact hq rfl
      | cons _ _ => simp at this

/-- `[]rune(string(bytes))` of the encoding of one rune is that rune -/
theorem runes_of_encode (r : Nat) (hv : ValidRune r) : runesOfBytes (encodeRune r) = [r] := by
  have hd := decode_encode r hv []
  rw [List.append_nil] at hd
  have hne : (encodeRune r).length ≠ 0 := by
    intro h
    have : encodeRune r = [] := List.length_eq_zero_iff.mp h
    unfold encodeRune at this
    simp only at this
    repeat' split at this
    all_goals simp at this
  unfold runesOfBytes
  cases hn : (encodeRune r).length with
  | zero => exact absurd hn hne
  | succ n =>
    cases hE : encodeRune r with
    | nil => rw [hE] at hn; simp at hn
    | cons b t =>
      unfold decodeAll
      rw [← hE, hd]
      simp only
      have : max (encodeRune r).length 1 = (encodeRune r).length := by omega
      rw [this, List.drop_length]
      cases n <;> simp [decodeAll]

/-- a proper prefix of a well-formed form decodes to U+FFFD (too short) -/
theorem wf_prefix_decode {E : List Nat} (h : WFEnc E) (p q : List Nat) (hpq : p ++ q = E) (hq : q ≠ [])
    (hp : p ≠ []) : (decodeRune p).1 = 0xFFFD := by
  have hlen : p.length < E.length := by
    rw [← hpq, List.length_append]
    have : q.length ≠ 0 := fun h => hq (List.length_eq_zero_iff.mp h)
    omega
  cases h with
  | two b0 b1 h0 h1 h2 h3 =>
    have c1 : ¬ b0 < 0x80 := by omega
    have c2 : ¬ b0 < 0xC2 := by omega
    have c3 : b0 < 0xE0 := by omega
    match p, hpq, hlen, hp with
    | [x], hpq, _, _ =>
      obtain ⟨rfl, _⟩ : x = b0 ∧ q = [b1] := by simpa using hpq
      simp [decodeRune, c1, c2, c3]
    | _ :: _ :: _, _, hlen, _ => simp at hlen; omega
  | three b0 b1 b2 h0 h1 h2 h3 h4 h5 =>
    have c1 : ¬ b0 < 0x80 := by omega
    have c2 : ¬ b0 < 0xC2 := by omega
    have c3 : ¬ b0 < 0xE0 := by omega
    have c4 : b0 < 0xF0 := by omega
    match p, hpq, hlen, hp with
    | [x], hpq, _, _ =>
      obtain ⟨rfl, _⟩ : x = b0 ∧ q = [b1, b2] := by simpa using hpq
      simp [decodeRune, c1, c2, c3, c4]
    | [x, y], hpq, _, _ =>
      obtain ⟨rfl, rfl, _⟩ : x = b0 ∧ y = b1 ∧ q = [b2] := by simpa using hpq
      simp [decodeRune, c1, c2, c3, c4]
    | _ :: _ :: _ :: _, _, hlen, _ => simp at hlen; omega
  | four b0 b1 b2 b3 h0 h1 h2 h3 h4 h5 h6 h7 =>
    have c1 : ¬ b0 < 0x80 := by omega
    have c2 : ¬ b0 < 0xC2 := by omega
    have c3 : ¬ b0 < 0xE0 := by omega
    have c4 : ¬ b0 < 0xF0 := by omega
    have c5 : b0 < 0xF5 := by omega
    match p, hpq, hlen, hp with
    | [x], hpq, _, _ =>
      obtain ⟨rfl, _⟩ : x = b0 ∧ q = [b1, b2, b3] := by simpa using hpq
      simp [decodeRune, c1, c2, c3, c4, c5]
    | [x, y], hpq, _, _ =>
      obtain ⟨rfl, rfl, _⟩ : x = b0 ∧ y = b1 ∧ q = [b2, b3] := by simpa using hpq
      simp [decodeRune, c1, c2, c3, c4, c5]
    | [x, y, z], hpq, _, _ =>
      obtain ⟨rfl, rfl, rfl, _⟩ : x = b0 ∧ y = b1 ∧ z = b2 ∧ q = [b3] := by simpa using hpq
      simp [decodeRune, c1, c2, c3, c4, c5]
    | _ :: _ :: _ :: _ :: _, _, hlen, _ => simp at hlen; omega

/-- hence `[]rune(string(p))` starts with U+FFFD -/
theorem wf_prefix_runes {E : List Nat} (h : WFEnc E) (p q : List Nat) (hpq : p ++ q = E) (hq : q ≠ [])
    (hp : p ≠ []) : ∃ t, runesOfBytes p = 0xFFFD :: t := by
  have hd := wf_prefix_decode h p q hpq hq hp
  unfold runesOfBytes
  cases p with
  | nil => exact absurd rfl hp
  | cons b t =>
    simp only [List.length_cons]
    unfold decodeAll
    simp only
    exact ⟨_, by rw [hd]⟩
end RLV
