import RLV.Lemmas.RefreshSingle
import RLV.Lemmas.Layout
/-! The redisplay of a buffer of several lines (`Disp.refresh` on `joinNL ls`), on the terminal model:
token shapes, the cells each line paints, the cursor. Width-1 glyphs. -/
namespace RLV.Disp

/-- the line ends on the last column of a row -/
def marginB (w indent : Nat) (ln : List Nat) : Bool := (ln.length + indent) % w == 0 && ln.length + indent > 0

/-- what is written for the text of one line, from its indentation on: the text, then the rest of its
last row erased (on the next row when the text ends on the last column) -/
def bodyToks (w indent : Nat) (ln : List Nat) : List Tk :=
  (if ln.isEmpty then [] else [.text ln]) ++ (if marginB w indent ln then [.crlf, .el0] else [.el0])

/-- the indentation of a line that is not the first: cursor forward, erase to the start of the row -/
def headToks (indent : Nat) : List Tk := mv .cuf indent ++ [.el1]

/-- the lines after the first -/
def moreToks (w indent : Nat) : List (List Nat) → List Tk
  | [] => []
  | ln :: rest => [.crlf] ++ headToks indent ++ bodyToks w indent ln ++ moreToks w indent rest

/-- one line of `displayLine` -/
def dlLine (w indent last : Nat) (clr : Bool) (p : List Nat × Nat) : List Tk :=
  let isLast := p.2 = last
  let atMargin := (p.1.length + indent) % w == 0 && p.1.length + indent > 0
  (if p.2 > 0 then mv .cuf indent ++ [.el1] else []) ++
  (if p.1.isEmpty then [] else [.text p.1]) ++
  (if isLast && clr then [.el0] else []) ++
  (if !isLast then (if atMargin then [.crlf, .el0] else [.el0]) ++ [.crlf] else [])

theorem displayLine_eq (w indent : Nat) (l : List Nat) (clr : Bool) :
    displayLine w indent l clr =
      ((splitNL l).zipIdx.map (dlLine w indent ((splitNL l).length - 1) clr)).flatten := rfl

theorem dl_lines (w indent : Nat) (lastLn : List Nat) : ∀ (ls : List (List Nat)) (k last : Nat) (a : List Nat) (rest : List (List Nat)),
    ls = a :: rest → last + 1 = k + ls.length → ls.getLast? = some lastLn →
    ((ls.zipIdx k).map (dlLine w indent last (!marginB w indent lastLn))).flatten ++
        (if marginB w indent lastLn then [.crlf, .el0] else []) =
      (if k > 0 then headToks indent else []) ++ bodyToks w indent a ++ moreToks w indent rest := by
  intro ls
  induction ls with
  | nil => intro k last a rest h; cases h
  | cons x t ih =>
    intro k last a rest h hlast hgl
    cases h
    cases t with
    | nil =>
      have hk : k = last := by simp at hlast; omega
      have hx : x = lastLn := by simpa using hgl
      subst hk hx
      simp only [List.zipIdx_cons, List.zipIdx_nil, List.map_cons, List.map_nil, List.flatten_cons,
        List.flatten_nil, List.append_nil, moreToks, dlLine, headToks, bodyToks]
      by_cases hm : marginB w indent x = true <;> by_cases hk0 : k > 0 <;> simp [hm, hk0]
    | cons b t' =>
      have hk : k ≠ last := by simp at hlast; omega
      have hgl' : (b :: t').getLast? = some lastLn := by simpa [List.getLast?_cons_cons] using hgl
      have := ih (k + 1) last b t' rfl (by simp at hlast ⊢; omega) hgl'
      simp only [List.zipIdx_cons, List.map_cons, List.flatten_cons, List.append_assoc] at this ⊢
      rw [this]
      simp only [moreToks, dlLine, headToks, bodyToks, marginB]
      by_cases hk0 : k > 0 <;> simp [hk, hk0]

end RLV.Disp

namespace RLV.Term
open RLV.Disp

/-- the cells of row `y` from column `x` on, in linear order -/
theorem row_seg {w x y r c : Nat} (hx : x < w) (hc : c < w) :
    (r = y ∧ x ≤ c) ↔ (y * w + x ≤ r * w + c ∧ r * w + c < (y + 1) * w) := by
  have hl := @lin_ge w x y r c hx hc
  constructor
  · rintro ⟨rfl, h⟩
    exact ⟨by omega, by rw [Nat.add_mul]; omega⟩
  · rintro ⟨h1, h2⟩
    rcases hl.mp h1 with h | h
    · exfalso
      have : (y + 1) * w ≤ r * w := Nat.mul_le_mul_right w h
      omega
    · exact h

theorem settle_of_pw (t : Term) (h : t.pw = true) : t.crlf = t.settle := by
  cases t; simp_all [crlf, settle, nx, ny]

theorem settle_of_not_pw (t : Term) (h : t.pw = false) : t = t.settle := by
  cases t; simp_all [settle, nx, ny]

theorem getD_any {l : List Nat} {i : Nat} (h : i < l.length) (a b : Nat) : l.getD i a = l.getD i b := by
  simp [List.getD, List.getElem?_eq_getElem h]

theorem getD_blank {l : List Nat} {i : Nat} (h : l.length ≤ i) (a : Nat) : l.getD i a = a := by
  simp [List.getD, List.getElem?_eq_none h]

/-- The text of one line printed from its indentation (`bodyToks`): the text is on the screen from the
cursor cell on, the rest of its last row is blank (a whole blank row when the text ends on the last
column), nothing else changes; the cursor ends after the text, wrap settled. -/
theorem body_paint (w indent R : Nat) (ln : List Nat) (t : Term) (hw : t.w = w) (hx : t.x = indent)
    (hy : t.y = R) (hpw : t.pw = false) (hi : indent < w) :
    let n := ln.length + indent
    let t' := t.run (bodyToks w indent ln)
    t'.w = w ∧ t'.x = n % w ∧ t'.y = R + n / w ∧ t'.pw = false ∧
    ∀ r c, c < w → t'.cell r c =
      if R * w + indent ≤ r * w + c ∧ r * w + c < (R + n / w + 1) * w
      then ln.getD (r * w + c - (R * w + indent)) blank else t.cell r c := by
  intro n t'
  have hw0 : 0 < w := by omega
  have hwf : t.WF := ⟨by rw [hw]; exact hw0, by rw [hx, hw]; exact hi, by rw [hpw]; intro h; cases h⟩
  have hL : t.L = R * w + indent := by simp [L, nx, ny, hpw, hx, hy, hw]
  obtain ⟨h1wf, h1w, h1L, h1c⟩ := puts_spec ln t hwf
  rw [hw] at h1w h1c
  rw [hL] at h1L h1c
  have hLn : (t.puts ln).L = R * w + n := by rw [h1L]; omega
  obtain ⟨h1d, h1m⟩ := L_div_mod (t.puts ln) h1wf
  rw [h1w, hLn] at h1d h1m
  have hdiv : (R * w + n) / w = R + n / w := by
    rw [Nat.add_comm, Nat.add_mul_div_right _ _ hw0, Nat.add_comm]
  have hmod : (R * w + n) % w = n % w := by
    rw [Nat.add_comm, Nat.add_mul_mod_self_right]
  rw [hdiv] at h1d
  rw [hmod] at h1m
  replace h1d := h1d.symm
  replace h1m := h1m.symm
  -- the run, in terms of the settled terminal
  have hrun : t' = ((t.puts ln).settle).el0 := by
    show t.run (bodyToks w indent ln) = _
    unfold bodyToks
    rw [run_append]
    have e1 : t.run (if ln.isEmpty then [] else [.text ln]) = t.puts ln := by
      cases ln <;> simp [run, step, puts]
    rw [e1]
    by_cases hm : marginB w indent ln = true
    · have hm' : n % w = 0 ∧ 0 < n := by simpa [marginB, n] using hm
      have hne : ln ≠ [] := by
        intro h
        have : n = indent := by simp [n, h]
        rw [this, Nat.mod_eq_of_lt hi] at hm'
        omega
      have hp : (t.puts ln).pw = true := by
        rw [puts_pw ln hne t hwf, hL, hw]
        have : R * w + indent + ln.length = R * w + n := by omega
        rw [this, hmod]; simp [hm'.1]
      rw [if_pos hm]
      show ((t.puts ln).crlf).el0 = _
      rw [settle_of_pw _ hp]
    · have hm' : ¬ (n % w = 0 ∧ 0 < n) := by simpa [marginB, n] using hm
      have hp : (t.puts ln).pw = false := by
        by_cases hne : ln = []
        · rw [hne, puts_nil]; exact hpw
        · rw [puts_pw ln hne t hwf, hL, hw]
          have : R * w + indent + ln.length = R * w + n := by omega
          rw [this, hmod]
          have hn0 : 0 < n := by
            have := List.length_pos_iff.mpr hne
            omega
          have : n % w ≠ 0 := fun h => hm' ⟨h, hn0⟩
          simp [this]
      rw [if_neg hm]
      show (t.puts ln).el0 = _
      rw [← settle_of_not_pw _ hp]
  have hnx : n % w < w := Nat.mod_lt _ hw0
  rw [hrun]
  refine ⟨h1w, h1m, h1d, rfl, ?_⟩
  intro r c hc
  show (if r = (t.puts ln).ny ∧ (t.puts ln).nx ≤ c then blank else (t.puts ln).cell r c) = _
  rw [h1d, h1m, h1c r c hc]
  have hseg := @row_seg w (n % w) (R + n / w) r c hnx hc
  have hlin : (R + n / w) * w + n % w = R * w + n := by
    rw [Nat.add_mul]
    have := Nat.div_add_mod n w
    rw [Nat.mul_comm] at this
    omega
  rw [hlin] at hseg
  by_cases hA : r = R + n / w ∧ n % w ≤ c
  · have hB := hseg.mp hA
    have hin : R * w + indent ≤ r * w + c ∧ r * w + c < (R + n / w + 1) * w := ⟨by omega, hB.2⟩
    rw [if_pos hA, if_pos hin, getD_blank (by omega)]
  · have hB : ¬ (R * w + n ≤ r * w + c ∧ r * w + c < (R + n / w + 1) * w) := fun h => hA (hseg.mpr h)
    rw [if_neg hA]
    by_cases hin : R * w + indent ≤ r * w + c ∧ r * w + c < R * w + indent + ln.length
    · have hle : R * w + n < (R + n / w + 1) * w := by
        rw [← hlin, Nat.add_mul (R + n / w) 1 w]; omega
      have hin' : R * w + indent ≤ r * w + c ∧ r * w + c < (R + n / w + 1) * w := ⟨hin.1, by omega⟩
      rw [if_pos hin, if_pos hin']
      exact getD_any (by omega) _ _
    · rw [if_neg hin]
      have hin' : ¬ (R * w + indent ≤ r * w + c ∧ r * w + c < (R + n / w + 1) * w) := by
        intro h
        apply hB
        refine ⟨?_, h.2⟩
        have : ¬ (r * w + c < R * w + indent + ln.length) := fun h' => hin ⟨h.1, h'⟩
        omega
      rw [if_neg hin']

theorem mv_cuf_run (t : Term) (n : Nat) (hx : t.x = 0) (hn : n < t.w) :
    (t.run (mv .cuf (n : Int))).x = n ∧ (t.run (mv .cuf (n : Int))).y = t.y ∧
    (t.run (mv .cuf (n : Int))).pw = (if n = 0 then t.pw else false) ∧
    (t.run (mv .cuf (n : Int))).w = t.w ∧ (t.run (mv .cuf (n : Int))).cell = t.cell := by
  rw [mv_nat]
  by_cases h : n = 0
  · subst h; simp [run, hx]
  · simp only [h, if_false]
    refine ⟨?_, rfl, rfl, rfl, rfl⟩
    show min (t.x + n) (t.w - 1) = n
    rw [hx]; omega

/-- A line that is not the first, from the start of its first row (`headToks ++ bodyToks`): its rows
show the indentation blank, then the text, then blanks to the end of its last row. -/
theorem block_paint (w indent R : Nat) (ln : List Nat) (t : Term) (hw : t.w = w) (hx : t.x = 0)
    (hy : t.y = R) (hpw : t.pw = false) (hi : indent < w) :
    let t' := t.run (headToks indent ++ bodyToks w indent ln)
    t'.w = w ∧ t'.x = (ln.length + indent) % w ∧ t'.y = R + (ln.length + indent) / w ∧ t'.pw = false ∧
    ∀ r c, c < w → t'.cell r c =
      if R * w ≤ r * w + c ∧ r * w + c < (R + (ln.length + indent) / w + 1) * w
      then (List.replicate indent blank ++ ln).getD (r * w + c - R * w) blank else t.cell r c := by
  intro t'
  have hmv := mv_cuf_run t indent hx (by rw [hw]; exact hi)
  generalize hta : t.run (mv .cuf (indent : Int)) = ta at hmv
  obtain ⟨hax, hay, hapw, haw, hac⟩ := hmv
  have hapw' : ta.pw = false := by rw [hapw]; split <;> simp [hpw]
  have hrun : t' = (ta.el1).run (bodyToks w indent ln) := by
    show t.run (headToks indent ++ bodyToks w indent ln) = _
    unfold headToks
    rw [run_append, run_append, hta]
    rfl
  obtain ⟨b1, b2, b3, b4, b5⟩ := body_paint w indent R ln ta.el1 (by show ta.w = w; rw [haw, hw])
    (by show ta.x = indent; exact hax) (by show ta.y = R; rw [hay, hy]) (by show ta.pw = false; exact hapw') hi
  rw [hrun]
  refine ⟨b1, b2, b3, b4, ?_⟩
  intro r c hc
  rw [b5 r c hc]
  have hE : R * w + indent < (R + (ln.length + indent) / w + 1) * w := by
    have : (R + 1) * w ≤ (R + (ln.length + indent) / w + 1) * w :=
      Nat.mul_le_mul_right w (Nat.succ_le_succ (Nat.le_add_right _ _))
    rw [Nat.add_mul] at this
    omega
  by_cases hin : R * w + indent ≤ r * w + c ∧ r * w + c < (R + (ln.length + indent) / w + 1) * w
  · have hin' : R * w ≤ r * w + c ∧ r * w + c < (R + (ln.length + indent) / w + 1) * w := ⟨by omega, hin.2⟩
    rw [if_pos hin, if_pos hin']
    have : r * w + c - R * w = indent + (r * w + c - (R * w + indent)) := by omega
    rw [this]
    simp [List.getD, List.getElem?_append_right]
  · rw [if_neg hin]
    show (if r = ta.y ∧ c ≤ ta.x then blank else ta.cell r c) = _
    rw [hay, hy, hax, hac]
    by_cases hrow : r = R ∧ c ≤ indent
    · obtain ⟨rfl, hci⟩ := hrow
      have hlt : c < indent := by
        rcases Nat.lt_or_ge c indent with h | h
        · exact h
        · exfalso; apply hin; exact ⟨by omega, by omega⟩
      have hin' : r * w ≤ r * w + c ∧ r * w + c < (r + (ln.length + indent) / w + 1) * w := ⟨by omega, by omega⟩
      rw [if_pos ⟨rfl, hci⟩, if_pos hin']
      have : r * w + c - r * w = c := by omega
      rw [this]
      simp [List.getD, List.getElem?_append_left, hlt]
    · rw [if_neg hrow]
      have hin' : ¬ (R * w ≤ r * w + c ∧ r * w + c < (R + (ln.length + indent) / w + 1) * w) := by
        intro h
        by_cases hge : R * w + indent ≤ r * w + c
        · exact hin ⟨hge, h.2⟩
        · -- the cell is in row R, before the indentation
          have hr : r = R := by
            have h1 := h.1
            by_cases hrR : r = R
            · exact hrR
            · exfalso
              rcases Nat.lt_or_ge r R with hlt | hge'
              · have : (r + 1) * w ≤ R * w := Nat.mul_le_mul_right w hlt
                rw [Nat.add_mul] at this; omega
              · have : (R + 1) * w ≤ r * w := Nat.mul_le_mul_right w (by omega)
                rw [Nat.add_mul] at this; omega
          subst hr
          exact hrow ⟨rfl, by omega⟩
      rw [if_neg hin']

/-- rows of the block of one line: its text from the indentation on, wrapped, its last row whole -/
def blockRows (w indent : Nat) (ln : List Nat) : Nat := (ln.length + indent) / w + 1

def rowsOfLines (w indent : Nat) : List (List Nat) → Nat
  | [] => 0
  | ln :: t => blockRows w indent ln + rowsOfLines w indent t

/-- the glyph at linear offset `d` from the first row of the lines `ls` (lines after the first of the
buffer): each line on its own rows, the indentation blank, blank after the text and after the last line -/
def expectMore (w indent : Nat) : List (List Nat) → Nat → Nat
  | [], _ => blank
  | ln :: rest, d =>
    if d < blockRows w indent ln * w then (List.replicate indent blank ++ ln).getD d blank
    else expectMore w indent rest (d - blockRows w indent ln * w)

/-- The lines after the first (`moreToks`): each is painted on its own rows below the cursor's row. -/
theorem more_paint (w indent : Nat) (hi : indent < w) : ∀ (rest : List (List Nat)) (t : Term),
    t.w = w → t.pw = false →
    let t' := t.run (moreToks w indent rest)
    t'.w = w ∧ t'.pw = false ∧ t'.y = t.y + rowsOfLines w indent rest ∧
    t'.x = (match rest.getLast? with | some z => (z.length + indent) % w | none => t.x) ∧
    ∀ r c, c < w → t'.cell r c =
      if (t.y + 1) * w ≤ r * w + c ∧ r * w + c < (t.y + 1) * w + rowsOfLines w indent rest * w
      then expectMore w indent rest (r * w + c - (t.y + 1) * w) else t.cell r c := by
  intro rest
  induction rest with
  | nil =>
    intro t hw hpw t'
    refine ⟨hw, hpw, by simp [rowsOfLines, t', moreToks, run], by simp [t', moreToks, run], ?_⟩
    intro r c _
    have : ¬ ((t.y + 1) * w ≤ r * w + c ∧ r * w + c < (t.y + 1) * w + rowsOfLines w indent [] * w) := by
      simp [rowsOfLines]
    rw [if_neg this]; rfl
  | cons ln rest ih =>
    intro t hw hpw t'
    -- crlf, the block of `ln`, the other lines
    have hrun : t' = ((t.crlf).run (headToks indent ++ bodyToks w indent ln)).run (moreToks w indent rest) := by
      show t.run (moreToks w indent (ln :: rest)) = _
      simp only [moreToks, List.append_assoc]
      rw [run_append, run_append, run_append]
      simp [run, step, run_append]
    obtain ⟨b1, b2, b3, b4, b5⟩ := block_paint w indent (t.y + 1) ln t.crlf (by show t.w = w; exact hw) rfl rfl rfl hi
    generalize htb : (t.crlf).run (headToks indent ++ bodyToks w indent ln) = tb at b1 b2 b3 b4 b5 hrun
    obtain ⟨c1, c2, c3, c4, c5⟩ := ih tb b1 b4
    rw [← hrun] at c1 c2 c3 c4 c5
    have hB : blockRows w indent ln = (ln.length + indent) / w + 1 := rfl
    refine ⟨c1, c2, ?_, ?_, ?_⟩
    · rw [c3, b3]; simp only [rowsOfLines, hB]; omega
    · rw [c4]
      cases hgl : rest.getLast? with
      | none =>
        have : rest = [] := List.getLast?_eq_none_iff.mp hgl
        subst this
        simp [b2]
      | some z =>
        have hne : rest ≠ [] := by intro h; rw [h] at hgl; simp at hgl
        obtain ⟨y, ys, rfl⟩ := List.exists_cons_of_ne_nil hne
        rw [List.getLast?_cons_cons, hgl]
    · intro r c hc
      rw [c5 r c hc, b3, b5 r c hc]
      have e1 : (t.y + 1 + (ln.length + indent) / w + 1) * w = (t.y + 1) * w + blockRows w indent ln * w := by
        rw [hB, ← Nat.add_mul]; congr 1
      rw [e1]
      show _ = if (t.y + 1) * w ≤ r * w + c ∧ r * w + c < (t.y + 1) * w + (blockRows w indent ln + rowsOfLines w indent rest) * w
          then expectMore w indent (ln :: rest) (r * w + c - (t.y + 1) * w) else t.cell r c
      rw [Nat.add_mul (blockRows w indent ln)]
      generalize (t.y + 1) * w = A
      generalize hBw : blockRows w indent ln * w = Bw
      generalize rowsOfLines w indent rest * w = Rw
      by_cases h1 : A + Bw ≤ r * w + c ∧ r * w + c < A + Bw + Rw
      · have h2 : A ≤ r * w + c ∧ r * w + c < A + (Bw + Rw) := by omega
        rw [if_pos h1, if_pos h2]
        simp only [expectMore, hBw]
        have : ¬ (r * w + c - A < Bw) := by omega
        rw [if_neg this]
        congr 1; omega
      · rw [if_neg h1]
        by_cases h3 : A ≤ r * w + c ∧ r * w + c < A + Bw
        · have h2 : A ≤ r * w + c ∧ r * w + c < A + (Bw + Rw) := by omega
          rw [if_pos h3, if_pos h2]
          simp only [expectMore, hBw]
          have : r * w + c - A < Bw := by omega
          rw [if_pos this]
        · have h2 : ¬ (A ≤ r * w + c ∧ r * w + c < A + (Bw + Rw)) := by omega
          rw [if_neg h3, if_neg h2]
          rfl

/-- The prompt and the first line, from the start of the prompt's row. -/
theorem first_paint (w r0 : Nat) (prompt first : List Nat) (t : Term) (hw : t.w = w) (hx : t.x = 0)
    (hy : t.y = r0) (hpw : t.pw = false) (hi : prompt.length < w) :
    let t' := t.run ((if prompt.isEmpty then [] else [.text prompt]) ++ [.dsr] ++ bodyToks w prompt.length first)
    t'.w = w ∧ t'.x = (first.length + prompt.length) % w ∧ t'.y = r0 + (first.length + prompt.length) / w ∧
    t'.pw = false ∧
    ∀ r c, c < w → t'.cell r c =
      if r0 * w ≤ r * w + c ∧ r * w + c < (r0 + (first.length + prompt.length) / w + 1) * w
      then (prompt ++ first).getD (r * w + c - r0 * w) blank else t.cell r c := by
  intro t'
  have hw0 : 0 < w := by omega
  have hwf : t.WF := ⟨by rw [hw]; exact hw0, by rw [hx, hw]; exact hw0, by rw [hpw]; intro h; cases h⟩
  have hL : t.L = r0 * w := by simp [L, nx, ny, hpw, hx, hy, hw]
  obtain ⟨h1wf, h1w, h1L, h1c⟩ := puts_spec prompt t hwf
  rw [hw] at h1w h1c
  rw [hL] at h1L h1c
  obtain ⟨h1d, h1m⟩ := L_div_mod (t.puts prompt) h1wf
  rw [h1w, h1L] at h1d h1m
  have hdiv : (r0 * w + prompt.length) / w = r0 := by
    rw [Nat.add_comm, Nat.add_mul_div_right _ _ hw0, Nat.div_eq_of_lt hi]; omega
  have hmod : (r0 * w + prompt.length) % w = prompt.length := by
    rw [Nat.add_comm, Nat.add_mul_mod_self_right, Nat.mod_eq_of_lt hi]
  rw [hdiv] at h1d
  rw [hmod] at h1m
  have hp : (t.puts prompt).pw = false := by
    by_cases hne : prompt = []
    · rw [hne, puts_nil]; exact hpw
    · rw [puts_pw prompt hne t hwf, hL, hw, hmod]
      have := List.length_pos_iff.mpr hne
      have : prompt.length ≠ 0 := by omega
      simp [this]
  have h1x : (t.puts prompt).x = prompt.length := by
    have : (t.puts prompt).nx = (t.puts prompt).x := by simp [nx, hp]
    rw [← this, ← h1m]
  have h1y : (t.puts prompt).y = r0 := by
    have : (t.puts prompt).ny = (t.puts prompt).y := by simp [ny, hp]
    rw [← this, ← h1d]
  have hrun : t' = (t.puts prompt).run (bodyToks w prompt.length first) := by
    show t.run _ = _
    rw [run_append, run_append]
    have e1 : t.run (if prompt.isEmpty then [] else [.text prompt]) = t.puts prompt := by
      cases prompt <;> simp [run, step, puts]
    rw [e1]
    rfl
  obtain ⟨b1, b2, b3, b4, b5⟩ := body_paint w prompt.length r0 first (t.puts prompt) h1w h1x h1y hp hi
  rw [hrun]
  refine ⟨b1, b2, b3, b4, ?_⟩
  intro r c hc
  rw [b5 r c hc, h1c r c hc]
  have hE : r0 * w + prompt.length < (r0 + (first.length + prompt.length) / w + 1) * w := by
    have : (r0 + 1) * w ≤ (r0 + (first.length + prompt.length) / w + 1) * w :=
      Nat.mul_le_mul_right w (Nat.succ_le_succ (Nat.le_add_right _ _))
    rw [Nat.add_mul] at this
    omega
  generalize (r0 + (first.length + prompt.length) / w + 1) * w = E at hE ⊢
  by_cases hin : r0 * w + prompt.length ≤ r * w + c ∧ r * w + c < E
  · have hin' : r0 * w ≤ r * w + c ∧ r * w + c < E := ⟨by omega, hin.2⟩
    rw [if_pos hin, if_pos hin']
    have : r * w + c - r0 * w = prompt.length + (r * w + c - (r0 * w + prompt.length)) := by omega
    rw [this]
    simp [List.getD, List.getElem?_append_right]
  · rw [if_neg hin]
    by_cases hp2 : r0 * w ≤ r * w + c ∧ r * w + c < r0 * w + prompt.length
    · have hin' : r0 * w ≤ r * w + c ∧ r * w + c < E := ⟨hp2.1, by omega⟩
      rw [if_pos hp2, if_pos hin']
      have hlt : r * w + c - r0 * w < prompt.length := by omega
      simp [List.getD, List.getElem?_append_left, hlt]
    · have hin' : ¬ (r0 * w ≤ r * w + c ∧ r * w + c < E) := by omega
      rw [if_neg hp2, if_neg hin']

/-- token lists that only move the cursor -/
def quietL (q : List Tk) : Bool := q.all isQuiet

@[simp] theorem quietL_nil : quietL [] = true := rfl
@[simp] theorem quietL_append (a b : List Tk) : quietL (a ++ b) = (quietL a && quietL b) := List.all_append
@[simp] theorem quietL_mv_cub (n : Int) : quietL (mv .cub n) = true := by unfold mv quietL; split <;> simp [isQuiet]
@[simp] theorem quietL_mv_cuu (n : Int) : quietL (mv .cuu n) = true := by unfold mv quietL; split <;> simp [isQuiet]
@[simp] theorem quietL_mv_cud (n : Int) : quietL (mv .cud n) = true := by unfold mv quietL; split <;> simp [isQuiet]
@[simp] theorem quietL_mv_cuf (n : Int) : quietL (mv .cuf n) = true := by unfold mv quietL; split <;> simp [isQuiet]
@[simp] theorem quietL_show : quietL [.show_] = true := rfl
@[simp] theorem quietL_ite (c : Prop) [Decidable c] (a b : List Tk) :
    quietL (if c then a else b) = if c then quietL a else quietL b := by split <;> rfl

theorem foldl_mv_cub' (w n : Nat) (p : Nat × Nat) :
    (mv .cub (n : Int)).foldl (stepXY w) p = (p.1 - n, p.2) := by
  simpa using foldl_mv_cub w n p []

theorem foldl_mv_cuf' (w n : Nat) (p : Nat × Nat) (hp : p.1 ≤ w - 1) :
    (mv .cuf (n : Int)).foldl (stepXY w) p = (min (p.1 + n) (w - 1), p.2) := by
  simpa using foldl_mv_cuf w n p [] hp

/-- cursor moves leave the cells alone; the cursor goes where `stepXY` says -/
theorem quiet_run (q : List Tk) (t : Term) (hq : quietL q = true) (hpw : t.pw = false) :
    (t.run q).cell = t.cell ∧ (t.run q).pw = false ∧ (t.run q).w = t.w ∧
    ((t.run q).x, (t.run q).y) = q.foldl (stepXY t.w) (t.x, t.y) := by
  have hq' : ∀ k ∈ q, isQuiet k = true := by
    intro k hk
    exact (List.all_eq_true.mp hq) k hk
  have h1 := run_quiet q t hq'
  have h2 := run_xy q t (fun k hk => isQuiet_not_text (hq' k hk))
  exact ⟨h1.1, h1.2 hpw, h2.2, h2.1⟩

/-- the secondary prompt written in the indentation of the last line (`displayMultilinePrompts`) -/
theorem mid_paint (w indent LR lastRows lineCol Y : Nat) (sec : List Nat) (b : Prop) [Decidable b] (t : Term)
    (hw : t.w = w) (hpw : t.pw = false) (hy : t.y = Y) (hLR : LR ≤ Y) (hlr : lastRows ≤ Y)
    (hi : indent < w) (hlc : lineCol < w) (hx : t.x < w) :
    let t' := t.run ((if b then mv .cuu (LR : Nat) ++ mv .cub w ++ mv .cud (LR : Nat) else []) ++
      (mv .cuu (lastRows : Nat) ++ mv .cub w ++ (if sec.length ≤ indent then [.text sec] else []) ++
        mv .cud (lastRows : Nat) ++ mv .cub w ++ mv .cuf (lineCol : Nat)))
    t'.w = w ∧ t'.x = lineCol ∧ t'.y = Y ∧ t'.pw = false ∧
    ∀ r c, c < w → t'.cell r c =
      if sec.length ≤ indent ∧ (Y - lastRows) * w ≤ r * w + c ∧ r * w + c < (Y - lastRows) * w + sec.length
      then sec.getD (r * w + c - (Y - lastRows) * w) blank else t.cell r c := by
  intro t'
  have hw0 : 0 < w := by omega
  -- up to the first row of the last line
  let q1 : List Tk := (if b then mv .cuu (LR : Nat) ++ mv .cub w ++ mv .cud (LR : Nat) else []) ++
    (mv .cuu (lastRows : Nat) ++ mv .cub w)
  let q2 : List Tk := mv .cud (lastRows : Nat) ++ mv .cub w ++ mv .cuf (lineCol : Nat)
  have hrun : t' = ((t.run q1).run (if sec.length ≤ indent then [.text sec] else [])).run q2 := by
    show t.run _ = _
    rw [← run_append, ← run_append]
    congr 1
    simp only [q1, q2, List.append_assoc]
  obtain ⟨a1, a2, a3, a4⟩ := quiet_run q1 t (by simp [q1]) hpw
  have hfold1 : q1.foldl (stepXY t.w) (t.x, t.y) = (0, Y - lastRows) := by
    rw [hw, hy]
    by_cases hb : b
    · simp only [q1, hb, if_true, List.append_assoc]
      rw [foldl_mv_cuu, foldl_mv_cub, foldl_mv_cud, foldl_mv_cuu, foldl_mv_cub']
      refine Prod.ext ?_ ?_ <;> simp only <;> omega
    · simp only [q1, hb, if_false, List.nil_append]
      rw [foldl_mv_cuu, foldl_mv_cub']
      refine Prod.ext ?_ ?_ <;> simp only <;> omega
  rw [hfold1] at a4
  generalize t.run q1 = ta at a1 a2 a3 a4 hrun
  have hax : ta.x = 0 := (Prod.mk.inj a4).1
  have hay : ta.y = Y - lastRows := (Prod.mk.inj a4).2
  rw [hw] at a3
  -- the secondary prompt
  have hsec : ∃ tb : Term, tb = ta.run (if sec.length ≤ indent then [.text sec] else []) ∧ tb.w = w ∧ tb.pw = false ∧
      tb.y = Y - lastRows ∧ tb.x < w ∧
      ∀ r c, c < w → tb.cell r c =
        if sec.length ≤ indent ∧ (Y - lastRows) * w ≤ r * w + c ∧ r * w + c < (Y - lastRows) * w + sec.length
        then sec.getD (r * w + c - (Y - lastRows) * w) blank else t.cell r c := by
    by_cases hs : sec.length ≤ indent
    · have hwf : ta.WF := ⟨by rw [a3]; exact hw0, by rw [hax, a3]; exact hw0, by rw [a2]; intro h; cases h⟩
      have hL : ta.L = (Y - lastRows) * w := by simp [L, nx, ny, a2, hax, hay, a3]
      obtain ⟨p1, p2, p3, p4⟩ := puts_spec sec ta hwf
      rw [a3] at p2 p4
      rw [hL] at p3 p4
      obtain ⟨pd, pm⟩ := L_div_mod (ta.puts sec) p1
      rw [p2, p3] at pd pm
      have hsl : sec.length < w := by omega
      have hdiv : ((Y - lastRows) * w + sec.length) / w = Y - lastRows := by
        rw [Nat.add_comm, Nat.add_mul_div_right _ _ hw0, Nat.div_eq_of_lt hsl]; omega
      have hmod : ((Y - lastRows) * w + sec.length) % w = sec.length := by
        rw [Nat.add_comm, Nat.add_mul_mod_self_right, Nat.mod_eq_of_lt hsl]
      rw [hdiv] at pd
      rw [hmod] at pm
      have hp : (ta.puts sec).pw = false := by
        by_cases hne : sec = []
        · rw [hne, puts_nil]; exact a2
        · rw [puts_pw sec hne ta hwf, hL, a3, hmod]
          have := List.length_pos_iff.mpr hne
          have : sec.length ≠ 0 := by omega
          simp [this]
      refine ⟨ta.puts sec, by simp [hs, run, step], p2, hp, ?_, ?_, ?_⟩
      · have : (ta.puts sec).ny = (ta.puts sec).y := by simp [ny, hp]
        rw [← this, ← pd]
      · rw [p2.symm]; exact p1.2.1
      · intro r c hc
        rw [p4 r c hc, a1]
        by_cases hin : (Y - lastRows) * w ≤ r * w + c ∧ r * w + c < (Y - lastRows) * w + sec.length
        · rw [if_pos hin, if_pos ⟨hs, hin⟩]
          exact getD_any (by omega) _ _
        · have : ¬ (sec.length ≤ indent ∧ (Y - lastRows) * w ≤ r * w + c ∧ r * w + c < (Y - lastRows) * w + sec.length) :=
            fun h => hin h.2
          rw [if_neg hin, if_neg this]
    · refine ⟨ta, by simp [hs, run], a3, a2, hay, by rw [hax]; exact hw0, ?_⟩
      intro r c _
      have : ¬ (sec.length ≤ indent ∧ (Y - lastRows) * w ≤ r * w + c ∧ r * w + c < (Y - lastRows) * w + sec.length) :=
        fun h => hs h.1
      rw [if_neg this, a1]
  obtain ⟨tb, htb, c1, c2, c3, c4, c5⟩ := hsec
  rw [← htb] at hrun
  obtain ⟨d1, d2, d3, d4⟩ := quiet_run q2 tb (by simp [q2]) c2
  have hfold2 : q2.foldl (stepXY tb.w) (tb.x, tb.y) = (lineCol, Y) := by
    rw [c1, c3]
    simp only [q2, List.append_assoc]
    rw [foldl_mv_cud, foldl_mv_cub, foldl_mv_cuf' _ _ _ (by simp only []; omega)]
    refine Prod.ext ?_ ?_ <;> simp only <;> omega
  rw [hfold2] at d4
  rw [hrun]
  refine ⟨by rw [d3, c1], (Prod.mk.inj d4).1, (Prod.mk.inj d4).2, d2, ?_⟩
  intro r c hc
  rw [d1, c5 r c hc]

/-- `CRLF`, `EL0`, `ED0`: everything below the cursor's row is erased -/
theorem erase_below (t : Term) (hpos : 0 < t.w) :
    let t' := ((t.crlf).el0).ed0
    t'.x = 0 ∧ t'.y = t.y + 1 ∧ t'.pw = false ∧ t'.w = t.w ∧
    ∀ r c, c < t.w → t'.cell r c = if (t.y + 1) * t.w ≤ r * t.w + c then blank else t.cell r c := by
  refine ⟨rfl, rfl, rfl, rfl, ?_⟩
  intro r c hc
  have hl := @lin_ge t.w 0 (t.y + 1) r c hpos hc
  simp only [Nat.add_zero] at hl
  show (if (r = t.y + 1 ∧ 0 ≤ c) ∨ t.y + 1 < r then blank
        else (if r = t.y + 1 ∧ 0 ≤ c then blank else t.cell r c)) = _
  by_cases h : (t.y + 1) * t.w ≤ r * t.w + c
  · rw [if_pos h]
    rcases hl.mp h with h1 | h1
    · rw [if_pos (Or.inr h1)]
    · rw [if_pos (Or.inl ⟨h1.1, Nat.zero_le c⟩)]
  · rw [if_neg h]
    have h1 : ¬ ((r = t.y + 1 ∧ 0 ≤ c) ∨ t.y + 1 < r) := by
      intro h'
      apply h
      rcases h' with h' | h'
      · exact hl.mpr (Or.inr ⟨h'.1, Nat.zero_le c⟩)
      · exact hl.mpr (Or.inl h')
    have h2 : ¬ (r = t.y + 1 ∧ 0 ≤ c) := fun h' => h1 (Or.inl h')
    rw [if_neg h1, if_neg h2]

/-- from the start of the row below the input back to the cursor cell (`cursorHintToLineStart`,
`lineStartToCursorPos`), for any cursor coordinates inside the input -/
theorem tail_run (w r0 sc LR CC CR : Nat) (t : Term) (hw : t.w = w) (hx : t.x = 0) (hy : t.y = r0 + LR + 1)
    (hpw : t.pw = false) (hsc : sc < w) (hCR : CR ≤ LR) (hCC : CC < w) :
    let t' := t.run (mv .cub w ++ mv .cuu 1 ++ mv .cuu ((LR : Nat) - (CR : Int)) ++ mv .cub (CC : Nat) ++
        mv .cuu (CR : Nat) ++ mv .cuf (sc : Nat) ++ mv .cud (CR : Nat) ++ mv .cub w ++ mv .cuf (CC : Nat) ++ [.show_])
    t'.x = CC ∧ t'.y = r0 + CR ∧ t'.pw = false ∧ t'.cell = t.cell ∧ t'.w = w := by
  intro t'
  obtain ⟨a1, a2, a3, a4⟩ := quiet_run (mv .cub w ++ mv .cuu 1 ++ mv .cuu ((LR : Nat) - (CR : Int)) ++ mv .cub (CC : Nat) ++
        mv .cuu (CR : Nat) ++ mv .cuf (sc : Nat) ++ mv .cud (CR : Nat) ++ mv .cub w ++ mv .cuf (CC : Nat) ++ [.show_]) t
        (by simp) hpw
  have hsub : ((LR : Nat) : Int) - (CR : Int) = ((LR - CR : Nat) : Int) := by omega
  have hfold : (mv .cub (w : Int) ++ mv .cuu 1 ++ mv .cuu ((LR : Nat) - (CR : Int)) ++ mv .cub (CC : Nat) ++
        mv .cuu (CR : Nat) ++ mv .cuf (sc : Nat) ++ mv .cud (CR : Nat) ++ mv .cub w ++ mv .cuf (CC : Nat) ++ [.show_]
        : List Tk).foldl (stepXY t.w) (t.x, t.y) = (CC, r0 + CR) := by
    rw [hw, hx, hy, hsub]
    simp only [List.append_assoc]
    have e1 : ((1 : Int)) = ((1 : Nat) : Int) := rfl
    rw [foldl_mv_cub, e1, foldl_mv_cuu, foldl_mv_cuu, foldl_mv_cub, foldl_mv_cuu]
    rw [foldl_mv_cuf _ _ _ _ (by simp only []; omega)]
    rw [foldl_mv_cud, foldl_mv_cub]
    rw [foldl_mv_cuf _ _ _ _ (by simp only []; omega)]
    simp only [List.foldl_cons, List.foldl_nil, stepXY]
    refine Prod.ext ?_ ?_ <;> simp only <;> omega
  rw [hfold] at a4
  exact ⟨(Prod.mk.inj a4).1, (Prod.mk.inj a4).2, a2, a1, by rw [a3, hw]⟩

end RLV.Term

namespace RLV.Disp


theorem countNL_append (a b : List Nat) : countNL (a ++ b) = countNL a + countNL b := by
  unfold countNL; rw [List.filter_append, List.length_append]

theorem countNL_join : ∀ (ls : List (List Nat)), ls ≠ [] → (∀ ln ∈ ls, 10 ∉ ln) →
    countNL (joinNL ls) = ls.length - 1
  | [], h, _ => absurd rfl h
  | [a], _, hn => by
    show countNL a = 0
    exact countNL_single a (hn a (by simp))
  | a :: b :: t, _, hn => by
    show countNL (a ++ 10 :: joinNL (b :: t)) = _
    have ih := countNL_join (b :: t) (by simp) (fun ln h => hn ln (by simp [h]))
    have e : (10 :: joinNL (b :: t)) = [10] ++ joinNL (b :: t) := rfl
    rw [countNL_append, e, countNL_append, ih, countNL_single a (hn a (by simp))]
    simp [countNL]
    omega

/-- the redisplay of a buffer of two lines or more, written out (the cursor coordinates `cc` as
`coordsCursor` computes them) -/
theorem refresh_multi_eq (w : Nat) (prompt sec first last : List Nat) (rest : List (List Nat)) (pos prevRow : Nat)
    (hrest : rest ≠ []) (hfree : ∀ ln ∈ first :: rest, 10 ∉ ln) (hlast : (first :: rest).getLast? = some last) :
    refresh w prompt sec prevRow false (joinNL (first :: rest)) pos =
      ([.hide] ++ mv .cub w ++ mv .cuu prevRow) ++
      ((if prompt.isEmpty then [] else [.text prompt]) ++ [.dsr] ++ bodyToks w prompt.length first) ++
      moreToks w prompt.length rest ++
      ((if rest.length > 1 then mv .cuu (rowsFrom w prompt.length 0 (first :: rest) : Nat) ++ mv .cub w ++
            mv .cud (rowsFrom w prompt.length 0 (first :: rest) : Nat) else []) ++
        (mv .cuu (((last.length + prompt.length) / w : Nat)) ++ mv .cub w ++
          (if sec.length ≤ prompt.length then [.text sec] else []) ++
          mv .cud (((last.length + prompt.length) / w : Nat)) ++ mv .cub w ++
          mv .cuf (((last.length + prompt.length) % w : Nat)))) ++
      [.crlf, .el0, .ed0] ++
      (mv .cub w ++ mv .cuu 1 ++
        mv .cuu ((rowsFrom w prompt.length 0 (first :: rest) : Nat) - ((coordsCursor w (joinNL (first :: rest)) pos prompt.length).2 : Int)) ++
        mv .cub ((coordsCursor w (joinNL (first :: rest)) pos prompt.length).1 : Nat) ++
        mv .cuu ((coordsCursor w (joinNL (first :: rest)) pos prompt.length).2 : Nat) ++
        mv .cuf (prompt.length : Nat) ++
        mv .cud ((coordsCursor w (joinNL (first :: rest)) pos prompt.length).2 : Nat) ++ mv .cub w ++
        mv .cuf ((coordsCursor w (joinNL (first :: rest)) pos prompt.length).1 : Nat) ++ [.show_]) := by
  have hne : (first :: rest) ≠ [] := by simp
  have hgl : (first :: rest).getLast hne = last := by
    have := List.getLast?_eq_some_getLast hne
    rw [this] at hlast; exact Option.some.inj hlast
  have hcl := coordsLine_join w prompt.length (first :: rest) hne hfree
  rw [hgl] at hcl
  have hsp := splitNL_join (first :: rest) hne hfree
  have hcn := countNL_join (first :: rest) hne hfree
  have hdl := dl_lines w prompt.length last (first :: rest) 0 ((first :: rest).length - 1) first rest rfl
    (by simp) hlast
  have hrl : 0 < rest.length := List.length_pos_iff.mpr hrest
  unfold refresh
  dsimp only
  rw [hcl, hsp, hcn, displayLine_eq, hsp, hlast]
  have hm : ((last.length + prompt.length) % w == 0 && decide (last.length + prompt.length > 0)) = marginB w prompt.length last := rfl
  simp only [Option.getD_some, hm]
  simp only [Nat.lt_irrefl, if_false, List.nil_append] at hdl
  have hlen : (first :: rest).length - 1 = rest.length := by simp
  simp only [hlen] at hdl ⊢
  have h0 : rest.length > 0 := hrl
  have hl1 : lineSpan w last 0 prompt.length = ((last.length + prompt.length) % w, (last.length + prompt.length) / w) := by
    simp [lineSpan]
  simp only [h0, if_true, hl1, Bool.false_eq_true, if_false, Bool.not_false]
  have hdl' : ∀ X : List Tk,
      (List.map (dlLine w prompt.length rest.length !marginB w prompt.length last) (first :: rest).zipIdx).flatten ++
        ((if marginB w prompt.length last = true then [Tk.crlf, Tk.el0] else []) ++ X) =
      (bodyToks w prompt.length first ++ moreToks w prompt.length rest) ++ X := by
    intro X; rw [← List.append_assoc, hdl]
  simp only [List.append_assoc]
  rw [hdl']
  simp only [List.append_assoc]

end RLV.Disp
