import RLV.Model.Move
/-! The modelled movement commands leave the text (and the kill ring) alone. -/
namespace RLV.Move
open RLV.Core RLV.Kill

/-- same text, same kill ring, same selection: only the cursor may differ -/
def SameText (s s1 : St) : Prop := s1.line = s.line ∧ s1.kill = s.kill ∧ s1.sel = s.sel

theorem SameText.refl (s : St) : SameText s s := ⟨rfl, rfl, rfl⟩
theorem SameText.trans {a b c : St} (h1 : SameText a b) (h2 : SameText b c) : SameText a c :=
  ⟨h2.1.trans h1.1, h2.2.1.trans h1.2.1, h2.2.2.trans h1.2.2⟩

theorem forwardChar_same (s s1 : St) (n : Int) (h : forwardChar s n = .ok s1) : SameText s s1 := by
  unfold forwardChar at h; injection h with h; subst h; exact ⟨rfl, rfl, rfl⟩

theorem backwardChar_same (s s1 : St) (n : Int) (h : backwardChar s n = .ok s1) : SameText s s1 := by
  unfold backwardChar at h; injection h with h; subst h; exact ⟨rfl, rfl, rfl⟩

theorem forwardWord1_same (s s1 : St) (h : forwardWord1 s = .ok s1) : SameText s s1 := by
  unfold forwardWord1 at h
  simp only [bind, Except.bind, pure, Except.pure] at h
  split at h
  · cases h
  · injection h with h; subst h; exact ⟨rfl, rfl, rfl⟩

theorem backwardWord1_same (s s1 : St) (h : backwardWord1 s = .ok s1) : SameText s s1 := by
  unfold backwardWord1 at h
  simp only [bind, Except.bind, pure, Except.pure] at h
  split at h
  · cases h
  · injection h with h; subst h; exact ⟨rfl, rfl, rfl⟩

theorem forwardWordN_same : ∀ (n : Nat) (s s1 : St), forwardWordN n s = .ok s1 → SameText s s1
  | 0, s, s1, h => by unfold forwardWordN at h; injection h with h; subst h; exact SameText.refl s
  | n+1, s, s1, h => by
    unfold forwardWordN at h
    simp only [bind, Except.bind] at h
    cases h1 : forwardWord1 s with
    | error e => rw [h1] at h; cases h
    | ok s' =>
      rw [h1] at h
      exact (forwardWord1_same s s' h1).trans (forwardWordN_same n s' s1 h)

theorem backwardWordN_same : ∀ (n : Nat) (s s1 : St), backwardWordN n s = .ok s1 → SameText s s1
  | 0, s, s1, h => by unfold backwardWordN at h; injection h with h; subst h; exact SameText.refl s
  | n+1, s, s1, h => by
    unfold backwardWordN at h
    simp only [bind, Except.bind] at h
    cases h1 : backwardWord1 s with
    | error e => rw [h1] at h; cases h
    | ok s' =>
      rw [h1] at h
      exact (backwardWord1_same s s' h1).trans (backwardWordN_same n s' s1 h)

theorem beginningOfLine_same (s s1 : St) (h : beginningOfLine s = .ok s1) : SameText s s1 := by
  unfold beginningOfLine at h
  simp only [bind, Except.bind, pure, Except.pure] at h
  split at h
  · cases h
  · injection h with h; subst h; exact ⟨rfl, rfl, rfl⟩

theorem endOfLine_same (s s1 : St) (h : endOfLine s = .ok s1) : SameText s s1 := by
  unfold endOfLine at h
  simp only [bind, Except.bind, pure, Except.pure] at h
  split at h
  · cases h
  · injection h with h; subst h; exact ⟨rfl, rfl, rfl⟩

/-- the character movements cannot fail -/
theorem forwardChar_total (s : St) (n : Int) : ∃ s1, forwardChar s n = .ok s1 := ⟨_, rfl⟩
theorem backwardChar_total (s : St) (n : Int) : ∃ s1, backwardChar s n = .ok s1 := ⟨_, rfl⟩

end RLV.Move
