import RLV.Lemmas.Stream
import RLV.Lemmas.DispatchKeys
import RLV.Model.MLoop
/-! The main loop of `Readline` (Model/MLoop) in the plain Emacs regime — no local keymap, no search
mode, nothing feeding keys (no bind macro in the table), keys below 0x80 — is the stream machine of
Lemmas/Stream: whole-call independence of the way the input is cut into reads (C05). -/
namespace RLV

theorem dispatch_read_cons (tbl : List (Seq × Bind)) : ∀ (t : Seq) (k : Nat) (read matched : Seq) (pfx : Bool) (p a : Bind),
    ∃ u, (dispatch tbl (k :: t) read matched pfx p a).read = read ++ k :: u := by
  intro t
  induction t with
  | nil =>
    intro k read matched pfx p a
    rw [dispatch]
    split
    · exact ⟨[], by simp⟩
    · split
      · exact ⟨[], by simp [dispatch]⟩
      · exact ⟨[], by simp⟩
  | cons k' t ih =>
    intro k read matched pfx p a
    rw [dispatch]
    split
    · exact ⟨[], by simp⟩
    · split
      · obtain ⟨u, hu⟩ := ih k' (read ++ [k]) (matched ++ [k]) true
          (if (matchBind (read ++ [k]) tbl).1.action ≠ "" then (matchBind (read ++ [k]) tbl).1 else p) a
        exact ⟨k' :: u, by rw [hu]; simp⟩
      · exact ⟨[], by simp⟩

/-- `MatchMain` in the plain regime: the dispatch of the typed keys, pushed back on a prefix -/
theorem matchMain_plain (e : Eng) (hne : e.mainTbl.isEmpty = false) (hni : e.nonInc = false)
    (hli : e.lisearch = false) (hem : e.isEmacs = true) (hmk : e.keys.mkeys = [])
    (hb : e.keys.buf ≠ []) (hascii : ∀ b ∈ e.keys.buf, b < 0x80) (r : DResult)
    (hr : dispatch e.mainTbl e.keys.buf [] [] false e.prefixed e.active = r) :
    matchMain e =
      ({ e.after r with keys := if r.pfx then (e.after r).keys.matchedPrefix r.read
                                else (e.after r).keys.matchedKeys r.read [] },
        r.bind, hasCmd e r.bind, r.pfx) := by
  have hmb : e.mainBinds = e.mainTbl := by simp [Eng.mainBinds, hni, hli]
  obtain ⟨k, t, hkt⟩ := List.exists_cons_of_ne_nil hb
  have hhead : r.read.headD 0 < 0x80 := by
    rw [← hr, hkt]
    obtain ⟨u, hu⟩ := dispatch_read_cons e.mainTbl t k [] [] false e.prefixed e.active
    rw [hu]
    simp only [List.nil_append, List.headD_cons]
    exact hascii k (by rw [hkt]; simp)
  unfold matchMain
  simp only [hmb, hne, Bool.false_eq_true, if_false, hmk, List.length_nil, Nat.add_zero]
  rw [dispatchKeys_eq e.mainTbl e.keys.buf.length e [] [] false hmk (Nat.le_refl _)]
  simp only [hr]
  have hmc : matchCharacter (e.after r) (e.after r).active r.pfx r.read = (e.after r, (e.after r).active, r.pfx, r.read) := by
    unfold matchCharacter
    have : ¬ (r.read.headD 0 ≥ 0x80) := by omega
    rw [if_neg (fun h => this h.2.2.1)]
  rw [hmc]
  simp only [nonIncOverrideR, nonIncOverride, Eng.after, hni, ite_self, Bool.false_and, Bool.false_eq_true, if_false, hem,
    Bool.not_true, Bool.and_false, hasCmd]

theorem lastExact_nomacro (keys : Seq) : ∀ (tbl : List (Seq × Bind)) (b : Bind), (∀ sb ∈ tbl, sb.2.isMacro = false) →
    b.isMacro = false →
    (tbl.foldl (fun acc e => if keys = e.1 then e.2 else acc) b).isMacro = false := by
  intro tbl
  induction tbl with
  | nil => intro b _ hb; exact hb
  | cons e t ih =>
    intro b h hb
    simp only [List.foldl_cons]
    apply ih _ (fun sb hsb => h sb (by simp [hsb]))
    split
    · exact h e (by simp)
    · exact hb

/-- a table without bind macros never selects one -/
theorem dispatch_nomacro (tbl : List (Seq × Bind)) (h : ∀ sb ∈ tbl, sb.2.isMacro = false) :
    ∀ (ks read matched : Seq) (pfx : Bool) (p a : Bind), p.isMacro = false → a.isMacro = false →
      (dispatch tbl ks read matched pfx p a).bind.isMacro = false ∧
      (dispatch tbl ks read matched pfx p a).prefixed.isMacro = false := by
  have hle : ∀ keys, (matchBind keys tbl).1.isMacro = false := by
    intro keys
    rw [matchBind_eq]
    exact lastExact_nomacro keys tbl Bind.none h rfl
  intro ks
  induction ks with
  | nil => intro read matched pfx p a hp ha; exact ⟨ha, hp⟩
  | cons k t ih =>
    intro read matched pfx p a hp ha
    rw [dispatch]
    split
    · exact ⟨hp, rfl⟩
    · split
      · apply ih _ _ _ _ _ _ ha
        split
        · exact hle _
        · exact hp
      · exact ⟨hle _, rfl⟩

/-- the `active` argument of a dispatch only shows in the bind of a reported prefix -/
theorem dispatch_active' (tbl : List (Seq × Bind)) : ∀ (ks read matched : Seq) (pfx : Bool) (p a a' : Bind), ks ≠ [] →
    (dispatch tbl ks read matched pfx p a').pfx = (dispatch tbl ks read matched pfx p a).pfx ∧
    (dispatch tbl ks read matched pfx p a').read = (dispatch tbl ks read matched pfx p a).read ∧
    (dispatch tbl ks read matched pfx p a').rest = (dispatch tbl ks read matched pfx p a).rest ∧
    (dispatch tbl ks read matched pfx p a').prefixed = (dispatch tbl ks read matched pfx p a).prefixed ∧
    ((dispatch tbl ks read matched pfx p a).pfx = false →
      (dispatch tbl ks read matched pfx p a').bind = (dispatch tbl ks read matched pfx p a).bind) := by
  intro ks
  induction ks with
  | nil => intro _ _ _ _ _ _ h; exact absurd rfl h
  | cons k t ih =>
    intro read matched pfx p a a' _
    rw [dispatch, dispatch]
    split
    · exact ⟨rfl, rfl, rfl, rfl, fun _ => rfl⟩
    · split
      · by_cases ht : t = []
        · subst ht
          simp [dispatch]
        · exact ih _ _ _ _ _ _ ht
      · exact ⟨rfl, rfl, rfl, rfl, fun _ => rfl⟩

namespace MLoop
open RLV.Stream

/-- commands that only log the bind and the keys that called it; `acc b`: the command accepts the line -/
def Clog (acc : Bind → Bool) : Cmds :=
  { run := fun b _ s => { s with log := s.log ++ [(b.action, s.eng.keys.matched)], done := s.done || acc b } }

/-- the plain Emacs regime -/
structure Plain (tbl : List (Seq × Bind)) (s : LS) : Prop where
  ltbl : s.ltbl = []
  isearch : s.isearch = false
  emacs : s.eng.isEmacs = true
  nonInc : s.eng.nonInc = false
  nomk : s.eng.keys.mkeys = []
  htbl : s.eng.mainTbl = tbl
  ne : tbl.isEmpty = false
  nomac : ∀ sb ∈ tbl, sb.2.isMacro = false
  pm : s.eng.prefixed.isMacro = false
  am : s.eng.active.isMacro = false
  ascii : ∀ b ∈ s.eng.keys.buf, b < 0x80

/-- what the stream machine looks at -/
def obs (s : LS) : AS := ⟨s.eng.keys.buf, s.eng.keys.mustWait, s.eng.prefixed, s.log, s.done⟩

theorem runBind_local_none (C : Cmds) (c : Bool) (s : LS) : runBind C false Bind.none c s = s := by
  simp [runBind, Bind.none]

/-- the iteration, in terms of `MatchMain` on the engine `e0` it runs on -/
theorem iter_plain_eq (acc : Bind → Bool) (s : LS) (e0 : Eng)
    (hl : s.ltbl = []) (hi : s.isearch = false) (hd : s.done = false)
    (he0 : e0 = { s.eng with keys := s.eng.keys.flushUsed, lisearch := false }) :
    iter (Clog acc) s =
      if (matchMain e0).2.2.2 then { s with eng := (matchMain e0).1 }
      else runBind (Clog acc) true (matchMain e0).2.1 (matchMain e0).2.2.1 { s with eng := (matchMain e0).1 } := by
  subst he0
  unfold iter
  simp only [hl, hi, matchLocal, List.isEmpty_nil, if_true, Bool.false_eq_true, if_false, runBind_local_none,
    hd, or_self]

theorem iter_plain (tbl : List (Seq × Bind)) (acc : Bind → Bool) (s : LS) (hP : Plain tbl s)
    (hb : s.eng.keys.buf ≠ []) (hd : s.done = false) :
    obs (iter (Clog acc) s) = aiter tbl acc (obs s) ∧ Plain tbl (iter (Clog acc) s) := by
  obtain ⟨e0, he0⟩ : ∃ e0 : Eng, e0 = { s.eng with keys := s.eng.keys.flushUsed, lisearch := false } := ⟨_, rfl⟩
  have f_buf : e0.keys.buf = s.eng.keys.buf := by rw [he0]; rfl
  have f_mk : e0.keys.mkeys = [] := by rw [he0]; exact hP.nomk
  have f_p : e0.prefixed = s.eng.prefixed := by rw [he0]
  have f_a : e0.active = s.eng.active := by rw [he0]
  have f_t : e0.mainTbl = tbl := by rw [he0]; exact hP.htbl
  have f_em : e0.isEmacs = true := by rw [he0]; exact hP.emacs
  have f_ni : e0.nonInc = false := by rw [he0]; exact hP.nonInc
  have f_li : e0.lisearch = false := by rw [he0]
  have hiter := iter_plain_eq acc s e0 hP.ltbl hP.isearch hd he0
  -- the dispatch the iteration performs
  generalize hr : dispatch tbl s.eng.keys.buf [] [] false s.eng.prefixed s.eng.active = r
  have hact := dispatch_active' tbl s.eng.keys.buf [] [] false s.eng.prefixed s.eng.active Bind.none hb
  rw [hr] at hact
  have hnm := dispatch_nomacro tbl hP.nomac s.eng.keys.buf [] [] false s.eng.prefixed s.eng.active hP.pm hP.am
  rw [hr] at hnm
  have hrr := dispatch_read_rest tbl s.eng.keys.buf [] [] false s.eng.prefixed s.eng.active
  rw [hr] at hrr
  simp only [List.nil_append] at hrr
  have hmm := matchMain_plain e0 (by rw [f_t]; exact hP.ne) f_ni f_li f_em f_mk (by rw [f_buf]; exact hb)
    (by rw [f_buf]; exact hP.ascii) r (by rw [f_t, f_buf, f_p, f_a]; exact hr)
  obtain ⟨k, t, hkt⟩ := List.exists_cons_of_ne_nil hb
  have hrne : r.read ≠ [] := by
    obtain ⟨u, hu⟩ := dispatch_read_cons tbl t k [] [] false s.eng.prefixed s.eng.active
    rw [← hkt, hr] at hu
    rw [hu]; simp
  have hri : r.read.isEmpty = false := by
    cases h : r.read with
    | nil => exact absurd h hrne
    | cons x y => rfl
  have hascii' : ∀ b ∈ r.read ++ r.rest, b < 0x80 := by rw [hrr]; exact hP.ascii
  rw [hiter, hmm]
  simp only
  unfold aiter obs
  simp only
  rw [hact.1, hact.2.1, hact.2.2.1, hact.2.2.2.1]
  cases hp : r.pfx
  · -- a bind was selected
    have hbind := hact.2.2.2.2 hp
    rw [hbind]
    simp only [Bool.false_eq_true, if_false, runBind, Bool.true_eq_false, false_and, hnm.1, Clog, Eng.after,
      Keys.matchedKeys, hri, List.isEmpty_nil, if_true]
    refine ⟨trivial, ?_⟩
    exact { ltbl := hP.ltbl, isearch := hP.isearch, emacs := f_em, nonInc := f_ni, nomk := f_mk,
            htbl := f_t, ne := hP.ne, nomac := hP.nomac, pm := hnm.2, am := hnm.1,
            ascii := fun b hb' => hascii' b (List.mem_append_right _ hb') }
  · simp only [if_true, Eng.after, Keys.matchedPrefix, hri, Bool.false_eq_true, if_false]
    refine ⟨trivial, ?_⟩
    exact { ltbl := hP.ltbl, isearch := hP.isearch, emacs := f_em, nonInc := f_ni, nomk := f_mk,
            htbl := f_t, ne := hP.ne, nomac := hP.nomac, pm := hnm.2, am := hnm.1,
            ascii := fun b hb' => hascii' b hb' }

theorem read_plain (tbl : List (Seq × Bind)) (s : LS) (c : List Nat) (hP : Plain tbl s) (hc : ∀ b ∈ c, b < 0x80) :
    obs (read s c) = aread (obs s) c ∧ Plain tbl (read s c) := by
  refine ⟨rfl, ?_⟩
  exact { ltbl := hP.ltbl, isearch := hP.isearch, emacs := hP.emacs, nonInc := hP.nonInc, nomk := hP.nomk,
          htbl := hP.htbl, ne := hP.ne, nomac := hP.nomac, pm := hP.pm, am := hP.am,
          ascii := fun b hb => by
            simp only [read, Keys.beforeRead, List.mem_append] at hb
            rcases hb with h | h
            · exact hP.ascii b h
            · exact hc b h }

theorem needRead_obs (tbl : List (Seq × Bind)) (s : LS) (hP : Plain tbl s) : needRead s.eng.keys = aneed (obs s) := by
  simp [needRead, aneed, obs, hP.nomk]

/-- the whole call of the loop model in the plain regime is the stream machine -/
theorem session_obs (tbl : List (Seq × Bind)) (acc : Bind → Bool) : ∀ (f : Nat) (chunks : List (List Nat)) (s : LS),
    Plain tbl s → (∀ c ∈ chunks, ∀ b ∈ c, b < 0x80) →
    obs (session (Clog acc) f chunks s).1 = (asession tbl acc f chunks (obs s)).1 ∧
    (session (Clog acc) f chunks s).2 = (asession tbl acc f chunks (obs s)).2 := by
  intro f
  induction f with
  | zero => intro chunks s _ _; exact ⟨rfl, rfl⟩
  | succ f ih =>
    intro chunks s hP hc
    unfold session asession
    have hdone : (obs s).done = s.done := rfl
    rw [hdone, ← needRead_obs tbl s hP]
    cases hd : s.done
    · simp only [Bool.false_eq_true, if_false]
      cases hn : needRead s.eng.keys
      · simp only [Bool.false_eq_true, if_false]
        have hb : s.eng.keys.buf ≠ [] := by
          intro h; simp [needRead, h, hP.nomk] at hn
        obtain ⟨e1, e2⟩ := iter_plain tbl acc s hP hb hd
        rw [← e1]
        exact ih chunks _ e2 hc
      · simp only [if_true]
        cases chunks with
        | nil => exact ⟨rfl, rfl⟩
        | cons c cs =>
          have hcs : ∀ c' ∈ cs, ∀ b ∈ c', b < 0x80 := fun c' h => hc c' (by simp [h])
          by_cases hce : c.isEmpty = true
          · simp only [hce, if_true]
            exact ih cs s hP hcs
          · simp only [hce, Bool.false_eq_true, if_false]
            obtain ⟨r1, r2⟩ := read_plain tbl s c hP (hc c (by simp))
            have hb : (read s c).eng.keys.buf ≠ [] := by
              intro h
              simp only [read, Keys.beforeRead] at h
              have := (List.append_eq_nil_iff.mp h).2
              rw [this] at hce; simp at hce
            have hd' : (read s c).done = false := hd
            obtain ⟨e1, e2⟩ := iter_plain tbl acc (read s c) r2 hb hd'
            rw [← r1, ← e1]
            exact ih cs _ e2 hcs
    · simp only [if_true]
      exact ⟨trivial, trivial⟩

/-- C05 on the whole call (plain Emacs regime): the binds run, the keys given to them and the acceptance
of the line are the same for any two ways of cutting the same bytes into reads -/
theorem session_chunking (tbl : List (Seq × Bind)) (acc : Bind → Bool) (s : LS) (hP : Plain tbl s)
    (hI : Stream.Inv tbl (obs s)) (c1 c2 : List (List Nat))
    (h1 : ∀ c ∈ c1, ∀ b ∈ c, b < 0x80) (h2 : ∀ c ∈ c2, ∀ b ∈ c, b < 0x80) (hflat : c1.flatten = c2.flatten)
    (f1 f2 : Nat) (hf1 : (session (Clog acc) f1 c1 s).2 = true) (hf2 : (session (Clog acc) f2 c2 s).2 = true) :
    (session (Clog acc) f1 c1 s).1.log = (session (Clog acc) f2 c2 s).1.log ∧
    (session (Clog acc) f1 c1 s).1.done = (session (Clog acc) f2 c2 s).1.done := by
  obtain ⟨a1, b1⟩ := session_obs tbl acc f1 c1 s hP h1
  obtain ⟨a2, b2⟩ := session_obs tbl acc f2 c2 s hP h2
  rw [b1] at hf1
  rw [b2] at hf2
  have k1 := asession_canon tbl acc f1 c1 (obs s) _ hI hf1 (Nat.le_refl _)
  have k2 := asession_canon tbl acc f2 c2 (obs s) _ hI hf2 (Nat.le_refl _)
  rw [← a1] at k1
  rw [← a2, ← hflat] at k2
  have := k1.trans k2.symm
  exact ⟨congrArg Prod.fst this, congrArg Prod.snd this⟩

end MLoop

end RLV
