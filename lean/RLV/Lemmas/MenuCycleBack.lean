import RLV.Lemmas.MenuCycle
/-! The backward cycle (`menu-complete-backward`, Shift-Tab) inside one plain group. -/
namespace RLV.Menu2
open RLV.Core

theorem move_bwd (s : Sel) (hx : 0 ≤ s.x) (hy : 0 ≤ s.y) (hyR : s.y < s.R)
    (hcell : s.x < s.rows s.y.toNat) (hprev : 0 < s.y → 0 < s.rows (s.y - 1).toNat ∧
      (s.rows (s.y - 1).toNat : Int) - 1 ≤ (s.rows s.y.toNat : Int) - 1 + (s.rows (s.y - 1).toNat : Int)) :
    move s (-1) 0 = .ok
      (if 0 < s.x then ({ s with x := s.x - 1 }, false, false)
       else if 0 < s.y then ({ s with y := s.y - 1, x := (s.rows (s.y - 1).toNat : Int) - 1 }, false, false)
       else ({ s with x := 0, y := 0 }, true, false)) := by
  have h0 : ¬ (s.x = -1 ∧ s.y = -1) := by omega
  have e0 : st0 s (-1) 0 = { s with x := s.x - 1, y := s.y } := by
    simp [st0, h0]; omega
  unfold move
  simp only [e0]
  have hrev : decide ((-1 : Int) < 0 ∨ (0 : Int) < 0) = true := by decide
  simp only [hrev]
  by_cases hx0 : 0 < s.x
  · -- one cell to the left
    have h1 : ¬ (s.x - 1 < 0) := by omega
    have hy0 : ¬ (s.y < 0) := by omega
    have hyR' : ¬ (s.y > (s.R : Int) - 1) := by omega
    have hrl : rowLen { s with x := s.x - 1, y := s.y } s.y = .ok (s.rows s.y.toNat : Int) := by
      have : ¬ (s.y < 0 ∨ s.y ≥ s.R) := by omega
      simp [rowLen, this]; rfl
    have h4 : ¬ (s.x - 1 > (s.rows s.y.toNat : Int) - 1) := by omega
    simp only [andThen, st1, st2, st3, st4, h1, hy0, hyR', if_false, hrl, bind, Except.bind, pure, Except.pure]
    simp [hx0, h4]
  · have hx1 : s.x - 1 < 0 := by omega
    by_cases hy0 : 0 < s.y
    · -- last cell of the previous row
      obtain ⟨hp1, _⟩ := hprev hy0
      have hne0 : ¬ (s.y = 0) := by omega
      have hrange : ¬ (s.y - 1 < 0 ∨ s.y - 1 ≥ s.R) := by omega
      let s1 : Sel := { s with y := s.y - 1, x := (s.rows (s.y - 1).toNat : Int) - 1 }
      have e1 : st1 { s with x := s.x - 1, y := s.y } true = .ok (.go s1) := by
        simp [st1, hx1, hne0, rowLen, hrange, bind, Except.bind, pure, Except.pure, s1]
      have e2 : st2 s1 = .go s1 := by
        have : ¬ (s1.y < 0) := by show ¬ (s.y - 1 < 0); omega
        simp [st2, this]
      have e3 : st3 s1 = .go s1 := by
        have : ¬ (s1.y > (s1.R : Int) - 1) := by show ¬ (s.y - 1 > (s.R : Int) - 1); omega
        simp [st3, this]
      have e4 : st4 s1 = .ok (.go s1) := by
        have hr : rowLen s1 s1.y = .ok (s.rows (s.y - 1).toNat : Int) := by
          show rowLen s1 (s.y - 1) = _
          simp [rowLen, hrange, s1]; rfl
        have : ¬ (s1.x > (s.rows (s.y - 1).toNat : Int) - 1) := by
          show ¬ ((s.rows (s.y - 1).toNat : Int) - 1 > (s.rows (s.y - 1).toNat : Int) - 1); omega
        simp only [st4, hr, bind, Except.bind, pure, Except.pure, this, if_false]
      simp only [andThen, e1, e2, e3, e4, bind, Except.bind, pure, Except.pure]
      simp [hx0, hy0, s1]
    · -- the first cell: done, to be continued by the previous group
      have hy00 : s.y = 0 := by omega
      have e1 : st1 { s with x := s.x - 1, y := s.y } true = .ok (.fin { s with x := 0, y := 0 } true false) := by
        simp [st1, hx1, hy00, pure, Except.pure]
      simp only [andThen, e1, bind, Except.bind, pure, Except.pure]
      simp [hx0, hy0]

/-- one Shift-Tab in a single plain group: move back, and on `done` go to the last cell -/
def tabBack (s : Sel) : G Sel := do
  let (s', done, _) ← move s (-1) 0
  pure (if done then { s' with y := (s.R : Int) - 1, x := (s.rows (s.R - 1) : Int) - 1 } else s')

theorem tabBack_step {s : Sel} {n c : Nat} (g : Grid s n c) (hv : Valid s) :
    ∃ s', tabBack s = .ok s' ∧ Valid s' ∧ s'.rows = s.rows ∧ s'.R = s.R ∧
      idx s' c = (if idx s c = 0 then (n : Int) - 1 else idx s c - 1) := by
  obtain ⟨hx, hy, hyR, hcell⟩ := hv
  obtain ⟨y, hyy⟩ : ∃ y : Nat, s.y = y := ⟨s.y.toNat, by omega⟩
  have hyn : y < s.R := by omega
  have hty : s.y.toNat = y := by omega
  have hprev : 0 < s.y → 0 < s.rows (s.y - 1).toNat ∧
      (s.rows (s.y - 1).toNat : Int) - 1 ≤ (s.rows s.y.toNat : Int) - 1 + (s.rows (s.y - 1).toNat : Int) := by
    intro h
    have : (s.y - 1).toNat = y - 1 := by omega
    rw [this]
    have hp := rows_pos g (y - 1) (by omega)
    exact ⟨hp, by omega⟩
  have hm := move_bwd s hx hy hyR hcell hprev
  unfold tabBack
  rw [hm]
  have hlastn : ((s.R - 1 : Nat) : Int) * c + (s.rows (s.R - 1) : Int) = n := by
    have := g.hlast
    exact_mod_cast (by omega : (s.R - 1) * c + s.rows (s.R - 1) = n)
  by_cases hx0 : 0 < s.x
  · refine ⟨{ s with x := s.x - 1 }, by simp [hx0, bind, Except.bind, pure, Except.pure], ?_, rfl, rfl, ?_⟩
    · exact ⟨by show 0 ≤ s.x - 1; omega, hy, hyR, by show s.x - 1 < s.rows s.y.toNat; omega⟩
    · have hne : ¬ (idx s c = 0) := by
        unfold idx
        have : 0 ≤ s.y * (c : Int) := Int.mul_nonneg hy (by omega)
        omega
      rw [if_neg hne]; unfold idx; simp only; omega
  · have hx00 : s.x = 0 := by omega
    by_cases hy0 : 0 < s.y
    · have hym : (s.y - 1).toNat = y - 1 := by omega
      have hrow : s.rows (y - 1) = c := g.hrows (y - 1) (by omega)
      refine ⟨{ s with y := s.y - 1, x := (s.rows (s.y - 1).toNat : Int) - 1 },
        by simp [hx0, hy0, bind, Except.bind, pure, Except.pure], ?_, rfl, rfl, ?_⟩
      · refine ⟨?_, by show 0 ≤ s.y - 1; omega, by show s.y - 1 < s.R; omega, ?_⟩
        · show 0 ≤ (s.rows (s.y - 1).toNat : Int) - 1
          rw [hym, hrow]; have := g.hc; omega
        · show (s.rows (s.y - 1).toNat : Int) - 1 < s.rows (s.y - 1).toNat
          omega
      · have hne : ¬ (idx s c = 0) := by
          unfold idx
          rw [hx00, hyy]
          have : (1 : Int) * c ≤ (y : Int) * c := Int.mul_le_mul_of_nonneg_right (by omega) (by omega)
          have := g.hc
          omega
        rw [if_neg hne]
        unfold idx
        simp only
        rw [hym, hrow, hx00, Int.sub_mul]
        omega
    · have hy00 : s.y = 0 := by omega
      refine ⟨{ s with x := (s.rows (s.R - 1) : Int) - 1, y := (s.R : Int) - 1 },
        by simp [hx0, hy0, bind, Except.bind, pure, Except.pure], ?_, rfl, rfl, ?_⟩
      · have := g.hR; have := g.hlast1
        refine ⟨by show 0 ≤ (s.rows (s.R - 1) : Int) - 1; omega, by show 0 ≤ (s.R : Int) - 1; omega,
          by show (s.R : Int) - 1 < s.R; omega, ?_⟩
        show (s.rows (s.R - 1) : Int) - 1 < s.rows ((s.R : Int) - 1).toNat
        have : ((s.R : Int) - 1).toNat = s.R - 1 := by omega
        rw [this]; omega
      · have h0 : idx s c = 0 := by unfold idx; rw [hx00, hy00]; simp
        rw [if_pos h0]
        unfold idx
        simp only
        have : ((s.R : Int) - 1) = ((s.R - 1 : Nat) : Int) := by have := g.hR; omega
        rw [this]
        omega

end RLV.Menu2
