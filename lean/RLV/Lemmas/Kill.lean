import RLV.Model.Core
/-! Generic kill/yank inverse law on the Line model (C16):
cutting `[b, e)` out of a line and inserting the removed text back at `b` restores the line. -/
namespace RLV.Core

theorem stripZerosAux_noZero (n : Nat) (cs : List Nat) (h : ∀ c ∈ cs, c ≠ 0) : stripZerosAux n cs = cs := by
  cases n with
  | zero => rfl
  | succ n =>
    unfold stripZerosAux
    split
    · rename_i hc
      exact absurd (List.mem_of_getLast? hc.2) (fun hm => h 0 hm rfl)
    · rfl

theorem stripZeros_noZero (cs : List Nat) (h : ∀ c ∈ cs, c ≠ 0) : stripZeros cs = cs :=
  stripZerosAux_noZero _ _ h

theorem from_ok (l : Line) (a : Int) (h0 : 0 ≤ a) (h1 : a ≤ len l) : from_ l a = .ok (l.drop a.toNat) := by
  unfold from_
  have : ¬ (a < 0 ∨ a > len l) := by omega
  simp only [this, if_false]

theorem upto_ok (l : Line) (a : Int) (h0 : 0 ≤ a) (h1 : a ≤ len l) : upto l a = .ok (l.take a.toNat) := by
  unfold upto
  have h2 : ¬ a < 0 := by omega
  have h3 : ¬ a > len l := by omega
  simp only [h2, h3, if_false]

/-- the text of `[b, e)` -/
def slice (l : Line) (b e : Int) : List Nat := (l.drop b.toNat).take (e.toNat - b.toNat)

theorem cut_spec (l : Line) (b e : Int) (hb : 0 ≤ b) (hbe : b ≤ e) (he : e ≤ len l) :
    cut l b e = .ok (l.take b.toNat ++ l.drop e.toNat) := by
  unfold cut checkRange
  have h1 : ¬ (b = -1 ∧ e = -1) := by omega
  have h2 : ¬ e > len l := by omega
  have h3 : ¬ b < 0 := by omega
  have h4 : ¬ (e > -1 ∧ e < b) := by omega
  simp only [h1, h2, h3, h4, if_false]
  have h5 : ¬ e = -1 := by omega
  simp only [Bool.not_true, Bool.false_eq_true, if_false, h5, bind, Except.bind, pure, Except.pure]
  unfold from_ upto
  have h6 : ¬ (e < 0 ∨ e > len l) := by omega
  have h7 : ¬ b < 0 := h3
  have h8 : ¬ b > len l := by omega
  simp [h6, h7, h8]

theorem take_drop_slice (l : List Nat) (b e : Nat) (hbe : b ≤ e) (he : e ≤ l.length) :
    l.take b ++ ((l.drop b).take (e - b) ++ l.drop e) = l := by
  have : l.drop e = (l.drop b).drop (e - b) := by
    rw [List.drop_drop]; congr 1; omega
  rw [this, List.take_append_drop, List.take_append_drop]

/-- `Line.Insert` of text without NUL runes at a position inside the line -/
theorem insert_spec (l : Line) (p : Int) (v : List Nat) (hz : ∀ c ∈ v, c ≠ 0) (h0 : 0 ≤ p) (h1 : p ≤ len l) :
    insert l p v = .ok (l.take p.toNat ++ v ++ l.drop p.toNat) := by
  unfold insert
  simp only [stripZeros_noZero _ hz, bind, Except.bind, pure, Except.pure]
  have hn1 : ¬ (p < 0 ∨ p > len l) := by omega
  simp only [hn1, if_false]
  by_cases hl : len l = 0
  · have : l = [] := by unfold len at hl; exact List.length_eq_zero_iff.mp (by omega)
    subst this
    simp [hl]
  · simp only [hl, if_false]
    by_cases hlt : p < len l
    · simp only [hlt, if_true, from_ok l p h0 h1, upto_ok l p h0 h1]
    · simp only [hlt, if_false]
      have : l.length ≤ p.toNat := by unfold len at hlt h1; omega
      rw [List.take_of_length_le this, List.drop_of_length_le this]
      simp

/-- C16 core: kill `[b, e)` then yank the removed text at `b` restores the line. -/
theorem cut_insert_id (l : Line) (b e : Int) (hb : 0 ≤ b) (hbe : b ≤ e) (he : e ≤ len l)
    (hnz : ∀ c ∈ l, c ≠ 0) :
    ∃ l', cut l b e = .ok l' ∧ insert l' b (slice l b e) = .ok l := by
  refine ⟨_, cut_spec l b e hb hbe he, ?_⟩
  have hbn : b.toNat ≤ e.toNat := Int.toNat_le_toNat hbe
  have hen : e.toNat ≤ l.length := by
    have : e.toNat ≤ (len l).toNat := Int.toNat_le_toNat he
    simpa [len] using this
  have hsl : ∀ c ∈ slice l b e, c ≠ 0 := fun c hc =>
    hnz c (List.mem_of_mem_drop (List.mem_of_mem_take hc))
  unfold insert
  simp only [stripZeros_noZero _ hsl, bind, Except.bind, pure, Except.pure]
  have hlen' : len (l.take b.toNat ++ l.drop e.toNat) = b + (len l - e) := by
    simp only [len, List.length_append, List.length_take, List.length_drop]
    have : min b.toNat l.length = b.toNat := by omega
    rw [this]; omega
  have hn1 : ¬ (b < 0 ∨ b > len (l.take b.toNat ++ l.drop e.toNat)) := by rw [hlen']; omega
  simp only [hn1, if_false]
  by_cases hz : len (l.take b.toNat ++ l.drop e.toNat) = 0
  · -- the whole line was cut
    simp only [hz, if_true]
    have hb0 : b = 0 := by rw [hlen'] at hz; omega
    have hel : e = len l := by rw [hlen'] at hz; omega
    subst hb0
    simp only [slice, Int.toNat_zero, List.drop_zero, Nat.sub_zero]
    congr 1
    apply List.take_of_length_le
    simp [hel, len]
  · simp only [hz, if_false]
    by_cases hlt : b < len (l.take b.toNat ++ l.drop e.toNat)
    · simp only [hlt, if_true]
      rw [from_ok _ b hb (by omega), upto_ok _ b hb (by omega)]
      simp only []
      have htl : (l.take b.toNat).length = b.toNat := by
        simp only [List.length_take]; omega
      have e1 : (l.take b.toNat ++ l.drop e.toNat).take b.toNat = l.take b.toNat := by
        rw [List.take_append_of_le_length (by omega)]
        exact List.take_of_length_le (by omega)
      have e2 : (l.take b.toNat ++ l.drop e.toNat).drop b.toNat = l.drop e.toNat := by
        rw [List.drop_append_of_le_length (by omega)]
        rw [List.drop_of_length_le (by omega)]; rfl
      rw [e1, e2]
      congr 1
      simp only [slice, List.append_assoc]
      exact take_drop_slice l b.toNat e.toNat hbn hen
    · -- cut reached the end of the line: append
      simp only [hlt, if_false]
      have hel : e = len l := by rw [hlen'] at hlt; omega
      have hd : l.drop e.toNat = [] := by
        apply List.drop_of_length_le; simp [hel, len]
      rw [hd, List.append_nil]
      congr 1
      simp only [slice]
      have : (l.drop b.toNat).take (e.toNat - b.toNat) = l.drop b.toNat := by
        apply List.take_of_length_le
        simp only [List.length_drop]; simp [hel, len]
      rw [this, List.take_append_drop]

example : ∃ l', cut [97, 98, 32, 99] 1 3 = .ok l' ∧ insert l' 1 (slice [97, 98, 32, 99] 1 3) = .ok [97, 98, 32, 99] :=
  cut_insert_id _ 1 3 (by decide) (by decide) (by decide) (by decide)

end RLV.Core
