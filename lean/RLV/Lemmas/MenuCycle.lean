import RLV.Lemmas.MenuSel
namespace RLV.Menu2
open RLV.Core

/-- shape of a plain grid of `n ≥ 1` candidates in rows of `c ≥ 1` -/
structure Grid (s : Sel) (n c : Nat) : Prop where
  hc : 0 < c
  hR : 0 < s.R
  hrows : ∀ y, y + 1 < s.R → s.rows y = c
  hlast : s.rows (s.R - 1) + (s.R - 1) * c = n
  hlast1 : 0 < s.rows (s.R - 1)
  hlastc : s.rows (s.R - 1) ≤ c

def Valid (s : Sel) : Prop := 0 ≤ s.x ∧ 0 ≤ s.y ∧ s.y < s.R ∧ s.x < s.rows s.y.toNat

def idx (s : Sel) (c : Nat) : Int := s.y * c + s.x

/-- one Tab in a single plain group: move, and on (done, next) go to the first cell -/
def tab (s : Sel) : G Sel := do
  let (s', done, _) ← move s 1 0
  pure (if done then { s' with x := 0, y := 0 } else s')

theorem rows_pos {s : Sel} {n c : Nat} (g : Grid s n c) (y : Nat) (hy : y < s.R) : 0 < s.rows y := by
  by_cases h : y + 1 < s.R
  · rw [g.hrows y h]; exact g.hc
  · have : y = s.R - 1 := by omega
    rw [this]; exact g.hlast1

theorem tab_step {s : Sel} {n c : Nat} (g : Grid s n c) (hv : Valid s) :
    ∃ s', tab s = .ok s' ∧ Valid s' ∧ s'.rows = s.rows ∧ s'.R = s.R ∧
      idx s' c = (if idx s c + 1 = n then 0 else idx s c + 1) ∧ idx s c < n := by
  obtain ⟨hx, hy, hyR, hcell⟩ := hv
  have hm := move_fwd s hx hy hyR hcell
  obtain ⟨y, hyy⟩ : ∃ y : Nat, s.y = y := ⟨s.y.toNat, by omega⟩
  have hyn : y < s.R := by omega
  have hty : s.y.toNat = y := by omega
  rw [hty] at hm hcell
  have hR1 : (s.R - 1 : Nat) + 1 = s.R := by have := g.hR; omega
  -- index bound
  have hidx : idx s c < n := by
    unfold idx
    by_cases h : y + 1 < s.R
    · have hr := g.hrows y h
      have h2 : (y + 1) * c ≤ (s.R - 1) * c := Nat.mul_le_mul_right c (by omega)
      have h3 := g.hlast; have h4 := g.hlast1
      have : (y : Int) * c + c ≤ ((s.R - 1 : Nat) : Int) * c := by
        have := h2; rw [Nat.add_mul] at this; exact_mod_cast (by omega : y * c + c ≤ (s.R - 1) * c)
      rw [hyy]; rw [hr] at hcell
      have h5 : ((s.R - 1 : Nat) : Int) * c < n := by exact_mod_cast (by omega : (s.R - 1) * c < n)
      omega
    · have hy1 : y = s.R - 1 := by omega
      have h3 := g.hlast
      rw [hyy, hy1]; rw [hy1] at hcell
      have : ((s.R - 1 : Nat) : Int) * c + (s.rows (s.R - 1) : Int) = n := by exact_mod_cast (by omega : (s.R - 1) * c + s.rows (s.R - 1) = n)
      omega
  unfold tab
  rw [hm]
  by_cases h1 : s.x + 1 < s.rows y
  · -- move right
    refine ⟨{ s with x := s.x + 1 }, by simp [h1, bind, Except.bind, pure, Except.pure], ?_, rfl, rfl, ?_, hidx⟩
    · exact ⟨by show 0 ≤ s.x + 1; omega, hy, hyR, by show s.x + 1 < s.rows s.y.toNat; rw [hty]; exact h1⟩
    · have : idx { s with x := s.x + 1 } c = idx s c + 1 := by unfold idx; simp; omega
      rw [this]
      have : ¬ (idx s c + 1 = n) := by
        -- idx + 1 < n because there is still a cell to the right
        unfold idx at hidx ⊢
        by_cases h : y + 1 < s.R
        · have hr := g.hrows y h
          have h2 : (y + 1) * c ≤ (s.R - 1) * c := Nat.mul_le_mul_right c (by omega)
          have : (y : Int) * c + c ≤ ((s.R - 1 : Nat) : Int) * c := by
            rw [Nat.add_mul] at h2; exact_mod_cast (by omega : y * c + c ≤ (s.R - 1) * c)
          have h5 : ((s.R - 1 : Nat) : Int) * c < n := by
            have := g.hlast; have := g.hlast1
            exact_mod_cast (by omega : (s.R - 1) * c < n)
          rw [hyy]; rw [hr] at h1; omega
        · have hy1 : y = s.R - 1 := by omega
          have : ((s.R - 1 : Nat) : Int) * c + (s.rows (s.R - 1) : Int) = n := by
            have := g.hlast
            exact_mod_cast (by omega : (s.R - 1) * c + s.rows (s.R - 1) = n)
          rw [hyy, hy1]; rw [hy1] at h1; omega
      simp [this]
  · by_cases h2 : s.y + 1 < s.R
    · -- next row
      have hy2 : y + 1 < s.R := by omega
      have hr := g.hrows y hy2
      refine ⟨{ s with x := 0, y := s.y + 1 }, by simp [h1, h2, bind, Except.bind, pure, Except.pure], ?_, rfl, rfl, ?_, hidx⟩
      · refine ⟨by show (0:Int) ≤ 0; omega, by show 0 ≤ s.y + 1; omega, by show s.y + 1 < s.R; omega, ?_⟩
        show (0 : Int) < s.rows (s.y + 1).toNat
        have : (s.y + 1).toNat = y + 1 := by omega
        rw [this]
        exact_mod_cast rows_pos g (y + 1) hy2
      · have hxc : s.x + 1 = c := by rw [hr] at h1 hcell; omega
        have : idx { s with x := 0, y := s.y + 1 } c = idx s c + 1 := by
          unfold idx; simp only; rw [Int.add_mul]; omega
        rw [this]
        have : ¬ (idx s c + 1 = n) := by
          unfold idx
          have h2' : (y + 1 + 1) * c ≤ s.R * c := Nat.mul_le_mul_right c (by omega)
          have h6 : (y + 1) * c ≤ (s.R - 1) * c := Nat.mul_le_mul_right c (by omega)
          have h5 : ((s.R - 1 : Nat) : Int) * c < n := by
            have := g.hlast; have := g.hlast1
            exact_mod_cast (by omega : (s.R - 1) * c < n)
          have : (y : Int) * c + c ≤ ((s.R - 1 : Nat) : Int) * c := by
            rw [Nat.add_mul] at h6; exact_mod_cast (by omega : y * c + c ≤ (s.R - 1) * c)
          rw [hyy]; omega
        simp [this]
    · -- wrap to the first cell
      have hy1 : y = s.R - 1 := by omega
      refine ⟨{ s with x := 0, y := 0 }, by simp [h1, h2, bind, Except.bind, pure, Except.pure], ?_, rfl, rfl, ?_, hidx⟩
      · refine ⟨by show (0:Int) ≤ 0; omega, by show (0:Int) ≤ 0; omega, by show (0:Int) < s.R; have := g.hR; omega, ?_⟩
        show (0 : Int) < s.rows (0 : Int).toNat
        exact_mod_cast rows_pos g 0 g.hR
      · have hlast : idx s c + 1 = n := by
          unfold idx
          have : ((s.R - 1 : Nat) : Int) * c + (s.rows (s.R - 1) : Int) = n := by
            have := g.hlast
            exact_mod_cast (by omega : (s.R - 1) * c + s.rows (s.R - 1) = n)
          rw [hyy, hy1]; rw [hy1] at h1 hcell; omega
        rw [if_pos hlast]; simp [idx]

end RLV.Menu2

namespace RLV.Menu2
open RLV.Core

def tabs : Nat → Sel → G Sel
  | 0, s => pure s
  | k+1, s => do let s' ← tab s; tabs k s'

/-- After `k` Tabs from a valid cell of index `i` the selector is on index `(i + k) mod n`:
`n` consecutive Tabs visit `n` distinct candidates (all of them) and the next one is back at the start. -/
theorem tabs_index {n c : Nat} : ∀ (k : Nat) (s : Sel), Grid s n c → Valid s →
    ∃ s', tabs k s = .ok s' ∧ Valid s' ∧ Grid s' n c ∧ idx s' c = ((idx s c + k) % n) := by
  intro k
  induction k with
  | zero =>
    intro s g hv
    obtain ⟨_, _, _, _, _, _, hlt⟩ := tab_step g hv
    have h0 : 0 ≤ idx s c := by
      obtain ⟨hx, hy, _, _⟩ := hv
      unfold idx
      have : 0 ≤ s.y * (c : Int) := Int.mul_nonneg hy (by omega)
      omega
    refine ⟨s, rfl, hv, g, ?_⟩
    simp only [Int.natCast_zero, Int.add_zero]
    rw [Int.emod_eq_of_lt h0 hlt]
  | succ k ih =>
    intro s g hv
    obtain ⟨s1, h1, hv1, hr, hR, hi, hlt⟩ := tab_step g hv
    have g1 : Grid s1 n c := by
      constructor
      · exact g.hc
      · rw [hR]; exact g.hR
      · intro y hy; rw [hr]; exact g.hrows y (by rw [hR] at hy; exact hy)
      · rw [hr, hR]; exact g.hlast
      · rw [hr, hR]; exact g.hlast1
      · rw [hr, hR]; exact g.hlastc
    obtain ⟨s2, h2, hv2, g2, hi2⟩ := ih s1 g1 hv1
    refine ⟨s2, ?_, hv2, g2, ?_⟩
    · simp only [tabs, h1, bind, Except.bind]; exact h2
    · rw [hi2, hi]
      have h0 : 0 ≤ idx s c := by
        obtain ⟨hx, hy, _, _⟩ := hv
        unfold idx
        have : 0 ≤ s.y * (c : Int) := Int.mul_nonneg hy (by omega)
        omega
      have hn : (0 : Int) < n := by omega
      by_cases hw : idx s c + 1 = n
      · rw [if_pos hw]
        have : idx s c + (k + 1 : Nat) = (k : Int) + n := by push_cast; omega
        rw [this, Int.add_emod_right]; simp
      · rw [if_neg hw]
        have : idx s c + (k + 1 : Nat) = idx s c + 1 + k := by push_cast; omega
        rw [this]

end RLV.Menu2
