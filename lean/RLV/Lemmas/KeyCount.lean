import RLV.Model.Keys
/-! Counting the keys of the key stack through the dispatchers (C01): how many keys `dispatchKeys`,
`matchCharLoop`, `matchMain`, `matchLocal` take from the stack and push back, which queue they come
from, and what becomes of the flags the main loop looks at. Only lengths and flags are tracked. -/
namespace RLV

/-- keys waiting in the stack, typed or fed -/
def Keys.pending (k : Keys) : Nat := k.buf.length + k.mkeys.length

/-- `n` keys taken (`Keys.Pop`, `Keys.ReadKey`: the queue discipline of `PopKey`) -/
def Keys.popN : Nat → Keys → Keys
  | 0, k => k
  | n+1, k => Keys.popN n k.pop

/-- `k'` is `k` after `j` keys have been taken (typed keys first) -/
structure PopRel (j : Nat) (k k' : Keys) : Prop where
  le : j ≤ k.pending
  buf : k'.buf.length = k.buf.length - j
  mks : k'.mkeys.length = k.mkeys.length - (j - k.buf.length)
  nested : k'.nested = k.nested
  wait : k'.mustWait = k.mustWait
  matched : k'.matched = k.matched
  flag : k'.fromMacro = (k.fromMacro || decide (k.buf.length < j))

theorem PopRel.refl (k : Keys) : PopRel 0 k k :=
  ⟨Nat.zero_le _, by simp, by simp, rfl, rfl, rfl, by simp⟩

theorem PopRel.pending {j : Nat} {k k' : Keys} (h : PopRel j k k') : k'.pending + j = k.pending := by
  have := h.le; have := h.buf; have := h.mks
  unfold Keys.pending at *
  omega

/-- one more `PopKey` -/
theorem PopRel.step {j : Nat} {k k' : Keys} (h : PopRel j k k') (hp : 0 < k'.pending) :
    PopRel (j + 1) k k'.pop := by
  have hpe := h.pending
  have hb := h.buf; have hm := h.mks
  unfold Keys.pending at hp hpe
  cases hbuf : k'.buf with
  | cons a t =>
    have hl : k'.buf.length = t.length + 1 := by rw [hbuf]; rfl
    refine ⟨by unfold Keys.pending; omega, ?_, ?_, ?_, ?_, ?_, ?_⟩
    · simp only [Keys.pop, hbuf, List.length_nil, List.length_cons]; omega
    · simp only [Keys.pop, hbuf, List.length_nil, List.length_cons]; omega
    · simp only [Keys.pop, hbuf, List.length_nil, List.length_cons]; exact h.nested
    · simp only [Keys.pop, hbuf, List.length_nil, List.length_cons]; exact h.wait
    · simp only [Keys.pop, hbuf, List.length_nil, List.length_cons]; exact h.matched
    · simp only [Keys.pop, hbuf, List.length_nil, List.length_cons]
      rw [h.flag]
      have h1 : ¬ k.buf.length < j := by omega
      have h2 : ¬ k.buf.length < j + 1 := by omega
      simp [h1, h2]
  | nil =>
    have hl : k'.buf.length = 0 := by rw [hbuf]; rfl
    cases hmk : k'.mkeys with
    | nil => rw [hbuf, hmk] at hp; simp at hp
    | cons a t =>
      have hl2 : k'.mkeys.length = t.length + 1 := by rw [hmk]; rfl
      refine ⟨by unfold Keys.pending; omega, ?_, ?_, ?_, ?_, ?_, ?_⟩
      · simp only [Keys.pop, hbuf, hmk, List.length_nil, List.length_cons]; omega
      · simp only [Keys.pop, hbuf, hmk, List.length_nil, List.length_cons]; omega
      · simp only [Keys.pop, hbuf, hmk, List.length_nil, List.length_cons]; exact h.nested
      · simp only [Keys.pop, hbuf, hmk, List.length_nil, List.length_cons]; exact h.wait
      · simp only [Keys.pop, hbuf, hmk, List.length_nil, List.length_cons]; exact h.matched
      · simp only [Keys.pop, hbuf, hmk, List.length_nil, List.length_cons]
        have h2 : k.buf.length < j + 1 := by omega
        simp [h2]

theorem peek_none_iff (k : Keys) : k.peek = none ↔ k.pending = 0 := by
  unfold Keys.peek Keys.pending
  cases k.buf <;> cases k.mkeys <;> simp

/-- everything but the keys, the prefixed bind and the active bind is left alone -/
def Eng.Frame (e e' : Eng) : Prop :=
  e' = { e with keys := e'.keys, prefixed := e'.prefixed, active := e'.active }

theorem Eng.Frame.refl (e : Eng) : Eng.Frame e e := rfl

theorem Eng.Frame.trans {a b c : Eng} (h1 : Eng.Frame a b) (h2 : Eng.Frame b c) : Eng.Frame a c := by
  unfold Eng.Frame at *
  rw [h2, h1]

/-- what `dispatchKeys` does to the stack: it takes `j` keys, all of them when it reports a prefix, at
least one when there is one; without a prefix the prefixed bind is dropped; and a bind selected without
any matched key is the one that was prefixed before the call. -/
theorem dispatchKeys_sum (tbl : List (Seq × Bind)) :
    ∀ (n : Nat) (e : Eng) (read matched : Seq) (pfx : Bool), e.keys.pending ≤ n →
      matched.length ≤ read.length →
      let r := dispatchKeys tbl n e read matched pfx
      ∃ j, PopRel j e.keys r.1.keys ∧ r.2.2.1.length = read.length + j ∧
        r.2.2.2.length ≤ r.2.2.1.length ∧ matched.length ≤ r.2.2.2.length ∧
        (r.2.1 = true → r.1.keys.pending = 0) ∧
        (0 < e.keys.pending → 0 < j) ∧
        (0 < e.keys.pending → r.2.1 = false → r.1.prefixed = Bind.none) ∧
        (0 < e.keys.pending → r.2.1 = false → r.2.2.2.length = matched.length → r.1.active = e.prefixed) ∧
        (e.keys.pending = 0 → r.1 = e ∧ r.2.1 = pfx) ∧
        Eng.Frame e r.1 := by
  intro n
  induction n with
  | zero =>
    intro e read matched pfx hn hm
    have h0 : e.keys.pending = 0 := by omega
    simp only [dispatchKeys]
    exact ⟨0, PopRel.refl _, by simp, hm, Nat.le_refl _, fun _ => h0, by omega, by omega, by omega,
      by simp, Eng.Frame.refl _⟩
  | succ n ih =>
    intro e read matched pfx hn hm
    cases hp : e.keys.peek with
    | none =>
      have h0 : e.keys.pending = 0 := (peek_none_iff _).mp hp
      simp only [dispatchKeys, hp]
      exact ⟨0, PopRel.refl _, by simp, hm, Nat.le_refl _, fun _ => h0, by omega, by omega, by omega,
        by simp, Eng.Frame.refl _⟩
    | some k =>
      have hpos : 0 < e.keys.pending := by
        rcases Nat.eq_zero_or_pos e.keys.pending with h | h
        · rw [(peek_none_iff _).mpr h] at hp; cases hp
        · exact h
      have hstep : PopRel 1 e.keys e.keys.pop := by
        simpa using (PopRel.refl e.keys).step hpos
      simp only [dispatchKeys, hp]
      split
      · -- no match
        refine ⟨1, hstep, by simp, by simp; omega, Nat.le_refl _, by simp, by omega, fun _ _ => rfl,
          fun _ _ _ => rfl, by omega, rfl⟩
      · split
        · -- prefix: go on
          generalize hE : ({ e with keys := e.keys.pop, prefixed := if (matchBind (read ++ [k]) tbl).1.action ≠ "" then (matchBind (read ++ [k]) tbl).1 else e.prefixed } : Eng) = e'
          have hk' : e'.keys = e.keys.pop := by rw [← hE]
          have hfr0 : Eng.Frame e e' := by rw [← hE]; rfl
          rw [← hk'] at hstep
          have hpe : e'.keys.pending + 1 = e.keys.pending := hstep.pending
          obtain ⟨j, hj, hread, hml, hmm, hpf, hj0, hpr, hact, hz, hfr⟩ :=
            ih e' (read ++ [k]) (matched ++ [k]) true (by omega) (by simp; omega)
          refine ⟨j + 1, ?_, ?_, hml, ?_, hpf, by omega, ?_, ?_, by omega, ?_⟩
          · -- compose the pops
            have h1 := hj.pending
            refine ⟨by omega, ?_, ?_, ?_, ?_, ?_, ?_⟩
            · rw [hj.buf, hstep.buf]; omega
            · rw [hj.mks, hstep.mks, hstep.buf]; omega
            · rw [hj.nested, hstep.nested]
            · rw [hj.wait, hstep.wait]
            · rw [hj.matched, hstep.matched]
            · rw [hj.flag, hstep.flag, hstep.buf]
              by_cases h1 : e.keys.buf.length < 1 <;> by_cases h2 : e.keys.buf.length - 1 < j <;>
                by_cases h3 : e.keys.buf.length < j + 1 <;> simp [h1, h2, h3] <;> omega
          · rw [hread]; simp; omega
          · simp at hmm; omega
          · intro _ hf
            rcases Nat.eq_zero_or_pos e'.keys.pending with h | h
            · have := (hz h).2; rw [this] at hf; cases hf
            · exact hpr h hf
          · intro _ hf hlen
            simp at hmm; omega
          · exact Eng.Frame.trans hfr0 hfr
        · -- exact match
          refine ⟨1, hstep, by simp, by simp; omega, by simp, by simp, by omega, fun _ _ => rfl,
            fun _ _ h => ?_, by omega, rfl⟩
          simp at h

end RLV
