import RLV.Model.MenuSel
namespace RLV.Menu2
open RLV.Core

theorem move_fwd (s : Sel) (hx : 0 ≤ s.x) (hy : 0 ≤ s.y) (hyR : s.y < s.R)
    (hcell : s.x < s.rows s.y.toNat) :
    move s 1 0 = .ok
      (if s.x + 1 < s.rows s.y.toNat then ({ s with x := s.x + 1 }, false, false)
       else if s.y + 1 < s.R then ({ s with x := 0, y := s.y + 1 }, false, false)
       else ({ s with x := 0 }, true, true)) := by
  have h0 : ¬ (s.x = -1 ∧ s.y = -1) := by omega
  have e0 : st0 s 1 0 = { s with x := s.x + 1, y := s.y } := by
    simp [st0, h0]
  have hx1 : ¬ (s.x + 1 < 0) := by omega
  have hy0 : ¬ (s.y < 0) := by omega
  have hyR' : ¬ (s.y > (s.R : Int) - 1) := by omega
  have hrl : rowLen { s with x := s.x + 1, y := s.y } s.y = .ok (s.rows s.y.toNat : Int) := by
    have : ¬ (s.y < 0 ∨ s.y ≥ s.R) := by omega
    simp [rowLen, this]; rfl
  unfold move
  simp only [e0]
  simp only [andThen, st1, st2, st3, st4, hx1, hy0, hyR', if_false, hrl, bind, Except.bind, pure, Except.pure]
  by_cases h1 : s.x + 1 < s.rows s.y.toNat
  · have : ¬ (s.x + 1 > (s.rows s.y.toNat : Int) - 1) := by omega
    simp [h1, this]
  · have : (s.x + 1 > (s.rows s.y.toNat : Int) - 1) := by omega
    by_cases h2 : s.y + 1 < s.R
    · have : s.y < (s.R : Int) - 1 := by omega
      simp [h1, *]
    · have : ¬ (s.y < (s.R : Int) - 1) := by omega
      simp [h1, h2, *]

end RLV.Menu2
