import RLV.Model.TermRun
/-! Printing and erasing on the terminal model, in linear cell indices (`row * w + column`). -/
namespace RLV.Term
open RLV.Disp

theorem puts_nil (t : Term) : t.puts [] = t := rfl

theorem puts_append (t : Term) (a b : List Nat) : t.puts (a ++ b) = (t.puts a).puts b := by
  unfold puts; rw [List.foldl_append]

theorem succ_mod_zero_iff (L w : Nat) (hw : 0 < w) : (L + 1) % w = 0 ↔ L % w + 1 = w := by
  have hL : w * (L / w) + L % w = L := Nat.div_add_mod L w
  have hm : L % w < w := Nat.mod_lt L hw
  by_cases hlt : L % w + 1 < w
  · have : (L + 1) % w = L % w + 1 := by
      have e : L + 1 = w * (L / w) + (L % w + 1) := by omega
      rw [e, Nat.mul_add_mod, Nat.mod_eq_of_lt hlt]
    omega
  · have heq : L % w + 1 = w := by omega
    have e : L + 1 = w * (L / w + 1) := by rw [Nat.mul_add, Nat.mul_one]; omega
    constructor
    · intro _; exact heq
    · intro _; rw [e, Nat.mul_mod_right]

/-- the wrap is pending after a glyph exactly when the glyph filled the last column -/
theorem put_pw (t : Term) (g : Nat) (h : t.WF) : (t.put g).pw = decide ((t.L + 1) % t.w = 0) := by
  obtain ⟨_, hm⟩ := L_div_mod t h
  have hn := nx_lt t h
  show decide (t.nx + 1 ≥ t.w) = _
  congr 1
  apply propext
  rw [succ_mod_zero_iff t.L t.w h.1, hm]
  omega

theorem puts_pw (gs : List Nat) (hne : gs ≠ []) : ∀ (t : Term), t.WF →
    (t.puts gs).pw = decide ((t.L + gs.length) % t.w = 0) := by
  induction gs with
  | nil => exact absurd rfl hne
  | cons g gs ih =>
    intro t h
    have e : t.puts (g :: gs) = (t.put g).puts gs := rfl
    rw [e]
    by_cases hg : gs = []
    · subst hg
      simp only [puts_nil, List.length_cons, List.length_nil]
      exact put_pw t g h
    · rw [ih hg (t.put g) (put_WF t g h), put_L t g h, put_w]
      simp only [List.length_cons]
      have : t.L + 1 + gs.length = t.L + (gs.length + 1) := by omega
      rw [this]

/-- comparing a cell with the cursor cell in linear order -/
theorem lin_ge {w x y r c : Nat} (hx : x < w) (hc : c < w) :
    y * w + x ≤ r * w + c ↔ (y < r ∨ (r = y ∧ x ≤ c)) := by
  constructor
  · intro h
    by_cases hr : y < r
    · exact Or.inl hr
    · right
      have hry : r ≤ y := by omega
      by_cases he : r = y
      · subst he; exact ⟨rfl, by omega⟩
      · exfalso
        have : r + 1 ≤ y := by omega
        have : (r + 1) * w ≤ y * w := Nat.mul_le_mul_right w this
        rw [Nat.add_mul] at this
        omega
  · rintro (h | ⟨rfl, h⟩)
    · have : (y + 1) * w ≤ r * w := Nat.mul_le_mul_right w h
      rw [Nat.add_mul] at this
      omega
    · omega

/-- the pending wrap resolved: the cursor where the next glyph goes -/
def settle (t : Term) : Term := { t with x := t.nx, y := t.ny, pw := false }

/-- erase from the (settled) cursor to the end of the screen: what `EL0`, `CRLF`, `EL0`, `ED0` do
together; the cursor ends at the start of the next row -/
theorem erase_to_end (t : Term) (hx : t.x < t.w) (hpw : t.pw = false) :
    let t' := ((t.el0.crlf).el0).ed0
    t'.x = 0 ∧ t'.y = t.y + 1 ∧ t'.pw = false ∧ t'.w = t.w ∧
    ∀ r c, c < t.w → t'.cell r c = if t.y * t.w + t.x ≤ r * t.w + c then blank else t.cell r c := by
  refine ⟨rfl, rfl, rfl, rfl, ?_⟩
  intro r c hc
  have hl := @lin_ge t.w t.x t.y r c hx hc
  show (if (r = (t.el0.crlf).el0.y ∧ (t.el0.crlf).el0.x ≤ c) ∨ (t.el0.crlf).el0.y < r then blank
        else (t.el0.crlf).el0.cell r c) = _
  show (if (r = t.y + 1 ∧ 0 ≤ c) ∨ t.y + 1 < r then blank
        else (if r = t.y + 1 ∧ 0 ≤ c then blank
              else (if r = t.y ∧ t.x ≤ c then blank else t.cell r c))) = _
  by_cases hA : r = t.y + 1
  · have : t.y * t.w + t.x ≤ r * t.w + c := hl.mpr (Or.inl (by omega))
    rw [if_pos (Or.inl ⟨hA, Nat.zero_le c⟩), if_pos this]
  · by_cases hB : t.y + 1 < r
    · have : t.y * t.w + t.x ≤ r * t.w + c := hl.mpr (Or.inl (by omega))
      rw [if_pos (Or.inr hB), if_pos this]
    · have h1 : ¬ ((r = t.y + 1 ∧ 0 ≤ c) ∨ t.y + 1 < r) := by
        intro h; rcases h with h | h
        · exact hA h.1
        · exact hB h
      have h2 : ¬ (r = t.y + 1 ∧ 0 ≤ c) := fun h => hA h.1
      rw [if_neg h1, if_neg h2]
      by_cases hC : r = t.y ∧ t.x ≤ c
      · have : t.y * t.w + t.x ≤ r * t.w + c := hl.mpr (Or.inr hC)
        rw [if_pos hC, if_pos this]
      · have : ¬ (t.y * t.w + t.x ≤ r * t.w + c) := by
          intro h; rcases hl.mp h with h | h
          · omega
          · exact hC h
        rw [if_neg hC, if_neg this]

end RLV.Term
