import RLV.Model.Keys
/-! Keys fed by a macro are dispatched exactly like typed keys (C18, C03 macro clause): with an empty
type-ahead buffer, `dispatchKeys` on fed keys `K` (all below 256 — `PopKey` keeps one byte of each)
does what it does on the same keys typed, the unread rest staying in the queue it came from. -/
namespace RLV

/-- move the typed keys of an engine to the macro queue -/
def Eng.asFed (e : Eng) : Eng := { e with keys := { e.keys with buf := [], mkeys := e.keys.buf } }

theorem dispatchKeys_fed (tbl : List (Seq × Bind)) :
    ∀ (n : Nat) (e : Eng) (read matched : Seq) (pfx : Bool),
      e.keys.mkeys = [] → (∀ k ∈ e.keys.buf, k < 256) →
      dispatchKeys tbl n e.asFed read matched pfx =
        (let r := dispatchKeys tbl n e read matched pfx
         (r.1.asFed, r.2.1, r.2.2.1, r.2.2.2)) := by
  intro n
  induction n with
  | zero => intro e read matched pfx _ _; simp [dispatchKeys]
  | succ n ih =>
    intro e read matched pfx hmk hlt
    cases hb : e.keys.buf with
    | nil =>
      have hp1 : e.asFed.keys.peek = none := by simp [Eng.asFed, Keys.peek, hb]
      have hp2 : e.keys.peek = none := by simp [Keys.peek, hb, hmk]
      simp [dispatchKeys, hp1, hp2]
    | cons k ks =>
      have hk : k < 256 := hlt k (by simp [hb])
      have hp1 : e.asFed.keys.peek = some k := by
        simp [Eng.asFed, Keys.peek, hb, Nat.mod_eq_of_lt hk]
      have hp2 : e.keys.peek = some k := by simp [Keys.peek, hb]
      have hpop1 : e.asFed.keys.pop = { e.keys with buf := [], mkeys := ks } := by
        simp [Eng.asFed, Keys.pop, hb]
      have hpop2 : e.keys.pop = { e.keys with buf := ks } := by simp [Keys.pop, hb]
      simp only [dispatchKeys, hp1, hp2, hpop1, hpop2]
      split
      · simp [Eng.asFed, hmk]
      · split
        · let e' : Eng := { e with keys := { e.keys with buf := ks },
                                   prefixed := if (matchBind (read ++ [k]) tbl).1.action ≠ "" then (matchBind (read ++ [k]) tbl).1 else e.prefixed }
          have h1 : e'.keys.mkeys = [] := hmk
          have h2 : ∀ x ∈ e'.keys.buf, x < 256 := by
            intro x hx
            exact hlt x (by rw [hb]; exact List.mem_cons_of_mem _ hx)
          have := ih e' (read ++ [k]) (matched ++ [k]) true h1 h2
          exact this
        · simp [Eng.asFed, hmk]

end RLV
