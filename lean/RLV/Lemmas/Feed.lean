import RLV.Model.Keys
/-! Keys fed by a macro are dispatched exactly like typed keys (C18, C03 macro clause): with an empty
type-ahead buffer, `dispatchKeys` on fed keys `K` (all below 256 — `PopKey` keeps one byte of each)
does what it does on the same keys typed, the unread rest staying in the queue it came from. -/
namespace RLV

/-- move the typed keys of an engine to the macro queue; `f` is the `fromMacro` flag (raised as soon as
a key is taken from that queue) -/
def Eng.asFedF (f : Bool) (e : Eng) : Eng :=
  { e with keys := { e.keys with buf := [], mkeys := e.keys.buf, fromMacro := f } }

def Eng.asFed (e : Eng) : Eng := e.asFedF e.keys.fromMacro

theorem dispatchKeys_fed (tbl : List (Seq × Bind)) :
    ∀ (n : Nat) (e : Eng) (read matched : Seq) (pfx f : Bool),
      e.keys.mkeys = [] → (∀ k ∈ e.keys.buf, k < 256) →
      ∃ f', dispatchKeys tbl n (e.asFedF f) read matched pfx =
        (let r := dispatchKeys tbl n e read matched pfx
         (r.1.asFedF f', r.2.1, r.2.2.1, r.2.2.2)) := by
  intro n
  induction n with
  | zero => intro e read matched pfx f _ _; exact ⟨f, by simp [dispatchKeys]⟩
  | succ n ih =>
    intro e read matched pfx f hmk hlt
    cases hb : e.keys.buf with
    | nil =>
      have hp1 : (e.asFedF f).keys.peek = none := by simp [Eng.asFedF, Keys.peek, hb]
      have hp2 : e.keys.peek = none := by simp [Keys.peek, hb, hmk]
      exact ⟨f, by simp [dispatchKeys, hp1, hp2]⟩
    | cons k ks =>
      have hk : k < 256 := hlt k (by simp [hb])
      have hp1 : (e.asFedF f).keys.peek = some k := by
        simp [Eng.asFedF, Keys.peek, hb, Nat.mod_eq_of_lt hk]
      have hp2 : e.keys.peek = some k := by simp [Keys.peek, hb]
      have hpop1 : (e.asFedF f).keys.pop = { e.keys with buf := [], mkeys := ks, fromMacro := true } := by
        simp [Eng.asFedF, Keys.pop, hb]
      have hpop2 : e.keys.pop = { e.keys with buf := ks } := by simp [Keys.pop, hb]
      simp only [dispatchKeys, hp1, hp2, hpop1, hpop2]
      split
      · exact ⟨true, by simp [Eng.asFedF, hmk]⟩
      · split
        · let e' : Eng := { e with keys := { e.keys with buf := ks },
                                   prefixed := if (matchBind (read ++ [k]) tbl).1.action ≠ "" then (matchBind (read ++ [k]) tbl).1 else e.prefixed }
          have h1 : e'.keys.mkeys = [] := hmk
          have h2 : ∀ x ∈ e'.keys.buf, x < 256 := by
            intro x hx
            exact hlt x (by rw [hb]; exact List.mem_cons_of_mem _ hx)
          obtain ⟨f', hf'⟩ := ih e' (read ++ [k]) (matched ++ [k]) true true h1 h2
          exact ⟨f', hf'⟩
        · exact ⟨true, by simp [Eng.asFedF, hmk]⟩

end RLV
