import RLV.Model.Loop
import RLV.Lemmas.Dispatch
namespace RLV.Loop
open RLV RLV.Core

def selfIns : Bind := ⟨"self-insert", false⟩
def acceptB : Bind := ⟨"accept-line", false⟩

def printable (b : Nat) : Prop := 0x20 ≤ b ∧ b ≤ 0x7e

/-- what the theorem needs of the main keymap table and command registry -/
structure TableOK (e : Eng) : Prop where
  ne : e.mainTbl.isEmpty = false
  ascii : ∀ b, printable b → lastExact [b] e.mainTbl = selfIns ∧ hasProperExt [b] e.mainTbl = false
  cr : lastExact [13] e.mainTbl = acceptB ∧ hasProperExt [13] e.mainTbl = false
  reg1 : e.registered.contains "self-insert" = true
  reg2 : e.registered.contains "accept-line" = true

theorem runes_single (b : Nat) (h : b < 0x80) : runesOfBytes [b] = [b] := by
  simp [runesOfBytes, decodeAll, decodeRune, h]

/-- the multibyte fallback leaves a dispatch that found a binding alone -/
theorem matchCharacter_bound (e : Eng) (bd : Bind) (pfx : Bool) (read : Seq) (h : bd.action ≠ "") :
    matchCharacter e bd pfx read = (e, bd, pfx, read) := by
  simp [matchCharacter, h]

/-- dispatching one byte that is bound exactly and extends to nothing -/
theorem matchMain_byte (e : Eng) (b : Nat) (rest : List Nat) (bd : Bind)
    (hne : e.mainTbl.isEmpty = false) (hni : e.nonInc = false) (hli : e.lisearch = false) (hb : b < 0x80) (hesc : b ≠ 0x1b)
    (hbuf : e.keys.buf = b :: rest) (hmk : e.keys.mkeys = [])
    (h1 : lastExact [b] e.mainTbl = bd) (h2 : hasProperExt [b] e.mainTbl = false)
    (hact : bd.action ≠ "") :
    matchMain e =
      ({ e with active := bd, prefixed := Bind.none,
                keys := { e.keys with buf := rest, matched := [b], mustWait := false } },
        bd, hasCmd e bd, false) := by
  have hmb : e.mainBinds = e.mainTbl := by simp [Eng.mainBinds, hni, hli]
  unfold matchMain
  simp only [hmb, hne, Bool.false_eq_true, if_false, hbuf, hmk, List.length_cons, List.length_nil, Nat.add_zero]
  have hpeek : e.keys.peek = some b := by simp [Keys.peek, hbuf]
  have hpop : e.keys.pop = { e.keys with buf := rest } := by
    simp [Keys.pop, hbuf]
  simp only [dispatchKeys, hpeek, List.nil_append, matchBind_eq, h1, h2, hact, false_and, if_false,
    Bool.false_eq_true, hpop, matchCharacter_bound _ _ _ _ hact]
  simp [Keys.matchedKeys, runes_single b hb, isEscapeKey, hesc, hasCmd, hmk, nonIncOverrideR, nonIncOverride, hni]


/-- state between keystrokes while typing at the end of the line -/
structure Good (sh : Sh) (typed : List Nat) : Prop where
  tbl : TableOK sh.eng
  line : sh.line = typed
  cur : sh.cur = typed.length
  hmk : sh.eng.keys.mkeys = []
  hmw : sh.eng.keys.mustWait = false
  hni : sh.eng.nonInc = false
  hli : sh.eng.lisearch = false
  hacc : sh.accepted = none

theorem tableOK_congr {e e' : Eng} (h : TableOK e) (h1 : e'.mainTbl = e.mainTbl)
    (h2 : e'.registered = e.registered) : TableOK e' := by
  constructor
  · rw [h1]; exact h.ne
  · intro b hb; rw [h1]; exact h.ascii b hb
  · rw [h1]; exact h.cr
  · rw [h2]; exact h.reg1
  · rw [h2]; exact h.reg2

theorem insert_end (l : List Nat) (b : Nat) :
    Core.insert l (len l) [b] = .ok (l ++ [b]) := by
  have hs : stripZeros [b] = [b] := by simp [stripZeros, stripZerosAux]
  unfold Core.insert
  simp only [hs, bind, Except.bind, pure, Except.pure]
  have h0 : ¬ (len l < 0 ∨ len l > len l) := by unfold len; omega
  simp only [h0, if_false]
  by_cases hl : len l = 0
  · have : l = [] := by unfold len at hl; exact List.length_eq_zero_iff.mp (by omega)
    subst this; simp [len]
  · simp [hl]

/-- typing one printable byte at the end of the line appends it -/
theorem iter_printable (sh : Sh) (typed : List Nat) (b : Nat) (rest : List Nat)
    (g : Good sh typed) (hb : printable b) (hbuf : sh.eng.keys.buf = b :: rest) :
    ∃ sh', iter sh = .ok sh' ∧ Good sh' (typed ++ [b]) ∧ sh'.eng.keys.buf = rest ∧
      sh'.outputMeta = sh.outputMeta ∧
      ∃ a K, sh'.eng = { sh.eng with active := a, prefixed := Bind.none, keys := K } := by
  obtain ⟨hb1, hb2⟩ := hb
  have ht := g.tbl
  obtain ⟨ha1, ha2⟩ := ht.ascii b ⟨hb1, hb2⟩
  let e0 : Eng := { sh.eng with keys := sh.eng.keys.flushUsed }
  have hm := matchMain_byte e0 b rest selfIns (by simpa [e0] using ht.ne) (by simpa [e0] using g.hni) (by simpa [e0] using g.hli) (by omega) (by omega)
    (by simpa [e0, Keys.flushUsed] using hbuf) (by simpa [e0, Keys.flushUsed] using g.hmk)
    (by simpa [e0] using ha1) (by simpa [e0] using ha2) (by simp [selfIns])
  have hcmd : hasCmd e0 selfIns = true := by
    have := ht.reg1
    simp only [List.contains_eq_mem, decide_eq_true_eq] at this
    simp [hasCmd, selfIns, e0, this]
  unfold iter
  simp only [show ({ sh.eng with keys := sh.eng.keys.flushUsed } : Eng) = e0 from rfl, hm, hcmd,
    Bool.false_eq_true, if_false, if_true]
  -- run self-insert
  have hq : (if sh.outputMeta = true ∧ b ≠ 0x1b then [b] else quote b) = [b] := by
    have : quote b = [b] := by
      unfold quote
      have h1 : ¬ b = 9 := by omega
      have h2 : ¬ (b > 0x7f ∧ b ≤ 0xff) := by omega
      have h3 : ¬ b < 0x20 := by omega
      simp [h1, h2, h3]
    split <;> simp [this]
  have hca : (checkAppend sh.line ⟨sh.cur, -1⟩).pos = len sh.line := by
    rw [g.cur, g.line]; unfold checkAppend len
    have : ¬ ((typed.length : Int) < 0) := by omega
    simp [this]
  simp only [runCmd, selfIns, if_true, selfInsert, hq, hca, insert_end, bind, Except.bind, pure,
    Except.pure]
  refine ⟨_, rfl, ?_, rfl, rfl, _, _, rfl⟩
  constructor
  · exact tableOK_congr ht rfl rfl
  · simp [g.line]
  · simp only [g.line]
    unfold checkAppend len
    simp
    omega
  · simpa [e0, Keys.flushUsed] using g.hmk
  · rfl
  · exact g.hni
  · exact g.hli
  · exact g.hacc


/-- Return accepts the line as it is -/
theorem iter_cr (sh : Sh) (typed : List Nat) (rest : List Nat)
    (g : Good sh typed) (hbuf : sh.eng.keys.buf = 13 :: rest) :
    ∃ sh', iter sh = .ok sh' ∧ sh'.accepted = some typed ∧ sh'.outputMeta = sh.outputMeta := by
  have ht := g.tbl
  obtain ⟨ha1, ha2⟩ := ht.cr
  let e0 : Eng := { sh.eng with keys := sh.eng.keys.flushUsed }
  have hm := matchMain_byte e0 13 rest acceptB (by simpa [e0] using ht.ne) (by simpa [e0] using g.hni) (by simpa [e0] using g.hli) (by omega) (by omega)
    (by simpa [e0, Keys.flushUsed] using hbuf) (by simpa [e0, Keys.flushUsed] using g.hmk)
    (by simpa [e0] using ha1) (by simpa [e0] using ha2) (by simp [acceptB])
  have hcmd : hasCmd e0 acceptB = true := by
    have := ht.reg2
    simp only [List.contains_eq_mem, decide_eq_true_eq] at this
    simp [hasCmd, acceptB, e0, this]
  unfold iter
  simp only [show ({ sh.eng with keys := sh.eng.keys.flushUsed } : Eng) = e0 from rfl, hm, hcmd,
    Bool.false_eq_true, if_false, if_true]
  refine ⟨_, by simp [runCmd, acceptB]; rfl, ?_, ?_⟩
  · simp [g.line]
  · rfl

theorem needRead_iff (sh : Sh) (typed : List Nat) (g : Good sh typed) :
    needRead sh.eng.keys = sh.eng.keys.buf.isEmpty := by
  unfold needRead
  simp [g.hmk, g.hmw]

theorem run_accepted (fuel : Nat) (chunks : List (List Nat)) (sh : Sh) (l : List Nat)
    (h : sh.accepted = some l) : run (fuel + 1) chunks sh = .ok (some l) := by
  unfold run; simp [h]; rfl

theorem run_read (fuel : Nat) (c : List Nat) (cs : List (List Nat)) (sh : Sh)
    (h : sh.accepted = none) (hn : needRead sh.eng.keys = true) (hc : c.isEmpty = false) :
    run (fuel + 1) (c :: cs) sh = (do let sh' ← iter (feed sh c); run fuel cs sh') := by
  conv => lhs; unfold run
  simp [h, hn, hc]

theorem run_skip (fuel : Nat) (cs : List (List Nat)) (sh : Sh)
    (h : sh.accepted = none) (hn : needRead sh.eng.keys = true) :
    run (fuel + 1) ([] :: cs) sh = run fuel cs sh := by
  conv => lhs; unfold run
  simp [h, hn]

theorem run_noread (fuel : Nat) (chunks : List (List Nat)) (sh : Sh)
    (h : sh.accepted = none) (hn : needRead sh.eng.keys = false) :
    run (fuel + 1) chunks sh = (do let sh' ← iter sh; run fuel chunks sh') := by
  conv => lhs; unfold run
  simp [h, hn]

/-- C02, ASCII, any chunking: typing printable characters then Return returns exactly what was typed. -/
theorem typed_ascii_returned : ∀ (fuel : Nat) (chunks : List (List Nat)) (sh : Sh) (typed rest : List Nat),
    Good sh typed → (∀ b ∈ rest, printable b) →
    sh.eng.keys.buf ++ chunks.flatten = rest ++ [13] →
    fuel > (sh.eng.keys.buf.length + chunks.flatten.length) + chunks.length →
    run fuel chunks sh = .ok (some (typed ++ rest)) := by
  intro fuel
  induction fuel with
  | zero => intro _ _ _ _ _ _ _ h; omega
  | succ fuel ih =>
    intro chunks sh typed rest g hp hbytes hfuel
    have hnr := needRead_iff sh typed g
    cases hb : sh.eng.keys.buf with
    | nil =>
      have hn : needRead sh.eng.keys = true := by rw [hnr, hb]; rfl
      cases chunks with
      | nil => simp [hb] at hbytes
      | cons c cs =>
        by_cases hc : c = []
        · subst hc
          rw [run_skip fuel cs sh g.hacc hn]
          exact ih cs sh typed rest g hp (by simpa using hbytes) (by simp at hfuel ⊢; omega)
        · have hce : c.isEmpty = false := by cases c <;> simp_all
          rw [run_read fuel c cs sh g.hacc hn hce]
          have g1 : Good (feed sh c) typed := ⟨tableOK_congr g.tbl rfl rfl, g.line, g.cur, g.hmk, g.hmw, g.hni, g.hli, g.hacc⟩
          have hb1 : (feed sh c).eng.keys.buf = c := by simp [feed, hb]
          obtain ⟨k, t, hkt⟩ : ∃ k t, c = k :: t := by
            cases c with
            | nil => exact absurd rfl hc
            | cons k t => exact ⟨k, t, rfl⟩
          have hall : k :: (t ++ cs.flatten) = rest ++ [13] := by simpa [hb, hkt] using hbytes
          cases rest with
          | nil =>
            have hk : k = 13 := by simp at hall; exact hall.1
            subst hk
            obtain ⟨sh', h1, h2, _⟩ := iter_cr (feed sh c) typed t g1 (by rw [hb1, hkt])
            rw [h1]
            simp only [bind, Except.bind]
            cases fuel with
            | zero => simp [hb, hkt] at hfuel
            | succ f => rw [run_accepted f cs sh' typed h2]; simp
          | cons r rs =>
            have hk : k = r ∧ t ++ cs.flatten = rs ++ [13] := by simpa using hall
            obtain ⟨rfl, hrest⟩ := hk
            obtain ⟨sh', h1, g2, hb2, _⟩ := iter_printable (feed sh c) typed k t g1 (hp k (by simp)) (by rw [hb1, hkt])
            rw [h1]
            simp only [bind, Except.bind]
            have := ih cs sh' (typed ++ [k]) rs g2 (fun b hb => hp b (by simp [hb]))
              (by rw [hb2]; exact hrest)
              (by rw [hb2]; simp [hb, hkt] at hfuel ⊢; omega)
            simpa [List.append_assoc] using this
    | cons k t =>
      have hn : needRead sh.eng.keys = false := by rw [hnr, hb]; rfl
      rw [run_noread fuel chunks sh g.hacc hn]
      have hall : k :: (t ++ chunks.flatten) = rest ++ [13] := by simpa [hb] using hbytes
      cases rest with
      | nil =>
        have hk : k = 13 := by simp at hall; exact hall.1
        subst hk
        obtain ⟨sh', h1, h2, _⟩ := iter_cr sh typed t g hb
        rw [h1]
        simp only [bind, Except.bind]
        cases fuel with
        | zero => simp [hb] at hfuel
        | succ f => rw [run_accepted f chunks sh' typed h2]; simp
      | cons r rs =>
        have hk : k = r ∧ t ++ chunks.flatten = rs ++ [13] := by simpa using hall
        obtain ⟨rfl, hrest⟩ := hk
        obtain ⟨sh', h1, g2, hb2, _⟩ := iter_printable sh typed k t g (hp k (by simp)) hb
        rw [h1]
        simp only [bind, Except.bind]
        have := ih chunks sh' (typed ++ [k]) rs g2 (fun b hb => hp b (by simp [hb]))
          (by rw [hb2]; exact hrest)
          (by rw [hb2]; simp [hb] at hfuel ⊢; omega)
        simpa [List.append_assoc] using this

end RLV.Loop
