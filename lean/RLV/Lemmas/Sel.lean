import RLV.Model.Sel
import RLV.Lemmas.Cursor
/-! `Selection.Pos` (internal/core/selection.go), for ANY values of the selection's internal fields
and of the cursor: it returns (no panic) either "no selection" `(-1, -1)` or a range inside the
buffer, `0 ≤ bpos ≤ epos ≤ len` (C06, C01). -/
namespace RLV.Sel
open RLV.Core

theorem checkRange_spec (l : Line) (b e : Int) :
    let r := checkRange l b e
    (r.2.2 = false → r.1 = -1 ∧ r.2.1 = -1) ∧
    (r.2.2 = true → len l ≠ 0 ∧ 0 ≤ r.1 ∧ r.1 ≤ len l ∧ (r.2.1 = -1 ∨ (r.1 ≤ r.2.1 ∧ r.2.1 ≤ len l)) ∧
      (0 ≤ b → 0 ≤ e → r.2.1 ≠ -1)) := by
  have hl : 0 ≤ len l := by unfold len; omega
  unfold checkRange
  simp only
  repeat' split
  all_goals simp_all
  all_goals omega

/-- `checkRange` leaves a range it has produced as it is -/
theorem checkRange_idem (l : Line) (b e x y : Int) (h : checkRange l b e = (x, y, true)) :
    checkRange l x y = (x, y, true) := by
  have hs := checkRange_spec l b e
  simp only [h] at hs
  obtain ⟨hne, h0, h1, h2, _⟩ := hs.2 trivial
  unfold checkRange
  have c1 : ¬ (x < 0 ∧ y < 0) := by omega
  have c2 : ¬ (x > len l ∧ y > len l) := by omega
  have c3 : ¬ x > len l := by omega
  have c4 : ¬ x < 0 := by omega
  simp only [hne, c1, c2, c3, c4, if_false]
  rcases h2 with h2 | h2
  · subst h2
    have c5 : ¬ (-1 : Int) > len l := by omega
    simp [c5]
  · have c5 : ¬ y > len l := by omega
    have c6 : ¬ y < 0 := by omega
    have c7 : ¬ x > y := by omega
    simp [c5, c6, c7]

theorem scanBack_spec (l : Line) : ∀ (f : Nat) (b : Int), -1 ≤ b → b < len l →
    ∃ r, scanBack l f b = .ok r ∧ -1 ≤ r ∧ r ≤ b + 1 := by
  intro f
  induction f with
  | zero => intro b h _; exact ⟨b, rfl, by omega, by omega⟩
  | succ f ih =>
    intro b hm hb
    by_cases h0 : b ≥ 0
    · simp only [scanBack, h0, if_true, at_ok l b h0 hb, bind, Except.bind, pure, Except.pure]
      split
      · exact ⟨b + 1, rfl, by omega, by omega⟩
      · obtain ⟨r, h1, h2, h3⟩ := ih (b - 1) (by omega) (by omega)
        exact ⟨r, h1, h2, by omega⟩
    · simp only [scanBack, h0, if_false, pure, Except.pure]
      exact ⟨b, rfl, by omega, by omega⟩

theorem scanFwd_spec (l : Line) : ∀ (f : Nat) (e : Int), 0 ≤ e →
    ∃ r, scanFwd l f e = .ok r ∧ e ≤ r ∧ (r ≤ len l ∨ r = e) := by
  intro f
  induction f with
  | zero => intro e _; exact ⟨e, rfl, by omega, Or.inr rfl⟩
  | succ f ih =>
    intro e he
    by_cases h1 : e < len l
    · have hne : ¬ e = -1 := by omega
      simp only [scanFwd, h1, if_true, hne, if_false, at_ok l e he h1, bind, Except.bind, pure, Except.pure]
      split
      · exact ⟨e, rfl, by omega, Or.inl (by omega)⟩
      · obtain ⟨r, h2, h3, h4⟩ := ih (e + 1) (by omega)
        exact ⟨r, h2, by omega, by omega⟩
    · simp only [scanFwd, h1, if_false, pure, Except.pure]
      exact ⟨e, rfl, by omega, Or.inr rfl⟩

/-- the body of `selectToCursor` once the two ends are ordered -/
theorem selectOrdered_spec (l : Line) (s : S) (b e : Int) (hb0 : 0 ≤ b) (hb1 : b ≤ len l) (he0 : 0 ≤ e) :
    ∃ r, (do
        let (b, e) ← (do
          if s.visualLine then
            let b1 ← scanBack l (l.length + 2) (b - 1)
            let b1 := if b1 = -1 then 0 else b1
            let e1 ← scanFwd l (l.length + 2) e
            pure (b1, e1)
          else pure (b, e) : G (Int × Int))
        if b > e then pure (e, b) else pure (b, e) : G (Int × Int)) = .ok r ∧ 0 ≤ r.1 ∧ 0 ≤ r.2 := by
  simp only [bind, Except.bind, pure, Except.pure]
  by_cases hvl : s.visualLine = true
  · obtain ⟨r1, h1, h1a, _⟩ := scanBack_spec l (l.length + 2) (b - 1) (by omega) (by omega)
    obtain ⟨r2, h2, h2a, _⟩ := scanFwd_spec l (l.length + 2) e he0
    simp only [hvl, if_true, h1, h2]
    by_cases hm : r1 = -1
    · simp only [hm, if_true]
      split <;> exact ⟨_, rfl, by first | omega | (simp; omega) | simp, by first | omega | (simp; omega) | simp⟩
    · simp only [hm, if_false]
      split <;> exact ⟨_, rfl, by first | omega | (simp; omega) | simp, by first | omega | (simp; omega) | simp⟩
  · simp only [hvl, Bool.false_eq_true, if_false]
    split <;> exact ⟨_, rfl, by first | omega | (simp; omega) | simp, by first | omega | (simp; omega) | simp⟩

theorem selectToCursor_spec (l : Line) (s : S) (cpos b : Int) (hc0 : 0 ≤ cpos) (hc1 : cpos ≤ len l)
    (hb0 : 0 ≤ b) (hb1 : b ≤ len l) :
    ∃ r, selectToCursor l s cpos b = .ok r ∧ 0 ≤ r.1 ∧ 0 ≤ r.2 := by
  unfold selectToCursor
  by_cases hlt : cpos < b
  · simp only [hlt, if_true]
    exact selectOrdered_spec l s cpos b hc0 hc1 hb0
  · simp only [hlt, if_false]
    exact selectOrdered_spec l s b cpos hb0 hb1 hc0

theorem posFrom_spec (l : Line) (s : S) (cur : Cur) (b1 e1 : Int) (hb0 : 0 ≤ b1) (hb1 : b1 ≤ len l)
    (he : e1 = -1 ∨ (b1 ≤ e1 ∧ e1 ≤ len l)) :
    ∃ r, posFrom l s cur b1 e1 = .ok r ∧
      ((r.1 = -1 ∧ r.2 = -1) ∨ (0 ≤ r.1 ∧ r.1 ≤ r.2 ∧ r.2 ≤ len l)) := by
  obtain ⟨hc0, hc1, _⟩ := checkAppend_range l cur
  -- the range handed to the final check has non-negative ends
  have key : ∀ (b e : Int), 0 ≤ b → 0 ≤ e →
      ∃ r, (if (!(checkRange l b e).2.2) = true then (Except.ok ((-1 : Int), (-1 : Int)) : G _)
            else Except.ok ((checkRange l b e).1, (checkRange l b e).2.1)) = .ok r ∧
        ((r.1 = -1 ∧ r.2 = -1) ∨ (0 ≤ r.1 ∧ r.1 ≤ r.2 ∧ r.2 ≤ len l)) := by
    intro b e hb he
    have h2 := checkRange_spec l b e
    simp only at h2
    generalize checkRange l b e = x at h2
    obtain ⟨xb, xe, xok⟩ := x
    cases xok with
    | false => exact ⟨_, rfl, Or.inl ⟨rfl, rfl⟩⟩
    | true =>
      have h3 := h2.2 rfl
      simp only at h3
      obtain ⟨_, g0, g1, g2, g3⟩ := h3
      have hne := g3 hb he
      refine ⟨_, rfl, Or.inr ?_⟩
      rcases g2 with g2 | g2
      · exact absurd g2 hne
      · exact ⟨g0, g2.1, g2.2⟩
  unfold posFrom
  simp only [bind, Except.bind, pure, Except.pure]
  by_cases hpend : e1 = -1
  · obtain ⟨r, hr, hr0, hr1⟩ := selectToCursor_spec l s (checkAppend l cur).pos b1 hc0 hc1 hb0 hb1
    simp only [hpend, if_true, hr]
    exact key r.1 (if s.visual = true then r.2 + 1 else r.2) hr0 (by split <;> omega)
  · simp only [hpend, if_false]
    have he0 : 0 ≤ e1 := by
      rcases he with h | h
      · exact absurd h hpend
      · omega
    exact key b1 (if s.visual = true then e1 + 1 else e1) hb0 (by split <;> omega)

/-- C06: `Selection.Pos()` as a function of ANY internal field values returns a range inside the
buffer, or `(-1, -1)`. -/
theorem pos_spec (l : Line) (s : S) (cur : Cur) :
    ∃ r, pos l s cur = .ok r ∧
      ((r.1 = -1 ∧ r.2.1 = -1) ∨ (0 ≤ r.1 ∧ r.1 ≤ r.2.1 ∧ r.2.1 ≤ len l)) := by
  unfold pos
  split
  · exact ⟨_, rfl, Or.inl ⟨rfl, rfl⟩⟩
  · have hcr := checkRange_spec l s.bpos s.epos
    simp only at hcr ⊢
    cases hok : (checkRange l s.bpos s.epos).2.2 with
    | false =>
      simp only [hok, Bool.not_false, if_true]
      exact ⟨_, rfl, Or.inl (hcr.1 hok)⟩
    | true =>
      obtain ⟨_, hb0, hb1, he, _⟩ := hcr.2 hok
      simp only [hok, Bool.not_true, Bool.false_eq_true, if_false]
      obtain ⟨r, hr, hrr⟩ := posFrom_spec l { s with bpos := (checkRange l s.bpos s.epos).1, epos := (checkRange l s.bpos s.epos).2.1 }
        cur _ _ hb0 hb1 he
      rw [hr]
      exact ⟨_, rfl, hrr⟩

end RLV.Sel
