import RLV.Lemmas.RefreshMulti
import RLV.Lemmas.CursorMulti
/-! Assembly of the redisplay of a buffer of several lines on the terminal model. -/
namespace RLV.Disp
open RLV.Term

theorem rowsFrom_succ (w p : Nat) : ∀ (ls : List (List Nat)) (i : Nat), rowsFrom w p (i + 1) ls = rowsOfLines w p ls
  | [], _ => rfl
  | ln :: t, i => by
    simp only [rowsFrom, rowsOfLines, lineSpan, blockRows]
    rw [rowsFrom_succ w p t (i + 1)]
    simp

theorem rowsFrom_cons0 (w p : Nat) (a : List Nat) (t : List (List Nat)) :
    rowsFrom w p 0 (a :: t) = (a.length + p) / w + rowsOfLines w p t := by
  simp only [rowsFrom, lineSpan]
  rw [rowsFrom_succ w p t 0]
  simp

theorem rowsOfLines_append (w p : Nat) : ∀ (a b : List (List Nat)),
    rowsOfLines w p (a ++ b) = rowsOfLines w p a + rowsOfLines w p b
  | [], b => by simp [rowsOfLines]
  | x :: a, b => by simp only [List.cons_append, rowsOfLines]; rw [rowsOfLines_append w p a b]; omega

theorem rowsOfLines_dropLast (w p : Nat) (rest : List (List Nat)) (last : List Nat)
    (h : rest.getLast? = some last) :
    rowsOfLines w p rest = rowsOfLines w p rest.dropLast + blockRows w p last := by
  have hne : rest ≠ [] := by intro e; rw [e] at h; simp at h
  have hl : rest.getLast hne = last := by
    rw [List.getLast?_eq_some_getLast hne] at h; exact Option.some.inj h
  have := List.dropLast_concat_getLast hne
  rw [hl] at this
  conv => lhs; rw [← this]
  rw [rowsOfLines_append]
  simp [rowsOfLines]

theorem expectMore_beyond (w p : Nat) : ∀ (ls : List (List Nat)) (d : Nat), rowsOfLines w p ls * w ≤ d →
    expectMore w p ls d = blank
  | [], _, _ => rfl
  | ln :: t, d, h => by
    simp only [rowsOfLines, Nat.add_mul] at h
    simp only [expectMore]
    have : ¬ d < blockRows w p ln * w := by omega
    rw [if_neg this]
    exact expectMore_beyond w p t _ (by omega)

theorem rowsFrom_span (w p : Nat) : ∀ (ls : List (List Nat)) (i : Nat),
    rowsFrom w p i ls = spanRows w p i (ls.map List.length)
  | [], _ => rfl
  | ln :: t, i => by
    simp only [rowsFrom, List.map_cons, spanRows, lineSpan]
    rw [rowsFrom_span w p t (i + 1)]

theorem spanRows_take_le (w p : Nat) (hw : 0 < w) : ∀ (lens : List Nat) (i k o : Nat), k < lens.length → o ≤ lens.getD k 0 →
    spanRows w p i (lens.take k) + ((o + p) / w + (if i + k ≠ 0 then 1 else 0)) ≤ spanRows w p i lens
  | [], _, _, _, h, _ => by simp at h
  | n :: t, i, 0, o, _, ho => by
    simp only [List.getD_cons_zero] at ho
    simp only [List.take_zero, spanRows, Nat.add_zero, Nat.zero_add]
    have : (o + p) / w ≤ (n + p) / w := Nat.div_le_div_right (by omega)
    omega
  | n :: t, i, k + 1, o, h, ho => by
    simp only [List.getD_cons_succ] at ho
    simp only [List.take_succ_cons, spanRows]
    have := spanRows_take_le w p hw t (i + 1) k o (by simpa using h) ho
    have e : i + 1 + k = i + (k + 1) := by omega
    rw [e] at this
    omega


/-- the glyph the frame of a buffer of several lines shows at linear offset `d` from the start of the
prompt's row: the prompt and the first line, then every other line on rows of its own from the indentation
on, the secondary prompt in the indentation of the last line when it fits, blanks everywhere else -/
def frameCell (w : Nat) (prompt sec first : List Nat) (rest : List (List Nat)) (d : Nat) : Nat :=
  if sec.length ≤ prompt.length ∧
      blockRows w prompt.length first * w + rowsOfLines w prompt.length rest.dropLast * w ≤ d ∧
      d < blockRows w prompt.length first * w + rowsOfLines w prompt.length rest.dropLast * w + sec.length
  then sec.getD (d - (blockRows w prompt.length first * w + rowsOfLines w prompt.length rest.dropLast * w)) blank
  else if d < blockRows w prompt.length first * w then (prompt ++ first).getD d blank
  else expectMore w prompt.length rest (d - blockRows w prompt.length first * w)

end RLV.Disp

namespace RLV.Term
open RLV.Disp

theorem refresh_multi (w : Nat) (prompt sec first last : List Nat) (rest : List (List Nat))
    (k o prevRow r0 : Nat) (t : Term)
    (hw : t.w = w) (hwf : t.WF) (hy : t.y = r0 + prevRow)
    (hrest : rest ≠ []) (hfree : ∀ ln ∈ first :: rest, 10 ∉ ln) (hlast : rest.getLast? = some last)
    (hk : k < (first :: rest).length) (ho : o ≤ ((first :: rest).getD k []).length) (hpr : prompt.length < w) :
    let t' := t.run (refresh w prompt sec prevRow false (joinNL (first :: rest))
      (((((first :: rest).take k).map List.length).map (· + 1)).sum + o))
    (∀ r c, c < w → t'.cell r c =
        if r * w + c < r0 * w then t.cell r c else frameCell w prompt sec first rest (r * w + c - r0 * w)) ∧
    t'.x = (o + prompt.length) % w ∧
    t'.y = r0 + (spanRows w prompt.length 0 (((first :: rest).take k).map List.length) +
              ((o + prompt.length) / w + (if k ≠ 0 then 1 else 0))) ∧
    t'.pw = false := by
  intro t'
  have hw0 : 0 < w := by omega
  have hne : (first :: rest) ≠ [] := by simp
  have hlast' : (first :: rest).getLast? = some last := by
    obtain ⟨y, ys, rfl⟩ := List.exists_cons_of_ne_nil hrest
    rw [List.getLast?_cons_cons]; exact hlast
  have hcc := coordsCursor_join w prompt.length (first :: rest) k o hne hfree hk ho
  have heq := refresh_multi_eq w prompt sec first last rest
    (((((first :: rest).take k).map List.length).map (· + 1)).sum + o) prevRow hrest hfree hlast'
  rw [hcc] at heq
  simp only at heq
  -- layout facts
  have hLR : rowsFrom w prompt.length 0 (first :: rest) = (first.length + prompt.length) / w + rowsOfLines w prompt.length rest :=
    rowsFrom_cons0 w prompt.length first rest
  have hsplit := rowsOfLines_dropLast w prompt.length rest last hlast
  have hCR : spanRows w prompt.length 0 (((first :: rest).take k).map List.length) +
      ((o + prompt.length) / w + (if k ≠ 0 then 1 else 0)) ≤ rowsFrom w prompt.length 0 (first :: rest) := by
    rw [rowsFrom_span]
    have := spanRows_take_le w prompt.length hw0 ((first :: rest).map List.length) 0 k o (by simpa using hk)
      (by rw [getD_map_length]; exact ho)
    simpa [List.map_take] using this
  generalize hCRv : spanRows w prompt.length 0 (((first :: rest).take k).map List.length) +
      ((o + prompt.length) / w + (if k ≠ 0 then 1 else 0)) = CR at heq hCR ⊢
  generalize hLRv : rowsFrom w prompt.length 0 (first :: rest) = LR at heq hCR hLR
  -- the parts of the token list
  generalize hA : ([.hide] ++ mv .cub (w : Int) ++ mv .cuu (prevRow : Int) : List Tk) = A at heq
  generalize hB : ((if prompt.isEmpty then [] else [.text prompt]) ++ [.dsr] ++ bodyToks w prompt.length first : List Tk) = B at heq
  generalize hC : moreToks w prompt.length rest = C at heq
  generalize hD : ((if rest.length > 1 then mv .cuu (LR : Nat) ++ mv .cub w ++ mv .cud (LR : Nat) else []) ++
        (mv .cuu (((last.length + prompt.length) / w : Nat)) ++ mv .cub w ++
          (if sec.length ≤ prompt.length then [.text sec] else []) ++
          mv .cud (((last.length + prompt.length) / w : Nat)) ++ mv .cub w ++
          mv .cuf (((last.length + prompt.length) % w : Nat))) : List Tk) = D at heq
  generalize hF : (mv .cub (w : Int) ++ mv .cuu 1 ++ mv .cuu ((LR : Nat) - (CR : Int)) ++
        mv .cub (((o + prompt.length) % w : Nat)) ++ mv .cuu (CR : Nat) ++ mv .cuf (prompt.length : Nat) ++
        mv .cud (CR : Nat) ++ mv .cub w ++ mv .cuf (((o + prompt.length) % w : Nat)) ++ [.show_] : List Tk) = F at heq
  have ht' : t' = (((((t.run A).run B).run C).run D).run [.crlf, .el0, .ed0]).run F := by
    show t.run (refresh w prompt sec prevRow false _ _) = _
    rw [heq, run_append, run_append, run_append, run_append, run_append]
  -- part 1: to the row of the prompt
  obtain ⟨h1x, h1y, h1pw, h1w, h1c⟩ := refresh_head w prevRow r0 t hw hwf hy
  rw [hA] at h1x h1y h1pw h1w h1c
  generalize t.run A = t1 at *
  -- part 2: the prompt and the first line
  obtain ⟨h2w, h2x, h2y, h2pw, h2c⟩ := first_paint w r0 prompt first t1 h1w h1x h1y h1pw hpr
  rw [hB] at h2w h2x h2y h2pw h2c
  generalize t1.run B = t2 at *
  -- part 3: the other lines
  obtain ⟨h3w, h3pw, h3y, h3x, h3c⟩ := more_paint w prompt.length hpr rest t2 h2w h2pw
  rw [hC] at h3w h3pw h3y h3x h3c
  rw [hlast] at h3x
  simp only at h3x
  rw [h2y] at h3y h3c
  generalize t2.run C = t3 at *
  -- part 4: the secondary prompt
  have hY : r0 + (first.length + prompt.length) / w + rowsOfLines w prompt.length rest = r0 + LR := by omega
  rw [hY] at h3y
  have hlr : (last.length + prompt.length) / w ≤ r0 + LR := by
    have : blockRows w prompt.length last = (last.length + prompt.length) / w + 1 := rfl
    omega
  obtain ⟨h4w, h4x, h4y, h4pw, h4c⟩ := mid_paint w prompt.length LR ((last.length + prompt.length) / w)
    ((last.length + prompt.length) % w) (r0 + LR) sec (rest.length > 1) t3 h3w h3pw h3y (by omega) hlr hpr
    (Nat.mod_lt _ hw0) (by rw [h3x]; exact Nat.mod_lt _ hw0)
  rw [hD] at h4w h4x h4y h4pw h4c
  generalize t3.run D = t4 at *
  -- part 5: everything below is erased
  obtain ⟨h5x, h5y, h5pw, h5w, h5c⟩ := erase_below t4 (by rw [h4w]; exact hw0)
  have e5 : t4.run [.crlf, .el0, .ed0] = ((t4.crlf).el0).ed0 := rfl
  rw [← e5] at h5x h5y h5pw h5w h5c
  rw [h4w] at h5w h5c
  rw [h4y] at h5y h5c
  generalize t4.run [.crlf, .el0, .ed0] = t5 at *
  -- part 6: back to the cursor cell
  obtain ⟨h6x, h6y, h6pw, h6c, _⟩ := tail_run w r0 prompt.length LR ((o + prompt.length) % w) CR t5 h5w h5x h5y h5pw hpr hCR
    (Nat.mod_lt _ hw0)
  rw [hF] at h6x h6y h6pw h6c
  rw [ht']
  refine ⟨?_, h6x, h6y, h6pw⟩
  intro r c hc
  rw [h6c, h5c r c hc, h4c r c hc, h3c r c hc, h2c r c hc, h1c]
  -- the arithmetic of the rows, in linear cell indices
  have hBR : blockRows w prompt.length first = (first.length + prompt.length) / w + 1 := rfl
  have hBL : blockRows w prompt.length last = (last.length + prompt.length) / w + 1 := rfl
  have eY1 : (r0 + LR + 1) * w = r0 * w + blockRows w prompt.length first * w + rowsOfLines w prompt.length rest * w := by
    have : r0 + LR + 1 = r0 + blockRows w prompt.length first + rowsOfLines w prompt.length rest := by omega
    rw [this, Nat.add_mul, Nat.add_mul]
  have eY2 : (r0 + LR - (last.length + prompt.length) / w) * w =
      r0 * w + blockRows w prompt.length first * w + rowsOfLines w prompt.length rest.dropLast * w := by
    have : r0 + LR - (last.length + prompt.length) / w =
        r0 + blockRows w prompt.length first + rowsOfLines w prompt.length rest.dropLast := by omega
    rw [this, Nat.add_mul, Nat.add_mul]
  have eY3 : (r0 + (first.length + prompt.length) / w + 1) * w = r0 * w + blockRows w prompt.length first * w := by
    have : r0 + (first.length + prompt.length) / w + 1 = r0 + blockRows w prompt.length first := by omega
    rw [this, Nat.add_mul]
  have eRO : rowsOfLines w prompt.length rest * w =
      rowsOfLines w prompt.length rest.dropLast * w + blockRows w prompt.length last * w := by
    rw [hsplit, Nat.add_mul]
  have hBLw : w ≤ blockRows w prompt.length last * w := by
    rw [hBL, Nat.add_mul]; omega
  unfold frameCell
  rw [eY1, eY2, eY3]
  have hbey := expectMore_beyond w prompt.length rest
  generalize hgB0 : blockRows w prompt.length first * w = B0 at *
  generalize hgRO : rowsOfLines w prompt.length rest * w = RO at *
  generalize hgRD : rowsOfLines w prompt.length rest.dropLast * w = RD at *
  generalize hgBL : blockRows w prompt.length last * w = BLw at *
  generalize hgR : r0 * w = R0 at *
  generalize hgl : r * w + c = lin at *
  by_cases hlt : lin < R0
  · have n1 : ¬ (R0 + B0 + RO ≤ lin) := by omega
    have n2 : ¬ (sec.length ≤ prompt.length ∧ R0 + B0 + RD ≤ lin ∧ lin < R0 + B0 + RD + sec.length) := by omega
    have n3 : ¬ (R0 + B0 ≤ lin ∧ lin < R0 + B0 + RO) := by omega
    have n4 : ¬ (R0 ≤ lin ∧ lin < R0 + B0) := by omega
    rw [if_neg n1, if_neg n2, if_neg n3, if_neg n4, if_pos hlt]
  · rw [if_neg hlt]
    by_cases h1 : R0 + B0 + RO ≤ lin
    · have n2 : ¬ (sec.length ≤ prompt.length ∧ B0 + RD ≤ lin - R0 ∧ lin - R0 < B0 + RD + sec.length) := by omega
      have n3 : ¬ (lin - R0 < B0) := by omega
      rw [if_pos h1, if_neg n2, if_neg n3, hbey _ (by omega)]
    · rw [if_neg h1]
      by_cases h2 : sec.length ≤ prompt.length ∧ R0 + B0 + RD ≤ lin ∧ lin < R0 + B0 + RD + sec.length
      · have p2 : sec.length ≤ prompt.length ∧ B0 + RD ≤ lin - R0 ∧ lin - R0 < B0 + RD + sec.length := by omega
        rw [if_pos h2, if_pos p2]
        have e : lin - (R0 + B0 + RD) = lin - R0 - (B0 + RD) := by omega
        rw [e]
      · have n2 : ¬ (sec.length ≤ prompt.length ∧ B0 + RD ≤ lin - R0 ∧ lin - R0 < B0 + RD + sec.length) := by omega
        rw [if_neg h2, if_neg n2]
        by_cases h3 : R0 + B0 ≤ lin ∧ lin < R0 + B0 + RO
        · have n3 : ¬ (lin - R0 < B0) := by omega
          rw [if_pos h3, if_neg n3]
          have e : lin - (R0 + B0) = lin - R0 - B0 := by omega
          rw [e]
        · have p3 : lin - R0 < B0 := by omega
          have p4 : R0 ≤ lin ∧ lin < R0 + B0 := by omega
          rw [if_neg h3, if_pos p4, if_pos p3]

end RLV.Term
