import RLV.Lemmas.Dispatch
namespace RLV

/-- C01 core (no spin in the dispatcher): a dispatch on a non-empty key list either
consumes at least one key, or reports a prefix having consumed *all* keys (so the loop's
next step blocks in a read). Holds for every table and every stale engine state. -/
theorem dispatch_progress (tbl : List (Seq × Bind)) :
    ∀ (ks read matched : Seq) (pfx : Bool) (p a : Bind), ks ≠ [] →
      let r := dispatch tbl ks read matched pfx p a
      (r.pfx = false → r.rest.length < ks.length) ∧ (r.pfx = true → r.rest = []) := by
  intro ks
  induction ks with
  | nil => intro _ _ _ _ _ h; exact absurd rfl h
  | cons k t ih =>
    intro read matched pfx p a _
    simp only [dispatch]
    split
    · simp
    · split
      · -- prefix: continue on the tail
        by_cases ht : t = []
        · subst ht; simp [dispatch]
        · have := ih (read ++ [k]) (matched ++ [k]) true
            (if (matchBind (read ++ [k]) tbl).1.action ≠ "" then (matchBind (read ++ [k]) tbl).1 else p) a ht
          simp only at this
          constructor
          · intro h; have := this.1 h; simp only [List.length_cons]; omega
          · exact this.2
      · simp

end RLV
