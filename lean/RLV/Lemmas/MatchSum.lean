import RLV.Lemmas.KeyOrder
/-! What `MatchMain` and `MatchLocal` do to the key stack, in the terms of Lemmas/KeyOrder.lean:
nothing consumed (`Returned`), everything read as a prefix and pushed back (`Pushed`), or at least one
key consumed (`Consumed`). For every bind table, every key stack and every stale engine state. -/
namespace RLV

theorem PopRel.trans {a b : Nat} {k k1 k2 : Keys} (h1 : PopRel a k k1) (h2 : PopRel b k1 k2) :
    PopRel (a + b) k k2 := by
  have p1 := h1.pending; have p2 := h2.pending
  have b1 := h1.buf; have b2 := h2.buf; have m1 := h1.mks; have m2 := h2.mks
  refine ⟨by omega, by omega, by omega, by rw [h2.nested, h1.nested], by rw [h2.wait, h1.wait],
    by rw [h2.matched, h1.matched], ?_⟩
  rw [h2.flag, h1.flag, b1]
  by_cases x1 : k.buf.length < a <;> by_cases x2 : k.buf.length - a < b <;>
    by_cases x3 : k.buf.length < a + b <;> simp [x1, x2, x3] <;> omega

theorem matchCharLoop_sum : ∀ (f : Nat) (e : Eng) (read : Seq),
    let r := matchCharLoop f e read
    ∃ i, PopRel i e.keys r.1.keys ∧ r.2.1.length = read.length + i ∧
      (r.2.2 = false → r.1.keys.pending = 0) ∧ r.1 = { e with keys := r.1.keys } := by
  intro f
  induction f with
  | zero => intro e read; exact ⟨0, PopRel.refl _, by simp [matchCharLoop], by simp [matchCharLoop], rfl⟩
  | succ f ih =>
    intro e read
    simp only [matchCharLoop]
    split
    · exact ⟨0, PopRel.refl _, by simp, by simp, rfl⟩
    · cases hp : e.keys.peek with
      | none =>
        simp only
        exact ⟨0, PopRel.refl _, by simp, fun _ => (peek_none_iff _).mp hp, by simp⟩
      | some k =>
        simp only
        have hpos : 0 < e.keys.pending := by
          rcases Nat.eq_zero_or_pos e.keys.pending with h | h
          · rw [(peek_none_iff _).mpr h] at hp; cases hp
          · exact h
        have hstep : PopRel 1 e.keys e.keys.pop := by simpa using (PopRel.refl e.keys).step hpos
        obtain ⟨i, hi, hl, hz, hfr⟩ := ih { e with keys := e.keys.pop } (read ++ [k])
        refine ⟨1 + i, hstep.trans hi, by rw [hl]; simp; omega, hz, ?_⟩
        rw [hfr]

/-- the multibyte fallback only takes more keys -/
theorem matchCharacter_sum (e : Eng) (b : Bind) (pfx : Bool) (read : Seq)
    (hp : pfx = true → e.keys.pending = 0) :
    let r := matchCharacter e b pfx read
    ∃ i, PopRel i e.keys r.1.keys ∧ r.2.2.2.length = read.length + i ∧
      (r.2.2.1 = true → r.1.keys.pending = 0) ∧
      r.1 = { e with keys := r.1.keys, active := r.1.active } := by
  unfold matchCharacter
  split
  · obtain ⟨i, hi, hl, hz, hfr⟩ := matchCharLoop_sum 4 e read
    dsimp only at hi hl hz hfr ⊢
    split
    · exact ⟨i, hi, hl, fun _ => hz (by assumption), by rw [hfr]⟩
    · split
      · exact ⟨i, hi, hl, by simp, by rw [hfr]⟩
      · exact ⟨i, hi, hl, by simp, by simp only; rw [hfr]⟩
  · exact ⟨0, PopRel.refl _, by simp, hp, rfl⟩

end RLV

namespace RLV

/-- the outcomes of `MatchMain`, as far as the key stack is concerned -/
def MainOut (e : Eng) (r : Eng × Bind × Bool × Bool) : Prop :=
  (e.keys.pending = 0 ∧ r.2.2.2 = false ∧ Returned e.keys r.1.keys)
  ∨ (0 < e.keys.pending ∧ Pushed e.keys r.1.keys)
  ∨ (0 < e.keys.pending ∧ r.2.2.2 = false ∧ Consumed e.keys r.1.keys)

theorem pending_zero {k : Keys} (h : k.pending = 0) : k.buf = [] ∧ k.mkeys = [] := by
  unfold Keys.pending at h
  constructor
  · cases hb : k.buf with
    | nil => rfl
    | cons _ _ => rw [hb] at h; simp at h
  · cases hm : k.mkeys with
    | nil => rfl
    | cons _ _ => rw [hm] at h; simp at h

theorem pop_idle {k : Keys} (h : k.pending = 0) : k.pop = k := by
  obtain ⟨hb, hm⟩ := pending_zero h
  simp [Keys.pop, hb, hm]

/-- the end of `MatchMain`, from the keys read by the dispatcher and the multibyte fallback -/
def mainTailF (e1 : Eng) (bind1 : Bind) (pfx1 : Bool) (read : Seq) : Eng × Bind × Bool × Bool :=
  let e2' : Eng := { e1 with keys := if pfx1 then e1.keys.matchedPrefix read else e1.keys.matchedKeys read [] }
  let (e2, bind, pfx) := nonIncOverrideR e2' bind1 pfx1 read
  if isEscapeKey e2 && !e2.isEmacs && pfx then
    let b := if e2.prefixed.action = "vi-movement-mode" then e2.prefixed else Bind.none
    let e3 := { e2 with prefixed := Bind.none, keys := e2.keys.popForce }
    (e3, b, b.action ≠ "" && hasCmd e3 b, false)
  else (e2, bind, hasCmd e2 bind, pfx)

theorem matchMain_eq (e : Eng) : matchMain e =
    if e.mainBinds.isEmpty then ({ e with keys := e.keys.popForce }, Bind.none, false, false) else
    let d := dispatchKeys e.mainBinds (e.keys.buf.length + e.keys.mkeys.length) e [] [] false
    let c := matchCharacter d.1 d.1.active d.2.1 d.2.2.1
    mainTailF c.1 c.2.1 c.2.2.1 c.2.2.2 := by
  unfold matchMain mainTailF
  rfl

theorem nonIncOverride_spec0 (e : Eng) (b : Bind) (p : Bool) :
    (nonIncOverride e b p).1.keys = e.keys ∧ ((nonIncOverride e b p).2.2 = true → p = true) := by
  unfold nonIncOverride
  split <;> simp

theorem nonIncOverride_spec (e : Eng) (b : Bind) (p : Bool) (rd : Seq) :
    (nonIncOverrideR e b p rd).1.keys = e.keys ∧ ((nonIncOverrideR e b p rd).2.2 = true → p = true) := by
  unfold nonIncOverrideR
  split
  · exact ⟨rfl, id⟩
  · exact nonIncOverride_spec0 e b p

theorem mainTailF_false (e1 : Eng) (bind1 : Bind) (read : Seq) :
    (mainTailF e1 bind1 false read).1.keys = e1.keys.matchedKeys read [] ∧
    (mainTailF e1 bind1 false read).2.2.2 = false := by
  unfold mainTailF
  simp only [Bool.false_eq_true, if_false]
  obtain ⟨hk, hp⟩ := nonIncOverride_spec { e1 with keys := e1.keys.matchedKeys read [] } bind1 false read
  generalize nonIncOverrideR { e1 with keys := e1.keys.matchedKeys read [] } bind1 false read = o at hk hp ⊢
  obtain ⟨e2, bind, pfx⟩ := o
  dsimp only at hk hp ⊢
  have hpf : pfx = false := by
    cases pfx
    · rfl
    · exact absurd (hp rfl) (by simp)
  subst hpf
  simp [hk]

theorem mainTailF_true (e1 : Eng) (bind1 : Bind) (read : Seq) :
    (mainTailF e1 bind1 true read).1.keys = e1.keys.matchedPrefix read ∨
    ((mainTailF e1 bind1 true read).1.keys = (e1.keys.matchedPrefix read).popForce ∧
      (mainTailF e1 bind1 true read).2.2.2 = false) := by
  unfold mainTailF
  simp only [if_true]
  obtain ⟨hk, _⟩ := nonIncOverride_spec { e1 with keys := e1.keys.matchedPrefix read } bind1 true read
  generalize nonIncOverrideR { e1 with keys := e1.keys.matchedPrefix read } bind1 true read = o at hk ⊢
  obtain ⟨e2, bind, pfx⟩ := o
  dsimp only at hk ⊢
  split
  · right; exact ⟨by simp [hk], rfl⟩
  · left; exact hk

theorem mainTail_out (e e1 : Eng) (bind1 : Bind) (pfx1 : Bool) (read : Seq) (J : Nat)
    (hJ : PopRel J e.keys e1.keys) (hl : read.length = J) (hp : pfx1 = true → e1.keys.pending = 0)
    (hJ1 : 0 < e.keys.pending → 0 < J) (h0 : e.keys.pending = 0 → pfx1 = false) :
    MainOut e (mainTailF e1 bind1 pfx1 read) := by
  have hpend := hJ.pending
  cases pfx1 with
  | false =>
    obtain ⟨hk, hpf⟩ := mainTailF_false e1 bind1 read
    have hk2 : (mainTailF e1 bind1 false read).1.keys =
        { e1.keys with matched := if read.isEmpty then e1.keys.matched else runesOfBytes read, mustWait := false } := by
      rw [hk]; simp [Keys.matchedKeys]
    rcases Nat.eq_zero_or_pos e.keys.pending with hz | hpos
    · left
      have hJ0 : J = 0 := by omega
      subst hJ0
      exact ⟨hz, hpf, returned_of_pop hJ (by rw [hk2]; simp) (by rw [hk2]) (by rw [hk2]) (by rw [hk2])⟩
    · right; right
      have := hJ1 hpos
      exact ⟨hpos, hpf, consumed_of_pop hJ (r := 0) this (by rw [hk2]; simp) (by rw [hk2]) (by rw [hk2]) (by rw [hk2])⟩
  | true =>
    have hz := hp rfl
    obtain ⟨hb1, hm1⟩ := pending_zero hz
    have hpos : 0 < e.keys.pending := by
      rcases Nat.eq_zero_or_pos e.keys.pending with h | h
      · have := h0 h; cases this
      · exact h
    have hJpos := hJ1 hpos
    obtain ⟨a, t, hrd⟩ : ∃ a t, read = a :: t := by
      cases read with
      | nil => simp at hl; omega
      | cons a t => exact ⟨a, t, rfl⟩
    have hkp : e1.keys.matchedPrefix read =
        { e1.keys with mustWait := true, buf := read, matched := runesOfBytes read } := by
      simp [Keys.matchedPrefix, hrd, hb1]
    have hpushed : Pushed e.keys (e1.keys.matchedPrefix read) := by
      rw [hkp]
      exact ⟨returned_of_pop hJ (by simp [hb1, hl]) rfl rfl rfl, rfl, hm1⟩
    rcases mainTailF_true e1 bind1 read with hk | ⟨hk, hpf⟩
    · right; left
      exact ⟨hpos, by rw [hk]; exact hpushed⟩
    · right; right
      refine ⟨hpos, hpf, ?_⟩
      rw [hk, hkp]
      have hret := returned_of_pop (k' := ({ e1.keys with mustWait := true, buf := read, matched := runesOfBytes read } : Keys))
        hJ (by simp [hb1, hl]) rfl rfl rfl
      have hpe := hret.pend
      refine ⟨?_, ?_, ?_, ?_⟩
      · simp only [Keys.popForce, Keys.pop, hrd]; exact hret.nested
      · unfold Keys.pending at hpe ⊢
        simp only [Keys.popForce, Keys.pop, hrd] at hpe ⊢
        simp at hpe ⊢
        omega
      · intro hf; simp only [Keys.popForce, Keys.pop, hrd]; exact hret.flagUp hf
      · intro hf
        simp only [Keys.popForce, Keys.pop, hrd] at hf ⊢
        obtain ⟨x1, x2⟩ := hret.same hf
        simp only [hrd] at x1 x2
        simp at x1
        exact ⟨by omega, x2⟩

/-- `MatchMain`: idle without keys; otherwise every key read as a prefix and pushed back, or at least
one key consumed -/
theorem matchMain_out (e : Eng) : MainOut e (matchMain e) := by
  rw [matchMain_eq]
  split
  · rcases Nat.eq_zero_or_pos e.keys.pending with hz | hpos
    · left
      refine ⟨hz, rfl, ?_⟩
      simp only [Keys.popForce, pop_idle hz]
      exact ⟨rfl, rfl, id, fun _ => ⟨rfl, rfl⟩⟩
    · right; right
      have hstep : PopRel 1 e.keys e.keys.pop := by simpa using (PopRel.refl e.keys).step hpos
      exact ⟨hpos, rfl, consumed_of_pop hstep (r := 0) (by omega) (by simp [Keys.popForce]) rfl rfl rfl⟩
  · dsimp only
    obtain ⟨j, hj, hread, _, _, hpf, hj0, _, _, hz, _⟩ :=
      dispatchKeys_sum e.mainBinds (e.keys.buf.length + e.keys.mkeys.length) e [] [] false (Nat.le_refl _) (Nat.le_refl _)
    generalize dispatchKeys e.mainBinds (e.keys.buf.length + e.keys.mkeys.length) e [] [] false = d at *
    -- without keys nothing is read: no prefix
    have hc0 : e.keys.pending = 0 → (matchCharacter d.1 d.1.active d.2.1 d.2.2.1).2.2.1 = false := by
      intro h0
      have hd := (hz h0).2
      have hjle := hj.le
      have hr : d.2.2.1 = [] := by
        apply List.eq_nil_of_length_eq_zero
        rw [hread]; simp; omega
      rw [hd, hr]
      simp [matchCharacter]
    obtain ⟨i, hi, hl, hpf2, _⟩ := matchCharacter_sum d.1 d.1.active d.2.1 d.2.2.1 (fun h => hpf h)
    generalize matchCharacter d.1 d.1.active d.2.1 d.2.2.1 = c at *
    have hJ := hj.trans hi
    have hlen : c.2.2.2.length = j + i := by rw [hl, hread]; simp
    exact mainTail_out e c.1 c.2.1 c.2.2.1 c.2.2.2 (j + i) hJ hlen hpf2
      (fun h => by have := hj0 h; omega) hc0

end RLV

namespace RLV

theorem Consumed.trans {a b c : Keys} (h1 : Consumed a b) (h2 : Consumed b c) : Consumed a c := by
  refine ⟨by rw [h2.nested, h1.nested], by have := h2.pend; have := h1.pend; omega,
    fun h => h2.flagUp (h1.flagUp h), ?_⟩
  intro hc
  have hb : b.fromMacro = false := by
    cases hb : b.fromMacro
    · rfl
    · have := h2.flagUp hb; rw [hc] at this; cases this
  obtain ⟨x1, x2⟩ := h2.same hc
  obtain ⟨y1, y2⟩ := h1.same hb
  exact ⟨by omega, by omega⟩

/-- `PopForce` after a consumption: one more key dropped, or none left -/
theorem Consumed.popForce {k k2 : Keys} (h : Consumed k k2) : Consumed k k2.popForce := by
  rcases Nat.eq_zero_or_pos k2.pending with hz | hpos
  · apply h.returned
    simp only [Keys.popForce, pop_idle hz]
    exact ⟨rfl, rfl, id, fun _ => ⟨rfl, rfl⟩⟩
  · have hstep : PopRel 1 k2 k2.pop := by simpa using (PopRel.refl k2).step hpos
    exact h.trans (consumed_of_pop hstep (r := 0) (by omega) (by simp [Keys.popForce]) rfl rfl rfl)

/-- the outcomes of `MatchLocal`, as far as the key stack is concerned -/
def LocalOut (e : Eng) (r : Eng × Bind × Bool × Bool) : Prop :=
  (r = (e, Bind.none, false, false))
  ∨ (Pushed e.keys r.1.keys)
  ∨ (r.2.2.2 = false ∧ Consumed e.keys r.1.keys)
  ∨ (r.2.2.2 = false ∧ Returned e.keys r.1.keys ∧ r.1.prefixed = Bind.none ∧
      (r.2.1.action ≠ "" → e.prefixed.action ≠ ""))

/-- the end of `MatchLocal`, from the result of the dispatcher -/
def localTailF (e1 : Eng) (pfx : Bool) (read matched : Seq) (isIsearch : Bool) : Eng × Bind × Bool × Bool :=
  let bind := e1.active
  let cmd := hasCmd e1 bind
  let e2 : Eng := { e1 with keys := if pfx then e1.keys.matchedPrefix read
                                  else e1.keys.matchedKeys matched (read.drop matched.length) }
  if isEscapeKey e2 && (pfx || !cmd) then
    if e2.prefixed.action = "vi-movement-mode" then
      let b := e2.prefixed
      let e3 := { e2 with prefixed := Bind.none }
      (e3, b, hasCmd e3 b, false)
    else if e2.isEmacs && isIsearch then
      let b : Bind := ⟨"emacs-editing-mode", false⟩
      let e3 := { e2 with prefixed := Bind.none, keys := e2.keys.popForce }
      (e3, b, hasCmd e3 b, false)
    else
      ({ e2 with prefixed := Bind.none }, Bind.none, false, false)
  else (e2, bind, cmd, pfx)

theorem matchLocal_eq (e : Eng) (ltbl : List (Seq × Bind)) (is : Bool) : matchLocal e ltbl is =
    if ltbl.isEmpty then (e, Bind.none, false, false) else
    let d := dispatchKeys ltbl (e.keys.buf.length + e.keys.mkeys.length) e [] [] false
    localTailF d.1 d.2.1 d.2.2.1 d.2.2.2 is := by
  unfold matchLocal localTailF
  rfl

/-- `localTailF` with the keys after the push-back as a parameter -/
def localTailK (e1 : Eng) (k2 : Keys) (pfx : Bool) (isIsearch : Bool) : Eng × Bind × Bool × Bool :=
  let bind := e1.active
  let cmd := hasCmd e1 bind
  let e2 : Eng := { e1 with keys := k2 }
  if isEscapeKey e2 && (pfx || !cmd) then
    if e2.prefixed.action = "vi-movement-mode" then
      let b := e2.prefixed
      let e3 := { e2 with prefixed := Bind.none }
      (e3, b, hasCmd e3 b, false)
    else if e2.isEmacs && isIsearch then
      let b : Bind := ⟨"emacs-editing-mode", false⟩
      let e3 := { e2 with prefixed := Bind.none, keys := e2.keys.popForce }
      (e3, b, hasCmd e3 b, false)
    else
      ({ e2 with prefixed := Bind.none }, Bind.none, false, false)
  else (e2, bind, cmd, pfx)

theorem localTailF_eq (e1 : Eng) (pfx : Bool) (read matched : Seq) (is : Bool) :
    localTailF e1 pfx read matched is =
      localTailK e1 (if pfx then e1.keys.matchedPrefix read else e1.keys.matchedKeys matched (read.drop matched.length)) pfx is := rfl

/-- the shapes of the result of `localTailK` -/
theorem localTailK_shape (e1 : Eng) (k2 : Keys) (pfx : Bool) (is : Bool) :
    let r := localTailK e1 k2 pfx is
    -- escape handled
    (k2.matched = [0x1b] ∧ r.2.2.2 = false ∧ r.1.prefixed = Bind.none ∧
        ((r.1.keys = k2 ∧ (r.2.1.action ≠ "" → e1.prefixed.action = "vi-movement-mode")) ∨ r.1.keys = k2.popForce))
    -- or not
    ∨ (r = ({ e1 with keys := k2 }, e1.active, hasCmd e1 e1.active, pfx)) := by
  unfold localTailK
  dsimp only
  by_cases hesc : (isEscapeKey { e1 with keys := k2 } && (pfx || !hasCmd e1 e1.active)) = true
  · left
    have hm : k2.matched = [0x1b] := by
      simp only [isEscapeKey, Bool.and_eq_true, beq_iff_eq] at hesc
      exact hesc.1
    by_cases hv : e1.prefixed.action = "vi-movement-mode"
    · refine ⟨hm, ?_, ?_, Or.inl ⟨?_, fun _ => hv⟩⟩ <;> simp [hesc, hv]
    · by_cases hi : (e1.isEmacs && is) = true
      · refine ⟨hm, ?_, ?_, Or.inr ?_⟩ <;> simp [hesc, hv, hi]
      · refine ⟨hm, ?_, ?_, Or.inl ⟨?_, ?_⟩⟩ <;> simp [hesc, hv, hi, Bind.none]
  · right
    simp [hesc]

/-- `MatchLocal` on a flushed stack with keys waiting -/
theorem matchLocal_out (e : Eng) (ltbl : List (Seq × Bind)) (is : Bool)
    (hfl : e.keys.matched = []) (hpos : 0 < e.keys.pending) :
    LocalOut e (matchLocal e ltbl is) ∧
    ((matchLocal e ltbl is).2.2.2 = true → Pushed e.keys (matchLocal e ltbl is).1.keys) := by
  rw [matchLocal_eq]
  split
  · exact ⟨Or.inl rfl, fun h => by simp at h⟩
  · dsimp only
    obtain ⟨j, hj, hread, hml, _, hpf, hj0, hpr, hact, _, _⟩ :=
      dispatchKeys_sum ltbl (e.keys.buf.length + e.keys.mkeys.length) e [] [] false (Nat.le_refl _) (Nat.le_refl _)
    generalize dispatchKeys ltbl (e.keys.buf.length + e.keys.mkeys.length) e [] [] false = d at *
    obtain ⟨e1, pfx, read, matched⟩ := d
    dsimp only at hj hread hml hpf hj0 hpr hact ⊢
    have hjpos := hj0 hpos
    have hrl : read.length = j := by simpa using hread
    rw [localTailF_eq]
    have hshape := localTailK_shape e1 (if pfx then e1.keys.matchedPrefix read else e1.keys.matchedKeys matched (read.drop matched.length)) pfx is
    dsimp only at hshape
    cases pfx with
    | true =>
      -- every key read as a prefix: pushed back
      have hz := hpf rfl
      obtain ⟨hb1, hm1⟩ := pending_zero hz
      obtain ⟨a, t, hrd⟩ : ∃ a t, read = a :: t := by
        cases read with
        | nil => simp at hrl; omega
        | cons a t => exact ⟨a, t, rfl⟩
      have hkp : e1.keys.matchedPrefix read =
          { e1.keys with mustWait := true, buf := read, matched := runesOfBytes read } := by
        simp [Keys.matchedPrefix, hrd, hb1]
      have hpushed : Pushed e.keys (e1.keys.matchedPrefix read) := by
        rw [hkp]
        exact ⟨returned_of_pop hj (by simp [hb1, hrl]) rfl rfl rfl, rfl, hm1⟩
      simp only [if_true] at hshape ⊢
      rcases hshape with ⟨_, hp2, _, hk | hk⟩ | hr
      · exact ⟨Or.inr (Or.inl (by rw [hk.1]; exact hpushed)), fun h => by rw [hp2] at h; cases h⟩
      · refine ⟨Or.inr (Or.inr (Or.inl ⟨hp2, ?_⟩)), fun h => by rw [hp2] at h; cases h⟩
        rw [hk, hkp]
        have hret := returned_of_pop (k' := ({ e1.keys with mustWait := true, buf := read, matched := runesOfBytes read } : Keys))
          hj (by simp [hb1, hrl]) rfl rfl rfl
        have hpe := hret.pend
        refine ⟨?_, ?_, ?_, ?_⟩
        · simp only [Keys.popForce, Keys.pop, hrd]; exact hret.nested
        · unfold Keys.pending at hpe ⊢
          simp only [Keys.popForce, Keys.pop, hrd] at hpe ⊢
          simp at hpe ⊢
          omega
        · intro hf; simp only [Keys.popForce, Keys.pop, hrd]; exact hret.flagUp hf
        · intro hf
          simp only [Keys.popForce, Keys.pop, hrd] at hf ⊢
          obtain ⟨x1, x2⟩ := hret.same hf
          simp only [hrd] at x1 x2
          simp at x1
          exact ⟨by omega, x2⟩
      · rw [hr]
        exact ⟨Or.inr (Or.inl hpushed), fun _ => hpushed⟩
    | false =>
      have hp1 := hpr hpos rfl
      simp only [Bool.false_eq_true, if_false] at hshape ⊢
      have hk2 : e1.keys.matchedKeys matched (read.drop matched.length) =
          { e1.keys with matched := if matched.isEmpty then e1.keys.matched else runesOfBytes matched,
                         buf := read.drop matched.length ++ e1.keys.buf, mustWait := false } := by
        unfold Keys.matchedKeys
        by_cases hd : (read.drop matched.length).isEmpty = true
        · have : read.drop matched.length = [] := by
            cases h : read.drop matched.length with
            | nil => rfl
            | cons _ _ => rw [h] at hd; simp at hd
          simp [this]
        · simp [hd]
      have hbl : (e1.keys.matchedKeys matched (read.drop matched.length)).buf.length = (j - matched.length) + e1.keys.buf.length := by
        rw [hk2]; simp [hrl]
      by_cases hm0 : matched.length = 0
      · -- no key matched: all pushed back
        have hmn : matched = [] := List.eq_nil_of_length_eq_zero hm0
        have hret : Returned e.keys (e1.keys.matchedKeys matched (read.drop matched.length)) :=
          returned_of_pop hj (by rw [hbl, hm0]; simp) (by rw [hk2]) (by rw [hk2]) (by rw [hk2])
        have hmat : (e1.keys.matchedKeys matched (read.drop matched.length)).matched = [] := by
          rw [hk2, hmn]; simp [hj.matched, hfl]
        rcases hshape with ⟨hesc, _⟩ | hr
        · rw [hmat] at hesc; cases hesc
        · rw [hr]
          refine ⟨Or.inr (Or.inr (Or.inr ⟨rfl, hret, hp1, ?_⟩)), fun h => by simp at h⟩
          intro hne
          have := hact hpos rfl (by rw [hm0]; rfl)
          dsimp only at hne
          rw [this] at hne
          exact hne
      · have hcons : Consumed e.keys (e1.keys.matchedKeys matched (read.drop matched.length)) :=
          consumed_of_pop hj (r := j - matched.length) (by omega) hbl (by rw [hk2]) (by rw [hk2]) (by rw [hk2])
        rcases hshape with ⟨_, hp2, _, hk | hk⟩ | hr
        · exact ⟨Or.inr (Or.inr (Or.inl ⟨hp2, by rw [hk.1]; exact hcons⟩)), fun h => by rw [hp2] at h; cases h⟩
        · exact ⟨Or.inr (Or.inr (Or.inl ⟨hp2, by rw [hk]; exact hcons.popForce⟩)), fun h => by rw [hp2] at h; cases h⟩
        · rw [hr]
          exact ⟨Or.inr (Or.inr (Or.inl ⟨rfl, hcons⟩)), fun h => by simp at h⟩

end RLV

namespace RLV

theorem nonIncOverride_reg (e : Eng) (b : Bind) (p : Bool) (rd : Seq) :
    (nonIncOverrideR e b p rd).1.registered = e.registered := by
  unfold nonIncOverrideR nonIncOverride
  split
  · rfl
  · split <;> rfl

theorem mainTailF_reg (e1 : Eng) (bind1 : Bind) (pfx1 : Bool) (read : Seq) :
    (mainTailF e1 bind1 pfx1 read).1.registered = e1.registered := by
  unfold mainTailF
  dsimp only
  have h := nonIncOverride_reg { e1 with keys := if pfx1 then e1.keys.matchedPrefix read else e1.keys.matchedKeys read [] } bind1 pfx1 read
  generalize nonIncOverrideR { e1 with keys := if pfx1 then e1.keys.matchedPrefix read else e1.keys.matchedKeys read [] } bind1 pfx1 read = o at h ⊢
  obtain ⟨e2, bind, pfx⟩ := o
  dsimp only at h ⊢
  split <;> exact h

/-- the dispatchers leave the registered commands alone -/
theorem matchMain_reg (e : Eng) : (matchMain e).1.registered = e.registered := by
  rw [matchMain_eq]
  split
  · rfl
  · dsimp only
    obtain ⟨j, _, _, _, _, hpf, _, _, _, _, hfr⟩ :=
      dispatchKeys_sum e.mainBinds (e.keys.buf.length + e.keys.mkeys.length) e [] [] false (Nat.le_refl _) (Nat.le_refl _)
    generalize dispatchKeys e.mainBinds (e.keys.buf.length + e.keys.mkeys.length) e [] [] false = d at *
    obtain ⟨i, _, _, _, hfr2⟩ := matchCharacter_sum d.1 d.1.active d.2.1 d.2.2.1 (fun h => hpf h)
    generalize matchCharacter d.1 d.1.active d.2.1 d.2.2.1 = c at *
    rw [mainTailF_reg, hfr2]
    dsimp only
    unfold Eng.Frame at hfr
    rw [hfr]

theorem hasCmd_none {e : Eng} {b : Bind} (h : "" ∉ e.registered) (hb : b.action = "") : hasCmd e b = false := by
  unfold hasCmd
  rw [hb]
  cases b.isMacro <;> simp [h]

/-- `MatchLocal` leaves the registered commands alone, and resolves a command for a named bind only -/
theorem localTailK_reg (e1 : Eng) (k2 : Keys) (pfx is : Bool) :
    (localTailK e1 k2 pfx is).1.registered = e1.registered ∧
    ((localTailK e1 k2 pfx is).2.2.1 = true → "" ∉ e1.registered → (localTailK e1 k2 pfx is).2.1.action ≠ "") := by
  unfold localTailK
  dsimp only
  split
  · split
    · rename_i hv
      exact ⟨rfl, fun _ _ h => by rw [h] at hv; exact absurd hv (by decide)⟩
    · split
      · exact ⟨rfl, fun _ _ h => absurd (show ("emacs-editing-mode" : String) = "" from h) (by decide)⟩
      · exact ⟨rfl, fun h => by cases h⟩
  · refine ⟨rfl, fun hc hreg hact => ?_⟩
    rw [hasCmd_none hreg hact] at hc
    cases hc

theorem matchLocal_reg (e : Eng) (ltbl : List (Seq × Bind)) (is : Bool) :
    (matchLocal e ltbl is).1.registered = e.registered ∧
    ((matchLocal e ltbl is).2.2.1 = true → "" ∉ e.registered → (matchLocal e ltbl is).2.1.action ≠ "") := by
  rw [matchLocal_eq]
  split
  · exact ⟨rfl, fun h => by cases h⟩
  · dsimp only
    obtain ⟨j, _, _, _, _, _, _, _, _, _, hfr⟩ :=
      dispatchKeys_sum ltbl (e.keys.buf.length + e.keys.mkeys.length) e [] [] false (Nat.le_refl _) (Nat.le_refl _)
    generalize dispatchKeys ltbl (e.keys.buf.length + e.keys.mkeys.length) e [] [] false = d at *
    have hreg : d.1.registered = e.registered := by
      unfold Eng.Frame at hfr; rw [hfr]
    rw [localTailF_eq]
    obtain ⟨h1, h2⟩ := localTailK_reg d.1 (if d.2.1 then d.1.keys.matchedPrefix d.2.2.1 else d.1.keys.matchedKeys d.2.2.2 (d.2.2.1.drop d.2.2.2.length)) d.2.1 is
    exact ⟨by rw [h1, hreg], fun hc hr => h2 hc (by rw [hreg]; exact hr)⟩

end RLV
