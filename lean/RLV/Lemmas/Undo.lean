import RLV.Model.Hist
/-! C07: every buffer that `undo`/`redo` produce is the text of a state saved earlier for some line. -/
namespace RLV.Hist
open RLV.Core

/-- all texts held in the undo histories -/
def allLines (s : St) : List (List Nat) := s.lhs.flatMap (fun e => e.2.items.map (·.line))

theorem mem_allLines {s : St} {l : List Nat} :
    l ∈ allLines s ↔ ∃ e ∈ s.lhs, ∃ it ∈ e.2.items, it.line = l := by
  simp [allLines, List.mem_flatMap, List.mem_map]

theorem mem_of_lookup {α : Type} (k : Int) (v : α) : ∀ (l : List (Int × α)), l.lookup k = some v → (k, v) ∈ l := by
  intro l
  induction l with
  | nil => intro h; simp [List.lookup] at h
  | cons e rest ih =>
    intro h
    obtain ⟨k', v'⟩ := e
    simp only [List.lookup] at h
    split at h
    · rename_i heq
      simp only [Option.some.injEq] at h
      have : k = k' := by simpa using heq
      subst this; subst h; exact List.mem_cons_self
    · exact List.mem_cons_of_mem _ (ih h)

theorem getLH_items_sub (s : St) (k : Int) (it : UItem) (h : it ∈ (getLH s k).items) :
    it.line ∈ allLines s := by
  unfold getLH at h
  cases hl : s.lhs.lookup k with
  | none => simp [hl] at h
  | some v =>
    simp [hl] at h
    have := mem_of_lookup k v s.lhs hl
    exact mem_allLines.mpr ⟨(k, v), this, it, h, rfl⟩

theorem allLines_setLH (s : St) (k : Int) (h : LH) (l : List Nat)
    (hl : l ∈ allLines (setLH s k h)) : l ∈ h.items.map (·.line) ∨ l ∈ allLines s := by
  rcases mem_allLines.mp hl with ⟨e, he, it, hit, rfl⟩
  simp only [setLH, List.mem_cons, List.mem_filter] at he
  rcases he with rfl | ⟨he, _⟩
  · left; exact List.mem_map.mpr ⟨it, hit, rfl⟩
  · right; exact mem_allLines.mpr ⟨e, he, it, hit, rfl⟩

theorem undoFind_spec : ∀ (fuel : Nat) (h h' : LH) (line : List Nat) (u : Option UItem),
    undoFind fuel h line = .ok (h', u) → h'.items = h.items ∧ ∀ v, u = some v → v ∈ h.items := by
  intro fuel
  induction fuel with
  | zero =>
    intro h h' line u hr
    simp only [undoFind, pure, Except.pure, Except.ok.injEq, Prod.mk.injEq] at hr
    obtain ⟨rfl, rfl⟩ := hr
    exact ⟨rfl, fun v hv => by cases hv⟩
  | succ n ih =>
    intro h h' line u hr
    unfold undoFind at hr
    simp only at hr
    split at hr
    · simp only [pure, Except.pure, Except.ok.injEq, Prod.mk.injEq] at hr
      obtain ⟨rfl, rfl⟩ := hr
      exact ⟨rfl, fun v hv => by cases hv⟩
    · split at hr
      · cases hr
      · split at hr
        · cases hr
        · rename_i w hw
          split at hr
          · simp only [pure, Except.pure, Except.ok.injEq, Prod.mk.injEq] at hr
            obtain ⟨rfl, rfl⟩ := hr
            refine ⟨rfl, fun v hv => ?_⟩
            cases hv
            exact List.mem_of_getElem? hw
          · have := ih _ _ _ _ hr
            exact this

end RLV.Hist

namespace RLV.Hist
open RLV.Core

/-- `undo`: the buffer is unchanged or becomes a text held in the undo histories, and the
histories gain no new text. -/
theorem undo_spec (s s' : St) (hr : undo s = .ok s') :
    (s'.line = s.line ∨ s'.line ∈ allLines s) ∧ ∀ l ∈ allLines s', l ∈ allLines s := by
  unfold undo at hr
  simp only [bind, Except.bind, pure, Except.pure] at hr
  generalize hs0 : ({ s with skip := true, undoing := true } : St) = s0 at hr
  have hl0 : allLines s0 = allLines s := by subst hs0; rfl
  have hline0 : s0.line = s.line := by subst hs0; rfl
  split at hr
  · -- no items: only the (empty) history is re-stored
    cases hr
    refine ⟨Or.inl (by simp [setLH, hline0]), fun l hl => ?_⟩
    rcases allLines_setLH _ _ _ _ hl with h1 | h1
    · rcases List.mem_map.mp h1 with ⟨it, hit, rfl⟩
      rw [← hl0]; exact getLH_items_sub _ _ _ hit
    · rw [← hl0]; exact h1
  · split at hr
    · cases hr
    · rename_i r hfind
      obtain ⟨h', u⟩ := r
      have hspec := undoFind_spec _ _ _ _ _ hfind
      have hsub : ∀ l ∈ allLines (setLH s0 (lineKey s0) h'), l ∈ allLines s := by
        intro l hl
        rcases allLines_setLH _ _ _ _ hl with h1 | h1
        · rcases List.mem_map.mp h1 with ⟨it, hit, rfl⟩
          rw [hspec.1] at hit
          rw [← hl0]; exact getLH_items_sub _ _ _ hit
        · rw [← hl0]; exact h1
      cases u with
      | none =>
        simp only at hr
        cases hr
        exact ⟨Or.inl (by simp [setLH, hline0]), hsub⟩
      | some v =>
        simp only at hr
        cases hr
        refine ⟨Or.inr ?_, hsub⟩
        simp only
        rw [← hl0]
        exact getLH_items_sub _ _ _ (hspec.2 v rfl)

end RLV.Hist

namespace RLV.Hist
open RLV.Core

theorem allLines_setLH_same (s : St) (k : Int) (h : LH)
    (hsub : ∀ it ∈ h.items, it.line ∈ allLines s) : ∀ l ∈ allLines (setLH s k h), l ∈ allLines s := by
  intro l hl
  rcases allLines_setLH _ _ _ _ hl with h1 | h1
  · rcases List.mem_map.mp h1 with ⟨it, hit, rfl⟩; exact hsub it hit
  · exact h1

theorem reset_spec (s : St) : (reset s).line = s.line ∧ ∀ l ∈ allLines (reset s), l ∈ allLines s := by
  let s0 : St := { s with skip := false }
  have hsub : ∀ it ∈ (getLH s0 (lineKey s0)).items, it.line ∈ allLines s :=
    fun it hit => getLH_items_sub s0 _ _ hit
  cases hu : s.undoing
  · have e : reset s = { setLH s0 (lineKey s0) { getLH s0 (lineKey s0) with pos := 0 } with undoing := false } := by
      simp [reset, hu, s0]
    rw [e]
    refine ⟨rfl, fun l hl => ?_⟩
    exact allLines_setLH_same s0 (lineKey s0) { getLH s0 (lineKey s0) with pos := 0 } hsub l hl
  · have e : reset s = { setLH s0 (lineKey s0) (getLH s0 (lineKey s0)) with undoing := false } := by
      simp [reset, hu, s0]
    rw [e]
    refine ⟨rfl, fun l hl => ?_⟩
    exact allLines_setLH_same s0 (lineKey s0) (getLH s0 (lineKey s0)) hsub l hl

/-- `redo`: same shape as `undo_spec`. -/
theorem redo_spec (s s' : St) (hr : redo s = .ok s') :
    (s'.line = s.line ∨ s'.line ∈ allLines s) ∧ ∀ l ∈ allLines s', l ∈ allLines s := by
  unfold redo at hr
  simp only [bind, Except.bind, pure, Except.pure] at hr
  generalize hs0 : ({ s with skip := true, undoing := true } : St) = s0 at hr
  have hl0 : allLines s0 = allLines s := by subst hs0; rfl
  have hline0 : s0.line = s.line := by subst hs0; rfl
  have hsub : ∀ p : Int, ∀ l ∈ allLines (setLH s0 (lineKey s0) { getLH s0 (lineKey s0) with pos := p }), l ∈ allLines s := by
    intro p l hl
    rw [← hl0]
    exact allLines_setLH_same s0 _ _ (fun it hit => getLH_items_sub _ _ _ hit) l hl
  split at hr
  · cases hr
    refine ⟨Or.inl (by simp [setLH, hline0]), fun l hl => ?_⟩
    rw [← hl0]
    exact allLines_setLH_same s0 _ _ (fun it hit => getLH_items_sub _ _ _ hit) l hl
  · split at hr
    · cases hr
      exact ⟨Or.inl (by simp [setLH, hline0]), hsub _⟩
    · split at hr
      · cases hr
      · split at hr
        · rename_i u hu
          cases hr
          refine ⟨Or.inr ?_, hsub _⟩
          simp only
          rw [← hl0]
          exact getLH_items_sub _ _ _ (List.mem_of_getElem? hu)
        · cases hr

end RLV.Hist

namespace RLV.Hist
open RLV.Core

theorem reset_setLH_spec (s : St) (k : Int) (h' : LH)
    (hh : ∀ it ∈ h'.items, it.line = s.line ∨ it.line ∈ allLines s) :
    (reset (setLH s k h')).line = s.line ∧
      ∀ l ∈ allLines (reset (setLH s k h')), l = s.line ∨ l ∈ allLines s := by
  have h1 := reset_spec (setLH s k h')
  refine ⟨by rw [h1.1]; rfl, fun l hl => ?_⟩
  have h2 := h1.2 l hl
  rcases allLines_setLH _ _ _ _ h2 with h3 | h3
  · rcases List.mem_map.mp h3 with ⟨it, hit, rfl⟩; exact hh it hit
  · exact Or.inr h3

theorem mem_dropLast {α : Type} (x : α) : ∀ (l : List α), x ∈ l.dropLast → x ∈ l := by
  intro l h
  have := List.dropLast_subset l
  exact this h

theorem saveAppendAt_spec (s s' : St) (k : Int) (h : LH) (p u : Int)
    (hold : ∀ it ∈ h.items, it.line = s.line ∨ it.line ∈ allLines s)
    (hr : saveAppendAt s k h p u = .ok s') :
    s'.line = s.line ∧ ∀ l ∈ allLines s', l = s.line ∨ l ∈ allLines s := by
  unfold saveAppendAt at hr
  split at hr
  · cases hr
  · split at hr
    · cases hr
    · split at hr
      · cases hr
      · cases hr
        apply reset_setLH_spec
        intro it' hit'
        simp only [List.mem_append, List.mem_singleton] at hit'
        rcases hit' with h1 | rfl
        · exact hold it' (List.mem_of_mem_take h1)
        · exact Or.inl rfl

theorem saveAppend_spec (s s' : St) (k : Int) (h : LH)
    (hold : ∀ it ∈ h.items, it.line = s.line ∨ it.line ∈ allLines s)
    (hr : saveAppend s k h = .ok s') :
    s'.line = s.line ∧ ∀ l ∈ allLines s', l = s.line ∨ l ∈ allLines s := by
  unfold saveAppend at hr
  generalize (if h.pos > (h.items.length : Int) then (h.items.length : Int) else h.pos) = p at hr
  simp only at hr
  split at hr
  · cases hr
  · exact saveAppendAt_spec s s' k h p _ hold hr

/-- `save`: the buffer is untouched and the only text the histories can gain is the buffer's. -/
theorem save_spec (s s' : St) (hr : save s = .ok s') :
    s'.line = s.line ∧ ∀ l ∈ allLines s', l = s.line ∨ l ∈ allLines s := by
  unfold save at hr
  have hold : ∀ it ∈ (getLH s (lineKey s)).items, it.line = s.line ∨ it.line ∈ allLines s :=
    fun it hit => Or.inr (getLH_items_sub _ _ _ hit)
  split at hr
  · cases hr
    have := reset_spec s
    exact ⟨this.1, fun l hl => Or.inr (this.2 l hl)⟩
  · simp only at hr
    split at hr
    · rename_i it hlast
      split at hr
      · rename_i hsame
        cases hr
        apply reset_setLH_spec
        intro it' hit'
        simp only [List.mem_append, List.mem_singleton] at hit'
        rcases hit' with h1 | rfl
        · exact hold it' (mem_dropLast _ _ h1)
        · exact Or.inl hsame
      · exact saveAppend_spec s s' _ _ hold hr
    · exact saveAppend_spec s s' _ _ hold hr

end RLV.Hist
