import RLV.Model.Keys
import RLV.Lemmas.Dispatch2
import RLV.Lemmas.DispatchProgress
/-! `dispatchKeys` (the function compared with internal/keymap/dispatch.go by the differential)
refines the list-level `dispatch` the C03 clauses are proved about: with typed keys only
(no macro keys pending) it is `dispatch` on the key buffer. -/
namespace RLV

/-- the engine after a dispatch described by the list-level result `r` -/
def Eng.after (e : Eng) (r : DResult) : Eng :=
  { e with keys := { e.keys with buf := r.rest }, prefixed := r.prefixed, active := r.bind }

theorem dispatchKeys_eq (tbl : List (Seq × Bind)) :
    ∀ (n : Nat) (e : Eng) (read matched : Seq) (pfx : Bool),
      e.keys.mkeys = [] → e.keys.buf.length ≤ n →
      dispatchKeys tbl n e read matched pfx =
        (let r := dispatch tbl e.keys.buf read matched pfx e.prefixed e.active
         (e.after r, r.pfx, r.read, r.matched)) := by
  intro n
  induction n with
  | zero =>
    intro e read matched pfx hmk hlen
    have hb : e.keys.buf = [] := List.length_eq_zero_iff.mp (by omega)
    simp [dispatchKeys, hb, dispatch, Eng.after]
    cases e with
    | mk keys p a t em vi cm rg =>
      cases keys with
      | mk buf m mk mw => simp at hb; subst hb; rfl
  | succ n ih =>
    intro e read matched pfx hmk hlen
    cases hb : e.keys.buf with
    | nil =>
      have hp : e.keys.peek = none := by simp [Keys.peek, hb, hmk]
      simp only [dispatchKeys, hp, dispatch, Eng.after]
      cases e with
      | mk keys p a t em vi cm rg =>
        cases keys with
        | mk buf m mk mw => simp at hb; subst hb; rfl
    | cons k ks =>
      have hp : e.keys.peek = some k := by simp [Keys.peek, hb]
      have hpop : e.keys.pop = { e.keys with buf := ks } := by simp [Keys.pop, hb]
      simp only [dispatchKeys, hp, dispatch, hpop]
      split
      · simp [Eng.after]
      · split
        · rw [ih]
          · simp [Eng.after]
          · simpa using hmk
          · simp [hb] at hlen; simpa using hlen
        · simp [Eng.after]

end RLV
