import RLV.Model.Disp
/-! The display functions on a buffer without newline: one line, wrapped. -/
namespace RLV.Disp

theorem splitNL_fold (l : List Nat) (h : 10 ∉ l) : ∀ (a : List (List Nat)) (b : List Nat),
    l.foldl (fun (acc : List (List Nat) × List Nat) c =>
      if c = 10 then (acc.1 ++ [acc.2], []) else (acc.1, acc.2 ++ [c])) (a, b) = (a, b ++ l) := by
  induction l with
  | nil => intro a b; simp
  | cons c t ih =>
    intro a b
    have hc : c ≠ 10 := fun e => h (by simp [e])
    have ht : 10 ∉ t := fun e => h (by simp [e])
    simp only [List.foldl_cons, hc, if_false]
    rw [ih ht]
    simp

theorem splitNL_single (l : List Nat) (h : 10 ∉ l) : splitNL l = [l] := by
  unfold splitNL
  rw [splitNL_fold l h]
  simp

theorem countNL_single (l : List Nat) (h : 10 ∉ l) : countNL l = 0 := by
  unfold countNL
  have : l.filter (· = 10) = [] := by
    rw [List.filter_eq_nil_iff]
    intro a ha
    simp
    intro e; exact h (e ▸ ha)
  rw [this]; rfl

theorem coordsLine_single (w : Nat) (l : List Nat) (indent : Nat) (h : 10 ∉ l) :
    coordsLine w l indent = ((l.length + indent) % w, (l.length + indent) / w) := by
  unfold coordsLine
  rw [splitNL_single l h]
  simp [lineSpan]

theorem newlines_single (l : List Nat) (h : 10 ∉ l) : newlines l = [l.length] := by
  unfold newlines
  rw [List.zipIdx_append]
  rw [List.filter_append]
  have h1 : (l.zipIdx.filter (fun (p : Nat × Nat) => p.1 = 10)) = [] := by
    rw [List.filter_eq_nil_iff]
    intro p hp
    have hm := List.fst_mem_of_mem_zipIdx hp
    simp
    intro e
    exact h (e ▸ hm)
  rw [h1]
  simp


theorem coordsCursor_single (w : Nat) (l : List Nat) (pos indent : Nat) (h : 10 ∉ l) (hp : pos ≤ l.length) :
    coordsCursor w l pos indent = ((pos + indent) % w, (pos + indent) / w) := by
  unfold coordsCursor
  rw [newlines_single l h]
  unfold coordsCursor.go
  have : ¬ l.length < pos := by omega
  simp only [this, if_false, List.drop_zero, Nat.sub_zero]
  simp [lineSpan, List.length_take, Nat.min_eq_left hp]

theorem displayLine_single (w indent : Nat) (l : List Nat) (clr : Bool) (h : 10 ∉ l) :
    displayLine w indent l clr =
      (if l.isEmpty then [] else [.text l]) ++ (if clr then [.el0] else []) := by
  unfold displayLine
  rw [splitNL_single l h]
  cases clr <;> cases l <;> simp

end RLV.Disp
