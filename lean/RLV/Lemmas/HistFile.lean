import RLV.Model.HistFile
namespace RLV.HistFile

theorem splitNL_line (a rest cur : Bytes) (ha : 10 ∉ a) :
    splitNL (a ++ 10 :: rest) cur = (cur.reverse ++ a) :: splitNL rest [] := by
  induction a generalizing cur with
  | nil => simp [splitNL]
  | cons x t ih =>
    have hx : x ≠ 10 := by intro h; apply ha; simp [h]
    have ht : 10 ∉ t := by intro h; apply ha; simp [h]
    simp only [List.cons_append, splitNL, hx, if_false]
    rw [ih (x :: cur) ht]
    simp

theorem splitNL_tail (a cur : Bytes) (ha : 10 ∉ a) :
    splitNL a cur = if cur.reverse ++ a = [] then [] else [cur.reverse ++ a] := by
  induction a generalizing cur with
  | nil => simp [splitNL]
  | cons x t ih =>
    have hx : x ≠ 10 := by intro h; apply ha; simp [h]
    have ht : 10 ∉ t := by intro h; apply ha; simp [h]
    simp only [splitNL, hx, if_false]
    rw [ih (x :: cur) ht]
    simp

theorem splitNL_tail_ne (a : Bytes) (ha : 10 ∉ a) (hne : a ≠ []) : splitNL a [] = [a] := by
  rw [splitNL_tail a [] ha]; simp [hne]

/-- a file made of complete lines: every piece ends with a newline -/
def Complete (file : Bytes) : Prop := file = [] ∨ file.getLast? = some 10

theorem splitNL_append_complete (f g : Bytes) (hf : Complete f) :
    splitNL (f ++ g) [] = splitNL f [] ++ splitNL g [] := by
  -- induction on f with the collected piece generalised
  suffices h : ∀ (f cur : Bytes), (f = [] → cur = []) → (f ≠ [] → f.getLast? = some 10) →
      splitNL (f ++ g) cur = splitNL f cur ++ splitNL g [] by
    rcases hf with rfl | hl
    · simp [splitNL]
    · apply h f [] (fun _ => rfl) (fun _ => hl)
  intro f
  induction f with
  | nil => intro cur h1 _; simp [h1 rfl, splitNL]
  | cons x t ih =>
    intro cur _ h2
    have hl := h2 (by simp)
    by_cases hx : x = 10
    · subst hx
      simp only [List.cons_append, splitNL, if_true]
      by_cases ht : t = []
      · subst ht; simp [splitNL]
      · rw [ih [] (fun h => absurd h ht) (fun _ => by simpa [List.getLast?_cons_cons, ht] using (by
          cases t with
          | nil => exact absurd rfl ht
          | cons y u => simpa [List.getLast?_cons_cons] using hl))]
    · simp only [List.cons_append, splitNL, hx, if_false]
      have ht : t ≠ [] := by
        intro h; subst h; simp at hl; exact hx hl
      rw [ih (x :: cur) (fun h => absurd h ht) (fun _ => by
        cases t with
        | nil => exact absurd rfl ht
        | cons y u => simpa [List.getLast?_cons_cons] using hl)]

end RLV.HistFile

namespace RLV.HistFile

/-- terminating an unterminated last piece does not change the pieces -/
theorem splitNL_terminate : ∀ (g cur : Bytes), cur.reverse ++ g ≠ [] → (cur.reverse ++ g).getLast? ≠ some 10 →
    splitNL (g ++ [10]) cur = splitNL g cur := by
  intro g
  induction g with
  | nil =>
    intro cur h1 _
    have : cur ≠ [] := by intro h; simp [h] at h1
    simp [splitNL, this]
  | cons x t ih =>
    intro cur h1 h2
    by_cases hx : x = 10
    · subst hx
      simp only [List.cons_append, splitNL, if_true]
      have ht : t ≠ [] := by
        intro h; subst h; simp at h2
      have hl : t.getLast? ≠ some 10 := by
        intro h
        apply h2
        cases t with
        | nil => exact absurd rfl ht
        | cons y u => simp [List.getLast?_append, List.getLast?_cons_cons, h]
      rw [ih [] (by simpa using ht) (by simpa using hl)]
    · simp only [List.cons_append, splitNL, hx, if_false]
      apply ih (x :: cur)
      · simp
      · simpa using h2

section
variable {enc : Bytes → Bytes} {dec : Bytes → Option Bytes} {trim : Bytes → Bytes} {V : Bytes → Prop}

theorem complete_append_nl (f : Bytes) : Complete (f ++ [10]) := Or.inr (by simp)

theorem dropCR_enc (L : CodecLaws enc dec V) (b : Bytes) (hb : V b) : dropCR (enc b) = enc b := by
  unfold dropCR
  have h13 := L.noCR b hb
  split
  · rename_i h
    exfalso; apply h13
    exact List.mem_of_getLast? h
  · rfl

/-- the pieces of a complete file followed by one more record -/
theorem openHist_append_record (L : CodecLaws enc dec V) (f : Bytes) (hf : Complete f) (b : Bytes) (hb : V b) (hne : b ≠ []) :
    openHist dec (f ++ enc b ++ [10]) = openHist dec f ++ [b] := by
  unfold openHist
  rw [List.append_assoc, splitNL_append_complete f _ hf]
  have : splitNL (enc b ++ [10]) [] = [enc b] := by
    have := splitNL_line (enc b) [] [] (L.noNL b hb)
    simpa [splitNL] using this
  rw [this, List.filterMap_append]
  simp [dropCR_enc L b hb, L.roundtrip b hb, hne]

/-- APPEND IS DURABLE, whatever is in the file: after `Write` of a non-blank line the reopened
history is what the file gave before, followed by the line — even if the file ends with a torn
record, with garbage, or without a newline. -/
theorem openHist_writeRec (L : CodecLaws enc dec V) (g line : Bytes) (hb : V (trim line)) (hne : trim line ≠ []) :
    openHist dec (writeRec enc trim g line) = openHist dec g ++ [trim line] := by
  unfold writeRec
  simp only [hne, if_false]
  by_cases hc : g ≠ [] ∧ g.getLast? ≠ some 10
  · rw [if_pos hc]
    have h1 := openHist_append_record L (g ++ [10]) (complete_append_nl g) (trim line) hb hne
    rw [h1]
    congr 1
    unfold openHist
    rw [splitNL_terminate g [] (by simpa using hc.1) (by simpa using hc.2)]
  · rw [if_neg hc]
    have hcomp : Complete g := by
      unfold Complete
      by_cases hg : g = []
      · exact Or.inl hg
      · right
        have : ¬ g.getLast? ≠ some 10 := fun h => hc ⟨hg, h⟩
        exact Classical.not_not.mp this
    exact openHist_append_record L g hcomp (trim line) hb hne

/-- a blank line changes nothing -/
theorem writeRec_blank (g line : Bytes) (hb : trim line = []) : writeRec enc trim g line = g := by
  simp [writeRec, hb]

/-- every line successfully written is returned, in order, by a history reopened from the file —
starting from ANY file content -/
theorem openHist_writes (L : CodecLaws enc dec V) (ls : List Bytes) (hv : ∀ l ∈ ls, V (trim l)) : ∀ (g : Bytes),
    openHist dec (writes enc trim g ls) = openHist dec g ++ entries trim ls := by
  induction ls with
  | nil => intro g; simp [writes, entries]
  | cons l ls ih =>
    intro g
    have hv' : ∀ l' ∈ ls, V (trim l') := fun l' h => hv l' (by simp [h])
    simp only [writes, List.foldl_cons]
    have := ih hv' (writeRec enc trim g l)
    simp only [writes] at this
    rw [this]
    by_cases hb : trim l = []
    · rw [writeRec_blank g l hb]
      simp [entries, hb]
    · rw [openHist_writeRec L g l (hv l (by simp)) hb]
      simp [entries, hb]

/-- a file written only through `Write` is made of complete lines -/
theorem complete_writes (ls : List Bytes) : ∀ (g : Bytes), Complete g → Complete (writes enc trim g ls) := by
  induction ls with
  | nil => intro g h; exact h
  | cons l ls ih =>
    intro g hg
    simp only [writes, List.foldl_cons]
    apply ih
    unfold writeRec
    simp only
    split
    · exact hg
    · exact Or.inr (by simp)

/-- the pieces of a complete file followed by a record cut short at byte `k` -/
theorem openHist_cut (L : CodecLaws enc dec V) (f : Bytes) (hf : Complete f) (b : Bytes) (hb : V b) (hne : b ≠ []) (k : Nat)
    (hk : k ≤ (enc b ++ [10]).length) :
    openHist dec (f ++ (enc b ++ [10]).take k) =
      openHist dec f ++ (if (enc b).length ≤ k then [b] else []) := by
  by_cases hfull : (enc b).length + 1 ≤ k
  · -- nothing lost
    have : (enc b ++ [10]).take k = enc b ++ [10] := by
      apply List.take_of_length_le; simp; omega
    rw [this, ← List.append_assoc, openHist_append_record L f hf b hb hne]
    have : (enc b).length ≤ k := by omega
    simp [this]
  · by_cases heq : k = (enc b).length
    · -- the whole record but its newline
      subst heq
      have : (enc b ++ [10]).take (enc b).length = enc b := by simp
      rw [this]
      unfold openHist
      rw [splitNL_append_complete f _ hf, splitNL_tail_ne (enc b) (L.noNL b hb) (L.nonEmpty b hb)]
      simp [dropCR_enc L b hb, L.roundtrip b hb, hne]
    · -- a proper prefix of the record
      have hlt : k < (enc b).length := by simp at hk; omega
      have ht : (enc b ++ [10]).take k = (enc b).take k := by
        rw [List.take_append_of_le_length (by omega)]
      rw [ht]
      have hnl : 10 ∉ (enc b).take k := fun h => L.noNL b hb (List.mem_of_mem_take h)
      have hcr : 13 ∉ (enc b).take k := fun h => L.noCR b hb (List.mem_of_mem_take h)
      have hd : dropCR ((enc b).take k) = (enc b).take k := by
        unfold dropCR
        split
        · rename_i h; exact absurd (List.mem_of_getLast? h) hcr
        · rfl
      unfold openHist
      have hle : ¬ (enc b).length ≤ k := by omega
      simp only [hle, if_false, List.append_nil]
      by_cases hemp : (enc b).take k = []
      · simp [hemp]
      · rw [splitNL_append_complete f _ hf, splitNL_tail_ne _ hnl hemp, List.filterMap_append]
        rcases L.prefixUndecodable b k hb hlt with h | h <;> simp [hd, h]

end
end RLV.HistFile
