import RLV.Model.HistCalls
/-! Walking through the history and accepting lines, over any number of commands and calls: the invariant
that makes the walk show the stored entries (`Inv`), and its preservation by every command. -/
namespace RLV.Hist.Calls
open RLV.Core RLV.Hist

theorem lookup_filter_ne (k k' : Int) (hk : k' ≠ k) : ∀ (l : List (Int × LH)),
    (l.filter (fun e => e.1 != k)).lookup k' = l.lookup k'
  | [] => rfl
  | (a, b) :: t => by
    have ih := lookup_filter_ne k k' hk t
    by_cases ha : a = k
    · subst ha
      have h1 : (k' == a) = false := by simpa using hk
      simp [List.filter_cons, List.lookup_cons, h1, ih]
    · have h2 : (a != k) = true := by simpa using ha
      simp only [List.filter_cons, h2, if_true, List.lookup_cons, ih]

theorem getLH_setLH (s : St) (k : Int) (h : LH) (k' : Int) :
    getLH (setLH s k h) k' = if k' = k then h else getLH s k' := by
  unfold getLH setLH
  by_cases c : k' = k
  · subst c
    simp [List.lookup_cons]
  · have h1 : (k' == k) = false := by simpa using c
    simp only [List.lookup_cons, h1, if_neg c]
    rw [lookup_filter_ne k k' c]

theorem getLH_congr (s t : St) (k : Int) (h : t.lhs = s.lhs) : getLH t k = getLH s k := by
  unfold getLH; rw [h]

/-- the fields `setLH` leaves alone -/
theorem setLH_fields (s : St) (k : Int) (h : LH) :
    (setLH s k h).line = s.line ∧ (setLH s k h).cur = s.cur ∧ (setLH s k h).src = s.src ∧
    (setLH s k h).hpos = s.hpos ∧ (setLH s k h).cpos = s.cpos ∧ (setLH s k h).skip = s.skip ∧
    (setLH s k h).undoing = s.undoing ∧ (setLH s k h).preservePoint = s.preservePoint :=
  ⟨rfl, rfl, rfl, rfl, rfl, rfl, rfl, rfl⟩

theorem lineKey_congr (s t : St) (h1 : t.hpos = s.hpos) (h2 : t.src = s.src) : lineKey t = lineKey s := by
  unfold lineKey; rw [h1, h2]

theorem reset_fields (s : St) :
    (reset s).line = s.line ∧ (reset s).cur = s.cur ∧ (reset s).src = s.src ∧
    (reset s).hpos = s.hpos ∧ (reset s).cpos = s.cpos ∧ (reset s).skip = false ∧
    (reset s).undoing = false ∧ (reset s).preservePoint = s.preservePoint := by
  unfold reset
  simp only
  split <;> simp [setLH]

theorem reset_lhs (s : St) (hu : s.undoing = false) :
    (reset s).lhs = (setLH s (lineKey s) { getLH s (lineKey s) with pos := 0 }).lhs := by
  unfold reset
  simp only [hu, Bool.not_false, if_true]
  rfl

theorem reset_getLH (s : St) (hu : s.undoing = false) (k' : Int) :
    getLH (reset s) k' = if k' = lineKey s then { getLH s (lineKey s) with pos := 0 } else getLH s k' := by
  rw [getLH_congr _ _ k' (reset_lhs s hu), getLH_setLH]

def PosZero (s : St) : Prop := ∀ k, (getLH s k).pos = 0
def Faithful (s : St) : Prop := ∀ k : Int, 0 ≤ k → ∀ it, (getLH s k).items.getLast? = some it →
  k < s.src.length ∧ it.line = s.src.getD k.toNat []
def OnEntry (s : St) : Prop :=
  s.hpos = -1 ∨ (1 ≤ s.hpos ∧ s.hpos ≤ s.src.length ∧ s.line = s.src.getD ((s.src.length : Int) - s.hpos).toNat [])

structure Inv (s : St) : Prop where
  sk : s.skip = false
  und : s.undoing = false
  pz : PosZero s
  fa : Faithful s
  oe : OnEntry s

theorem PosZero_congr (s t : St) (h : t.lhs = s.lhs) (hp : PosZero s) : PosZero t := by
  intro k; rw [getLH_congr s t k h]; exact hp k

theorem Faithful_congr (s t : St) (h : t.lhs = s.lhs) (h2 : t.src = s.src) (hp : Faithful s) : Faithful t := by
  intro k hk it hit
  rw [getLH_congr s t k h] at hit
  rw [h2]
  exact hp k hk it hit

theorem reset_posZero (s : St) (hu : s.undoing = false) (hp : PosZero s) : PosZero (reset s) := by
  intro k
  rw [reset_getLH s hu]
  split
  · rfl
  · exact hp k

theorem reset_items (s : St) (hu : s.undoing = false) (k : Int) : (getLH (reset s) k).items = (getLH s k).items := by
  rw [reset_getLH s hu]
  split
  · rename_i h; rw [h]
  · rfl

theorem reset_faithful (s : St) (hu : s.undoing = false) (hp : Faithful s) : Faithful (reset s) := by
  intro k hk it hit
  rw [reset_items s hu] at hit
  rw [(reset_fields s).2.2.1]
  exact hp k hk it hit

/-- storing an undo history under the key of the current line, then `Reset` -/
theorem after_set (s : St) (h' : LH) (hu : s.undoing = false) (k' : Int) :
    getLH (reset (setLH s (lineKey s) h')) k' = if k' = lineKey s then { h' with pos := 0 } else getLH s k' := by
  have hk : lineKey (setLH s (lineKey s) h') = lineKey s := rfl
  rw [reset_getLH _ (by exact hu), hk, getLH_setLH]
  by_cases c : k' = lineKey s
  · simp only [c, if_true]
  · simp only [c, if_false]
    rw [getLH_setLH, if_neg c]

/-- what `Save` leaves: the state, with the undo history of the current line ending in the buffer -/
def SaveOut (s s' : St) : Prop :=
    s'.line = s.line ∧ s'.cur = s.cur ∧ s'.src = s.src ∧ s'.hpos = s.hpos ∧ s'.cpos = s.cpos ∧
    s'.skip = false ∧ s'.undoing = false ∧ s'.preservePoint = s.preservePoint ∧
    (∀ k', k' ≠ lineKey s → getLH s' k' = getLH s k') ∧
    (getLH s' (lineKey s)).pos = 0 ∧
    (∃ it, (getLH s' (lineKey s)).items.getLast? = some it ∧ it.line = s.line)

/-- what `Save` does when nothing is skipped and no undo is in progress -/
theorem save_spec (s s' : St) (hs : s.skip = false) (hu : s.undoing = false) (hp : PosZero s)
    (h : save s = .ok s') : SaveOut s s' := by
  -- every way out is `reset (setLH s key h')` with `h'` ending in the buffer
  have key : ∀ h' : LH, (∃ it, h'.items.getLast? = some it ∧ it.line = s.line) →
      s' = reset (setLH s (lineKey s) h') → SaveOut s s' := by
    intro h' hl e
    subst e
    obtain ⟨f1, f2, f3, f4, f5, f6, f7, f8⟩ := reset_fields (setLH s (lineKey s) h')
    refine ⟨f1, f2, f3, f4, f5, f6, f7, f8, ?_, ?_, ?_⟩
    · intro k' hk'
      rw [after_set s h' hu, if_neg hk']
    · rw [after_set s h' hu, if_pos rfl]
    · rw [after_set s h' hu, if_pos rfl]
      exact hl
  unfold save at h
  simp only [hs, Bool.false_eq_true, if_false] at h
  have hpos0 : (getLH s (lineKey s)).pos = 0 := hp _
  -- the append path
  have app : saveAppend s (lineKey s) (getLH s (lineKey s)) = .ok s' → SaveOut s s' := by
    intro ha
    unfold saveAppend at ha
    have hlen : ¬ ((getLH s (lineKey s)).pos > ((getLH s (lineKey s)).items.length : Int)) := by rw [hpos0]; omega
    simp only [hpos0] at ha
    have hl0 : ¬ ((0 : Int) > ((getLH s (lineKey s)).items.length : Int)) := by omega
    simp only [hl0, if_false] at ha
    unfold undoneCount at ha
    simp only [show ¬ ((0 : Int) > 0) by omega, if_false] at ha
    unfold saveAppendAt at ha
    have c1 : ¬ (((getLH s (lineKey s)).items.length : Int) - 0 < 0) := by omega
    have c2 : ¬ (((getLH s (lineKey s)).items.length : Int) - 0 > ((getLH s (lineKey s)).items.length : Int)) := by omega
    simp only [c1, c2, if_false] at ha
    split at ha
    · cases ha
    · rename_i cur1 _
      have e := Except.ok.inj ha
      exact key _ ⟨_, List.getLast?_concat, rfl⟩ e.symm
  split at h
  · rename_i it hit
    split at h
    · rename_i hsame
      have e := Except.ok.inj h
      refine key _ ⟨{ it with pos := (checkAppend s.line s.cur).pos }, List.getLast?_concat, hsame⟩ e.symm
    · exact app h
  · exact app h


theorem Inv_congr (s t : St) (h1 : t.lhs = s.lhs) (h2 : t.src = s.src) (h3 : t.hpos = s.hpos) (h4 : t.line = s.line)
    (h5 : t.skip = false) (h6 : t.undoing = false) (hi : Inv s) : Inv t :=
  ⟨h5, h6, PosZero_congr s t h1 hi.pz, Faithful_congr s t h1 h2 hi.fa, by
    have := hi.oe
    unfold OnEntry at this ⊢
    rw [h3, h2, h4]; exact this⟩

theorem lineKey_pos (s : St) (h : -1 < s.hpos) : lineKey s = (s.src.length : Int) - s.hpos := by
  unfold lineKey; rw [if_pos h]

theorem lineKey_neg (s : St) (h : s.hpos = -1) : lineKey s = -1 := by
  unfold lineKey; rw [h]; rfl

theorem save_inv (s s' : St) (hi : Inv s) (h : save s = .ok s') :
    Inv s' ∧ s'.src = s.src ∧ s'.hpos = s.hpos ∧ s'.line = s.line := by
  obtain ⟨f1, _, f3, f4, _, f6, f7, _, g1, g2, it, g3, g4⟩ := save_spec s s' hi.sk hi.und hi.pz h
  refine ⟨⟨f6, f7, ?_, ?_, ?_⟩, f3, f4, f1⟩
  · intro k
    by_cases c : k = lineKey s
    · rw [c]; exact g2
    · rw [g1 k c]; exact hi.pz k
  · intro k hk it' hit
    rw [f3]
    by_cases c : k = lineKey s
    · rw [c] at hit
      rw [g3] at hit
      have e : it = it' := Option.some.inj hit
      subst e
      rcases hi.oe with o | ⟨o1, o2, o3⟩
      · rw [c, lineKey_neg s o] at hk; omega
      · have hk' := lineKey_pos s (by omega)
        rw [c, hk']
        refine ⟨by omega, ?_⟩
        rw [g4, o3]
    · rw [g1 k c] at hit
      exact hi.fa k hk it' hit
  · have := hi.oe
    unfold OnEntry at this ⊢
    rw [f4, f3, f1]; exact this

theorem slcm_fields (s : St) (next : List Nat) :
    (setLineCursorMatch s next).line = next ∧ (setLineCursorMatch s next).src = s.src ∧
    (setLineCursorMatch s next).hpos = s.hpos ∧ (setLineCursorMatch s next).skip = s.skip ∧
    (setLineCursorMatch s next).undoing = s.undoing ∧ (setLineCursorMatch s next).lhs = s.lhs := by
  unfold setLineCursorMatch
  simp only
  refine ⟨?_, ?_, ?_, ?_, ?_, ?_⟩ <;> ((repeat' split) <;> rfl)

theorem getLine_in (src : List (List Nat)) (i : Int) (h0 : 0 ≤ i) (h1 : i < src.length) :
    getLine src i = some (src.getD i.toNat []) := by
  unfold getLine
  have hne : src.isEmpty = false := by
    cases src with
    | nil => simp at h1; omega
    | cons a t => rfl
  simp only [hne, Bool.false_eq_true, if_false]
  have : ¬ (i < 0 ∨ i ≥ src.length) := by omega
  rw [if_neg this]

/-- `Walk` arriving on a history position: the buffer is the stored entry -/
theorem walkTo_on (t : St) (hsk : t.skip = false) (hund : t.undoing = false) (hp : PosZero t) (hf : Faithful t)
    (h1 : 1 ≤ t.hpos) (h2 : t.hpos ≤ t.src.length) : Inv (walkTo t) ∧ (walkTo t).src = t.src := by
  have key : ∀ l : List Nat, l = t.src.getD ((t.src.length : Int) - t.hpos).toNat [] →
      Inv (setLineCursorMatch t l) ∧ (setLineCursorMatch t l).src = t.src := by
    intro l hl
    obtain ⟨a1, a2, a3, a4, a5, a6⟩ := slcm_fields t l
    refine ⟨⟨a4.trans hsk, a5.trans hund, PosZero_congr t _ a6 hp, Faithful_congr t _ a6 a2 hf, ?_⟩, a2⟩
    right
    rw [a3, a2, a1]
    exact ⟨h1, h2, hl⟩
  unfold walkTo
  have c1 : ¬ t.hpos < -1 := by omega
  have c2 : ¬ t.hpos = 0 := by omega
  have c3 : ¬ t.hpos > (t.src.length : Int) := by omega
  simp only [c1, c2, c3, if_false]
  split
  · rename_i it hit
    apply key
    have := hf (lineKey t) (by rw [lineKey_pos t (by omega)]; omega) it hit
    rw [this.2, lineKey_pos t (by omega)]
  · rw [getLine_in t.src _ (by omega) (by omega)]
    exact key _ rfl

/-- `Walk` leaving the history (position −1 or below, or 0): the position is the typed line again -/
theorem walkTo_off (t : St) (hsk : t.skip = false) (hund : t.undoing = false) (hp : PosZero t) (hf : Faithful t)
    (h1 : t.hpos < -1 ∨ t.hpos = 0) : Inv (walkTo t) ∧ (walkTo t).src = t.src := by
  unfold walkTo
  simp only
  rcases h1 with h1 | h1
  · rw [if_pos h1]
    exact ⟨⟨hsk, hund, PosZero_congr t _ rfl hp, Faithful_congr t _ rfl rfl hf, Or.inl rfl⟩, rfl⟩
  · have c1 : ¬ t.hpos < -1 := by omega
    rw [if_neg c1, if_pos h1]
    unfold restoreLineBuffer
    simp only
    split
    · exact ⟨⟨hsk, hund, PosZero_congr t _ rfl hp, Faithful_congr t _ rfl rfl hf, Or.inl rfl⟩, rfl⟩
    · exact ⟨⟨hsk, hund, PosZero_congr t _ rfl hp, Faithful_congr t _ rfl rfl hf, Or.inl rfl⟩, rfl⟩

theorem hpos_range (s : St) (hi : Inv s) : s.hpos = -1 ∨ (1 ≤ s.hpos ∧ s.hpos ≤ s.src.length) := by
  rcases hi.oe with o | ⟨o1, o2, _⟩
  · exact Or.inl o
  · exact Or.inr ⟨o1, o2⟩

theorem walk_up_inv (s s' : St) (hi : Inv s) (h : walk s 1 = .ok s') : Inv s' ∧ s'.src = s.src := by
  unfold walk at h
  simp only [show ¬ ((1 : Int) = 0) by omega, if_false] at h
  split at h
  · cases h; exact ⟨hi, rfl⟩
  split at h
  · cases h; exact ⟨hi, rfl⟩
  rename_i hn hlast
  unfold leaveMain at h
  rcases hpos_range s hi with o | ⟨o1, o2⟩
  · have c : s.hpos = -1 ∧ (1 : Int) > 0 := ⟨o, by omega⟩
    rw [if_pos c] at h
    cases hsv : save { s with skip := false } with
    | error e => rw [hsv] at h; cases h
    | ok t =>
      rw [hsv] at h
      simp only at h
      have hi0 : Inv { s with skip := false } := Inv_congr s _ rfl rfl rfl rfl rfl hi.und hi
      obtain ⟨it, e1, e2, _⟩ := save_inv _ t hi0 hsv
      have e := Except.ok.inj h
      have hsrc : t.src = s.src := e1
      have r := walkTo_on { { t with cpos := -1, hpos := 0 } with hpos := (0 : Int) + 1 } it.sk it.und
        (PosZero_congr t _ rfl it.pz) (Faithful_congr t _ rfl rfl it.fa) (by show (1 : Int) ≤ 0 + 1; omega)
        (by show (0 : Int) + 1 ≤ t.src.length; rw [hsrc]; omega)
      rw [← e]
      exact ⟨r.1, r.2.trans hsrc⟩
  · have c : ¬ (s.hpos = -1 ∧ (1 : Int) > 0) := by omega
    simp only [c, if_false] at h
    have e := Except.ok.inj h
    subst e
    have hlt : s.hpos < s.src.length := by
      have : ¬ (s.hpos = (s.src.length : Int)) := fun x => hlast ⟨x, trivial⟩
      omega
    exact walkTo_on { s with hpos := s.hpos + 1 } hi.sk hi.und (PosZero_congr s _ rfl hi.pz)
      (Faithful_congr s _ rfl rfl hi.fa) (by show 1 ≤ s.hpos + 1; omega) (by show s.hpos + 1 ≤ (s.src.length : Int); omega)

theorem walk_down_inv (s s' : St) (hi : Inv s) (h : walk s (-1) = .ok s') : Inv s' ∧ s'.src = s.src := by
  unfold walk at h
  simp only [show ¬ ((-1 : Int) = 0) by omega, show ¬ ((-1 : Int) = 1) by omega, and_false, if_false] at h
  split at h
  · cases h; exact ⟨hi, rfl⟩
  unfold leaveMain at h
  have c : ¬ (s.hpos = -1 ∧ (-1 : Int) > 0) := by omega
  simp only [c, if_false] at h
  have e := Except.ok.inj h
  subst e
  rcases hpos_range s hi with o | ⟨o1, o2⟩
  · exact walkTo_off { s with hpos := s.hpos + -1 } hi.sk hi.und (PosZero_congr s _ rfl hi.pz)
      (Faithful_congr s _ rfl rfl hi.fa) (Or.inl (by show s.hpos + -1 < -1; omega))
  · by_cases c1 : s.hpos = 1
    · exact walkTo_off { s with hpos := s.hpos + -1 } hi.sk hi.und (PosZero_congr s _ rfl hi.pz)
        (Faithful_congr s _ rfl rfl hi.fa) (Or.inr (by show s.hpos + -1 = 0; omega))
    · exact walkTo_on { s with hpos := s.hpos + -1 } hi.sk hi.und (PosZero_congr s _ rfl hi.pz)
        (Faithful_congr s _ rfl rfl hi.fa) (by show 1 ≤ s.hpos + -1; omega) (by show s.hpos + -1 ≤ (s.src.length : Int); omega)


theorem type_inv (s s' : St) (c : Nat) (hi : Inv s) (h0 : s.hpos = -1) (h : typeChar s c = .ok s') :
    Inv s' ∧ s'.src = s.src := by
  unfold typeChar at h
  simp only [bind, Except.bind, pure, Except.pure] at h
  split at h
  · cases h
  · have e := Except.ok.inj h
    subst e
    exact ⟨⟨hi.sk, hi.und, PosZero_congr s _ rfl hi.pz, Faithful_congr s _ rfl rfl hi.fa, Or.inl h0⟩, rfl⟩

theorem writeOne_out (m : Int) (src : List (List Nat)) (l : List Nat) (x : List (List Nat)) (b : Bool)
    (h : writeOne m src l = .ok (x, b)) : x = src ∨ x = src ++ [l] := by
  unfold writeOne at h
  simp only [bind, Except.bind, pure, Except.pure] at h
  split at h
  · cases h; exact Or.inl rfl
  · split at h
    · split at h
      · cases h; exact Or.inl rfl
      · cases h; exact Or.inr rfl
    · cases h; exact Or.inr rfl

theorem getD_append_lt (a b : List (List Nat)) (k : Nat) (h : k < a.length) : (a ++ b).getD k [] = a.getD k [] := by
  simp [List.getD_eq_getElem?_getD, List.getElem?_append_left h]

/-- the source grows at its end only: the positions of the stored entries do not move -/
theorem faithful_grow (s : St) (src' : List (List Nat)) (hs : src' = s.src ∨ src' = s.src ++ [s.line])
    (hf : Faithful s) : Faithful { s with src := src' } := by
  intro k hk it hit
  have hit' : (getLH s k).items.getLast? = some it := hit
  obtain ⟨a, b⟩ := hf k hk it hit'
  rcases hs with e | e
  · rw [e]; exact ⟨a, b⟩
  · show k < (src'.length : Int) ∧ it.line = src'.getD k.toNat []
    rw [e]
    refine ⟨by simp; omega, ?_⟩
    rw [getD_append_lt _ _ _ (by omega)]
    exact b

theorem accept_tail_inv (s s' : St) (src' : List (List Nat)) (hi : Inv s)
    (hs : src' = s.src ∨ src' = s.src ++ [s.line])
    (h : save (setLH { reset ({ saveAccepted { s with src := src' } with line := [], cur := ⟨0, -1⟩ } : St) with hpos := -1, cpos := -1 } (-1) {}) = .ok s') :
    Inv s' ∧ s'.src = src' := by
  -- s1: `Save` of the accepted line: `Reset` only
  have f0 : Faithful { s with src := src' } := faithful_grow s src' hs hi.fa
  have p0 : PosZero { s with src := src' } := PosZero_congr s _ rfl hi.pz
  have u0 : ({ s with src := src' } : St).undoing = false := hi.und
  have p1 := reset_posZero _ u0 p0
  have f1 := reset_faithful _ u0 f0
  obtain ⟨_, _, r3, _, _, _, r7, _⟩ := reset_fields { s with src := src' }
  -- s2, s3
  have u2 : ({ saveAccepted { s with src := src' } with line := [], cur := ⟨0, -1⟩ } : St).undoing = false := r7
  have p2 : PosZero ({ saveAccepted { s with src := src' } with line := [], cur := ⟨0, -1⟩ } : St) := PosZero_congr _ _ rfl p1
  have f2 : Faithful ({ saveAccepted { s with src := src' } with line := [], cur := ⟨0, -1⟩ } : St) := Faithful_congr _ _ rfl rfl f1
  have p3 := reset_posZero _ u2 p2
  have f3 := reset_faithful _ u2 f2
  obtain ⟨_, _, q3, _, _, q6, q7, _⟩ := reset_fields ({ saveAccepted { s with src := src' } with line := [], cur := ⟨0, -1⟩ } : St)
  -- s4
  have i4 : Inv (setLH { reset ({ saveAccepted { s with src := src' } with line := [], cur := ⟨0, -1⟩ } : St) with hpos := -1, cpos := -1 } (-1) {}) := by
    refine ⟨q6, q7, ?_, ?_, Or.inl rfl⟩
    · intro k
      rw [getLH_setLH]
      split
      · rfl
      · exact p3 k
    · intro k hk it hit
      rw [getLH_setLH, if_neg (by omega)] at hit
      exact f3 k hk it hit
  obtain ⟨i5, e1, _, _⟩ := save_inv _ s' i4 h
  refine ⟨i5, ?_⟩
  rw [e1]
  show (reset ({ saveAccepted { s with src := src' } with line := [], cur := ⟨0, -1⟩ } : St)).src = src'
  rw [q3]
  exact r3

theorem accept_inv (m : Int) (s s' : St) (hi : Inv s) (h : acceptAndNextCall m s = .ok s') :
    Inv s' ∧ (s'.src = s.src ∨ s'.src = s.src ++ [s.line]) := by
  unfold acceptAndNextCall at h
  simp only [bind, Except.bind, pure, Except.pure] at h
  split at h
  · cases h
  · rename_i src' hsrc
    have hs : src' = s.src ∨ src' = s.src ++ [s.line] := by
      split at hsrc
      · exact Or.inl (Except.ok.inj hsrc).symm
      · split at hsrc
        · cases hsrc
        · rename_i v hv
          have e := Except.ok.inj hsrc
          obtain ⟨x, b⟩ := v
          exact e ▸ writeOne_out m s.src s.line x b hv
    obtain ⟨a, b⟩ := accept_tail_inv s s' src' hi hs h
    exact ⟨a, b ▸ hs⟩

/-- a match found by the loop of `Sources.match` is a valid index of the source -/
theorem matchLoop_in_range (src : List (List Nat)) (hne : src ≠ []) (cline : List Nat) (fwd regex : Bool) :
    ∀ (f : Nat) (p r : Int), matchLoop src cline fwd regex f p = some r → 0 ≤ r ∧ r < src.length := by
  intro f
  induction f with
  | zero => intro p r h; simp [matchLoop] at h
  | succ f ih =>
    intro p r h
    unfold matchLoop at h
    by_cases hm : moreToSee fwd p src.length = true
    · simp only [hm, if_true] at h
      cases hg : getLine src (nextPos fwd p) with
      | none => simp [hg] at h
      | some hl =>
        simp only [hg] at h
        by_cases hmt : lineMatches regex (utf8 hl) cline = true
        · simp only [hmt, if_true] at h
          injection h with h
          subst h
          unfold getLine at hg
          have he : src.isEmpty = false := by
            cases hs : src with
            | nil => exact absurd hs hne
            | cons _ _ => rfl
          simp only [he, Bool.false_eq_true, if_false] at hg
          by_cases hr : nextPos fwd p < 0 ∨ nextPos fwd p ≥ (src.length : Int)
          · simp [hr] at hg
          · omega
        · simp only [hmt, Bool.false_eq_true, if_false] at h
          exact ih _ _ h
    · simp only [hm, Bool.false_eq_true, if_false] at h
      cases h

theorem insertMatch_inv (s : St) (ml : List Nat) (mp : Int) (fwd regex : Bool) (hi : Inv s) :
    Inv (insertMatch s ml mp true fwd regex) ∧ (insertMatch s ml mp true fwd regex).src = s.src := by
  have base : ∀ t : St, t.lhs = s.lhs → t.src = s.src → t.skip = s.skip → t.undoing = s.undoing → OnEntry t → Inv t :=
    fun t a b c d e => ⟨c.trans hi.sk, d.trans hi.und, PosZero_congr s t a hi.pz, Faithful_congr s t a b hi.fa, e⟩
  unfold insertMatch
  simp only
  by_cases c0 : (fwd = true ∧ s.hpos ≤ -1)
  · rw [if_pos c0]
    exact ⟨base _ rfl rfl rfl rfl (Or.inl rfl), rfl⟩
  rw [if_neg c0]
  split
  · split
    · unfold restoreLineBuffer
      simp only
      split
      · exact ⟨base _ rfl rfl rfl rfl (Or.inl rfl), rfl⟩
      · exact ⟨base _ rfl rfl rfl rfl (Or.inl rfl), rfl⟩
    · exact ⟨hi, rfl⟩
  · rename_i p hm
    have hne : s.src ≠ [] := by
      intro e
      rw [e] at hm
      -- an empty source: the loop is not entered going backward from 0, and going forward the position
      -- is on the typed line (excluded above)
      rcases hpos_range s hi with o | ⟨o1, o2⟩
      · cases fwd
        · simp [o, matchLoop, moreToSee] at hm
        · exact c0 ⟨rfl, by omega⟩
      · rw [e] at o2; simp at o2; omega
    obtain ⟨r0, r1⟩ := matchLoop_in_range s.src hne _ fwd regex _ _ p hm
    have oe : ∀ (c : Cur), OnEntry ({ s with hpos := (s.src.length : Int) - p, line := s.src.getD p.toNat [], cur := c } : St) := by
      intro c
      right
      refine ⟨by show 1 ≤ (s.src.length : Int) - p; omega, by show (s.src.length : Int) - p ≤ s.src.length; omega, ?_⟩
      show s.src.getD p.toNat [] = s.src.getD ((s.src.length : Int) - ((s.src.length : Int) - p)).toNat []
      have : (s.src.length : Int) - ((s.src.length : Int) - p) = p := by omega
      rw [this]
    split
    · exact ⟨base _ rfl rfl rfl rfl (oe _), rfl⟩
    · exact ⟨base _ rfl rfl rfl rfl (oe _), rfl⟩

theorem searchLine_inv (s t : St) (ml : List Nat) (mp : Int) (hi : Inv s) (h : searchLine s = .ok (t, ml, mp)) :
    Inv t ∧ t.src = s.src := by
  unfold searchLine at h
  simp only [bind, Except.bind, pure, Except.pure] at h
  have tail : ∀ u : St, Inv u → u.src = s.src →
      (match (getLH u (-1)).items.getLast? with
        | some w => (Except.ok (u, w.line, (curSet w.line ⟨0, -1⟩ w.pos).pos) : G (St × List Nat × Int))
        | none => Except.ok (u, [], 0)) = .ok (t, ml, mp) → Inv t ∧ t.src = s.src := by
    intro u iu eu hh
    split at hh
    · have e := Except.ok.inj hh
      have : u = t := congrArg Prod.fst e
      subst this; exact ⟨iu, eu⟩
    · have e := Except.ok.inj hh
      have : u = t := congrArg Prod.fst e
      subst this; exact ⟨iu, eu⟩
  by_cases c : s.hpos = -1
  · rw [if_pos c] at h
    cases hsv : save { s with skip := false } with
    | error e => rw [hsv] at h; cases h
    | ok t1 =>
      rw [hsv] at h
      simp only at h
      have hi0 : Inv { s with skip := false } := Inv_congr s _ rfl rfl rfl rfl rfl hi.und hi
      obtain ⟨i1, e1, _, _⟩ := save_inv _ t1 hi0 hsv
      have i2 : Inv { t1 with skip := s.skip } := Inv_congr t1 _ rfl rfl rfl rfl hi.sk i1.und i1
      exact tail _ i2 e1 h
  · rw [if_neg c] at h
    exact tail s hi rfl h

theorem search_inv (s s' : St) (fwd regex : Bool) (hi : Inv s) (h : searchCmd s fwd regex = .ok s') :
    Inv s' ∧ s'.src = s.src := by
  unfold searchCmd at h
  simp only [bind, Except.bind, pure, Except.pure] at h
  cases h1 : save s with
  | error e => rw [h1] at h; cases h
  | ok s1 =>
    rw [h1] at h; simp only at h
    obtain ⟨i1, e1, _, _⟩ := save_inv s s1 hi h1
    cases h2 : searchLine s1 with
    | error e => rw [h2] at h; cases h
    | ok v =>
      obtain ⟨s2, ml, mp⟩ := v
      rw [h2] at h; simp only at h
      obtain ⟨i2, e2⟩ := searchLine_inv s1 s2 ml mp i1 h2
      have e := Except.ok.inj h
      subst e
      obtain ⟨i3, e3⟩ := insertMatch_inv s2 ml mp fwd regex i2
      exact ⟨i3, by rw [e3, e2, e1]⟩

theorem step_inv (m : Int) (s s' : St) (op : HOp) (hi : Inv s) (h : stepUnedited m s op = .ok s') :
    Inv s' ∧ ∃ more, s'.src = s.src ++ more := by
  cases op with
  | up =>
    simp only [stepUnedited, bind, Except.bind] at h
    cases h1 : save s with
    | error e => rw [h1] at h; cases h
    | ok s1 =>
      rw [h1] at h; simp only at h
      obtain ⟨i1, e1, _, _⟩ := save_inv s s1 hi h1
      cases h2 : walk s1 1 with
      | error e => rw [h2] at h; cases h
      | ok s2 =>
        rw [h2] at h; simp only at h
        obtain ⟨i2, e2⟩ := walk_up_inv s1 s2 i1 h2
        obtain ⟨i3, e3, _, _⟩ := save_inv s2 s' i2 h
        exact ⟨i3, [], by rw [e3, e2, e1]; simp⟩
  | down =>
    simp only [stepUnedited, bind, Except.bind] at h
    cases h1 : save s with
    | error e => rw [h1] at h; cases h
    | ok s1 =>
      rw [h1] at h; simp only at h
      obtain ⟨i1, e1, _, _⟩ := save_inv s s1 hi h1
      cases h2 : walk s1 (-1) with
      | error e => rw [h2] at h; cases h
      | ok s2 =>
        rw [h2] at h; simp only at h
        obtain ⟨i2, e2⟩ := walk_down_inv s1 s2 i1 h2
        obtain ⟨i3, e3, _, _⟩ := save_inv s2 s' i2 h
        exact ⟨i3, [], by rw [e3, e2, e1]; simp⟩
  | type c =>
    simp only [stepUnedited] at h
    split at h
    · cases h
    · rename_i h0
      have h0' : s.hpos = -1 := by
        by_cases x : s.hpos = -1
        · exact x
        · exact absurd x h0
      simp only [bind, Except.bind] at h
      cases h1 : typeChar s c with
      | error e => rw [h1] at h; cases h
      | ok s1 =>
        rw [h1] at h; simp only at h
        obtain ⟨i1, e1⟩ := type_inv s s1 c hi h0' h1
        obtain ⟨i3, e3, _, _⟩ := save_inv s1 s' i1 h
        exact ⟨i3, [], by rw [e3, e1]; simp⟩
  | accept =>
    simp only [stepUnedited, bind, Except.bind] at h
    cases h1 : acceptAndNextCall m s with
    | error e => rw [h1] at h; cases h
    | ok s1 =>
      rw [h1] at h; simp only at h
      obtain ⟨i1, e1⟩ := accept_inv m s s1 hi h1
      obtain ⟨i3, e3, _, _⟩ := save_inv s1 s' i1 h
      rcases e1 with e1 | e1
      · exact ⟨i3, [], by rw [e3, e1]; simp⟩
      · exact ⟨i3, [s.line], by rw [e3, e1]⟩
  | search fwd regex =>
    simp only [stepUnedited, bind, Except.bind] at h
    cases h1 : searchCmd s fwd regex with
    | error e => rw [h1] at h; cases h
    | ok s1 =>
      rw [h1] at h; simp only at h
      obtain ⟨i1, e1⟩ := search_inv s s1 fwd regex hi h1
      obtain ⟨i3, e3, _, _⟩ := save_inv s1 s' i1 h
      exact ⟨i3, [], by rw [e3, e1]; simp⟩

theorem run_inv (m : Int) : ∀ (ops : List HOp) (s s' : St), Inv s → runUnedited m s ops = .ok s' →
    Inv s' ∧ ∃ more, s'.src = s.src ++ more
  | [], s, s', hi, h => by
    have e := Except.ok.inj h
    subst e
    exact ⟨hi, [], by simp⟩
  | op :: ops, s, s', hi, h => by
    simp only [runUnedited, bind, Except.bind] at h
    cases h1 : stepUnedited m s op with
    | error e => rw [h1] at h; cases h
    | ok s1 =>
      rw [h1] at h; simp only at h
      obtain ⟨i1, m1, e1⟩ := step_inv m s s1 op hi h1
      obtain ⟨i2, m2, e2⟩ := run_inv m ops s1 s' i1 h
      exact ⟨i2, m1 ++ m2, by rw [e2, e1, List.append_assoc]⟩

theorem inv_start (src : List (List Nat)) : Inv { src := src } :=
  ⟨rfl, rfl, fun _ => rfl, fun k _ it hit => by simp [getLH] at hit, Or.inl rfl⟩

end RLV.Hist.Calls
