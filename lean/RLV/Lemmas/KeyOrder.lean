import RLV.Lemmas.KeyCount
/-! The measure that decreases along the iterations of the main loop that do not read the terminal
(C01), and the relations between key stacks the stages of an iteration establish.

`m3 k`, compared lexicographically:
* while no key fed by a macro has been used since the last read (`fromMacro = false`):
  `(1, typed keys left, 1 if nothing has been fed yet else 0)` — keys fed in that phase are not counted,
  but they can only be fed, never taken;
* afterwards: `(0, feeds still allowed, keys left)` — every feed that adds keys uses up one of the
  `maxNested` feeds, every dispatch takes a key. -/
namespace RLV

def m3 (k : Keys) : Nat × Nat × Nat :=
  if k.fromMacro then (0, Keys.maxNested + 1 - k.nested, k.pending)
  else (1, k.buf.length, if k.mkeys.isEmpty then 1 else 0)

def lt3 (a b : Nat × Nat × Nat) : Prop :=
  a.1 < b.1 ∨ (a.1 = b.1 ∧ (a.2.1 < b.2.1 ∨ (a.2.1 = b.2.1 ∧ a.2.2 < b.2.2)))

def le3 (a b : Nat × Nat × Nat) : Prop := lt3 a b ∨ a = b

theorem lt3_trans {a b c : Nat × Nat × Nat} (h1 : lt3 a b) (h2 : lt3 b c) : lt3 a c := by
  unfold lt3 at *; omega

theorem lt3_of_lt3_of_le3 {a b c : Nat × Nat × Nat} (h1 : lt3 a b) (h2 : le3 b c) : lt3 a c := by
  rcases h2 with h | h
  · exact lt3_trans h1 h
  · rw [← h]; exact h1

theorem lt3_of_le3_of_lt3 {a b c : Nat × Nat × Nat} (h1 : le3 a b) (h2 : lt3 b c) : lt3 a c := by
  rcases h1 with h | h
  · exact lt3_trans h h2
  · rw [h]; exact h2

theorem le3_trans {a b c : Nat × Nat × Nat} (h1 : le3 a b) (h2 : le3 b c) : le3 a c := by
  rcases h1 with h | h
  · exact Or.inl (lt3_of_lt3_of_le3 h h2)
  · rw [h]; exact h2

theorem le3_refl (a : Nat × Nat × Nat) : le3 a a := Or.inr rfl

/-- the counter of feeds is only meaningful once macro keys are in use: before, it is within bounds
(`WaitAvailableKeys` resets it together with the flag) -/
def Keys.Inv (k : Keys) : Prop := k.fromMacro = false → k.nested ≤ Keys.maxNested

/-- keys were taken and all pushed back in front of the typed keys: nothing consumed -/
structure Returned (k k' : Keys) : Prop where
  nested : k'.nested = k.nested
  pend : k'.pending = k.pending
  flagUp : k.fromMacro = true → k'.fromMacro = true
  same : k'.fromMacro = false → k'.buf.length = k.buf.length ∧ k'.mkeys.length = k.mkeys.length

/-- at least one key was consumed, the others possibly pushed back -/
structure Consumed (k k' : Keys) : Prop where
  nested : k'.nested = k.nested
  pend : k'.pending < k.pending
  flagUp : k.fromMacro = true → k'.fromMacro = true
  same : k'.fromMacro = false → k'.buf.length < k.buf.length ∧ k'.mkeys.length = k.mkeys.length

/-- all the keys were read as a proper prefix and pushed back: the next `WaitAvailableKeys` reads the
terminal unless keys are fed in between -/
structure Pushed (k k' : Keys) : Prop extends Returned k k' where
  wait : k'.mustWait = true
  nomk : k'.mkeys = []

theorem Returned.refl (k : Keys) : Returned k k := ⟨rfl, rfl, id, fun _ => ⟨rfl, rfl⟩⟩

theorem isEmpty_iff_length {α : Type} (l : List α) : l.isEmpty = true ↔ l.length = 0 := by
  cases l <;> simp

theorem Returned.le {k k' : Keys} (h : Returned k k') : le3 (m3 k') (m3 k) := by
  have h1 := h.nested; have h2 := h.pend; have h3 := h.flagUp; have h4 := h.same
  unfold m3
  cases hf' : k'.fromMacro <;> cases hf : k.fromMacro <;> simp only [Bool.false_eq_true, if_false, if_true]
  · obtain ⟨hb, hm⟩ := h4 hf'
    right
    have : k'.mkeys.isEmpty = k.mkeys.isEmpty := by
      cases h5 : k'.mkeys <;> cases h6 : k.mkeys <;> simp_all
    rw [hb, this]
  · exact absurd (h3 hf) (by simp [hf'])
  · left; unfold lt3; simp
  · right; rw [h1, h2]

theorem Consumed.lt {k k' : Keys} (h : Consumed k k') : lt3 (m3 k') (m3 k) := by
  have h1 := h.nested; have h2 := h.pend; have h3 := h.flagUp; have h4 := h.same
  unfold m3
  cases hf' : k'.fromMacro <;> cases hf : k.fromMacro <;> simp only [Bool.false_eq_true, if_false, if_true]
  · obtain ⟨hb, hm⟩ := h4 hf'
    unfold lt3; simp; omega
  · exact absurd (h3 hf) (by simp [hf'])
  · unfold lt3; simp
  · unfold lt3; simp; omega

theorem Returned.inv {k k' : Keys} (h : Returned k k') (hi : k.Inv) : k'.Inv := by
  intro hf
  rw [h.nested]
  apply hi
  cases hk : k.fromMacro
  · rfl
  · have := h.flagUp hk; rw [hf] at this; cases this

theorem Consumed.inv {k k' : Keys} (h : Consumed k k') (hi : k.Inv) : k'.Inv := by
  intro hf
  rw [h.nested]
  apply hi
  cases hk : k.fromMacro
  · rfl
  · have := h.flagUp hk; rw [hf] at this; cases this

theorem Returned.trans {a b c : Keys} (h1 : Returned a b) (h2 : Returned b c) : Returned a c := by
  refine ⟨by rw [h2.nested, h1.nested], by rw [h2.pend, h1.pend], fun h => h2.flagUp (h1.flagUp h), ?_⟩
  intro hc
  have hb : b.fromMacro = false := by
    cases hb : b.fromMacro
    · rfl
    · have := h2.flagUp hb; rw [hc] at this; cases this
  obtain ⟨x1, x2⟩ := h2.same hc
  obtain ⟨y1, y2⟩ := h1.same hb
  exact ⟨by omega, by omega⟩

theorem Returned.consumed {a b c : Keys} (h1 : Returned a b) (h2 : Consumed b c) : Consumed a c := by
  refine ⟨by rw [h2.nested, h1.nested], by have := h2.pend; have := h1.pend; omega,
    fun h => h2.flagUp (h1.flagUp h), ?_⟩
  intro hc
  have hb : b.fromMacro = false := by
    cases hb : b.fromMacro
    · rfl
    · have := h2.flagUp hb; rw [hc] at this; cases this
  obtain ⟨x1, x2⟩ := h2.same hc
  obtain ⟨y1, y2⟩ := h1.same hb
  exact ⟨by omega, by omega⟩

theorem Consumed.returned {a b c : Keys} (h1 : Consumed a b) (h2 : Returned b c) : Consumed a c := by
  refine ⟨by rw [h2.nested, h1.nested], by have := h2.pend; have := h1.pend; omega,
    fun h => h2.flagUp (h1.flagUp h), ?_⟩
  intro hc
  have hb : b.fromMacro = false := by
    cases hb : b.fromMacro
    · rfl
    · have := h2.flagUp hb; rw [hc] at this; cases this
  obtain ⟨x1, x2⟩ := h2.same hc
  obtain ⟨y1, y2⟩ := h1.same hb
  exact ⟨by omega, by omega⟩

/-- taking `j ≥ 1` keys and pushing `r < j` of them back in front of the typed keys -/
theorem consumed_of_pop {j r : Nat} {k k1 k' : Keys} (h : PopRel j k k1) (hr : r < j)
    (hb : k'.buf.length = r + k1.buf.length) (hm : k'.mkeys = k1.mkeys)
    (hn : k'.nested = k1.nested) (hf : k'.fromMacro = k1.fromMacro) : Consumed k k' := by
  have hp := h.pending
  have h1 := h.buf; have h2 := h.mks; have h3 := h.flag
  refine ⟨by rw [hn, h.nested], by unfold Keys.pending at *; rw [hb, hm]; omega, ?_, ?_⟩
  · intro hk; rw [hf, h3, hk]; rfl
  · intro hk
    rw [hf, h3] at hk
    have : ¬ k.buf.length < j := by
      intro hlt; simp [hlt] at hk
    rw [hb, hm]
    exact ⟨by omega, by omega⟩

/-- taking `j` keys and pushing all of them back -/
theorem returned_of_pop {j : Nat} {k k1 k' : Keys} (h : PopRel j k k1)
    (hb : k'.buf.length = j + k1.buf.length) (hm : k'.mkeys = k1.mkeys)
    (hn : k'.nested = k1.nested) (hf : k'.fromMacro = k1.fromMacro) : Returned k k' := by
  have hp := h.pending
  have h1 := h.buf; have h2 := h.mks; have h3 := h.flag
  refine ⟨by rw [hn, h.nested], by unfold Keys.pending at *; rw [hb, hm]; omega, ?_, ?_⟩
  · intro hk; rw [hf, h3, hk]; rfl
  · intro hk
    rw [hf, h3] at hk
    have : ¬ k.buf.length < j := by
      intro hlt; simp [hlt] at hk
    rw [hb, hm]
    exact ⟨by omega, by omega⟩

end RLV

namespace RLV

/-- what `Shell.run` may do to the key stack (bind macros and commands: keys are taken, keys are fed) -/
structure RunRel (k k' : Keys) : Prop where
  inv : k.Inv → k'.Inv
  le : k.Inv → le3 (m3 k') (m3 k)
  wait : k'.mustWait = k.mustWait
  flagUp : k.fromMacro = true → k'.fromMacro = true
  bufle : k'.buf.length ≤ k.buf.length
  /-- keys fed while none were waiting in the macro queue are paid for -/
  fresh : k.Inv → k.mkeys = [] → k'.mkeys ≠ [] → lt3 (m3 k') (m3 k)

theorem RunRel.refl (k : Keys) : RunRel k k :=
  ⟨id, fun _ => le3_refl _, rfl, id, Nat.le_refl _, fun _ h1 h2 => absurd h1 h2⟩

theorem RunRel.trans {a b c : Keys} (h1 : RunRel a b) (h2 : RunRel b c) : RunRel a c := by
  refine ⟨fun h => h2.inv (h1.inv h), fun h => le3_trans (h2.le (h1.inv h)) (h1.le h),
    by rw [h2.wait, h1.wait], fun h => h2.flagUp (h1.flagUp h), Nat.le_trans h2.bufle h1.bufle, ?_⟩
  intro hi ha hc
  by_cases hb : b.mkeys = []
  · exact lt3_of_lt3_of_le3 (h2.fresh (h1.inv hi) hb hc) (h1.le hi)
  · exact lt3_of_le3_of_lt3 (h2.le (h1.inv hi)) (h1.fresh hi ha hb)

/-- the stack as the loop sees it: `matched` is not looked at -/
def Keys.SameQueues (k k' : Keys) : Prop :=
  k'.buf = k.buf ∧ k'.mkeys = k.mkeys ∧ k'.mustWait = k.mustWait ∧ k'.fromMacro = k.fromMacro ∧ k'.nested = k.nested

theorem RunRel.of_same {k k' : Keys} (h : k.SameQueues k') : RunRel k k' := by
  obtain ⟨h1, h2, h3, h4, h5⟩ := h
  have hm : m3 k' = m3 k := by unfold m3 Keys.pending; rw [h1, h2, h4, h5]
  refine ⟨?_, fun _ => Or.inr hm, h3, (fun h => by rw [h4]; exact h), by rw [h1]; exact Nat.le_refl _, fun _ ha hc => absurd (h2 ▸ ha) hc⟩
  intro hi hf
  rw [h5]; apply hi; rw [← h4]; exact hf

theorem RunRel.pop (k : Keys) : RunRel k k.pop := by
  unfold Keys.pop
  cases hb : k.buf with
  | cons a t =>
    simp only
    refine ⟨fun hi => hi, fun _ => Or.inl ?_, rfl, id, by simp [hb], fun _ h1 h2 => absurd h1 h2⟩
    unfold m3 lt3 Keys.pending
    cases k.fromMacro <;> simp [hb]
  | nil =>
    cases hm : k.mkeys with
    | nil => simp only; exact RunRel.refl _
    | cons a t =>
      simp only
      refine ⟨(fun _ h => by simp at h), fun _ => Or.inl ?_, rfl, fun _ => rfl, by simp [hb], (fun _ h1 _ => by simp [hm] at h1)⟩
      unfold m3 lt3 Keys.pending
      cases k.fromMacro <;> simp [hb, hm]

theorem RunRel.popN (k : Keys) : ∀ n, RunRel k (Keys.popN n k) := by
  intro n
  induction n generalizing k with
  | zero => exact RunRel.refl _
  | succ n ih => exact RunRel.trans (RunRel.pop k) (ih k.pop)

/-- a feed, described by its effect -/
theorem RunRel.of_feed {k k' : Keys} (hb : k'.buf = k.buf) (hw : k'.mustWait = k.mustWait)
    (hfl : k'.fromMacro = k.fromMacro)
    (h : (k.fromMacro = false ∧ k'.nested = k.nested ∧
            (k.nested ≤ Keys.maxNested → ∃ ks, ks ≠ [] ∧ k'.mkeys = k.mkeys ++ ks))
      ∨ (k.fromMacro = true ∧ k'.nested = k.nested + 1 ∧
            ((k.nested + 1 > Keys.maxNested ∧ k'.mkeys = []) ∨
             (k.nested + 1 ≤ Keys.maxNested ∧ ∃ ks, ks ≠ [] ∧ k'.mkeys = k.mkeys ++ ks)))) :
    RunRel k k' := by
  have happ : ∀ ks : List Nat, ks ≠ [] → (k.mkeys ++ ks).isEmpty = false := by
    intro ks hks
    cases h : k.mkeys ++ ks with
    | nil => simp at h; exact absurd h.2 hks
    | cons _ _ => rfl
  rcases h with ⟨hf, hn, hm⟩ | ⟨hf, hn, hm⟩
  · -- not counted
    have hf' : k'.fromMacro = false := by rw [hfl, hf]
    refine ⟨(fun hi _ => by rw [hn]; exact hi hf), ?_, hw, (fun h => by rw [hf] at h; cases h), by rw [hb]; exact Nat.le_refl _, ?_⟩
    · intro hi
      obtain ⟨ks, hks, hmk⟩ := hm (hi hf)
      unfold m3 le3 lt3
      simp only [hf, hf', Bool.false_eq_true, if_false, hb, hmk, happ ks hks]
      cases k.mkeys.isEmpty <;> simp
    · intro hi hmk0 _
      obtain ⟨ks, hks, hmk⟩ := hm (hi hf)
      unfold m3 lt3
      simp only [hf, hf', Bool.false_eq_true, if_false, hb, hmk, hmk0]
      simp [hks]
  · -- counted
    have hf' : k'.fromMacro = true := by rw [hfl, hf]
    rcases hm with ⟨hgt, hmk⟩ | ⟨hle, ks, hks, hmk⟩
    · refine ⟨(fun _ h => by rw [hf'] at h; cases h), fun _ => ?_, hw, fun _ => hf', by rw [hb]; exact Nat.le_refl _, fun _ _ h => absurd hmk h⟩
      unfold m3 le3 lt3 Keys.pending
      simp only [hf, hf', if_true, hb, hmk, hn, List.length_nil, Nat.add_zero]
      by_cases h1 : k.nested ≤ Keys.maxNested
      · left; right; refine ⟨trivial, Or.inl ?_⟩; omega
      · by_cases h2 : k.mkeys.length = 0
        · right
          have e1 : Keys.maxNested + 1 - (k.nested + 1) = Keys.maxNested + 1 - k.nested := by omega
          rw [e1, h2]; rfl
        · left; right; refine ⟨trivial, Or.inr ⟨?_, ?_⟩⟩ <;> omega
    · have hlt : lt3 (m3 k') (m3 k) := by
        unfold m3 lt3 Keys.pending
        simp only [hf, hf', if_true, hn]
        right; refine ⟨trivial, Or.inl ?_⟩; omega
      exact ⟨(fun _ h => by rw [hf'] at h; cases h), fun _ => Or.inl hlt, hw, fun _ => hf', by rw [hb]; exact Nat.le_refl _, fun _ _ _ => hlt⟩

theorem RunRel.feed (k : Keys) (ks : List Nat) : RunRel k (k.feed ks) := by
  unfold Keys.feed
  by_cases hks : ks.isEmpty = true
  · simp only [hks, if_true]; exact RunRel.refl _
  · simp only [hks, Bool.false_eq_true, if_false]
    have hne : ks ≠ [] := by intro h; rw [h] at hks; simp at hks
    by_cases hf : k.fromMacro = true
    · simp only [hf, if_true]
      by_cases hn : k.nested + 1 > Keys.maxNested
      · simp only [hn, if_true]
        exact RunRel.of_feed rfl rfl hf.symm (Or.inr ⟨hf, rfl, Or.inl ⟨hn, rfl⟩⟩)
      · simp only [hn, if_false]
        exact RunRel.of_feed rfl rfl hf.symm (Or.inr ⟨hf, rfl, Or.inr ⟨by omega, ks, hne, rfl⟩⟩)
    · have hf0 : k.fromMacro = false := by cases h : k.fromMacro <;> simp_all
      simp only [hf0, Bool.false_eq_true, if_false]
      by_cases hn : k.nested > Keys.maxNested
      · simp only [hn, if_true]
        exact RunRel.of_feed rfl rfl hf0.symm (Or.inl ⟨hf0, rfl, fun h => absurd h (by omega)⟩)
      · simp only [hn, if_false]
        exact RunRel.of_feed rfl rfl hf0.symm (Or.inl ⟨hf0, rfl, fun _ => ⟨ks, hne, rfl⟩⟩)

end RLV
