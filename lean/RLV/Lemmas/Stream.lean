import RLV.Model.Keys
import RLV.Lemmas.DispatchProgress
/-! The whole stream of typed keys, dispatch after dispatch (C05): what the main loop does with the key
stack when no local keymap is active and nothing feeds keys — dispatch the pending keys; on a prefix push
them all back and wait for the next read; otherwise run the bind and go on with the keys left — selects
the same binds, with the same keys, whatever the way the stream is cut into reads. -/
namespace RLV.Stream
open RLV

/-- the part of the shell this depends on -/
structure AS where
  buf : Seq
  wait : Bool
  prefixed : Bind
  log : List (String × List Nat)
  done : Bool
deriving Repr

variable (tbl : List (Seq × Bind)) (acc : Bind → Bool)

/-- one iteration of the loop on a non-empty stack -/
def aiter (a : AS) : AS :=
  let r := dispatch tbl a.buf [] [] false a.prefixed Bind.none
  if r.pfx then { a with buf := r.read ++ r.rest, wait := r.rest.isEmpty, prefixed := r.prefixed }
  else { buf := r.rest, wait := false, prefixed := r.prefixed,
         log := a.log ++ [(r.bind.action, runesOfBytes r.read)], done := a.done || acc r.bind }

def aread (a : AS) (c : List Nat) : AS := { a with buf := a.buf ++ c }

def aneed (a : AS) : Bool := !(!a.buf.isEmpty && !a.wait)

/-- the call on the reads `chunks` (same shape as `MLoop.session`) -/
def asession : Nat → List (List Nat) → AS → AS × Bool
  | 0, _, a => (a, false)
  | f+1, chunks, a =>
    if a.done then (a, true)
    else if aneed a then
      match chunks with
      | [] => (a, true)
      | c :: cs => if c.isEmpty then asession f cs a else asession f cs (aiter tbl acc (aread a c))
    else asession f chunks (aiter tbl acc a)

/-- the reference: the whole stream known at once, every dispatch from a clean dispatcher -/
def canon : Nat → Seq → List (String × List Nat) → Bool → List (String × List Nat) × Bool
  | 0, _, l, d => (l, d)
  | n+1, buf, l, d =>
    if d then (l, d) else if buf.isEmpty then (l, d) else
    let r := dispatch tbl buf [] [] false Bind.none Bind.none
    if r.pfx then (l, d)
    else canon n r.rest (l ++ [(r.bind.action, runesOfBytes r.read)]) (d || acc r.bind)

/-- a dispatch moves keys from the list to `read`, nothing else -/
theorem dispatch_read_rest : ∀ (ks read matched : Seq) (pfx : Bool) (p a : Bind),
    (dispatch tbl ks read matched pfx p a).read ++ (dispatch tbl ks read matched pfx p a).rest = read ++ ks := by
  intro ks
  induction ks with
  | nil => intro read matched pfx p a; simp [dispatch]
  | cons k t ih =>
    intro read matched pfx p a
    simp only [dispatch]
    split
    · simp
    · split
      · rw [ih]; simp
      · simp

/-- the `active` argument only shows when the list is empty -/
theorem dispatch_active : ∀ (ks read matched : Seq) (pfx : Bool) (p a a' : Bind), ks ≠ [] →
    (dispatch tbl ks read matched pfx p a).pfx = false →
    dispatch tbl ks read matched pfx p a' = dispatch tbl ks read matched pfx p a := by
  intro ks
  induction ks with
  | nil => intro _ _ _ _ _ _ h; exact absurd rfl h
  | cons k t ih =>
    intro read matched pfx p a a' _ hp
    simp only [dispatch] at hp ⊢
    split
    · rfl
    · rename_i h1
      rw [if_neg h1] at hp
      split
      · rename_i h2
        rw [if_pos h2] at hp
        by_cases ht : t = []
        · subst ht; simp [dispatch] at hp
        · exact ih _ _ _ _ _ _ ht hp
      · rfl

/-- a dispatch that reports a prefix: dispatching the same keys again (followed by anything) with the
bind it remembered gives what a dispatch with the bind it started from gives -/
theorem dispatch_stale : ∀ (p read matched : Seq) (pfx : Bool) (P a : Bind) (r : DResult) (ys : Seq), p ≠ [] →
    dispatch tbl p read matched pfx P a = r → r.pfx = true →
    dispatch tbl (p ++ ys) read matched pfx r.prefixed a = dispatch tbl (p ++ ys) read matched pfx P a := by
  intro p
  induction p with
  | nil => intro _ _ _ _ _ _ _ h; exact absurd rfl h
  | cons k t ih =>
    intro read matched pfx P a r ys _ hr hp
    simp only [List.cons_append, dispatch] at hr ⊢
    by_cases h1 : (matchBind (read ++ [k]) tbl).1.action = "" ∧ (matchBind (read ++ [k]) tbl).2 = false
    · simp only [if_pos h1] at hr; rw [← hr] at hp; cases hp
    · simp only [if_neg h1] at hr ⊢
      by_cases h2 : (matchBind (read ++ [k]) tbl).2 = true
      · simp only [if_pos h2] at hr ⊢
        by_cases he : (matchBind (read ++ [k]) tbl).1.action ≠ ""
        · rw [if_pos he]
          first | rfl | rw [if_pos he]
        · rw [if_neg he] at hr
          rw [if_neg he, if_neg he]
          by_cases ht : t = []
          · subst ht
            simp only [dispatch] at hr
            rw [← hr]
          · exact ih _ _ _ _ _ r ys ht hr hp
      · simp only [if_neg h2] at hr; rw [← hr] at hp; cases hp

/-- a completed dispatch is the same whatever follows the keys it consumed -/
theorem dispatch_complete_ext :
    ∀ (ks ys read matched : Seq) (pfx : Bool) (p a : Bind) (r : DResult),
      dispatch tbl ks read matched pfx p a = r → r.pfx = false → ks ≠ [] →
      dispatch tbl (ks ++ ys) read matched pfx p a = { r with rest := r.rest ++ ys } := by
  intro ks
  induction ks with
  | nil => intro _ _ _ _ _ _ _ _ _ h; exact absurd rfl h
  | cons k t ih =>
    intro ys read matched pfx p a r hr hpf _
    simp only [List.cons_append, dispatch] at hr ⊢
    by_cases h1 : (matchBind (read ++ [k]) tbl).1.action = "" ∧ (matchBind (read ++ [k]) tbl).2 = false
    · rw [if_pos h1] at hr ⊢; rw [← hr]
    · rw [if_neg h1] at hr ⊢
      by_cases h2 : (matchBind (read ++ [k]) tbl).2 = true
      · rw [if_pos h2] at hr ⊢
        by_cases ht : t = []
        · subst ht
          simp only [dispatch] at hr
          rw [← hr] at hpf; cases hpf
        · exact ih ys _ _ _ _ _ r hr hpf ht
      · rw [if_neg h2] at hr ⊢; rw [← hr]

/-- a completed dispatch remembers no bind -/
theorem dispatch_complete_prefixed :
    ∀ (ks read matched : Seq) (pfx : Bool) (p a : Bind), ks ≠ [] →
      (dispatch tbl ks read matched pfx p a).pfx = false →
      (dispatch tbl ks read matched pfx p a).prefixed = Bind.none := by
  intro ks
  induction ks with
  | nil => intro _ _ _ _ _ h; exact absurd rfl h
  | cons k t ih =>
    intro read matched pfx p a _ hp
    simp only [dispatch] at hp ⊢
    split
    · rfl
    · rename_i h1
      rw [if_neg h1] at hp
      split
      · rename_i h2
        rw [if_pos h2] at hp
        by_cases ht : t = []
        · subst ht; simp [dispatch] at hp
        · exact ih _ _ _ _ _ ht hp
      · rfl

theorem canon_done (N : Nat) (buf : Seq) (l : List (String × List Nat)) : canon tbl acc N buf l true = (l, true) := by
  cases N <;> simp [canon]

/-- what the loop knows between two dispatches is consistent: no bind remembered unless it waits, and
when it waits the keys pushed back are a prefix that a clean dispatch reports with that bind -/
def Inv (a : AS) : Prop :=
  (a.wait = false → a.prefixed = Bind.none) ∧
  (a.wait = true → a.buf ≠ [] ∧ (dispatch tbl a.buf [] [] false Bind.none Bind.none).pfx = true ∧
    (dispatch tbl a.buf [] [] false Bind.none Bind.none).prefixed = a.prefixed)

/-- with the invariant, the dispatch of the stack (whatever was appended to it) is a clean one -/
theorem dispatch_clean (a : AS) (c : Seq) (hi : Inv tbl a) :
    dispatch tbl (a.buf ++ c) [] [] false a.prefixed Bind.none =
      dispatch tbl (a.buf ++ c) [] [] false Bind.none Bind.none := by
  cases hw : a.wait
  · rw [hi.1 hw]
  · obtain ⟨hne, hp, hq⟩ := hi.2 hw
    rw [← hq]
    exact dispatch_stale tbl a.buf [] [] false Bind.none Bind.none _ c hne rfl hp

/-- one iteration on the stack `B` (non-empty): what it leaves, in terms of the clean dispatch of `B` -/
theorem aiter_spec (a : AS) (r : DResult) (hB : a.buf ≠ [])
    (hclean : dispatch tbl a.buf [] [] false a.prefixed Bind.none = dispatch tbl a.buf [] [] false Bind.none Bind.none)
    (hr : dispatch tbl a.buf [] [] false Bind.none Bind.none = r) :
    Inv tbl (aiter tbl acc a) ∧
    (r.pfx = true → (aiter tbl acc a).buf = a.buf ∧ (aiter tbl acc a).wait = true ∧
        (aiter tbl acc a).log = a.log ∧ (aiter tbl acc a).done = a.done) ∧
    (r.pfx = false → (aiter tbl acc a).buf = r.rest ∧ (aiter tbl acc a).wait = false ∧
        (aiter tbl acc a).log = a.log ++ [(r.bind.action, runesOfBytes r.read)] ∧
        (aiter tbl acc a).done = (a.done || acc r.bind)) := by
  have hprog := dispatch_progress tbl a.buf [] [] false Bind.none Bind.none hB
  have hrr := dispatch_read_rest tbl a.buf [] [] false Bind.none Bind.none
  have hcp := dispatch_complete_prefixed tbl a.buf [] [] false Bind.none Bind.none hB
  simp only [List.nil_append] at hrr
  simp only at hprog
  unfold aiter
  rw [hclean]
  simp only
  rw [hr] at hprog hrr hcp ⊢
  by_cases hp : r.pfx = true
  · have hrest : r.rest = [] := hprog.2 hp
    rw [if_pos hp]
    have hb : r.read ++ r.rest = a.buf := hrr
    refine ⟨⟨fun h => by simp [hrest] at h, fun _ => ?_⟩, fun _ => ⟨hb, by simp [hrest], rfl, rfl⟩,
      fun h => by rw [hp] at h; cases h⟩
    simp only [hb]
    exact ⟨hB, by rw [hr]; exact hp, by rw [hr]⟩
  · have hp' : r.pfx = false := by simpa using hp
    have hpre := hcp hp'
    rw [if_neg hp]
    exact ⟨⟨fun _ => hpre, fun h => by cases h⟩, fun h => absurd h hp, fun _ => ⟨rfl, rfl, rfl, rfl⟩⟩

/-- C05 on the stream: the binds selected, with their keys, and whether the line was accepted, are those
of the reference run on the whole stream — whatever the reads it was cut into -/
theorem asession_canon : ∀ (f : Nat) (chunks : List (List Nat)) (a : AS) (N : Nat), Inv tbl a →
    (asession tbl acc f chunks a).2 = true → (a.buf ++ chunks.flatten).length ≤ N →
    ((asession tbl acc f chunks a).1.log, (asession tbl acc f chunks a).1.done) =
      canon tbl acc N (a.buf ++ chunks.flatten) a.log a.done := by
  intro f
  induction f with
  | zero => intro chunks a N _ h; simp [asession] at h
  | succ f ih =>
    intro chunks a N hi hs hN
    -- one iteration on a non-empty stack `B ++ F` whose first part `B` is what the loop holds
    have step : ∀ (a1 : AS) (F : Seq) (cs : List (List Nat)), a1.buf ≠ [] → a1.done = false →
        dispatch tbl a1.buf [] [] false a1.prefixed Bind.none = dispatch tbl a1.buf [] [] false Bind.none Bind.none →
        F = cs.flatten → (a1.buf ++ F).length ≤ N →
        (asession tbl acc f cs (aiter tbl acc a1)).2 = true →
        ((asession tbl acc f cs (aiter tbl acc a1)).1.log, (asession tbl acc f cs (aiter tbl acc a1)).1.done) =
          canon tbl acc N (a1.buf ++ F) a1.log a1.done := by
      intro a1 F cs hB hd hclean hF hN1 hs1
      obtain ⟨hinv, hpfx, hcomp⟩ := aiter_spec tbl acc a1 _ hB hclean rfl
      cases hp : (dispatch tbl a1.buf [] [] false Bind.none Bind.none).pfx
      · obtain ⟨e1, e2, e3, e4⟩ := hcomp hp
        have hprog := (dispatch_progress tbl a1.buf [] [] false Bind.none Bind.none hB).1 hp
        have hext := dispatch_complete_ext tbl a1.buf F [] [] false Bind.none Bind.none _ rfl hp hB
        have hNpos : 0 < N := by
          have : 0 < a1.buf.length := List.length_pos_iff.mpr hB
          simp only [List.length_append] at hN1; omega
        obtain ⟨n, rfl⟩ : ∃ n, N = n + 1 := ⟨N - 1, by omega⟩
        have := ih cs (aiter tbl acc a1) n hinv hs1 (by
          rw [e1, ← hF]; simp only [List.length_append] at hN1 ⊢; omega)
        rw [this, e1, e3, e4, ← hF]
        have hne : (a1.buf ++ F).isEmpty = false := by
          cases h : a1.buf with
          | nil => exact absurd h hB
          | cons x t => rfl
        simp only [canon, hd, hne, hext, hp, Bool.false_eq_true, if_false, Bool.false_or]
      · obtain ⟨e1, e2, e3, e4⟩ := hpfx hp
        have := ih cs (aiter tbl acc a1) N hinv hs1 (by rw [e1, ← hF]; exact hN1)
        rw [this, e1, e3, e4, ← hF]
    unfold asession at hs ⊢
    cases hd : a.done
    · simp only [hd, Bool.false_eq_true, if_false] at hs ⊢
      cases hn : aneed a
      · -- something to dispatch
        simp only [hn, Bool.false_eq_true, if_false] at hs ⊢
        have hB : a.buf ≠ [] := by
          intro h; simp [aneed, h] at hn
        have hw : a.wait = false := by
          cases h : a.wait
          · rfl
          · simp [aneed, h] at hn
        have hclean : dispatch tbl a.buf [] [] false a.prefixed Bind.none =
            dispatch tbl a.buf [] [] false Bind.none Bind.none := by rw [hi.1 hw]
        have := step a chunks.flatten chunks hB hd hclean rfl hN hs
        rw [this, hd]
      · simp only [hn, if_true] at hs ⊢
        cases chunks with
        | nil =>
          simp only [List.flatten_nil, List.append_nil] at hN ⊢
          cases N with
          | zero => simp [canon, hd]
          | succ n =>
            cases hb : a.buf with
            | nil => simp [canon, hd]
            | cons x t =>
              have hw : a.wait = true := by
                cases h : a.wait
                · simp [aneed, h, hb] at hn
                · rfl
              obtain ⟨_, hp, _⟩ := hi.2 hw
              rw [hb] at hp
              simp [canon, hd, hp]
        | cons c cs =>
          by_cases hc : c.isEmpty = true
          · simp only [hc, if_true] at hs ⊢
            have hce : c = [] := by cases c <;> simp_all
            have := ih cs a N hi hs (by rw [hce] at hN; simpa using hN)
            rw [this, hce]; simp [hd]
          · simp only [hc, Bool.false_eq_true, if_false] at hs ⊢
            have hcne : c ≠ [] := by intro h; rw [h] at hc; simp at hc
            have hB : (aread a c).buf ≠ [] := by
              simp only [aread]; intro h
              have := List.append_eq_nil_iff.mp h
              exact hcne this.2
            have hclean := dispatch_clean tbl a c hi
            have := step (aread a c) cs.flatten cs hB hd hclean rfl
              (by simp only [aread, List.flatten_cons, List.append_assoc] at hN ⊢; exact hN) hs
            rw [this]
            simp [aread, List.append_assoc, hd]
    · simp only [hd, if_true]
      rw [canon_done]

end RLV.Stream
