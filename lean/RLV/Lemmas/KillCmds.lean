import RLV.Model.Kill
import RLV.Lemmas.ViOps
import RLV.Lemmas.Utf8
/-! The kill commands of Model/Kill.lean (`kill-line`, `backward-kill-line`, `backward-kill-word`)
followed by `yank`: what the command removes is what it stores, and yanking it where the command
leaves the cursor restores the buffer (C16, at the level of the commands). -/
namespace RLV.Sel
open RLV.Core

/-- `Cut` when `Pos` yields a proper range -/
theorem cut_of_pos (l : Line) (s : S) (cur : Cur) (b e : Int) (s1 : S) (hl : len l ≠ 0)
    (hp : pos l s cur = .ok (b, e, s1)) (h0 : 0 ≤ b) (h1 : b ≤ e) (h2 : e ≤ len l) :
    cut l s cur = .ok ((l.drop b.toNat).take (e - b).toNat, l.take b.toNat ++ l.drop e.toNat, reset s1) := by
  have hstable := pos_stable l s cur b e s1 hp
  unfold cut
  simp only [bind, Except.bind, pure, Except.pure]
  have hne : ¬ (b = -1 ∨ e = -1) := by omega
  have hin : ¬ (b < 0 ∨ e > len l ∨ b > e) := by omega
  have hcut := cut_spec l b e h0 h1 h2
  simp only [hl, if_false, hp, hne, text, bind, Except.bind, pure, Except.pure, hstable, hin, hcut]

theorem checkRange_ordered (l : Line) (x y : Int) (hl : len l ≠ 0) (hx : 0 ≤ x) (hxy : x ≤ y) (hy : y ≤ len l) :
    checkRange l x y = (x, y, true) := by
  unfold checkRange
  simp only
  repeat' split
  all_goals first | rfl | (exfalso; omega) | (simp only [Prod.mk.injEq, and_true]; omega)

/-- the end one further, clamped at the end of the buffer -/
theorem checkRange_succ (l : Line) (x y : Int) (hl : len l ≠ 0) (hx : 0 ≤ x) (hxy : x ≤ y) (hy : y ≤ len l) :
    ∃ e, checkRange l x (y + 1) = (x, e, true) ∧ y ≤ e ∧ e ≤ len l := by
  by_cases hyl : y + 1 ≤ len l
  · exact ⟨y + 1, checkRange_ordered l x (y + 1) hl hx (by omega) hyl, by omega, hyl⟩
  · refine ⟨len l, ?_, hy, Int.le_refl _⟩
    unfold checkRange
    simp only
    repeat' split
    all_goals first | rfl | (exfalso; omega) | (simp only [Prod.mk.injEq, and_true]; omega)

theorem posFrom_range (l : Line) (s : S) (cur : Cur) (x y : Int) (hl : len l ≠ 0)
    (hx : 0 ≤ x) (hxy : x ≤ y) (hy : y ≤ len l) :
    ∃ e, posFrom l s cur x y = .ok (x, e) ∧ y ≤ e ∧ e ≤ len l := by
  unfold posFrom
  have hy1 : ¬ y = -1 := by omega
  simp only [bind, Except.bind, pure, Except.pure, hy1, if_false]
  by_cases hv : s.visual = true
  · obtain ⟨e, he, h1, h2⟩ := checkRange_succ l x y hl hx hxy hy
    simp only [hv, if_true, he]
    exact ⟨e, rfl, h1, h2⟩
  · simp only [hv, Bool.false_eq_true, if_false, checkRange_ordered l x y hl hx hxy hy]
    exact ⟨y, rfl, Int.le_refl _, hy⟩

/-- `Pos` of an explicit range `[x, y)` just marked: it starts at `x` and ends at `y`
(one further when a stale visual flag is set) -/
theorem pos_markRange (l : Line) (s : S) (cur : Cur) (x y : Int) (hl : len l ≠ 0)
    (hx : 0 ≤ x) (hxy : x ≤ y) (hy : y ≤ len l) :
    ∃ e s1, pos l (markRange l s x y) cur = .ok (x, e, s1) ∧ y ≤ e ∧ e ≤ len l := by
  have hcr := checkRange_ordered l x y hl hx hxy hy
  have hm : markRange l s x y = { s with active := true, bpos := x, epos := y } := by
    unfold markRange; rw [hcr]; rfl
  rw [hm]
  unfold pos
  obtain ⟨e, he, h1, h2⟩ := posFrom_range l { s with active := true, bpos := x, epos := y } cur x y hl hx hxy hy
  simp only [hl, false_or, Bool.not_true, Bool.false_eq_true, if_false, hcr, he]
  exact ⟨e, _, rfl, h1, h2⟩

end RLV.Sel

namespace RLV.Kill
open RLV.Core RLV.Sel

theorem find_go_fwd (l : Line) (ch : Nat) : ∀ (f : Nat) (p : Int),
    find.go l ch true f p = -1 ∨ (p < find.go l ch true f p ∧ find.go l ch true f p ≤ len l - 1) := by
  intro f
  induction f with
  | zero => intro p; left; rfl
  | succ f ih =>
    intro p
    unfold find.go
    simp only [if_true, true_and, not_true_eq_false, false_and, or_false]
    by_cases h1 : p + 1 > len l - 1
    · left; rw [if_pos h1]
    · rw [if_neg h1]
      by_cases h2 : l.getD (p + 1).toNat 0 = ch
      · right; rw [if_pos h2]; omega
      · rw [if_neg h2]
        rcases ih (p + 1) with h | h
        · left; exact h
        · right; omega

theorem find_go_bwd (l : Line) (ch : Nat) : ∀ (f : Nat) (p : Int),
    find.go l ch false f p = -1 ∨ (0 ≤ find.go l ch false f p ∧ find.go l ch false f p < p) := by
  intro f
  induction f with
  | zero => intro p; left; rfl
  | succ f ih =>
    intro p
    unfold find.go
    simp only [Bool.false_eq_true, if_false, false_and, false_or, not_false_eq_true, true_and]
    by_cases h1 : p - 1 < 0
    · left; rw [if_pos h1]
    · rw [if_neg h1]
      by_cases h2 : l.getD (p - 1).toNat 0 = ch
      · right; rw [if_pos h2]; omega
      · rw [if_neg h2]
        rcases ih (p - 1) with h | h
        · left; exact h
        · right; omega

/-- `Line.Find` forward from `pos`: nothing, or an index after `pos` (after 0 when `pos` is negative) -/
theorem find_fwd (l : Line) (ch : Nat) (pos : Int) :
    find l ch pos true = -1 ∨ (pos < find l ch pos true ∧ 0 < find l ch pos true ∧ find l ch pos true ≤ len l - 1) := by
  unfold find
  by_cases hl : len l = 0
  · left; rw [if_pos hl]
  · rw [if_neg hl]
    simp only
    have hl0 : 0 ≤ len l := by unfold len; omega
    rcases find_go_fwd l ch (l.length + 2) (if pos < 0 then 0 else if pos > len l then len l else pos) with h | h
    · left; exact h
    · right
      generalize find.go l ch true (l.length + 2) (if pos < 0 then 0 else if pos > len l then len l else pos) = r at h
      split at h
      · omega
      · split at h <;> omega

/-- `Line.Find` backward from `pos`: nothing, or an index before `pos` -/
theorem find_bwd (l : Line) (ch : Nat) (pos : Int) (h0 : 0 ≤ pos) (h1 : pos ≤ len l) :
    find l ch pos false = -1 ∨ (0 ≤ find l ch pos false ∧ find l ch pos false < pos) := by
  unfold find
  by_cases hl : len l = 0
  · left; rw [if_pos hl]
  · rw [if_neg hl]
    simp only
    have c1 : ¬ pos < 0 := by omega
    have c2 : ¬ pos > len l := by omega
    simp only [c1, c2, if_false]
    exact find_go_bwd l ch (l.length + 2) pos


/-- cutting a selection whose `Pos` is the proper range `[x, e)`: the text taken and the buffer left
are such that inserting the text at `x` gives the buffer back -/
theorem cut_then_insert_pos (l : Line) (sel : S) (cur : Cur) (x e : Int) (s1 : S) (hnz : ∀ c ∈ l, c ≠ 0)
    (hl : len l ≠ 0) (hp : pos l sel cur = .ok (x, e, s1)) (hx : 0 ≤ x) (hxe : x ≤ e) (he2 : e ≤ len l) :
    ∃ t l' s', Sel.cut l sel cur = .ok (t, l', s') ∧ x ≤ len l' ∧
      ((t = [] ∧ l' = l) ∨ (t ≠ [] ∧ Core.insert l' x t = .ok l)) ∧
      l = l'.take x.toNat ++ t ++ l'.drop x.toNat := by
  have hc := cut_of_pos l _ cur x e s1 hl hp hx hxe he2
  obtain ⟨l'', hcut, hins⟩ := cut_insert_id l x e hx hxe he2 hnz
  rw [cut_spec l x e hx hxe he2] at hcut
  injection hcut with hcut
  subst hcut
  have hsl : slice l x e = (l.drop x.toNat).take (e - x).toNat := by
    unfold slice; congr 1; omega
  rw [hsl] at hins
  have hxn : x.toNat ≤ l.length := by unfold len at he2; omega
  have htl : (l.take x.toNat).length = x.toNat := by rw [List.length_take]; omega
  have hlen : x ≤ len (l.take x.toNat ++ l.drop e.toNat) := by
    unfold len; rw [List.length_append, htl]; omega
  refine ⟨_, _, _, hc, hlen, ?_, ?_⟩
  · by_cases hee : e = x
    · left
      subst hee
      constructor
      · simp
      · exact List.take_append_drop _ _
    · right
      refine ⟨?_, hins⟩
      intro h
      have := congrArg List.length h
      rw [List.length_take, List.length_drop] at this
      simp only [List.length_nil] at this
      unfold len at he2
      omega
  · have e1 : (l.take x.toNat ++ l.drop e.toNat).take x.toNat = l.take x.toNat := by
      rw [List.take_append_of_le_length (by omega)]
      exact List.take_of_length_le (by omega)
    have e2 : (l.take x.toNat ++ l.drop e.toNat).drop x.toNat = l.drop e.toNat := by
      rw [List.drop_append_of_le_length (by omega), List.drop_of_length_le (by omega)]; rfl
    rw [e1, e2, List.append_assoc]
    have := take_drop_slice l x.toNat e.toNat (by omega) (by unfold len at he2; omega)
    have h3 : (e - x).toNat = e.toNat - x.toNat := by omega
    rw [h3]
    exact this.symm

/-- the same for the range `[x, y)` just marked (any stale selection flags, any cursor) -/
theorem cut_then_insert (l : Line) (s : S) (cur : Cur) (x y : Int) (hnz : ∀ c ∈ l, c ≠ 0) (hl : len l ≠ 0)
    (hx : 0 ≤ x) (hxy : x ≤ y) (hy : y ≤ len l) :
    ∃ t l' s', Sel.cut l (markRange l s x y) cur = .ok (t, l', s') ∧ x ≤ len l' ∧
      ((t = [] ∧ l' = l) ∨ (t ≠ [] ∧ Core.insert l' x t = .ok l)) ∧
      l = l'.take x.toNat ++ t ++ l'.drop x.toNat := by
  obtain ⟨e, s1, hp, he1, he2⟩ := pos_markRange l s cur x y hl hx hxy hy
  exact cut_then_insert_pos l _ cur x e s1 hnz hl hp hx (by omega) he2


/-- `Cursor.EndOfLineAppend` does not move backwards and stays in the buffer -/
theorem endOfLineAppend_spec (l : Line) (c : Cur) (hl : 0 < len l) (h0 : 0 ≤ c.pos) (h1 : c.pos ≤ len l) :
    ∃ c1, endOfLineAppend l c = .ok c1 ∧ c.pos ≤ c1.pos ∧ c1.pos ≤ len l := by
  obtain ⟨b, hb, _⟩ := onEmptyLine_spec l c hl h0 h1
  unfold endOfLineAppend
  simp only [bind, Except.bind, pure, Except.pure, hb]
  cases b with
  | true =>
    simp only [if_true]
    exact ⟨_, rfl, by rw [checkAppend_fix l c h0 h1]; omega, by rw [checkAppend_fix l c h0 h1]; exact h1⟩
  | false =>
    simp only [Bool.false_eq_true, if_false]
    refine ⟨_, rfl, ?_, (checkAppend_range _ _).2.1⟩
    have hq : c.pos ≤ (if find l 10 (c.pos - 1) true ≠ -1 then find l 10 (c.pos - 1) true else len l) ∧
        (if find l 10 (c.pos - 1) true ≠ -1 then find l 10 (c.pos - 1) true else len l) ≤ len l := by
      rcases find_fwd l 10 (c.pos - 1) with h | h
      · rw [h]; simp only [ne_eq, not_true_eq_false, if_false]; omega
      · have : find l 10 (c.pos - 1) true ≠ -1 := by omega
        rw [if_pos this]; omega
    rw [checkAppend_fix l _ (by simp only; omega) (by simp only; exact hq.2)]
    exact hq.1

theorem write_line (s : St) (t : List Nat) : (write s t).line = s.line := by
  unfold write; split <;> rfl
theorem write_cur (s : St) (t : List Nat) : (write s t).cur = s.cur := by
  unfold write; split <;> rfl
theorem write_kill_ne (s : St) (t : List Nat) (h : t ≠ []) : (write s t).kill = t := by
  unfold write
  have : t.isEmpty = false := by cases t with | nil => exact absurd rfl h | cons _ _ => rfl
  simp [this]
theorem write_nil (s : St) : write s [] = s := by simp [write]

/-- `yank` with the cursor at `x` inserts the kill there -/
theorem yank_at (s : St) (x : Int) (hx : (checkAppend s.line s.cur).pos = x) (l : Line)
    (h : Core.insert s.line x s.kill = .ok l) : ∃ s2, yank s = .ok s2 ∧ s2.line = l := by
  unfold yank
  simp only [bind, Except.bind, pure, Except.pure, hx, h]
  exact ⟨_, rfl, rfl⟩

/-- what a kill command followed by `yank` is asked to do: either it removed nothing and left the kill
ring alone, or the text it stored is the text it removed and the yank puts the buffer back -/
def Restores (s s1 : St) : Prop :=
  (s1.line = s.line ∧ s1.kill = s.kill) ∨
  (s1.kill ≠ [] ∧ ∃ p : Nat, s.line = s1.line.take p ++ s1.kill ++ s1.line.drop p ∧
    ∃ s2, yank s1 = .ok s2 ∧ s2.line = s.line)

/-- C16 for `kill-line`: from EVERY buffer (no NUL rune), cursor and selection state -/
theorem killLine_yank (s : St) (hnz : ∀ c ∈ s.line, c ≠ 0) :
    ∃ s1, killLine s = .ok s1 ∧ Restores s s1 := by
  unfold killLine
  by_cases hl : len s.line = 0
  · simp only [hl, if_true, pure, Except.pure]
    exact ⟨s, rfl, Or.inl ⟨rfl, rfl⟩⟩
  · have hlp : 0 < len s.line := by unfold len at hl ⊢; omega
    obtain ⟨h0, h1, _⟩ := checkAppend_range s.line s.cur
    obtain ⟨c1, hc1, hge, hle⟩ := endOfLineAppend_spec s.line (checkAppend s.line s.cur) hlp h0 h1
    have hfix : (checkAppend s.line c1).pos = c1.pos := checkAppend_fix s.line c1 (by omega) hle
    obtain ⟨t, l', s', hcut, hxl, hcase, hsplit⟩ :=
      cut_then_insert s.line s.sel c1 (checkAppend s.line s.cur).pos c1.pos hnz hl h0 hge hle
    simp only [hl, if_false, bind, Except.bind, pure, Except.pure, hc1, hfix, hcut]
    refine ⟨_, rfl, ?_⟩
    have hcs : (checkAppend l' (curSet l' c1 (checkAppend s.line s.cur).pos)).pos = (checkAppend s.line s.cur).pos := by
      unfold curSet
      rw [checkAppend_idem]
      have c1' : ¬ (checkAppend s.line s.cur).pos < 0 := by omega
      have c2' : ¬ (checkAppend s.line s.cur).pos > len l' := by omega
      simp only [c1', c2', if_false]
      exact checkAppend_fix l' _ h0 hxl
    rcases hcase with ⟨ht, hl'⟩ | ⟨ht, hins⟩
    · left
      subst ht
      simp only [write_nil]
      exact ⟨hl', trivial⟩
    · right
      simp only [write_line, write_cur, write_kill_ne _ _ ht]
      refine ⟨ht, (checkAppend s.line s.cur).pos.toNat, hsplit, ?_⟩
      apply yank_at _ (checkAppend s.line s.cur).pos
      · exact hcs
      · exact hins


theorem ite_ok {α : Type} (C : Prop) [Decidable C] (x y : α) (P : α → Prop) (hx : P x) (hy : P y) :
    ∃ c, (if C then (Except.ok x : G α) else .ok y) = .ok c ∧ P c := by
  split
  · exact ⟨x, rfl, hx⟩
  · exact ⟨y, rfl, hy⟩

/-- `CheckCommand` never moves the cursor forward -/
theorem checkCommand_le (l : Line) (a : Cur) (hl : 0 < len l) (h0 : 0 ≤ a.pos) (h1 : a.pos ≤ len l)
    (ha : checkAppend l a = a) :
    ∃ c', checkCommand l a = .ok c' ∧ 0 ≤ c'.pos ∧ c'.pos ≤ a.pos := by
  obtain ⟨b1, hb1, _⟩ := onEmptyLine_spec l a hl h0 h1
  unfold checkCommand
  simp only [ha, bind, Except.bind, pure, Except.pure, hb1]
  by_cases hend : a.pos = len l ∧ (!b1) = true
  · have h0' : 0 ≤ a.pos - 1 := by omega
    have h1' : a.pos - 1 ≤ len l := by omega
    obtain ⟨b2, hb2, _⟩ := onEmptyLine_spec l { a with pos := a.pos - 1 } hl h0' h1'
    rw [if_pos hend]
    simp only [charAt_eq l { a with pos := a.pos - 1 } h0' h1', hb2]
    apply ite_ok _ _ _ (fun c : Cur => 0 ≤ c.pos ∧ c.pos ≤ a.pos)
    · constructor <;> (simp only; split <;> omega)
    · exact ⟨h0', by simp only; omega⟩
  · rw [if_neg hend]
    simp only [charAt_eq l a h0 h1, hb1]
    apply ite_ok _ _ _ (fun c : Cur => 0 ≤ c.pos ∧ c.pos ≤ a.pos)
    · constructor <;> (simp only; split <;> omega)
    · exact ⟨h0, Int.le_refl _⟩

/-- `Cursor.BeginningOfLine` does not move forwards and stays in the buffer -/
theorem beginningOfLine_spec (l : Line) (c : Cur) (hl : 0 < len l) (h0 : 0 ≤ c.pos) (h1 : c.pos ≤ len l) :
    ∃ c1, beginningOfLine l c = .ok c1 ∧ 0 ≤ c1.pos ∧ c1.pos ≤ c.pos := by
  unfold beginningOfLine
  dsimp only
  have hq : 0 ≤ (if find l 10 c.pos false ≠ -1 then find l 10 c.pos false + 1 else 0) ∧
      (if find l 10 c.pos false ≠ -1 then find l 10 c.pos false + 1 else 0) ≤ c.pos := by
    rcases find_bwd l 10 c.pos h0 h1 with h | h
    · rw [h]; simp only [ne_eq, not_true_eq_false, if_false]; omega
    · have : find l 10 c.pos false ≠ -1 := by omega
      rw [if_pos this]; omega
  generalize (if find l 10 c.pos false ≠ -1 then find l 10 c.pos false + 1 else 0) = q at hq
  -- CheckCommand starts by CheckAppend, which is idempotent
  have hca : checkCommand l { c with pos := q } = checkCommand l (checkAppend l { c with pos := q }) := by
    unfold checkCommand; rw [checkAppend_idem]
  have hfx := checkAppend_fix l { c with pos := q } hq.1 (by simp only; omega)
  obtain ⟨c', hc', g0, g1⟩ := checkCommand_le l (checkAppend l { c with pos := q }) hl
    (by rw [hfx]; exact hq.1) (by rw [hfx]; simp only; omega) (checkAppend_idem l _)
  rw [hca, hc']
  exact ⟨c', rfl, g0, by rw [hfx] at g1; simp only at g1; omega⟩

/-- C16 for `backward-kill-line` -/
theorem backwardKillLine_yank (s : St) (hnz : ∀ c ∈ s.line, c ≠ 0) :
    ∃ s1, backwardKillLine s = .ok s1 ∧ Restores s s1 := by
  unfold backwardKillLine
  by_cases hl : len s.line = 0
  · simp only [hl, if_true, pure, Except.pure]
    exact ⟨s, rfl, Or.inl ⟨rfl, rfl⟩⟩
  · have hlp : 0 < len s.line := by unfold len at hl ⊢; omega
    obtain ⟨h0, h1, _⟩ := checkAppend_range s.line s.cur
    obtain ⟨c1, hc1, hge, hle⟩ := beginningOfLine_spec s.line (checkAppend s.line s.cur) hlp h0 h1
    have hfix : (checkAppend s.line c1).pos = c1.pos := checkAppend_fix s.line c1 hge (by omega)
    obtain ⟨t, l', s', hcut, hxl, hcase, hsplit⟩ :=
      cut_then_insert s.line s.sel c1 c1.pos (checkAppend s.line s.cur).pos hnz hl hge hle h1
    simp only [hl, if_false, bind, Except.bind, pure, Except.pure, hc1, hfix, hcut]
    refine ⟨_, rfl, ?_⟩
    rcases hcase with ⟨ht, hl'⟩ | ⟨ht, hins⟩
    · left
      subst ht
      simp only [write_nil]
      exact ⟨hl', trivial⟩
    · right
      simp only [write_line, write_kill_ne _ _ ht]
      refine ⟨ht, c1.pos.toNat, hsplit, ?_⟩
      apply yank_at _ c1.pos
      · simp only [write_line, write_cur]; exact checkAppend_fix l' c1 hge hxl
      · simp only [write_line, write_kill_ne _ _ ht]; exact hins

end RLV.Kill

namespace RLV.Tok
open RLV RLV.Core

theorem blen_snoc_pos (t : List Nat) (c : Nat) : 1 ≤ blen (t ++ [c]) := by
  unfold blen utf8
  rw [List.flatMap_append, List.length_append]
  have : (List.flatMap encodeRune [c]).length ≠ 0 := by
    simp only [List.flatMap_cons, List.flatMap_nil, List.append_nil]
    intro h
    exact encodeRune_ne_nil c (List.length_eq_zero_iff.mp h)
  omega

theorem addLast_last (sp : List (List Nat)) (c : Nat) : ∃ t, (addLast sp c).getLastD [] = t ++ [c] := by
  unfold addLast
  split
  · exact ⟨[], rfl⟩
  · rename_i t r _
    exact ⟨t, by simp⟩

theorem lastLen_addLast (s : TS) (sp : List (List Nat)) (c : Nat) (p : Bool) :
    1 ≤ lastLen { s with split := addLast sp c, punc := p } := by
  unfold lastLen
  obtain ⟨t, ht⟩ := addLast_last sp c
  simp only [ht]
  exact blen_snoc_pos t c

theorem tokStep_pos (line : List Nat) (cpos : Int) (s : TS) (i : Nat) (h : 0 ≤ s.pos) :
    0 ≤ (tokStep line cpos s i).pos := by
  unfold tokStep
  simp only
  split
  · -- the cursor is on this rune: position inside the token that has just received it
    simp only
    repeat' split
    all_goals exact Int.sub_nonneg_of_le (lastLen_addLast s _ _ _)
  · repeat' split
    all_goals exact h

theorem fold_tokStep_pos (line : List Nat) (cpos : Int) (is : List Nat) : ∀ (s : TS), 0 ≤ s.pos →
    0 ≤ (is.foldl (tokStep line cpos) s).pos := by
  induction is with
  | nil => intro s h; exact h
  | cons i is ih => intro s h; exact ih _ (tokStep_pos line cpos s i h)

/-- the offset of the cursor inside its token is never negative -/
theorem tokenize_pos (line : List Nat) (cpos : Int) : 0 ≤ (tokenize line cpos).2.2 := by
  unfold tokenize
  split
  · exact Int.le_refl _
  · simp only
    split
    · simp only [lastLen, blen]; omega
    · exact fold_tokStep_pos line _ _ _ (Int.le_refl _)

/-- `Line.Backward` never asks to move forward -/
theorem backward_nonpos (tk : List (List Nat) × Int × Int) (a : Int) (hp : 0 ≤ tk.2.2)
    (h : backward tk = .ok a) : a ≤ 0 := by
  obtain ⟨split, index, pos⟩ := tk
  unfold backward at h
  simp only [bind, Except.bind, pure, Except.pure] at h
  split at h
  · injection h with h; omega
  · split at h
    · injection h with h; omega
    · split at h
      · cases ht : tokAt split (index - 1) with
        | error x => rw [ht] at h; cases h
        | ok tok =>
          rw [ht] at h
          injection h with h
          have : 0 ≤ blen tok := by unfold blen; omega
          omega
      · injection h with h
        simp only at hp
        omega

end RLV.Tok

namespace RLV.Sel
open RLV.Core

/-- `Pos` of a selection just started at `p` (pending end) with the cursor at or before `p`:
it runs from the cursor to `p` (one further when a stale visual flag is set) -/
theorem pos_mark (l : Line) (s : S) (cur : Cur) (p : Int) (hl : len l ≠ 0) (hvl : s.visualLine = false)
    (hq : (checkAppend l cur).pos ≤ p) (hp : p ≤ len l) :
    ∃ e s1, pos l (mark l s p) cur = .ok ((checkAppend l cur).pos, e, s1) ∧ p ≤ e ∧ e ≤ len l := by
  obtain ⟨hq0, hq1, _⟩ := checkAppend_range l cur
  have hp0 : 0 ≤ p := by omega
  have hcr : checkRange l p (-1) = (p, -1, true) := by
    unfold checkRange
    simp only
    repeat' split
    all_goals first | rfl | (exfalso; omega) | (simp only [Prod.mk.injEq, and_true]; omega)
  have hm : mark l s p = { s with active := true, bpos := p, epos := -1 } := by
    unfold mark
    have : ¬ (p < 0 ∨ p > len l) := by omega
    rw [if_neg this]
    unfold markRange; rw [hcr]; rfl
  rw [hm]
  unfold pos
  simp only [hl, false_or, Bool.not_true, Bool.false_eq_true, if_false, hcr]
  unfold posFrom
  simp only [bind, Except.bind, pure, Except.pure, if_true]
  unfold selectToCursor
  simp only [hvl, Bool.false_eq_true, if_false, bind, Except.bind, pure, Except.pure]
  generalize (checkAppend l cur).pos = q at hq hq0 hq1
  have hsel : (if q < p then (q, p) else (p, q)) = (q, p) := by
    split
    · rfl
    · have : q = p := by omega
      subst this; rfl
  have hord : ¬ q > p := by omega
  simp only [hsel, hord, if_false]
  by_cases hv : s.visual = true
  · obtain ⟨e, he, h1, h2⟩ := checkRange_succ l q p hl hq0 hq hp
    simp only [hv, if_true, he, Bool.not_true, Bool.false_eq_true, if_false]
    exact ⟨e, _, rfl, h1, h2⟩
  · simp only [hv, Bool.false_eq_true, if_false, checkRange_ordered l q p hl hq0 hq hp, Bool.not_true]
    exact ⟨p, _, rfl, Int.le_refl _, hp⟩

end RLV.Sel

namespace RLV.Kill
open RLV.Core RLV.Sel

/-- C16 for `backward-kill-word` (no stale visual-line flag; whenever the command does not panic) -/
theorem backwardKillWord_yank (s s1 : St) (hnz : ∀ c ∈ s.line, c ≠ 0) (hvl : s.sel.visualLine = false)
    (h : backwardKillWord s = .ok s1) : Restores s s1 := by
  unfold backwardKillWord at h
  simp only [bind, Except.bind, pure, Except.pure] at h
  cases hb : Tok.backward (Tok.tokenize s.line (checkAppend s.line s.cur).pos) with
  | error x => rw [hb] at h; cases h
  | ok adj =>
    rw [hb] at h
    have hadj : adj ≤ 0 := Tok.backward_nonpos _ adj (Tok.tokenize_pos _ _) hb
    obtain ⟨h0, h1, _⟩ := checkAppend_range s.line s.cur
    simp only at h
    generalize hc1 : checkAppend s.line { checkAppend s.line s.cur with pos := (checkAppend s.line s.cur).pos + adj } = c1 at h
    by_cases hl : len s.line = 0
    · -- empty buffer: nothing is cut
      have hcut : Sel.cut s.line (mark s.line s.sel (checkAppend s.line s.cur).pos) c1
          = .ok ([], s.line, mark s.line s.sel (checkAppend s.line s.cur).pos) := by
        unfold Sel.cut; simp [hl, pure, Except.pure]
      rw [hcut] at h
      injection h with h
      subst h
      left
      simp only [write_nil]
      exact ⟨trivial, trivial⟩
    · have hc1pos : (checkAppend s.line c1).pos = c1.pos := by rw [← hc1, checkAppend_idem]
      have hc1r := checkAppend_range s.line { checkAppend s.line s.cur with pos := (checkAppend s.line s.cur).pos + adj }
      rw [hc1] at hc1r
      have hc1le : c1.pos ≤ (checkAppend s.line s.cur).pos := by
        rw [← hc1]
        unfold checkAppend
        simp only
        repeat' split
        all_goals omega
      obtain ⟨e, s1', hp, he1, he2⟩ := pos_mark s.line s.sel c1 (checkAppend s.line s.cur).pos hl hvl
        (by rw [hc1pos]; exact hc1le) h1
      rw [hc1pos] at hp
      obtain ⟨t, l', s', hcut, hxl, hcase, hsplit⟩ :=
        cut_then_insert_pos s.line _ c1 c1.pos e s1' hnz hl hp hc1r.1 (by omega) he2
      rw [hcut] at h
      injection h with h
      subst h
      rcases hcase with ⟨ht, hl'⟩ | ⟨ht, hins⟩
      · left
        subst ht
        simp only [write_nil]
        exact ⟨hl', trivial⟩
      · right
        simp only [write_line, write_kill_ne _ _ ht]
        refine ⟨ht, c1.pos.toNat, hsplit, ?_⟩
        apply yank_at _ c1.pos
        · simp only [write_line, write_cur]; exact checkAppend_fix l' c1 hc1r.1 hxl
        · simp only [write_line, write_kill_ne _ _ ht]; exact hins

/-- after several kills the kill ring's top is the text of the most recent kill that removed something -/
theorem write_latest (s : St) (t u : List Nat) (hu : u ≠ []) : (write (write s t) u).kill = u :=
  write_kill_ne _ _ hu

end RLV.Kill
