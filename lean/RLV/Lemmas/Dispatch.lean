import RLV.Model.Bind
namespace RLV

/-- If `s` is an entry of the table, every proper prefix of `s` has a proper extension. -/
theorem hasProperExt_of_mem {tbl : List (Seq × Bind)} {s pre suf : Seq} {b : Bind}
    (hmem : (s, b) ∈ tbl) (hs : s = pre ++ suf) (hsuf : suf ≠ []) :
    hasProperExt pre tbl = true := by
  unfold hasProperExt
  rw [List.any_eq_true]
  refine ⟨(s, b), hmem, ?_⟩
  subst hs
  have : 0 < suf.length := List.length_pos_iff.mpr hsuf
  simp [List.isPrefixOf_iff_prefix]
  omega

/-- T1: a bound sequence that no longer binding extends runs exactly that binding,
consuming exactly its keys, whatever follows in the buffer and whatever stale
`prefixed`/`active` state the engine holds. -/
theorem dispatch_exact (tbl : List (Seq × Bind)) (s rest : Seq) (b : Bind)
    (hmem : (s, b) ∈ tbl) (hb : lastExact s tbl = b) (hact : b.action ≠ "")
    (hne : s ≠ []) (hnoext : hasProperExt s tbl = false) (p a : Bind) :
    dispatch tbl (s ++ rest) [] [] false p a = ⟨b, false, s, s, rest, Bind.none⟩ := by
  -- generalised over the part already read
  suffices h : ∀ (suf pre : Seq) (pfx : Bool) (p : Bind), s = pre ++ suf → suf ≠ [] →
      dispatch tbl (suf ++ rest) pre pre pfx p a = ⟨b, false, s, s, rest, Bind.none⟩ by
    exact h s [] false p (by simp) hne
  intro suf
  induction suf with
  | nil => intro _ _ _ _ h; exact absurd rfl h
  | cons k t ih =>
    intro pre pfx p hs _
    have hs' : s = (pre ++ [k]) ++ t := by simp [hs]
    simp only [List.cons_append, dispatch, matchBind_eq]
    by_cases ht : t = []
    · -- last key: exact match, no extension
      subst ht
      have hfull : pre ++ [k] = s := by simp [hs]
      simp [hfull, hb, hact, hnoext]
    · -- still a proper prefix
      have hext := hasProperExt_of_mem hmem hs' ht
      simp only [hext]
      simp only [Bool.true_eq_false, and_false, if_false, if_true]
      exact ih (pre ++ [k]) true _ hs' ht

end RLV
