/-! `strings.TrimSpace`-style trimming (`dropWhile` at both ends) is idempotent. -/
namespace RLV.Trim

variable {α : Type} (p : α → Bool)

def rtrim (l : List α) : List α := ((l.reverse).dropWhile p).reverse
def trimP (l : List α) : List α := rtrim p (l.dropWhile p)

theorem dropWhile_idem (l : List α) : (l.dropWhile p).dropWhile p = l.dropWhile p := by
  induction l with
  | nil => rfl
  | cons a t ih =>
    by_cases h : p a = true
    · simp [List.dropWhile_cons, h, ih]
    · simp [List.dropWhile_cons, h]

theorem rtrim_idem (l : List α) : rtrim p (rtrim p l) = rtrim p l := by
  simp [rtrim, dropWhile_idem]

/-- `rtrim l` is `l` without a suffix -/
theorem rtrim_prefix (l : List α) : ∃ suf, l = rtrim p l ++ suf := by
  refine ⟨((l.reverse).takeWhile p).reverse, ?_⟩
  have := List.takeWhile_append_dropWhile (p := p) (l := l.reverse)
  have h2 : l = (l.reverse.takeWhile p ++ l.reverse.dropWhile p).reverse := by rw [this]; simp
  rw [List.reverse_append] at h2
  exact h2

theorem dropWhile_eq_self_of_head (l : List α) (h : ∀ a, l.head? = some a → p a = false) :
    l.dropWhile p = l := by
  cases l with
  | nil => rfl
  | cons a t => simp [List.dropWhile_cons, h a rfl]

theorem head_dropWhile (l : List α) : ∀ a, (l.dropWhile p).head? = some a → p a = false := by
  induction l with
  | nil => intro a h; simp at h
  | cons b t ih =>
    intro a h
    by_cases hb : p b = true
    · simp only [List.dropWhile_cons, hb, if_true] at h; exact ih a h
    · simp only [List.dropWhile_cons, hb] at h
      simp at h; subst h; simpa using hb

theorem trimP_idem (l : List α) : trimP p (trimP p l) = trimP p l := by
  unfold trimP
  have hA := head_dropWhile p l
  obtain ⟨suf, hsuf⟩ := rtrim_prefix p (l.dropWhile p)
  have hhead : ∀ a, (rtrim p (l.dropWhile p)).head? = some a → p a = false := by
    intro a ha
    apply hA a
    rw [hsuf]
    cases hr : rtrim p (l.dropWhile p) with
    | nil => rw [hr] at ha; simp at ha
    | cons x t => rw [hr] at ha; simpa using ha
  rw [dropWhile_eq_self_of_head p _ hhead, rtrim_idem]

end RLV.Trim
