import RLV.Model.Disp
/-! The layout arithmetic of the redisplay for buffers of several lines (`core.CoordinatesLine`,
`core.CoordinatesCursor` as modelled in Model/Disp.lean, width-1 glyphs): the buffer is the lines `ls`
joined by newlines; the rows used and the cursor cell are those of the lines laid out one below the other,
each from the indentation on, wrapped at the width. -/
namespace RLV.Disp

/-- the buffer made of the lines `ls` (none of which contains a newline) -/
def joinNL : List (List Nat) → List Nat
  | [] => []
  | [a] => a
  | a :: b :: t => a ++ 10 :: joinNL (b :: t)

def nlStep (acc : List (List Nat) × List Nat) (c : Nat) : List (List Nat) × List Nat :=
  if c = 10 then (acc.1 ++ [acc.2], []) else (acc.1, acc.2 ++ [c])

theorem splitNL_eq (l : List Nat) : splitNL l = (l.foldl nlStep ([], [])).1 ++ [(l.foldl nlStep ([], [])).2] := rfl

theorem foldl_nl_free (a : List Nat) (h : 10 ∉ a) : ∀ (acc : List (List Nat)) (cur : List Nat),
    a.foldl nlStep (acc, cur) = (acc, cur ++ a) := by
  induction a with
  | nil => intro acc cur; simp
  | cons c t ih =>
    intro acc cur
    have hc : c ≠ 10 := fun e => h (by simp [e])
    have ht : 10 ∉ t := fun e => h (by simp [e])
    simp only [List.foldl_cons, nlStep, hc, if_false]
    rw [ih ht]
    simp

theorem foldl_nl_prefix (b : List Nat) : ∀ (acc X : List (List Nat)) (cur : List Nat),
    b.foldl nlStep (acc ++ X, cur) = (acc ++ (b.foldl nlStep (X, cur)).1, (b.foldl nlStep (X, cur)).2) := by
  induction b with
  | nil => intro acc X cur; rfl
  | cons c t ih =>
    intro acc X cur
    simp only [List.foldl_cons, nlStep]
    by_cases hc : c = 10
    · simp only [hc, if_true]
      rw [List.append_assoc]
      exact ih acc (X ++ [cur]) []
    · simp only [hc, if_false]
      exact ih acc X (cur ++ [c])

theorem splitNL_line (a b : List Nat) (h : 10 ∉ a) : splitNL (a ++ 10 :: b) = a :: splitNL b := by
  rw [splitNL_eq, splitNL_eq, List.foldl_append, foldl_nl_free a h, List.foldl_cons]
  simp only [nlStep, if_true, List.nil_append]
  have := foldl_nl_prefix b [a] [] []
  simp only [List.append_nil] at this
  rw [this]
  simp

theorem splitNL_single (a : List Nat) (h : 10 ∉ a) : splitNL a = [a] := by
  rw [splitNL_eq, foldl_nl_free a h]
  simp

/-- the lines of the buffer made of `ls` are `ls` -/
theorem splitNL_join : ∀ (ls : List (List Nat)), ls ≠ [] → (∀ ln ∈ ls, 10 ∉ ln) → splitNL (joinNL ls) = ls
  | [], h, _ => absurd rfl h
  | [a], _, hn => splitNL_single a (hn a (by simp))
  | a :: b :: t, _, hn => by
    show splitNL (a ++ 10 :: joinNL (b :: t)) = _
    rw [splitNL_line a _ (hn a (by simp)), splitNL_join (b :: t) (by simp) (fun ln h => hn ln (by simp [h]))]

/-- every buffer is made of its lines -/
theorem join_splitNL : ∀ (n : Nat) (l : List Nat), l.length ≤ n →
    ∃ ls, ls ≠ [] ∧ (∀ ln ∈ ls, 10 ∉ ln) ∧ joinNL ls = l := by
  intro n
  induction n with
  | zero =>
    intro l h
    have : l = [] := List.length_eq_zero_iff.mp (by omega)
    subst this
    exact ⟨[[]], by simp, by simp, rfl⟩
  | succ n ih =>
    intro l h
    by_cases hnl : 10 ∈ l
    · -- split at the first newline
      obtain ⟨a, b, hab, ha⟩ := List.eq_append_cons_of_mem hnl
      obtain ⟨ls, hne, hfree, hj⟩ := ih b (by rw [hab] at h; simp at h; omega)
      refine ⟨a :: ls, by simp, ?_, ?_⟩
      · intro ln hln
        simp only [List.mem_cons] at hln
        rcases hln with rfl | hln
        · exact ha
        · exact hfree ln hln
      · cases ls with
        | nil => exact absurd rfl hne
        | cons x t => rw [hab, ← hj]; rfl
    · exact ⟨[l], by simp, by simpa using hnl, rfl⟩

/-- rows that the lines `ls` add to the row count, the first of them being line number `i` of the buffer:
each line wraps at the width from the indentation on, and every line but the first starts a new row -/
def rowsFrom (w p : Nat) : Nat → List (List Nat) → Nat
  | _, [] => 0
  | i, ln :: t => (lineSpan w ln i p).2 + rowsFrom w p (i + 1) t

def clStep (w p : Nat) (acc : Nat × Nat × Nat) (ln : List Nat) : Nat × Nat × Nat :=
  ((lineSpan w ln acc.2.2 p).1, acc.2.1 + (lineSpan w ln acc.2.2 p).2, acc.2.2 + 1)

theorem coordsLine_eq (w : Nat) (l : List Nat) (p : Nat) :
    coordsLine w l p = (((splitNL l).foldl (clStep w p) (0, 0, 0)).1, ((splitNL l).foldl (clStep w p) (0, 0, 0)).2.1) := rfl

theorem foldl_clStep (w p : Nat) : ∀ (ls : List (List Nat)) (x0 y0 i0 : Nat),
    ls.foldl (clStep w p) (x0, y0, i0) =
      (match ls.getLast? with | some ln => (ln.length + p) % w | none => x0, y0 + rowsFrom w p i0 ls, i0 + ls.length) := by
  intro ls
  induction ls with
  | nil => intro x0 y0 i0; rfl
  | cons ln t ih =>
    intro x0 y0 i0
    simp only [List.foldl_cons, clStep]
    rw [ih]
    cases t with
    | nil => simp [rowsFrom, lineSpan]
    | cons b t' =>
      simp only [List.getLast?_cons_cons, rowsFrom, List.length_cons]
      refine Prod.ext rfl (Prod.ext ?_ ?_) <;> simp only <;> omega

/-- `CoordinatesLine`: the column after the last line, and the rows below the first one -/
theorem coordsLine_join (w p : Nat) (ls : List (List Nat)) (hne : ls ≠ []) (hfree : ∀ ln ∈ ls, 10 ∉ ln) :
    coordsLine w (joinNL ls) p = (((ls.getLast hne).length + p) % w, rowsFrom w p 0 ls) := by
  rw [coordsLine_eq, splitNL_join ls hne hfree, foldl_clStep]
  rw [List.getLast?_eq_some_getLast hne]
  simp

end RLV.Disp
