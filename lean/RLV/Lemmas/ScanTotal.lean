import RLV.Model.Scan
/-! The line scanner never indexes or slices out of range (C12): every function of `Model/Scan`
returns `.ok _` on every rune array, with the position bounds the next stage relies on. -/
namespace RLV.Inputrc
open RLV.Core (G Panic)

theorem idx_ok (r : RS) (i : Nat) (h : i < r.size) : idx r i = .ok r[i] := by
  simp [idx, h, pure, Except.pure]

theorem sliceS_ok (r : RS) (a b : Nat) (h1 : a ≤ b) (h2 : b ≤ r.size) : ∃ l, sliceS r a b = .ok l := by
  simp [sliceS, h1, h2, pure, Except.pure]

theorem findNonSpace_ok (r : RS) (e : Nat) (he : e ≤ r.size) :
    ∀ (f i : Nat), ∃ v, findNonSpace r e f i = .ok v ∧ i ≤ v ∧ (v ≤ e ∨ v = i) := by
  intro f
  induction f with
  | zero => intro i; exact ⟨i, rfl, Nat.le_refl _, Or.inr rfl⟩
  | succ f ih =>
    intro i
    by_cases hi : i < e
    · simp only [findNonSpace, hi, if_true, idx_ok r i (by omega), bind, Except.bind]
      split
      · obtain ⟨v, h1, h2, h3⟩ := ih (i + 1)
        exact ⟨v, h1, by omega, by omega⟩
      · exact ⟨i, rfl, Nat.le_refl _, Or.inl (by omega)⟩
    · simp only [findNonSpace, hi, if_false]
      exact ⟨i, rfl, Nat.le_refl _, Or.inr rfl⟩

/-- with enough fuel the scan stops on a rune that is not a space -/
theorem findNonSpace_stop (r : RS) (e : Nat) (he : e ≤ r.size) :
    ∀ (f i : Nat), e ≤ i + f → ∀ v, findNonSpace r e f i = .ok v → ∀ (hv : v < e), isSpaceU (r[v]'(by omega)) = false := by
  intro f
  induction f with
  | zero =>
    intro i hf v h hv
    simp only [findNonSpace, pure, Except.pure] at h
    injection h with h; omega
  | succ f ih =>
    intro i hf v h hv
    by_cases hi : i < e
    · simp only [findNonSpace, hi, if_true, idx_ok r i (by omega), bind, Except.bind] at h
      split at h
      · exact ih (i + 1) (by omega) v h hv
      · rename_i hsp
        simp only [pure, Except.pure] at h
        injection h with h
        subst h
        simpa using hsp
    · simp only [findNonSpace, hi, if_false, pure, Except.pure] at h
      injection h with h; omega

theorem isSpaceU_zero : isSpaceU 0 = false := by decide +kernel

theorem findEnd_ok (r : RS) (e : Nat) (he : e ≤ r.size) :
    ∀ (f i : Nat), ∃ v, findEnd r e f i = .ok v ∧ i ≤ v ∧ (v ≤ e ∨ v = i) := by
  intro f
  induction f with
  | zero => intro i; exact ⟨i, rfl, Nat.le_refl _, Or.inr rfl⟩
  | succ f ih =>
    intro i
    by_cases hi : i < e
    · simp only [findEnd, hi, if_true, idx_ok r i (by omega), bind, Except.bind]
      split
      · exact ⟨i, rfl, Nat.le_refl _, Or.inl (by omega)⟩
      · obtain ⟨v, h1, h2, h3⟩ := ih (i + 1)
        exact ⟨v, h1, by omega, by omega⟩
    · simp only [findEnd, hi, if_false]
      exact ⟨i, rfl, Nat.le_refl _, Or.inr rfl⟩

theorem keyEnd_ok (r : RS) (e : Nat) (he : e ≤ r.size) :
    ∀ (f i : Nat), ∃ v, keyEnd r e f i = .ok v ∧ i ≤ v ∧ (v ≤ e ∨ v = i) := by
  intro f
  induction f with
  | zero => intro i; exact ⟨i, rfl, Nat.le_refl _, Or.inr rfl⟩
  | succ f ih =>
    intro i
    by_cases hi : i < e
    · simp only [keyEnd, hi, if_true, idx_ok r i (by omega), bind, Except.bind]
      split
      · exact ⟨i, rfl, Nat.le_refl _, Or.inl (by omega)⟩
      · obtain ⟨v, h1, h2, h3⟩ := ih (i + 1)
        exact ⟨v, h1, by omega, by omega⟩
    · simp only [keyEnd, hi, if_false]
      exact ⟨i, rfl, Nat.le_refl _, Or.inr rfl⟩

theorem seekColon_ok (r : RS) (e : Nat) (he : e ≤ r.size) :
    ∀ (f i : Nat), ∃ v, seekColon r e f i = .ok v ∧ i ≤ v ∧ (v ≤ e ∨ v = i) := by
  intro f
  induction f with
  | zero => intro i; exact ⟨i, rfl, Nat.le_refl _, Or.inr rfl⟩
  | succ f ih =>
    intro i
    by_cases hi : i < e
    · simp only [seekColon, hi, if_true, idx_ok r i (by omega), bind, Except.bind]
      split
      · obtain ⟨v, h1, h2, h3⟩ := ih (i + 1)
        exact ⟨v, h1, by omega, by omega⟩
      · exact ⟨i, rfl, Nat.le_refl _, Or.inl (by omega)⟩
    · simp only [seekColon, hi, if_false]
      exact ⟨i, rfl, Nat.le_refl _, Or.inr rfl⟩

/-- the string loop: when it finds the closing quote, the position after it is inside the line -/
theorem stringEndLoop_ok (r : RS) (e q : Nat) (he : e ≤ r.size) :
    ∀ (f p : Nat), ∃ v b, stringEndLoop r e q f p = .ok (v, b) ∧ (b = true → p < v ∧ v ≤ e) := by
  intro f
  induction f with
  | zero => intro p; exact ⟨p, false, rfl, by simp⟩
  | succ f ih =>
    intro p
    by_cases hp : p < e
    · simp only [stringEndLoop, hp, if_true, idx_ok r p (by omega), bind, Except.bind]
      split
      · obtain ⟨v, b, h1, h2⟩ := ih (p + 2)
        exact ⟨v, b, h1, fun hb => by have := h2 hb; omega⟩
      · split
        · exact ⟨p + 1, true, rfl, fun _ => by omega⟩
        · obtain ⟨v, b, h1, h2⟩ := ih (p + 1)
          exact ⟨v, b, h1, fun hb => by have := h2 hb; omega⟩
    · simp only [stringEndLoop, hp, if_false]
      exact ⟨p, false, rfl, by simp⟩

theorem findStringEnd_ok (r : RS) (pos e : Nat) (he : e ≤ r.size) (hp : pos < e) :
    ∃ v b, findStringEnd r pos e = .ok (v, b) ∧ (b = true → pos + 1 < v ∧ v ≤ e) := by
  obtain ⟨v, b, h1, h2⟩ := stringEndLoop_ok r e r[pos] he (e + 1) (pos + 1)
  refine ⟨v, b, ?_, h2⟩
  simp [findStringEnd, idx_ok r pos (by omega), bind, Except.bind, h1]

theorem unescRange_ok (r : RS) (i e : Nat) (he : e ≤ r.size) : ∃ l, unescRange r i e = .ok l := by
  unfold unescRange
  by_cases h1 : r.size = 1
  · simp [h1, pure, Except.pure]
  · by_cases h2 : e < i
    · simp [h1, h2, pure, Except.pure]
    · obtain ⟨l, hl⟩ := sliceS_ok r i e (by omega) he
      simp [h1, h2, hl, bind, Except.bind, pure, Except.pure]


theorem readSymbols_ok (r : RS) (pos : Nat) (tok : Tok) (allow : Bool) (hp : pos ≤ r.size) :
    ∃ v, readSymbols r pos r.size tok allow = .ok v := by
  unfold readSymbols
  obtain ⟨s1, h1, h1a, h1b⟩ := findNonSpace_ok r r.size (Nat.le_refl _) (r.size + 1) pos
  obtain ⟨p1, h2, h2a, h2b⟩ := findEnd_ok r r.size (Nat.le_refl _) (r.size + 1) s1
  obtain ⟨val, h3⟩ := sliceS_ok r s1 p1 h2a (by omega)
  obtain ⟨s2, h4, h4a, h4b⟩ := findNonSpace_ok r r.size (Nat.le_refl _) (r.size + 1) p1
  obtain ⟨p4, h6, h6a, h6b⟩ := findEnd_ok r r.size (Nat.le_refl _) (r.size + 1) s2
  simp only [h1, h2, h3, h4, bind, Except.bind]
  by_cases hc : s2 < r.size ∧ (grabA r s2 r.size = 0x22 ∨ grabA r s2 r.size = 0x27)
  · obtain ⟨ep, ok, h5, h5b⟩ := findStringEnd_ok r s2 r.size (Nat.le_refl _) hc.1
    simp only [hc, and_self, if_true, h5, pure, Except.pure]
    by_cases hok : (!allow || !ok) = true
    · obtain ⟨v, hv⟩ := sliceS_ok r s2 p4 h6a (by omega)
      simp [hok, h6, hv]
    · simp only [hok]
      have hokt : ok = true := by
        cases ok <;> simp_all
      have := h5b hokt
      obtain ⟨v, hv⟩ := sliceS_ok r s2 ep (by omega) this.2
      simp [hokt, hv]
  · simp only [hc, if_false, pure, Except.pure]
    by_cases hok : (!allow || !false) = true
    · obtain ⟨v, hv⟩ := sliceS_ok r s2 p4 h6a (by omega)
      simp [h6, hv]
    · simp at hok

theorem decodeKey_ok (r : RS) (pos : Nat) (hp : pos ≤ r.size) :
    ∃ v, decodeKey r pos r.size = .ok v ∧ ∀ k np, v = .ok (k, np) → pos ≤ np ∧ np ≤ r.size := by
  unfold decodeKey
  obtain ⟨p, h1, h1a, h1b⟩ := keyEnd_ok r r.size (Nat.le_refl _) (r.size + 1) pos
  obtain ⟨raw, h2⟩ := sliceS_ok r pos p h1a (by omega)
  simp only [h1, h2, bind, Except.bind]
  split
  · exact ⟨_, rfl, by intro k np h; cases h⟩
  · simp only [pure, Except.pure]
    repeat' split
    all_goals refine ⟨_, rfl, ?_⟩
    all_goals (intro k np h; injection h with h; injection h with _ h; subst h; omega)

theorem readAction_ok (r : RS) (ks : List Nat) (p : Nat) (hp : p ≤ r.size) :
    ∃ v, readAction r r.size ks p = .ok v := by
  unfold readAction
  obtain ⟨c, h1, h1a, h1b⟩ := seekColon_ok r r.size (Nat.le_refl _) (r.size + 1) p
  simp only [h1, bind, Except.bind, pure, Except.pure]
  by_cases hce : (c == r.size) = true
  · simp [hce]
  · have hc : c < r.size := by
      have : c ≠ r.size := by simpa using hce
      omega
    simp only [hce, Bool.false_eq_true, if_false, idx_ok r c hc]
    split
    · exact ⟨_, rfl⟩
    · obtain ⟨q, h2, h2a, h2b⟩ := findNonSpace_ok r r.size (Nat.le_refl _) (r.size + 1) (c + 1)
      simp only [h2]
      by_cases hqe : (q == r.size) = true
      · simp [hqe]
      · have hq : q < r.size := by
          have : q ≠ r.size := by simpa using hqe
          omega
        simp only [hqe, Bool.false_eq_true, if_false, idx_ok r q hq]
        split
        · exact ⟨_, rfl⟩
        · split
          · obtain ⟨ep, ok, h3, h3b⟩ := findStringEnd_ok r q r.size (Nat.le_refl _) hq
            simp only [h3]
            cases ok with
            | false => simp
            | true =>
              have := h3b rfl
              obtain ⟨l, hl⟩ := unescRange_ok r (q + 1) (ep - 1) (by omega)
              simp [hl]
          · obtain ⟨e2, h4, h4a, h4b⟩ := findEnd_ok r r.size (Nat.le_refl _) (r.size + 1) q
            obtain ⟨v, hv⟩ := sliceS_ok r q e2 h4a (by omega)
            simp [h4, hv]

theorem readNext_ok (r : RS) (pos : Nat) (hp : pos < r.size) (hns : isSpaceU r[pos] = false) :
    ∃ v, readNext r pos r.size = .ok v := by
  unfold readNext
  have h1 : findNonSpace r r.size (r.size + 1) pos = .ok pos := by
    simp [findNonSpace, hp, idx_ok r pos hp, bind, Except.bind, hns, pure, Except.pure]
  simp only [h1, bind, Except.bind, idx_ok r pos hp, pure, Except.pure]
  split
  · rename_i hset
    have h3 : pos + 3 < r.size := by
      apply Nat.lt_of_not_le
      intro hcon
      have : grabA r (pos + 3) r.size = 0 := by
        have : ¬ pos + 3 < r.size := by omega
        simp [grabA, this]
      simp only [Bool.and_eq_true] at hset
      have h4 := hset.2
      rw [this, isSpaceU_zero] at h4
      exact absurd h4 (by simp)
    obtain ⟨v, hv⟩ := readSymbols_ok r (pos + 4) .set true (by omega)
    simp [hv]
  · split
    · obtain ⟨v, hv⟩ := readSymbols_ok r pos .construct false (by omega)
      simp [hv]
    · split
      · obtain ⟨ep, ok, h3, h3b⟩ := findStringEnd_ok r pos r.size (Nat.le_refl _) hp
        simp only [h3]
        cases ok with
        | false => simp
        | true =>
          have := h3b rfl
          obtain ⟨l, hl⟩ := unescRange_ok r (pos + 1) (ep - 1) (by omega)
          obtain ⟨v, hv⟩ := readAction_ok r l ep this.2
          simp [hl, hv]
      · obtain ⟨dk, hdk, hb⟩ := decodeKey_ok r pos (by omega)
        simp only [hdk]
        cases dk with
        | error er => simp
        | ok kv =>
          obtain ⟨k, np⟩ := kv
          have := hb k np rfl
          obtain ⟨v, hv⟩ := readAction_ok r k np this.2
          simp [hv]

/-- C12, scanner level: whatever the line, scanning it yields a value — a token, a parse error
or "skip" — never a Go panic. -/
theorem scanLine_ok (r : RS) : ∃ v, scanLine r = .ok v := by
  unfold scanLine
  obtain ⟨p, h1, _, h1b⟩ := findNonSpace_ok r r.size (Nat.le_refl _) (r.size + 1) 0
  simp only [h1, bind, Except.bind, pure, Except.pure]
  by_cases hpe : (p == r.size) = true
  · simp [hpe]
  · have hp : p < r.size := by
      have : p ≠ r.size := by simpa using hpe
      omega
    simp only [hpe, Bool.false_eq_true, if_false, idx_ok r p hp]
    split
    · exact ⟨_, rfl⟩
    · -- the rune at `p` is not a space: `findNonSpace` stopped there
      have hns : isSpaceU r[p] = false :=
        findNonSpace_stop r r.size (Nat.le_refl _) (r.size + 1) 0 (by omega) p h1 hp
      obtain ⟨v, hv⟩ := readNext_ok r p hp hns
      simp [hv]

end RLV.Inputrc
