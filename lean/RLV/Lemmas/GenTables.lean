import RLV.Gen.Binds
import RLV.Lemmas.Dispatch
namespace RLV.Gen
open RLV

def selfIns : Bind := ⟨"self-insert", false⟩

/-- table after ConvertMeta + UTF-8, in the order given (no sort) -/
def normU (tbl : List (List Nat × Bind)) : List (Seq × Bind) :=
  tbl.map fun e => (utf8 (convertMeta e.1), e.2)

/-- order-free facts: every entry whose normal form is `[b]` is bound to `bd`, one exists,
and no entry properly extends `[b]` -/
def byteOK (tbl : List (Seq × Bind)) (b : Nat) (bd : Bind) : Bool :=
  tbl.all (fun e => e.1 != [b] || e.2 == bd) && tbl.any (fun e => e.1 == [b]) &&
  !hasProperExt [b] tbl

def asciiOK (tbl : List (Seq × Bind)) : Bool :=
  (List.range 95).all fun i => byteOK tbl (0x20 + i) selfIns

theorem emacs_ascii : asciiOK (normU emacs) = true := by decide +kernel
theorem emacs_cr : byteOK (normU emacs) 0x0d ⟨"accept-line", false⟩ = true := by decide +kernel
theorem viins_ascii : asciiOK (normU vi_insert) = true := by decide +kernel
theorem viins_cr : byteOK (normU vi_insert) 0x0d ⟨"accept-line", false⟩ = true := by decide +kernel

end RLV.Gen
