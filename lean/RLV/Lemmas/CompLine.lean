import RLV.Model.CompLine
import RLV.Lemmas.Kill
/-! Lemmas about the two lines of the completion engine (`Model/CompLine`). -/
namespace RLV.CompLine
open RLV.Core RLV.Comp

/-- the state the completion was started in is sane: cursor in the line, the prefix before the cursor -/
structure Good (s : St) : Prop where
  h0 : 0 ≤ s.cur
  h1 : s.cur ≤ len s.line
  hp : (s.pfx.length : Int) ≤ s.cur

/-- a candidate value the engine inserts: no NUL rune, passes the byte-length guard -/
structure OKv (s : St) (v : List Nat) : Prop where
  hz : ∀ c ∈ v, c ≠ 0
  hg : ¬ v.length < s.pfx.length

/-- the line that shows candidate `v` in place of the prefix -/
def shown (s : St) (v : List Nat) : Line :=
  s.line.take (s.cur - s.pfx.length).toNat ++ v ++ s.line.drop s.cur.toNat

def shownCur (s : St) (v : List Nat) : Int := s.cur - s.pfx.length + v.length

theorem clamp_id (l : Line) (p : Int) (h0 : 0 ≤ p) (h1 : p ≤ len l) : clamp l p = p := by
  unfold clamp
  split
  · omega
  · split
    · omega
    · rfl

theorem insertCandidate_spec (l : Line) (cpos : Int) (pfx value : List Nat)
    (h0 : 0 ≤ cpos) (h1 : cpos ≤ len l) (hp : (pfx.length : Int) ≤ cpos)
    (hz : ∀ c ∈ value, c ≠ 0) (hg : ¬ value.length < pfx.length) :
    insertCandidate l cpos pfx value =
      .ok (l.take (cpos - pfx.length).toNat ++ value ++ l.drop cpos.toNat, cpos - pfx.length + value.length) := by
  unfold insertCandidate
  simp only [hg, if_false, bind, Except.bind, pure, Except.pure]
  have hb0 : 0 ≤ cpos - (pfx.length : Int) := by omega
  have c1 : ¬ cpos - (pfx.length : Int) < 0 := by omega
  have c2 : ¬ cpos - (pfx.length : Int) > len l := by omega
  simp only [c1, c2, if_false]
  have hcut := cut_spec l (cpos - pfx.length) (cpos - pfx.length + pfx.length) hb0 (by omega) (by omega)
  have he : cpos - (pfx.length : Int) + pfx.length = cpos := by omega
  rw [he] at hcut
  simp only [he, hcut]
  have htl : (l.take (cpos - pfx.length).toNat).length = (cpos - pfx.length).toNat := by
    rw [List.length_take]; unfold len at h1; omega
  have hlen : len (l.take (cpos - pfx.length).toNat ++ l.drop cpos.toNat) ≥ cpos - pfx.length := by
    unfold len
    rw [List.length_append, htl]
    omega
  have c3 : ¬ cpos - (pfx.length : Int) > len (l.take (cpos - pfx.length).toNat ++ l.drop cpos.toNat) := by omega
  simp only [c3, if_false]
  rw [insert_spec _ (cpos - pfx.length) value hz hb0 (by omega)]
  have e1 : (l.take (cpos - pfx.length).toNat ++ l.drop cpos.toNat).take (cpos - pfx.length).toNat
      = l.take (cpos - pfx.length).toNat := by
    rw [List.take_append_of_le_length (by omega)]
    exact List.take_of_length_le (by omega)
  have e2 : (l.take (cpos - pfx.length).toNat ++ l.drop cpos.toNat).drop (cpos - pfx.length).toNat
      = l.drop cpos.toNat := by
    rw [List.drop_append_of_le_length (by omega), List.drop_of_length_le (by omega)]; rfl
  rw [e1, e2]

/-- `insertCand` from a sane state -/
theorem insertCand_spec (s : St) (v : List Nat) (g : Good s) (ok : OKv s v) :
    insertCand s v = .ok { s with sel := v, cline := shown s v, ccur := shownCur s v, alias := false } := by
  unfold insertCand
  simp only [ok.hg, if_false, bind, Except.bind, pure, Except.pure]
  rw [clamp_id s.line s.cur g.h0 g.h1]
  rw [insertCandidate_spec s.line s.cur s.pfx v g.h0 g.h1 g.hp ok.hz ok.hg]
  rfl

theorem cancelCompleted_line (s : St) : (cancelCompleted s).line = s.line := by
  unfold cancelCompleted; split <;> rfl

theorem cancelCompleted_pfx (s : St) : (cancelCompleted s).pfx = s.pfx := by
  unfold cancelCompleted; split <;> rfl

theorem cancelCompleted_cur (s : St) (g : Good s) : (cancelCompleted s).cur = s.cur := by
  unfold cancelCompleted
  have := clamp_id s.line s.cur g.h0 g.h1
  split <;> simp [this]

theorem cancelCompleted_good (s : St) (g : Good s) : Good (cancelCompleted s) := by
  refine ⟨?_, ?_, ?_⟩
  · rw [cancelCompleted_cur s g]; exact g.h0
  · rw [cancelCompleted_cur s g, cancelCompleted_line]; exact g.h1
  · rw [cancelCompleted_cur s g, cancelCompleted_pfx]; exact g.hp

/-- what `Select` leaves: the real pair and the prefix untouched, the virtual pair showing `v` only -/
structure Shows (s0 s : St) (v : List Nat) : Prop where
  line : s.line = s0.line
  cur : s.cur = s0.cur
  pfx : s.pfx = s0.pfx
  sel : s.sel = v
  alias : s.alias = false
  cline : s.cline = shown s0 v
  ccur : s.ccur = shownCur s0 v

theorem select_spec (s : St) (v : List Nat) (g : Good s) (ok : OKv s v) :
    ∃ s', select s v = .ok s' ∧ Shows s s' v := by
  unfold select
  by_cases hs : s.sel ≠ []
  · rw [if_pos hs]
    have g' := cancelCompleted_good s g
    have ok' : OKv (cancelCompleted s) v := ⟨ok.hz, by rw [cancelCompleted_pfx]; exact ok.hg⟩
    refine ⟨_, insertCand_spec _ v g' ok', ?_⟩
    have e1 := cancelCompleted_line s
    have e2 := cancelCompleted_cur s g
    have e3 := cancelCompleted_pfx s
    refine ⟨e1, e2, e3, rfl, rfl, ?_, ?_⟩
    · show shown (cancelCompleted s) v = shown s v
      unfold shown; rw [e1, e2, e3]
    · show shownCur (cancelCompleted s) v = shownCur s v
      unfold shownCur; rw [e2, e3]
  · rw [if_neg hs]
    exact ⟨_, insertCand_spec s v g ok, ⟨rfl, rfl, rfl, rfl, rfl, rfl, rfl⟩⟩

theorem shows_good {s0 s : St} {v : List Nat} (g : Good s0) (h : Shows s0 s v) : Good s :=
  ⟨by rw [h.cur]; exact g.h0, by rw [h.cur, h.line]; exact g.h1, by rw [h.cur, h.pfx]; exact g.hp⟩

/-- cycling through any list of candidates: the state after the last `Select` shows the last
candidate only, and the real pair is the one the cycle started from -/
theorem selects_spec (s : St) (vs : List (List Nat)) (v : List Nat) (g : Good s)
    (ok : ∀ w ∈ vs ++ [v], OKv s w) :
    ∃ s', selects s (vs ++ [v]) = .ok s' ∧ Shows s s' v := by
  induction vs generalizing s with
  | nil =>
    obtain ⟨s', h1, h2⟩ := select_spec s v g (ok v (by simp))
    exact ⟨s', by simp [selects, h1, bind, Except.bind, pure, Except.pure], h2⟩
  | cons w ws ih =>
    obtain ⟨s1, h1, h2⟩ := select_spec s w g (ok w (by simp))
    have g1 := shows_good g h2
    have ok1 : ∀ u ∈ ws ++ [v], OKv s1 u := by
      intro u hu
      have := ok u (by simp at hu ⊢; rcases hu with h | h; exact Or.inr (Or.inl h); exact Or.inr (Or.inr h))
      exact ⟨this.hz, by rw [h2.pfx]; exact this.hg⟩
    obtain ⟨s', h3, h4⟩ := ih s1 g1 ok1
    refine ⟨s', ?_, ?_⟩
    · simp only [List.cons_append, selects, h1, bind, Except.bind]
      exact h3
    · refine ⟨?_, ?_, ?_, h4.sel, h4.alias, ?_, ?_⟩
      · rw [h4.line, h2.line]
      · rw [h4.cur, h2.cur]
      · rw [h4.pfx, h2.pfx]
      · rw [h4.cline]; unfold shown; rw [h2.line, h2.cur, h2.pfx]
      · rw [h4.ccur]; unfold shownCur; rw [h2.cur, h2.pfx]

theorem shown_len (s : St) (v : List Nat) (g : Good s) :
    0 ≤ shownCur s v ∧ shownCur s v ≤ len (shown s v) := by
  have h1 := g.h1
  have hp := g.hp
  unfold shownCur shown len at *
  simp only [List.length_append, List.length_take, List.length_drop]
  omega

/-- `Cancel(true, _)` from any sane state: the real pair is untouched and nothing is selected any more -/
theorem cancel_true_spec (s : St) (g : Good s) :
    (cancel s true).line = s.line ∧ (cancel s true).cur = s.cur ∧ (cancel s true).sel = [] ∧
    (cancel s true).pfx = s.pfx := by
  have hc := clamp_id s.line s.cur g.h0 g.h1
  unfold cancel cancelCompleted
  by_cases ha : s.alias <;> simp [ha, hc]

theorem visible_unselected (s : St) (g : Good s) (h : s.sel = []) : visible s = (s.line, s.cur) := by
  unfold visible
  simp [h, clamp_id s.line s.cur g.h0 g.h1]

theorem visible_shows {s0 s : St} {v : List Nat} (g : Good s0) (h : Shows s0 s v) (hv : v ≠ []) :
    visible s = (shown s0 v, shownCur s0 v) := by
  have hl := shown_len s0 v g
  unfold visible vline vcur
  simp only [h.sel, hv, ne_eq, not_false_eq_true, if_true, h.alias, Bool.false_eq_true, if_false, h.cline, h.ccur]
  rw [clamp_id _ _ hl.1 hl.2]

/-- `Cancel(false, _)` while `v` is shown: the virtual pair becomes the real pair -/
theorem cancel_false_spec {s0 s : St} {v : List Nat} (g : Good s0) (h : Shows s0 s v) (hv : v ≠ []) :
    (cancel s false).line = shown s0 v ∧ (cancel s false).cur = shownCur s0 v ∧ (cancel s false).sel = [] := by
  have hl := shown_len s0 v g
  have hc := clamp_id _ _ hl.1 hl.2
  unfold cancel cancelCompleted
  simp [h.sel, hv, h.alias, h.cline, h.ccur, hc]

end RLV.CompLine
