import RLV.Lemmas.Loop
import RLV.Lemmas.GenTables
/-! Facts about the regenerated default keymaps, lifted from the kernel-decided order-free facts of
`Lemmas/GenTables` to the sorted tables the dispatcher works on. -/
namespace RLV.Loop
open RLV RLV.Gen

theorem lastExact_of_all (ks : Seq) (bd : Bind) (tbl : List (Seq × Bind)) :
    ∀ acc, (∀ e ∈ tbl, e.1 = ks → e.2 = bd) → ((∃ e ∈ tbl, e.1 = ks) ∨ acc = bd) →
      tbl.foldl (fun acc e => if ks = e.1 then e.2 else acc) acc = bd := by
  induction tbl with
  | nil => intro acc _ h; rcases h with ⟨e, he, _⟩ | h; · simp at he
           · simpa using h
  | cons e t ih =>
    intro acc hall hex
    simp only [List.foldl_cons]
    apply ih
    · intro x hx; exact hall x (by simp [hx])
    · by_cases he : ks = e.1
      · by_cases ht : ∃ x ∈ t, x.1 = ks
        · exact Or.inl ht
        · right; simp [he]; exact hall e (by simp) he.symm
      · rcases hex with ⟨x, hx, hxk⟩ | h
        · simp only [List.mem_cons] at hx
          rcases hx with rfl | hx
          · exact absurd hxk.symm he
          · exact Or.inl ⟨x, hx, hxk⟩
        · right; simp [he, h]

theorem norm_perm (tbl : List (List Nat × Bind)) : (norm tbl).Perm (normU tbl) := by
  unfold norm normU
  have h := (List.mergeSort_perm (tbl.map fun e => (utf8 e.1, e)) (fun a b => seqLe a.1 b.1)).map
    (fun e => (utf8 (convertMeta e.2.1), e.2.2))
  simpa [List.map_map, Function.comp_def] using h

theorem byteOK_facts (tbl : List (Seq × Bind)) (tbl' : List (Seq × Bind)) (hp : tbl'.Perm tbl)
    (b : Nat) (bd : Bind) (h : byteOK tbl b bd = true) :
    lastExact [b] tbl' = bd ∧ hasProperExt [b] tbl' = false := by
  simp only [byteOK, Bool.and_eq_true, List.all_eq_true, List.any_eq_true, Bool.or_eq_true,
    bne_iff_ne, beq_iff_eq, Bool.not_eq_true'] at h
  obtain ⟨⟨hall, hex⟩, hext⟩ := h
  constructor
  · unfold lastExact
    apply lastExact_of_all
    · intro e he hk
      have := hall e (hp.mem_iff.mp he)
      rcases this with h1 | h1
      · exact absurd hk h1
      · exact h1
    · left
      obtain ⟨e, he, hk⟩ := hex
      exact ⟨e, hp.mem_iff.mpr he, hk⟩
  · unfold hasProperExt at hext ⊢
    rw [Bool.eq_false_iff] at hext ⊢
    intro hcon
    apply hext
    rw [List.any_eq_true] at hcon ⊢
    obtain ⟨e, he, hh⟩ := hcon
    exact ⟨e, hp.mem_iff.mp he, hh⟩

/-- the real Emacs table (regenerated from /repo) satisfies what the theorem needs -/
theorem emacs_tableOK (e : Eng) (ht : e.mainTbl = norm Gen.emacs)
    (h1 : e.registered.contains "self-insert" = true) (h2 : e.registered.contains "accept-line" = true) :
    TableOK e := by
  have hperm := norm_perm Gen.emacs
  constructor
  · rw [ht]
    cases hn : norm Gen.emacs with
    | nil =>
      have := (byteOK_facts _ _ hperm 13 ⟨"accept-line", false⟩ emacs_cr).1
      rw [hn] at this; simp [lastExact, Bind.none] at this
    | cons _ _ => rfl
  · intro b ⟨hb1, hb2⟩
    rw [ht]
    have hall := emacs_ascii
    simp only [asciiOK, List.all_eq_true, List.mem_range] at hall
    have := hall (b - 0x20) (by omega)
    have hb : 0x20 + (b - 0x20) = b := by omega
    rw [hb] at this
    exact byteOK_facts _ _ hperm b Gen.selfIns this
  · rw [ht]; exact byteOK_facts _ _ hperm 13 _ emacs_cr
  · exact h1
  · exact h2


/-- the real Vi-insert table (regenerated from /repo) satisfies what the theorem needs -/
theorem viins_tableOK (e : Eng) (ht : e.mainTbl = norm Gen.vi_insert)
    (h1 : e.registered.contains "self-insert" = true) (h2 : e.registered.contains "accept-line" = true) :
    TableOK e := by
  have hperm := norm_perm Gen.vi_insert
  constructor
  · rw [ht]
    cases hn : norm Gen.vi_insert with
    | nil =>
      have := (byteOK_facts _ _ hperm 13 ⟨"accept-line", false⟩ viins_cr).1
      rw [hn] at this; simp [lastExact, Bind.none] at this
    | cons _ _ => rfl
  · intro b ⟨hb1, hb2⟩
    rw [ht]
    have hall := viins_ascii
    simp only [asciiOK, List.all_eq_true, List.mem_range] at hall
    have := hall (b - 0x20) (by omega)
    have hb : 0x20 + (b - 0x20) = b := by omega
    rw [hb] at this
    exact byteOK_facts _ _ hperm b Gen.selfIns this
  · rw [ht]; exact byteOK_facts _ _ hperm 13 _ viins_cr
  · exact h1
  · exact h2

end RLV.Loop
