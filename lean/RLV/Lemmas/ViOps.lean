import RLV.Lemmas.Sel
import RLV.Lemmas.Kill
/-! What `Selection.Cut` (the delete operators) removes is what `Selection.Pop` (the yank operators)
copies from the same state (C17). -/
namespace RLV.Sel
open RLV.Core

/-- `Pos()` called again on the selection it has just updated gives the same range:
the second and third calls inside `Cut` (through `Text`) see what the first one saw -/
theorem pos_stable (l : Line) (s : S) (cur : Cur) (b e : Int) (s1 : S)
    (h : pos l s cur = .ok (b, e, s1)) : pos l s1 cur = .ok (b, e, s1) := by
  unfold pos at h
  split at h
  · -- no selection: nothing stored
    rename_i hc
    injection h with h; injection h with h1 h2; injection h2 with h2 h3
    subst h3
    rw [← h1, ← h2]
    unfold pos; rw [if_pos hc]
  · rename_i hc
    simp only at h
    cases hok : (checkRange l s.bpos s.epos).2.2 with
    | false =>
      simp only [hok, Bool.not_false, if_true] at h
      injection h with h; injection h with h1 h2; injection h2 with h2 h3
      subst h3
      unfold pos
      simp only [hc, if_false, hok, Bool.not_false, if_true, h1, h2]
    | true =>
      simp only [hok, Bool.not_true, Bool.false_eq_true, if_false] at h
      have hcr : checkRange l s.bpos s.epos = ((checkRange l s.bpos s.epos).1, (checkRange l s.bpos s.epos).2.1, true) := by
        rw [← hok]
      have hid := checkRange_idem l s.bpos s.epos _ _ hcr
      generalize hb1 : (checkRange l s.bpos s.epos).1 = b1 at h hid
      generalize he1 : (checkRange l s.bpos s.epos).2.1 = e1 at h hid
      -- s1 is s with the checked range stored, and `posFrom` only looks at its flags
      have hs1 : s1 = { s with bpos := b1, epos := e1 } := by
        split at h
        · injection h with h; injection h with _ h2; injection h2 with _ h3; exact h3.symm
        · cases h
      subst hs1
      unfold pos
      have hact1 : ¬ (len l = 0 ∨ (!({ s with bpos := b1, epos := e1 } : S).active) = true) := hc
      simp only [hact1, if_false, hid, Bool.not_true, Bool.false_eq_true]
      exact h

/-- C17: from ANY state, the text `Cut` stores and removes is the text `Pop` copies, it is the
slice `[b, e)` of the buffer, and the buffer afterwards is the buffer without that slice. -/
theorem cut_eq_pop (l : Line) (s : S) (cur : Cur) :
    ∃ t b e l' s', cut l s cur = .ok (t, l', s') ∧ pop l s cur = .ok (t, b, e) ∧
      ((b = -1 ∧ e = -1 ∧ t = [] ∧ l' = l) ∨
       (0 ≤ b ∧ b ≤ e ∧ e ≤ len l ∧ t = (l.drop b.toNat).take (e - b).toNat ∧
        l' = l.take b.toNat ++ l.drop e.toNat)) := by
  obtain ⟨r, hr, hrange⟩ := pos_spec l s cur
  obtain ⟨b, e, s1⟩ := r
  have hstable := pos_stable l s cur b e s1 hr
  unfold cut pop
  simp only [bind, Except.bind, pure, Except.pure]
  by_cases hl : len l = 0
  · refine ⟨[], -1, -1, l, s, ?_, ?_, Or.inl ⟨rfl, rfl, rfl, rfl⟩⟩ <;> simp [hl]
  · simp only [hl, if_false, hr]
    rcases hrange with ⟨hb, he⟩ | ⟨h0, h1, h2⟩
    · simp only at hb he
      subst hb; subst he
      exact ⟨[], -1, -1, l, reset s1, by simp, by simp, Or.inl ⟨rfl, rfl, rfl, rfl⟩⟩
    · simp only at h0 h1 h2
      have hne : ¬ (b = -1 ∨ e = -1) := by omega
      have hin : ¬ (b < 0 ∨ e > len l ∨ b > e) := by omega
      have hcut := cut_spec l b e h0 h1 h2
      simp only [hne, if_false, text, hl, bind, Except.bind, pure, Except.pure, hstable, hin, hcut]
      exact ⟨_, b, e, _, _, rfl, rfl, Or.inr ⟨h0, h1, h2, rfl, rfl⟩⟩

end RLV.Sel
