import RLV.Model.Cpr
/-! Keys around a cursor position report are kept (C05, C20). -/
namespace RLV.Cpr

theorem digits_append (d rest : List Nat) (hd : ∀ x ∈ d, isDigit x = true)
    (hr : ∀ x t, rest = x :: t → isDigit x = false) : digits (d ++ rest) = (d, rest) := by
  induction d with
  | nil =>
    cases rest with
    | nil => rfl
    | cons x t => simp [digits, hr x t rfl]
  | cons x t ih =>
    have hx : isDigit x = true := hd x (by simp)
    have := ih (fun y hy => hd y (by simp [hy]))
    simp [digits, hx, this]

/-- a well-formed report -/
def report (d1 d2 : List Nat) : List Nat := [0x1b, 0x5b] ++ d1 ++ [0x3b] ++ d2 ++ [0x52]

theorem reportAt_report (d1 d2 b : List Nat) (h1 : d1 ≠ []) (h2 : d2 ≠ [])
    (hd1 : ∀ x ∈ d1, isDigit x = true) (hd2 : ∀ x ∈ d2, isDigit x = true) :
    reportAt (report d1 d2 ++ b) = some (report d1 d2).length := by
  have e1 : digits (d1 ++ (0x3b :: (d2 ++ (0x52 :: b)))) = (d1, 0x3b :: (d2 ++ (0x52 :: b))) :=
    digits_append d1 _ hd1 (by intro x t h; cases h; decide)
  have e2 : digits (d2 ++ (0x52 :: b)) = (d2, 0x52 :: b) :=
    digits_append d2 _ hd2 (by intro x t h; cases h; decide)
  have n1 : d1.isEmpty = false := by cases d1 <;> simp_all
  have n2 : d2.isEmpty = false := by cases d2 <;> simp_all
  have hshape : report d1 d2 ++ b = 0x1b :: 0x5b :: (d1 ++ (0x3b :: (d2 ++ (0x52 :: b)))) := by
    simp [report]
  rw [hshape]
  simp only [reportAt, e1, n1, e2, n2]
  simp [report]
  omega

theorem reportAt_noesc (x : Nat) (t : List Nat) (h : x ≠ 0x1b) : reportAt (x :: t) = none := by
  unfold reportAt
  split
  · rename_i heq; cases heq; exact absurd rfl h
  · rfl

theorem extract_noesc : ∀ (b : List Nat) (f : Nat), (∀ x ∈ b, x ≠ 0x1b) → b.length < f → extract f b = (none, b) := by
  intro b
  induction b with
  | nil => intro f _ hf; cases f with
    | zero => omega
    | succ f => rfl
  | cons x t ih =>
    intro f h hf
    cases f with
    | zero => omega
    | succ f =>
      have hx : x ≠ 0x1b := h x (by simp)
      simp only [extract, reportAt_noesc x t hx]
      rw [ih f (fun y hy => h y (by simp [hy])) (by simp at hf; omega)]

/-- Keys typed before and after a cursor position report, in the same read: the report is taken out,
every key stays, in order. -/
theorem keys_around_a_report_are_kept (a b d1 d2 : List Nat)
    (ha : ∀ x ∈ a, x ≠ 0x1b) (hb : ∀ x ∈ b, x ≠ 0x1b) (h1 : d1 ≠ []) (h2 : d2 ≠ [])
    (hd1 : ∀ x ∈ d1, isDigit x = true) (hd2 : ∀ x ∈ d2, isDigit x = true) :
    ∀ f, (a ++ report d1 d2 ++ b).length < f →
      extract f (a ++ report d1 d2 ++ b) = (some (report d1 d2), a ++ b) := by
  induction a with
  | nil =>
    intro f hf
    cases f with
    | zero => omega
    | succ f =>
      have hne : ∃ x t, report d1 d2 ++ b = x :: t :=
        ⟨0x1b, 0x5b :: (d1 ++ (0x3b :: (d2 ++ (0x52 :: b)))), by simp [report]⟩
      obtain ⟨x, t, hxt⟩ := hne
      have hr := reportAt_report d1 d2 b h1 h2 hd1 hd2
      simp only [List.nil_append] at hf ⊢
      rw [hxt] at hr ⊢
      simp only [extract, hr]
      rw [← hxt]
      have hdrop : (report d1 d2 ++ b).drop (report d1 d2).length = b := by simp
      have htake : (report d1 d2 ++ b).take (report d1 d2).length = report d1 d2 := by simp
      have hlen : 1 ≤ (report d1 d2).length := by simp [report]
      rw [hdrop, htake, extract_noesc b f hb (by simp at hf; omega)]
  | cons x t ih =>
    intro f hf
    cases f with
    | zero => omega
    | succ f =>
      have hx : x ≠ 0x1b := ha x (by simp)
      simp only [List.cons_append, extract, reportAt_noesc x _ hx]
      have := ih (fun y hy => ha y (by simp [hy])) f (by simp at hf ⊢; omega)
      simp only [List.append_assoc] at this ⊢
      rw [this]

end RLV.Cpr
