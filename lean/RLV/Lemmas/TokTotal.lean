import RLV.Model.Move
/-! The word tokenizer keeps its index inside the list of tokens: `Line.ForwardEnd` and `Line.Backward`
on what `Line.Tokenize` returns never index out of range, so the word movements never panic (C01). -/
namespace RLV.Tok
open RLV.Core

/-- tokens exist and the index points at one of them -/
def IdxOK (s : TS) : Prop := 1 ≤ s.split.length ∧ 0 ≤ s.index ∧ s.index ≤ (s.split.length : Int) - 1

theorem addLast_length (sp : List (List Nat)) (c : Nat) (h : 1 ≤ sp.length) : (addLast sp c).length = sp.length := by
  unfold addLast
  cases hr : sp.reverse with
  | nil =>
    have : sp = [] := by simpa using hr
    rw [this] at h; simp at h
  | cons t r =>
    have : sp.length = (t :: r).length := by rw [← hr]; simp
    simp only [List.length_append, List.length_reverse, List.length_cons, List.length_nil] at this ⊢
    omega

theorem addLast_length_ge (sp : List (List Nat)) (c : Nat) : 1 ≤ (addLast sp c).length := by
  unfold addLast
  cases sp.reverse with
  | nil => simp
  | cons t r => simp

theorem addLast_keeps (s : TS) (sp : List (List Nat)) (c : Nat) (p : Bool) (h1 : 1 ≤ s.split.length)
    (hle : s.split.length ≤ sp.length) :
    ({ s with split := addLast sp c, punc := p } : TS).index = s.index ∧
    s.split.length ≤ ({ s with split := addLast sp c, punc := p } : TS).split.length := by
  refine ⟨rfl, ?_⟩
  show s.split.length ≤ (addLast sp c).length
  rw [addLast_length sp c (by omega)]; exact hle

theorem tokStep_idx (line : List Nat) (cpos : Int) (s : TS) (i : Nat) (h : IdxOK s) :
    IdxOK (tokStep line cpos s i) := by
  obtain ⟨h1, h2, h3⟩ := h
  unfold tokStep
  simp only
  -- the state after the rune, before the cursor is looked at
  generalize hs1 : (if isPunct (line.getD i 0) = true then
      ({ s with split := addLast (if i > 0 ∧ line.getD (i - 1) 0 ≠ line.getD i 0 then s.split ++ [[]] else s.split) (line.getD i 0), punc := true } : TS)
    else if (line.getD i 0 == 32 || line.getD i 0 == 9) = true then { s with split := addLast s.split (line.getD i 0), punc := true }
    else if (line.getD i 0 == 10) = true then
      { s with split := addLast (if i > 0 ∧ line.getD (i - 1) 0 = line.getD i 0 then s.split ++ [[]] else s.split) (line.getD i 0), punc := true }
    else { s with split := addLast (if s.punc = true then s.split ++ [[]] else s.split) (line.getD i 0), punc := false }) = s1
  have inner : s1.index = s.index ∧ s.split.length ≤ s1.split.length := by
    subst hs1
    split
    · apply addLast_keeps s _ _ _ h1; split <;> simp
    · split
      · exact addLast_keeps s _ _ _ h1 (Nat.le_refl _)
      · split
        · apply addLast_keeps s _ _ _ h1; split <;> simp
        · apply addLast_keeps s _ _ _ h1; split <;> simp
  obtain ⟨hi, hl⟩ := inner
  split
  · refine ⟨by show 1 ≤ s1.split.length; omega, ?_, ?_⟩
    · show 0 ≤ lastIdx s1; unfold lastIdx; omega
    · show lastIdx s1 ≤ (s1.split.length : Int) - 1; unfold lastIdx; omega
  · exact ⟨by omega, by rw [hi]; exact h2, by rw [hi]; omega⟩

theorem fold_tokStep_idx (line : List Nat) (cpos : Int) (is : List Nat) : ∀ (s : TS), IdxOK s →
    IdxOK (is.foldl (tokStep line cpos) s) := by
  induction is with
  | nil => intro s h; exact h
  | cons i is ih => intro s h; exact ih _ (tokStep_idx line cpos s i h)

/-- what `Tokenize` returns: no token at all (empty line), or an index inside the tokens -/
theorem tokenize_idx (line : List Nat) (cpos : Int) :
    (tokenize line cpos).1 = [] ∨
    (0 ≤ (tokenize line cpos).2.1 ∧ (tokenize line cpos).2.1 ≤ ((tokenize line cpos).1.length : Int) - 1) := by
  unfold tokenize
  split
  · exact Or.inl rfl
  · right
    simp only
    have h0 : IdxOK ({} : TS) := ⟨by decide, by decide, by decide⟩
    have := fold_tokStep_idx line (clampPos line cpos) (List.range line.length) {} h0
    generalize (List.range line.length).foldl (tokStep line (clampPos line cpos)) {} = st at this ⊢
    obtain ⟨a, b, c⟩ := this
    split
    · refine ⟨?_, ?_⟩
      · show 0 ≤ (st.split.length : Int) - 1; omega
      · show (st.split.length : Int) - 1 ≤ (st.split.length : Int) - 1; omega
    · exact ⟨b, c⟩

theorem forwardEnd_total (tk : List (List Nat) × Int × Int)
    (h : tk.1 = [] ∨ (0 ≤ tk.2.1 ∧ tk.2.1 ≤ (tk.1.length : Int) - 1)) : ∃ a, forwardEnd tk = .ok a := by
  obtain ⟨split, index, pos⟩ := tk
  unfold forwardEnd
  simp only at h ⊢
  rcases h with h | ⟨h0, h1⟩
  · subst h; exact ⟨0, by simp [pure, Except.pure]⟩
  · by_cases he : split.isEmpty = true
    · exact ⟨0, by simp [he, pure, Except.pure]⟩
    · have ht : tokAt split index = .ok (split.getD index.toNat []) := by
        unfold tokAt
        have : ¬ (index < 0 ∨ index ≥ split.length) := by omega
        simp [this, pure, Except.pure]
      simp only [he, Bool.false_eq_true, if_false, bind, Except.bind, ht, pure, Except.pure]
      split
      · exact ⟨_, rfl⟩
      · rename_i hc
        split
        · rename_i hp
          have hne : index ≠ (split.length : Int) - 1 := fun e => hc ⟨e, hp⟩
          have ht2 : tokAt split (index + 1) = .ok (split.getD (index + 1).toNat []) := by
            unfold tokAt
            have : ¬ (index + 1 < 0 ∨ index + 1 ≥ split.length) := by omega
            simp [this, pure, Except.pure]
          rw [ht2]
          exact ⟨_, rfl⟩
        · exact ⟨_, rfl⟩

theorem backward_total (tk : List (List Nat) × Int × Int)
    (h : tk.1 = [] ∨ (0 ≤ tk.2.1 ∧ tk.2.1 ≤ (tk.1.length : Int) - 1)) : ∃ a, backward tk = .ok a := by
  obtain ⟨split, index, pos⟩ := tk
  unfold backward
  simp only at h ⊢
  rcases h with h | ⟨h0, h1⟩
  · subst h; exact ⟨0, by simp [pure, Except.pure]⟩
  · by_cases he : split.isEmpty = true
    · exact ⟨0, by simp [he, pure, Except.pure]⟩
    · simp only [he, Bool.false_eq_true, if_false, pure, Except.pure]
      split
      · exact ⟨_, rfl⟩
      · rename_i hc
        split
        · rename_i hp
          have hne : index ≠ 0 := fun e => hc ⟨e, hp⟩
          have ht2 : tokAt split (index - 1) = .ok (split.getD (index - 1).toNat []) := by
            unfold tokAt
            have : ¬ (index - 1 < 0 ∨ index - 1 ≥ split.length) := by omega
            simp [this, pure, Except.pure]
          simp only [bind, Except.bind, ht2]
          exact ⟨_, rfl⟩
        · exact ⟨_, rfl⟩

end RLV.Tok

namespace RLV.Move
open RLV.Core RLV.Kill

theorem forwardWord1_total (s : St) : ∃ s1, forwardWord1 s = .ok s1 := by
  unfold forwardWord1
  obtain ⟨a, ha⟩ := Tok.forwardEnd_total _ (Tok.tokenize_idx s.line (checkAppend s.line s.cur).pos)
  simp only [bind, Except.bind, ha, pure, Except.pure]
  exact ⟨_, rfl⟩

theorem backwardWord1_total (s : St) : ∃ s1, backwardWord1 s = .ok s1 := by
  unfold backwardWord1
  obtain ⟨a, ha⟩ := Tok.backward_total _ (Tok.tokenize_idx s.line (checkAppend s.line s.cur).pos)
  simp only [bind, Except.bind, ha, pure, Except.pure]
  exact ⟨_, rfl⟩

theorem forwardWordN_total : ∀ (n : Nat) (s : St), ∃ s1, forwardWordN n s = .ok s1
  | 0, s => ⟨s, rfl⟩
  | n+1, s => by
    obtain ⟨s', h'⟩ := forwardWord1_total s
    obtain ⟨s1, h1⟩ := forwardWordN_total n s'
    exact ⟨s1, by simp only [forwardWordN, bind, Except.bind, h']; exact h1⟩

theorem backwardWordN_total : ∀ (n : Nat) (s : St), ∃ s1, backwardWordN n s = .ok s1
  | 0, s => ⟨s, rfl⟩
  | n+1, s => by
    obtain ⟨s', h'⟩ := backwardWord1_total s
    obtain ⟨s1, h1⟩ := backwardWordN_total n s'
    exact ⟨s1, by simp only [backwardWordN, bind, Except.bind, h']; exact h1⟩

end RLV.Move
