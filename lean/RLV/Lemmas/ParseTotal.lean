import RLV.Lemmas.ScanTotal
import RLV.Model.Parser
/-! C12 at parser level: `parse` returns a value for every byte string, option set and handler
whose `Get` only answers bool, string, int or nil — including handlers that serve files which
include themselves (the recursion is on the parser's own `$include` budget). -/
namespace RLV.Inputrc
open RLV.Core (G Panic)

variable {σ : Type} (H : Handler σ)

/-- the handler only stores values of the three kinds the parser supports -/
def Handler.Supported (H : Handler σ) : Prop := ∀ h n, H.get h n ≠ .unsupported

/-- included files can be run (they return, whatever they contain) -/
def NestedOK (nested : Option (List Nat → σ → G σ)) : Prop :=
  ∀ run, nested = some run → ∀ bs h, ∃ v, run bs h = .ok v

theorem doSet_ok (hs : H.Supported) (o : Opts) (p : PSt) (h : σ) (n v : Str) :
    ∃ r, doSet H o p h n v = .ok r := by
  unfold doSet
  have := hs h n
  simp only [pure, Except.pure]
  repeat' split
  all_goals first | exact ⟨_, rfl⟩ | (exfalso; simp_all)

theorem doConstruct_ok (o : Opts) (nested : Option (List Nat → σ → G σ)) (hn : NestedOK nested)
    (p : PSt) (h : σ) (kw v : Str) : ∃ r, doConstruct H o nested p h kw v = .ok r := by
  unfold doConstruct
  simp only [pure, Except.pure]
  repeat' split
  all_goals first | exact ⟨_, rfl⟩ | skip
  -- the $include of an existing file with budget left
  rename_i bytes _ _ run
  obtain ⟨w, hw⟩ := hn run rfl bytes (H.readFile h v).1
  exact ⟨(p, w, none), by simp [hw, bind, Except.bind]⟩

theorem execTok_ok (hs : H.Supported) (o : Opts) (nested : Option (List Nat → σ → G σ)) (hn : NestedOK nested)
    (p : PSt) (h : σ) (t : Tk) : ∃ r, execTok H o nested p h t = .ok r := by
  unfold execTok
  split
  · exact ⟨_, rfl⟩
  · exact ⟨_, rfl⟩
  · exact doSet_ok H hs o p h _ _
  · exact doConstruct_ok H o nested hn p h _ _
  · exact ⟨_, rfl⟩

theorem nextLine_ok (hs : H.Supported) (o : Opts) (nested : Option (List Nat → σ → G σ)) (hn : NestedOK nested)
    (p : PSt) (h : σ) (r : RS) : ∃ v, nextLine H o nested p h r = .ok v := by
  unfold nextLine
  obtain ⟨sv, hsv⟩ := scanLine_ok r
  simp only [hsv, bind, Except.bind]
  split
  · exact ⟨_, rfl⟩
  · exact ⟨_, rfl⟩
  · exact execTok_ok H hs o nested hn p h _

theorem parseLines_ok (hs : H.Supported) (o : Opts) (nested : Option (List Nat → σ → G σ)) (hn : NestedOK nested) :
    ∀ (ls : List (List Nat)) (p : PSt) (h : σ), ∃ v, parseLines H o nested ls p h = .ok v := by
  intro ls
  induction ls with
  | nil => intro p h; exact ⟨_, rfl⟩
  | cons l ls ih =>
    intro p h
    obtain ⟨v, hv⟩ := nextLine_ok H hs o nested hn p h (runesOfBytes l).toArray
    simp only [parseLines, hv, bind, Except.bind]
    split
    · exact ih _ _
    · split
      · exact ⟨_, rfl⟩
      · exact ih _ _

theorem parseWith_ok (hs : H.Supported) (nested : Option (List Nat → σ → G σ)) (hn : NestedOK nested)
    (o : Opts) (bytes : List Nat) (h : σ) : ∃ v, parseWith H nested o bytes h = .ok v := by
  unfold parseWith
  obtain ⟨v, hv⟩ := parseLines_ok H hs o nested hn (splitLines bytes [] []).1 { keymap := str "emacs", conds := [true] } h
  simp only [hv, bind, Except.bind, pure, Except.pure]
  repeat' split
  all_goals exact ⟨_, rfl⟩

theorem parseD_ok (hs : H.Supported) : ∀ (budget : Nat) (o : Opts) (bytes : List Nat) (h : σ),
    ∃ v, parseD H budget o bytes h = .ok v := by
  intro budget
  induction budget with
  | zero =>
    intro o bytes h
    unfold parseD
    exact parseWith_ok H hs none (by intro run hr; cases hr) o bytes h
  | succ b ih =>
    intro o bytes h
    unfold parseD
    apply parseWith_ok H hs
    intro run hr bs h0
    injection hr with hr
    subst hr
    obtain ⟨v, hv⟩ := ih { o with haltOnErr := false, strict := false } bs h0
    exact ⟨v.1, by simp [hv, bind, Except.bind, pure, Except.pure]⟩

end RLV.Inputrc
