import RLV.Lemmas.TermDraw
import RLV.Lemmas.TermMoves
import RLV.Lemmas.DispSingle
/-! The redisplay of a buffer without newline, token by token (C04). -/
namespace RLV.Term
open RLV.Disp

/-- tokens that change no cell -/
def isQuiet : Tk → Bool
  | .text _ | .el0 | .el1 | .ed0 => false
  | _ => true

theorem step_quiet (t : Term) (k : Tk) (h : isQuiet k = true) :
    (t.step k).cell = t.cell ∧ (t.pw = false → (t.step k).pw = false) := by
  cases k <;> simp_all [step, isQuiet, cub, cuf, cuu, cud, crlf]

theorem run_quiet (toks : List Tk) : ∀ (t : Term), (∀ k ∈ toks, isQuiet k = true) →
    (t.run toks).cell = t.cell ∧ (t.pw = false → (t.run toks).pw = false) := by
  induction toks with
  | nil => intro t _; exact ⟨rfl, id⟩
  | cons k ks ih =>
    intro t h
    have hk := step_quiet t k (h k (by simp))
    have := ih (t.step k) (fun k' hk' => h k' (by simp [hk']))
    simp only [run, List.foldl_cons] at this ⊢
    exact ⟨by rw [this.1, hk.1], fun hp => this.2 (hk.2 hp)⟩

theorem run_append (t : Term) (a b : List Tk) : t.run (a ++ b) = (t.run a).run b := by
  unfold run; rw [List.foldl_append]

theorem isQuiet_not_text {k : Tk} (h : isQuiet k = true) : isText k = false := by
  cases k <;> simp_all [isQuiet, isText]

theorem mv_quiet (f : Nat → Tk) (hf : ∀ n, isQuiet (f n) = true) (n : Int) : ∀ k ∈ mv f n, isQuiet k = true := by
  intro k hk
  unfold mv at hk
  split at hk
  · simp at hk
  · simp at hk; rw [hk]; exact hf _

/-- the redisplay of a one-line buffer, written out -/
theorem refresh_single_eq (w : Nat) (prompt sec l : List Nat) (pos prevRow : Nat)
    (hnl : 10 ∉ l) (hpos : pos ≤ l.length) :
    refresh w prompt sec prevRow false l pos =
      ([.hide] ++ mv .cub w ++ mv .cuu prevRow) ++
      ((if prompt.isEmpty then [] else [.text prompt]) ++ [.dsr] ++ (if l.isEmpty then [] else [.text l])) ++
      ((if (prompt.length + l.length) % w = 0 ∧ 0 < prompt.length + l.length then [.crlf] else []) ++
        [.el0, .crlf, .el0, .ed0]) ++
      (mv .cub w ++ mv .cuu 1 ++
        mv .cuu ((((prompt.length + l.length) / w : Nat) : Int) - (((prompt.length + pos) / w : Nat) : Int)) ++
        mv .cub (((prompt.length + pos) % w : Nat) : Int) ++ mv .cuu (((prompt.length + pos) / w : Nat) : Int) ++
        mv .cuf (prompt.length : Int) ++
        mv .cud (((prompt.length + pos) / w : Nat) : Int) ++ mv .cub w ++
        mv .cuf (((prompt.length + pos) % w : Nat) : Int) ++ [.show_]) := by
  unfold refresh
  dsimp only
  rw [coordsCursor_single w l pos prompt.length hnl hpos, coordsLine_single w l prompt.length hnl,
    splitNL_single l hnl, countNL_single l hnl]
  simp only [displayLine_single w prompt.length l _ hnl]
  have e1 : l.length + prompt.length = prompt.length + l.length := Nat.add_comm _ _
  have e2 : pos + prompt.length = prompt.length + pos := Nat.add_comm _ _
  simp only [e1, e2, List.getLast?_singleton, Option.getD_some, Nat.lt_irrefl, if_false,
    Bool.not_false, if_true, Bool.not_true, Nat.not_lt_zero, List.append_nil]
  by_cases hm : (prompt.length + l.length) % w = 0 ∧ 0 < prompt.length + l.length
  · have : ((prompt.length + l.length) % w == 0 && decide (prompt.length + l.length > 0)) = true := by
      simp [hm.1, hm.2]
    simp [this, hm]
  · have : ((prompt.length + l.length) % w == 0 && decide (prompt.length + l.length > 0)) = false := by
      cases h1 : ((prompt.length + l.length) % w == 0) <;> simp_all
    simp [this, hm]

end RLV.Term

namespace RLV.Term
open RLV.Disp

/-- part 1 of the redisplay: to the start of the row of the prompt -/
theorem refresh_head (w prevRow r0 : Nat) (t : Term) (hw : t.w = w) (hwf : t.WF) (hy : t.y = r0 + prevRow) :
    let t1 := t.run ([.hide] ++ mv .cub w ++ mv .cuu prevRow)
    t1.x = 0 ∧ t1.y = r0 ∧ t1.pw = false ∧ t1.w = w ∧ t1.cell = t.cell := by
  intro t1
  have hw0 : 0 < w := by rw [← hw]; exact hwf.1
  have hmv : mv .cub (w : Int) = [.cub w] := by
    rw [mv_nat]; have : w ≠ 0 := by omega
    simp [this]
  have hq : ∀ k ∈ mv .cuu (prevRow : Int), isQuiet k = true := mv_quiet .cuu (fun _ => rfl) _
  have ht1 : t1 = (t.cub w).run (mv .cuu (prevRow : Int)) := by
    show t.run ([.hide] ++ mv .cub (w : Int) ++ mv .cuu (prevRow : Int)) = _
    rw [hmv]
    simp [run, step]
  have hxy := run_xy (mv .cuu (prevRow : Int)) (t.cub w) (fun k hk => isQuiet_not_text (hq k hk))
  have hfold : (mv .cuu (prevRow : Int)).foldl (stepXY (t.cub w).w) ((t.cub w).x, (t.cub w).y) = (0, r0) := by
    have := foldl_mv_cuu (t.cub w).w prevRow ((t.cub w).x, (t.cub w).y) []
    simp only [List.append_nil, List.foldl_nil] at this
    rw [this]
    have hx := hwf.2.1
    show (t.x - w, t.y - prevRow) = _
    rw [hy]
    have h1 : t.x - w = 0 := by omega
    have h2 : r0 + prevRow - prevRow = r0 := by omega
    rw [h1, h2]
  have hc := run_quiet (mv .cuu (prevRow : Int)) (t.cub w) hq
  rw [ht1]
  rw [hfold] at hxy
  exact ⟨(Prod.mk.inj hxy.1).1, (Prod.mk.inj hxy.1).2, hc.2 rfl, by rw [hxy.2]; exact hw, by rw [hc.1]; rfl⟩

/-- part 2: the prompt and the line are printed from the start of row `r0` -/
theorem refresh_print (w r0 : Nat) (prompt l : List Nat) (t1 : Term) (hx : t1.x = 0) (hy : t1.y = r0)
    (hpw : t1.pw = false) (hw : t1.w = w) (hw0 : 0 < w) :
    let t2 := t1.run ((if prompt.isEmpty then [] else [.text prompt]) ++ [.dsr] ++ (if l.isEmpty then [] else [.text l]))
    t2.WF ∧ t2.w = w ∧ t2.nx = (prompt.length + l.length) % w ∧ t2.ny = r0 + (prompt.length + l.length) / w ∧
    t2.pw = decide ((prompt.length + l.length) % w = 0 ∧ 0 < prompt.length + l.length) ∧
    ∀ r c, c < w → t2.cell r c =
      if r0 * w ≤ r * w + c ∧ r * w + c < r0 * w + (prompt.length + l.length)
      then (prompt ++ l).getD (r * w + c - r0 * w) 0 else t1.cell r c := by
  intro t2
  have h2run : t2 = t1.puts (prompt ++ l) := by
    show t1.run _ = _
    rw [puts_append]
    cases prompt <;> cases l <;> simp [run, step, puts]
  have h1wf : t1.WF := ⟨by rw [hw]; exact hw0, by rw [hx, hw]; exact hw0, by rw [hpw]; intro h; cases h⟩
  have h1L : t1.L = r0 * w := by simp [L, nx, ny, hpw, hx, hy, hw]
  obtain ⟨h2wf, h2w, h2L, h2c⟩ := puts_spec (prompt ++ l) t1 h1wf
  rw [← h2run] at h2wf h2w h2L h2c
  rw [hw] at h2w h2c
  rw [h1L, List.length_append] at h2L h2c
  obtain ⟨h2d, h2m⟩ := L_div_mod t2 h2wf
  rw [h2w, h2L] at h2d h2m
  have hdiv : (r0 * w + (prompt.length + l.length)) / w = r0 + (prompt.length + l.length) / w := by
    rw [Nat.add_comm, Nat.add_mul_div_right _ _ hw0, Nat.add_comm]
  have hmod : (r0 * w + (prompt.length + l.length)) % w = (prompt.length + l.length) % w := by
    rw [Nat.add_comm, Nat.add_mul_mod_self_right]
  refine ⟨h2wf, h2w, by rw [← h2m, hmod], by rw [← h2d, hdiv], ?_, h2c⟩
  by_cases hn : prompt ++ l = []
  · have hp : prompt = [] := (List.append_eq_nil_iff.mp hn).1
    have hl : l = [] := (List.append_eq_nil_iff.mp hn).2
    rw [h2run, hn, puts_nil, hpw, hp, hl]; simp
  · have := puts_pw (prompt ++ l) hn t1 h1wf
    rw [h2run, this, h1L, hw, List.length_append, hmod]
    have hpos' : 0 < prompt.length + l.length := by
      rw [← List.length_append]
      exact List.length_pos_iff.mpr hn
    simp [hpos']

/-- part 3: the pending wrap is settled and everything from the end of the text is erased -/
theorem refresh_erase (w : Nat) (m : Prop) [Decidable m] (t2 : Term) (hwf : t2.WF) (hw : t2.w = w)
    (hpw : t2.pw = decide m) :
    let t4 := t2.run ((if m then [.crlf] else []) ++ [.el0, .crlf, .el0, .ed0])
    t4.x = 0 ∧ t4.y = t2.ny + 1 ∧ t4.pw = false ∧ t4.w = w ∧
    ∀ r c, c < w → t4.cell r c = if t2.ny * w + t2.nx ≤ r * w + c then blank else t2.cell r c := by
  intro t4
  have key : ∀ t3 : Term, t3.x = t2.nx → t3.y = t2.ny → t3.pw = false → t3.w = w → t3.cell = t2.cell →
      t4 = ((t3.el0.crlf).el0).ed0 →
      t4.x = 0 ∧ t4.y = t2.ny + 1 ∧ t4.pw = false ∧ t4.w = w ∧
      ∀ r c, c < w → t4.cell r c = if t2.ny * w + t2.nx ≤ r * w + c then blank else t2.cell r c := by
    intro t3 h3x h3y h3pw h3w h3c h4
    have hxlt : t3.x < t3.w := by rw [h3x, h3w, ← hw]; exact nx_lt t2 hwf
    obtain ⟨a, b, c, d, e⟩ := erase_to_end t3 hxlt h3pw
    rw [h4]
    refine ⟨a, by rw [b, h3y], c, by rw [d, h3w], ?_⟩
    intro r cc hc
    rw [e r cc (by rw [h3w]; exact hc), h3x, h3y, h3w, h3c]
  by_cases hm : m
  · have hp : t2.pw = true := by rw [hpw]; simp [hm]
    apply key t2.crlf
    · simp [crlf, nx, hp]
    · simp [crlf, ny, hp]
    · rfl
    · exact hw
    · rfl
    · show t2.run _ = _
      simp [hm, run, step]
  · have hp : t2.pw = false := by rw [hpw]; simp [hm]
    apply key t2
    · simp [nx, hp]
    · simp [ny, hp]
    · exact hp
    · exact hw
    · rfl
    · show t2.run _ = _
      simp [hm, run, step]

/-- the cursor arithmetic of part 4 -/
theorem tail_fold (w r0 sc n pos : Nat) (hw0 : 0 < w) (hsc : sc < w) (hpos : sc + pos ≤ n) :
    (mv .cub (w : Int) ++ (mv .cuu 1 ++
        (mv .cuu (((n / w : Nat) : Int) - (((sc + pos) / w : Nat) : Int)) ++
        (mv .cub (((sc + pos) % w : Nat) : Int) ++ (mv .cuu (((sc + pos) / w : Nat) : Int) ++
        (mv .cuf (sc : Int) ++
        (mv .cud (((sc + pos) / w : Nat) : Int) ++ (mv .cub w ++
        (mv .cuf (((sc + pos) % w : Nat) : Int) ++ [.show_])))))))) : List Tk).foldl (stepXY w) (0, r0 + n / w + 1)
      = ((sc + pos) % w, r0 + (sc + pos) / w) := by
  have hrows : (sc + pos) / w ≤ n / w := Nat.div_le_div_right hpos
  have hsub : (((n / w : Nat) : Int) - (((sc + pos) / w : Nat) : Int)) = ((n / w - (sc + pos) / w : Nat) : Int) := by omega
  have hcc : (sc + pos) % w ≤ w - 1 := by
    have := Nat.mod_lt (sc + pos) hw0; omega
  rw [hsub, foldl_mv_cub]
  have e1 : ((1 : Int)) = ((1 : Nat) : Int) := rfl
  rw [e1, foldl_mv_cuu, foldl_mv_cuu, foldl_mv_cub, foldl_mv_cuu]
  rw [foldl_mv_cuf _ _ _ _ (by simp)]
  rw [foldl_mv_cud, foldl_mv_cub]
  rw [foldl_mv_cuf _ _ _ _ (by simp only []; omega)]
  simp only [List.foldl_cons, List.foldl_nil, stepXY]
  have h1 : min (min (0 - w - (sc + pos) % w + sc) (w - 1) - w + (sc + pos) % w) (w - 1) = (sc + pos) % w := by
    omega
  have h2 : r0 + n / w + 1 - 1 - (n / w - (sc + pos) / w) - (sc + pos) / w + (sc + pos) / w = r0 + (sc + pos) / w := by
    omega
  rw [h1, h2]

/-- part 4: from the start of the row below the text back to the cursor position -/
theorem refresh_tail (w r0 sc n pos : Nat) (t4 : Term) (tail : List Tk) (hw : t4.w = w) (hw0 : 0 < w) (hx : t4.x = 0)
    (hy : t4.y = r0 + n / w + 1) (hpw : t4.pw = false) (hsc : sc < w) (hpos : sc + pos ≤ n)
    (htail : tail = mv .cub (w : Int) ++ mv .cuu 1 ++
        mv .cuu (((n / w : Nat) : Int) - (((sc + pos) / w : Nat) : Int)) ++
        mv .cub (((sc + pos) % w : Nat) : Int) ++ mv .cuu (((sc + pos) / w : Nat) : Int) ++
        mv .cuf (sc : Int) ++
        mv .cud (((sc + pos) / w : Nat) : Int) ++ mv .cub w ++
        mv .cuf (((sc + pos) % w : Nat) : Int) ++ [.show_]) :
    (t4.run tail).x = (sc + pos) % w ∧ (t4.run tail).y = r0 + (sc + pos) / w ∧ (t4.run tail).pw = false ∧
      (t4.run tail).cell = t4.cell := by
  have htq : ∀ k ∈ tail, isQuiet k = true := by
    intro k hk
    rw [htail] at hk
    simp only [List.mem_append, List.mem_singleton] at hk
    rcases hk with ((((((((hk | hk) | hk) | hk) | hk) | hk) | hk) | hk) | hk) | hk
    · exact mv_quiet .cub (fun _ => rfl) _ k hk
    · exact mv_quiet .cuu (fun _ => rfl) _ k hk
    · exact mv_quiet .cuu (fun _ => rfl) _ k hk
    · exact mv_quiet .cub (fun _ => rfl) _ k hk
    · exact mv_quiet .cuu (fun _ => rfl) _ k hk
    · exact mv_quiet .cuf (fun _ => rfl) _ k hk
    · exact mv_quiet .cud (fun _ => rfl) _ k hk
    · exact mv_quiet .cub (fun _ => rfl) _ k hk
    · exact mv_quiet .cuf (fun _ => rfl) _ k hk
    · rw [hk]; rfl
  have h5 := run_quiet tail t4 htq
  have h5xy := run_xy tail t4 (fun k hk => isQuiet_not_text (htq k hk))
  have hfold : tail.foldl (stepXY t4.w) (t4.x, t4.y) = ((sc + pos) % w, r0 + (sc + pos) / w) := by
    rw [hw, hx, hy, htail]
    simp only [List.append_assoc]
    exact tail_fold w r0 sc n pos hw0 hsc hpos
  rw [hfold] at h5xy
  exact ⟨(Prod.mk.inj h5xy.1).1, (Prod.mk.inj h5xy.1).2, h5.2 hpw, h5.1⟩

end RLV.Term
