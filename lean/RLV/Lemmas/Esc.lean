import RLV.Model.Esc
namespace RLV.Esc

/-- fuel above the length is irrelevant -/
theorem unescF_fuel : ∀ (n m : Nat) (r : List Nat), r.length ≤ n → r.length ≤ m → unescF n r = unescF m r := by
  intro n
  induction n with
  | zero =>
    intro m r h _
    have : r = [] := List.length_eq_zero_iff.mp (by omega)
    subst this
    cases m <;> simp [unescF]
  | succ n ih =>
    intro m r h1 h2
    cases r with
    | nil => cases m <;> simp [unescF]
    | cons c t =>
      cases m with
      | zero => simp at h2
      | succ m =>
        simp only [List.length_cons] at h1 h2
        simp only [unescF]
        split
        · have hl : (t.drop (escStep (c :: t)).2).length ≤ t.length := by simp
          rw [ih m _ (by omega) (by omega)]
        · rw [ih m t (by omega) (by omega)]

inductive Shape where
  | plain (x : Nat)
  | two (x : Nat)
  | ctrlQ
  | ctrl (x : Nat)
  | meta_ (d : Nat)
  | hex (h1 h2 : Nat)
deriving DecidableEq, Repr

def render : Shape → List Nat
  | .plain x => [x]
  | .two x => [bs, x]
  | .ctrlQ => [bs, 0x43, 0x2d, 0x3f]
  | .ctrl x => [bs, 0x43, 0x2d, x]
  | .meta_ d => [bs, 0x4d, 0x2d, d]
  | .hex h1 h2 => [bs, 0x78, h1, h2]

def dec2 (x : Nat) : Nat :=
  if x = 0x61 then 7 else if x = 0x62 then 8 else if x = 0x64 then 0x7f else if x = 0x65 then 0x1b
  else if x = 0x66 then 12 else if x = 0x6e then 10 else if x = 0x72 then 13 else if x = 0x74 then 9
  else if x = 0x76 then 11 else x

/-- side conditions under which `render sh` reads back as exactly `c`, whatever follows -/
def ok (c : Nat) : Shape → Bool
  | .plain x => x != bs && x == c
  | .two x => [0x61, 0x62, 0x64, 0x65, 0x66, 0x6e, 0x72, 0x74, 0x76, bs, 0x22, 0x27].contains x && dec2 x == c
  | .ctrlQ => c == 0x7f
  | .ctrl x => x != bs && x != 0x3f && encontrol x == c
  | .meta_ d => d != bs && d != 0 && enmeta d == c
  | .hex h1 h2 => hexDigit h1 && hexDigit h2 && (hexVal h1 * 16 ||| hexVal h2) == c

theorem frame_shape (c : Nat) (sh : Shape) (h : ok c sh = true) (n : Nat) (t : List Nat) :
    unescF (n + 1) (render sh ++ t) = c :: unescF n t := by
  cases sh with
  | plain x =>
    simp only [ok, Bool.and_eq_true, bne_iff_ne, beq_iff_eq] at h
    obtain ⟨h1, rfl⟩ := h
    simp [render, unescF, h1]
  | two x =>
    simp only [ok, Bool.and_eq_true, beq_iff_eq, List.contains_eq_mem, List.mem_cons, List.mem_nil_iff,
      or_false, decide_eq_true_eq] at h
    obtain ⟨hx, rfl⟩ := h
    rcases hx with rfl | rfl | rfl | rfl | rfl | rfl | rfl | rfl | rfl | rfl | rfl | rfl <;>
      simp [render, unescF, escStep, grab, bs, dec2]
  | ctrlQ =>
    simp only [ok, beq_iff_eq] at h
    subst h
    simp [render, unescF, escStep, grab, bs, octDigit]
  | ctrl x =>
    simp only [ok, Bool.and_eq_true, bne_iff_ne, beq_iff_eq] at h
    obtain ⟨⟨h1, h2⟩, rfl⟩ := h
    have h1' : x ≠ 92 := h1
    simp [render, unescF, escStep, grab, bs, octDigit, h1', h2]
  | meta_ d =>
    simp only [ok, Bool.and_eq_true, bne_iff_ne, beq_iff_eq] at h
    obtain ⟨⟨h1, h2⟩, rfl⟩ := h
    have h1' : d ≠ 92 := h1
    simp [render, unescF, escStep, grab, bs, octDigit, h1', h2]
  | hex h1 h2 =>
    simp only [ok, Bool.and_eq_true, beq_iff_eq] at h
    obtain ⟨⟨hh1, hh2⟩, rfl⟩ := h
    simp [render, unescF, escStep, grab, bs, hh1, hh2]

/-- the runes the property quantifies over: codes below 256 and printable runes -/
def InDom (c : Nat) : Prop := c < 256 ∨ Uni.isPrint c = true

def shapeOf (mac : Bool) (c : Nat) : Shape :=
  if c = 7 then .two 0x61 else if c = 8 then .two 0x62
  else if c = 0x7f then (if mac then .two 0x64 else .ctrlQ)
  else if c = 0x1b then .two 0x65 else if c = 12 then .two 0x66 else if c = 10 then .two 0x6e
  else if c = 13 then (if mac then .two 0x72 else .ctrl 0x4d)
  else if c = 9 then .two 0x74 else if c = 11 then .two 0x76
  else if c = bs ∨ c = 0x22 ∨ c = 0x27 then .two c
  else if needsHex c then .hex (hexChar (c / 16)) (hexChar (c % 16))
  else if c < 0x20 then .ctrl (toUpper (c ||| 0x40))
  else if 0x80 ≤ c ∧ c ≤ 0xff then .meta_ (c - 0x80)
  else .plain c

theorem escape1_render (mac : Bool) (c : Nat) (hd : InDom c) : escape1 mac c = render (shapeOf mac c) := by
  have hd' : (c < 256 ∨ Uni.isPrint c = true) := hd
  unfold escape1 shapeOf
  simp only [apply_ite render, hd', if_true]
  rfl

/-- finite part: every code below 256 has an image that reads back as itself -/
theorem ok_lo (mac : Bool) : ∀ c, c < 256 → ok c (shapeOf mac c) = true := by
  cases mac <;> decide +kernel

/-- above 255 (printable runes): the image is the rune itself -/
theorem ok_hi (mac : Bool) (c : Nat) (h : 256 ≤ c) : ok c (shapeOf mac c) = true := by
  have : shapeOf mac c = .plain c := by
    unfold shapeOf needsHex bs
    have h1 : ¬ c < 0x20 := by omega
    have h2 : ¬ (0x80 ≤ c ∧ c ≤ 0xff) := by omega
    simp [h1, h2]
    repeat' split
    all_goals first | omega | simp_all
  rw [this]
  simp [ok, bs]; omega

theorem frame (mac : Bool) (c n : Nat) (t : List Nat) (hd : InDom c) :
    unescF (n + 1) (escape1 mac c ++ t) = c :: unescF n t := by
  rw [escape1_render mac c hd]
  apply frame_shape
  by_cases h : c < 256
  · exact ok_lo mac c h
  · exact ok_hi mac c (by omega)

theorem escape1_ne_nil (mac : Bool) (c : Nat) (hd : InDom c) : escape1 mac c ≠ [] := by
  rw [escape1_render mac c hd]; cases shapeOf mac c <;> simp [render]

theorem unescF_escape (mac : Bool) (s : List Nat) (hs : ∀ c ∈ s, InDom c) :
    unescF (escape mac s).length (escape mac s) = s := by
  induction s with
  | nil => simp [escape, unescF]
  | cons c t ih =>
    have hc : InDom c := hs c (by simp)
    have ht : ∀ d ∈ t, InDom d := fun d hd => hs d (by simp [hd])
    have e : escape mac (c :: t) = escape1 mac c ++ escape mac t := by simp [escape]
    rw [e]
    have hpos : 0 < (escape1 mac c).length := List.length_pos_iff.mpr (escape1_ne_nil mac c hc)
    obtain ⟨k, hk⟩ : ∃ k, (escape1 mac c ++ escape mac t).length = k + 1 := ⟨_, (Nat.succ_pred_eq_of_pos (by simp; omega)).symm⟩
    rw [hk, frame mac c k _ hc, unescF_fuel k (escape mac t).length _ (by simp at hk; omega) (Nat.le_refl _), ih ht]

theorem ok_all (mac : Bool) (c : Nat) : ok c (shapeOf mac c) = true := by
  by_cases h : c < 256
  · exact ok_lo mac c h
  · exact ok_hi mac c (by omega)

/-- C19: unescaping an escaped sequence gives it back, for every sequence of runes of the
property's domain (every code below 256, every printable rune above). -/
theorem unescape_escape (mac : Bool) (s : List Nat) (hs : ∀ c ∈ s, InDom c) :
    unescape (escape mac s) = s := by
  unfold unescape
  split
  · -- the `len(r) == 1` shortcut: only a single plain rune has an image of length one
    rename_i h1
    cases s with
    | nil => simp [escape] at h1
    | cons c t =>
      have hc : InDom c := hs c (by simp)
      have e : escape mac (c :: t) = escape1 mac c ++ escape mac t := by simp [escape]
      rw [e] at h1 ⊢
      have hne := escape1_ne_nil mac c hc
      have hl1 : (escape1 mac c).length = 1 ∧ (escape mac t).length = 0 := by
        have : 0 < (escape1 mac c).length := List.length_pos_iff.mpr hne
        simp only [List.length_append] at h1; omega
      have ht : t = [] := by
        cases t with
        | nil => rfl
        | cons d u =>
          have hdd : InDom d := hs d (by simp)
          have : 0 < (escape mac (d :: u)).length := by
            have e2 : escape mac (d :: u) = escape1 mac d ++ escape mac u := by simp [escape]
            have := List.length_pos_iff.mpr (escape1_ne_nil mac d hdd)
            rw [e2, List.length_append]; omega
          omega
      subst ht
      have hok := ok_all mac c
      rw [escape1_render mac c hc] at hl1 ⊢
      cases hsh : shapeOf mac c with
      | plain x =>
        rw [hsh] at hok
        simp only [ok, Bool.and_eq_true, bne_iff_ne, beq_iff_eq] at hok
        simp [render, escape, hok.2]
      | two x => rw [hsh] at hl1; simp [render] at hl1
      | ctrlQ => rw [hsh] at hl1; simp [render] at hl1
      | ctrl x => rw [hsh] at hl1; simp [render] at hl1
      | meta_ d => rw [hsh] at hl1; simp [render] at hl1
      | hex a b => rw [hsh] at hl1; simp [render] at hl1
  · exact unescF_escape mac s hs

end RLV.Esc
