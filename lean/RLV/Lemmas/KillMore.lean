import RLV.Lemmas.KillCmds
import RLV.Lemmas.ViOps
/-! C16 for `kill-whole-line` and `kill-region`. -/
namespace RLV.Kill
open RLV.Core RLV.Sel

theorem killWholeLine_yank (s : St) (hnz : ∀ c ∈ s.line, c ≠ 0) :
    ∃ s1, killWholeLine s = .ok s1 ∧ Restores s s1 := by
  unfold killWholeLine
  by_cases hl : len s.line = 0
  · simp only [hl, if_true, pure, Except.pure]
    exact ⟨s, rfl, Or.inl ⟨rfl, rfl⟩⟩
  · have hne : s.line ≠ [] := by intro h; rw [h] at hl; exact hl rfl
    have hlen : 0 ≤ len s.line := by unfold len; omega
    have hcut := cut_spec s.line 0 (len s.line) (Int.le_refl 0) hlen (Int.le_refl _)
    have hd : s.line.drop (len s.line).toNat = [] := by
      apply List.drop_of_length_le; unfold len; omega
    simp only [Int.toNat_zero, List.take_zero, List.nil_append, hd] at hcut
    simp only [hl, if_false, bind, Except.bind, pure, Except.pure, write_line, hcut]
    refine ⟨_, rfl, Or.inr ?_⟩
    have hk : (write s s.line).kill = s.line := write_kill_ne s s.line hne
    refine ⟨by show (write s s.line).kill ≠ []; rw [hk]; exact hne, 0, by
      show s.line = ([] : Line).take 0 ++ (write s s.line).kill ++ ([] : Line).drop 0
      rw [hk]; simp, ?_⟩
    apply yank_at _ 0
    · show (checkAppend [] (write s s.line).cur).pos = 0
      have := checkAppend_range [] (write s s.line).cur
      have h0 : len ([] : Line) = 0 := rfl
      omega
    · show Core.insert [] 0 (write s s.line).kill = .ok s.line
      rw [hk]
      have := insert_spec [] 0 s.line hnz (Int.le_refl 0) (by show (0 : Int) ≤ len []; exact Int.le_refl 0)
      simpa using this

/-- C16 for `kill-region`: from EVERY buffer without NUL runes, every cursor and EVERY selection state
(active or not, pending or fixed range, stale flags) -/
theorem killRegion_yank (s : St) (hnz : ∀ c ∈ s.line, c ≠ 0) :
    ∃ s1, killRegion s = .ok s1 ∧ Restores s s1 := by
  unfold killRegion
  by_cases ha : s.sel.active = true
  · obtain ⟨r, hr, hrr⟩ := pos_spec s.line s.sel s.cur
    obtain ⟨b, e, sel1⟩ := r
    have hst := pos_stable s.line s.sel s.cur b e sel1 hr
    simp only [ha, Bool.not_true, Bool.false_eq_true, if_false, bind, Except.bind, hr]
    by_cases hl : len s.line = 0
    · -- an empty buffer: nothing is cut
      have hcut : Sel.cut s.line sel1 s.cur = .ok ([], s.line, sel1) := by
        unfold Sel.cut; simp [hl, pure, Except.pure]
      simp only [hcut, write_nil, pure, Except.pure]
      refine ⟨_, rfl, Or.inl ⟨?_, ?_⟩⟩ <;> split <;> rfl
    · rcases hrr with ⟨hb, he⟩ | ⟨hb0, hbe, hel⟩
      · simp only at hb he
        subst hb he
        have hcut : Sel.cut s.line sel1 s.cur = .ok ([], s.line, reset sel1) := by
          unfold Sel.cut
          simp [hl, hst, bind, Except.bind, pure, Except.pure]
        simp only [hcut, write_nil, pure, Except.pure]
        refine ⟨_, rfl, Or.inl ⟨?_, ?_⟩⟩ <;> simp
      · simp only at hb0 hbe hel
        obtain ⟨t, l', s', hcut, hxl, hcase, hsplit⟩ :=
          cut_then_insert_pos s.line sel1 s.cur b e sel1 hnz hl hst hb0 hbe hel
        simp only [hcut, pure, Except.pure]
        have hbge : b ≥ 0 := hb0
        simp only [hbge, if_true]
        refine ⟨_, rfl, ?_⟩
        rcases hcase with ⟨ht, hl'⟩ | ⟨ht, hins⟩
        · left
          subst ht
          simp only [write_nil]
          exact ⟨hl', trivial⟩
        · right
          simp only [write_line, write_cur, write_kill_ne _ _ ht]
          refine ⟨ht, b.toNat, hsplit, ?_⟩
          apply yank_at _ b
          · show (checkAppend l' (curSet l' s.cur b)).pos = b
            unfold curSet
            rw [checkAppend_idem]
            have c1 : ¬ b < 0 := by omega
            have c2 : ¬ b > len l' := by omega
            simp only [c1, c2, if_false]
            exact checkAppend_fix l' _ hb0 hxl
          · exact hins
  · have ha' : s.sel.active = false := by simpa using ha
    simp only [ha', Bool.not_false, if_true, pure, Except.pure]
    exact ⟨s, rfl, Or.inl ⟨rfl, rfl⟩⟩

end RLV.Kill
