import RLV.Lemmas.Utf8
import RLV.Lemmas.TypedTables
/-! Typing any Unicode text (C02): what the dispatcher, its multibyte fallback and `self-insert` do with
the UTF-8 bytes of one character, wherever the reads are cut. -/
namespace RLV.Gen
open RLV

/-- the bytes of U+FFFD, which the default keymaps bind to `self-insert` -/
def fffd : Seq := [0xEF, 0xBF, 0xBD]

/-- order-free fact: the only sequence of the table that starts with a byte above 0x7F is U+FFFD, and it is there -/
def highOK (tbl : List (Seq × Bind)) : Bool :=
  tbl.all (fun e => decide (e.1.headD 0 < 0x80) || e.1 == fffd) && tbl.any (fun e => e.1 == fffd)

theorem emacs_high : highOK (normU emacs) = true := by decide +kernel
theorem viins_high : highOK (normU vi_insert) = true := by decide +kernel

end RLV.Gen

namespace RLV.Loop
open RLV RLV.Gen RLV.Core

structure HighTbl (tbl : List (Seq × Bind)) : Prop where
  only : ∀ e ∈ tbl, 0x80 ≤ e.1.headD 0 → e.1 = fffd
  has : ∃ e ∈ tbl, e.1 = fffd

theorem highTbl_of_ok (tbl tbl' : List (Seq × Bind)) (hp : tbl'.Perm tbl) (h : highOK tbl = true) : HighTbl tbl' := by
  simp only [highOK, Bool.and_eq_true, List.all_eq_true, List.any_eq_true, Bool.or_eq_true,
    decide_eq_true_eq, beq_iff_eq] at h
  obtain ⟨hall, e, he, hf⟩ := h
  constructor
  · intro x hx h80
    rcases hall x (hp.mem_iff.mp hx) with h1 | h1
    · omega
    · exact h1
  · exact ⟨e, hp.mem_iff.mpr he, hf⟩

theorem lastExact_none (rd : Seq) (tbl : List (Seq × Bind)) (h : ∀ e ∈ tbl, e.1 ≠ rd) :
    lastExact rd tbl = Bind.none := by
  unfold lastExact
  suffices ∀ acc, tbl.foldl (fun acc e => if rd = e.1 then e.2 else acc) acc = acc from this _
  induction tbl with
  | nil => intro acc; rfl
  | cons e t ih =>
    intro acc
    simp only [List.foldl_cons]
    have : ¬ rd = e.1 := fun hh => h e (by simp) hh.symm
    rw [if_neg this]
    exact ih (fun x hx => h x (by simp [hx])) acc

theorem high_exact {tbl : List (Seq × Bind)} (ht : HighTbl tbl) (rd : Seq) (h80 : 0x80 ≤ rd.headD 0)
    (hne : rd ≠ fffd) : lastExact rd tbl = Bind.none := by
  apply lastExact_none
  intro e he heq
  have := ht.only e he (by rw [heq]; exact h80)
  rw [heq] at this
  exact hne this

theorem high_ext_true {tbl : List (Seq × Bind)} (ht : HighTbl tbl) :
    hasProperExt [0xEF] tbl = true ∧ hasProperExt [0xEF, 0xBF] tbl = true := by
  obtain ⟨e, he, hf⟩ := ht.has
  constructor <;>
  · unfold hasProperExt
    rw [List.any_eq_true]
    refine ⟨e, he, ?_⟩
    rw [hf]
    decide

theorem high_ext_false {tbl : List (Seq × Bind)} (ht : HighTbl tbl) (rd : Seq) (h80 : 0x80 ≤ rd.headD 0)
    (h1 : rd ≠ [0xEF]) (h2 : rd ≠ [0xEF, 0xBF]) : hasProperExt rd tbl = false := by
  rw [Bool.eq_false_iff]
  intro hcon
  unfold hasProperExt at hcon
  rw [List.any_eq_true] at hcon
  obtain ⟨e, he, hh⟩ := hcon
  simp only [Bool.and_eq_true, decide_eq_true_eq] at hh
  obtain ⟨hlen, hpre⟩ := hh
  obtain ⟨suf, hsuf⟩ := List.isPrefixOf_iff_prefix.mp hpre
  cases rd with
  | nil => simp at h80
  | cons a t =>
    have hf := ht.only e he (by rw [← hsuf]; exact h80)
    rw [hf] at hsuf hlen
    unfold fffd at hsuf hlen
    match t, hsuf, hlen with
    | [], hsuf, _ =>
      have : a = 0xEF := by simp at hsuf; exact hsuf.1
      subst this; exact h1 rfl
    | [b], hsuf, _ =>
      have : a = 0xEF ∧ b = 0xBF := by simp at hsuf; exact ⟨hsuf.1, hsuf.2.1⟩
      obtain ⟨rfl, rfl⟩ := this; exact h2 rfl
    | _ :: _ :: _, _, hlen => simp at hlen; omega


theorem dk_miss (tbl : List (Seq × Bind)) (n : Nat) (e : Eng) (read matched : Seq) (pfx : Bool) (k : Nat) (T : List Nat)
    (hbuf : e.keys.buf = k :: T) (h1 : lastExact (read ++ [k]) tbl = Bind.none)
    (h2 : hasProperExt (read ++ [k]) tbl = false) :
    dispatchKeys tbl (n + 1) e read matched pfx =
      ({ e with active := e.prefixed, prefixed := Bind.none, keys := { e.keys with buf := T } }, false, read ++ [k], matched) := by
  have hpeek : e.keys.peek = some k := by simp [Keys.peek, hbuf]
  have hpop : e.keys.pop = { e.keys with buf := T } := by simp [Keys.pop, hbuf]
  simp [dispatchKeys, hpeek, matchBind_eq, h1, h2, Bind.none, hpop]

theorem dk_pfx (tbl : List (Seq × Bind)) (n : Nat) (e : Eng) (read matched : Seq) (pfx : Bool) (k : Nat) (T : List Nat)
    (hbuf : e.keys.buf = k :: T) (h1 : lastExact (read ++ [k]) tbl = Bind.none)
    (h2 : hasProperExt (read ++ [k]) tbl = true) :
    dispatchKeys tbl (n + 1) e read matched pfx =
      dispatchKeys tbl n { e with keys := { e.keys with buf := T } } (read ++ [k]) (matched ++ [k]) true := by
  have hpeek : e.keys.peek = some k := by simp [Keys.peek, hbuf]
  have hpop : e.keys.pop = { e.keys with buf := T } := by simp [Keys.pop, hbuf]
  conv => lhs; unfold dispatchKeys
  simp [hpeek, matchBind_eq, h1, h2, Bind.none, hpop]

theorem dk_end (tbl : List (Seq × Bind)) (n : Nat) (e : Eng) (read matched : Seq) (pfx : Bool)
    (hbuf : e.keys.buf = []) (hmk : e.keys.mkeys = []) :
    dispatchKeys tbl n e read matched pfx = (e, pfx, read, matched) := by
  cases n with
  | zero => rfl
  | succ n =>
    have hpeek : e.keys.peek = none := by simp [Keys.peek, hbuf, hmk]
    simp [dispatchKeys, hpeek]


/-- what `dispatchKeys` does with the first bytes `B` of the stream when they begin a character `E` above
0x7F other than U+FFFD: it either consumes all of `B` and reports a prefix (`B` is `EF` or `EF BF`, a proper
prefix of both `E` and the U+FFFD bind), or stops on a non-empty common prefix `p` of `E` and `B` without a
bind -/
theorem dk_high (tbl : List (Seq × Bind)) (ht : HighTbl tbl) (E : List Nat) (hE : WFEnc E) (hne : E ≠ fffd)
    (e : Eng) (B : List Nat) (hbuf : e.keys.buf = B) (hmk : e.keys.mkeys = []) (hB : B ≠ [])
    (hcomp : (∃ R, B = E ++ R) ∨ (∃ q, B ++ q = E)) (n : Nat) (hn : B.length ≤ n) :
    (∃ q, q ≠ [] ∧ B ++ q = E ∧
      dispatchKeys tbl n e [] [] false = ({ e with keys := { e.keys with buf := [] } }, true, B, B)) ∨
    (∃ p qE qB, p ≠ [] ∧ E = p ++ qE ∧ B = p ++ qB ∧
      dispatchKeys tbl n e [] [] false =
        ({ e with active := e.prefixed, prefixed := Bind.none, keys := { e.keys with buf := qB } }, false, p, p.dropLast)) := by
  obtain ⟨b0, t, hEt, hb0lo, hb0hi, htne, _⟩ := wf_head hE
  cases B with
  | nil => exact absurd rfl hB
  | cons c0 B' =>
    have hc0 : c0 = b0 := by
      rcases hcomp with ⟨R, hR⟩ | ⟨q, hq⟩
      · rw [hEt] at hR; simp at hR; exact hR.1
      · rw [hEt] at hq; simp at hq; exact hq.1
    subst hc0
    obtain ⟨n1, rfl⟩ : ∃ n1, n = n1 + 1 := ⟨n - 1, by simp at hn; omega⟩
    by_cases hEF : c0 = 0xEF
    · subst hEF
      cases hE with
      | two b0 b1 h0 h1 _ _ => simp at hEt; omega
      | four b0 b1 b2 b3 h0 h1 _ _ _ _ _ _ => simp at hEt; omega
      | three b0 b1 b2 h0 h1 h2 h3 h4 h5 =>
        have hb0 : b0 = 0xEF := by simp at hEt; exact hEt.1
        subst hb0
        have hx1 : lastExact ([] ++ [0xEF]) tbl = Bind.none := high_exact ht _ (by decide) (by decide)
        have hp1 : hasProperExt ([] ++ [0xEF]) tbl = true := (high_ext_true ht).1
        rw [dk_pfx tbl n1 e [] [] false 0xEF B' hbuf hx1 hp1]
        cases B' with
        | nil =>
          left
          refine ⟨[b1, b2], by simp, rfl, ?_⟩
          exact dk_end tbl n1 { e with keys := { e.keys with buf := [] } } _ _ _ rfl hmk
        | cons c1 B2 =>
          have hc1 : c1 = b1 := by
            rcases hcomp with ⟨R, hR⟩ | ⟨q, hq⟩
            · simp at hR; exact hR.1
            · simp at hq; exact hq.1
          subst hc1
          obtain ⟨n2, rfl⟩ : ∃ n2, n1 = n2 + 1 := ⟨n1 - 1, by simp at hn; omega⟩
          by_cases hBF : c1 = 0xBF
          · subst hBF
            have hx2 : lastExact ([] ++ [0xEF] ++ [0xBF]) tbl = Bind.none := high_exact ht _ (by decide) (by decide)
            have hp2 : hasProperExt ([] ++ [0xEF] ++ [0xBF]) tbl = true := (high_ext_true ht).2
            rw [dk_pfx tbl n2 _ _ _ true 0xBF B2 rfl hx2 hp2]
            cases B2 with
            | nil =>
              left
              refine ⟨[b2], by simp, rfl, ?_⟩
              exact dk_end tbl n2 { e with keys := { e.keys with buf := [] } } _ _ _ rfl hmk
            | cons c2 B3 =>
              have hc2 : c2 = b2 := by
                rcases hcomp with ⟨R, hR⟩ | ⟨q, hq⟩
                · simp at hR; exact hR.1
                · simp at hq; exact hq.1
              subst hc2
              have hbd : c2 ≠ 0xBD := by
                intro h; subst h; exact hne rfl
              obtain ⟨n3, rfl⟩ : ∃ n3, n2 = n3 + 1 := ⟨n2 - 1, by simp at hn; omega⟩
              right
              refine ⟨[0xEF, 0xBF, c2], [], B3, by simp, rfl, rfl, ?_⟩
              have hx3 : lastExact ([] ++ [0xEF] ++ [0xBF] ++ [c2]) tbl = Bind.none :=
                high_exact ht _ (by simp) (by simp [fffd]; exact hbd)
              have hp3 : hasProperExt ([] ++ [0xEF] ++ [0xBF] ++ [c2]) tbl = false :=
                high_ext_false ht _ (by simp) (by simp) (by simp)
              rw [dk_miss tbl n3 _ _ _ true c2 B3 rfl hx3 hp3]
              rfl
          · right
            refine ⟨[0xEF, c1], [b2], B2, by simp, rfl, rfl, ?_⟩
            have hx2 : lastExact ([] ++ [0xEF] ++ [c1]) tbl = Bind.none :=
              high_exact ht _ (by simp) (by simp [fffd])
            have hp2 : hasProperExt ([] ++ [0xEF] ++ [c1]) tbl = false :=
              high_ext_false ht _ (by simp) (by simp) (by simp; exact hBF)
            rw [dk_miss tbl n2 _ _ _ true c1 B2 rfl hx2 hp2]
            rfl
    · right
      refine ⟨[c0], t, B', by simp, hEt, rfl, ?_⟩
      have hx1 : lastExact ([] ++ [c0]) tbl = Bind.none :=
        high_exact ht _ (by simp; omega) (by simp [fffd])
      have hp1 : hasProperExt ([] ++ [c0]) tbl = false :=
        high_ext_false ht _ (by simp; omega) (by simp; exact hEF) (by simp)
      rw [dk_miss tbl n1 e [] [] false c0 B' hbuf hx1 hp1]
      rfl


theorem eng_buf_self (e : Eng) (T : List Nat) (h : e.keys.buf = T) :
    ({ e with keys := { e.keys with buf := T } } : Eng) = e := by rw [← h]

/-- the loop of `matchCharacter` on the bytes after the part `p` of the character `E` already read: it takes
the rest `q` of the character when the buffer has it, and otherwise everything there is -/
theorem mcl (E : List Nat) (hE : WFEnc E) : ∀ (q p : List Nat) (f : Nat) (e : Eng),
    p ++ q = E → e.keys.mkeys = [] → q.length + 1 ≤ f →
    (∀ R, e.keys.buf = q ++ R → matchCharLoop f e p = ({ e with keys := { e.keys with buf := R } }, E, true)) ∧
    (∀ Bq q', q' ≠ [] → Bq ++ q' = q → e.keys.buf = Bq →
      matchCharLoop f e p = ({ e with keys := { e.keys with buf := [] } }, p ++ Bq, false)) := by
  intro q
  induction q with
  | nil =>
    intro p f e hpq _ hf
    have hp : p = E := by simpa using hpq
    subst hp
    obtain ⟨f', rfl⟩ : ∃ f', f = f' + 1 := ⟨f - 1, by omega⟩
    constructor
    · intro R hR
      simp only [List.nil_append] at hR
      unfold matchCharLoop
      rw [if_pos (wf_full hE), eng_buf_self e R hR]
    · intro Bq q' hq' h _
      simp at h
      exact absurd h.2 hq'
  | cons k q2 ih =>
    intro p f e hpq hmk hf
    have hnf : fullRune p = false := wf_prefix_notfull hE p (k :: q2) hpq (by simp)
    obtain ⟨f', rfl⟩ : ∃ f', f = f' + 1 := ⟨f - 1, by omega⟩
    have hpq' : (p ++ [k]) ++ q2 = E := by simpa using hpq
    constructor
    · intro R hR
      have hpeek : e.keys.peek = some k := by simp [Keys.peek, hR]
      have hpop : e.keys.pop = { e.keys with buf := q2 ++ R } := by simp [Keys.pop, hR]
      unfold matchCharLoop
      simp only [hnf, Bool.false_eq_true, if_false, hpeek, hpop]
      exact (ih (p ++ [k]) f' { e with keys := { e.keys with buf := q2 ++ R } } hpq' hmk (by simp at hf; omega)).1 R rfl
    · intro Bq q' hq' h hbuf
      cases Bq with
      | nil =>
        have hpeek : e.keys.peek = none := by simp [Keys.peek, hbuf, hmk]
        unfold matchCharLoop
        simp only [hnf, Bool.false_eq_true, if_false, hpeek, List.append_nil, eng_buf_self e [] hbuf]
      | cons c Bq2 =>
        have hck : c = k ∧ Bq2 ++ q' = q2 := by simpa using h
        obtain ⟨rfl, hq2⟩ := hck
        have hpeek : e.keys.peek = some c := by simp [Keys.peek, hbuf]
        have hpop : e.keys.pop = { e.keys with buf := Bq2 } := by simp [Keys.pop, hbuf]
        unfold matchCharLoop
        simp only [hnf, Bool.false_eq_true, if_false, hpeek, hpop]
        have := (ih (p ++ [c]) f' { e with keys := { e.keys with buf := Bq2 } } hpq' hmk (by simp at hf; omega)).2 Bq2 q' hq' hq2 rfl
        rw [this]
        simp


/-- what the Unicode theorem needs of the engine between two characters -/
structure EngOK (e : Eng) : Prop where
  hne : e.mainTbl.isEmpty = false
  hni : e.nonInc = false
  hli : e.lisearch = false
  hins : e.insertsText = true
  hpf : e.prefixed = Bind.none
  hmk : e.keys.mkeys = []
  high : HighTbl e.mainTbl

theorem wf_len {E : List Nat} (h : WFEnc E) : E.length ≤ 4 := by
  cases h <;> simp

theorem prefix_head {E p qE : List Nat} (hE : WFEnc E) (hp : p ≠ []) (h : E = p ++ qE) : 0x80 ≤ p.headD 0 := by
  obtain ⟨b0, t, hEt, hlo, _, _, _⟩ := wf_head hE
  cases p with
  | nil => exact absurd rfl hp
  | cons a p' =>
    rw [hEt] at h
    have : b0 = a := by simp at h; exact h.1
    subst this
    simp; omega

/-- a whole character above 0x7F (not U+FFFD) at the front of the key buffer: `MatchMain` selects
`self-insert` with that character as the calling key, and leaves what follows in the buffer -/
theorem matchMain_char (e : Eng) (ok : EngOK e) (r : Nat) (hv : ValidRune r) (h80 : 0x80 ≤ r) (hnf : r ≠ 0xFFFD)
    (R : List Nat) (hbuf : e.keys.buf = encodeRune r ++ R) :
    matchMain e =
      ({ e with active := selfInsertBind, prefixed := Bind.none,
                keys := { e.keys with buf := R, matched := [r], mustWait := false } },
        selfInsertBind, hasCmd e selfInsertBind, false) := by
  have hE := wf_of_encode r hv h80
  have hdec := decode_encode r hv []
  rw [List.append_nil] at hdec
  have hneF : encodeRune r ≠ fffd := by
    intro h
    rw [h] at hdec
    have : (decodeRune fffd).1 = 0xFFFD := by decide
    rw [hdec] at this
    exact hnf this
  have hBne : encodeRune r ++ R ≠ [] := by
    obtain ⟨b0, t, hEt, _⟩ := wf_head hE
    rw [hEt]; simp
  have hmb : e.mainBinds = e.mainTbl := by simp [Eng.mainBinds, ok.hni, ok.hli]
  rcases dk_high e.mainTbl ok.high _ hE hneF e _ hbuf ok.hmk hBne (Or.inl ⟨R, rfl⟩)
      (e.keys.buf.length + e.keys.mkeys.length) (by rw [hbuf]; omega) with ⟨q, hq, hBq, _⟩ | ⟨p, qE, qB, hp, hEp, hBp, hdk⟩
  · -- the buffer holds the whole character: it is not a proper prefix of it
    exfalso
    have := congrArg List.length hBq
    simp only [List.length_append] at this
    have : q.length = 0 := by omega
    exact hq (List.length_eq_zero_iff.mp this)
  · have hqB : qB = qE ++ R := by
      rw [hEp, List.append_assoc] at hBp
      exact (List.append_cancel_left hBp).symm
    have hdl : fullRune p.dropLast = false := by
      apply wf_prefix_notfull hE p.dropLast ([p.getLast hp] ++ qE)
      · rw [← List.append_assoc, List.dropLast_concat_getLast hp]; exact hEp.symm
      · simp
    have hph := prefix_head hE hp hEp
    have hqEl : qE.length + 1 ≤ 4 := by
      have := wf_len hE
      rw [hEp, List.length_append] at this
      have : p.length ≠ 0 := fun h => hp (List.length_eq_zero_iff.mp h)
      omega
    have hloop := (mcl _ hE qE p 4
      { e with active := e.prefixed, prefixed := Bind.none, keys := { e.keys with buf := qB } }
      hEp.symm ok.hmk hqEl).1 R hqB
    have hr1b : ¬ r = 0x1b := by omega
    generalize he0 : ({ e with active := e.prefixed, prefixed := Bind.none, keys := { e.keys with buf := qB } } : Eng) = e0
      at hdk hloop
    have ha0 : e0.active = Bind.none := by rw [← he0]; exact ok.hpf
    have hi0 : e0.insertsText = true := by rw [← he0]; exact ok.hins
    have hn0 : e0.nonInc = false := by rw [← he0]; exact ok.hni
    have hmc : matchCharacter e0 e0.active false p =
        ({ ({ e0 with keys := { e0.keys with buf := R } } : Eng) with active := selfInsertBind }, selfInsertBind, false, encodeRune r) := by
      unfold matchCharacter
      have hc : e0.active.action = "" ∧ false = false ∧ p.headD 0 ≥ 0x80 ∧ fullRune p.dropLast = false ∧ e0.insertsText = true :=
        ⟨by rw [ha0]; rfl, rfl, hph, hdl, hi0⟩
      rw [if_pos hc]
      simp only [hloop, hdec, hnf, if_false, Bool.true_eq_false]
    unfold matchMain
    simp only [hmb, ok.hne, Bool.false_eq_true, if_false, hdk, hmc]
    have hEne : (encodeRune r).isEmpty = false := by
      obtain ⟨b0, t, hEt, _⟩ := wf_head hE
      rw [hEt]; rfl
    simp only [Keys.matchedKeys, runes_of_encode r hv, hEne, Bool.false_eq_true, if_false, List.isEmpty_nil, if_true,
      nonIncOverrideR, nonIncOverride, hn0, ite_self, Bool.false_and, isEscapeKey]
    have hesc : (([r] : List Nat) == [0x1b]) = false := by
      simp [hr1b]
    simp only [hesc, Bool.false_and, Bool.false_eq_true, if_false]
    subst he0
    simp [hasCmd]
    exact ok.hni


/-- only the first bytes of a character above 0x7F in the key buffer (the read was cut inside it):
`MatchMain` reports a prefix, puts the bytes back and asks for a read -/
theorem matchMain_partial (e : Eng) (ok : EngOK e) (r : Nat) (hv : ValidRune r) (h80 : 0x80 ≤ r) (hnf : r ≠ 0xFFFD)
    (B q' : List Nat) (hB : B ≠ []) (hq' : q' ≠ []) (hBq : B ++ q' = encodeRune r) (hbuf : e.keys.buf = B) :
    ∃ a bd cmd, matchMain e =
      ({ e with active := a, keys := { e.keys with buf := B, matched := runesOfBytes B, mustWait := true } }, bd, cmd, true) := by
  have hE := wf_of_encode r hv h80
  have hdec := decode_encode r hv []
  rw [List.append_nil] at hdec
  have hneF : encodeRune r ≠ fffd := by
    intro h
    rw [h] at hdec
    have : (decodeRune fffd).1 = 0xFFFD := by decide
    rw [hdec] at this
    exact hnf this
  have hmb : e.mainBinds = e.mainTbl := by simp [Eng.mainBinds, ok.hni, ok.hli]
  obtain ⟨t, hrunes⟩ := wf_prefix_runes hE B q' hBq hq' hB
  have hesc : (runesOfBytes B == [0x1b]) = false := by rw [hrunes]; simp
  have hBe : B.isEmpty = false := by cases B with | nil => exact absurd rfl hB | cons _ _ => rfl
  rcases dk_high e.mainTbl ok.high _ hE hneF e B hbuf ok.hmk hB (Or.inr ⟨q', hBq⟩)
      (e.keys.buf.length + e.keys.mkeys.length) (by rw [hbuf]; omega) with ⟨q, hq, _, hdk⟩ | ⟨p, qE, qB, hp, hEp, hBp, hdk⟩
  · refine ⟨e.active, e.active, hasCmd e e.active, ?_⟩
    unfold matchMain
    simp only [hmb, ok.hne, Bool.false_eq_true, if_false, hdk]
    simp only [matchCharacter, Bool.true_eq_false, false_and, and_false, if_false, if_true, Keys.matchedPrefix, hBe,
      Bool.false_eq_true, List.isEmpty_nil, List.append_nil, nonIncOverrideR, nonIncOverride, ok.hni, ite_self, Bool.false_and, isEscapeKey, hesc]
    simp [hasCmd]
  · have hqE : qE = qB ++ q' := by
      rw [hBp, hEp, List.append_assoc] at hBq
      exact (List.append_cancel_left hBq).symm
    have hdl : fullRune p.dropLast = false := by
      apply wf_prefix_notfull hE p.dropLast ([p.getLast hp] ++ qE)
      · rw [← List.append_assoc, List.dropLast_concat_getLast hp]; exact hEp.symm
      · simp
    have hph := prefix_head hE hp hEp
    have hqEl : qE.length + 1 ≤ 4 := by
      have := wf_len hE
      rw [hEp, List.length_append] at this
      have : p.length ≠ 0 := fun h => hp (List.length_eq_zero_iff.mp h)
      omega
    have hloop := (mcl _ hE qE p 4
      { e with active := e.prefixed, prefixed := Bind.none, keys := { e.keys with buf := qB } }
      hEp.symm ok.hmk hqEl).2 qB q' hq' hqE.symm rfl
    rw [← hBp] at hloop
    generalize he0 : ({ e with active := e.prefixed, prefixed := Bind.none, keys := { e.keys with buf := qB } } : Eng) = e0
      at hdk hloop
    have ha0 : e0.active = Bind.none := by rw [← he0]; exact ok.hpf
    have hi0 : e0.insertsText = true := by rw [← he0]; exact ok.hins
    have hn0 : e0.nonInc = false := by rw [← he0]; exact ok.hni
    have hmc : matchCharacter e0 e0.active false p =
        (({ e0 with keys := { e0.keys with buf := [] } } : Eng), Bind.none, true, B) := by
      unfold matchCharacter
      have hc : e0.active.action = "" ∧ false = false ∧ p.headD 0 ≥ 0x80 ∧ fullRune p.dropLast = false ∧ e0.insertsText = true :=
        ⟨by rw [ha0]; rfl, rfl, hph, hdl, hi0⟩
      rw [if_pos hc]
      simp only [hloop, if_true]
    refine ⟨Bind.none, Bind.none, hasCmd e Bind.none, ?_⟩
    unfold matchMain
    simp only [hmb, ok.hne, Bool.false_eq_true, if_false, hdk, hmc]
    simp only [if_true, Keys.matchedPrefix, hBe, Bool.false_eq_true, if_false, List.isEmpty_nil, List.append_nil,
      nonIncOverrideR, nonIncOverride, hn0, ite_self, Bool.false_and, isEscapeKey, hesc]
    subst he0
    simp [hasCmd, ok.hpf]
    exact ok.hni


/-- state between two iterations while text is typed at the end of the line (a read may have been cut inside
a character: `mustWait` is not constrained here) -/
structure GoodU (sh : Sh) (typed : List Nat) : Prop where
  tbl : TableOK sh.eng
  high : HighTbl sh.eng.mainTbl
  ins : sh.eng.insertsText = true
  line : sh.line = typed
  cur : sh.cur = typed.length
  hmk : sh.eng.keys.mkeys = []
  hni : sh.eng.nonInc = false
  hli : sh.eng.lisearch = false
  hpf : sh.eng.prefixed = Bind.none
  hacc : sh.accepted = none

theorem GoodU.toGood {sh : Sh} {typed : List Nat} (g : GoodU sh typed) (hmw : sh.eng.keys.mustWait = false) :
    Good sh typed := ⟨g.tbl, g.line, g.cur, g.hmk, hmw, g.hni, g.hli, g.hacc⟩

theorem GoodU.engOK {sh : Sh} {typed : List Nat} (g : GoodU sh typed) :
    EngOK { sh.eng with keys := sh.eng.keys.flushUsed } :=
  ⟨g.tbl.ne, g.hni, g.hli, g.ins, g.hpf, g.hmk, g.high⟩

/-- one whole character above 0x7F typed at the end of the line is appended to it -/
theorem iter_char (sh : Sh) (typed : List Nat) (r : Nat) (R : List Nat) (g : GoodU sh typed)
    (hv : ValidRune r) (h80 : 0x80 ≤ r) (hnf : r ≠ 0xFFFD) (hom : sh.outputMeta = true ∨ 0xff < r)
    (hbuf : sh.eng.keys.buf = encodeRune r ++ R) :
    ∃ sh', iter sh = .ok sh' ∧ GoodU sh' (typed ++ [r]) ∧ sh'.eng.keys.buf = R ∧
      sh'.eng.keys.mustWait = false ∧ sh'.outputMeta = sh.outputMeta := by
  have hm := matchMain_char _ g.engOK r hv h80 hnf R (by simpa [Keys.flushUsed] using hbuf)
  have hcmd : hasCmd { sh.eng with keys := sh.eng.keys.flushUsed } selfInsertBind = true := by
    have := g.tbl.reg1
    simp only [List.contains_eq_mem, decide_eq_true_eq] at this
    simp [hasCmd, selfInsertBind, this]
  unfold iter
  simp only [hm, hcmd, Bool.false_eq_true, if_false, if_true]
  have hq : (if sh.outputMeta = true ∧ r ≠ 0x1b then [r] else quote r) = [r] := by
    rcases hom with h | h
    · have : r ≠ 0x1b := by omega
      simp [h, this]
    · have : quote r = [r] := by
        unfold quote
        have h1 : ¬ r = 9 := by omega
        have h2 : ¬ (r > 0x7f ∧ r ≤ 0xff) := by omega
        have h3 : ¬ r < 0x20 := by omega
        simp [h1, h2, h3]
      split <;> simp [this]
  have hca : (checkAppend sh.line ⟨sh.cur, -1⟩).pos = len sh.line := by
    rw [g.cur, g.line]; unfold checkAppend len
    have : ¬ ((typed.length : Int) < 0) := by omega
    simp [this]
  simp only [runCmd, selfInsertBind, if_true, selfInsert, hq, hca, insert_end, bind, Except.bind, pure,
    Except.pure]
  refine ⟨_, rfl, ?_, rfl, rfl, rfl⟩
  constructor
  · exact tableOK_congr g.tbl rfl rfl
  · exact g.high
  · exact g.ins
  · simp [g.line]
  · simp only [g.line]
    unfold checkAppend len
    simp
    omega
  · exact g.hmk
  · exact g.hni
  · exact g.hli
  · rfl
  · exact g.hacc

/-- the first bytes only of a character above 0x7F: nothing is inserted, the bytes wait for the next read -/
theorem iter_partial (sh : Sh) (typed : List Nat) (r : Nat) (B q' : List Nat) (g : GoodU sh typed)
    (hv : ValidRune r) (h80 : 0x80 ≤ r) (hnf : r ≠ 0xFFFD)
    (hB : B ≠ []) (hq' : q' ≠ []) (hBq : B ++ q' = encodeRune r) (hbuf : sh.eng.keys.buf = B) :
    ∃ sh', iter sh = .ok sh' ∧ GoodU sh' typed ∧ sh'.eng.keys.buf = B ∧
      sh'.eng.keys.mustWait = true ∧ sh'.outputMeta = sh.outputMeta := by
  obtain ⟨a, bd, cmd, hm⟩ := matchMain_partial _ g.engOK r hv h80 hnf B q' hB hq' hBq (by simpa [Keys.flushUsed] using hbuf)
  unfold iter
  simp only [hm, if_true, pure, Except.pure]
  refine ⟨_, rfl, ?_, rfl, rfl, rfl⟩
  exact ⟨tableOK_congr g.tbl rfl rfl, g.high, g.ins, g.line, g.cur, g.hmk, g.hni, g.hli, g.hpf, g.hacc⟩


/-- the characters of the Unicode theorem: printable ASCII, or any rune above 0x7F that has a UTF-8 encoding
of its own, other than U+FFFD (the decoder's error value) -/
def Typable (r : Nat) : Prop := printable r ∨ (0x80 ≤ r ∧ ValidRune r ∧ r ≠ 0xFFFD)

theorem encode_printable (r : Nat) (h : printable r) : encodeRune r = [r] := by
  obtain ⟨h1, h2⟩ := h
  unfold encodeRune
  have c1 : ¬ (r > 0x10FFFF ∨ (0xD800 ≤ r ∧ r ≤ 0xDFFF)) := by omega
  have c2 : r < 0x80 := by omega
  simp only [c1, c2, if_false, if_true]

theorem utf8_cons (r : Nat) (rs : List Nat) : utf8 (r :: rs) = encodeRune r ++ utf8 rs := by
  simp [utf8]

/-- one iteration on a non-empty key buffer that holds the next bytes of the typed stream -/
theorem step_typed (sh : Sh) (typed rest tail : List Nat) (g : GoodU sh typed) (hty : ∀ r ∈ rest, Typable r)
    (hom : sh.outputMeta = true ∨ ∀ r ∈ rest, ¬ (0x80 ≤ r ∧ r ≤ 0xff))
    (hB : sh.eng.keys.buf ≠ []) (hs : sh.eng.keys.buf ++ tail = utf8 rest ++ [13])
    (hmw : sh.eng.keys.mustWait = true → ∃ r0 rs, rest = r0 :: rs ∧ 0x80 ≤ r0) :
    ∃ sh', iter sh = .ok sh' ∧ sh'.outputMeta = sh.outputMeta ∧
      ((rest = [] ∧ sh'.accepted = some typed) ∨
       (∃ r0 rs, rest = r0 :: rs ∧ GoodU sh' (typed ++ [r0]) ∧ sh'.eng.keys.buf ++ tail = utf8 rs ++ [13] ∧
          sh'.eng.keys.mustWait = false ∧ sh'.eng.keys.buf.length < sh.eng.keys.buf.length) ∨
       (∃ r0 rs q', rest = r0 :: rs ∧ GoodU sh' typed ∧ sh'.eng.keys.buf = sh.eng.keys.buf ∧
          sh'.eng.keys.mustWait = true ∧ 0x80 ≤ r0 ∧ q' ≠ [] ∧ sh.eng.keys.buf ++ q' = encodeRune r0)) := by
  cases hb : sh.eng.keys.buf with
  | nil => exact absurd hb hB
  | cons k t =>
    rw [hb] at hs
    cases rest with
    | nil =>
      have hmw' : sh.eng.keys.mustWait = false := by
        cases h : sh.eng.keys.mustWait with
        | false => rfl
        | true => obtain ⟨_, _, h1, _⟩ := hmw h; cases h1
      have hk : k = 13 := by simp [utf8] at hs; exact hs.1
      subst hk
      obtain ⟨sh', h1, h2, h3⟩ := iter_cr sh typed t (g.toGood hmw') hb
      exact ⟨sh', h1, h3, Or.inl ⟨rfl, h2⟩⟩
    | cons r0 rs =>
      rw [utf8_cons, List.append_assoc] at hs
      rcases hty r0 (by simp) with hp | ⟨h80, hv, hnf⟩
      · -- printable ASCII
        have hmw' : sh.eng.keys.mustWait = false := by
          cases h : sh.eng.keys.mustWait with
          | false => rfl
          | true =>
            obtain ⟨a, _, h1, h2⟩ := hmw h
            injection h1 with h1 _
            subst h1
            unfold printable at hp; omega
        rw [encode_printable r0 hp] at hs
        have hk : k = r0 ∧ t ++ tail = utf8 rs ++ [13] := by simpa using hs
        obtain ⟨rfl, hrest⟩ := hk
        obtain ⟨sh', h1, g2, hb2, hom2, a, K, heng⟩ := iter_printable sh typed k t (g.toGood hmw') hp hb
        refine ⟨sh', h1, hom2, Or.inr (Or.inl ⟨k, rs, rfl, ?_, by rw [hb2]; exact hrest, g2.hmw, by rw [hb2]; simp⟩)⟩
        exact ⟨g2.tbl, by rw [heng]; exact g.high, by rw [heng]; exact g.ins, g2.line, g2.cur, g2.hmk, g2.hni, g2.hli,
          by rw [heng], g2.hacc⟩
      · -- a character above 0x7F: whole in the buffer, or cut
        have hom' : sh.outputMeta = true ∨ 0xff < r0 := by
          rcases hom with h | h
          · exact Or.inl h
          · right; have := h r0 (by simp); omega
        rcases List.append_eq_append_iff.mp hs with ⟨a', ha1, ha2⟩ | ⟨c', hc1, hc2⟩
        · -- encodeRune r0 = (k :: t) ++ a'
          by_cases ha : a' = []
          · subst ha
            rw [List.append_nil] at ha1
            obtain ⟨sh', h1, g2, hb2, hmw2, hom2⟩ := iter_char sh typed r0 [] g hv h80 hnf hom' (by rw [hb, ← ha1]; simp)
            refine ⟨sh', h1, hom2, Or.inr (Or.inl ⟨r0, rs, rfl, g2, ?_, hmw2, by rw [hb2]; simp⟩)⟩
            rw [hb2]; simpa using ha2
          · obtain ⟨sh', h1, g2, hb2, hmw2, hom2⟩ := iter_partial sh typed r0 (k :: t) a' g hv h80 hnf (by simp) ha ha1.symm hb
            exact ⟨sh', h1, hom2, Or.inr (Or.inr ⟨r0, rs, a', rfl, g2, hb2, hmw2, h80, ha, ha1.symm⟩)⟩
        · -- k :: t = encodeRune r0 ++ c'
          obtain ⟨sh', h1, g2, hb2, hmw2, hom2⟩ := iter_char sh typed r0 c' g hv h80 hnf hom' (by rw [hb, hc1])
          refine ⟨sh', h1, hom2, Or.inr (Or.inl ⟨r0, rs, rfl, g2, ?_, hmw2, ?_⟩)⟩
          · rw [hb2]; exact hc2.symm
          · rw [hb2, hc1, List.length_append]
            have : (encodeRune r0).length ≠ 0 := fun h => encodeRune_ne_nil r0 (List.length_eq_zero_iff.mp h)
            omega


theorem needRead_U (sh : Sh) (typed : List Nat) (g : GoodU sh typed) :
    needRead sh.eng.keys = (sh.eng.keys.buf.isEmpty || sh.eng.keys.mustWait) := by
  unfold needRead
  simp only [g.hmk, List.isEmpty_nil, Bool.not_true, Bool.or_false]
  cases sh.eng.keys.buf.isEmpty <;> cases sh.eng.keys.mustWait <;> rfl

theorem goodU_feed (sh : Sh) (typed c : List Nat) (g : GoodU sh typed) : GoodU (feed sh c) typed :=
  ⟨tableOK_congr g.tbl rfl rfl, g.high, g.ins, g.line, g.cur, g.hmk, g.hni, g.hli, g.hpf, g.hacc⟩

/-- the bytes of a character cut by the end of a read are waiting in the buffer -/
def Pending (sh : Sh) (rest : List Nat) : Prop :=
  ∃ r0 rs q', rest = r0 :: rs ∧ 0x80 ≤ r0 ∧ q' ≠ [] ∧ sh.eng.keys.buf ++ q' = encodeRune r0

/-- C02, any Unicode text, any chunking: typing the UTF-8 bytes of typable characters then Return
returns exactly the characters typed. -/
theorem typed_unicode_returned : ∀ (fuel : Nat) (chunks : List (List Nat)) (sh : Sh) (typed rest : List Nat),
    GoodU sh typed → (∀ r ∈ rest, Typable r) →
    (sh.outputMeta = true ∨ ∀ r ∈ rest, ¬ (0x80 ≤ r ∧ r ≤ 0xff)) →
    sh.eng.keys.buf ++ chunks.flatten = utf8 rest ++ [13] →
    (sh.eng.keys.mustWait = true → Pending sh rest) →
    fuel > 2 * (sh.eng.keys.buf.length + chunks.flatten.length) + 2 * chunks.length +
      (if needRead sh.eng.keys = true then 0 else 1) →
    run fuel chunks sh = .ok (some (typed ++ rest)) := by
  intro fuel
  induction fuel with
  | zero => intro _ _ _ _ _ _ _ _ _ h; omega
  | succ fuel ih =>
    intro chunks sh typed rest g hty hom hbytes hpend hfuel
    have hnr := needRead_U sh typed g
    by_cases hn : needRead sh.eng.keys = true
    · rw [if_pos hn] at hfuel
      cases chunks with
      | nil =>
        -- nothing left to read: the stream ends with Return, which is not in a pending character
        exfalso
        simp only [List.flatten_nil, List.append_nil] at hbytes
        rw [hnr, Bool.or_eq_true] at hn
        rcases hn with h | h
        · have : sh.eng.keys.buf = [] := by simpa using h
          rw [this] at hbytes
          have := congrArg List.length hbytes
          simp at this
        · obtain ⟨r0, rs, q', hr, _, hq', hq⟩ := hpend h
          rw [hr, utf8_cons] at hbytes
          have h1 := congrArg List.length hq
          have h2 := congrArg List.length hbytes
          simp only [List.length_append, List.length_cons, List.length_nil] at h1 h2
          have : q'.length ≠ 0 := fun h => hq' (List.length_eq_zero_iff.mp h)
          omega
      | cons c cs =>
        by_cases hc : c = []
        · subst hc
          rw [run_skip fuel cs sh g.hacc hn]
          apply ih cs sh typed rest g hty hom (by simpa using hbytes) hpend
          rw [if_pos hn]
          simp only [List.flatten_cons, List.nil_append, List.length_cons] at hfuel
          omega
        · have hce : c.isEmpty = false := by cases c <;> simp_all
          rw [run_read fuel c cs sh g.hacc hn hce]
          have g1 := goodU_feed sh typed c g
          have hb1 : (feed sh c).eng.keys.buf = sh.eng.keys.buf ++ c := rfl
          have hB1 : (feed sh c).eng.keys.buf ≠ [] := by
            rw [hb1]; intro h; exact hc (List.append_eq_nil_iff.mp h).2
          have hs1 : (feed sh c).eng.keys.buf ++ cs.flatten = utf8 rest ++ [13] := by
            rw [hb1, List.append_assoc]; simpa using hbytes
          have hmw1 : (feed sh c).eng.keys.mustWait = true → ∃ r0 rs, rest = r0 :: rs ∧ 0x80 ≤ r0 := by
            intro h
            obtain ⟨r0, rs, _, hr, h80, _, _⟩ := hpend h
            exact ⟨r0, rs, hr, h80⟩
          obtain ⟨sh', h1, hom1, hcase⟩ := step_typed (feed sh c) typed rest cs.flatten g1 hty hom hB1 hs1 hmw1
          rw [h1]
          simp only [bind, Except.bind]
          have hom' : sh'.outputMeta = true ∨ ∀ r ∈ rest, ¬ (0x80 ≤ r ∧ r ≤ 0xff) := by
            rw [hom1]; exact hom
          simp only [List.flatten_cons, List.length_append, List.length_cons] at hfuel
          rcases hcase with ⟨hr, hacc⟩ | ⟨r0, rs, hr, g2, hs2, hmw2, hlt⟩ | ⟨r0, rs, q', hr, g2, hb2, hmw2, h80, hq', hq⟩
          · subst hr
            cases fuel with
            | zero => omega
            | succ f => rw [run_accepted f cs sh' typed hacc]; simp
          · subst hr
            have := ih cs sh' (typed ++ [r0]) rs g2 (fun r hr => hty r (by simp [hr]))
              (by rcases hom' with h | h
                  · exact Or.inl h
                  · exact Or.inr (fun r hr => h r (by simp [hr])))
              hs2 (by intro h; rw [hmw2] at h; cases h)
              (by rw [hb1, List.length_append] at hlt
                  have : (if needRead sh'.eng.keys = true then 0 else 1) ≤ 1 := by split <;> omega
                  omega)
            simpa [List.append_assoc] using this
          · have hn2 : needRead sh'.eng.keys = true := by
              rw [needRead_U sh' typed g2, hmw2]; simp
            apply ih cs sh' typed rest g2 hty hom' (by rw [hb2]; exact hs1)
              (fun _ => ⟨r0, rs, q', hr, h80, hq', by rw [hb2]; exact hq⟩)
            rw [if_pos hn2, hb2, hb1, List.length_append]
            omega
    · rw [if_neg hn] at hfuel
      have hnf : needRead sh.eng.keys = false := by simpa using hn
      rw [run_noread fuel chunks sh g.hacc hnf]
      rw [hnr, Bool.or_eq_false_iff] at hnf
      have hB : sh.eng.keys.buf ≠ [] := by
        intro h; rw [h] at hnf; simp at hnf
      obtain ⟨sh', h1, hom1, hcase⟩ := step_typed sh typed rest chunks.flatten g hty hom hB hbytes
        (by intro h; rw [hnf.2] at h; cases h)
      rw [h1]
      simp only [bind, Except.bind]
      have hom' : sh'.outputMeta = true ∨ ∀ r ∈ rest, ¬ (0x80 ≤ r ∧ r ≤ 0xff) := by
        rw [hom1]; exact hom
      rcases hcase with ⟨hr, hacc⟩ | ⟨r0, rs, hr, g2, hs2, hmw2, hlt⟩ | ⟨r0, rs, q', hr, g2, hb2, hmw2, h80, hq', hq⟩
      · subst hr
        cases fuel with
        | zero => omega
        | succ f => rw [run_accepted f chunks sh' typed hacc]; simp
      · subst hr
        have := ih chunks sh' (typed ++ [r0]) rs g2 (fun r hr => hty r (by simp [hr]))
          (by rcases hom' with h | h
              · exact Or.inl h
              · exact Or.inr (fun r hr => h r (by simp [hr])))
          hs2 (by intro h; rw [hmw2] at h; cases h)
          (by have : (if needRead sh'.eng.keys = true then 0 else 1) ≤ 1 := by split <;> omega
              omega)
        simpa [List.append_assoc] using this
      · have hn2 : needRead sh'.eng.keys = true := by
          rw [needRead_U sh' typed g2, hmw2]; simp
        apply ih chunks sh' typed rest g2 hty hom' (by rw [hb2]; exact hbytes)
          (fun _ => ⟨r0, rs, q', hr, h80, hq', by rw [hb2]; exact hq⟩)
        rw [if_pos hn2, hb2]
        omega

end RLV.Loop
