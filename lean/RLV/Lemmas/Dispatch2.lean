import RLV.Lemmas.Dispatch
namespace RLV

/-- Walking through keys every prefix of which can still be extended: nothing runs,
everything read counts as matched, and the remembered shorter bind is the last one seen. -/
theorem dispatch_walk (tbl : List (Seq × Bind)) (rest : Seq) (a : Bind) :
    ∀ (suf pre : Seq) (pfx : Bool) (p : Bind),
      (∀ i, 0 < i → i ≤ suf.length → hasProperExt (pre ++ suf.take i) tbl = true) →
      ∃ p', dispatch tbl (suf ++ rest) pre pre pfx p a
            = dispatch tbl rest (pre ++ suf) (pre ++ suf) (pfx || !suf.isEmpty) p' a
          ∧ (suf ≠ [] → (lastExact (pre ++ suf) tbl).action ≠ "" → p' = lastExact (pre ++ suf) tbl)
          ∧ (suf = [] → p' = p) := by
  intro suf
  induction suf with
  | nil =>
    intro pre pfx p _
    exact ⟨p, by simp, by simp, by simp⟩
  | cons k t ih =>
    intro pre pfx p hall
    have hk : hasProperExt (pre ++ [k]) tbl = true := by
      have := hall 1 (by omega) (by simp)
      simpa using this
    have hall' : ∀ i, 0 < i → i ≤ t.length → hasProperExt ((pre ++ [k]) ++ t.take i) tbl = true := by
      intro i hi hle
      have := hall (i + 1) (by omega) (by simp; omega)
      simpa [List.take_succ_cons, List.append_assoc] using this
    obtain ⟨p', h1, h2, h3⟩ := ih (pre ++ [k]) true
      (if (lastExact (pre ++ [k]) tbl).action ≠ "" then lastExact (pre ++ [k]) tbl else p) hall'
    refine ⟨p', ?_, ?_, ?_⟩
    · simp only [List.cons_append, dispatch, matchBind_eq, hk]
      have hf : ¬ ((lastExact (pre ++ [k]) tbl).action = "" ∧ true = false) := by simp
      rw [if_neg hf, if_pos trivial, h1]
      simp [List.append_assoc]
    · intro _ hact
      by_cases ht : t = []
      · subst ht
        have := h3 rfl
        rw [this]; simp [hact]
      · have := h2 ht (by simpa [List.append_assoc] using hact)
        simpa [List.append_assoc] using this
    · intro h; exact absurd h (by simp)

/-- T2: the keys typed so far are only a proper prefix of bindings: no command runs, the
dispatcher reports a prefix and hands back exactly the keys it read. -/
theorem dispatch_prefix_waits (tbl : List (Seq × Bind)) (p : Seq) (hne : p ≠ [])
    (hall : ∀ i, 0 < i → i ≤ p.length → hasProperExt (p.take i) tbl = true) (pf a : Bind) :
    ∃ pf', dispatch tbl p [] [] false pf a = ⟨a, true, p, p, [], pf'⟩ := by
  obtain ⟨p', h1, _, _⟩ := dispatch_walk tbl [] a p [] false pf (by simpa using hall)
  refine ⟨p', ?_⟩
  have : (false || !p.isEmpty) = true := by
    cases p with
    | nil => exact absurd rfl hne
    | cons _ _ => simp
  simp only [List.append_nil, List.nil_append] at h1
  rw [h1, this]; simp [dispatch]

/-- T4: a sequence that is bound *and* a prefix of longer bindings runs its own binding as soon
as the next key rules the longer ones out. -/
theorem dispatch_shorter (tbl : List (Seq × Bind)) (s rest : Seq) (k : Nat) (b : Bind)
    (hne : s ≠ []) (hb : lastExact s tbl = b) (hact : b.action ≠ "")
    (hall : ∀ i, 0 < i → i ≤ s.length → hasProperExt (s.take i) tbl = true)
    (hdead1 : (lastExact (s ++ [k]) tbl).action = "") (hdead2 : hasProperExt (s ++ [k]) tbl = false)
    (pf a : Bind) :
    dispatch tbl (s ++ k :: rest) [] [] false pf a = ⟨b, false, s ++ [k], s, rest, Bind.none⟩ := by
  obtain ⟨p', h1, h2, _⟩ := dispatch_walk tbl (k :: rest) a s [] false pf (by simpa using hall)
  have hp' : p' = b := by
    have := h2 hne (by simpa [hb] using hact)
    simpa [hb] using this
  simp only [List.nil_append] at h1
  rw [h1, hp']
  simp [dispatch, matchBind_eq, hdead1, hdead2]

/-- T3: a key that starts no binding runs nothing (given no remembered shorter bind) and
only that key is consumed. -/
theorem dispatch_nomatch (tbl : List (Seq × Bind)) (k : Nat) (rest : Seq)
    (h1 : (lastExact [k] tbl).action = "") (h2 : hasProperExt [k] tbl = false) (a : Bind) :
    dispatch tbl (k :: rest) [] [] false Bind.none a = ⟨Bind.none, false, [k], [], rest, Bind.none⟩ := by
  simp [dispatch, matchBind_eq, h1, h2]

end RLV
