import RLV.Lemmas.RefreshMultiMain
/-! `AcceptLine` run after a redisplay: the only thing it erases is what follows the end of the input,
so a frame whose cells after the text are already blank is left as it is (C11, C04). -/
namespace RLV.Term
open RLV.Disp

/-- `CSI 0 J` at the cursor `(x, y)` (no pending wrap): the cells from the cursor on, in linear order -/
theorem ed0_cells (t : Term) (hx : t.x < t.w) (r c : Nat) (hc : c < t.w) :
    t.ed0.cell r c = if t.y * t.w + t.x ≤ r * t.w + c then blank else t.cell r c := by
  have hl := @lin_ge t.w t.x t.y r c hx hc
  show (if (r = t.y ∧ t.x ≤ c) ∨ t.y < r then blank else t.cell r c) = _
  by_cases h : t.y * t.w + t.x ≤ r * t.w + c
  · rw [if_pos h]
    rcases hl.mp h with h1 | h1
    · rw [if_pos (Or.inr h1)]
    · rw [if_pos (Or.inl h1)]
  · rw [if_neg h]
    have : ¬ ((r = t.y ∧ t.x ≤ c) ∨ t.y < r) := by
      intro h'; apply h
      rcases h' with h' | h'
      · exact hl.mpr (Or.inr h')
      · exact hl.mpr (Or.inl h')
    rw [if_neg this]

@[simp] theorem quietL_cons_dsr (q : List Tk) : quietL (.dsr :: q) = quietL q := by simp [quietL, isQuiet]
@[simp] theorem quietL_dsr : quietL [.dsr] = true := rfl
@[simp] theorem quietL_crlf : quietL [.crlf] = true := rfl

/-- `AcceptLine` from the cursor cell `(CC, r0 + CR)` of a frame whose input ends at row `r0 + LR`, column
`LC`: every cell before the end of the input is untouched, every cell from there on is blank. -/
theorem accept_cells (w sc CC CR LR LC r0 : Nat) (t : Term) (hw : t.w = w) (hw0 : 0 < w)
    (hx : t.x = CC) (hy : t.y = r0 + CR) (hpw : t.pw = false) (hLC : LC < w) (hsc : sc < w) :
    let t' := t.run (mv .cub (CC : Nat) ++ mv .cuu (CR : Nat) ++ mv .cuf (sc : Nat) ++ [.dsr] ++
        mv .cub w ++ mv .cud (LR : Nat) ++ mv .cuf (LC : Nat) ++ [.ed0] ++ mv .cub w ++ [.crlf])
    ∀ r c, c < w → t'.cell r c = if (r0 + LR) * w + LC ≤ r * w + c then blank else t.cell r c := by
  intro t'
  let q1 : List Tk := mv .cub (CC : Nat) ++ mv .cuu (CR : Nat) ++ mv .cuf (sc : Nat) ++ [.dsr] ++
        mv .cub w ++ mv .cud (LR : Nat) ++ mv .cuf (LC : Nat)
  let q2 : List Tk := mv .cub w ++ [.crlf]
  have hrun : t' = (((t.run q1).ed0).run q2) := by
    show t.run _ = _
    have : (mv .cub (CC : Nat) ++ mv .cuu (CR : Nat) ++ mv .cuf (sc : Nat) ++ [.dsr] ++
        mv .cub w ++ mv .cud (LR : Nat) ++ mv .cuf (LC : Nat) ++ [.ed0] ++ mv .cub w ++ [.crlf] : List Tk)
        = q1 ++ ([.ed0] ++ q2) := by simp only [q1, q2, List.append_assoc]
    rw [this, run_append, run_append]
    rfl
  have hq1 : quietL q1 = true := by simp [q1]
  have hq2 : quietL q2 = true := by simp [q2]
  obtain ⟨a1, a2, a3, a4⟩ := quiet_run q1 t hq1 hpw
  have hfold : q1.foldl (stepXY t.w) (t.x, t.y) = (LC, r0 + LR) := by
    rw [hw, hx, hy]
    simp only [q1, List.append_assoc]
    rw [foldl_mv_cub, foldl_mv_cuu]
    rw [foldl_mv_cuf _ _ _ _ (by simp only []; omega)]
    simp only [List.cons_append, List.nil_append, List.foldl_cons, stepXY]
    rw [foldl_mv_cub, foldl_mv_cud, foldl_mv_cuf' _ _ _ (by simp only []; omega)]
    refine Prod.ext ?_ ?_ <;> simp only <;> omega
  rw [hfold] at a4
  generalize t.run q1 = ta at a1 a2 a3 a4 hrun
  have hax : ta.x = LC := (Prod.mk.inj a4).1
  have hay : ta.y = r0 + LR := (Prod.mk.inj a4).2
  have hed_pw : ta.ed0.pw = false := a2
  obtain ⟨b1, _, _, _⟩ := quiet_run q2 ta.ed0 hq2 hed_pw
  intro r c hc
  rw [hrun, b1, ed0_cells ta (by rw [hax, a3, hw]; exact hLC) r c (by rw [a3, hw]; exact hc), hax, hay, a3, hw, a1]

end RLV.Term

namespace RLV.Disp
open RLV.Term

/-- after the text of the last line the frame of the lines after the first is blank -/
theorem expectMore_after_last (w p : Nat) : ∀ (rest : List (List Nat)) (last : List Nat) (x : Nat),
    rest.getLast? = some last → rowsOfLines w p rest.dropLast * w + (last.length + p) ≤ x →
    expectMore w p rest x = blank
  | [], _, _, h, _ => by simp at h
  | [a], last, x, h, hx => by
    have ha : a = last := by simpa using h
    subst ha
    simp only [List.dropLast_singleton, rowsOfLines, Nat.zero_mul, Nat.zero_add] at hx
    simp only [expectMore]
    split
    · exact getD_blank (by simp; omega) _
    · rfl
  | a :: b :: t, last, x, h, hx => by
    have h' : (b :: t).getLast? = some last := by simpa [List.getLast?_cons_cons] using h
    have hd : (a :: b :: t).dropLast = a :: (b :: t).dropLast := by simp [List.dropLast]
    rw [hd] at hx
    simp only [rowsOfLines, Nat.add_mul] at hx
    simp only [expectMore]
    have : ¬ x < blockRows w p a * w := by omega
    rw [if_neg this]
    exact expectMore_after_last w p (b :: t) last _ h' (by omega)

end RLV.Disp

namespace RLV.Term
open RLV.Disp


theorem puts_w (gs : List Nat) : ∀ (t : Term), (t.puts gs).w = t.w := by
  induction gs with
  | nil => intro t; rfl
  | cons g gs ih => intro t; show ((t.put g).puts gs).w = t.w; rw [ih]; rfl

theorem step_w (t : Term) (k : Tk) : (t.step k).w = t.w := by
  cases k <;> first | rfl | exact puts_w _ _

theorem run_w (toks : List Tk) : ∀ (t : Term), (t.run toks).w = t.w := by
  induction toks with
  | nil => intro t; rfl
  | cons k ks ih => intro t; show ((t.step k).run ks).w = t.w; rw [ih, step_w]


/-- `AcceptLine` after any frame: the cells from the end of the input on are blank, the others unchanged -/
theorem accept_after (w : Nat) (prompt l : List Nat) (pos r0 : Nat) (t : Term) (hw : t.w = w) (hw0 : 0 < w)
    (hx : t.x = (coordsCursor w l pos prompt.length).1)
    (hy : t.y = r0 + (coordsCursor w l pos prompt.length).2) (hpw : t.pw = false)
    (hLC : (coordsLine w l prompt.length).1 < w) (hpr : prompt.length < w) :
    ∀ r c, c < w → (t.run (acceptLine w prompt l pos)).cell r c =
      if (r0 + (coordsLine w l prompt.length).2) * w + (coordsLine w l prompt.length).1 ≤ r * w + c
      then blank else t.cell r c :=
  accept_cells w prompt.length _ _ _ _ r0 t hw hw0 hx hy hpw hLC hpr

/-- the frame of a multi-line buffer is blank from the end of its last line on -/
theorem frameCell_after_end (w : Nat) (prompt sec first last : List Nat) (rest : List (List Nat)) (d : Nat)
    (hlast : rest.getLast? = some last)
    (hd : blockRows w prompt.length first * w + rowsOfLines w prompt.length rest.dropLast * w +
      (last.length + prompt.length) ≤ d) :
    frameCell w prompt sec first rest d = blank := by
  unfold frameCell
  have n1 : ¬ (sec.length ≤ prompt.length ∧
      blockRows w prompt.length first * w + rowsOfLines w prompt.length rest.dropLast * w ≤ d ∧
      d < blockRows w prompt.length first * w + rowsOfLines w prompt.length rest.dropLast * w + sec.length) := by
    intro ⟨a, _, c⟩; omega
  have n2 : ¬ (d < blockRows w prompt.length first * w) := by omega
  rw [if_neg n1, if_neg n2]
  exact expectMore_after_last w prompt.length rest last _ hlast (by omega)

end RLV.Term
