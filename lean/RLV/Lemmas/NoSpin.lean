import RLV.Lemmas.MatchSum
import RLV.Model.MLoop
/-! The main loop cannot spin (C01): every iteration that does not start by reading the terminal
either leaves the loop settled (returned, or about to read the terminal), or strictly decreases the
measure `(m3 keys, prefixed bind pending)` in the lexicographic order — for every bind table, local
keymap, key stack and macro, and whatever the commands do within `WB`. -/
namespace RLV.MLoop
open RLV

/-- what the commands are assumed to do, as far as the loop is concerned: they take keys from the
stack (`ReadKey`, `Pop`) and feed keys to it (`Feed`), they do not touch the dispatcher's prefixed bind,
and no command is registered under the empty name -/
structure WB (C : Cmds) : Prop where
  prefixed : ∀ b c s, (C.run b c s).eng.prefixed = s.eng.prefixed
  keys : ∀ b c s, ∃ t fed, Keys.SameQueues ((Keys.popN t s.eng.keys).feed fed) (C.run b c s).eng.keys
  noEmpty : ∀ b c s, "" ∉ s.eng.registered → "" ∉ (C.run b c s).eng.registered

/-- the invariant of the loop -/
def Good (s : LS) : Prop := s.eng.keys.Inv ∧ "" ∉ s.eng.registered

/-- a bind is prefixed (1) or not (0) -/
def Pr (e : Eng) : Nat := if e.prefixed.action = "" then 0 else 1

theorem runBind_rel (C : Cmds) (hC : WB C) (main : Bool) (b : Bind) (c : Bool) (s : LS) :
    RunRel s.eng.keys (runBind C main b c s).eng.keys ∧
    (runBind C main b c s).eng.prefixed = s.eng.prefixed ∧
    ("" ∉ s.eng.registered → "" ∉ (runBind C main b c s).eng.registered) := by
  unfold runBind
  split
  · exact ⟨RunRel.refl _, rfl, id⟩
  · dsimp only
    generalize hs1 : (if b.isMacro = true then
        ({ s with eng := { s.eng with keys := s.eng.keys.feed (macroKeys b) } } : LS) else s) = s1
    have h1 : RunRel s.eng.keys s1.eng.keys ∧ s1.eng.prefixed = s.eng.prefixed ∧ s1.eng.registered = s.eng.registered := by
      rw [← hs1]
      split
      · exact ⟨RunRel.feed _ _, rfl, rfl⟩
      · exact ⟨RunRel.refl _, rfl, rfl⟩
    obtain ⟨t, fed, hq⟩ := hC.keys b c s1
    refine ⟨h1.1.trans ((RunRel.popN _ t).trans ((RunRel.feed _ fed).trans (RunRel.of_same hq))), ?_, ?_⟩
    · rw [hC.prefixed, h1.2.1]
    · intro h; apply hC.noEmpty; rw [h1.2.2]; exact h

theorem needRead_false_pos {k : Keys} (h : needRead k = false) : 0 < k.pending := by
  unfold needRead at h
  unfold Keys.pending
  cases hb : k.buf <;> cases hm : k.mkeys <;> simp_all <;> omega

theorem needRead_of_wait {k : Keys} (hw : k.mustWait = true) (hm : k.mkeys = []) : needRead k = true := by
  unfold needRead; simp [hw, hm]

theorem needRead_of_empty {k : Keys} (hb : k.buf = []) (hm : k.mkeys = []) : needRead k = true := by
  unfold needRead; simp [hb, hm]

/-- after a stage that left every key pushed back (or none at all), running a bind leaves the loop
settled unless it fed keys, which is paid for -/
theorem settled_or_lt_of_run {k1 k2 : Keys} (hr : RunRel k1 k2) (hi : k1.Inv) (hm : k1.mkeys = [])
    (hblock : k1.mustWait = true ∨ k1.buf = []) :
    needRead k2 = true ∨ lt3 (m3 k2) (m3 k1) := by
  by_cases h2 : k2.mkeys = []
  · left
    rcases hblock with hw | hb
    · exact needRead_of_wait (by rw [hr.wait]; exact hw) h2
    · have := hr.bufle
      rw [hb] at this
      exact needRead_of_empty (List.eq_nil_of_length_eq_zero (by simpa using this)) h2
  · right; exact hr.fresh hi hm h2

/-- the result of an iteration -/
def Progress (s s' : LS) : Prop :=
  Settled s' ∨ lt3 (m3 s'.eng.keys) (m3 s.eng.keys) ∨
    (le3 (m3 s'.eng.keys) (m3 s.eng.keys) ∧ Pr s'.eng < Pr s.eng)


theorem settled_of_pushed {k k' : Keys} (h : Pushed k k') : needRead k' = true :=
  needRead_of_wait h.wait h.nomk

/-- the second half of an iteration: `MatchMain`, then the bind it selected -/
theorem main_stage (C : Cmds) (hC : WB C) (s0 s2 : LS) (hg2 : Good s2)
    (hle : le3 (m3 s2.eng.keys) (m3 s0.eng.keys)) :
    let r3 := matchMain { s2.eng with lisearch := s2.isearch }
    let s3 : LS := { s2 with eng := r3.1 }
    let s' := if r3.2.2.2 then s3 else runBind C true r3.2.1 r3.2.2.1 s3
    Good s' ∧ (Settled s' ∨ lt3 (m3 s'.eng.keys) (m3 s0.eng.keys)) := by
  intro r3 s3 s'
  have hout : MainOut { s2.eng with lisearch := s2.isearch } r3 := matchMain_out _
  have hreg3 : r3.1.registered = s2.eng.registered := matchMain_reg _
  unfold MainOut at hout
  dsimp only at hout
  obtain ⟨hrun, _, hrreg⟩ := runBind_rel C hC true r3.2.1 r3.2.2.1 s3
  have hs3k : s3.eng.keys = r3.1.keys := rfl
  have hs3r : s3.eng.registered = s2.eng.registered := hreg3
  rw [hs3k] at hrun
  rcases hout with ⟨hz, hpf, hret⟩ | ⟨hpos, hpu⟩ | ⟨hpos, hpf, hcons⟩
  · -- no key at all: the bind run is the only thing that can unsettle the loop
    have hi3 := hret.inv hg2.1
    have hs' : s' = runBind C true r3.2.1 r3.2.2.1 s3 := by simp only [s', hpf, Bool.false_eq_true, if_false]
    have hp3 : r3.1.keys.pending = 0 := by rw [hret.pend]; exact hz
    obtain ⟨hb3, hm3⟩ := pending_zero hp3
    rw [hs']
    refine ⟨⟨hrun.inv hi3, hrreg (by rw [hs3r]; exact hg2.2)⟩, ?_⟩
    rcases settled_or_lt_of_run hrun hi3 hm3 (Or.inr hb3) with h | h
    · exact Or.inl (Or.inr h)
    · exact Or.inr (lt3_of_lt3_of_le3 h (le3_trans hret.le hle))
  · have hi3 := hpu.toReturned.inv hg2.1
    cases hpf : r3.2.2.2
    · have hs' : s' = runBind C true r3.2.1 r3.2.2.1 s3 := by simp only [s', hpf, Bool.false_eq_true, if_false]
      rw [hs']
      refine ⟨⟨hrun.inv hi3, hrreg (by rw [hs3r]; exact hg2.2)⟩, ?_⟩
      rcases settled_or_lt_of_run hrun hi3 hpu.nomk (Or.inl hpu.wait) with h | h
      · exact Or.inl (Or.inr h)
      · exact Or.inr (lt3_of_lt3_of_le3 h (le3_trans hpu.toReturned.le hle))
    · have hs' : s' = s3 := by simp only [s', hpf, if_true]
      rw [hs']
      exact ⟨⟨hi3, by rw [hs3r]; exact hg2.2⟩, Or.inl (Or.inr (settled_of_pushed hpu))⟩
  · have hi3 := hcons.inv hg2.1
    have hs' : s' = runBind C true r3.2.1 r3.2.2.1 s3 := by simp only [s', hpf, Bool.false_eq_true, if_false]
    rw [hs']
    refine ⟨⟨hrun.inv hi3, hrreg (by rw [hs3r]; exact hg2.2)⟩, Or.inr ?_⟩
    exact lt3_of_le3_of_lt3 (hrun.le hi3) (lt3_of_lt3_of_le3 hcons.lt hle)

/-- One iteration of the main loop that does not start by reading the terminal makes progress. -/
theorem iter_progress_pos (C : Cmds) (hC : WB C) (s : LS) (hg : Good s) (hpos : 0 < s.eng.keys.pending) :
    Good (iter C s) ∧ Progress s (iter C s) := by
  -- the flushed engine
  let e0 : Eng := { s.eng with keys := s.eng.keys.flushUsed, lisearch := s.isearch }
  have hm0 : m3 e0.keys = m3 s.eng.keys := rfl
  have hi0 : e0.keys.Inv := hg.1
  have hpos0 : 0 < e0.keys.pending := hpos
  obtain ⟨hlo, hlp⟩ := matchLocal_out e0 s.ltbl s.isearch rfl hpos0
  obtain ⟨hlreg, hlcmd⟩ := matchLocal_reg e0 s.ltbl s.isearch
  unfold iter
  dsimp only
  generalize matchLocal e0 s.ltbl s.isearch = r1 at hlo hlp hlreg hlcmd
  -- (the goal mentions the same engine, written out)
  show Good (if r1.2.2.2 = true then ({ s with eng := r1.1 } : LS) else _) ∧ Progress s (if r1.2.2.2 = true then ({ s with eng := r1.1 } : LS) else _)
  cases hp1 : r1.2.2.2
  · -- no prefix in the local keymap
    simp only [Bool.false_eq_true, if_false]
    let s1 : LS := { s with eng := r1.1 }
    obtain ⟨hrun, hrpr, hrreg⟩ := runBind_rel C hC false r1.2.1 r1.2.2.1 s1
    have hs1k : s1.eng.keys = r1.1.keys := rfl
    rw [hs1k] at hrun
    have hreg1 : "" ∉ r1.1.registered := by rw [hlreg]; exact hg.2
    -- where the keys stand after the local keymap
    have hle1 : le3 (m3 r1.1.keys) (m3 s.eng.keys) ∧ r1.1.keys.Inv := by
      rcases hlo with h | h | ⟨_, h⟩ | ⟨_, h, _⟩
      · rw [h]; exact ⟨le3_refl _, hi0⟩
      · exact ⟨h.toReturned.le, h.toReturned.inv hi0⟩
      · exact ⟨Or.inl h.lt, h.inv hi0⟩
      · exact ⟨h.le, h.inv hi0⟩
    have hg2 : Good (runBind C false r1.2.1 r1.2.2.1 s1) := ⟨hrun.inv hle1.2, hrreg hreg1⟩
    have hle2 : le3 (m3 (runBind C false r1.2.1 r1.2.2.1 s1).eng.keys) (m3 s.eng.keys) :=
      le3_trans (hrun.le hle1.2) hle1.1
    by_cases hdc : (runBind C false r1.2.1 r1.2.2.1 s1).done = true ∨ r1.2.2.1 = true
    · simp only [s1] at hdc
      simp only [hdc, if_true]
      refine ⟨hg2, ?_⟩
      rcases hdc with hd | hc
      · exact Or.inl (Or.inl hd)
      · have hact := hlcmd hc hg.2
        rcases hlo with h | h | ⟨_, h⟩ | ⟨_, h, hpn, hst⟩
        · rw [h] at hact; exact absurd rfl hact
        · rcases settled_or_lt_of_run hrun (h.toReturned.inv hi0) h.nomk (Or.inl h.wait) with x | x
          · exact Or.inl (Or.inr x)
          · exact Or.inr (Or.inl (lt3_of_lt3_of_le3 x h.toReturned.le))
        · exact Or.inr (Or.inl (lt3_of_le3_of_lt3 (hrun.le (h.inv hi0)) h.lt))
        · -- the stale prefixed bind, run without consuming any key
          refine Or.inr (Or.inr ⟨hle2, ?_⟩)
          have h0 : Pr s.eng = 1 := by
            have := hst hact
            unfold Pr
            simp only [show s.eng.prefixed = e0.prefixed from rfl, this, if_false]
          have h2 : Pr (runBind C false r1.2.1 r1.2.2.1 s1).eng = 0 := by
            unfold Pr
            rw [hrpr]
            simp only [show s1.eng.prefixed = r1.1.prefixed from rfl, hpn, Bind.none, if_true]
          rw [h0, h2]; exact Nat.zero_lt_one
    · simp only [s1] at hdc
      simp only [hdc, if_false]
      obtain ⟨hg', hpr'⟩ := main_stage C hC s (runBind C false r1.2.1 r1.2.2.1 s1) hg2 hle2
      refine ⟨hg', ?_⟩
      rcases hpr' with h | h
      · exact Or.inl h
      · exact Or.inr (Or.inl h)
  · -- every key read as a prefix of the local keymap: pushed back, the loop reads the terminal
    simp only [if_true]
    have hpu := hlp hp1
    exact ⟨⟨hpu.toReturned.inv hi0, by show "" ∉ r1.1.registered; rw [hlreg]; exact hg.2⟩,
      Or.inl (Or.inr (settled_of_pushed hpu))⟩


theorem iter_progress (C : Cmds) (hC : WB C) (s : LS) (hg : Good s) (hns : ¬ Settled s) :
    Good (iter C s) ∧ Progress s (iter C s) := by
  have hnr : needRead s.eng.keys = false := by
    cases h : needRead s.eng.keys
    · rfl
    · exact absurd (Or.inr h) hns
  exact iter_progress_pos C hC s hg (needRead_false_pos hnr)

/-- the measure of the loop: `m3` of the key stack, then whether a bind is prefixed -/
def mu (s : LS) : Nat × Nat × Nat × Nat :=
  ((m3 s.eng.keys).1, (m3 s.eng.keys).2.1, (m3 s.eng.keys).2.2, Pr s.eng)

@[reducible] def wf4 : WellFoundedRelation (Nat × Nat × Nat × Nat) :=
  Prod.lex Nat.lt_wfRel (Prod.lex Nat.lt_wfRel (Prod.lex Nat.lt_wfRel Nat.lt_wfRel))

theorem mu_decreases {s s' : LS}
    (h : lt3 (m3 s'.eng.keys) (m3 s.eng.keys) ∨ (le3 (m3 s'.eng.keys) (m3 s.eng.keys) ∧ Pr s'.eng < Pr s.eng)) :
    wf4.rel (mu s') (mu s) := by
  have hlt : ∀ a b : Nat, Nat.lt_wfRel.rel a b ↔ a < b := fun _ _ => Iff.rfl
  show Prod.Lex Nat.lt_wfRel.rel (Prod.Lex Nat.lt_wfRel.rel (Prod.Lex Nat.lt_wfRel.rel Nat.lt_wfRel.rel)) (mu s') (mu s)
  unfold mu
  simp only [Prod.lex_def, hlt]
  rcases h with h | ⟨h, hp⟩
  · unfold lt3 at h; omega
  · rcases h with h | h
    · unfold lt3 at h; omega
    · rw [h]; omega

/-- C01: from any state of the loop, a bounded number of iterations without reading the terminal
leads to a settled state (returned, or blocked in a read of the terminal). -/
theorem no_spin (C : Cmds) (hC : WB C) : ∀ s : LS, Good s → ∃ n, Settled (iterN C n s) := by
  intro s
  have wf : WellFounded (InvImage wf4.rel mu) := InvImage.wf mu wf4.wf
  induction s using wf.induction with
  | _ s ih =>
    intro hg
    by_cases hs : Settled s
    · exact ⟨0, hs⟩
    · obtain ⟨hg', hp⟩ := iter_progress C hC s hg hs
      rcases hp with h | h
      · refine ⟨1, ?_⟩
        have : iterN C 1 s = iter C s := by
          unfold iterN
          have hs' : ¬ (s.done = true ∨ needRead s.eng.keys = true) := hs
          simp only [hs', if_false, iterN]
        rw [this]; exact h
      · obtain ⟨n, hn⟩ := ih (iter C s) (mu_decreases h) hg'
        refine ⟨n + 1, ?_⟩
        have : iterN C (n + 1) s = iterN C n (iter C s) := by
          conv => lhs; unfold iterN
          have hs' : ¬ (s.done = true ∨ needRead s.eng.keys = true) := hs
          simp only [hs', if_false]
        rw [this]; exact hn

theorem iterN_good (C : Cmds) (hC : WB C) : ∀ (n : Nat) (s : LS), Good s → Good (iterN C n s) := by
  intro n
  induction n with
  | zero => intro s hg; exact hg
  | succ n ih =>
    intro s hg
    unfold iterN
    split
    · exact hg
    · rename_i hs
      exact ih _ (iter_progress C hC s hg hs).1

/-- the session runs the iterations `iterN` counts -/
theorem session_iterN (C : Cmds) (chunks : List (List Nat)) : ∀ (n : Nat) (s : LS),
    ∃ k, k ≤ n ∧ ∀ f, session C (k + f) chunks s = session C f chunks (iterN C n s) := by
  intro n
  induction n with
  | zero => intro s; exact ⟨0, Nat.le_refl _, fun f => by simp [iterN]⟩
  | succ n ih =>
    intro s
    unfold iterN
    split
    · exact ⟨0, Nat.zero_le _, fun f => by simp⟩
    · rename_i hs
      obtain ⟨k, hk, hf⟩ := ih (iter C s)
      refine ⟨k + 1, by omega, fun f => ?_⟩
      rw [← hf f]
      have hd : s.done = false := by
        cases h : s.done
        · rfl
        · exact absurd (Or.inl h) hs
      have hn : needRead s.eng.keys = false := by
        cases h : needRead s.eng.keys
        · rfl
        · exact absurd (Or.inr h) hs
      have : k + 1 + f = (k + f) + 1 := by omega
      rw [this]
      conv => lhs; unfold session
      simp [hd, hn]

theorem read_good (s : LS) (c : List Nat) (hg : Good s) : Good (read s c) := by
  refine ⟨?_, hg.2⟩
  intro _
  simp [read, Keys.beforeRead, Keys.maxNested]

/-- C01: the whole call on any finite sequence of terminal reads: with enough fuel (iterations), the
model of `Readline` has returned or is blocked in a read at the end of the input — it never runs
forever between two reads. -/
theorem session_ends (C : Cmds) (hC : WB C) : ∀ (chunks : List (List Nat)) (s : LS), Good s →
    ∃ f, (session C f chunks s).2 = true := by
  intro chunks
  induction chunks with
  | nil =>
    intro s hg
    obtain ⟨n, hn⟩ := no_spin C hC s hg
    obtain ⟨k, _, hk⟩ := session_iterN C [] n s
    refine ⟨k + 1, ?_⟩
    rw [hk 1]
    unfold session
    rcases hn with h | h
    · simp [h]
    · cases hd : (iterN C n s).done <;> simp [h]
  | cons c cs ih =>
    intro s hg
    obtain ⟨n, hn⟩ := no_spin C hC s hg
    have hgt := iterN_good C hC n s hg
    obtain ⟨k, _, hk⟩ := session_iterN C (c :: cs) n s
    cases hd : (iterN C n s).done
    · have hnr : needRead (iterN C n s).eng.keys = true := by
        rcases hn with h | h
        · rw [hd] at h; cases h
        · exact h
      by_cases hc : c.isEmpty = true
      · obtain ⟨f, hf⟩ := ih (iterN C n s) hgt
        refine ⟨k + (f + 1), ?_⟩
        rw [hk (f + 1)]
        conv => lhs; unfold session
        simp [hd, hnr, hc, hf]
      · have hpos : 0 < (read (iterN C n s) c).eng.keys.pending := by
          cases c with
          | nil => simp at hc
          | cons a t => simp [read, Keys.pending, Keys.beforeRead]; omega
        have hg2 := (iter_progress_pos C hC _ (read_good _ c hgt) hpos).1
        obtain ⟨f, hf⟩ := ih _ hg2
        refine ⟨k + (f + 1), ?_⟩
        rw [hk (f + 1)]
        conv => lhs; unfold session
        simp [hd, hnr, hc, hf]
    · refine ⟨k + 1, ?_⟩
      rw [hk 1]
      unfold session
      simp [hd]

end RLV.MLoop
