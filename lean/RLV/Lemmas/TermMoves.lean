import RLV.Model.TermRun
/-! Cursor arithmetic of the display engine's relative moves (`term.MoveCursor*` print nothing for a
count below one: `Disp.mv`). -/
namespace RLV.Term
open RLV.Disp

theorem mv_nat (f : Nat → Tk) (n : Nat) : mv f (n : Int) = if n = 0 then [] else [f n] := by
  unfold mv
  by_cases h : n = 0
  · subst h; simp
  · have : ¬ ((n : Int) < 1) := by omega
    simp [this, h]

theorem foldl_mv_cub (w n : Nat) (p : Nat × Nat) (rest : List Tk) :
    (mv .cub (n : Int) ++ rest).foldl (stepXY w) p = rest.foldl (stepXY w) (p.1 - n, p.2) := by
  rw [mv_nat]
  by_cases h : n = 0
  · subst h; simp
  · simp [h, stepXY]

theorem foldl_mv_cuu (w n : Nat) (p : Nat × Nat) (rest : List Tk) :
    (mv .cuu (n : Int) ++ rest).foldl (stepXY w) p = rest.foldl (stepXY w) (p.1, p.2 - n) := by
  rw [mv_nat]
  by_cases h : n = 0
  · subst h; simp
  · simp [h, stepXY]

theorem foldl_mv_cud (w n : Nat) (p : Nat × Nat) (rest : List Tk) :
    (mv .cud (n : Int) ++ rest).foldl (stepXY w) p = rest.foldl (stepXY w) (p.1, p.2 + n) := by
  rw [mv_nat]
  by_cases h : n = 0
  · subst h; simp
  · simp [h, stepXY]

/-- a forward move from a column inside the width -/
theorem foldl_mv_cuf (w n : Nat) (p : Nat × Nat) (rest : List Tk) (hp : p.1 ≤ w - 1) :
    (mv .cuf (n : Int) ++ rest).foldl (stepXY w) p = rest.foldl (stepXY w) (min (p.1 + n) (w - 1), p.2) := by
  rw [mv_nat]
  by_cases h : n = 0
  · subst h
    have : min p.1 (w - 1) = p.1 := Nat.min_eq_left hp
    simp [this]
  · simp [h, stepXY]

end RLV.Term
