import RLV.Lemmas.RefreshSingle
import RLV.Lemmas.RefreshMultiMain
/-! C04 — The terminal shows exactly the buffer, cursor on the right cell (property theorems).

`Disp.refresh` is the model of `display.Engine.Refresh` (internal/display/engine.go, with
`core.DisplayLine`, `CoordinatesLine`, `CoordinatesCursor`, `strutil.LineSpan`): the token stream it
writes — the prompt, the line, relative cursor moves, erasures. `Term.run` is the terminal model of
Model/TermRun.lean (VT100 deferred wrap, erasure from the cursor cell). Both are compared on every run
with real Readline sessions: the tokens written by the real redisplay, and the screen and cursor of
two independent VT emulators fed with the real output (`rlv-diff -model refreshsess`, multi-line
buffers and earlier frames included), which also carries two oracles on the real code alone: no
remnants of the earlier frame, every line of the buffer whole on the screen.

Proved: for a buffer without newline made of width-1 glyphs — EVERY width, prompt narrower than the
terminal, buffer, cursor position, screen row, and WHATEVER was on the screen before — after the
redisplay the screen shows the prompt followed by the buffer, wrapped at the width, from the row of
the prompt on; every cell after the text is blank to the end of the screen (no remnants); the cells
above the prompt are untouched; and the terminal cursor is on the cell of the buffer's cursor
position — lines that exactly fill a row included (`redisplay_shows_exactly_the_buffer_partial`).

Proved as well (`redisplay_shows_exactly_the_lines_partial`): the same for a buffer of TWO LINES OR MORE
(any number of lines, each of any length, empty ones included), default configuration (no column marks):
the screen shows `Disp.frameCell` — the prompt and the first line, every other line on rows of its own
from the indentation of the prompt on, wrapped at the width, the secondary prompt in the indentation of
the last line when it fits, blanks everywhere else down to the end of the screen — the cells above the
prompt untouched, and the terminal cursor on the cell of the buffer position (line `k`, offset `o`).

Both are `…_partial` with respect to the property: double-width and combining glyphs, scrolling at the
bottom of the screen and the column-mark options are decided by the differential and the session
oracle only. -/
namespace RLV.Props.C04
open RLV RLV.Disp RLV.Term

/-- C04 (one-line buffers, width-1 glyphs). `r0` is the row of the prompt, `prevRow` the row offset
the cursor had in the previous frame. -/
theorem redisplay_shows_exactly_the_buffer_partial (w : Nat) (prompt sec l : List Nat)
    (pos prevRow r0 : Nat) (t : Term)
    (hw : t.w = w) (hwf : t.WF) (hy : t.y = r0 + prevRow)
    (hnl : 10 ∉ l) (hpos : pos ≤ l.length) (hpr : prompt.length < w) :
    let t' := t.run (refresh w prompt sec prevRow false l pos)
    (∀ r c, c < w → t'.cell r c =
        if r * w + c < r0 * w then t.cell r c
        else if r * w + c < r0 * w + (prompt.length + l.length) then
          (prompt ++ l).getD (r * w + c - r0 * w) 0
        else blank) ∧
    t'.x = (prompt.length + pos) % w ∧ t'.y = r0 + (prompt.length + pos) / w ∧ t'.pw = false := by
  intro t'
  have hw0 : 0 < w := by rw [← hw]; exact hwf.1
  have heq := refresh_single_eq w prompt sec l pos prevRow hnl hpos
  -- the four parts of the token list
  generalize hA : ([.hide] ++ mv .cub (w : Int) ++ mv .cuu (prevRow : Int) : List Tk) = A at heq
  generalize hB : ((if prompt.isEmpty then [] else [.text prompt]) ++ [.dsr] ++ (if l.isEmpty then [] else [.text l]) : List Tk) = B at heq
  generalize hC : ((if (prompt.length + l.length) % w = 0 ∧ 0 < prompt.length + l.length then [.crlf] else []) ++
        [.el0, .crlf, .el0, .ed0] : List Tk) = C at heq
  generalize hD : (mv .cub (w : Int) ++ mv .cuu 1 ++
        mv .cuu ((((prompt.length + l.length) / w : Nat) : Int) - (((prompt.length + pos) / w : Nat) : Int)) ++
        mv .cub (((prompt.length + pos) % w : Nat) : Int) ++ mv .cuu (((prompt.length + pos) / w : Nat) : Int) ++
        mv .cuf (prompt.length : Int) ++
        mv .cud (((prompt.length + pos) / w : Nat) : Int) ++ mv .cub w ++
        mv .cuf (((prompt.length + pos) % w : Nat) : Int) ++ [.show_] : List Tk) = D at heq
  have ht' : t' = (((t.run A).run B).run C).run D := by
    show t.run (refresh w prompt sec prevRow false l pos) = _
    rw [heq, run_append, run_append, run_append]
  -- part 1
  obtain ⟨h1x, h1y, h1pw, h1w, h1c⟩ := refresh_head w prevRow r0 t hw hwf hy
  rw [hA] at h1x h1y h1pw h1w h1c
  generalize t.run A = t1 at *
  -- part 2
  obtain ⟨h2wf, h2w, h2nx, h2ny, h2pw, h2c⟩ := refresh_print w r0 prompt l t1 h1x h1y h1pw h1w hw0
  rw [hB] at h2wf h2w h2nx h2ny h2pw h2c
  generalize t1.run B = t2 at *
  -- part 3
  obtain ⟨h4x, h4y, h4pw, h4w, h4c⟩ := refresh_erase w ((prompt.length + l.length) % w = 0 ∧ 0 < prompt.length + l.length) t2 h2wf h2w h2pw
  rw [hC] at h4x h4y h4pw h4w h4c
  generalize t2.run C = t4 at *
  -- part 4
  obtain ⟨h5x, h5y, h5pw, h5c⟩ := refresh_tail w r0 prompt.length (prompt.length + l.length) pos t4 D h4w hw0 h4x
    (by rw [h4y, h2ny]) h4pw hpr (by omega) hD.symm
  rw [ht']
  refine ⟨?_, h5x, h5y, h5pw⟩
  intro r c hc
  rw [h5c, h4c r c hc, h2nx, h2ny, h2c r c hc, h1c]
  have hlin : (r0 + (prompt.length + l.length) / w) * w + (prompt.length + l.length) % w
      = r0 * w + (prompt.length + l.length) := by
    rw [Nat.add_mul]
    have := Nat.div_add_mod (prompt.length + l.length) w
    rw [Nat.mul_comm] at this
    omega
  rw [hlin]
  by_cases ha : r * w + c < r0 * w
  · have h1 : ¬ (r0 * w + (prompt.length + l.length) ≤ r * w + c) := by omega
    have h2 : ¬ (r0 * w ≤ r * w + c ∧ r * w + c < r0 * w + (prompt.length + l.length)) := by omega
    rw [if_neg h1, if_neg h2, if_pos ha]
  · by_cases hb : r * w + c < r0 * w + (prompt.length + l.length)
    · have h1 : ¬ (r0 * w + (prompt.length + l.length) ≤ r * w + c) := by omega
      have h2 : (r0 * w ≤ r * w + c ∧ r * w + c < r0 * w + (prompt.length + l.length)) := by omega
      rw [if_neg h1, if_pos h2, if_neg ha, if_pos hb]
    · have h1 : (r0 * w + (prompt.length + l.length) ≤ r * w + c) := by omega
      rw [if_pos h1, if_neg ha, if_neg hb]

-- non-vacuity: a line that exactly fills the row (width 6, prompt "> ", buffer "abcd", cursor at the
-- end) redisplayed over a frame of rubbish: the text is whole, the cell after it is blank, and the cursor
-- is on the first cell of the next row
example :
    let t : Term := { w := 6, cell := fun _ _ => 63, x := 3, y := 1, pw := false }
    let t' := t.run (refresh 6 [62, 32] [9492, 32] 1 false [97, 98, 99, 100] 4)
    (t'.cell 0 5 = 100 ∧ t'.cell 1 0 = blank ∧ t'.cell 2 3 = blank) ∧ (t'.x, t'.y, t'.pw) = (0, 1, false) := by
  decide

/-- C04 (buffers of two lines or more, width-1 glyphs). The buffer is `first`, then the lines `rest`
(none contains a newline), joined by newlines; the cursor is in line `k` at offset `o`; `r0` is the row
of the prompt, `prevRow` the row offset the cursor had in the previous frame, `t` ANY screen.
`spanRows w p 0 lens` is the number of rows taken by lines of the lengths `lens` laid out from the
indentation `p` (every line but the first starts a new row). -/
theorem redisplay_shows_exactly_the_lines_partial (w : Nat) (prompt sec first last : List Nat)
    (rest : List (List Nat)) (k o prevRow r0 : Nat) (t : Term)
    (hw : t.w = w) (hwf : t.WF) (hy : t.y = r0 + prevRow)
    (hrest : rest ≠ []) (hfree : ∀ ln ∈ first :: rest, 10 ∉ ln) (hlast : rest.getLast? = some last)
    (hk : k < (first :: rest).length) (ho : o ≤ ((first :: rest).getD k []).length) (hpr : prompt.length < w) :
    let t' := t.run (refresh w prompt sec prevRow false (joinNL (first :: rest))
      (((((first :: rest).take k).map List.length).map (· + 1)).sum + o))
    (∀ r c, c < w → t'.cell r c =
        if r * w + c < r0 * w then t.cell r c else frameCell w prompt sec first rest (r * w + c - r0 * w)) ∧
    t'.x = (o + prompt.length) % w ∧
    t'.y = r0 + (spanRows w prompt.length 0 (((first :: rest).take k).map List.length) +
              ((o + prompt.length) / w + (if k ≠ 0 then 1 else 0))) ∧
    t'.pw = false :=
  refresh_multi w prompt sec first last rest k o prevRow r0 t hw hwf hy hrest hfree hlast hk ho hpr

/-- every buffer is made of its lines: the two theorems together speak of every buffer of width-1 glyphs -/
theorem every_buffer_is_lines_joined (l : List Nat) :
    ∃ ls, ls ≠ [] ∧ (∀ ln ∈ ls, 10 ∉ ln) ∧ joinNL ls = l :=
  join_splitNL l.length l (Nat.le_refl _)

-- non-vacuity: width 6, prompt "> ", secondary prompt "└ ", buffer "ab\ncdefgh\ni" with the cursor on
-- the `f` (line 1, offset 3), redisplayed over a screen full of `?` from row 1 (cursor was one row below):
-- the second line wraps, the last line carries the secondary prompt, the rows below are blank
example :
    let t : Term := { w := 6, cell := fun _ _ => 63, x := 3, y := 2, pw := false }
    let t' := t.run (refresh 6 [62, 32] [9492, 32] 1 false
      (joinNL [[97, 98], [99, 100, 101, 102, 103, 104], [105]]) (3 + 3))
    ((List.range 6).map fun r => (List.range 6).map fun c => t'.cell r c) =
      [[63, 63, 63, 63, 63, 63], [62, 32, 97, 98, 32, 32], [32, 32, 99, 100, 101, 102],
       [103, 104, 32, 32, 32, 32], [9492, 32, 105, 32, 32, 32], [32, 32, 32, 32, 32, 32]] ∧
    (t'.x, t'.y, t'.pw) = (5, 2, false) := by
  decide

end RLV.Props.C04
