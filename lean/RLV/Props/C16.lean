import RLV.Lemmas.Kill
/-! C16 — Yank gives back exactly what kill took (property theorems; helper lemmas live in RLV/Lemmas). -/
namespace RLV.Props.C16
open RLV.Core

/-- Killing the range `[b, e)` and yanking the removed text at the cut point restores the buffer,
for every buffer without NUL runes and every range inside it. -/
theorem kill_yank_id (l : Line) (b e : Int) (hb : 0 ≤ b) (hbe : b ≤ e) (he : e ≤ len l)
    (hnz : ∀ c ∈ l, c ≠ 0) :
    ∃ l', cut l b e = .ok l' ∧ insert l' b (slice l b e) = .ok l :=
  cut_insert_id l b e hb hbe he hnz

/-- `Line.Cut` returns exactly the line without `[b, e)`. -/
theorem cut_removes_range (l : Line) (b e : Int) (hb : 0 ≤ b) (hbe : b ≤ e) (he : e ≤ len l) :
    cut l b e = .ok (l.take b.toNat ++ l.drop e.toNat) :=
  cut_spec l b e hb hbe he

-- the hypotheses are satisfiable by a non-trivial state
example : (0:Int) ≤ 1 ∧ (1:Int) ≤ 3 ∧ (3:Int) ≤ len [97, 98, 32, 99] ∧ ∀ c ∈ [97, 98, 32, 99], c ≠ 0 := by decide

end RLV.Props.C16
