import RLV.Lemmas.Kill
import RLV.Lemmas.KillCmds
import RLV.Lemmas.KillMore
import RLV.Gen.Effects
/-! C16 — Yank gives back exactly what kill took (property theorems; helper lemmas live in RLV/Lemmas). -/
namespace RLV.Props.C16
open RLV.Core RLV.Kill

/-- Killing the range `[b, e)` and yanking the removed text at the cut point restores the buffer,
for every buffer without NUL runes and every range inside it. -/
theorem kill_yank_id (l : Line) (b e : Int) (hb : 0 ≤ b) (hbe : b ≤ e) (he : e ≤ len l)
    (hnz : ∀ c ∈ l, c ≠ 0) :
    ∃ l', cut l b e = .ok l' ∧ insert l' b (slice l b e) = .ok l :=
  cut_insert_id l b e hb hbe he hnz

/-- `Line.Cut` returns exactly the line without `[b, e)`. -/
theorem cut_removes_range (l : Line) (b e : Int) (hb : 0 ≤ b) (hbe : b ≤ e) (he : e ≤ len l) :
    cut l b e = .ok (l.take b.toNat ++ l.drop e.toNat) :=
  cut_spec l b e hb hbe he

-- the hypotheses are satisfiable by a non-trivial state
example : (0:Int) ≤ 1 ∧ (1:Int) ≤ 3 ∧ (3:Int) ≤ len [97, 98, 32, 99] ∧ ∀ c ∈ [97, 98, 32, 99], c ≠ 0 := by decide


/-! The commands themselves. `Kill.killLine`, `backwardKillLine`, `backwardKillWord` and `yank` are the
models of the command closures (emacs.go), compared with the real closures on every run
(`rlv-diff -model kill`); `Kill.Restores s s1` says of the state `s1` a kill command leaves from `s`:
either it removed nothing and left the kill ring alone, or the kill ring's top is exactly the text it
removed (`s.line = s1.line.take p ++ s1.kill ++ s1.line.drop p`) and `yank` from `s1` gives a buffer
equal to `s.line`. -/

/-- `kill-line` then `yank` restores the buffer: EVERY buffer without NUL runes (any number of lines),
every cursor (in or out of range), every state of the selection (stale marks and visual flags included);
the command never panics. -/
theorem kill_line_then_yank_restores (s : St) (hnz : ∀ c ∈ s.line, c ≠ 0) :
    ∃ s1, killLine s = .ok s1 ∧ Restores s s1 :=
  killLine_yank s hnz

/-- `backward-kill-line` (and `unix-line-discard`, the same closure) then `yank` restores the buffer. -/
theorem backward_kill_line_then_yank_restores (s : St) (hnz : ∀ c ∈ s.line, c ≠ 0) :
    ∃ s1, backwardKillLine s = .ok s1 ∧ Restores s s1 :=
  backwardKillLine_yank s hnz

/-- `backward-kill-word` then `yank` restores the buffer, whatever the tokeniser makes of the text
before the cursor (the only thing used of it: it never asks to move forward). Partial in one respect:
no stale visual-line flag (the flag is only ever set by the Vi visual-line command, and cleared by
every selection reset), and the no-panic part is not in this statement. -/
theorem backward_kill_word_then_yank_restores_partial (s s1 : St) (hnz : ∀ c ∈ s.line, c ≠ 0)
    (hvl : s.sel.visualLine = false) (h : backwardKillWord s = .ok s1) : Restores s s1 :=
  backwardKillWord_yank s s1 hnz hvl h

/-- after several kills `yank` inserts the most recent one: the top of the kill ring is the text of the
last kill that removed something -/
theorem most_recent_kill_is_on_top (s : St) (t u : List Nat) (hu : u ≠ []) :
    (write (write s t) u).kill = u :=
  write_latest s t u hu

-- non-vacuity: `ab cd\nef`, cursor after `ab`: kill-line stores ` cd`, leaves `ab\nef`, yank gives it back;
-- backward-kill-word from the end of `ab cd` stores `cd`
example : (match killLine { line := [97, 98, 32, 99, 100, 10, 101, 102], cur := ⟨2, -1⟩ } with
    | .ok s1 => s1.kill == [32, 99, 100] && s1.line == [97, 98, 10, 101, 102] &&
        (match yank s1 with | .ok s2 => s2.line == [97, 98, 32, 99, 100, 10, 101, 102] | _ => false)
    | _ => false) = true := by decide
example : (match backwardKillWord { line := [97, 98, 32, 99, 100], cur := ⟨5, -1⟩ } with
    | .ok s1 => s1.kill == [99, 100] && s1.line == [97, 98, 32] | _ => false) = true := by decide

/-- `kill-whole-line` (and `kill-buffer`, the same body) then `yank` restores the buffer: every buffer
without NUL runes, every cursor and selection state; the command never panics. -/
theorem kill_whole_line_then_yank_restores (s : St) (hnz : ∀ c ∈ s.line, c ≠ 0) :
    ∃ s1, killWholeLine s = .ok s1 ∧ Restores s s1 :=
  killWholeLine_yank s hnz

/-- `kill-region` then `yank` restores the buffer: every buffer without NUL runes, every cursor — at
either end of the region or anywhere else — and EVERY state of the selection (not active, a fixed range, a
pending mark completed by the cursor, stale visual flags); the command never panics. The point is left
where the region was (the repaired behaviour: 0059668). -/
theorem kill_region_then_yank_restores (s : St) (hnz : ∀ c ∈ s.line, c ≠ 0) :
    ∃ s1, killRegion s = .ok s1 ∧ Restores s s1 :=
  killRegion_yank s hnz

-- non-vacuity: `ab cd ef` with the region `[3, 5)` (`cd`) and the point at its END: the text is stored,
-- the point goes to 3, yank puts it back
example : (match killRegion { line := [97, 98, 32, 99, 100, 32, 101, 102], cur := ⟨5, -1⟩,
                              sel := RLV.Sel.markRange [97, 98, 32, 99, 100, 32, 101, 102] {} 3 5 } with
    | .ok s1 => s1.kill == [99, 100] && s1.line == [97, 98, 32, 32, 101, 102] && s1.cur.pos == 3 &&
        (match yank s1 with | .ok s2 => s2.line == [97, 98, 32, 99, 100, 32, 101, 102] | _ => false)
    | _ => false) = true := by decide

/-- Tie to the source (regenerated by `rlv-dump` on every run): the commands that can write the kill
ring (`Buffers.Write` reachable from their closure) are exactly these — the kill commands, the copy
commands and the Vi deletes/yanks. The session oracle drives every kill command of this list by name;
a command that starts (or stops) writing the ring breaks this theorem. -/
theorem the_kill_ring_is_written_by_these_commands_only :
    (Gen.Effects.reached.filter fun e => e.2.contains "Buffers.Write").map (·.1) =
      ["backward-kill-line", "backward-kill-word", "copy-backward-word", "copy-forward-word", "copy-region-as-kill",
       "kill-buffer", "kill-line", "kill-region", "kill-whole-line", "kill-word", "shell-backward-kill-word",
       "shell-kill-word", "unix-line-discard", "unix-word-rubout", "vi-change-to", "vi-delete", "vi-delete-to",
       "vi-kill-eol", "vi-kill-line", "vi-rubout", "vi-subst", "vi-unix-word-rubout", "vi-yank-to",
       "vi-yank-whole-line"] := by decide

end RLV.Props.C16
