import RLV.Lemmas.TypedTables
/-! C02 — What the user types is what Readline returns (property theorems only; lemmas live in
RLV/Lemmas/Loop.lean and RLV/Lemmas/TypedTables.lean).

`Loop.run` is the model of the main loop of `Shell.Readline` (flush, `WaitAvailableKeys`, `MatchMain`
with its multibyte fallback, `self-insert`, `accept-line`) over a list of terminal reads (`chunks`);
`Gen.emacs` / `Gen.vi_insert` are the bind tables dumped from the live `Shell` on every run. -/
namespace RLV.Props.C02
open RLV RLV.Gen RLV.Loop

/-- a fresh shell on a regenerated keymap; `om` = output-meta, `em` = Emacs editing mode flag -/
def sh0 (tbl : List (List Nat × Bind)) (om em : Bool) : Sh :=
  { eng := { mainTbl := norm tbl, isEmacs := em, viInsert := !em, registered := ["self-insert", "accept-line"] },
    outputMeta := om }

/-- C02 (ASCII) on the regenerated Emacs keymap: whatever the chunking, a line of printable
ASCII typed into a fresh shell and accepted with Return is returned unchanged. -/
theorem typed_ascii_returned_emacs (s : List Nat) (hs : ∀ b ∈ s, printable b)
    (chunks : List (List Nat)) (hc : chunks.flatten = s ++ [13]) (om em : Bool) :
    run (s.length + 1 + chunks.length + 1) chunks (sh0 Gen.emacs om em) = .ok (some s) := by
  have g : Good (sh0 Gen.emacs om em) [] :=
    ⟨emacs_tableOK _ rfl (by simp [sh0]) (by simp [sh0]), rfl, rfl, rfl, rfl, rfl, rfl, rfl⟩
  have := typed_ascii_returned (s.length + 1 + chunks.length + 1) chunks _ [] s g hs
    (by simpa [sh0] using hc) (by simp [sh0, hc])
  simpa using this

/-- the same on the regenerated Vi-insert keymap -/
theorem typed_ascii_returned_viins (s : List Nat) (hs : ∀ b ∈ s, printable b)
    (chunks : List (List Nat)) (hc : chunks.flatten = s ++ [13]) (om em : Bool) :
    run (s.length + 1 + chunks.length + 1) chunks (sh0 Gen.vi_insert om em) = .ok (some s) := by
  have g : Good (sh0 Gen.vi_insert om em) [] :=
    ⟨viins_tableOK _ rfl (by simp [sh0]) (by simp [sh0]), rfl, rfl, rfl, rfl, rfl, rfl, rfl⟩
  have := typed_ascii_returned (s.length + 1 + chunks.length + 1) chunks _ [] s g hs
    (by simpa [sh0] using hc) (by simp [sh0, hc])
  simpa using this

-- non-vacuity: the hypotheses are met by a concrete script in three reads, cut inside the text
example : (∀ b ∈ [104, 105, 32, 33], printable b) ∧
    [[104, 105], [32], [33, 13]].flatten = [104, 105, 32, 33] ++ [13] := by
  refine ⟨?_, rfl⟩
  intro b hb
  simp only [List.mem_cons, List.mem_nil_iff, or_false] at hb
  rcases hb with rfl | rfl | rfl | rfl <;> (unfold printable; omega)

end RLV.Props.C02
