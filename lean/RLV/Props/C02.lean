import RLV.Lemmas.TypedTables
import RLV.Lemmas.TypedUnicode
/-! C02 — What the user types is what Readline returns (property theorems only; lemmas live in
RLV/Lemmas/Loop.lean and RLV/Lemmas/TypedTables.lean).

`Loop.run` is the model of the main loop of `Shell.Readline` (flush, `WaitAvailableKeys`, `MatchMain`
with its multibyte fallback, `self-insert`, `accept-line`) over a list of terminal reads (`chunks`);
`Gen.emacs` / `Gen.vi_insert` are the bind tables dumped from the live `Shell` on every run. -/
namespace RLV.Props.C02
open RLV RLV.Gen RLV.Loop

/-- a fresh shell on a regenerated keymap; `om` = output-meta, `em` = Emacs editing mode flag -/
def sh0 (tbl : List (List Nat × Bind)) (om em : Bool) : Sh :=
  { eng := { mainTbl := norm tbl, isEmacs := em, viInsert := !em, registered := ["self-insert", "accept-line"] },
    outputMeta := om }

/-- C02 (ASCII) on the regenerated Emacs keymap: whatever the chunking, a line of printable
ASCII typed into a fresh shell and accepted with Return is returned unchanged. -/
theorem typed_ascii_returned_emacs (s : List Nat) (hs : ∀ b ∈ s, printable b)
    (chunks : List (List Nat)) (hc : chunks.flatten = s ++ [13]) (om em : Bool) :
    run (s.length + 1 + chunks.length + 1) chunks (sh0 Gen.emacs om em) = .ok (some s) := by
  have g : Good (sh0 Gen.emacs om em) [] :=
    ⟨emacs_tableOK _ rfl (by simp [sh0]) (by simp [sh0]), rfl, rfl, rfl, rfl, rfl, rfl, rfl⟩
  have := typed_ascii_returned (s.length + 1 + chunks.length + 1) chunks _ [] s g hs
    (by simpa [sh0] using hc) (by simp [sh0, hc])
  simpa using this

/-- the same on the regenerated Vi-insert keymap -/
theorem typed_ascii_returned_viins (s : List Nat) (hs : ∀ b ∈ s, printable b)
    (chunks : List (List Nat)) (hc : chunks.flatten = s ++ [13]) (om em : Bool) :
    run (s.length + 1 + chunks.length + 1) chunks (sh0 Gen.vi_insert om em) = .ok (some s) := by
  have g : Good (sh0 Gen.vi_insert om em) [] :=
    ⟨viins_tableOK _ rfl (by simp [sh0]) (by simp [sh0]), rfl, rfl, rfl, rfl, rfl, rfl, rfl⟩
  have := typed_ascii_returned (s.length + 1 + chunks.length + 1) chunks _ [] s g hs
    (by simpa [sh0] using hc) (by simp [sh0, hc])
  simpa using this

/-! Any Unicode text. `Typable r`: `r` is printable ASCII, or any rune above 0x7F that has a UTF-8 encoding of
its own (a scalar value: not a surrogate, at most U+10FFFF) other than U+FFFD, the decoder's error value;
`utf8 rs` is the concatenation of the UTF-8 encodings (Go's `string(rs)`). The reads may be cut anywhere:
between characters, inside a character, after the first byte of a character whose first byte also starts a
bound sequence (U+FFFD is bound in the default keymaps, so every character U+F000..U+FFFF begins like a
bind). `om` is `output-meta`: with it off `self-insert` shows the characters U+0080..U+00FF in `^[x`
notation (the property's "usual UTF-8 meta settings" have it on), so they are excluded then;
`convert-meta` is off in `sh0` (with it on the bytes above 0x7F are meta keys, not text).
The UTF-8 codec of the model (`encodeRune`, `decodeRune`, `fullRune`: Go's unicode/utf8) is itself the
subject of `decode_encode` (Lemmas/Utf8.lean): decoding the encoding of a valid rune gives it back. -/

theorem goodU_sh0 (tbl : List (List Nat × Bind)) (om em : Bool) (ht : TableOK (sh0 tbl om em).eng)
    (hh : HighTbl (norm tbl)) : GoodU (sh0 tbl om em) [] :=
  ⟨ht, hh, by cases em <;> rfl, rfl, rfl, rfl, rfl, rfl, rfl, rfl⟩

/-- C02 on the regenerated Emacs keymap: whatever the text and however its bytes are cut into reads, a line
of typable characters typed into a fresh shell and accepted with Return is returned unchanged. -/
theorem typed_unicode_returned_emacs (rs : List Nat) (hrs : ∀ r ∈ rs, Typable r)
    (chunks : List (List Nat)) (hc : chunks.flatten = utf8 rs ++ [13]) (om em : Bool)
    (hom : om = true ∨ ∀ r ∈ rs, ¬ (0x80 ≤ r ∧ r ≤ 0xff)) :
    run (2 * (chunks.flatten.length + chunks.length) + 2) chunks (sh0 Gen.emacs om em) = .ok (some rs) := by
  have g := goodU_sh0 Gen.emacs om em (emacs_tableOK _ rfl (by simp [sh0]) (by simp [sh0]))
    (highTbl_of_ok _ _ (norm_perm Gen.emacs) Gen.emacs_high)
  have := typed_unicode_returned (2 * (chunks.flatten.length + chunks.length) + 2) chunks _ [] rs g hrs hom
    (by simpa [sh0] using hc) (by intro h; simp [sh0] at h)
    (by have : needRead (sh0 Gen.emacs om em).eng.keys = true := rfl
        rw [if_pos this]; simp [sh0]; omega)
  simpa using this

/-- the same on the regenerated Vi-insert keymap -/
theorem typed_unicode_returned_viins (rs : List Nat) (hrs : ∀ r ∈ rs, Typable r)
    (chunks : List (List Nat)) (hc : chunks.flatten = utf8 rs ++ [13]) (om em : Bool)
    (hom : om = true ∨ ∀ r ∈ rs, ¬ (0x80 ≤ r ∧ r ≤ 0xff)) :
    run (2 * (chunks.flatten.length + chunks.length) + 2) chunks (sh0 Gen.vi_insert om em) = .ok (some rs) := by
  have g := goodU_sh0 Gen.vi_insert om em (viins_tableOK _ rfl (by simp [sh0]) (by simp [sh0]))
    (highTbl_of_ok _ _ (norm_perm Gen.vi_insert) Gen.viins_high)
  have := typed_unicode_returned (2 * (chunks.flatten.length + chunks.length) + 2) chunks _ [] rs g hrs hom
    (by simpa [sh0] using hc) (by intro h; simp [sh0] at h)
    (by have : needRead (sh0 Gen.vi_insert om em).eng.keys = true := rfl
        rw [if_pos this]; simp [sh0]; omega)
  simpa using this

/-- Go's UTF-8 decoder applied to Go's UTF-8 encoder is the identity on valid runes, whatever bytes follow
(the model of unicode/utf8 the theorems above stand on). -/
theorem utf8_decode_encode (r : Nat) (hv : ValidRune r) (rest : List Nat) :
    decodeRune (encodeRune r ++ rest) = (r, (encodeRune r).length) :=
  decode_encode r hv rest

-- non-vacuity: "é中😀!" (2, 3 and 4 bytes, and ASCII) is typable; its bytes cut inside each character
theorem sample_typable : ∀ r ∈ [0xe9, 0x4e2d, 0x1f600, 0x21], Typable r := by
  intro r hr
  simp only [List.mem_cons, List.mem_nil_iff, or_false] at hr
  rcases hr with rfl | rfl | rfl | rfl
  · exact Or.inr ⟨by omega, ⟨by omega, by omega⟩, by omega⟩
  · exact Or.inr ⟨by omega, ⟨by omega, by omega⟩, by omega⟩
  · exact Or.inr ⟨by omega, ⟨by omega, by omega⟩, by omega⟩
  · exact Or.inl ⟨by omega, by omega⟩
-- the theorem instantiated on that script
example :=
  typed_unicode_returned_emacs [0xe9, 0x4e2d, 0x1f600, 0x21] sample_typable
    [[0xc3], [0xa9, 0xe4, 0xb8], [0xad, 0xf0], [0x9f, 0x98], [0x80, 0x21, 13]] (by decide) true true (Or.inl rfl)

-- non-vacuity: the hypotheses are met by a concrete script in three reads, cut inside the text
example : (∀ b ∈ [104, 105, 32, 33], printable b) ∧
    [[104, 105], [32], [33, 13]].flatten = [104, 105, 32, 33] ++ [13] := by
  refine ⟨?_, rfl⟩
  intro b hb
  simp only [List.mem_cons, List.mem_nil_iff, or_false] at hb
  rcases hb with rfl | rfl | rfl | rfl <;> (unfold printable; omega)

end RLV.Props.C02
