import RLV.Lemmas.Esc
/-! C19 — Key-sequence notation round-trips (property theorems).

`Esc.escape false` / `Esc.escape true` are the models of `inputrc.Escape` / `inputrc.EscapeMacro`,
`Esc.unescape` of `inputrc.Unescape` (all three compared with the real functions on every run,
`rlv-diff -model esc|unesc`). Runes are natural numbers; the property quantifies over every
code below 256 and every printable rune (`Uni.isPrint`, the `unicode.IsPrint` table of the Go
toolchain in use, regenerated on every run). -/
namespace RLV.Props.C19
open RLV RLV.Esc

/-- the quantifier of the property: runes 0x00–0xFF plus printable Unicode -/
def InDomain (s : List Nat) : Prop := ∀ c ∈ s, c < 256 ∨ Uni.isPrint c = true

/-- Escaping a key sequence and unescaping it yields the original sequence — for every sequence,
of any length, of runes of the domain. -/
theorem unescape_escape (s : List Nat) (h : InDomain s) : unescape (escape false s) = s :=
  Esc.unescape_escape false s h

/-- The same for macro bodies (`EscapeMacro`). -/
theorem unescape_escapeMacro (s : List Nat) (h : InDomain s) : unescape (escape true s) = s :=
  Esc.unescape_escape true s h

/-- No escape image is re-read together with what follows it (the framing lemma the induction
rests on): whatever text `t` follows the image of `c`, unescaping yields `c` and then continues
on `t` alone. This is what rules out context-dependent failures that no per-rune test sees. -/
theorem image_is_framed (mac : Bool) (c n : Nat) (t : List Nat) (h : c < 256 ∨ Uni.isPrint c = true) :
    unescF (n + 1) (escape1 mac c ++ t) = c :: unescF n t :=
  Esc.frame mac c n t h

/-- The hexadecimal escapes consume all their digits (the defect repaired by the `fix:` commit:
`\x41` used to read back as `A1`). -/
theorem hex_escape_reads_both_digits :
    unescape [0x5c, 0x78, 0x34, 0x31] = [0x41] ∧ unescape [0x5c, 0x78, 0x34, 0x31, 0x5a] = [0x41, 0x5a] := by
  decide

/-- The domain restriction is the property's own and is needed: a non-printable rune above 0xFF is
written `\x200b`, which reads back as three runes. -/
theorem outside_domain_witness : unescape (escape false [0x200b]) ≠ [0x200b] := by decide +kernel

-- non-vacuity: troublesome codes of the domain (FS followed by `M-x`; a meta quote; C1 controls; CJK)
example : InDomain [0x1c, 0x4d, 0x2d, 0x78, 0xa2, 0x9b, 0xff, 0x4e2d] := by
  intro c hc
  simp only [List.mem_cons, List.mem_nil_iff, or_false] at hc
  rcases hc with rfl | rfl | rfl | rfl | rfl | rfl | rfl | rfl
  all_goals first | (left; omega) | (right; decide +kernel)

end RLV.Props.C19
