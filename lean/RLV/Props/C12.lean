import RLV.Lemmas.ParseTotal
/-! C12 — Parsing any inputrc text terminates without crashing (property theorems).

`Inputrc.parse` is the model of `inputrc.Parse` / `Parser.Parse` (inputrc/parse.go): bytes → lines
(`bufio.Scanner` with its token limit) → runes → line scanner → `doBind` / `doSet` / `do` → handler
calls, with `$include` served by the handler. It lives in the panic monad: a Go run-time panic
(index or slice out of range, the explicit `panic("unsupported type")`) is the value `.error _`.

*Termination* is by construction: Lean accepts the definitions only because every loop is a
structural recursion — on the line, on the list of lines, and, for files that include themselves or
each other, on the parser's own `$include` budget (`maxIncludeDepth`, introduced by a `fix:` commit;
before it no measure existed). *Crash freedom* is the theorem below. -/
namespace RLV.Props.C12
open RLV RLV.Inputrc RLV.Core

/-- Scanning any line — any array of runes whatsoever — yields a token, a parse error value or
"skip": never an out-of-range index or slice. -/
theorem scan_never_panics (line : RS) : ∃ v, scanLine line = .ok v :=
  scanLine_ok line

/-- Parsing ANY byte string, with ANY options, against ANY handler state and ANY inclusion graph
(`H.readFile` may serve files that include themselves or each other, to any depth) returns a
value: the handler state, the list of errors and the returned error. It never panics — provided
the handler's `Get` only answers values of the three kinds the parser documents (bool, string,
int) or nil. -/
theorem parse_total {σ : Type} (H : Handler σ) (hs : H.Supported) (o : Opts) (bytes : List Nat) (h : σ) :
    ∃ r, parse H o bytes h = .ok r :=
  parseD_ok H hs maxIncludeDepth o bytes h

/-- The library's own handler (`inputrc.Config` with bool/string/int variables) is such a handler. -/
theorem config_handler_supported : cfgHandler.Supported := by
  intro h n
  simp only [cfgHandler]
  split <;> simp

/-- … so parsing any text into a `Config` never panics. -/
theorem parse_into_config_total (o : Opts) (bytes : List Nat) (c : Cfg) :
    ∃ r, parse cfgHandler o bytes c = .ok r :=
  parse_total cfgHandler config_handler_supported o bytes c

/-- The hypothesis on the handler is needed, and is the code's own `panic("unsupported type")`:
a handler answering any other dynamic type makes `set name value` panic. -/
theorem unsupported_type_panics :
    let H : Handler Unit := { readFile := fun _ _ => ((), .notExist), do_ := fun _ _ _ => ((), false),
                              set := fun _ _ _ => ((), false), get := fun _ _ => .unsupported,
                              bind := fun _ _ _ _ _ => ((), false) }
    doSet H {} { keymap := str "emacs", conds := [true] } () (str "x") (str "y") = .error (.oob "unsupported type") := by
  rfl

-- A file that includes itself: parsing returns (a value), whatever the budget; and malformed
-- directives are reported as error values.
example : ∀ o c, ∃ r, parse cfgHandler o (str "$include self\nset\n\"unterminated\nControl-: x\n") c = .ok r :=
  fun o c => parse_into_config_total o _ c

end RLV.Props.C12
