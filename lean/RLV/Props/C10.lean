import RLV.Lemmas.HistFile
/-! C10 — File-backed history survives restarts and crashes (property theorems).

`HistFile.writeRec` / `writes` / `openHist` are the models of `fileHistory.Write` and `openHist`
(internal/history/file.go) on the file as a byte list; the JSON codec of `encoding/json` is the
parameter `(enc, dec)` and `strings.TrimSpace` the parameter `trim`. Everything is proved from the
five `CodecLaws` (round trip for the blocks the application can write, no newline or carriage return
inside a record, records non-empty, a record cut short decodes to nothing), which are checked against
the real library through the real `Write`/`NewHistoryFromFile` on every run (`rlv-crash`,
`codec-law/*`). A crash at byte `k` of an append leaves the first `k` bytes of that append in the
file (append-only file, single `write`). No axioms: the laws are a hypothesis `L`. -/
namespace RLV.Props.C10
open RLV RLV.HistFile

variable {enc : Bytes → Bytes} {dec : Bytes → Option Bytes} {trim : Bytes → Bytes} {V : Bytes → Prop}

/-- Every line successfully written is returned, in order and with the same text (up to
surrounding whitespace), by a history reopened from the same file — whatever characters or length
the lines have (`V`: what the codec round-trips, i.e. valid UTF-8), blank lines being skipped. -/
theorem reopen_roundtrip (L : CodecLaws enc dec V) (ls : List Bytes) (hv : ∀ l ∈ ls, V (trim l)) :
    openHist dec (writes enc trim [] ls) = entries trim ls := by
  have := openHist_writes (trim := trim) L ls hv []
  simpa [openHist, splitNL] using this

/-- If the process dies at ANY byte `k` of the append of `l`, reopening yields all previously
completed entries in order, followed by `l` itself exactly when all of its record but the final
newline had reached the file. -/
theorem crash_safe (L : CodecLaws enc dec V) (ls : List Bytes) (hv : ∀ l ∈ ls, V (trim l))
    (l : Bytes) (hl : V (trim l)) (hne : trim l ≠ []) (k : Nat) (hk : k ≤ (enc (trim l) ++ [10]).length) :
    openHist dec (writes enc trim [] ls ++ (enc (trim l) ++ [10]).take k) =
      entries trim ls ++ (if (enc (trim l)).length ≤ k then [trim l] else []) := by
  rw [openHist_cut L _ (complete_writes ls [] (Or.inl rfl)) (trim l) hl hne k hk, reopen_roundtrip L ls hv]

/-- Entries written after reopening are durable again — after a crash at any byte, and in fact
whatever the file contains (torn record, garbage, missing final newline): every further write of
a non-blank line is returned, after what the file gave before, by the next reopening. -/
theorem durable_after_any_damage (L : CodecLaws enc dec V) (g : Bytes) (more : List Bytes)
    (hv : ∀ l ∈ more, V (trim l)) :
    openHist dec (writes enc trim g more) = openHist dec g ++ entries trim more :=
  openHist_writes L more hv g

/-- … in particular after the crash of `crash_safe`. -/
theorem durable_after_crash (L : CodecLaws enc dec V) (ls : List Bytes) (hv : ∀ l ∈ ls, V (trim l))
    (l : Bytes) (hl : V (trim l)) (hne : trim l ≠ []) (k : Nat) (hk : k ≤ (enc (trim l) ++ [10]).length)
    (more : List Bytes) (hm : ∀ l ∈ more, V (trim l)) :
    openHist dec (writes enc trim (writes enc trim [] ls ++ (enc (trim l) ++ [10]).take k) more) =
      entries trim ls ++ (if (enc (trim l)).length ≤ k then [trim l] else []) ++ entries trim more := by
  rw [durable_after_any_damage L _ more hm, crash_safe L ls hv l hl hne k hk]

-- non-vacuity: a toy codec (records are the block between two brackets) satisfies the laws on
-- blocks without brackets, newlines or carriage returns
def toyEnc (b : Bytes) : Bytes := [91] ++ b ++ [93]
def toyDec (p : Bytes) : Option Bytes :=
  if p.head? = some 91 ∧ p.getLast? = some 93 ∧ 2 ≤ p.length then some ((p.drop 1).dropLast) else none
def toyV (b : Bytes) : Prop := 10 ∉ b ∧ 13 ∉ b ∧ 93 ∉ b
example : toyV [104, 105] ∧ toyDec (toyEnc [104, 105]) = some [104, 105] := by
  refine ⟨⟨by decide, by decide, by decide⟩, by decide⟩

end RLV.Props.C10
