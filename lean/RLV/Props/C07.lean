import RLV.Lemmas.Undo
/-! C07 — Undo walks back through real earlier states (property theorems).

`Hist.save`, `Hist.undo`, `Hist.redo` are the models of `Sources.Save`, `Undo`, `Redo`
(internal/history/undo.go; the per-line undo histories keyed by history position), compared with the
real `history.Sources` on random command sequences on every run (`rlv-diff -model undo|walk`).

The full statement of C07 does not hold on this tree: typed characters are never saved by
themselves, `redo` steps by one item where `undo` skips equal ones, and a typed change after an undo
leaves the undone states in place (KNOWN FINDINGS, DESIGN.md §7: the undo stack would have to be
redesigned). What is proved, for EVERY sequence of edits, saves, skip-saves, undos and redos, is the
first clause: whatever `undo` or `redo` put in the buffer is a text that was in the buffer at an
earlier `Save` for that line — never a mixture, never something invented, and the saved states
themselves are only ever dropped, never altered. -/
namespace RLV.Props.C07
open RLV.Core RLV.Hist

/-- what a command can do to the undo machinery: replace the buffer (any edit), save, undo, redo,
ask the next save to be skipped -/
inductive Op where
  | edit (l : List Nat) (pos : Int)
  | save | undo | redo | skipSave
deriving Repr

def step (s : St) : Op → G St
  | .edit l p => .ok { s with line := l, cur := ⟨p, -1⟩ }
  | .save => Hist.save s
  | .undo => Hist.undo s
  | .redo => Hist.redo s
  | .skipSave => .ok { s with skip := true }

/-- the log of texts at which `Save` was invoked -/
def savedAfter (s : St) (saved : List (List Nat)) : Op → List (List Nat)
  | .save => s.line :: saved
  | _ => saved

/-- run a sequence, collecting the texts at which `Save` was invoked -/
def run : St → List (List Nat) → List Op → G (St × List (List Nat))
  | s, saved, [] => .ok (s, saved)
  | s, saved, op :: ops =>
    match step s op with
    | .error e => .error e
    | .ok s' => run s' (savedAfter s saved op) ops

/-- invariant: every text in the undo histories was the buffer at some earlier save -/
def Inv (s : St) (saved : List (List Nat)) : Prop := ∀ l ∈ allLines s, l ∈ saved

theorem step_inv (s s' : St) (saved : List (List Nat)) (op : Op) (hi : Inv s saved)
    (hs : step s op = .ok s') :
    Inv s' (savedAfter s saved op) ∧
    (match op with
      | .undo | .redo => s'.line = s.line ∨ s'.line ∈ saved
      | _ => True) := by
  cases op with
  | edit l p => cases hs; exact ⟨hi, trivial⟩
  | skipSave => cases hs; exact ⟨hi, trivial⟩
  | save =>
    have := save_spec s s' hs
    refine ⟨fun l hl => ?_, trivial⟩
    rcases this.2 l hl with rfl | h
    · exact List.mem_cons_self
    · exact List.mem_cons_of_mem _ (hi l h)
  | undo =>
    have := undo_spec s s' hs
    refine ⟨fun l hl => hi l (this.2 l hl), ?_⟩
    rcases this.1 with h | h
    · exact Or.inl h
    · exact Or.inr (hi _ h)
  | redo =>
    have := redo_spec s s' hs
    refine ⟨fun l hl => hi l (this.2 l hl), ?_⟩
    rcases this.1 with h | h
    · exact Or.inl h
    · exact Or.inr (hi _ h)

/-- C07 (partial): along any sequence of commands from a fresh line, the invariant holds — hence
every buffer an undo or redo produces is unchanged or was saved earlier. -/
theorem undo_from_saved_partial (ops : List Op) : ∀ (s : St) (saved : List (List Nat)) (s' : St) (saved' : List (List Nat)),
    Inv s saved → run s saved ops = .ok (s', saved') → Inv s' saved' := by
  induction ops with
  | nil => intro s saved s' saved' hi hr; cases hr; exact hi
  | cons op ops ih =>
    intro s saved s' saved' hi hr
    unfold run at hr
    split at hr
    · cases hr
    · rename_i s1 hs1
      exact ih _ _ _ _ (step_inv s s1 saved op hi hs1).1 hr

/-- One step: an undo or a redo leaves the buffer as it is or puts back a text saved earlier. -/
theorem undo_redo_show_saved_text (s s' : St) (saved : List (List Nat)) (hi : Inv s saved) :
    (Hist.undo s = .ok s' → s'.line = s.line ∨ s'.line ∈ saved) ∧
    (Hist.redo s = .ok s' → s'.line = s.line ∨ s'.line ∈ saved) :=
  ⟨fun h => (step_inv s s' saved .undo hi h).2, fun h => (step_inv s s' saved .redo hi h).2⟩

/-- the fresh state satisfies the invariant -/
theorem inv_init : Inv ({} : St) [] := by
  intro l hl; simp [allLines] at hl

-- non-vacuity: a concrete run in which undo changes the buffer back to a saved text
example : (match run {} [] [.edit [97] 1, .save, .edit [97, 98] 2, .save, .undo] with
    | .ok r => r.1.line == [97] && r.2 == [[97, 98], [97]]
    | .error _ => false) = true := by decide

end RLV.Props.C07
