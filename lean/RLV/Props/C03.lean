import RLV.Lemmas.DispatchKeys
/-! C03 — Key sequences run exactly the command they are bound to (property theorems).

`tbl` is any bind table in the normal form `matchBind` works on (`Model/Keys.norm`: ConvertMeta,
UTF-8, sorted; the last of several entries with the same normal form wins — `lastExact`).
`dispatchKeys` is the model of `(*Engine).dispatchKeys` (internal/keymap/dispatch.go), the function
`MatchMain` and `MatchLocal` both call; it is compared with the real one on every run (`rlv-diff
-model disp|local`). The engine may hold any stale `prefixed`/`active` bind from earlier dispatches,
and any keys may follow in the buffer. -/
namespace RLV.Props.C03
open RLV

/-- an engine whose key buffer holds the typed keys `ks` (no macro keys pending) -/
def Typed (e : Eng) (ks : Seq) : Prop := e.keys.buf = ks ∧ e.keys.mkeys = []

/-- Clause 1 (exact): a bound sequence that no longer binding extends runs exactly its binding,
once its last key has arrived: the dispatch returns that bind, not as a prefix, having consumed
exactly the keys of the sequence and left what follows in the buffer. -/
theorem exact_runs_binding (tbl : List (Seq × Bind)) (s rest : Seq) (b : Bind) (e : Eng) (n : Nat)
    (hmem : (s, b) ∈ tbl) (hb : lastExact s tbl = b) (hact : b.action ≠ "") (hne : s ≠ [])
    (hnoext : hasProperExt s tbl = false) (ht : Typed e (s ++ rest)) (hn : (s ++ rest).length ≤ n) :
    dispatchKeys tbl n e [] [] false =
      ({ e with keys := { e.keys with buf := rest }, prefixed := Bind.none, active := b }, false, s, s) := by
  obtain ⟨hbuf, hmk⟩ := ht
  rw [dispatchKeys_eq tbl n e [] [] false hmk (by rw [hbuf]; exact hn), hbuf,
    dispatch_exact tbl s rest b hmem hb hact hne hnoext]
  rfl

/-- Clause 2 (proper prefix waits): while the keys typed so far are only a proper prefix of
bindings, no command is selected: the dispatch reports a prefix, returns the (stale) active bind
untouched, and hands back exactly the keys it read so that they are matched again with the next key. -/
theorem proper_prefix_waits (tbl : List (Seq × Bind)) (p : Seq) (e : Eng) (n : Nat) (hne : p ≠ [])
    (hall : ∀ i, 0 < i → i ≤ p.length → hasProperExt (p.take i) tbl = true)
    (ht : Typed e p) (hn : p.length ≤ n) :
    ∃ pf', dispatchKeys tbl n e [] [] false =
      ({ e with keys := { e.keys with buf := [] }, prefixed := pf', active := e.active }, true, p, p) := by
  obtain ⟨hbuf, hmk⟩ := ht
  obtain ⟨pf', h⟩ := dispatch_prefix_waits tbl p hne hall e.prefixed e.active
  refine ⟨pf', ?_⟩
  rw [dispatchKeys_eq tbl n e [] [] false hmk (by rw [hbuf]; exact hn), hbuf, h]
  rfl

/-- Clause 3 (no match runs nothing): a key that starts no binding selects no command — the bind
returned is the empty bind — and only that key is consumed. -/
theorem nomatch_runs_nothing (tbl : List (Seq × Bind)) (k : Nat) (rest : Seq) (e : Eng) (n : Nat)
    (h1 : (lastExact [k] tbl).action = "") (h2 : hasProperExt [k] tbl = false)
    (hp : e.prefixed = Bind.none) (ht : Typed e (k :: rest)) (hn : (k :: rest).length ≤ n) :
    dispatchKeys tbl n e [] [] false =
      ({ e with keys := { e.keys with buf := rest }, prefixed := Bind.none, active := Bind.none }, false, [k], []) := by
  obtain ⟨hbuf, hmk⟩ := ht
  rw [dispatchKeys_eq tbl n e [] [] false hmk (by rw [hbuf]; exact hn), hbuf, hp,
    dispatch_nomatch tbl k rest h1 h2]
  rfl

/-- Clause 4 (shorter binding after a dead end): a sequence that is bound and is a prefix of
longer bindings runs its own binding as soon as the next key `k` rules the longer ones out. -/
theorem shorter_binding_runs (tbl : List (Seq × Bind)) (s rest : Seq) (k : Nat) (b : Bind) (e : Eng) (n : Nat)
    (hne : s ≠ []) (hb : lastExact s tbl = b) (hact : b.action ≠ "")
    (hall : ∀ i, 0 < i → i ≤ s.length → hasProperExt (s.take i) tbl = true)
    (hdead1 : (lastExact (s ++ [k]) tbl).action = "") (hdead2 : hasProperExt (s ++ [k]) tbl = false)
    (ht : Typed e (s ++ k :: rest)) (hn : (s ++ k :: rest).length ≤ n) :
    dispatchKeys tbl n e [] [] false =
      ({ e with keys := { e.keys with buf := rest }, prefixed := Bind.none, active := b }, false, s ++ [k], s) := by
  obtain ⟨hbuf, hmk⟩ := ht
  rw [dispatchKeys_eq tbl n e [] [] false hmk (by rw [hbuf]; exact hn), hbuf,
    dispatch_shorter tbl s rest k b hne hb hact hall hdead1 hdead2]
  rfl

/-- No spin in the dispatcher (shared with C01): on a non-empty buffer a dispatch either consumes
at least one key or reports a prefix having consumed all of them. -/
theorem dispatch_consumes (tbl : List (Seq × Bind)) (ks : Seq) (e : Eng) (n : Nat) (hne : ks ≠ [])
    (ht : Typed e ks) (hn : ks.length ≤ n) :
    let r := dispatchKeys tbl n e [] [] false
    (r.2.1 = false → r.1.keys.buf.length < ks.length) ∧ (r.2.1 = true → r.1.keys.buf = []) := by
  obtain ⟨hbuf, hmk⟩ := ht
  rw [dispatchKeys_eq tbl n e [] [] false hmk (by rw [hbuf]; exact hn), hbuf]
  exact dispatch_progress tbl ks [] [] false e.prefixed e.active hne

/-- … while the LOCAL keymaps (menu-select, isearch, vi-opp, visual…) do what the full statement asks:
the shorter binding runs and the key that ruled the longer ones out is the next key of the stack. -/
theorem local_keymap_gives_the_ruling_out_key_back (tbl : List (Seq × Bind)) (s rest : Seq) (k : Nat) (b : Bind)
    (e : Eng) (isIsearch : Bool)
    (htbl : tbl.isEmpty = false) (hne : s ≠ []) (hb : lastExact s tbl = b) (hact : b.action ≠ "")
    (hall : ∀ i, 0 < i → i ≤ s.length → hasProperExt (s.take i) tbl = true)
    (hdead1 : (lastExact (s ++ [k]) tbl).action = "") (hdead2 : hasProperExt (s ++ [k]) tbl = false)
    (ht : Typed e (s ++ k :: rest)) (hesc : runesOfBytes s ≠ [0x1b]) :
    (matchLocal e tbl isIsearch).2.1 = b ∧ (matchLocal e tbl isIsearch).1.keys.buf = k :: rest ∧
      (matchLocal e tbl isIsearch).2.2.2 = false := by
  have hd := shorter_binding_runs tbl s rest k b e (e.keys.buf.length + e.keys.mkeys.length) hne hb hact hall hdead1 hdead2 ht
    (by rw [ht.1]; omega)
  unfold matchLocal
  simp only [htbl, Bool.false_eq_true, if_false, hd]
  have hs : s.isEmpty = false := by cases s with | nil => exact absurd rfl hne | cons _ _ => rfl
  have hk : (List.drop s.length (s ++ [k])) = [k] := by simp
  have hnesc : (runesOfBytes s == [0x1b]) = false := by
    cases h : (runesOfBytes s == [0x1b]) with
    | false => rfl
    | true => exact absurd (by simpa using h) hesc
  simp [isEscapeKey, Keys.matchedKeys, hs, hk, hnesc]

-- non-vacuity: a table with overlapping binds  a ↦ Z,  ab ↦ X,  abc ↦ Y  meets the hypotheses of
-- clause 1 for `abc`, clause 2 for `ab`, clause 3 for `q` and clause 4 for `ab` followed by `d`
def tbl3 : List (Seq × Bind) := [([97], ⟨"Z", false⟩), ([97, 98], ⟨"X", false⟩), ([97, 98, 99], ⟨"Y", false⟩)]
example : ([97, 98, 99], (⟨"Y", false⟩ : Bind)) ∈ tbl3 ∧ lastExact [97, 98, 99] tbl3 = ⟨"Y", false⟩ ∧
    hasProperExt [97, 98, 99] tbl3 = false := by decide
example : ∀ i, 0 < i → i ≤ 2 → hasProperExt (([97, 98] : Seq).take i) tbl3 = true := by
  intro i h1 h2
  have : i = 1 ∨ i = 2 := by omega
  rcases this with rfl | rfl <;> decide
example : (lastExact [113] tbl3).action = "" ∧ hasProperExt [113] tbl3 = false := by decide
example : lastExact [97, 98] tbl3 = ⟨"X", false⟩ ∧ (lastExact ([97, 98] ++ [100]) tbl3).action = "" ∧
    hasProperExt ([97, 98] ++ [100]) tbl3 = false := by decide

/-- The statement at full strength adds to clause 4: "… and the key that ruled the longer bindings out is
dispatched next". In the MAIN keymaps it is not: `matchMain` hands every key it read, that one included, to
`matchedKeys` (where `matchLocal` gives it back). Refuted on the model — table  j ↦ self-insert, jk ↦ X,
keys `j a`: self-insert runs for `j a`, the stack is empty afterwards, `a` never runs anything — and on the
code (known finding C03-key-after-shorter-binding-dropped: typing `jazz` with a bind on `jk` returns `jzz`). -/
theorem key_ruling_out_longer_binds_is_dropped_in_main :
    let e : Eng := { keys := { buf := [106, 97] },
                     mainTbl := [([106], ⟨"self-insert", false⟩), ([106, 107], ⟨"X", false⟩)],
                     registered := ["self-insert", "X"] }
    (matchMain e).2.1 = ⟨"self-insert", false⟩ ∧ (matchMain e).1.keys.buf = [] ∧
      (matchMain e).1.keys.matched = [106, 97] := by
  decide

-- non-vacuity of the local-keymap clause: table a ↦ Z, ab ↦ X, abc ↦ Y as a local keymap, keys a b d q:
-- X runs, and d is the next key of the stack
example : (matchLocal { keys := { buf := [97, 98, 100, 113] }, registered := ["X"] } tbl3 false).2.1 = ⟨"X", false⟩ ∧
    (matchLocal { keys := { buf := [97, 98, 100, 113] }, registered := ["X"] } tbl3 false).1.keys.buf = [100, 113] := by
  decide

end RLV.Props.C03
