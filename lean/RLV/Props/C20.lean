import RLV.Model.Handoff
import RLV.Gen.KeyStack
/-! C20 — Resizes and async prints never break an edit in progress (property theorems, partial).

What a theorem can carry here is the protocol, not the scheduler: `Handoff` (Model/Handoff.lean) is a
finite model of the hand-off of cursor position reports between the key reading routine of the main
loop and a routine that redisplays from another goroutine (the resize watcher, `Shell.Printf`,
`Shell.PrintTransientf`); every interleaving of the two routines, of the terminal's answer and of
the user's typing is a path of `next`. The state space is finite (48 states) and is explored
exhaustively by the kernel.

Proved (all interleavings): a redisplay that queries the terminal while the main loop is parked in
its read always gets its report — no state on any path is stuck, and from every state the query
completes. The regenerated source facts say which routines can make such a query.

Also proved: the protocol is NOT deadlock-free for a query made while the main loop is between two
reads (`a_query_between_two_reads_can_deadlock`: the main loop then reads the report and waits for a
receiver that is itself blocked in a read). This is a statement about the model: the harness cannot
schedule it on the real code (its gated reader and the pty are different descriptors), so it is
recorded in DESIGN.md as an observation, not as a finding. Data races on the display coordinates, the
screen after a resize of wrapped rows, and every other effect of real scheduling are outside the
model: sessions deliver resizes (single and bursts) and application prints at every input wait. -/
namespace RLV.Props.C20
open RLV.Handoff

/-- one query, no second one: the steps of `next` except the query itself -/
def nextOne (s : St) : List St := (next s).filter (fun t => !(s.req = .idle ∧ t.req ≠ .idle))

def reachOne : Nat → List St → List St
  | 0, ss => ss
  | n+1, ss => reachOne n (ss ++ (ss.flatMap nextOne)).eraseDups

/-- the state right after a query made while the main loop is parked in its read -/
def askedWhileWaiting : St := ⟨.inRead, .recvChan, true, true⟩

/-- the state right after a query made while the main loop is between two reads -/
def askedBetweenReads : St := ⟨.between, .readStdin, true, true⟩

/-- the exploration is complete: the set is closed under every step -/
theorem exploration_is_closed :
    ((reachOne 8 [askedWhileWaiting]).flatMap nextOne).all (fun t => (reachOne 8 [askedWhileWaiting]).contains t) = true := by
  decide

/-- C20 (hand-off, all interleavings): after a query made while the main loop is parked in its read, no
reachable state is stuck, and from every reachable state the querying routine gets its report. -/
theorem a_query_while_the_loop_waits_always_completes :
    (reachOne 8 [askedWhileWaiting]).all (fun s =>
      !decide (Stuck s) && (reachOne 8 [s]).any (fun t => t.req = .got || t.req = .idle)) = true := by
  decide

/-- the other case, on the model only: a query made between two reads can end with the main loop
holding the report for a receiver that is blocked in its own read -/
theorem a_query_between_two_reads_can_deadlock :
    (reachOne 8 [askedBetweenReads]).any (fun s => decide (Stuck s)) = true := by
  decide

/-- a report that nobody asked for is keyboard input, not a hand-over to nobody (the `fix:` for
Ctrl-F3): with no query pending, reading a report leaves the main loop running -/
theorem an_unasked_report_does_not_block :
    (∀ t ∈ next ⟨.inRead, .idle, true, false⟩, t.main ≠ .forwarding) ∧
    (∀ t ∈ next ⟨.between, .idle, true, false⟩, t.main ≠ .forwarding) := by
  decide

/-- the routines that can query the terminal: only the redisplay asks for the cursor position, and
these are the callers of a redisplay (regenerated from the source) -/
theorem who_queries_the_terminal :
    RLV.Gen.KeyStack.cursorQueryCallers = ["internal/display:Engine.computeCoordinates"] ∧
    RLV.Gen.KeyStack.refreshCallers =
      [".:Shell.PrintTransientf", ".:Shell.Printf", ".:Shell.Readline", ".:Shell.dumpFunctions", ".:Shell.dumpMacros",
       ".:Shell.dumpVariables", ".:Shell.macroRun", ".:Shell.macroToggleRecord", ".:Shell.overwriteMode",
       ".:Shell.printLastKeyboardMacro", ".:Shell.standardCommands", ".:Shell.viChangeTo",
       "internal/display:WatchResize", "internal/display:WatchResize"] := by decide

/-- `Handoff.next` was written against exactly this text of `Keys.GetCursorPos`, `Keys.readInputFiltered`
(keys_unix.go) and `WatchResize` (display_unix.go) -/
theorem handoff_text_is_the_modelled_one : RLV.Gen.KeyStack.handoffHash = 15899814264632820770 := by decide

end RLV.Props.C20
