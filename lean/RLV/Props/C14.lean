import RLV.Model.Comp
import RLV.Lemmas.Kill
import RLV.Lemmas.CompLine
import RLV.Gen.CompFacts
/-! C14 — Completion only rewrites the word being completed (property theorems).

`Comp.insertCandidate` is the model of `(*Engine).insertCandidate` (and of `acceptCandidate`, which
performs the same three steps on the real line): move the cursor back by the RUNE count of the prefix,
cut that many runes, insert the candidate there (internal/completion/insert.go); `Comp.setPrefix` is
`setPrefix` (utils.go). Both are compared with a real `completion.Engine` on every run
(`rlv-diff -model comp`: `GenerateWith`, `Select`, `Line`). -/
namespace RLV.Props.C14
open RLV RLV.Core RLV.Comp RLV.CompLine

/-- Inserting a candidate only replaces the `|prefix|` runes before the cursor: for EVERY buffer,
cursor, prefix no longer than the text before the cursor, and candidate value (without NUL runes)
that passes the length guard, the new buffer is
`text before the prefix ++ value ++ text after the cursor` and the cursor sits after the value.
Nothing before the word and nothing after the cursor is touched. -/
theorem insert_only_replaces_the_prefix (l : Line) (cpos : Int) (pfx value : List Nat)
    (h0 : 0 ≤ cpos) (h1 : cpos ≤ len l) (hp : (pfx.length : Int) ≤ cpos)
    (hz : ∀ c ∈ value, c ≠ 0) (hg : ¬ value.length < pfx.length) :
    insertCandidate l cpos pfx value =
      .ok (l.take (cpos - pfx.length).toNat ++ value ++ l.drop cpos.toNat, cpos - pfx.length + value.length) :=
  CompLine.insertCandidate_spec l cpos pfx value h0 h1 hp hz hg

-- non-vacuity: completing `fi` in `ls fi -l` (cursor after `fi`) with `file.txt`
example : (0 : Int) ≤ 5 ∧ (5 : Int) ≤ len [108, 115, 32, 102, 105, 32, 45, 108] ∧ (([102, 105] : List Nat).length : Int) ≤ 5 := by
  decide

/-! ### The real line and the virtual line (`Model/CompLine`)

`Good s`: the completion starts with the cursor inside the line and the prefix before it;
`OKv s v`: a candidate without NUL runes that passes the byte-length guard of `insertCandidate`;
`shown s v` / `shownCur s v`: text before the prefix ++ `v` ++ text after the cursor, cursor after `v`.
The states are arbitrary otherwise (a candidate may already be shown, the virtual pair may still be the
real pair or hold anything). -/

/-- Selecting a candidate shows it in place of the prefix and nothing else, and does not touch the
real line: whatever was shown before is dropped first. -/
theorem selecting_shows_the_candidate_in_place_of_the_prefix (s : St) (v : List Nat)
    (g : Good s) (ok : OKv s v) (hv : v ≠ []) :
    ∃ s', select s v = .ok s' ∧ visible s' = (shown s v, shownCur s v) ∧
      s'.line = s.line ∧ s'.cur = s.cur := by
  obtain ⟨s', h1, h2⟩ := select_spec s v g ok
  exact ⟨s', h1, visible_shows g h2 hv, h2.line, h2.cur⟩

/-- Cycling through ANY sequence of candidates never accumulates text: after the last `Select` the
line shown is the original line with the LAST candidate in place of the prefix. -/
theorem cycling_shows_the_last_candidate_only (s : St) (vs : List (List Nat)) (v : List Nat)
    (g : Good s) (ok : ∀ w ∈ vs ++ [v], OKv s w) (hv : v ≠ []) :
    ∃ s', selects s (vs ++ [v]) = .ok s' ∧ visible s' = (shown s v, shownCur s v) ∧
      s'.line = s.line ∧ s'.cur = s.cur := by
  obtain ⟨s', h1, h2⟩ := selects_spec s vs v g ok
  exact ⟨s', h1, visible_shows g h2 hv, h2.line, h2.cur⟩

/-- Cancelling the menu (`Cancel(true, _)`, what abort / Ctrl-C runs) after any cycle, of any length,
restores the original buffer and cursor: both the real pair and what `Engine.Line()` hands out. -/
theorem cancelling_after_any_cycle_restores_line_and_cursor (s : St) (vs : List (List Nat))
    (g : Good s) (ok : ∀ w ∈ vs, OKv s w) :
    ∃ s', selects s vs = .ok s' ∧ (cancel s' true).line = s.line ∧ (cancel s' true).cur = s.cur ∧
      visible (cancel s' true) = (s.line, s.cur) := by
  rcases List.eq_nil_or_concat vs with h | ⟨ws, w, h⟩
  · subst h
    have hc := cancel_true_spec s g
    refine ⟨s, rfl, hc.1, hc.2.1, ?_⟩
    have g' : Good (cancel s true) := ⟨by rw [hc.2.1]; exact g.h0, by rw [hc.2.1, hc.1]; exact g.h1,
      by rw [hc.2.1, hc.2.2.2]; exact g.hp⟩
    rw [visible_unselected _ g' hc.2.2.1, hc.1, hc.2.1]
  · subst h
    rw [List.concat_eq_append] at ok ⊢
    obtain ⟨s', h1, h2⟩ := selects_spec s ws w g ok
    have g1 := shows_good g h2
    have hc := cancel_true_spec s' g1
    refine ⟨s', h1, by rw [hc.1, h2.line], by rw [hc.2.1, h2.cur], ?_⟩
    have g' : Good (cancel s' true) := ⟨by rw [hc.2.1]; exact g1.h0, by rw [hc.2.1, hc.1]; exact g1.h1,
      by rw [hc.2.1, hc.2.2.2]; exact g1.hp⟩
    rw [visible_unselected _ g' hc.2.2.1, hc.1, hc.2.1, h2.line, h2.cur]

/-- Keeping the candidate (`Cancel(false, _)`, what `UpdateInserted` runs before the next command)
after any cycle makes the real line the original line with the last candidate in place of the prefix:
text before the word and text after the cursor unchanged, cursor after the value. -/
theorem keeping_after_any_cycle_inserts_the_last_candidate (s : St) (vs : List (List Nat)) (v : List Nat)
    (g : Good s) (ok : ∀ w ∈ vs ++ [v], OKv s w) (hv : v ≠ []) :
    ∃ s', selects s (vs ++ [v]) = .ok s' ∧ (cancel s' false).line = shown s v ∧
      (cancel s' false).cur = shownCur s v ∧ (cancel s' false).sel = [] := by
  obtain ⟨s', h1, h2⟩ := selects_spec s vs v g ok
  have hc := cancel_false_spec g h2 hv
  exact ⟨s', h1, hc.1, hc.2.1, hc.2.2⟩

-- non-vacuity: `ls fi -l`, cursor after `fi`, prefix `fi`, candidates `file` and `find`
example : Good { line := [108, 115, 32, 102, 105, 32, 45, 108], cur := 5, pfx := [102, 105] } :=
  ⟨by decide, by decide, by decide⟩
example : OKv { line := [108, 115, 32, 102, 105, 32, 45, 108], cur := 5, pfx := [102, 105] } [102, 105, 108, 101] :=
  ⟨by decide, by decide⟩
example : (match selects { line := [108, 115, 32, 102, 105, 32, 45, 108], cur := 5, pfx := [102, 105] }
                [[102, 105, 108, 101], [102, 105, 110, 100]] with
    | .ok s => visible s == ([108, 115, 32, 102, 105, 110, 100, 32, 45, 108], 7) &&
               (cancel s true).line == [108, 115, 32, 102, 105, 32, 45, 108] &&
               (cancel s false).line == [108, 115, 32, 102, 105, 110, 100, 32, 45, 108]
    | .error _ => false) = true := by decide

/-- Tie to the source (regenerated by `rlv-dump` on every run): in internal/completion the virtual
line and cursor are assigned by `insertCandidate` (and `Init`) only, and changed in place by `Cancel`,
`cancelCompletedLine` and `insertCandidate` only — the functions `Model/CompLine` has a definition
for; the REAL line and cursor are changed by `Cancel` and `acceptCandidate` (modelled) and by the four
functions of features outside the model (`CompleteSyntax`: autopairs, `IsearchStop` and
`updateIncrementalSearch`: incremental search, `TrimSuffix`: suffix matchers). Another writer anywhere
in the package breaks this theorem. -/
theorem the_two_lines_are_written_by_these_functions_only :
    Gen.CompFacts.fieldWriters.lookup "compLine" = some ["Engine.insertCandidate", "Init"] ∧
    Gen.CompFacts.fieldWriters.lookup "compCursor" = some ["Engine.insertCandidate", "Init"] ∧
    Gen.CompFacts.changers.lookup "compLine" =
      some ["Engine.Cancel", "Engine.cancelCompletedLine", "Engine.insertCandidate"] ∧
    Gen.CompFacts.changers.lookup "compCursor" =
      some ["Engine.Cancel", "Engine.cancelCompletedLine", "Engine.insertCandidate"] ∧
    Gen.CompFacts.changers.lookup "line" =
      some ["Engine.Cancel", "Engine.CompleteSyntax", "Engine.IsearchStop", "Engine.TrimSuffix",
            "Engine.acceptCandidate", "Engine.updateIncrementalSearch"] ∧
    Gen.CompFacts.changers.lookup "cursor" = Gen.CompFacts.changers.lookup "line" := by decide

end RLV.Props.C14
