import RLV.Model.Comp
import RLV.Lemmas.Kill
/-! C14 — Completion only rewrites the word being completed (property theorems).

`Comp.insertCandidate` is the model of `(*Engine).insertCandidate` (and of `acceptCandidate`, which
performs the same three steps on the real line): move the cursor back by the RUNE count of the prefix,
cut that many runes, insert the candidate there (internal/completion/insert.go); `Comp.setPrefix` is
`setPrefix` (utils.go). Both are compared with a real `completion.Engine` on every run
(`rlv-diff -model comp`: `GenerateWith`, `Select`, `Line`). -/
namespace RLV.Props.C14
open RLV RLV.Core RLV.Comp

/-- Inserting a candidate only replaces the `|prefix|` runes before the cursor: for EVERY buffer,
cursor, prefix no longer than the text before the cursor, and candidate value (without NUL runes)
that passes the length guard, the new buffer is
`text before the prefix ++ value ++ text after the cursor` and the cursor sits after the value.
Nothing before the word and nothing after the cursor is touched. -/
theorem insert_only_replaces_the_prefix (l : Line) (cpos : Int) (pfx value : List Nat)
    (h0 : 0 ≤ cpos) (h1 : cpos ≤ len l) (hp : (pfx.length : Int) ≤ cpos)
    (hz : ∀ c ∈ value, c ≠ 0) (hg : ¬ (utf8 value).length < (utf8 pfx).length) :
    insertCandidate l cpos pfx value =
      .ok (l.take (cpos - pfx.length).toNat ++ value ++ l.drop cpos.toNat, cpos - pfx.length + value.length) := by
  unfold insertCandidate
  simp only [hg, if_false, bind, Except.bind, pure, Except.pure]
  have hb0 : 0 ≤ cpos - (pfx.length : Int) := by omega
  have c1 : ¬ cpos - (pfx.length : Int) < 0 := by omega
  have c2 : ¬ cpos - (pfx.length : Int) > len l := by omega
  simp only [c1, c2, if_false]
  have hcut := cut_spec l (cpos - pfx.length) (cpos - pfx.length + pfx.length) hb0 (by omega) (by omega)
  have he : cpos - (pfx.length : Int) + pfx.length = cpos := by omega
  rw [he] at hcut
  simp only [he, hcut]
  -- the cut line is long enough for the insertion point
  have htl : (l.take (cpos - pfx.length).toNat).length = (cpos - pfx.length).toNat := by
    rw [List.length_take]; unfold len at h1; omega
  have hlen : len (l.take (cpos - pfx.length).toNat ++ l.drop cpos.toNat) ≥ cpos - pfx.length := by
    unfold len
    rw [List.length_append, htl]
    omega
  have c3 : ¬ cpos - (pfx.length : Int) > len (l.take (cpos - pfx.length).toNat ++ l.drop cpos.toNat) := by omega
  simp only [c3, if_false]
  rw [insert_spec _ (cpos - pfx.length) value hz hb0 (by omega)]
  -- take/drop of the cut line at the cut point
  have e1 : (l.take (cpos - pfx.length).toNat ++ l.drop cpos.toNat).take (cpos - pfx.length).toNat
      = l.take (cpos - pfx.length).toNat := by
    rw [List.take_append_of_le_length (by omega)]
    exact List.take_of_length_le (by omega)
  have e2 : (l.take (cpos - pfx.length).toNat ++ l.drop cpos.toNat).drop (cpos - pfx.length).toNat
      = l.drop cpos.toNat := by
    rw [List.drop_append_of_le_length (by omega), List.drop_of_length_le (by omega)]; rfl
  rw [e1, e2]

-- non-vacuity: completing `fi` in `ls fi -l` (cursor after `fi`) with `file.txt`
example : (0 : Int) ≤ 5 ∧ (5 : Int) ≤ len [108, 115, 32, 102, 105, 32, 45, 108] ∧ (([102, 105] : List Nat).length : Int) ≤ 5 := by
  decide

end RLV.Props.C14
