import RLV.Lemmas.MenuCycle
import RLV.Lemmas.MenuCycleBack
import RLV.Lemmas.MenuGroups
/-! C15 — Menu completion cycles through every candidate exactly once (property theorems).

`Menu2.move` is the stage-wise model of `(*group).moveSelector` for plain (non-aliased) groups
(internal/completion/group.go); the executable menu model the differential compares with the real
`completion.Engine` (`rlv-diff -model menu`: `GenerateWith`, `Select(±1, 0)`, `Line()`) runs this very
definition for its plain groups. `tab` is one `menu-complete` inside a group: a move, and on
`(done, next)` the first cell again. A grid is ANY shape the engine can build for a plain group:
`n ≥ 1` candidates in rows of `c ≥ 1` columns with a possibly shorter last row (`Grid`).

Proved for every `n`, `c`, and every valid starting cell — no bound on the number of candidates,
columns, rows or presses — forwards (`menu-complete`) and backwards (`menu-complete-backward`:
`tabBack`, a move back and on `done` the last cell). The hand-over between SEVERAL groups (tags) is proved
forwards on the menu model itself (`Menu.select`, the function the differential runs): any number of
plain groups of any shapes, forwards and backwards. Aliased (shared-description) groups are decided by the
correspondence and by sessions, not by a theorem. -/
namespace RLV.Props.C15
open RLV RLV.Menu2 RLV.Core

/-- After `k` presses the selector is on the candidate of row-major index `(i + k) mod n`. -/
theorem tab_advances_by_one_mod_n {n c : Nat} (k : Nat) (s : Sel) (g : Grid s n c) (hv : Valid s) :
    ∃ s', tabs k s = .ok s' ∧ Valid s' ∧ Grid s' n c ∧ idx s' c = ((idx s c + k) % n) :=
  tabs_index k s g hv

/-- From the first candidate, the first `n` presses visit `n` pairwise distinct candidates — all of
them, each exactly once — and the next press is back on the first: press `k` selects index `k mod n`. -/
theorem cycle_visits_each_once {n c : Nat} (s : Sel) (g : Grid s n c) (hv : Valid s) (h0 : idx s c = 0) :
    (∀ k, ∃ s', tabs k s = .ok s' ∧ idx s' c = ((k : Int) % n)) ∧
    (∀ k₁ k₂, k₁ < n → k₂ < n → (k₁ : Int) % n = (k₂ : Int) % n → k₁ = k₂) ∧
    (∀ j, j < n → ∃ k, k < n ∧ (k : Int) % n = j) ∧
    ((n : Int) % n = 0) := by
  refine ⟨?_, ?_, ?_, ?_⟩
  · intro k
    obtain ⟨s', h1, _, _, h2⟩ := tabs_index k s g hv
    exact ⟨s', h1, by rw [h2, h0]; simp⟩
  · intro k₁ k₂ h1 h2 he
    have e1 : (k₁ : Int) % n = k₁ := Int.emod_eq_of_lt (by omega) (by omega)
    have e2 : (k₂ : Int) % n = k₂ := Int.emod_eq_of_lt (by omega) (by omega)
    rw [e1, e2] at he
    exact Int.ofNat_inj.mp he
  · intro j hj
    exact ⟨j, hj, Int.emod_eq_of_lt (by omega) (by omega)⟩
  · simp

/-- A press never fails and never leaves the grid: the selector stays on a real candidate
(no index out of range in `rows[posY][posX]`), whatever the shape. -/
theorem tab_stays_on_a_candidate {n c : Nat} (s : Sel) (g : Grid s n c) (hv : Valid s) :
    ∃ s', tab s = .ok s' ∧ Valid s' := by
  obtain ⟨s', h1, h2, _⟩ := tab_step g hv
  exact ⟨s', h1, h2⟩

/-- A backward press selects the previous candidate in row-major order, the last one from the first:
index `(i - 1) mod n`; it never fails and stays on a real candidate. -/
theorem shift_tab_goes_back_by_one_mod_n {n c : Nat} (s : Sel) (g : Grid s n c) (hv : Valid s) :
    ∃ s', tabBack s = .ok s' ∧ Valid s' ∧
      idx s' c = (if idx s c = 0 then (n : Int) - 1 else idx s c - 1) := by
  obtain ⟨s', h1, h2, _, _, h3⟩ := tabBack_step g hv
  exact ⟨s', h1, h2, h3⟩

/-- Backward undoes forward: a press followed by a backward press is on the candidate it started from
(so the backward cycle visits the same candidates in the opposite order, each exactly once). -/
theorem shift_tab_undoes_tab {n c : Nat} (s : Sel) (g : Grid s n c) (hv : Valid s) :
    ∃ s1 s2, tab s = .ok s1 ∧ tabBack s1 = .ok s2 ∧ idx s2 c = idx s c := by
  obtain ⟨s1, h1, hv1, hr, hR, hi, hlt⟩ := tab_step g hv
  have g1 : Grid s1 n c := by
    constructor
    · exact g.hc
    · rw [hR]; exact g.hR
    · intro y hy; rw [hr]; exact g.hrows y (by rw [hR] at hy; exact hy)
    · rw [hr, hR]; exact g.hlast
    · rw [hr, hR]; exact g.hlast1
    · rw [hr, hR]; exact g.hlastc
  obtain ⟨s2, h2, _, _, _, hi2⟩ := tabBack_step g1 hv1
  refine ⟨s1, s2, h1, h2, ?_⟩
  have h0 : 0 ≤ idx s c := by
    obtain ⟨hx, hy, _, _⟩ := hv
    unfold idx
    have : 0 ≤ s.y * (c : Int) := Int.mul_nonneg hy (by omega)
    omega
  rw [hi2, hi]
  by_cases hw : idx s c + 1 = n
  · rw [if_pos hw]; simp; omega
  · rw [if_neg hw]
    have : ¬ (idx s c + 1 = 0) := by omega
    rw [if_neg this]; omega

-- non-vacuity: 7 candidates in rows of 3 (a 3×3 grid with a short last row), selector on the first
def grid7 : Sel := { rows := fun y => if y < 2 then 3 else 1, R := 3, maxX := 3, x := 0, y := 0 }
example : Grid grid7 7 3 ∧ Valid grid7 ∧ idx grid7 3 = 0 := by
  refine ⟨⟨by decide, by decide, ?_, by decide, by decide, by decide⟩, ⟨by decide, by decide, by decide, by decide⟩, by decide⟩
  intro y hy
  have : y < 2 := by simp [grid7] at hy; omega
  simp [grid7, this]

/-! ### Several groups (tags)

`Menu.MInv m ns cs i`: a menu of plain, non-empty groups — group `j` has `ns[j]` candidates in rows of
`cs[j]` —, group `i` (and no other) current, its selector on a candidate. `Menu.gpos` is the position of
the selector among ALL the candidates, group after group. -/

/-- One `menu-complete` over any number of groups moves to the next candidate of the whole menu — the
next one of the current group, the first of the next group after the last one, the first of the first
group after the very last —, never fails, returns a candidate, and keeps the menu well formed. -/
theorem tab_over_groups_advances_by_one_mod_total (m : Menu.Menu) (ns cs : List Nat) (i : Nat)
    (h : Menu.MInv m ns cs i) (hlen : ns.length = m.length) :
    ∃ m' v i', Menu.select m 1 0 = .ok (m', some v) ∧ Menu.MInv m' ns cs i' ∧
      Menu.gpos m' ns cs i' = (Menu.gpos m ns cs i + 1) % (ns.sum : Int) := by
  obtain ⟨m', v, i', h1, h2, _, h3, _, _⟩ := Menu.select_gpos m ns cs i h hlen
  exact ⟨m', v, i', h1, h2, h3⟩

/-- After `k` presses the selector is on candidate `(p + k) mod N` of the whole menu (`N` the total
number of candidates): `N` presses visit every candidate of every group exactly once and come back. -/
theorem cycle_over_groups_visits_each_once (m : Menu.Menu) (ns cs : List Nat) (i k : Nat)
    (h : Menu.MInv m ns cs i) (hlen : ns.length = m.length) :
    ∃ m' i', Menu.presses k m = .ok m' ∧ Menu.MInv m' ns cs i' ∧
      Menu.gpos m' ns cs i' = (Menu.gpos m ns cs i + k) % (ns.sum : Int) := by
  obtain ⟨m', i', h1, h2, _, h3⟩ := Menu.presses_gpos ns cs k m i h hlen
  exact ⟨m', i', h1, h2, h3⟩

-- non-vacuity: two groups, 3 candidates in rows of 2 (ids 10 11 / 12) and 2 candidates in one row
-- (20 21), the first group current on its last candidate: one press goes to 20, three more to 11
def menu2 : Menu.Menu :=
  [{ rows := [[10, 11], [12]], ncols := 2, maxX := 2, maxY := 2, posX := 0, posY := 1, isCurrent := true },
   { rows := [[20, 21]], ncols := 2, maxX := 2, maxY := 1 }]
example : (match Menu.select menu2 1 0 with
    | .ok (m1, some v) => v == 20 && (match Menu.presses 3 m1 with
        | .ok m4 => (match Menu.selected (m4.getD 0 Menu.dflt) with | .ok w => w == 11 | _ => false) &&
            (m4.getD 0 Menu.dflt).isCurrent
        | _ => false)
    | _ => false) = true := by decide

/-- One `menu-complete-backward` over any number of groups moves to the PREVIOUS candidate of the whole
menu — the previous one of the current group, the last of the previous group before the first one, the
last of the last group before the very first —, never fails, returns a candidate, keeps the menu well
formed: position `(p - 1) mod N`. With `tab_over_groups_advances_by_one_mod_total`: the backward cycle
visits the same candidates in the opposite order, each exactly once. -/
theorem shift_tab_over_groups_goes_back_by_one_mod_total (m : Menu.Menu) (ns cs : List Nat) (i : Nat)
    (h : Menu.MInv m ns cs i) (hlen : ns.length = m.length) :
    ∃ m' v i', Menu.select m (-1) 0 = .ok (m', some v) ∧ Menu.MInv m' ns cs i' ∧
      Menu.gpos m' ns cs i' = (Menu.gpos m ns cs i - 1) % (ns.sum : Int) := by
  obtain ⟨m', v, i', h1, h2, _, h3⟩ := Menu.select_back_gpos m ns cs i h hlen
  exact ⟨m', v, i', h1, h2, h3⟩

-- non-vacuity: from the first candidate of the second group of `menu2'` a backward press goes to the
-- last candidate of the first group (12), from the first of the first group to the last of the last (21)
def menu2' : Menu.Menu :=
  [{ rows := [[10, 11], [12]], ncols := 2, maxX := 2, maxY := 2 },
   { rows := [[20, 21]], ncols := 2, maxX := 2, maxY := 1, posX := 0, posY := 0, isCurrent := true }]
example : (match Menu.select menu2' (-1) 0 with
    | .ok (m1, some v) => v == 12 && (match Menu.select m1 (-1) 0 with
        | .ok (m2, some w) => w == 11 && (match Menu.select m2 (-1) 0 with
            | .ok (m3, some x) => x == 10 && (match Menu.select m3 (-1) 0 with
                | .ok (_, some y) => y == 21 | _ => false)
            | _ => false)
        | _ => false)
    | _ => false) = true := by decide

end RLV.Props.C15
