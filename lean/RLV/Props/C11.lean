import RLV.Lemmas.TermMoves
import RLV.Gen.KeyStack
/-! C11 — The terminal is restored on every way out of Readline (property theorems).

`Disp.acceptLine` is the model of `display.Engine.AcceptLine` (internal/display/engine.go: the token
stream it writes — relative cursor moves, erasures, the final newline), `Term.run` the terminal model
of Model/TermRun.lean interpreting it. The tokens are compared with what the real `AcceptLine` writes
in real Readline sessions, and the final cursor of `Term.run` with the cursor of two independent
VT emulators fed with the real output (`rlv-diff -model acceptsess`).

Proved: the cursor clause — for EVERY width, prompt, buffer (embedded newlines included), cursor
position and screen row, AcceptLine run from the cursor position of the last redisplay leaves the
terminal cursor in column 0 of the row after the last row of the input. The terminal modes and the
cursor style are restored by `defer` statements: the theorem about them is the regenerated source
fact that they are registered before anything that can return or panic, in the order that runs the
cursor-style reset before the modes are restored; what the deferred calls do to a real terminal
(tcsetattr, `CSI 0 SP q`) is observed by the session oracle (termios compared before and after every
exit path, command panics included). -/
namespace RLV.Props.C11
open RLV RLV.Disp RLV.Term

/-- C11 (cursor): whatever the width, the prompt, the buffer and the cursor position, `AcceptLine`
run with the terminal cursor where the last redisplay left it (row `r0 + cursorRow`, column
`cursorCol`, `r0` the row of the prompt) ends in column 0 of row `r0 + lineRows + 1`: the first row
below the `lineRows + 1` rows of the input. -/
theorem accept_leaves_the_cursor_on_a_fresh_row (w : Nat) (prompt l : List Nat) (pos r0 : Nat) (t : Term)
    (hw : t.w = w) (hw0 : 0 < w)
    (hx : t.x = (coordsCursor w l pos prompt.length).1)
    (hy : t.y = r0 + (coordsCursor w l pos prompt.length).2) :
    (t.run (acceptLine w prompt l pos)).x = 0 ∧
    (t.run (acceptLine w prompt l pos)).y = r0 + (coordsLine w l prompt.length).2 + 1 := by
  have hnt : ∀ k ∈ acceptLine w prompt l pos, isText k = false := by
    intro k hk
    unfold acceptLine at hk
    simp only [mv] at hk
    simp only [List.mem_append, List.mem_cons, List.mem_nil_iff, or_false] at hk
    rcases hk with (((((((((h | h) | h) | h) | h) | h) | h) | h) | h) | h) <;>
      (first
        | (split at h <;> simp at h <;> (try subst h) <;> rfl)
        | (subst h; rfl))
  obtain ⟨hxy, _⟩ := run_xy (acceptLine w prompt l pos) t hnt
  have hfold : (acceptLine w prompt l pos).foldl (stepXY t.w) (t.x, t.y) =
      (0, r0 + (coordsLine w l prompt.length).2 + 1) := by
    rw [hw, hx, hy]
    unfold acceptLine
    dsimp only
    generalize (coordsCursor w l pos prompt.length).1 = cc
    generalize (coordsCursor w l pos prompt.length).2 = cr
    generalize (coordsLine w l prompt.length).2 = lr
    generalize (coordsLine w l prompt.length).1 = lc
    simp only [List.append_assoc]
    rw [foldl_mv_cub, foldl_mv_cuu]
    rw [foldl_mv_cuf _ _ _ _ (by simp)]
    simp only [List.singleton_append, List.foldl_cons, stepXY]
    rw [foldl_mv_cub, foldl_mv_cud]
    rw [foldl_mv_cuf _ _ _ _ (by simp only []; omega)]
    simp only [List.foldl_cons, stepXY]
    rw [foldl_mv_cub]
    simp only [List.foldl_cons, List.foldl_nil, stepXY]
    have h1 : r0 + cr - cr = r0 := by omega
    first | rfl | (rw [h1]) | skip
  rw [hfold] at hxy
  exact ⟨(Prod.mk.inj hxy).1, (Prod.mk.inj hxy).2⟩

/-- the deferred calls run in the reverse order of their registration -/
def exitSequence (defers : List String) : List String := defers.reverse

/-- C11 (modes, cursor style): on every way out of `Readline` past the prologue — return, error or a
panic going up — the deferred calls run in this order: the resize watcher is stopped, a panic moves
the cursor below the input (`AcceptLine`) before going on, the cursor style is reset, the transient
prompt is redisplayed, and the terminal modes saved by `MakeRaw` are restored last. (Regenerated from
the source of `Shell.Readline` on every run.) -/
theorem what_runs_on_every_way_out :
    exitSequence Gen.KeyStack.readlineDefers =
      ["defer close(resize)",
       "defer func() { if r := recover(); r != nil { rl.Display.AcceptLine() panic(r) } }()",
       "defer fmt.Print(keymap.CursorStyle(\"default\"))",
       "defer rl.Display.RefreshTransient()",
       "defer term.Restore(descriptor, state)"] := by decide

/-- … and the restoration of the modes is registered right after they were changed: the only way out
before it is the failure of `MakeRaw` itself, which changed nothing -/
theorem modes_are_saved_then_their_restoration_deferred :
    Gen.KeyStack.readlinePrologue.take 4 =
      ["descriptor := int(os.Stdin.Fd())",
       "state, err := term.MakeRaw(descriptor)",
       "if err != nil { return \"\", err }",
       "defer term.Restore(descriptor, state)"] := by decide

-- non-vacuity of the cursor theorem: a buffer of two rows at width 10, cursor in the first row
example :
    let t : Term := { w := 10, cell := fun _ _ => 32, x := 5, y := 3, pw := false }
    (coordsCursor 10 [97, 98, 99, 10, 100] 3 2 = (5, 0)) ∧
    (t.run (acceptLine 10 [62, 32] [97, 98, 99, 10, 100] 3)).x = 0 ∧
    (t.run (acceptLine 10 [62, 32] [97, 98, 99, 10, 100] 3)).y = 3 + 1 + 1 := by decide

end RLV.Props.C11
