import RLV.Lemmas.TermMoves
import RLV.Gen.KeyStack
import RLV.Lemmas.AcceptFrame
import RLV.Props.C04
/-! C11 — The terminal is restored on every way out of Readline (property theorems).

`Disp.acceptLine` is the model of `display.Engine.AcceptLine` (internal/display/engine.go: the token
stream it writes — relative cursor moves, erasures, the final newline), `Term.run` the terminal model
of Model/TermRun.lean interpreting it. The tokens are compared with what the real `AcceptLine` writes
in real Readline sessions, and the final cursor of `Term.run` with the cursor of two independent
VT emulators fed with the real output (`rlv-diff -model acceptsess`).

Proved: the cursor clause — for EVERY width, prompt, buffer (embedded newlines included), cursor
position and screen row, AcceptLine run from the cursor position of the last redisplay leaves the
terminal cursor in column 0 of the row after the last row of the input. The terminal modes and the
cursor style are restored by `defer` statements: the theorem about them is the regenerated source
fact that they are registered before anything that can return or panic, in the order that runs the
cursor-style reset before the modes are restored; what the deferred calls do to a real terminal
(tcsetattr, `CSI 0 SP q`) is observed by the session oracle (termios compared before and after every
exit path, command panics included). -/
namespace RLV.Props.C11
open RLV RLV.Disp RLV.Term

/-- C11 (cursor): whatever the width, the prompt, the buffer and the cursor position, `AcceptLine`
run with the terminal cursor where the last redisplay left it (row `r0 + cursorRow`, column
`cursorCol`, `r0` the row of the prompt) ends in column 0 of row `r0 + lineRows + 1`: the first row
below the `lineRows + 1` rows of the input. -/
theorem accept_leaves_the_cursor_on_a_fresh_row (w : Nat) (prompt l : List Nat) (pos r0 : Nat) (t : Term)
    (hw : t.w = w) (hw0 : 0 < w)
    (hx : t.x = (coordsCursor w l pos prompt.length).1)
    (hy : t.y = r0 + (coordsCursor w l pos prompt.length).2) :
    (t.run (acceptLine w prompt l pos)).x = 0 ∧
    (t.run (acceptLine w prompt l pos)).y = r0 + (coordsLine w l prompt.length).2 + 1 := by
  have hnt : ∀ k ∈ acceptLine w prompt l pos, isText k = false := by
    intro k hk
    unfold acceptLine at hk
    simp only [mv] at hk
    simp only [List.mem_append, List.mem_cons, List.mem_nil_iff, or_false] at hk
    rcases hk with (((((((((h | h) | h) | h) | h) | h) | h) | h) | h) | h) <;>
      (first
        | (split at h <;> simp at h <;> (try subst h) <;> rfl)
        | (subst h; rfl))
  obtain ⟨hxy, _⟩ := run_xy (acceptLine w prompt l pos) t hnt
  have hfold : (acceptLine w prompt l pos).foldl (stepXY t.w) (t.x, t.y) =
      (0, r0 + (coordsLine w l prompt.length).2 + 1) := by
    rw [hw, hx, hy]
    unfold acceptLine
    dsimp only
    generalize (coordsCursor w l pos prompt.length).1 = cc
    generalize (coordsCursor w l pos prompt.length).2 = cr
    generalize (coordsLine w l prompt.length).2 = lr
    generalize (coordsLine w l prompt.length).1 = lc
    simp only [List.append_assoc]
    rw [foldl_mv_cub, foldl_mv_cuu]
    rw [foldl_mv_cuf _ _ _ _ (by simp)]
    simp only [List.singleton_append, List.foldl_cons, stepXY]
    rw [foldl_mv_cub, foldl_mv_cud]
    rw [foldl_mv_cuf _ _ _ _ (by simp only []; omega)]
    simp only [List.foldl_cons, stepXY]
    rw [foldl_mv_cub]
    simp only [List.foldl_cons, List.foldl_nil, stepXY]
    have h1 : r0 + cr - cr = r0 := by omega
    first | rfl | (rw [h1]) | skip
  rw [hfold] at hxy
  exact ⟨(Prod.mk.inj hxy).1, (Prod.mk.inj hxy).2⟩

/-- the deferred calls run in the reverse order of their registration -/
def exitSequence (defers : List String) : List String := defers.reverse

/-- C11 (modes, cursor style): on every way out of `Readline` past the prologue — return, error or a
panic going up — the deferred calls run in this order: the resize watcher is stopped, a panic moves
the cursor below the input (`AcceptLine`) before going on, the cursor style is reset, the transient
prompt is redisplayed, and the terminal modes saved by `MakeRaw` are restored last. (Regenerated from
the source of `Shell.Readline` on every run.) -/
theorem what_runs_on_every_way_out :
    exitSequence Gen.KeyStack.readlineDefers =
      ["defer close(resize)",
       "defer func() { if r := recover(); r != nil { rl.Display.AcceptLine() panic(r) } }()",
       "defer fmt.Print(keymap.CursorStyle(\"default\"))",
       "defer rl.Display.RefreshTransient()",
       "defer term.Restore(descriptor, state)"] := by decide

/-- … and the restoration of the modes is registered right after they were changed: the only way out
before it is the failure of `MakeRaw` itself, which changed nothing -/
theorem modes_are_saved_then_their_restoration_deferred :
    Gen.KeyStack.readlinePrologue.take 4 =
      ["descriptor := int(os.Stdin.Fd())",
       "state, err := term.MakeRaw(descriptor)",
       "if err != nil { return \"\", err }",
       "defer term.Restore(descriptor, state)"] := by decide

/-- C11 with C04 (one-line buffers): `AcceptLine` run after a redisplay erases nothing of the input —
every cell of the screen is what the redisplay left (the prompt, the buffer, blanks after it) — and
leaves the cursor at the start of the first row below the input. For EVERY width, prompt, buffer
without newline, cursor position, screen row and previous contents of the screen. -/
theorem accepting_after_a_redisplay_keeps_the_line_on_screen_partial (w : Nat) (prompt sec l : List Nat)
    (pos prevRow r0 : Nat) (t : Term)
    (hw : t.w = w) (hwf : t.WF) (hy : t.y = r0 + prevRow)
    (hnl : 10 ∉ l) (hpos : pos ≤ l.length) (hpr : prompt.length < w) :
    let t1 := t.run (refresh w prompt sec prevRow false l pos)
    let t2 := t1.run (acceptLine w prompt l pos)
    (∀ r c, c < w → t2.cell r c = t1.cell r c) ∧ t2.x = 0 ∧
      t2.y = r0 + (prompt.length + l.length) / w + 1 := by
  intro t1 t2
  have hw0 : 0 < w := by omega
  obtain ⟨hc1, hx1, hy1, hpw1⟩ := RLV.Props.C04.redisplay_shows_exactly_the_buffer_partial w prompt sec l pos prevRow r0 t
    hw hwf hy hnl hpos hpr
  have hw1 : t1.w = w := by show (t.run _).w = w; rw [run_w]; exact hw
  have hcc := coordsCursor_single w l pos prompt.length hnl hpos
  have hcl := coordsLine_single w l prompt.length hnl
  have e1 : pos + prompt.length = prompt.length + pos := Nat.add_comm _ _
  have e2 : l.length + prompt.length = prompt.length + l.length := Nat.add_comm _ _
  -- the cursor
  obtain ⟨hx2, hy2⟩ := accept_leaves_the_cursor_on_a_fresh_row w prompt l pos r0 t1 hw1 hw0
    (by rw [hcc, e1]; exact hx1) (by rw [hcc, e1]; exact hy1)
  rw [hcl, e2] at hy2
  refine ⟨?_, hx2, hy2⟩
  -- the cells
  have hac := accept_cells w prompt.length ((prompt.length + pos) % w) ((prompt.length + pos) / w)
    ((prompt.length + l.length) / w) ((prompt.length + l.length) % w) r0 t1 hw1 hw0 hx1 hy1 hpw1
    (Nat.mod_lt _ hw0) hpr
  have htok : acceptLine w prompt l pos =
      mv .cub (((prompt.length + pos) % w : Nat)) ++ mv .cuu (((prompt.length + pos) / w : Nat)) ++
        mv .cuf (prompt.length : Nat) ++ [.dsr] ++ mv .cub w ++ mv .cud (((prompt.length + l.length) / w : Nat)) ++
        mv .cuf (((prompt.length + l.length) % w : Nat)) ++ [.ed0] ++ mv .cub w ++ [.crlf] := by
    unfold acceptLine
    dsimp only
    rw [hcc, hcl, e1, e2]
  intro r c hc
  show (t1.run (acceptLine w prompt l pos)).cell r c = _
  rw [htok, hac r c hc]
  have hlin : (r0 + (prompt.length + l.length) / w) * w + (prompt.length + l.length) % w
      = r0 * w + (prompt.length + l.length) := by
    rw [Nat.add_mul]
    have := Nat.div_add_mod (prompt.length + l.length) w
    rw [Nat.mul_comm] at this
    omega
  rw [hlin]
  by_cases h : r0 * w + (prompt.length + l.length) ≤ r * w + c
  · rw [if_pos h, hc1 r c hc]
    have n1 : ¬ (r * w + c < r0 * w) := by omega
    have n2 : ¬ (r * w + c < r0 * w + (prompt.length + l.length)) := by omega
    rw [if_neg n1, if_neg n2]
  · rw [if_neg h]

/-- C11 with C04 (buffers of two lines or more): `AcceptLine` run after a redisplay erases nothing of
the input — every cell is what the redisplay left: the prompt, each line on its rows, the secondary
prompt, blanks — and leaves the cursor at the start of the first row below the last line. For EVERY
width, prompt, secondary prompt, lines without newline, cursor line and offset, screen row and
previous contents of the screen. -/
theorem accepting_after_a_redisplay_keeps_the_lines_on_screen_partial (w : Nat) (prompt sec first last : List Nat)
    (rest : List (List Nat)) (k o prevRow r0 : Nat) (t : Term)
    (hw : t.w = w) (hwf : t.WF) (hy : t.y = r0 + prevRow)
    (hrest : rest ≠ []) (hfree : ∀ ln ∈ first :: rest, 10 ∉ ln) (hlast : rest.getLast? = some last)
    (hk : k < (first :: rest).length) (ho : o ≤ ((first :: rest).getD k []).length) (hpr : prompt.length < w) :
    let pos := ((((first :: rest).take k).map List.length).map (· + 1)).sum + o
    let t1 := t.run (refresh w prompt sec prevRow false (joinNL (first :: rest)) pos)
    let t2 := t1.run (acceptLine w prompt (joinNL (first :: rest)) pos)
    (∀ r c, c < w → t2.cell r c = t1.cell r c) ∧ t2.x = 0 ∧
      t2.y = r0 + (blockRows w prompt.length first + rowsOfLines w prompt.length rest) := by
  intro pos t1 t2
  have hw0 : 0 < w := by omega
  obtain ⟨hc1, hx1, hy1, hpw1⟩ := RLV.Props.C04.redisplay_shows_exactly_the_lines_partial w prompt sec first last
    rest k o prevRow r0 t hw hwf hy hrest hfree hlast hk ho hpr
  have hw1 : t1.w = w := by show (t.run _).w = w; rw [run_w]; exact hw
  have hne : first :: rest ≠ [] := by simp
  have hcc := coordsCursor_join w prompt.length (first :: rest) k o hne hfree hk ho
  have hcl := coordsLine_join w prompt.length (first :: rest) hne hfree
  have hgl : (first :: rest).getLast hne = last := by
    have h1 : (first :: rest).getLast? = some last := by
      cases rest with
      | nil => exact absurd rfl hrest
      | cons b tl => simpa using hlast
    rw [List.getLast?_eq_some_getLast hne] at h1
    exact Option.some.inj h1
  rw [hgl, rowsFrom_cons0, rowsOfLines_dropLast w prompt.length rest last hlast] at hcl
  obtain ⟨hx2, hy2⟩ := accept_leaves_the_cursor_on_a_fresh_row w prompt (joinNL (first :: rest)) pos r0 t1 hw1 hw0
    (by rw [hcc]; exact hx1) (by rw [hcc]; exact hy1)
  have hac := accept_after w prompt (joinNL (first :: rest)) pos r0 t1 hw1 hw0
    (by rw [hcc]; exact hx1) (by rw [hcc]; exact hy1) hpw1 (by rw [hcl]; exact Nat.mod_lt _ hw0) hpr
  rw [hcl] at hy2 hac
  refine ⟨?_, hx2, ?_⟩
  · intro r c hc
    show (t1.run (acceptLine w prompt (joinNL (first :: rest)) pos)).cell r c = _
    rw [hac r c hc]
    dsimp only
    generalize hB : blockRows w prompt.length first = B
    generalize hR : rowsOfLines w prompt.length rest.dropLast = R
    have hBv : B = (first.length + prompt.length) / w + 1 := by rw [← hB]; rfl
    have hbl : blockRows w prompt.length last = (last.length + prompt.length) / w + 1 := rfl
    have hlin : (r0 + ((first.length + prompt.length) / w + (R + blockRows w prompt.length last))) * w +
        (last.length + prompt.length) % w = r0 * w + (B * w + R * w + (last.length + prompt.length)) := by
      rw [hbl, hBv]
      have := Nat.div_add_mod (last.length + prompt.length) w
      rw [Nat.mul_comm] at this
      simp only [Nat.add_mul, Nat.one_mul]
      omega
    rw [hlin]
    by_cases h : r0 * w + (B * w + R * w + (last.length + prompt.length)) ≤ r * w + c
    · rw [if_pos h, hc1 r c hc]
      have n1 : ¬ (r * w + c < r0 * w) := by omega
      rw [if_neg n1]
      exact (frameCell_after_end w prompt sec first last rest _ hlast (by rw [hB, hR]; omega)).symm
    · rw [if_neg h]
  · rw [hy2]
    dsimp only
    rw [rowsOfLines_dropLast w prompt.length rest last hlast]
    show _ = r0 + ((first.length + prompt.length) / w + 1 + _)
    omega

-- non-vacuity of the cursor theorem: a buffer of two rows at width 10, cursor in the first row
example :
    let t : Term := { w := 10, cell := fun _ _ => 32, x := 5, y := 3, pw := false }
    (coordsCursor 10 [97, 98, 99, 10, 100] 3 2 = (5, 0)) ∧
    (t.run (acceptLine 10 [62, 32] [97, 98, 99, 10, 100] 3)).x = 0 ∧
    (t.run (acceptLine 10 [62, 32] [97, 98, 99, 10, 100] 3)).y = 3 + 1 + 1 := by decide

-- non-vacuity of the composed theorems: width 6, prompt "> ", buffer "ab\ncdefgh\ni", cursor on the `f`:
-- after the redisplay and AcceptLine the three lines are still there, the cursor is on row 5
example :
    let t : Term := { w := 6, cell := fun _ _ => 63, x := 3, y := 2, pw := false }
    let l := joinNL [[97, 98], [99, 100, 101, 102, 103, 104], [105]]
    let t2 := (t.run (refresh 6 [62, 32] [9492, 32] 1 false l (3 + 3))).run (acceptLine 6 [62, 32] l (3 + 3))
    ((List.range 6).map fun r => (List.range 6).map fun c => t2.cell r c) =
      [[63, 63, 63, 63, 63, 63], [62, 32, 97, 98, 32, 32], [32, 32, 99, 100, 101, 102],
       [103, 104, 32, 32, 32, 32], [9492, 32, 105, 32, 32, 32], [32, 32, 32, 32, 32, 32]] ∧
    (t2.x, t2.y) = (0, 1 + (1 + 3)) := by
  decide

end RLV.Props.C11
