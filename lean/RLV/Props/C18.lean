import RLV.Model.Macro
import RLV.Lemmas.Esc
import RLV.Lemmas.Feed
/-! C18 — Replaying a keyboard macro equals retyping its keys (property theorems).

`Macro.recordSession` is the model of a recording as the main loop of `Readline` drives the macro
engine (internal/macro/engine.go: `StartRecord`, one `RecordKeys` per loop iteration with the keys
that matched the last command, `StopRecord`), `Macro.runLast` of `RunLastMacro` / `RunMacro`
(Emacs `call-last-kbd-macro`, Vi `@<register>`): the stored notation is unescaped and FED to the
key stack. `dispatchKeys` is the dispatcher of C03. The chain proved here:

  recorded keys  --EscapeMacro-->  stored notation  --Unescape-->  fed keys = recorded keys
  fed keys  --dispatchKeys-->  the same binds, reads and matches as the same keys typed

Known limits of the code (KNOWN FINDINGS, not claimed): a fed key above 0xFF is cut to one byte by
`PopKey`, and a key in 0x80–0xFF is delivered as that byte rather than as its UTF-8 encoding; in the
Vi keymaps an ESC followed by further keys of the macro is read as a prefix (a typed lone ESC is
recognised by timing only). -/
namespace RLV.Props.C18
open RLV RLV.Macro

/-- the keys recorded: those of every command run while recording, in order -/
theorem recording_collects_the_keys (startKeys : List Nat) (cmds : List (List Nat))
    (hs : startKeys ≠ []) (hne : cmds.flatten ≠ []) :
    (recordSession {} startKeys cmds).stored = some (Esc.escape true cmds.flatten) := by
  unfold recordSession
  -- after the start command: recording, nothing collected, the `started` latch consumed
  have h0 : recordKeys (startRecord {}) startKeys = { recording := true, started := false, current := [], stored := none } := by
    cases startKeys with
    | nil => exact absurd rfl hs
    | cons a t => simp [recordKeys, startRecord]
  rw [h0]
  -- every later call appends its keys
  have key : ∀ (cs : List (List Nat)) (cur : List Nat),
      cs.foldl recordKeys { recording := true, started := false, current := cur, stored := none }
        = { recording := true, started := false, current := cur ++ cs.flatten, stored := none } := by
    intro cs
    induction cs with
    | nil => intro cur; simp
    | cons c cs ih =>
      intro cur
      simp only [List.foldl_cons, List.flatten_cons]
      by_cases hc : c = []
      · subst hc; simp [recordKeys, ih]
      · have : c.isEmpty = false := by cases c <;> simp_all
        simp only [recordKeys, this]
        simp [ih, List.append_assoc]
  rw [key]
  have hcur : ([] ++ cmds.flatten).isEmpty = false := by
    cases h : cmds.flatten with
    | nil => exact absurd h hne
    | cons _ _ => rfl
  have hcur2 : (cmds.flatten).isEmpty = false := by simpa using hcur
  unfold stopRecord
  simp only [List.nil_append, hcur2, Bool.false_eq_true, if_false, List.append_nil]

/-- Replay feeds exactly the recorded keys: for every key script (codes below 256 and printable
runes) recorded between the start and end commands, `RunLastMacro` / `RunMacro` feed the same
keys, in the same order — whatever they are: quotes, backslashes, control keys, ESC-prefixed
sequences, arrow keys. -/
theorem replay_feeds_the_recorded_keys (startKeys : List Nat) (cmds : List (List Nat))
    (hs : startKeys ≠ []) (hne : cmds.flatten ≠ [])
    (hd : ∀ c ∈ cmds.flatten, c < 256 ∨ Uni.isPrint c = true) :
    runLast (recordSession {} startKeys cmds) = cmds.flatten := by
  unfold runLast
  rw [recording_collects_the_keys startKeys cmds hs hne]
  exact Esc.unescape_escape true cmds.flatten hd

/-- Fed keys are dispatched like typed keys: with an empty type-ahead buffer, the dispatcher run on
keys `K` in the macro queue selects the same bind, reports the same prefix state, reads and matches
the same keys as on `K` typed — for every bind table — and leaves the unread rest in the queue. -/
theorem fed_keys_dispatch_like_typed_keys (tbl : List (Seq × Bind)) (n : Nat) (e : Eng)
    (hmk : e.keys.mkeys = []) (hlt : ∀ k ∈ e.keys.buf, k < 256) :
    let typed := dispatchKeys tbl n e [] [] false
    let fed := dispatchKeys tbl n e.asFed [] [] false
    fed.1.active = typed.1.active ∧ fed.2.1 = typed.2.1 ∧ fed.2.2.1 = typed.2.2.1 ∧ fed.2.2.2 = typed.2.2.2 ∧
    fed.1.keys.mkeys = typed.1.keys.buf := by
  simp only
  obtain ⟨f', hf'⟩ := dispatchKeys_fed tbl n e [] [] false e.keys.fromMacro hmk hlt
  rw [Eng.asFed, hf']
  simp [Eng.asFedF]

-- non-vacuity: recording `C-a`, `x`, `"` (one command each) after `C-x (`, then replay
example : runLast (recordSession {} [24, 40] [[1], [120], [34]]) = [1, 120, 34] := by
  apply replay_feeds_the_recorded_keys
  · simp
  · simp
  · intro c hc
    simp at hc
    rcases hc with rfl | rfl | rfl <;> (left; omega)

end RLV.Props.C18
