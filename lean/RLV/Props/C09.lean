import RLV.Model.Hist
import RLV.Lemmas.HistCalls
/-! C09 — History navigation and search are faithful and non-destructive (property theorems).

`Hist.walk` is the model of `Sources.Walk` (previous-history, next-history, beginning/end-of-history,
up/down-line-or-history all go through it), `Hist.insertMatch` of `Sources.InsertMatch` with
`Sources.match` underneath (history-search-backward/forward, the substring searches), on a history
source with in-memory semantics (internal/history/sources.go, history.go). Both are compared with
the real `history.Sources` on every run (`rlv-diff -model walk|hsearch`). Entries are rune lists,
`n - hpos` is the index of the entry being shown (`hpos = -1`: the line being typed). -/
namespace RLV.Props.C09
open RLV RLV.Core RLV.Hist

theorem reset_src (s : St) : (reset s).src = s.src := by
  unfold reset setLH; simp only; split <;> rfl

theorem save_src (s s' : St) (h : save s = .ok s') : s'.src = s.src := by
  unfold save at h
  split at h
  · cases h; exact reset_src s
  · simp only at h
    have key : ∀ (k : Int) (lh : LH), saveAppend s k lh = .ok s' → s'.src = s.src := by
      intro k lh hh
      unfold saveAppend at hh
      simp only at hh
      split at hh
      · cases hh
      · unfold saveAppendAt at hh
        split at hh
        · cases hh
        · split at hh
          · cases hh
          · split at hh
            · cases hh
            · cases hh; rw [reset_src]; rfl
    split at h
    · split at h
      · cases h; rw [reset_src]; rfl
      · exact key _ _ h
    · exact key _ _ h

theorem restoreLineBuffer_src (s : St) : (restoreLineBuffer s).src = s.src := by
  unfold restoreLineBuffer; simp only; split <;> rfl

theorem setLineCursorMatch_src (s : St) (l : List Nat) : (setLineCursorMatch s l).src = s.src := by
  unfold setLineCursorMatch; simp only; (repeat' split) <;> rfl

theorem setLineCursorMatch_hpos (s : St) (l : List Nat) : (setLineCursorMatch s l).hpos = s.hpos := by
  unfold setLineCursorMatch; simp only; (repeat' split) <;> rfl

theorem setLineCursorMatch_line (s : St) (l : List Nat) : (setLineCursorMatch s l).line = l := by
  unfold setLineCursorMatch; simp only; (repeat' split) <;> rfl

theorem walkTo_src (s : St) : (walkTo s).src = s.src := by
  unfold walkTo
  simp only
  split
  · rfl
  · split
    · exact restoreLineBuffer_src s
    · split
      · rw [setLineCursorMatch_src]; split <;> rfl
      · split
        · rw [setLineCursorMatch_src]; split <;> rfl
        · split <;> rfl

theorem leaveMain_src (s s' : St) (p : Int) (h : leaveMain s p = .ok s') : s'.src = s.src := by
  unfold leaveMain at h
  split at h
  · split at h
    · cases h
    · rename_i t ht
      cases h
      have := save_src _ _ ht
      simpa using this
  · cases h; rfl

/-- Moving through history never modifies the stored entries. -/
theorem walk_keeps_history (s s' : St) (p : Int) (h : walk s p = .ok s') : s'.src = s.src := by
  unfold walk at h
  simp only at h
  split at h
  · cases h; rfl
  · split at h
    · cases h; rfl
    · split at h
      · cases h; rfl
      · split at h
        · cases h
        · rename_i s1 hs1
          cases h
          rw [walkTo_src]
          exact leaveMain_src s s1 p hs1

/-- The position stays within the history: never before the line being typed (`-1`), never past
the oldest entry (`n`) — so the entry index `n - hpos` handed to the source is always a valid one
and no command "fails at either end". -/
theorem walkTo_position_in_range (s : St) (h0 : s.src ≠ []) : -1 ≤ (walkTo s).hpos ∧ (walkTo s).hpos ≤ s.src.length := by
  have hn : 0 < (s.src.length : Int) := by
    have := List.length_pos_iff.mpr h0; omega
  unfold walkTo
  simp only
  by_cases c1 : s.hpos < -1
  · simp only [c1, if_true]; omega
  · simp only [c1, if_false]
    by_cases c2 : s.hpos = 0
    · simp only [c2, if_true]
      have : (restoreLineBuffer s).hpos = -1 := by unfold restoreLineBuffer; simp only; split <;> rfl
      rw [this]; omega
    · simp only [c2, if_false]
      by_cases c3 : s.hpos > (s.src.length : Int)
      · simp only [c3, if_true]
        split
        · rw [setLineCursorMatch_hpos]; simp
        · split
          · rw [setLineCursorMatch_hpos]; simp
          · simp
      · simp only [c3, if_false]
        split
        · rw [setLineCursorMatch_hpos]; omega
        · split
          · rw [setLineCursorMatch_hpos]; omega
          · omega

/-- Faithfulness: when the walk lands on a history position `k > 0` whose line has not been edited
(no saved state for it), the buffer is exactly the stored entry at index `n - k`: the entries are
shown in order, most recent first. -/
theorem walkTo_shows_the_entry (s : St) (h1 : 0 < s.hpos) (h2 : s.hpos ≤ s.src.length)
    (hclean : (getLH s (lineKey s)).items = []) :
    (walkTo s).line = s.src.getD ((s.src.length : Int) - s.hpos).toNat [] := by
  unfold walkTo
  have c1 : ¬ s.hpos < -1 := by omega
  have c2 : ¬ s.hpos = 0 := by omega
  have c3 : ¬ s.hpos > (s.src.length : Int) := by omega
  simp only [c1, c2, c3, if_false, hclean, List.getLast?_nil]
  have hne : s.src.isEmpty = false := by
    cases hs : s.src with
    | nil => simp [hs] at h2; omega
    | cons _ _ => rfl
  have c4 : ¬ ((s.src.length : Int) - s.hpos < 0 ∨ (s.src.length : Int) - s.hpos ≥ s.src.length) := by omega
  simp only [getLine, hne, Bool.false_eq_true, if_false, c4]
  exact setLineCursorMatch_line _ _

/-- Moving back down to the line being typed restores exactly the text saved when it was left. -/
theorem walkTo_restores_typed_line (s : St) (h0 : s.hpos = 0) (it : UItem)
    (hl : (getLH { s with hpos := -1 } (-1)).items.getLast? = some it) :
    (walkTo s).line = it.line ∧ (walkTo s).hpos = -1 := by
  unfold walkTo
  have c1 : ¬ s.hpos < -1 := by omega
  simp only [c1, if_false, h0, if_true]
  unfold restoreLineBuffer
  simp only [hl]
  exact ⟨rfl, rfl⟩

/-! ### Searches -/

theorem matchLoop_sound (src : List (List Nat)) (hne : src ≠ []) (cline : List Nat) (fwd regex : Bool) :
    ∀ (f : Nat) (p r : Int), matchLoop src cline fwd regex f p = some r →
      0 ≤ r ∧ r < src.length ∧ lineMatches regex (utf8 (src.getD r.toNat [])) cline = true := by
  intro f
  induction f with
  | zero => intro p r h; simp [matchLoop] at h
  | succ f ih =>
    intro p r h
    unfold matchLoop at h
    by_cases hm : moreToSee fwd p src.length = true
    · simp only [hm, if_true] at h
      cases hg : getLine src (nextPos fwd p) with
      | none => simp [hg] at h
      | some hl =>
        simp only [hg] at h
        by_cases hmt : lineMatches regex (utf8 hl) cline = true
        · simp only [hmt, if_true] at h
          injection h with h
          subst h
          -- `GetLine` answered: the index is a valid one
          unfold getLine at hg
          have he : src.isEmpty = false := by
            cases hs : src with
            | nil => exact absurd hs hne
            | cons _ _ => rfl
          simp only [he, Bool.false_eq_true, if_false] at hg
          by_cases hr : nextPos fwd p < 0 ∨ nextPos fwd p ≥ (src.length : Int)
          · simp [hr] at hg
          · simp only [hr, if_false] at hg
            injection hg with hg
            subst hg
            exact ⟨by omega, by omega, hmt⟩
        · simp only [hmt, Bool.false_eq_true, if_false] at h
          exact ih _ _ h
    · simp only [hm, Bool.false_eq_true, if_false] at h
      cases h

/-- A search only ever puts in the buffer (a) nothing new, (b) the text saved for the line being
typed — when a forward search runs off the newest entry —, or (c) a STORED ENTRY that matches the
search text in the documented way: as a prefix, or anywhere in the line for the substring searches. -/
theorem search_shows_only_matching_entries (s : St) (mline : List Nat) (mpos : Int) (usePos fwd regex : Bool)
    (hreach : s.src ≠ [] ∨ s.hpos ≤ -1) :   -- with an empty history the position never leaves the typed line
    let s' := insertMatch s mline mpos usePos fwd regex
    s'.line = s.line ∨ s'.line = (restoreLineBuffer s).line ∨
    (∃ r : Int, 0 ≤ r ∧ r < s.src.length ∧ s'.line = s.src.getD r.toNat [] ∧
       lineMatches regex (utf8 (s.src.getD r.toNat [])) (searchText mline mpos) = true) := by
  unfold insertMatch
  simp only
  split
  · left; rfl
  · split
    · split
      · right; left; rfl
      · left; rfl
    · rename_i hfw _ p hp
      by_cases hsrc : s.src = []
      · -- an empty history: nothing is found going backward, and forward searches do not start
        exfalso
        have hh : s.hpos ≤ -1 := by
          rcases hreach with h | h
          · exact absurd hsrc h
          · exact h
        have hfwd : fwd = false := by
          cases hf : fwd with
          | false => rfl
          | true => exact absurd ⟨hf, hh⟩ hfw
        subst hfwd
        simp only [hsrc, List.length_nil] at hp
        have : ¬ (usePos = true ∧ s.hpos > -1) := by omega
        simp only [this, if_false, Bool.false_eq_true] at hp
        simp [matchLoop, moreToSee] at hp
      · obtain ⟨h0, h1, h2⟩ := matchLoop_sound _ hsrc _ _ _ _ _ _ hp
        right; right
        refine ⟨p, h0, h1, ?_, h2⟩
        split <;> rfl

/-- Searches never modify the stored entries either. -/
theorem search_keeps_history (s : St) (mline : List Nat) (mpos : Int) (usePos fwd regex : Bool) :
    (insertMatch s mline mpos usePos fwd regex).src = s.src := by
  unfold insertMatch
  simp only
  split
  · rfl
  · split
    · split
      · exact restoreLineBuffer_src s
      · rfl
    · split <;> rfl

/-- the documented way of matching: prefix … -/
theorem prefix_search_means_prefix (hist cline : List Nat) (h : lineMatches false hist cline = true) :
    cline.isPrefixOf hist = true := by
  unfold lineMatches at h
  simp only [Bool.false_eq_true, if_false, Bool.not_eq_true', Bool.or_eq_false_iff, Bool.and_eq_false_iff,
    decide_eq_false_iff_not] at h
  rcases h.2 with h2 | h2
  · have : cline = [] := by simpa using h2
    subst this; simp
  · simpa using h2

-- non-vacuity: history [one, two, abc] (oldest first), text `t` typed: searching backward shows `two`
example : (insertMatch { src := [[111, 110, 101], [116, 119, 111], [97, 98, 99]] } [116] 1 true false false).line = [116, 119, 111] := by
  decide

/-- C09 over any number of commands and CALLS: a user walks up and down the history, searches it
(history-search-backward/forward, the substring searches: `searchCmd`, matching against the line being
typed as `Sources.getLine` reconstructs it), types on the line being typed, and accepts lines (the typed
one, or a stored entry as it is) — any sequence of these, of any length, from any history. Whenever the position is on the history, the buffer is EXACTLY the stored entry
at that position, counted from the newest entry of the history as it is now; and the history itself only
grew at its end. (`runUnedited` stops at an edit of a history line: the library keeps such an edit with
the line, which is another matter.) `m` is the history-size limit (−1: none). -/
theorem walking_and_accepting_show_the_stored_entries (m : Int) (src : List (List Nat)) (ops : List HOp) (s : St)
    (h : runUnedited m { src := src } ops = .ok s) :
    (s.hpos = -1 ∨ (1 ≤ s.hpos ∧ s.hpos ≤ s.src.length ∧
      s.line = s.src.getD ((s.src.length : Int) - s.hpos).toNat [])) ∧
    ∃ more, s.src = src ++ more := by
  obtain ⟨i, more, e⟩ := Calls.run_inv m ops { src := src } s (Calls.inv_start src) h
  exact ⟨i.oe, more, e⟩

/-- … and what an accept does to the history in such a session: the accepted line appended at its end, or
nothing (blank line, duplicate of the newest entry, history full) — never anything else, whatever the
position on the history and the per-line edit histories were. -/
theorem accepting_appends_the_line_or_nothing (m : Int) (src : List (List Nat)) (ops : List HOp) (s s' : St)
    (h : runUnedited m { src := src } ops = .ok s) (ha : acceptAndNextCall m s = .ok s') :
    s'.src = s.src ∨ s'.src = s.src ++ [s.line] :=
  (Calls.accept_inv m s s' (Calls.run_inv m ops { src := src } s (Calls.inv_start src) h).1 ha).2

-- non-vacuity with a search: history [ab, b, abc], `a` typed, prefix search backward twice: `abc` then `ab`
example :
    (match runUnedited (-1) { src := [[97, 98], [98], [97, 98, 99]] } [.type 97, .search false false, .search false false] with
      | .ok s => (s.line, s.hpos) | .error _ => ([0], 0)) = ([97, 98], 3) := by
  decide

-- non-vacuity, and the defect this theorem did not hold with: history [a, b, c]; up, up shows `b`; accept;
-- in the next call up, up, up shows `b` (the new last entry), `c`, `b` — with the `Save` of the accepted line
-- as it was before the fix the third one showed `b` in place of `c`... see `acceptAndNextCallOld`
example :
    (match runUnedited (-1) { src := [[97], [98], [99]] } [.up, .up, .accept, .up, .up] with
      | .ok s => (s.line, s.hpos, s.src) | .error _ => ([0], 0, [])) = ([99], 2, [[97], [98], [99], [98]]) := by
  decide

example :
    (match (do
        let s ← runUnedited (-1) { src := [[97], [98], [99]] } [.up, .up]
        let s ← acceptAndNextCallOld (-1) s
        let s ← save s
        runUnedited (-1) s [.up, .up] : G St) with
      | .ok s => (s.line, s.hpos) | .error _ => ([0], 0)) = ([98], 2) := by
  decide

end RLV.Props.C09
