import RLV.Model.HistWrite
import RLV.Lemmas.Trim
/-! C08 — Accepted lines are recorded in history exactly once (property theorems).

`HistW.accept infer err maxE line srcs` is the model of `Sources.Accept(hold, infer, err)` followed
by `Sources.Write` (internal/history/sources.go) over the bound sources `srcs` — an association
list standing for the Go map, in ANY order; `maxE` is the limit derived from `history-size`
(`-1`: none). The accept commands call it as: accept-line, accept-and-hold, multi-line accept:
`infer = false, err = false`; operate-and-get-next, accept-and-infer-next-history: `infer = true`;
interrupt, end-of-file: `err = true`. Compared with the real `history.Sources` on every run
(`rlv-diff -model hwrite`), memory and file-backed sources mixed. -/
namespace RLV.Props.C08
open RLV RLV.HistW

/-- what "recorded exactly once" means for one source: one entry more, the line's text (as the
source stores it: a file source trims), everything before untouched -/
def RecordedOnce (before after : Src) (line : Str) : Prop :=
  after.kind = before.kind ∧
  after.entries = before.entries ++ [match before.kind with | .memory => line | .file => trim line]

/-- the source's most recent entry is the line (up to surrounding whitespace) -/
def LastIs (s : Src) (line : Str) : Prop :=
  ∃ last, s.entries.getLast? = some last ∧ last ≠ [] ∧ trim last = trim line

/-- the limit is reached -/
def Full (maxE : Int) (s : Src) : Prop := maxE = 0 ∨ (maxE > 0 ∧ (s.entries.length : Int) ≥ maxE)

theorem trim_idem (l : Str) : trim (trim l) = trim l := Trim.trimP_idem Uni.isSpace l

theorem getLine_last (s : Src) : s.getLine ((s.entries.length : Int) - 1) =
    (match s.entries.getLast? with
     | some l => some l
     | none => match s.kind with | .memory => some [] | .file => none) := by
  cases he : s.entries.getLast? with
  | none =>
    have : s.entries = [] := List.getLast?_eq_none_iff.mp he
    cases hk : s.kind <;> simp [Src.getLine, hk, this]
  | some l =>
    have hne : s.entries ≠ [] := by intro h; simp [h] at he
    have hlen : 0 < s.entries.length := List.length_pos_iff.mpr hne
    have hl : s.entries.getD (s.entries.length - 1) [] = l := by
      rw [List.getLast?_eq_getElem?] at he
      simp [List.getD_eq_getElem?_getD, he]
    have h1 : ((s.entries.length : Int) - 1).toNat = s.entries.length - 1 := by omega
    have h2 : ¬ ((s.entries.length : Int) - 1 < 0 ∨ (s.entries.length : Int) - 1 ≥ s.entries.length) := by omega
    have h3 : ¬ ((s.entries.length : Int) - 1 < 0) := by omega
    have h4 : (s.entries.length : Int) - 1 < s.entries.length := by omega
    cases hk : s.kind
    · simp only [Src.getLine, hk, h1, hl, h2, if_false]; simp [hne]
    · simp only [Src.getLine, hk, h1, hl, h3, h4, if_false, if_true]

theorem lastDup_iff (s : Src) (line : Str) : lastDup s line = true ↔ LastIs s line := by
  unfold lastDup LastIs
  rw [getLine_last]
  cases he : s.entries.getLast? with
  | none => cases s.kind <;> simp
  | some l =>
    simp only [Bool.and_eq_true, Bool.not_eq_true', beq_iff_eq]
    constructor
    · intro h; exact ⟨l, rfl, by intro hl; simp [hl] at h, h.2⟩
    · rintro ⟨last, h1, h2, h3⟩
      injection h1 with h1; subst h1
      exact ⟨by cases l <;> simp_all, h3⟩

/-- Ordinary acceptance records a non-blank line exactly once in EVERY bound source that is not
full and does not already end with it — and leaves every other source exactly as it was —
whatever the order in which the sources are visited. -/
theorem accept_records_once (maxE : Int) (line : Str) (srcs : List (Str × Src))
    (hnb : (trim line).isEmpty = false) (n : Str) (s : Src) (hs : (n, s) ∈ srcs) :
    ∃ s', (n, s') ∈ accept false false maxE line srcs ∧
      ((Full maxE s ∨ LastIs s line) → s' = s) ∧
      (¬ Full maxE s → ¬ LastIs s line → RecordedOnce s s' line) := by
  refine ⟨writeOne maxE line s, ?_, ?_, ?_⟩
  · simp only [accept, write, hnb, Bool.false_eq_true, if_false]
    exact List.mem_map.mpr ⟨(n, s), hs, rfl⟩
  · intro h
    unfold writeOne
    rcases h with h | h
    · have : (maxE = 0 ∨ (maxE > 0 ∧ (s.entries.length : Int) ≥ maxE)) := h
      simp [this]
    · have := (lastDup_iff s line).mpr h
      simp [this]
  · intro hf hl
    have hf' : ¬ (maxE = 0 ∨ (maxE > 0 ∧ (s.entries.length : Int) ≥ maxE)) := hf
    have hd : lastDup s line = false := by
      cases h : lastDup s line with
      | false => rfl
      | true => exact absurd ((lastDup_iff s line).mp h) hl
    simp only [writeOne, hf', if_false, hd, Bool.false_eq_true]
    -- the source's own Write appends exactly one entry
    unfold Src.write RecordedOnce
    cases hk : s.kind with
    | memory => simp
    | file =>
      have hb : trim line ≠ [] := by
        intro h; rw [h] at hnb; simp at hnb
      have hd2 : ¬ s.entries.getLast? = some (trim line) := by
        intro h
        exact hl ⟨trim line, h, hb, trim_idem line⟩
      simp [hb, hd2]

/-- The outcome for a source depends on that source alone: visiting the sources in another order
(Go map iteration) gives every source the same result. -/
theorem order_independent (infer err : Bool) (maxE : Int) (line : Str) (srcs srcs' : List (Str × Src))
    (hp : srcs'.Perm srcs) : (accept infer err maxE line srcs').Perm (accept infer err maxE line srcs) := by
  unfold accept write
  repeat' split
  all_goals first | exact hp | exact hp.map _

/-- Lines returned with an error (interrupt, end-of-file) are never recorded. -/
theorem error_never_records (infer : Bool) (maxE : Int) (line : Str) (srcs : List (Str × Src)) :
    accept infer true maxE line srcs = srcs := by simp [accept]

/-- Lines accepted by the commands that replay history (operate-and-get-next,
accept-and-infer-next-history) are never recorded. -/
theorem infer_never_records (maxE : Int) (line : Str) (srcs : List (Str × Src)) :
    accept true false maxE line srcs = srcs := by simp [accept, write]

/-- Blank lines are never recorded. -/
theorem blank_never_records (infer err : Bool) (maxE : Int) (line : Str) (srcs : List (Str × Src))
    (hb : (trim line).isEmpty = true) : accept infer err maxE line srcs = srcs := by
  simp [accept, write, hb]

/-- A configured limit stops recording only for sources that already hold that many entries:
a source that is not full and does not end with the line always gains it (clause of
`accept_records_once`), and with no limit configured (`history-size` unset: `maxE = -1`) no source
is ever full. -/
theorem unset_limit_never_full (s : Src) : ¬ Full (maxEntries 0 false) s := by
  simp [Full, maxEntries]

end RLV.Props.C08
