import RLV.Lemmas.ViOps
import RLV.Model.ViOps
/-! C17 — Vi delete removes exactly what yank would copy (property theorems).

`ViOps.deleteTo` / `yankTo` are the models of the active-selection branch of `viDeleteTo` / `viYankTo`
(vim.go) — the branch both operators reach in visual mode and, after the motion or text object of an
operator-pending command, through `RunPending` — and `deleteLine` / `yankLine` of their `dd` / `yy`
branch; `Sel.cut` / `Sel.pop` underneath are compared with the real `Selection.Cut` / `Pop` on every
run (`rlv-diff -model sel`, same state deleted and yanked).

The theorems quantify over EVERY state the operator can be handed: any buffer, any cursor, any
values of the selection's fields (mark, pending end, visual flags), any command having just run.
That subsumes every motion and text object of the property's list, with any count: whatever state
the motion leaves, delete and yank agree on it. -/
namespace RLV.Props.C17
open RLV RLV.Core RLV.Sel RLV.ViOps

/-- From the same state, the text the delete operator puts in the register is the text the yank
operator puts there; yank leaves the buffer unchanged; delete leaves the buffer minus exactly that
text (a contiguous slice `[b, e)`), the rest untouched. Neither ever panics. -/
theorem delete_removes_what_yank_copies (st : St) (activeCmd : String) :
    ∃ d y, deleteTo st activeCmd = .ok d ∧ yankTo st activeCmd = .ok y ∧
      d.reg = y.reg ∧ y.line = st.line ∧
      (d.line = st.line ∨
        ∃ b e : Int, 0 ≤ b ∧ b ≤ e ∧ e ≤ len st.line ∧
          d.line = st.line.take b.toNat ++ st.line.drop e.toNat ∧
          (d.reg = (st.line.drop b.toNat).take (e - b).toNat ∨ ((st.line.drop b.toNat).take (e - b).toNat = [] ∧ d.reg = st.reg))) := by
  obtain ⟨t, b, e, l', s', hc, hp, hr⟩ := cut_eq_pop st.line (adjust activeCmd st.sel) st.cur
  refine ⟨{ st with line := l', sel := s', reg := write st.reg t },
    { st with sel := reset st.sel, reg := write st.reg t }, ?_, ?_, rfl, rfl, ?_⟩
  · simp [deleteTo, hc, bind, Except.bind, pure, Except.pure]
  · simp [yankTo, hp, bind, Except.bind, pure, Except.pure]
  · rcases hr with ⟨_, _, _, hl⟩ | ⟨h0, h1, h2, ht, hl⟩
    · exact Or.inl hl
    · refine Or.inr ⟨b, e, h0, h1, h2, hl, ?_⟩
      show write st.reg t = _ ∨ _
      unfold write
      by_cases hte : t.isEmpty = true
      · right
        rw [if_pos hte]
        exact ⟨by rw [← ht]; simpa using hte, rfl⟩
      · left
        rw [if_neg hte]; exact ht

/-- The same for the doubled operators: what `dd` removes and stores is what `yy` stores. -/
theorem dd_removes_what_yy_copies (st : St) :
    ∃ d y, deleteLine st = .ok d ∧ yankLine st = .ok y ∧ d.reg = y.reg ∧ y.line = st.line := by
  obtain ⟨t, b, e, l', s', hc, hp, _⟩ := cut_eq_pop st.line (lineSel st) st.cur
  refine ⟨{ st with line := l', sel := s', reg := write st.reg (withNL t) },
    { st with sel := reset st.sel, reg := write st.reg (withNL t) }, ?_, ?_, rfl, rfl⟩
  · simp [deleteLine, hc, bind, Except.bind, pure, Except.pure]
  · simp [yankLine, hp, bind, Except.bind, pure, Except.pure]

-- non-vacuity: `dw` / `yw` on "ab cd" from the cursor at 0 with the mark pending at 0 and the cursor
-- moved to 3 by the motion: both store "ab ", delete leaves "cd"
example : (match deleteTo { line := [97, 98, 32, 99, 100], sel := { active := true, bpos := 0, epos := -1 }, cur := ⟨3, -1⟩ } "vi-forward-word",
                 yankTo { line := [97, 98, 32, 99, 100], sel := { active := true, bpos := 0, epos := -1 }, cur := ⟨3, -1⟩ } "vi-forward-word" with
    | .ok d, .ok y => d.reg == [97, 98, 32] && y.reg == [97, 98, 32] && d.line == [99, 100] && y.line == [97, 98, 32, 99, 100]
    | _, _ => false) = true := by decide

end RLV.Props.C17
