import RLV.Lemmas.Conds
/-! C13 — inputrc directives apply iff all enclosing conditions hold (property theorems).

The model is `Inputrc.execTok` / `runToks` (`Parser.next` over the scanned tokens of a file:
`doBind`, `doSet`, `do`, inputrc/parse.go), for **any** handler `H`, any parser options `o` (mode,
term, application name, strict, …) and any treatment of included files. A *program* is a
well-nested tree (`Blk`): directives, and `$if test … $else … $endif` blocks.
`effect t (km, h)` is what directive `t` does when it takes effect: it acts on the handler state `h`
with the current keymap `km` (a bind is recorded in `km`; `set keymap k` selects `k`).

The tree this model is compared with on every run (whole files through the real `Parser`,
`rlv-diff -model parse`) is the pinned one, whose `$if` pushes its test without looking at the
enclosing block. So the full statement is false of it — `full_statement_refuted` — and is a
KNOWN FINDING (the two-line repair breaks a fixture of the pinned suite, see DESIGN.md);
what is proved is what the parser does for every program (`fires_iff_innermost_active`) and the
property itself on every program in which no block sits inside an inactive block
(`fires_iff_all_enclosing_active_partial`). -/
namespace RLV.Props.C13
open RLV RLV.Inputrc RLV.Core

variable {σ : Type} (H : Handler σ) (o : Opts) (nested : Option (List Nat → σ → G σ))

/-- Directives in inactive blocks have no effect at all: whatever the token (bind, macro, set,
`set keymap`, `$include`, unknown construct), with an inactive innermost block the parser state, the
handler state and the error list are left exactly as they were. -/
theorem inactive_directive_has_no_effect (p : PSt) (h : σ) (t : Tk)
    (hc : t.isCond = false) (hi : p.top = false) :
    execTok H o nested p h t = .ok (p, h, none) :=
  execTok_inactive H o nested p h t hc hi

/-- What the parser does, for EVERY well-nested program, from any keymap and handler state:
a directive takes effect iff the condition of its innermost enclosing block holds
(`specInL` evaluates the tree structurally with exactly that rule). -/
theorem fires_iff_innermost_active (bs : List Blk) (hw : wfL bs = true) (km : Str) (h : σ) :
    runToks H o nested (flatL bs) (fresh km) h =
      match specInL H o nested true bs (km, h) with
      | .error e => .error e
      | .ok s => .ok (fresh s.1, s.2) :=
  run_blks H o nested bs hw true [] [] (km, h)

/-- The property (a directive takes effect iff EVERY enclosing block is active, `specL`), proved
for every program in which no `$if` block sits inside an inactive block — the carve-out of the
known finding. -/
theorem fires_iff_all_enclosing_active_partial (bs : List Blk) (hw : wfL bs = true)
    (hflat : flatOKL o true bs = true) (km : Str) (h : σ) :
    runToks H o nested (flatL bs) (fresh km) h =
      match specL H o nested true bs (km, h) with
      | .error e => .error e
      | .ok s => .ok (fresh s.1, s.2) := by
  rw [fires_iff_innermost_active H o nested bs hw km h, specIn_eq_spec_blks H o nested bs true (km, h) hflat]

/-- A binding that takes effect is recorded in the keymap currently selected, with the key sequence,
the action and the function-versus-macro distinction the scanner delivered. -/
theorem bind_recorded_in_selected_keymap (km seq act : Str) (h : σ) (mac : Bool) :
    effect H o nested (seq, act, if mac then Tok.bindMacro else Tok.bind) (km, h) =
      .ok (km, (H.bind h km seq act mac).1) := by
  cases mac <;> simp [effect, execTok, doBind, fresh, pure, Except.pure]

/-- `set keymap k` that takes effect selects `k` for what follows and does nothing else
(non-strict parsing, or `k` one of the documented keymap names). -/
theorem set_keymap_selects (km k : Str) (h : σ) (hk : o.strict = false ∨ k ∈ validKeymaps) :
    effect H o nested (str "keymap", k, Tok.set) (km, h) = .ok (k, h) := by
  have : ¬ (o.strict = true ∧ ¬ k ∈ validKeymaps) := by
    rcases hk with h1 | h1 <;> simp [h1]
  simp [effect, execTok, doSet, fresh, pure, Except.pure, this]

/-- the handler calls recorded by a run are exactly `cs` -/
def recorded {α : Type} (g : G (α × Cfg)) (cs : List Call) : Bool :=
  match g with
  | .ok r => decide (r.2.calls = cs)
  | .error _ => false

/-- The full statement is false of the pinned parser (known finding): with mode `emacs`, the bind
inside `$if mode=vi / $if mode=emacs` fires although its outer block is inactive, while the
property's evaluator fires nothing. -/
theorem full_statement_refuted :
    let o : Opts := { mode := str "emacs" }
    let prog : List Blk := [.ite (str "mode=vi") [.ite (str "mode=emacs") [.tok (str "x", str "LEAK", .bindMacro)] []] []]
    recorded (runToks cfgHandler o none (flatL prog) (fresh (str "emacs")) {})
        [.bind (str "emacs") (str "x") (str "LEAK") true] = true ∧
    recorded (specL cfgHandler o none true prog (str "emacs", {})) [] = true := by
  decide

-- non-vacuity of the carve-out: a two-level program inside it (all enclosing blocks active)
example : flatOKL { mode := str "emacs" } true
    [.ite (str "mode=emacs") [.ite (str "term=rxvt") [.tok (str "a", str "b", .bind)] [.tok (str "keymap", str "vi", .set)]] []] = true ∧
  wfL [.ite (str "mode=emacs") [.ite (str "term=rxvt") [.tok (str "a", str "b", .bind)] [.tok (str "keymap", str "vi", .set)]] []] = true := by
  decide

end RLV.Props.C13
