import RLV.Lemmas.NoSpin
import RLV.Gen.KeyStack
import RLV.Lemmas.TokTotal
import RLV.Lemmas.Move
import RLV.Lemmas.KillMore
/-! C01 — Readline never crashes, spins or deadlocks on any keyboard input (property theorems).

`MLoop.iter` is the model of one iteration of the `for` loop of `Shell.Readline` (readline.go) as far
as the key stack is concerned: flush, `MatchLocal`, `run`, `MatchMain`, `run`, with bind macros fed
back to the stack (and the bound on nested feeds of internal/core/keys.go); `MLoop.session` is the
whole call on a list of terminal reads. The dispatchers are those of Model/Keys.lean. The commands are
abstract: `WB C` says all that is assumed of them — they take keys (`ReadKey`, `Pop`), feed keys
(`Feed`), leave the dispatcher's prefixed bind alone, and none is registered under the empty name.
Model and code are compared on every run: `rlv-diff -model disp|local|loop` (real `core.Keys`,
`keymap.Engine`), and the session oracle of C01 runs the real `Readline`.

What is proved, for EVERY bind table of the main and local keymaps, every key stack (typed or fed,
with any stale dispatcher state), every macro — self-calling ones included — and every behaviour of
the commands within `WB`: the loop cannot run forever without reading the terminal, and the call on
any finite sequence of reads ends returned or blocked in a read.

The commands that ARE modelled (the kill commands of C16 and the movements of C06, compared with the
real closures by `rlv-diff -model kill|killr|move`) are proved never to panic, from any state
(`modelled_commands_never_panic`): the word tokenizer keeps its index inside the tokens, the kills cut inside
the buffer.

Not in the model (decided by the session oracle only): what the other commands do to the line
(the panics found there are the `fix:` commits listed in known_findings.json), the goroutines of the
key reader, the display. -/
namespace RLV.Props.C01
open RLV RLV.MLoop

/-- C01 (no busy loop): from any state of the main loop, finitely many iterations without a read of
the terminal lead to a state in which the call has returned or is blocked reading the terminal. -/
theorem no_busy_loop_between_reads (C : Cmds) (hC : WB C) (s : LS) (hg : Good s) :
    ∃ n, Settled (iterN C n s) :=
  no_spin C hC s hg

/-- C01 (the whole call): on any finite sequence of terminal reads, whatever their contents and
however they are cut, the call ends: returned, or blocked in a read at the end of the input. -/
theorem call_ends_on_any_finite_input (C : Cmds) (hC : WB C) (chunks : List (List Nat)) (s : LS)
    (hg : Good s) : ∃ fuel, (session C fuel chunks s).2 = true :=
  session_ends C hC chunks s hg

/-- One iteration: it leaves the loop settled, or the measure of the key stack decreases in the
lexicographic order (a key consumed, or one of the `maxNested` feeds used up), or the stale prefixed
bind is dropped. -/
theorem every_iteration_progresses (C : Cmds) (hC : WB C) (s : LS) (hg : Good s) (hns : ¬ Settled s) :
    Settled (iter C s) ∨ lt3 (m3 (iter C s).eng.keys) (m3 s.eng.keys) ∨
      (le3 (m3 (iter C s).eng.keys) (m3 s.eng.keys) ∧ Pr (iter C s).eng < Pr s.eng) :=
  (iter_progress C hC s hg hns).2

/-- `MatchMain` never leaves the stack as it found it: with keys waiting it consumes at least one,
or has read them all as a proper prefix and pushed them back with the order to read the terminal —
even when the keymap has no bind usable in the current mode. -/
theorem main_dispatch_consumes_or_waits (e : Eng) (hpos : 0 < e.keys.pending) :
    (needRead (matchMain e).1.keys = true) ∨
    ((matchMain e).2.2.2 = false ∧ (matchMain e).1.keys.pending < e.keys.pending) := by
  rcases matchMain_out e with ⟨hz, _⟩ | ⟨_, hpu⟩ | ⟨_, hpf, hc⟩
  · omega
  · exact Or.inl (settled_of_pushed hpu)
  · exact Or.inr ⟨hpf, hc.pend⟩

/-- a prefix reported by either dispatcher means the next `WaitAvailableKeys` reads the terminal -/
theorem prefix_means_wait (e : Eng) (ltbl : List (Seq × Bind)) (is : Bool)
    (hfl : e.keys.matched = []) (hpos : 0 < e.keys.pending) :
    ((matchMain e).2.2.2 = true → needRead (matchMain e).1.keys = true) ∧
    ((matchLocal e ltbl is).2.2.2 = true → needRead (matchLocal e ltbl is).1.keys = true) := by
  constructor
  · intro h
    rcases matchMain_out e with ⟨_, hpf, _⟩ | ⟨_, hpu⟩ | ⟨_, hpf, _⟩
    · rw [h] at hpf; cases hpf
    · exact settled_of_pushed hpu
    · rw [h] at hpf; cases hpf
  · intro h
    exact settled_of_pushed ((matchLocal_out e ltbl is hfl hpos).2 h)

/-- the slice `read[len(matched):]` `MatchLocal` pushes back is always in range -/
theorem pushback_slice_in_range (tbl : List (Seq × Bind)) (e : Eng) :
    let r := dispatchKeys tbl e.keys.pending e [] [] false
    r.2.2.2.length ≤ r.2.2.1.length := by
  obtain ⟨_, _, _, h, _⟩ := dispatchKeys_sum tbl e.keys.pending e [] [] false (Nat.le_refl _) (Nat.le_refl _)
  exact h

/-- the invariant of the loop survives every read of the terminal (the feed counter and the flag are
reset by `WaitAvailableKeys`) -/
theorem read_keeps_the_invariant (s : LS) (c : List Nat) (hg : Good s) : Good (MLoop.read s c) :=
  read_good s c hg

/-! The tie of `WB` and of the loop model to the source, regenerated on every run by `rlv-dump`
(go/parser facts in RLV/Gen/KeyStack.lean): a change of any of these facts breaks the theorem. -/

/-- The fields of `core.Keys` are unexported, and assigned by these functions of internal/core only —
the ones modelled in Model/Keys.lean (`PopKey`/`Pop`/`ReadKey`/`PopForce` = `Keys.pop`, `MatchedKeys`,
`MatchedPrefix`, `FlushUsed`, `Feed`, `WaitAvailableKeys` = `MLoop.read`; `GetCursorPos` appends the
type-ahead read together with a cursor report, a read of the terminal). -/
theorem key_stack_is_written_by_the_modelled_functions :
    Gen.KeyStack.fieldWriters =
      [("buf", ["Keys.GetCursorPos", "Keys.Pop", "Keys.ReadKey", "MatchedKeys", "MatchedPrefix", "PopForce", "PopKey", "WaitAvailableKeys"]),
       ("macroKeys", ["Keys.Feed", "Keys.Pop", "Keys.ReadKey", "PopForce", "PopKey"]),
       ("mustWait", ["MatchedKeys", "MatchedPrefix", "PopForce"]),
       ("fromMacro", ["Keys.Pop", "Keys.ReadKey", "PopForce", "PopKey", "WaitAvailableKeys"]),
       ("nested", ["Keys.Feed", "WaitAvailableKeys"]),
       ("matched", ["FlushUsed", "Keys.Pop", "Keys.ReadKey", "MatchedKeys", "MatchedPrefix"]),
       ("closed", ["Keys.ReadKey", "WaitAvailableKeys"]),
       ("partial", ["Keys.convertMeta"]),
       ("asked", ["Keys.GetCursorPos"])] := by decide

/-- `WB.prefixed`: only the dispatcher assigns `Engine.prefixed` -/
theorem prefixed_bind_is_written_by_the_dispatcher_only :
    Gen.KeyStack.prefixedWriters = ["Engine.dispatchKeys", "Engine.handleEscape"] := by decide

/-- the callers of `Keys.Feed`: `Shell.run` (bind macros, `runBind`), the two macro replay functions
and two commands (`WB.keys`) -/
theorem keys_are_fed_by_these_functions_only :
    Gen.KeyStack.feedCallers = [".:Shell.doLowercaseVersion", ".:Shell.prefixMeta", ".:Shell.run",
      "internal/macro:Engine.RunLastMacro", "internal/macro:Engine.RunMacro"] := by decide

/-- the command lists restricting the main keymap in the search modes, and the bound on nested feeds,
are the ones of the source -/
theorem search_mode_lists_and_bounds_are_the_source_s :
    Gen.KeyStack.isearchCommands = RLV.isearchCommands ∧
    Gen.KeyStack.nonIsearchCommands = RLV.nonIsearchCommands ∧
    Gen.KeyStack.maxNestedFeeds = Keys.maxNested := by decide

/-- `MLoop.iter` / `MLoop.runBind` (and the transcription the `loop` differential drives) were written
against exactly this text of the `for` loop of `Shell.Readline` and of `Shell.run` -/
theorem loop_text_is_the_modelled_one :
    Gen.KeyStack.readlineLoopHash = 15330789783778006253 ∧
    Gen.KeyStack.shellRunHash = 2639934839357153004 := by decide

-- non-vacuity: commands that leave the key stack alone are within `WB` …
example : WB ⟨fun _ _ s => s⟩ :=
  ⟨fun _ _ _ => rfl, fun _ _ s => ⟨0, [], by simp [Keys.popN, Keys.feed, Keys.SameQueues]⟩, fun _ _ _ h => h⟩

-- … and a macro that feeds its own key (`"a": "a"`) is stopped by the bound on nested feeds: typing
-- `a` once, the loop settles (blocked in the next read) after 34 iterations
example :
    let tbl : List (Seq × Bind) := [([97], ⟨"a", true⟩)]
    let s0 : LS := { eng := { mainTbl := tbl, keys := { buf := [97] } } }
    Settled (iterN ⟨fun _ _ s => s⟩ 40 s0) ∧ ¬ Settled (iterN ⟨fun _ _ s => s⟩ 33 s0) := by
  decide

/-- C01 (command bodies, the modelled ones): from EVERY state — any buffer, any cursor in or out of
range, any selection fields, any numeric argument — the models of forward-char, backward-char,
forward-word and backward-word return (no index out of range in the tokenizer, `Line.ForwardEnd`,
`Line.Backward`), and so do, on buffers without NUL runes, kill-line, backward-kill-line, kill-whole-line
and kill-region. -/
theorem modelled_commands_never_panic (s : Kill.St) (n : Int) :
    (∃ s1, Move.forwardChar s n = .ok s1) ∧ (∃ s1, Move.backwardChar s n = .ok s1) ∧
    (∃ s1, Move.forwardWord s n = .ok s1) ∧ (∃ s1, Move.backwardWord s n = .ok s1) ∧
    ((∀ c ∈ s.line, c ≠ 0) →
      (∃ s1, Kill.killLine s = .ok s1) ∧ (∃ s1, Kill.backwardKillLine s = .ok s1) ∧
      (∃ s1, Kill.killWholeLine s = .ok s1) ∧ (∃ s1, Kill.killRegion s = .ok s1)) := by
  refine ⟨Move.forwardChar_total s n, Move.backwardChar_total s n, Move.forwardWordN_total _ s,
    Move.backwardWordN_total _ s, fun hnz => ⟨?_, ?_, ?_, ?_⟩⟩
  · obtain ⟨s1, h, _⟩ := Kill.killLine_yank s hnz; exact ⟨s1, h⟩
  · obtain ⟨s1, h, _⟩ := Kill.backwardKillLine_yank s hnz; exact ⟨s1, h⟩
  · obtain ⟨s1, h, _⟩ := Kill.killWholeLine_yank s hnz; exact ⟨s1, h⟩
  · obtain ⟨s1, h, _⟩ := Kill.killRegion_yank s hnz; exact ⟨s1, h⟩

end RLV.Props.C01
