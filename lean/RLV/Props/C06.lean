import RLV.Lemmas.Sel
import RLV.Gen.Effects
import RLV.Lemmas.Move
/-! C06 — Cursor and selection stay inside the buffer; movements never edit (property theorems).

`Core.checkAppend` / `Core.checkCommand` are the models of `Cursor.CheckAppend` / `CheckCommand`
(internal/core/cursor.go) — what `Shell.execute` runs after EVERY command, in the insert keymaps and
in the Vi command keymaps respectively — and `Sel.pos` of `Selection.Pos` (internal/core/selection.go);
all compared with the real methods on every run (`rlv-diff -model core|sel`).
`Gen.Effects` is read off the SOURCE of the working tree on every run (`rlv-dump`, go/parser): for
every registered command, the buffer-writing primitives its method can reach through calls of other
`*Shell` methods, split by whether a `history-autosuggest` test guards the way. -/
namespace RLV.Props.C06
open RLV RLV.Core

/-- After any command whatsoever, in the insert keymaps: the cursor is inside the buffer and the
mark is unset or a valid index — for ANY cursor and mark values the command may have left. -/
theorem cursor_in_buffer_after_any_command (l : Line) (c : Cur) :
    0 ≤ (checkAppend l c).pos ∧ (checkAppend l c).pos ≤ len l ∧
    ((checkAppend l c).mark = -1 ∨ (0 ≤ (checkAppend l c).mark ∧ (checkAppend l c).mark ≤ len l - 1)) :=
  checkAppend_range l c

/-- After any command in the Vi command keymaps: the check never fails, the cursor is inside the
buffer and ON A CHARACTER, unless the buffer is empty or the cursor is on an empty line. -/
theorem vi_cursor_on_a_character_after_any_command (l : Line) (c : Cur) :
    ∃ c', checkCommand l c = .ok c' ∧ 0 ≤ c'.pos ∧ c'.pos ≤ len l ∧
      (len l = 0 ∨ OnEmptyLine l c'.pos ∨ (c'.pos < len l ∧ charOf l c'.pos ≠ 10)) :=
  checkCommand_spec l c

/-- The selection reported by the API lies within the buffer: for ANY internal field values of the
selection and ANY cursor, `Selection.Pos()` returns (never panics) "no selection" or
`0 ≤ bpos ≤ epos ≤ len`. -/
theorem selection_in_buffer (l : Line) (s : Sel.S) (cur : Cur) :
    ∃ r, Sel.pos l s cur = .ok r ∧
      ((r.1 = -1 ∧ r.2.1 = -1) ∨ (0 ≤ r.1 ∧ r.1 ≤ r.2.1 ∧ r.2.1 ≤ len l)) :=
  Sel.pos_spec l s cur

/-! ### Movements and copies never edit: a fact of the source, re-decided on every run -/

/-- the registry groups documented as movements (emacs.go "Moving", vim.go "Movement") -/
def movementGroups : List String := ["Moving", "Movement"]

/-- the commands documented as copies/yanks, marks, character searches and text-object selectors -/
def copyCommands : List String :=
  ["copy-region-as-kill", "copy-backward-word", "copy-forward-word", "vi-yank-to", "vi-yank-whole-line",
   "set-mark", "exchange-point-and-mark", "character-search", "character-search-backward",
   "vi-set-mark", "vi-goto-mark", "vi-char-search", "vi-find-next-char", "vi-find-next-char-skip",
   "vi-find-prev-char", "vi-find-prev-char-skip", "select-a-blank-word", "select-a-shell-word", "select-a-word",
   "select-in-blank-word", "select-in-shell-word", "select-in-word", "vi-select-inside", "vi-select-surround"]

/-- every command of the movement groups that is a `*Shell` method, plus the copy commands -/
def pureCommands : List String :=
  ((Gen.Effects.registry.filter fun e => movementGroups.contains e.2.2 && e.2.1 != "").map (·.1)) ++ copyCommands

/-- the buffer-writing primitives `c` reaches with no `history-autosuggest` guard on the way -/
def unguarded (c : String) : Option (List String) := Gen.Effects.unguardedWriters.lookup c

/-- Commands documented as pure movements or copies/yanks reach NO primitive that writes the buffer
text (`Line.Insert/InsertBetween/Cut/CutRune/Set`, a store through the line pointer, `Cursor.InsertAt/
ReplaceWith`, `Selection.Cut/ReplaceWith/InsertAt/Surround`, history walks and undo, the completion
engine, macro replay, key feeding) — except behind a `history-autosuggest` test, where `forward-char`
and the word motions accept the suggestion (their documented function with that option on). -/
theorem movements_and_copies_reach_no_writer :
    ∀ c ∈ pureCommands, unguarded c = some [] := by decide

/-- the table is not vacuous: the movement groups are there, and editing commands do reach writers -/
theorem effect_table_is_meaningful :
    pureCommands.length ≥ 50 ∧ "forward-word" ∈ pureCommands ∧ "vi-match" ∈ pureCommands ∧
    unguarded "kill-line" = some ["selection.Cut"] ∧
    Gen.Effects.guardedWriters.lookup "forward-word" = some ["line.Insert"] ∧
    (unguarded "self-insert").map (·.contains "cursor.InsertAt") = some true := by decide

/-! ### The Emacs movement commands themselves (`Model/Move`)

`Move.forwardChar`, `backwardChar`, `forwardWord`, `backwardWord`, `beginningOfLine`, `endOfLine` are the
models of the command closures with their numeric argument (history-autosuggest off), compared with the
real closures on every run (`rlv-diff -model move`: multi-byte text, newlines, counts). -/

/-- The modelled movements never change the text, the kill ring or the selection — for EVERY buffer,
cursor (in or out of range), numeric argument and selection state — and whatever the cursor they leave,
the post-command check puts it inside the buffer. -/
theorem modelled_movements_never_edit (s s1 : Kill.St) (n : Int) :
    (Move.forwardChar s n = .ok s1 ∨ Move.backwardChar s n = .ok s1 ∨ Move.forwardWord s n = .ok s1 ∨
     Move.backwardWord s n = .ok s1 ∨ Move.beginningOfLine s = .ok s1 ∨ Move.endOfLine s = .ok s1) →
    Move.SameText s s1 ∧ 0 ≤ (Core.checkAppend s1.line s1.cur).pos ∧
      (Core.checkAppend s1.line s1.cur).pos ≤ Core.len s1.line := by
  intro h
  have hr := Core.checkAppend_range s1.line s1.cur
  refine ⟨?_, hr.1, hr.2.1⟩
  rcases h with h | h | h | h | h | h
  · exact Move.forwardChar_same s s1 n h
  · exact Move.backwardChar_same s s1 n h
  · exact Move.forwardWordN_same _ s s1 h
  · exact Move.backwardWordN_same _ s s1 h
  · exact Move.beginningOfLine_same s s1 h
  · exact Move.endOfLine_same s s1 h

-- non-vacuity: `ab cd`, cursor 0: forward-word twice goes to the end of `cd`, nothing else changes
example : (match Move.forwardWord { line := [97, 98, 32, 99, 100], cur := ⟨0, -1⟩, kill := [120] } 2 with
    | .ok s1 => s1.line == [97, 98, 32, 99, 100] && s1.kill == [120] && (Core.checkAppend s1.line s1.cur).pos == 5
    | _ => false) = true := by decide

end RLV.Props.C06
