import RLV.Lemmas.DispatchKeys
import RLV.Model.MLoop
import RLV.Lemmas.Cpr
import RLV.Lemmas.StreamLoop
import RLV.Lemmas.NoSpin
/-! C05 — The result does not depend on how the input is chunked or timed (property theorems).

`dispatch` is the list-level dispatcher of Model/Bind.lean (`dispatchKeys_eq`: it is what
`Engine.dispatchKeys` does on the typed keys), `MLoop.read` the model of `WaitAvailableKeys` appending a
read to the key stack, `Keys.matchedPrefix` of `core.MatchedPrefix` (the keys of a proper prefix are
pushed back and the next read is awaited). Compared with the real code on random chunkings on every
run (`rlv-diff -model disp|local|loop`, and `loopsess` against real Readline calls).

Proved, for EVERY bind table and key sequence: a dispatch that completes does not depend on the keys
that come after those it consumed — whether they arrived in the same read or not —; a dispatch that
reports a prefix has consumed every key, pushes them all back, and the keys of the next read are
dispatched exactly as if they had arrived together with them. Hence cutting the byte stream anywhere
— inside an escape sequence, inside a multi-key bind — changes neither the commands selected nor the
keys given to them.

Proved as well, on the WHOLE CALL of the loop model (`MLoop.session`, the model compared with real
Readline calls by `loopsess`), in the plain Emacs regime (`MLoop.Plain`: Emacs keymap, no local keymap or
search mode active, no bind macro in the table, keys below 0x80) with commands that only log
(`MLoop.Clog`: the bind run, the keys that called it, whether it accepts the line):
`whole_call_does_not_depend_on_the_reads_partial` — for EVERY bind table, every starting stack and every
two ways of cutting the same byte stream into reads (empty reads included), the binds run, in order, the
keys given to each and the acceptance of the line are the same; `the_call_ends` gives the iterations.
The proof goes through a reference run that knows the whole stream at once (`Stream.canon`): the
remembered shorter bind that survives a wait (`dispatch_stale`) is the only state a cut leaves behind,
and it is the one a clean dispatch computes again.

Not proved (decided by sessions; two known findings): the commands that read their own arguments
and the keys fed by macros interleaved with type-ahead; a lone ESC in a local keymap or in the Vi
keymaps (excluded by the property); multi-byte characters cut between reads (C02 theorems and sessions).
The goroutine hand-off of cursor-position reports is outside the model. -/
namespace RLV.Props.C05
open RLV

/-- C05 (dispatch, 1): a completed dispatch is the same whatever follows the keys it consumed. -/
theorem completed_dispatch_ignores_what_follows (tbl : List (Seq × Bind)) :
    ∀ (ks ys read matched : Seq) (pfx : Bool) (p a : Bind) (r : DResult),
      dispatch tbl ks read matched pfx p a = r → r.pfx = false → ks ≠ [] →
      dispatch tbl (ks ++ ys) read matched pfx p a = { r with rest := r.rest ++ ys } := by
  intro ks
  induction ks with
  | nil => intro _ _ _ _ _ _ _ _ _ h; exact absurd rfl h
  | cons k t ih =>
    intro ys read matched pfx p a r hr hpf _
    simp only [List.cons_append, dispatch] at hr ⊢
    by_cases h1 : (matchBind (read ++ [k]) tbl).1.action = "" ∧ (matchBind (read ++ [k]) tbl).2 = false
    · rw [if_pos h1] at hr ⊢; rw [← hr]
    · rw [if_neg h1] at hr ⊢
      by_cases h2 : (matchBind (read ++ [k]) tbl).2 = true
      · rw [if_pos h2] at hr ⊢
        by_cases ht : t = []
        · subst ht
          simp only [dispatch] at hr
          rw [← hr] at hpf; cases hpf
        · exact ih ys _ _ _ _ _ r hr hpf ht
      · rw [if_neg h2] at hr ⊢; rw [← hr]

/-- C05 (dispatch, 2): after a prefix has been reported (every key consumed), the keys of the next
read are dispatched as if they had arrived together with the first ones. -/
theorem keys_after_a_wait_continue_the_dispatch (tbl : List (Seq × Bind)) :
    ∀ (ks ys read matched : Seq) (pfx : Bool) (p a : Bind) (r : DResult),
      dispatch tbl ks read matched pfx p a = r → r.pfx = true → ks ≠ [] →
      r.rest = [] ∧
      dispatch tbl (ks ++ ys) read matched pfx p a = dispatch tbl ys r.read r.matched true r.prefixed r.bind := by
  intro ks
  induction ks with
  | nil => intro _ _ _ _ _ _ _ _ _ h; exact absurd rfl h
  | cons k t ih =>
    intro ys read matched pfx p a r hr hpf _
    simp only [List.cons_append, dispatch] at hr ⊢
    by_cases h1 : (matchBind (read ++ [k]) tbl).1.action = "" ∧ (matchBind (read ++ [k]) tbl).2 = false
    · rw [if_pos h1] at hr; rw [← hr] at hpf; cases hpf
    · rw [if_neg h1] at hr ⊢
      by_cases h2 : (matchBind (read ++ [k]) tbl).2 = true
      · rw [if_pos h2] at hr ⊢
        by_cases ht : t = []
        · subst ht
          simp only [dispatch] at hr
          rw [← hr]
          exact ⟨rfl, rfl⟩
        · exact ih ys _ _ _ _ _ r hr hpf ht
      · rw [if_neg h2] at hr; rw [← hr] at hpf; cases hpf

/-- C05 (key stack): the keys of a reported prefix are all pushed back in front of the stack, and the
next `WaitAvailableKeys` appends the next read after them: the dispatcher sees the concatenation. -/
theorem pushed_back_prefix_then_read_is_the_concatenation (k : Keys) (pre c : List Nat) (hp : pre ≠ [])
    (hb : k.buf = []) :
    ({ (k.matchedPrefix pre).beforeRead with buf := (k.matchedPrefix pre).buf ++ c } : Keys).buf = pre ++ c := by
  have : pre.isEmpty = false := by cases pre <;> simp_all
  simp [Keys.matchedPrefix, this, hb, Keys.beforeRead]

/-- C05 (cursor reports): keys that arrive in the same read as a cursor position report — typed just
before it or just after it — are all kept, in order; the report is taken out whole. (`Cpr.extract` is
the model of `Keys.extractCursorPos`, compared with the real hand-off by `rlv-diff -model cpr`.) -/
theorem keys_sharing_a_read_with_a_cursor_report_are_kept (a b d1 d2 : List Nat)
    (ha : ∀ x ∈ a, x ≠ 0x1b) (hb : ∀ x ∈ b, x ≠ 0x1b) (h1 : d1 ≠ []) (h2 : d2 ≠ [])
    (hd1 : ∀ x ∈ d1, Cpr.isDigit x = true) (hd2 : ∀ x ∈ d2, Cpr.isDigit x = true) :
    Cpr.extract ((a ++ Cpr.report d1 d2 ++ b).length + 1) (a ++ Cpr.report d1 d2 ++ b)
      = (some (Cpr.report d1 d2), a ++ b) :=
  Cpr.keys_around_a_report_are_kept a b d1 d2 ha hb h1 h2 hd1 hd2 _ (Nat.lt_succ_self _)

-- non-vacuity: "ab", the report ESC [ 1 2 ; 3 R, "c"
example : Cpr.extract 20 [97, 98, 27, 91, 49, 50, 59, 51, 82, 99] = (some [27, 91, 49, 50, 59, 51, 82], [97, 98, 99]) := by
  decide

-- non-vacuity: the arrow key ESC [ A bound, delivered as "ESC", "[", "A": a prefix, a prefix, the command
example :
    let tbl : List (Seq × Bind) := [([27, 91, 65], ⟨"previous-history", false⟩), ([97], ⟨"self-insert", false⟩)]
    (dispatch tbl [27] [] [] false Bind.none Bind.none).pfx = true ∧
    (dispatch tbl [27, 91] [] [] false Bind.none Bind.none).pfx = true ∧
    (dispatch tbl [27, 91, 65, 97] [] [] false Bind.none Bind.none).bind.action = "previous-history" ∧
    (dispatch tbl [27, 91, 65, 97] [] [] false Bind.none Bind.none).rest = [97] := by decide

/-- C05 (whole call, plain Emacs regime): two ways of cutting the same bytes into reads give the same
commands, with the same keys, and the same acceptance. `f1`, `f2` are iteration budgets with which both
calls have ended (returned, or blocked in a read at the end of the input): `the_call_ends` provides them. -/
theorem whole_call_does_not_depend_on_the_reads_partial (tbl : List (Seq × Bind)) (acc : Bind → Bool)
    (s : MLoop.LS) (hP : MLoop.Plain tbl s) (hI : Stream.Inv tbl (MLoop.obs s)) (c1 c2 : List (List Nat))
    (h1 : ∀ c ∈ c1, ∀ b ∈ c, b < 0x80) (h2 : ∀ c ∈ c2, ∀ b ∈ c, b < 0x80) (hflat : c1.flatten = c2.flatten)
    (f1 f2 : Nat) (hf1 : (MLoop.session (MLoop.Clog acc) f1 c1 s).2 = true)
    (hf2 : (MLoop.session (MLoop.Clog acc) f2 c2 s).2 = true) :
    (MLoop.session (MLoop.Clog acc) f1 c1 s).1.log = (MLoop.session (MLoop.Clog acc) f2 c2 s).1.log ∧
    (MLoop.session (MLoop.Clog acc) f1 c1 s).1.done = (MLoop.session (MLoop.Clog acc) f2 c2 s).1.done :=
  MLoop.session_chunking tbl acc s hP hI c1 c2 h1 h2 hflat f1 f2 hf1 hf2

/-- the logging commands are within what the no-spin theorem of C01 assumes of commands -/
theorem logging_commands_are_well_behaved (acc : Bind → Bool) : MLoop.WB (MLoop.Clog acc) :=
  { prefixed := fun _ _ _ => rfl,
    keys := fun _ _ s => ⟨0, [], by simp [Keys.popN, Keys.feed, Keys.SameQueues, MLoop.Clog]⟩,
    noEmpty := fun _ _ _ h => h }

/-- ... so every call on a finite input ends: the budgets of the theorem above exist -/
theorem the_call_ends (acc : Bind → Bool) (chunks : List (List Nat)) (s : MLoop.LS) (hg : MLoop.Good s) :
    ∃ f, (MLoop.session (MLoop.Clog acc) f chunks s).2 = true :=
  MLoop.session_ends (MLoop.Clog acc) (logging_commands_are_well_behaved acc) chunks s hg

-- non-vacuity: the table { ESC [ A ↦ previous-history, a ↦ self-insert, RET ↦ accept-line } and the bytes
-- ESC [ A a RET, delivered at once, byte by byte, and cut inside the escape sequence: the same three
-- commands with the same keys, and the line accepted
def tblEx : List (Seq × Bind) :=
  [([27, 91, 65], ⟨"previous-history", false⟩), ([97], ⟨"self-insert", false⟩), ([13], ⟨"accept-line", false⟩)]
def sEx : MLoop.LS := { eng := { mainTbl := tblEx, registered := ["previous-history", "self-insert", "accept-line"] } }
def accEx (b : Bind) : Bool := b.action == "accept-line"
example : MLoop.Plain tblEx sEx :=
  { ltbl := rfl, isearch := rfl, emacs := rfl, nonInc := rfl, nomk := rfl, htbl := rfl, ne := rfl,
    nomac := by decide, pm := rfl, am := rfl, ascii := by decide }
example : Stream.Inv tblEx (MLoop.obs sEx) := ⟨fun _ => rfl, fun h => by cases h⟩
example :
    let r1 := MLoop.session (MLoop.Clog accEx) 20 [[27, 91, 65, 97, 13]] sEx
    let r2 := MLoop.session (MLoop.Clog accEx) 20 [[27], [91], [65], [97], [13]] sEx
    let r3 := MLoop.session (MLoop.Clog accEx) 20 [[27, 91], [], [65, 97, 13]] sEx
    r1.2 = true ∧ r2.2 = true ∧ r3.2 = true ∧
    r1.1.log = [("previous-history", [27, 91, 65]), ("self-insert", [97]), ("accept-line", [13])] ∧
    r2.1.log = r1.1.log ∧ r3.1.log = r1.1.log ∧ r1.1.done = true ∧ r2.1.done = true ∧ r3.1.done = true := by
  decide

end RLV.Props.C05
