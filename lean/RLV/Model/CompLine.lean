import RLV.Model.Comp
/-! The two lines of the completion engine (internal/completion/engine.go, insert.go).

The engine keeps the REAL line and cursor of the shell (`line`, `cursor`) and a VIRTUAL pair
(`compLine`, `compCursor`) that shows the selected candidate. `Engine.Line()` hands the virtual pair to
the display and to the commands while a candidate is selected, the real pair otherwise. This file
models the functions that move text between the two:

* `insertCand`      — `(*Engine).insertCandidate` (copy the real line, cut the prefix, insert the value),
* `cancelCompleted` — `(*Engine).cancelCompletedLine`,
* `select`          — the line part of `(*Engine).Select` followed by its deferred `refreshLine`
                      (several candidates: the previous virtual candidate is dropped, the next inserted),
* `cancel`          — `(*Engine).Cancel(inserted, _)` (drop the candidate, or make it part of the real line),
* `accept`          — `(*Engine).acceptCandidate` followed by `ClearMenu` (unique candidate: real line),
* `prepare`         — the line part of `(*Engine).prepare` (the prefix is computed again),
* `clearMenu`       — `resetValues`: the selected candidate is forgotten,
* `visible`         — `(*Engine).Line`.

At `Init` the virtual pair IS the real pair (same pointers): `alias` says so, and then every write to
the virtual pair is a write to the real one. The first `insertCandidate` allocates a separate line. -/
namespace RLV.CompLine
open RLV.Core RLV.Comp

structure St where
  line : Line
  cur : Int
  cline : Line := []
  ccur : Int := 0
  alias : Bool := true
  sel : List Nat := []      -- selected.Value
  pfx : List Nat := []
deriving Repr, DecidableEq

def clamp (l : Line) (p : Int) : Int := if p < 0 then 0 else if p > len l then len l else p

/-- the virtual line and cursor, as the code reads them -/
def vline (s : St) : Line := if s.alias then s.line else s.cline
def vcur (s : St) : Int := if s.alias then s.cur else s.ccur

/-- `(*Engine).Line` -/
def visible (s : St) : Line × Int :=
  if s.sel ≠ [] then (vline s, clamp (vline s) (vcur s)) else (s.line, clamp s.line s.cur)

/-- `cancelCompletedLine`: `compLine.Set(*line...)`, `compCursor.Set(cursor.Pos())`, `selected = {}` -/
def cancelCompleted (s : St) : St :=
  let p := clamp s.line s.cur
  if s.alias then { s with cur := p, sel := [] }
  else { s with cur := p, cline := s.line, ccur := p, sel := [] }

/-- `insertCandidate` with the selected value `v` -/
def insertCand (s : St) (v : List Nat) : G St := do
  let s := { s with sel := v }
  if v.length < s.pfx.length then return s
  let p := clamp s.line s.cur
  let (l2, c2) ← Comp.insertCandidate s.line p s.pfx v
  return { s with cur := p, cline := l2, ccur := c2, alias := false }

/-- `Select` (its effect on the lines) with several candidates: `v` is the value under the selector -/
def select (s : St) (v : List Nat) : G St :=
  insertCand (if s.sel ≠ [] then cancelCompleted s else s) v

/-- `Cancel(inserted, _)` -/
def cancel (s : St) (inserted : Bool) : St :=
  if s.sel = [] ∧ !inserted then s else
  let s1 : St :=
    if inserted then
      let p := clamp s.line s.cur
      if s.alias then { s with cur := p } else { s with cur := p, cline := s.line, ccur := p }
    else
      if s.alias then s else
        let l := s.cline
        { s with line := l, cur := clamp l (clamp l s.ccur) }
  cancelCompleted s1

/-- `acceptCandidate` (+ `ClearMenu`): the unique candidate goes into the REAL line (no length guard:
`prepareSuffix` no longer slices the value at the byte length of the prefix). -/
def accept (s : St) (v : List Nat) : G St := do
  let plen : Int := s.pfx.length
  let p := clamp s.line (clamp s.line s.cur - plen)
  let l1 ← Core.cut s.line p (p + plen)
  let p := clamp l1 p
  let l2 ← Core.insert l1 p v
  return { s with line := l2, cur := p + v.length, sel := [], pfx := [] }

/-- `prepare`: the prefix is computed from the real line -/
def prepare (s : St) : G St := do
  let p ← Comp.setPrefix s.line (clamp s.line s.cur)
  return { s with cur := clamp s.line s.cur, pfx := p }

/-- `ClearMenu` / `resetValues` -/
def clearMenu (s : St) : St := { s with sel := [] }

/-- a character typed into the real line (`cursor.InsertAt`) -/
def edit (s : St) (c : Nat) : G St := do
  let p := clamp s.line s.cur
  let l ← Core.insert s.line p [c]
  return { s with line := l, cur := p + 1 }

/-- cycling: the candidates under the selector, one `Select` each -/
def selects (s : St) : List (List Nat) → G St
  | [] => pure s
  | v :: vs => do selects (← select s v) vs

end RLV.CompLine
