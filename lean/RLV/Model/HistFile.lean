/-! File-backed history (internal/history/file.go): the file is a byte list; `Write` appends one
record `enc(block) ++ "\n"` in a single write (preceded by a newline when the file does not end with
one — the `fix:` for torn tails), `openHist` splits at newlines (`bufio.ScanLines`, no token limit
since the `fix:`), decodes each piece and skips what does not decode or has an empty block.
The JSON codec (`encoding/json` on `{datetime, block}`) is a PARAMETER `(enc, dec)`; what the
theorems assume of it is the structure `CodecLaws` (checked against the real library by
`rlv-crash -laws` on every run). `trim` is `strings.TrimSpace`, also a parameter. -/
namespace RLV.HistFile

abbrev Bytes := List Nat

/-- `bufio.ScanLines` over a whole file: `cur` is the piece being collected, reversed -/
def splitNL : Bytes → Bytes → List Bytes
  | [], cur => if cur = [] then [] else [cur.reverse]
  | b :: rest, cur => if b = 10 then cur.reverse :: splitNL rest [] else splitNL rest (b :: cur)

/-- `dropCR` of `bufio.ScanLines` -/
def dropCR (p : Bytes) : Bytes := if p.getLast? = some 13 then p.dropLast else p

section
variable (enc : Bytes → Bytes) (dec : Bytes → Option Bytes) (trim : Bytes → Bytes)

/-- `openHist`: the blocks of the decodable, non-empty records, in file order -/
def openHist (file : Bytes) : List Bytes :=
  (splitNL file []).filterMap fun p =>
    match dec (dropCR p) with
    | some b => if b = [] then none else some b
    | none => none

/-- `fileHistory.Write`: the file afterwards -/
def writeRec (file : Bytes) (line : Bytes) : Bytes :=
  let b := trim line
  if b = [] then file
  else (if file ≠ [] ∧ file.getLast? ≠ some 10 then file ++ [10] else file) ++ enc b ++ [10]

def writes (file : Bytes) (ls : List Bytes) : Bytes := ls.foldl (writeRec enc trim) file

/-- what the entries of a history are after writing `ls` -/
def entries (ls : List Bytes) : List Bytes := (ls.map trim).filter (· ≠ [])

/-- what is assumed of the codec, for the blocks `V` the application can write (valid UTF-8) -/
structure CodecLaws (V : Bytes → Prop) : Prop where
  roundtrip : ∀ b, V b → dec (enc b) = some b
  noNL : ∀ b, V b → 10 ∉ enc b
  noCR : ∀ b, V b → 13 ∉ enc b
  nonEmpty : ∀ b, V b → enc b ≠ []
  /-- a record cut short does not decode to anything -/
  prefixUndecodable : ∀ b k, V b → k < (enc b).length → dec ((enc b).take k) = none ∨ dec ((enc b).take k) = some []

end
end RLV.HistFile
