/-! Cursor position reports in what is read from the terminal (`Keys.extractCursorPos`,
internal/core/keys.go: the regular expression `\x1b\[([0-9]+);([0-9]+)R`, every match removed, the last
one kept as the report). -/
namespace RLV.Cpr

def isDigit (b : Nat) : Bool := 0x30 ≤ b && b ≤ 0x39

/-- the longest run of digits at the head -/
def digits : List Nat → List Nat × List Nat
  | [] => ([], [])
  | b :: t => if isDigit b then let r := digits t; (b :: r.1, r.2) else ([], b :: t)

/-- a report at the head: its length -/
def reportAt (l : List Nat) : Option Nat :=
  match l with
  | 0x1b :: 0x5b :: t =>
    let (d1, r1) := digits t
    if d1.isEmpty then none else
    match r1 with
    | 0x3b :: t2 =>
      let (d2, r2) := digits t2
      if d2.isEmpty then none else
      match r2 with
      | 0x52 :: _ => some (2 + d1.length + 1 + d2.length + 1)
      | _ => none
    | _ => none
  | _ => none

/-- (the last report, the bytes that are not part of a report) -/
def extract : Nat → List Nat → Option (List Nat) × List Nat
  | 0, l => (none, l)
  | _, [] => (none, [])
  | f+1, b :: t =>
    match reportAt (b :: t) with
    | some n =>
      let r := extract f ((b :: t).drop n)
      ((match r.1 with | some c => some c | none => some ((b :: t).take n)), r.2)
    | none =>
      let r := extract f t
      (r.1, b :: r.2)

end RLV.Cpr
