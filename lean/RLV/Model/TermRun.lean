import RLV.Model.Term
import RLV.Model.Disp
/-! The terminal model running the output tokens of the display engine (Model/Disp.lean): cursor
movements clamp at the edges and clear the pending wrap, erasures blank cells, text is printed with
the VT100 deferred wrap (`Term.put`). Rows are unbounded downwards ("paper": no scrolling). -/
namespace RLV.Term
open RLV.Disp

def blank : Nat := 32

def cub (t : Term) (n : Nat) : Term := { t with x := t.x - n, pw := false }
def cuf (t : Term) (n : Nat) : Term := { t with x := min (t.x + n) (t.w - 1), pw := false }
def cuu (t : Term) (n : Nat) : Term := { t with y := t.y - n, pw := false }
def cud (t : Term) (n : Nat) : Term := { t with y := t.y + n, pw := false }
def crlf (t : Term) : Term := { t with x := 0, y := t.y + 1, pw := false }

/-- `CSI 0 K`: from the cursor to the end of the row -/
def el0 (t : Term) : Term :=
  { t with cell := fun r c => if r = t.y ∧ t.x ≤ c then blank else t.cell r c }
/-- `CSI 1 K`: from the start of the row to the cursor -/
def el1 (t : Term) : Term :=
  { t with cell := fun r c => if r = t.y ∧ c ≤ t.x then blank else t.cell r c }
/-- `CSI 0 J`: from the cursor to the end of the screen -/
def ed0 (t : Term) : Term :=
  { t with cell := fun r c => if (r = t.y ∧ t.x ≤ c) ∨ t.y < r then blank else t.cell r c }

def step (t : Term) : Tk → Term
  | .hide | .show_ | .dsr => t
  | .el0 => t.el0
  | .el1 => t.el1
  | .ed0 => t.ed0
  | .crlf => t.crlf
  | .cub n => t.cub n
  | .cuf n => t.cuf n
  | .cuu n => t.cuu n
  | .cud n => t.cud n
  | .text s => t.puts s

def run (t : Term) (toks : List Tk) : Term := toks.foldl step t

/-- the cursor position, for token lists without text: a function of the position alone -/
def stepXY (w : Nat) (p : Nat × Nat) : Tk → Nat × Nat
  | .crlf => (0, p.2 + 1)
  | .cub n => (p.1 - n, p.2)
  | .cuf n => (min (p.1 + n) (w - 1), p.2)
  | .cuu n => (p.1, p.2 - n)
  | .cud n => (p.1, p.2 + n)
  | _ => p

def isText : Tk → Bool
  | .text _ => true
  | _ => false

theorem step_xy (t : Term) (k : Tk) (h : isText k = false) :
    ((t.step k).x, (t.step k).y) = stepXY t.w (t.x, t.y) k ∧ (t.step k).w = t.w := by
  cases k <;> simp_all [step, stepXY, isText, cub, cuf, cuu, cud, crlf, el0, el1, ed0]

theorem run_xy (toks : List Tk) : ∀ (t : Term), (∀ k ∈ toks, isText k = false) →
    ((t.run toks).x, (t.run toks).y) = toks.foldl (stepXY t.w) (t.x, t.y) ∧ (t.run toks).w = t.w := by
  induction toks with
  | nil => intro t _; exact ⟨rfl, rfl⟩
  | cons k ks ih =>
    intro t h
    have hk := step_xy t k (h k (by simp))
    have := ih (t.step k) (fun k' hk' => h k' (by simp [hk']))
    simp only [run, List.foldl_cons] at this ⊢
    rw [this.1, this.2, hk.2, hk.1]
    exact ⟨rfl, rfl⟩

end RLV.Term
