namespace RLV

/-- UTF-8 encoding of one rune, Go's `string(rune)` semantics (invalid → U+FFFD). -/
def encodeRune (r : Nat) : List Nat :=
  let r := if r > 0x10FFFF ∨ (0xD800 ≤ r ∧ r ≤ 0xDFFF) then 0xFFFD else r
  if r < 0x80 then [r]
  else if r < 0x800 then [0xC0 ||| (r >>> 6), 0x80 ||| (r &&& 0x3F)]
  else if r < 0x10000 then [0xE0 ||| (r >>> 12), 0x80 ||| ((r >>> 6) &&& 0x3F), 0x80 ||| (r &&& 0x3F)]
  else [0xF0 ||| (r >>> 18), 0x80 ||| ((r >>> 12) &&& 0x3F), 0x80 ||| ((r >>> 6) &&& 0x3F), 0x80 ||| (r &&& 0x3F)]

def utf8 (rs : List Nat) : List Nat := rs.flatMap encodeRune

def cont (b : Nat) : Bool := 0x80 ≤ b && b ≤ 0xBF

/-- Go's `utf8.DecodeRune`: (rune, width). Input non-empty. -/
def decodeRune : List Nat → Nat × Nat
  | [] => (0xFFFD, 0)
  | b0 :: t =>
    if b0 < 0x80 then (b0, 1)
    else if b0 < 0xC2 then (0xFFFD, 1)
    else if b0 < 0xE0 then
      match t with
      | b1 :: _ => if cont b1 then (((b0 &&& 0x1F) <<< 6) ||| (b1 &&& 0x3F), 2) else (0xFFFD, 1)
      | _ => (0xFFFD, 1)
    else if b0 < 0xF0 then
      let lo := if b0 = 0xE0 then 0xA0 else 0x80
      let hi := if b0 = 0xED then 0x9F else 0xBF
      match t with
      | b1 :: b2 :: _ =>
        if lo ≤ b1 ∧ b1 ≤ hi ∧ cont b2 then
          (((b0 &&& 0x0F) <<< 12) ||| ((b1 &&& 0x3F) <<< 6) ||| (b2 &&& 0x3F), 3)
        else (0xFFFD, 1)
      | _ => (0xFFFD, 1)
    else if b0 < 0xF5 then
      let lo := if b0 = 0xF0 then 0x90 else 0x80
      let hi := if b0 = 0xF4 then 0x8F else 0xBF
      match t with
      | b1 :: b2 :: b3 :: _ =>
        if lo ≤ b1 ∧ b1 ≤ hi ∧ cont b2 ∧ cont b3 then
          (((b0 &&& 0x07) <<< 18) ||| ((b1 &&& 0x3F) <<< 12) ||| ((b2 &&& 0x3F) <<< 6) ||| (b3 &&& 0x3F), 4)
        else (0xFFFD, 1)
      | _ => (0xFFFD, 1)
    else (0xFFFD, 1)

/-- `[]rune(string(bytes))` -/
def decodeAll : Nat → List Nat → List Nat
  | 0, _ => []
  | _, [] => []
  | n+1, bs =>
    let (r, w) := decodeRune bs
    r :: decodeAll n (bs.drop (max w 1))

def runesOfBytes (bs : List Nat) : List Nat := decodeAll bs.length bs

end RLV
