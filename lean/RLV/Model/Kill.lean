import RLV.Model.Sel
import RLV.Model.Tok
namespace RLV.Kill
open RLV.Core RLV.Sel

/-- Line.Find -/
def find (l : Line) (ch : Nat) (pos : Int) (fwd : Bool) : Int :=
  if len l = 0 then -1 else
  let pos := if pos < 0 then 0 else if pos > len l then len l else pos
  let rec go (f : Nat) (p : Int) : Int :=
    match f with
    | 0 => -1
    | f+1 =>
      let p := if fwd then p + 1 else p - 1
      if (fwd ∧ p > len l - 1) ∨ (¬fwd ∧ p < 0) then -1
      else if l.getD p.toNat 0 = ch then p else go f p
  go (l.length + 2) pos

/-- Cursor.EndOfLineAppend -/
def endOfLineAppend (l : Line) (c : Cur) : G Cur := do
  if ← onEmptyLine l c then return checkAppend l c
  let nl := find l 10 (c.pos - 1) true
  return checkAppend l { c with pos := if nl ≠ -1 then nl else len l }

/-- Cursor.BeginningOfLine -/
def beginningOfLine (l : Line) (c : Cur) : G Cur := do
  let nl := find l 10 c.pos false
  checkCommand l { c with pos := if nl ≠ -1 then nl + 1 else 0 }

structure St where
  line : Line
  cur : Cur
  sel : S := {}
  kill : List Nat := []      -- top of the kill ring (Buffers.GetKill)

def write (s : St) (t : List Nat) : St := if t.isEmpty then s else { s with kill := t }

def curSet (l : Line) (c : Cur) (p : Int) : Cur :=
  checkAppend l { c with pos := if p < 0 then 0 else if p > len l then len l else p }

/-- Shell.killLine -/
def killLine (s : St) : G St := do
  if len s.line = 0 then return s
  let cpos := (checkAppend s.line s.cur).pos
  let c1 ← endOfLineAppend s.line (checkAppend s.line s.cur)
  let sel := markRange s.line s.sel cpos (checkAppend s.line c1).pos
  let (t, l', sel') ← Sel.cut s.line sel c1
  let s := write { s with line := l', sel := sel', cur := c1 } t
  return { s with cur := curSet s.line s.cur cpos }

/-- Shell.backwardKillLine -/
def backwardKillLine (s : St) : G St := do
  if len s.line = 0 then return s
  let cpos := (checkAppend s.line s.cur).pos
  let c1 ← beginningOfLine s.line (checkAppend s.line s.cur)
  let sel := markRange s.line s.sel (checkAppend s.line c1).pos cpos
  let (t, l', sel') ← Sel.cut s.line sel c1
  return write { s with line := l', sel := sel', cur := c1 } t

/-- Shell.backwardKillWord -/
def backwardKillWord (s : St) : G St := do
  let c0 := checkAppend s.line s.cur
  let sel := mark s.line s.sel c0.pos
  let adj ← Tok.backward (Tok.tokenize s.line c0.pos)
  let c1 := checkAppend s.line { c0 with pos := c0.pos + adj }
  let (t, l', sel') ← Sel.cut s.line sel c1
  return write { s with line := l', sel := sel', cur := c1 } t

/-- Shell.yank (no numeric argument) -/
def yank (s : St) : G St := do
  let c := checkAppend s.line s.cur
  let l ← Core.insert s.line c.pos s.kill
  return { s with line := l, cur := { c with pos := c.pos + s.kill.length } }

end RLV.Kill

namespace RLV.Kill
open RLV.Core RLV.Sel

/-- Shell.killWholeLine (and killBuffer, the same body) -/
def killWholeLine (s : St) : G St := do
  if len s.line = 0 then return s
  let s1 := write s s.line
  let l ← Core.cut s1.line 0 (len s1.line)
  return { s1 with line := l }

/-- Shell.killRegion: the region is cut and the point goes where it was -/
def killRegion (s : St) : G St := do
  if !s.sel.active then return s
  let (b, _, sel1) ← Sel.pos s.line s.sel s.cur
  let (t, l', sel') ← Sel.cut s.line sel1 s.cur
  let s1 := write { s with line := l', sel := sel' } t
  return if b ≥ 0 then { s1 with cur := curSet s1.line s1.cur b } else s1

end RLV.Kill
