namespace RLV.Core

inductive Panic where
  | oob (what : String)
  /-- a reslice `s[:b]` with `len s < b`: Go panics only if `b > cap s`, and the capacity is not
  modelled, so the real code either panics or continues with stale backing-array contents.
  The correspondence check accepts either; no theorem treats this outcome as success. -/
  | beyond (what : String)
deriving Repr, DecidableEq

def Panic.show : Panic → String
  | .oob _ => "panic"
  | .beyond _ => "beyond"

abbrev G := Except Panic

abbrev Line := List Nat

def len (l : Line) : Int := l.length

/-- Go `l[a:]` -/
def from_ (l : Line) (a : Int) : G Line :=
  if a < 0 ∨ a > len l then .error (.oob "slice lo") else .ok (l.drop a.toNat)
/-- Go `l[:b]` (capacity approximated by length) -/
def upto (l : Line) (b : Int) : G Line :=
  if b < 0 then .error (.oob "slice hi") else if b > len l then .error (.beyond "slice hi")
  else .ok (l.take b.toNat)
/-- Go `l[i]` -/
def at_ (l : Line) (i : Int) : G Nat :=
  if i < 0 ∨ i ≥ len l then .error (.oob "index") else .ok (l.getD i.toNat 0)

/-- strip trailing NULs while more than one char remains (Line.Insert's loop) -/
def stripZerosAux : Nat → List Nat → List Nat
  | 0, cs => cs
  | n+1, cs => if cs.length > 1 ∧ cs.getLast? = some 0 then stripZerosAux n cs.dropLast else cs

def stripZeros (cs : List Nat) : List Nat := stripZerosAux cs.length cs

def insert (l : Line) (pos : Int) (chars : List Nat) : G Line := do
  let chars := stripZeros chars
  if pos < 0 ∨ pos > len l then return l
  if len l = 0 then return chars
  if pos < len l then
    let fwd ← from_ l pos
    let pre ← upto l pos
    return pre ++ chars ++ fwd
  else return l ++ chars

def checkRange (l : Line) (b e : Int) : Int × Int × Bool :=
  if b = -1 ∧ e = -1 then (-1, -1, false) else
  let e := if e > len l then len l else e
  let b := if b < 0 then 0 else b
  if e > -1 ∧ e < b then (e, b, true) else (b, e, true)

def insertBetween (l : Line) (b e : Int) (chars : List Nat) : G Line := do
  let (b, e, ok) := checkRange l b e
  if !ok then return l
  if e = -1 then insert l b chars
  else if e = len l then
    let pre ← upto l b
    return pre ++ chars
  else
    let fwd ← from_ l e
    let pre ← upto l b
    return pre ++ chars ++ fwd

def cut (l : Line) (b e : Int) : G Line := do
  let (b, e, ok) := checkRange l b e
  if !ok then return l
  if e = -1 then upto l b
  else
    let fwd ← from_ l e
    let pre ← upto l b
    return pre ++ fwd

def cutRune (l : Line) (pos : Int) : G Line := do
  if pos < 0 ∨ pos > len l ∨ len l = 0 then return l
  if pos = 0 then from_ l 1
  else if pos = len l then upto l (pos - 1)
  else
    let fwd ← from_ l (pos + 1)
    let pre ← upto l pos
    return pre ++ fwd

structure Cur where
  pos : Int
  mark : Int
deriving Repr, DecidableEq

def checkAppend (l : Line) (c : Cur) : Cur :=
  let pos := if c.pos < 0 then 0 else c.pos
  let pos := if pos > len l then len l else pos
  let mark := if c.mark < -1 then -1 else c.mark
  let mark := if mark > len l - 1 then -1 else mark
  ⟨pos, mark⟩

def onEmptyLine (l : Line) (c : Cur) : G Bool := do
  if len l = 0 then return true
  if c.pos = 0 then return (← at_ l c.pos) == 10
  else if c.pos = len l then return (← at_ l (c.pos - 1)) == 10
  let u ← at_ l c.pos
  let b ← at_ l (c.pos - 1)
  return u == 10 && b == 10

def charAt (l : Line) (c : Cur) : G Nat := do
  let c := checkAppend l c
  if len l = 0 then return 0
  if c.pos ≥ len l then return 0
  at_ l c.pos

def checkCommand (l : Line) (c : Cur) : G Cur := do
  let c := checkAppend l c
  let c ← (do
    if c.pos = len l ∧ !(← onEmptyLine l c) then pure { c with pos := c.pos - 1 } else pure c)
  if len l > 0 ∧ c.pos < len l ∧ (← charAt l c) = 10 ∧ !(← onEmptyLine l c) then
    -- Dec
    return { c with pos := if c.pos > 0 then c.pos - 1 else c.pos }
  return c

/-- C06: CheckAppend puts the cursor inside the buffer, whatever it was. -/
theorem checkAppend_range (l : Line) (c : Cur) :
    0 ≤ (checkAppend l c).pos ∧ (checkAppend l c).pos ≤ len l ∧
    ((checkAppend l c).mark = -1 ∨ (0 ≤ (checkAppend l c).mark ∧ (checkAppend l c).mark ≤ len l - 1)) := by
  have hl : 0 ≤ len l := by unfold len; omega
  unfold checkAppend
  simp only
  refine ⟨?_, ?_, ?_⟩ <;> (repeat' split) <;> omega

end RLV.Core
