import RLV.Model.Esc
/-! The keyboard-macro engine (internal/macro/engine.go): `StartRecord`, `RecordKeys` (called at the top
of every iteration of the main loop with the keys that matched the previous command), `StopRecord`,
`RunLastMacro` / `RunMacro` (which only FEED the keys of the macro back into the key stack).
The stored form is the inputrc notation (`EscapeMacro`), replay goes through `Unescape`. -/
namespace RLV.Macro
open RLV

structure Eng where
  recording : Bool := false
  started : Bool := false
  current : List Nat := []
  /-- the last recorded macro, in inputrc notation -/
  stored : Option (List Nat) := none
deriving Repr

/-- `StartRecord` -/
def startRecord (m : Eng) : Eng := { m with started := true, recording := true }

/-- `RecordKeys` with the keys `core.MacroKeys` returns (the keys that matched the last command;
nothing while a prefix is pending) -/
def recordKeys (m : Eng) (keys : List Nat) : Eng :=
  if !m.recording then m
  else if keys.isEmpty then m
  else { m with current := if !m.started then m.current ++ keys else m.current, started := false }

/-- `StopRecord(keys...)` -/
def stopRecord (m : Eng) (keys : List Nat) : Eng :=
  if m.current.isEmpty then { m with recording := false }
  else { m with recording := false, stored := some (Esc.escape true (m.current ++ keys)), current := [] }

/-- `RunLastMacro` / `RunMacro`: the keys fed to the key stack -/
def runLast (m : Eng) : List Nat :=
  match m.stored with
  | none => []
  | some s => Esc.unescape s

/-- a recording session as the main loop sees it: the command that starts the recording (its own
keys are the first ones handed to `RecordKeys`, and are skipped), then one `RecordKeys` per command
with that command's keys, then the command that stops it -/
def recordSession (m : Eng) (startKeys : List Nat) (cmds : List (List Nat)) : Eng :=
  stopRecord (cmds.foldl recordKeys (recordKeys (startRecord m) startKeys)) []

end RLV.Macro
