namespace RLV

/-- VT100 "paper" model: unbounded rows, `w` columns, pending-wrap flag. -/
structure Term where
  w : Nat
  cell : Nat → Nat → Nat
  x : Nat
  y : Nat
  pw : Bool

namespace Term

def WF (t : Term) : Prop := 0 < t.w ∧ t.x < t.w ∧ (t.pw = true → t.x = t.w - 1)

/-- column / row the next glyph goes to -/
def nx (t : Term) : Nat := if t.pw then 0 else t.x
def ny (t : Term) : Nat := if t.pw then t.y + 1 else t.y

/-- linear index of the cell the next glyph goes to -/
def L (t : Term) : Nat := t.ny * t.w + t.nx

/-- print one width-1 glyph -/
def put (t : Term) (g : Nat) : Term :=
  { w := t.w
    cell := fun r c => if r = t.ny ∧ c = t.nx then g else t.cell r c
    x := if t.nx + 1 ≥ t.w then t.w - 1 else t.nx + 1
    y := t.ny
    pw := decide (t.nx + 1 ≥ t.w) }

def puts (t : Term) (gs : List Nat) : Term := gs.foldl put t

@[simp] theorem put_w (t : Term) (g : Nat) : (t.put g).w = t.w := rfl

theorem nx_lt (t : Term) (h : t.WF) : t.nx < t.w := by
  obtain ⟨hw, hx, _⟩ := h
  unfold nx; split <;> omega

theorem put_WF (t : Term) (g : Nat) (h : t.WF) : (t.put g).WF := by
  have hn := nx_lt t h
  obtain ⟨hw, hx, hp⟩ := h
  refine ⟨hw, ?_, ?_⟩
  · show (if t.nx + 1 ≥ t.w then t.w - 1 else t.nx + 1) < t.w
    split <;> omega
  · intro hpw
    show (if t.nx + 1 ≥ t.w then t.w - 1 else t.nx + 1) = t.w - 1
    have : t.nx + 1 ≥ t.w := by simpa [put] using hpw
    simp [this]

theorem L_div_mod (t : Term) (h : t.WF) : t.L / t.w = t.ny ∧ t.L % t.w = t.nx := by
  have hn := nx_lt t h
  obtain ⟨hw, _, _⟩ := h
  unfold L
  constructor
  · rw [Nat.mul_comm, Nat.mul_add_div hw, Nat.div_eq_of_lt hn]; simp
  · rw [Nat.mul_comm, Nat.mul_add_mod, Nat.mod_eq_of_lt hn]

theorem put_nx (t : Term) (g : Nat) :
    (t.put g).nx = if t.nx + 1 ≥ t.w then 0 else t.nx + 1 := by
  show (if decide (t.nx + 1 ≥ t.w) = true then 0
        else (if t.nx + 1 ≥ t.w then t.w - 1 else t.nx + 1)) = _
  by_cases hc : t.nx + 1 ≥ t.w <;> simp [hc]

theorem put_ny (t : Term) (g : Nat) :
    (t.put g).ny = if t.nx + 1 ≥ t.w then t.ny + 1 else t.ny := by
  show (if decide (t.nx + 1 ≥ t.w) = true then t.ny + 1 else t.ny) = _
  by_cases hc : t.nx + 1 ≥ t.w <;> simp [hc]

theorem put_L (t : Term) (g : Nat) (h : t.WF) : (t.put g).L = t.L + 1 := by
  have hn := nx_lt t h
  obtain ⟨hw, _, _⟩ := h
  unfold L
  rw [put_nx, put_ny, put_w]
  by_cases hc : t.nx + 1 ≥ t.w
  · simp only [hc, if_true]; rw [Nat.add_mul]; omega
  · simp only [hc, if_false]; omega

theorem put_cell (t : Term) (g : Nat) (h : t.WF) (r c : Nat) :
    (t.put g).cell r c = if r = t.L / t.w ∧ c = t.L % t.w then g else t.cell r c := by
  obtain ⟨hd, hm⟩ := L_div_mod t h
  rw [hd, hm]; rfl

/-- the linear index of a cell determines the cell (for columns inside the width) -/
theorem lin_inj {w r c k : Nat} (hw : 0 < w) (hc : c < w) :
    (r = k / w ∧ c = k % w) ↔ r * w + c = k := by
  constructor
  · rintro ⟨rfl, rfl⟩
    rw [Nat.mul_comm]; exact Nat.div_add_mod k w
  · rintro rfl
    constructor
    · rw [Nat.mul_comm, Nat.mul_add_div hw, Nat.div_eq_of_lt hc]; simp
    · rw [Nat.mul_comm, Nat.mul_add_mod, Nat.mod_eq_of_lt hc]

/-- Printing a string of width-1 glyphs writes glyph `i` at linear index `L + i`,
touches nothing else, and advances the linear index by the length. -/
theorem puts_spec (gs : List Nat) : ∀ (t : Term), t.WF →
    (t.puts gs).WF ∧ (t.puts gs).w = t.w ∧ (t.puts gs).L = t.L + gs.length ∧
    ∀ r c, c < t.w → (t.puts gs).cell r c =
      if t.L ≤ r * t.w + c ∧ r * t.w + c < t.L + gs.length
      then gs.getD (r * t.w + c - t.L) 0 else t.cell r c := by
  induction gs with
  | nil =>
    intro t h
    refine ⟨h, rfl, rfl, ?_⟩
    intro r c _
    have : ¬ (t.L ≤ r * t.w + c ∧ r * t.w + c < t.L + ([] : List Nat).length) := by
      simp only [List.length_nil]; omega
    simp only [this, if_false]; rfl
  | cons g gs ih =>
    intro t h
    have hwf := put_WF t g h
    obtain ⟨h1, h2, h3, h4⟩ := ih (t.put g) hwf
    have hL := put_L t g h
    have e : t.puts (g :: gs) = (t.put g).puts gs := rfl
    rw [e]
    refine ⟨h1, by simpa using h2, by simp only [List.length_cons]; omega, ?_⟩
    intro r c hc
    have h4' := h4 r c (by simpa using hc)
    rw [put_w, hL] at h4'
    rw [h4', put_cell t g h]
    have hinj := @lin_inj t.w r c t.L h.1 hc
    by_cases hk : r * t.w + c = t.L
    · have hh : (r = t.L / t.w ∧ c = t.L % t.w) := hinj.mpr hk
      have hin : ¬ (t.L + 1 ≤ r * t.w + c ∧ r * t.w + c < t.L + 1 + gs.length) := by omega
      have hin' : t.L ≤ r * t.w + c ∧ r * t.w + c < t.L + (g :: gs).length := by
        simp only [List.length_cons]; omega
      rw [if_neg hin, if_pos hh, if_pos hin', hk, Nat.sub_self]; rfl
    · have hne : ¬ (r = t.L / t.w ∧ c = t.L % t.w) := fun hh => hk (hinj.mp hh)
      by_cases hin : t.L + 1 ≤ r * t.w + c ∧ r * t.w + c < t.L + 1 + gs.length
      · have hin' : t.L ≤ r * t.w + c ∧ r * t.w + c < t.L + (g :: gs).length := by
          simp only [List.length_cons]; omega
        have hidx : r * t.w + c - t.L = (r * t.w + c - (t.L + 1)) + 1 := by omega
        rw [if_pos hin, if_pos hin', hidx]; rfl
      · have hin' : ¬ (t.L ≤ r * t.w + c ∧ r * t.w + c < t.L + (g :: gs).length) := by
          simp only [List.length_cons]; omega
        rw [if_neg hin, if_neg hne, if_neg hin']

end Term
end RLV
