import RLV.Model.Uni
namespace RLV.Esc

/-! `inputrc.escape` / `inputrc.unescapeRunes` (inputrc/inputrc.go, inputrc/parse.go) as they are in the
tree (after the `fix:` commits for the hex increments and `needsHex`). Runes are `Nat`s. -/

def bs : Nat := 0x5c

def grab (r : List Nat) (i : Nat) : Nat := r.getD i 0

def octDigit (c : Nat) : Bool := 0x30 ≤ c && c ≤ 0x37
def hexDigit (c : Nat) : Bool :=
  (0x30 ≤ c && c ≤ 0x39) || (0x41 ≤ c && c ≤ 0x46) || (0x61 ≤ c && c ≤ 0x66)
def hexVal (c : Nat) : Nat :=
  if 0x61 ≤ c && c ≤ 0x66 then c - 0x61 + 10
  else if 0x41 ≤ c && c ≤ 0x46 then c - 0x41 + 10
  else c - 0x30

/-- `unicode.ToUpper` below 0x100, written out (tied to the generated table by `toUpperLo_gen`) -/
def toUpperLo (c : Nat) : Nat :=
  if 0x61 ≤ c && c ≤ 0x7a then c - 32
  else if c == 0xb5 then 0x39c
  else if (0xe0 ≤ c && c ≤ 0xfe) && c != 0xf7 then c - 32
  else if c == 0xff then 0x178 else c

/-- `unicode.ToUpper`: written out below 0x100, the generated table above -/
def toUpper (c : Nat) : Nat := if c < 256 then toUpperLo c else Uni.toUpper c

def encontrol (c : Nat) : Nat := (toUpper c) &&& 0x1f
def enmeta (c : Nat) : Nat := c ||| 0x80

/-- `simpleEscape`: the character a backslash followed by `c` stands for (one-letter escapes, escaped
backslash and quotes), 0 otherwise -/
def simpleEsc (c : Nat) : Nat :=
  if c = 0x61 then 7 else if c = 0x62 then 8 else if c = 0x64 then 0x7f else if c = 0x65 then 0x1b
  else if c = 0x66 then 12 else if c = 0x6e then 10 else if c = 0x72 then 13 else if c = 0x74 then 9
  else if c = 0x76 then 11 else if c = bs ∨ c = 0x22 ∨ c = 0x27 then c else 0

def escStep (r : List Nat) : List Nat × Nat :=
  let c1 := grab r 1; let c2 := grab r 2; let c3 := grab r 3
  let c4 := grab r 4; let c5 := grab r 5
  if c1 = 0x61 then ([7], 1)
  else if c1 = 0x62 then ([8], 1)
  else if c1 = 0x64 then ([0x7f], 1)
  else if c1 = 0x65 then ([0x1b], 1)
  else if c1 = 0x66 then ([12], 1)
  else if c1 = 0x6e then ([10], 1)
  else if c1 = 0x72 then ([13], 1)
  else if c1 = 0x74 then ([9], 1)
  else if c1 = 0x76 then ([11], 1)
  else if c1 = bs ∨ c1 = 0x22 ∨ c1 = 0x27 then ([c1], 1)
  else if c1 = 0x78 ∧ hexDigit c2 ∧ hexDigit c3 then ([hexVal c2 * 16 ||| hexVal c3], 3)   -- repaired
  else if c1 = 0x78 ∧ hexDigit c2 then ([hexVal c2], 2)                                      -- repaired
  else if octDigit c1 ∧ octDigit c2 ∧ octDigit c3 then
    ([((c1 - 0x30) <<< 6) ||| ((c2 - 0x30) <<< 3) ||| (c3 - 0x30)], 3)
  else if octDigit c1 ∧ octDigit c2 then ([((c1 - 0x30) <<< 3) ||| (c2 - 0x30)], 2)
  else if octDigit c1 then ([c1 - 0x30], 1)
  else if ((c1 = 0x43 ∧ c4 = 0x4d) ∨ (c1 = 0x4d ∧ c4 = 0x43)) ∧ c2 = 0x2d ∧ c3 = bs ∧ c5 = 0x2d then
    let c6 := grab r 6
    (if c6 ≠ 0 then [0x1b, encontrol c6] else [], 6)
  else if c1 = 0x43 ∧ c2 = 0x2d ∧ c3 = bs ∧ simpleEsc c4 ≠ 0 then ([encontrol (simpleEsc c4)], 4)   -- repaired
  else if c1 = 0x43 ∧ c2 = 0x2d then
    (if c3 = 0x3f then [0x7f] else [encontrol c3], 3)
  else if c1 = 0x4d ∧ c2 = 0x2d ∧ c3 = bs ∧ simpleEsc c4 ≠ 0 then ([enmeta (simpleEsc c4)], 4)      -- repaired
  else if c1 = 0x4d ∧ c2 = 0x2d then
    if c3 = 0 then ([0x1b], 2) else ([enmeta c3], 3)
  else ([c1], 1)

def unescF : Nat → List Nat → List Nat
  | 0, _ => []
  | _, [] => []
  | n+1, c :: t =>
    if c = bs then
      let s := escStep (c :: t)
      s.1 ++ unescF n (t.drop s.2)
    else c :: unescF n t

def unescape (r : List Nat) : List Nat :=
  if r.length = 1 then r else unescF r.length r

/-- `unicode.IsPrint` below 0x100, written out (tied to the generated table by `isPrintLo_gen`) -/
def isPrintLo (c : Nat) : Bool :=
  (0x20 ≤ c && c ≤ 0x7e) || (0xa1 ≤ c && c ≤ 0xac) || (0xae ≤ c && c ≤ 0xff)

def hexChar (n : Nat) : Nat := if n < 10 then 0x30 + n else 0x61 + (n - 10)

def needsHex (c : Nat) : Bool :=
  c == 0x1c ||
  ((0x80 ≤ c && c ≤ 0xff) &&
    (let d := c - 0x80; !isPrintLo d || d == bs || d == 0x22 || d == 0x27))

/-- lowercase hexadecimal digits of `n` (`%x`), most significant first -/
def hexDigitsAux : Nat → Nat → List Nat → List Nat
  | 0, _, acc => acc
  | f+1, n, acc => if n < 16 then hexChar n :: acc else hexDigitsAux f (n / 16) (hexChar (n % 16) :: acc)
def hexDigits (n : Nat) : List Nat := hexDigitsAux 8 n []

/-- one rune of `escape` (macro = `EscapeMacro`), for c ≤ 0xff or printable -/
def escape1 (mac : Bool) (c : Nat) : List Nat :=
  if c = 7 then [bs, 0x61] else if c = 8 then [bs, 0x62]
  else if c = 0x7f then (if mac then [bs, 0x64] else [bs, 0x43, 0x2d, 0x3f])
  else if c = 0x1b then [bs, 0x65] else if c = 12 then [bs, 0x66] else if c = 10 then [bs, 0x6e]
  else if c = 13 then (if mac then [bs, 0x72] else [bs, 0x43, 0x2d, 0x4d])
  else if c = 9 then [bs, 0x74] else if c = 11 then [bs, 0x76]
  else if c = bs ∨ c = 0x22 ∨ c = 0x27 then [bs, c]
  else if needsHex c then [bs, 0x78, hexChar (c / 16), hexChar (c % 16)]
  else if c < 0x20 then [bs, 0x43, 0x2d, toUpper (c ||| 0x40)]
  else if 0x80 ≤ c ∧ c ≤ 0xff then [bs, 0x4d, 0x2d, c - 0x80]
  else if c < 256 ∨ Uni.isPrint c then [c]
  else bs :: 0x78 :: hexDigits c          -- `\x%2x`: at least three digits above 0xff

def escape (mac : Bool) (s : List Nat) : List Nat := s.flatMap (escape1 mac)

/-- the written-out Latin-1 tables are the toolchain's (regenerated every run) -/
theorem toUpperLo_gen : ∀ c, c < 256 → toUpperLo c = Uni.toUpper c := by decide +kernel
theorem isPrintLo_gen : ∀ c, c < 256 → isPrintLo c = Uni.isPrint c := by decide +kernel

end RLV.Esc
