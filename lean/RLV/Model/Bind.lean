namespace RLV

structure Bind where
  action : String
  isMacro : Bool
deriving DecidableEq, Repr, Inhabited

def Bind.none : Bind := ⟨"", false⟩

abbrev Seq := List Nat

/-- One pass of `matchBind`: last exact match (or none) and whether a longer bind has `keys` as prefix. -/
def matchBind (keys : Seq) (tbl : List (Seq × Bind)) : Bind × Bool :=
  tbl.foldl (fun acc e =>
    (if keys = e.1 then e.2 else acc.1,
     acc.2 || (decide (keys.length < e.1.length) && keys.isPrefixOf e.1))) (Bind.none, false)

structure DResult where
  bind : Bind
  pfx : Bool
  read : Seq
  matched : Seq
  rest : Seq
  prefixed : Bind
deriving DecidableEq, Repr

def dispatch (tbl : List (Seq × Bind)) :
    (ks read matched : Seq) → (pfx : Bool) → (prefixed active : Bind) → DResult
  | [], read, matched, pfx, prefixed, active => ⟨active, pfx, read, matched, [], prefixed⟩
  | k :: ks, read, matched, _, prefixed, active =>
    let read' := read ++ [k]
    let r := matchBind read' tbl
    if r.1.action = "" ∧ r.2 = false then
      ⟨prefixed, false, read', matched, ks, Bind.none⟩
    else if r.2 then
      dispatch tbl ks read' (matched ++ [k]) true (if r.1.action ≠ "" then r.1 else prefixed) active
    else ⟨r.1, false, read', matched ++ [k], ks, Bind.none⟩

/-- spec-level views of the table -/
def hasProperExt (keys : Seq) (tbl : List (Seq × Bind)) : Bool :=
  tbl.any (fun e => decide (keys.length < e.1.length) && keys.isPrefixOf e.1)

def lastExact (keys : Seq) (tbl : List (Seq × Bind)) : Bind :=
  tbl.foldl (fun acc e => if keys = e.1 then e.2 else acc) Bind.none

theorem matchBind_eq (keys : Seq) (tbl : List (Seq × Bind)) :
    matchBind keys tbl = (lastExact keys tbl, hasProperExt keys tbl) := by
  unfold matchBind lastExact hasProperExt
  suffices h : ∀ (b : Bind) (p : Bool),
      tbl.foldl (fun acc e =>
        (if keys = e.1 then e.2 else acc.1,
         acc.2 || (decide (keys.length < e.1.length) && keys.isPrefixOf e.1))) (b, p)
      = (tbl.foldl (fun acc e => if keys = e.1 then e.2 else acc) b,
         p || tbl.any (fun e => decide (keys.length < e.1.length) && keys.isPrefixOf e.1)) by
    simpa using h Bind.none false
  induction tbl with
  | nil => intro b p; simp
  | cons e t ih =>
    intro b p
    simp only [List.foldl_cons, List.any_cons]
    rw [ih]
    simp [Bool.or_assoc]

end RLV
