import RLV.Model.Uni
/-! Recording accepted lines (internal/history/sources.go: `NewSources`' history-size derivation,
`Sources.Write`, `Sources.Accept`; internal/history/history.go and file.go for the two kinds of
source). The bound sources live in a Go map: the loop of `Write` visits them in an unspecified
order. In the model they are an association list and `write` maps over it — each source's outcome
is a function of that source alone, so the order cannot matter (`Props/C08`). -/
namespace RLV.HistW

abbrev Str := List Nat

/-- `strings.TrimSpace` -/
def trim (l : Str) : Str := ((l.dropWhile Uni.isSpace).reverse.dropWhile Uni.isSpace).reverse

inductive Kind | memory | file
deriving Repr, DecidableEq

structure Src where
  kind : Kind
  entries : List Str          -- oldest first (for a file source: the in-memory view `h.lines`)
deriving Repr, DecidableEq

/-- `Source.GetLine`: `none` is an error value -/
def Src.getLine (s : Src) (i : Int) : Option Str :=
  match s.kind with
  | .memory =>
    if s.entries.isEmpty then some [] else
    if i < 0 ∨ i ≥ s.entries.length then none else some (s.entries.getD i.toNat [])
  | .file =>
    if i < 0 then none else if i < s.entries.length then some (s.entries.getD i.toNat []) else none

/-- `Source.Write` -/
def Src.write (s : Src) (line : Str) : Src :=
  match s.kind with
  | .memory => { s with entries := s.entries ++ [line] }
  | .file =>
    let b := trim line
    if b = [] then s
    else if s.entries.getLast? = some b then s
    else { s with entries := s.entries ++ [b] }

/-- `NewSources`: `maxEntries` from the `history-size` variable (`none`: not an int variable /
unset; the library's default configuration holds the int 0) -/
def maxEntries (histSizeInt : Int) (histSizeIsNonEmptyString : Bool) : Int :=
  if histSizeInt = 0 ∧ !histSizeIsNonEmptyString then -1
  else if histSizeInt = 0 ∧ histSizeIsNonEmptyString then 500
  else histSizeInt

/-- the duplicate test of `Sources.Write`: `last, err := GetLine(Len()-1)`;
`err == nil && last != "" && TrimSpace(last) == TrimSpace(line)` -/
def lastDup (s : Src) (line : Str) : Bool :=
  match s.getLine ((s.entries.length : Int) - 1) with
  | some last => !last.isEmpty && trim last == trim line
  | none => false

/-- the body of the loop of `Sources.Write` for one source -/
def writeOne (maxE : Int) (line : Str) (s : Src) : Src :=
  if maxE = 0 ∨ (maxE > 0 ∧ (s.entries.length : Int) ≥ maxE) then s
  else if lastDup s line then s
  else s.write line

/-- `Sources.Write(infer)` -/
def write (infer : Bool) (maxE : Int) (line : Str) (srcs : List (Str × Src)) : List (Str × Src) :=
  if infer then srcs
  else if (trim line).isEmpty then srcs
  else srcs.map fun e => (e.1, writeOne maxE line e.2)

/-- `Sources.Accept(hold, infer, err)`: the sources afterwards (`err`: an error is returned with the line) -/
def accept (infer err : Bool) (maxE : Int) (line : Str) (srcs : List (Str × Src)) : List (Str × Src) :=
  if err then srcs else write infer maxE line srcs

end RLV.HistW
